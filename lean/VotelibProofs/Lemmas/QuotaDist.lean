/-
  Helper lemmas for C02: Python number primitives vs. Mathlib floor/ceil, dict operations of the
  QuotaDistributor model, the whole-quota loop without binding caps, the subtract loop, the remainder stage.
-/
import VotelibModel.QuotaDist
import VotelibModel.Gen.Quota
import VotelibProofs.Lemmas.NBest
import VotelibProofs.Props.C09
import Mathlib.Data.Rat.Floor
import Mathlib.Data.Rat.Lemmas
import Mathlib.Algebra.Order.Floor.Ring
import Mathlib.Tactic.Linarith
import Mathlib.Tactic.Ring
import Mathlib.Tactic.FieldSimp
namespace VL

theorem rat_floor_eq (r : Rat) : r.floor = ⌊r⌋ := rfl
theorem rat_ceil_eq (r : Rat) : r.ceil = ⌈r⌉ := by
  rw [Rat.ceil_eq_neg_floor_neg]; rfl

theorem pyInt_nonneg {r : Rat} (h : 0 ≤ r) : Py.pyInt r = ⌊r⌋ := by
  unfold Py.pyInt; rw [if_pos h]; rfl

theorem pyCeil_eq (r : Rat) : Py.pyCeil r = ⌈r⌉ := rat_ceil_eq r

/-- a rational with denominator at most 2 is half an integer -/
theorem half_int_of_den_le_two {x : Rat} (h : x.den ≤ 2) : ∃ m : Int, x = (m : Rat) / 2 := by
  have hpos := x.den_pos
  have hx := Rat.num_div_den x
  rcases (by omega : x.den = 1 ∨ x.den = 2) with h1 | h2
  · refine ⟨2 * x.num, ?_⟩
    rw [h1] at hx
    push_cast
    rw [← hx]; simp
  · refine ⟨x.num, ?_⟩
    rw [h2] at hx
    push_cast at hx
    exact hx.symm

theorem ceil_half_int (m : Int) : ⌈(m : Rat) / 2⌉ = ⌊(m : Rat) / 2 + 1 / 2⌋ := by
  rcases Int.even_or_odd' m with ⟨k, rfl | rfl⟩
  · have e1 : ((2 * k : Int) : Rat) / 2 = (k : Rat) := by push_cast; ring
    rw [e1, Int.ceil_intCast]
    symm; rw [Int.floor_eq_iff]; constructor <;> linarith
  · have e1 : ((2 * k + 1 : Int) : Rat) / 2 = (k : Rat) + 1 / 2 := by push_cast; ring
    rw [e1]
    have : ⌈(k : Rat) + 1 / 2⌉ = k + 1 := by
      rw [Int.ceil_eq_iff]; push_cast; constructor <;> linarith
    rw [this]
    symm; rw [Int.floor_eq_iff]; push_cast; constructor <;> linarith

theorem den_two_of_half {x : Rat} (h : x - (⌊x⌋ : Rat) = 1 / 2) : x.den = 2 := by
  have : x = (1 / 2 : Rat) + ((⌊x⌋ : Int) : Rat) := by linarith
  rw [this, Rat.add_intCast_den]
  decide +kernel

/-- `_round_half_up` rounds to the nearest integer, halves up -/
theorem round_half_up_eq (x : Rat) : Gen.Quota.round_half_up x = ⌊x + 1 / 2⌋ := by
  unfold Gen.Quota.round_half_up
  by_cases hd : x.den ≤ 2
  · have : Py.denLe x 2 = true := by simp [Py.denLe, hd]
    rw [if_pos this, pyCeil_eq]
    obtain ⟨m, rfl⟩ := half_int_of_den_le_two hd
    exact ceil_half_int m
  · have : ¬ (Py.denLe x 2 = true) := by simp [Py.denLe, hd]
    rw [if_neg this]
    have hfl := Int.floor_le x
    have hlt := Int.lt_floor_add_one x
    have key : ∀ f : Int, f = ⌊x⌋ →
        (if x - (f : Rat) < 1 / 2 then f else if (1 : Rat) / 2 < x - (f : Rat) then f + 1
          else if f % 2 = 0 then f else f + 1) = ⌊x + 1 / 2⌋ := by
      intro f hf
      subst hf
      by_cases h1 : x - (⌊x⌋ : Rat) < 1 / 2
      · rw [if_pos h1]; symm; rw [Int.floor_eq_iff]; constructor <;> linarith
      · rw [if_neg h1]
        by_cases h2 : (1 : Rat) / 2 < x - (⌊x⌋ : Rat)
        · rw [if_pos h2]; symm; rw [Int.floor_eq_iff]; push_cast; constructor <;> linarith
        · exfalso
          have : x - (⌊x⌋ : Rat) = 1 / 2 := le_antisymm (not_lt.mp h2) (not_lt.mp h1)
          have := den_two_of_half this
          omega
    exact key x.floor rfl


namespace QD

/-! ### dict operations -/

theorem foldl_add_eq (s : Sel) (a : Int) :
    s.foldl (fun acc p => acc + p.2) a = a + (s.map (·.2)).sum := by
  induction s generalizing a with
  | nil => simp
  | cons x xs ih => simp only [List.foldl_cons, List.map_cons, List.sum_cons]; rw [ih]; ring

theorem sumK_eq (s : Sel) : sumK s = (s.map (·.2)).sum := by
  unfold sumK; rw [foldl_add_eq]; simp

theorem sumK_nil : sumK [] = 0 := rfl

theorem sumK_cons (p : Key × Int) (s : Sel) : sumK (p :: s) = p.2 + sumK s := by
  simp [sumK_eq]

theorem sumK_append (s t : Sel) : sumK (s ++ t) = sumK s + sumK t := by
  simp [sumK_eq]

theorem sumI_eq (m : IMap) : sumI m = (m.map (·.2)).sum := by
  unfold sumI
  have : ∀ a : Int, m.foldl (fun acc p => acc + p.2) a = a + (m.map (·.2)).sum := by
    induction m with
    | nil => simp
    | cons x xs ih => intro a; simp only [List.foldl_cons, List.map_cons, List.sum_cons]; rw [ih]; ring
  rw [this]; simp

/-- keys of a dict are distinct -/
def KNodup (s : Sel) : Prop := (s.map (·.1)).Nodup

theorem getK_nil (k : Key) (d : Int) : getK [] k d = d := rfl

theorem getK_cons (p : Key × Int) (s : Sel) (k : Key) (d : Int) :
    getK (p :: s) k d = if p.1 = k then p.2 else getK s k d := by
  unfold getK
  rw [List.find?_cons]
  by_cases h : p.1 = k <;> simp [h]

theorem hasK_cons (p : Key × Int) (s : Sel) (k : Key) :
    hasK (p :: s) k = (decide (p.1 = k) || hasK s k) := by
  simp [hasK]

theorem hasK_iff (s : Sel) (k : Key) : hasK s k = true ↔ k ∈ s.map (·.1) := by
  unfold hasK
  simp only [List.any_eq_true, decide_eq_true_eq, List.mem_map]

theorem getK_of_not_hasK {s : Sel} {k : Key} (h : hasK s k = false) (d : Int) : getK s k d = d := by
  induction s with
  | nil => rfl
  | cons p ps ih =>
    rw [hasK_cons] at h
    simp only [Bool.or_eq_false_iff, decide_eq_false_iff_not] at h
    rw [getK_cons, if_neg h.1, ih h.2]

theorem setK_of_not_hasK {s : Sel} {k : Key} (h : hasK s k = false) (v : Int) :
    setK s k v = s ++ [(k, v)] := by
  induction s with
  | nil => rfl
  | cons p ps ih =>
    rw [hasK_cons] at h
    simp only [Bool.or_eq_false_iff, decide_eq_false_iff_not] at h
    simp only [setK, if_neg h.1, ih h.2, List.cons_append]

theorem getK_setK_self (s : Sel) (k : Key) (v d : Int) : getK (setK s k v) k d = v := by
  induction s with
  | nil => simp [setK, getK_cons]
  | cons p ps ih =>
    simp only [setK]
    by_cases h : p.1 = k
    · rw [if_pos h, getK_cons]; simp
    · rw [if_neg h, getK_cons, if_neg h, ih]

theorem getK_setK_ne (s : Sel) {k k' : Key} (h : k' ≠ k) (v d : Int) :
    getK (setK s k v) k' d = getK s k' d := by
  induction s with
  | nil => simp [setK, getK_cons, Ne.symm h, getK_nil]
  | cons p ps ih =>
    simp only [setK]
    by_cases hp : p.1 = k
    · rw [if_pos hp, getK_cons, getK_cons]
      have : ¬ k = k' := fun e => h e.symm
      rw [if_neg this, if_neg (by rw [hp]; exact this)]
    · rw [if_neg hp, getK_cons, getK_cons, ih]

theorem keys_setK (s : Sel) (k : Key) (v : Int) :
    (setK s k v).map (·.1) = if hasK s k then s.map (·.1) else s.map (·.1) ++ [k] := by
  induction s with
  | nil => simp [setK, hasK]
  | cons p ps ih =>
    simp only [setK, hasK_cons]
    by_cases hp : p.1 = k
    · simp [hp]
    · rw [if_neg hp, List.map_cons, ih]
      simp only [hp, decide_false, Bool.false_or]
      by_cases hk : hasK ps k = true
      · simp [hk]
      · simp [hk]

theorem hasK_setK (s : Sel) (k k' : Key) (v : Int) :
    hasK (setK s k v) k' = (hasK s k' || decide (k = k')) := by
  have h1 := hasK_iff (setK s k v) k'
  have h2 := hasK_iff s k'
  rw [keys_setK] at h1
  rw [Bool.eq_iff_iff, h1]
  simp only [Bool.or_eq_true, decide_eq_true_eq, h2]
  by_cases hk : hasK s k = true
  · rw [if_pos hk]
    constructor
    · intro h; exact Or.inl h
    · rintro (h | rfl)
      · exact h
      · exact (hasK_iff s k).mp hk
  · rw [if_neg hk]
    simp only [List.mem_append, List.mem_singleton]
    constructor
    · rintro (h | rfl)
      · exact Or.inl h
      · exact Or.inr rfl
    · rintro (h | rfl)
      · exact Or.inl h
      · exact Or.inr rfl

theorem KNodup_setK {s : Sel} (h : KNodup s) (k : Key) (v : Int) : KNodup (setK s k v) := by
  unfold KNodup at *
  rw [keys_setK]
  by_cases hk : hasK s k = true
  · rw [if_pos hk]; exact h
  · rw [if_neg hk]
    have : k ∉ s.map (·.1) := fun hm => hk ((hasK_iff s k).mpr hm)
    exact List.Nodup.append h (by simp) (by simpa using this)

theorem sumK_setK (s : Sel) (k : Key) (v : Int) : sumK (setK s k v) = sumK s - getK s k 0 + v := by
  induction s with
  | nil => simp [setK, sumK_cons, sumK_nil, getK_nil]
  | cons p ps ih =>
    simp only [setK]
    by_cases hp : p.1 = k
    · rw [if_pos hp, sumK_cons, sumK_cons, getK_cons, if_pos hp]
      show v + sumK ps = p.2 + sumK ps - p.2 + v
      ring
    · rw [if_neg hp, sumK_cons, sumK_cons, getK_cons, if_neg hp, ih]; ring

theorem keys_delK (s : Sel) (k : Key) : (delK s k).map (·.1) = (s.map (·.1)).filter (fun x => x ≠ k) := by
  unfold delK
  rw [List.filter_map]
  rfl

theorem KNodup_delK {s : Sel} (h : KNodup s) (k : Key) : KNodup (delK s k) := by
  unfold KNodup at *
  rw [keys_delK]; exact h.filter _

theorem sumK_delK {s : Sel} (h : KNodup s) (k : Key) : sumK (delK s k) = sumK s - getK s k 0 := by
  induction s with
  | nil => simp [delK, sumK_nil, getK_nil]
  | cons p ps ih =>
    have hn : KNodup ps := (List.nodup_cons.mp h).2
    have hnot : p.1 ∉ ps.map (·.1) := (List.nodup_cons.mp h).1
    by_cases hp : p.1 = k
    · have hk : hasK ps k = false := by
        rw [← Bool.not_eq_true]; intro hh; exact hnot (hp ▸ (hasK_iff ps k).mp hh)
      have hd : delK (p :: ps) k = ps := by
        unfold delK
        rw [List.filter_cons]
        simp only [hp, ne_eq, not_true_eq_false, decide_false, Bool.false_eq_true, if_false]
        rw [List.filter_eq_self]
        intro a ha
        simp only [decide_not, Bool.not_eq_eq_eq_not, Bool.not_true, decide_eq_false_iff_not]
        intro e
        have : k ∈ ps.map (·.1) := List.mem_map.mpr ⟨a, ha, e⟩
        exact hnot (hp ▸ this)
      rw [hd, sumK_cons, getK_cons, if_pos hp]; ring
    · have hd : delK (p :: ps) k = p :: delK ps k := by
        unfold delK; rw [List.filter_cons]; simp [hp]
      rw [hd, sumK_cons, sumK_cons, getK_cons, if_neg hp, ih hn]; ring

theorem sumK_decK {s : Sel} (h : KNodup s) (k : Key) : sumK (decK s k) = sumK s - 1 := by
  unfold decK
  split
  · rename_i h1; rw [sumK_delK h, h1]
  · rw [sumK_setK]; ring

theorem KNodup_decK {s : Sel} (h : KNodup s) (k : Key) : KNodup (decK s k) := by
  unfold decK
  split
  · exact KNodup_delK h k
  · exact KNodup_setK h k _

theorem hasK_append (s t : Sel) (k : Key) : hasK (s ++ t) k = (hasK s k || hasK t k) := by
  simp [hasK]

/-! ### the whole-quota loop -/

/-- textbook whole quotas: `⌊v / q⌋`, except that a party exactly on the quota gets none when
    `accept_equal` is off -/
def wholeQ (q : Rat) (ae : Bool) (v : Rat) : Int := if v = q ∧ ae = false then 0 else ⌊v / q⌋

/-- whole quotas held at the party's cap (`max_seats`; no cap when the party is not listed) -/
def capQ (maxS : IMap) (c : Cand) (w : Int) : Int :=
  match getCap maxS c with
  | some m => min w m
  | none => w

theorem capMin_eq (maxS : IMap) (c : Cand) (w : Int) : capMin maxS c w = capQ maxS c w := by
  unfold capMin capQ
  cases getCap maxS c with
  | none => rfl
  | some m =>
    simp only
    split
    · rename_i h; rw [min_eq_right (le_of_lt h)]
    · rename_i h; rw [min_eq_left (not_lt.mp h)]

theorem capQ_le (maxS : IMap) (c : Cand) (w : Int) : capQ maxS c w ≤ w := by
  unfold capQ; split
  · exact min_le_left _ _
  · exact le_refl _

theorem capQ_nil (c : Cand) (w : Int) : capQ [] c w = w := rfl

/-- seats awarded for whole quotas: the capped whole quotas not yet covered by previous gains -/
def wholeAward (q : Rat) (ae : Bool) (prev maxS : IMap) (p : Cand × Rat) : Int :=
  max (capQ maxS p.1 (wholeQ q ae p.2) - getI prev p.1 0) 0

/-- the dict of whole-quota awards (parties with a positive award, in the order of `votes`) -/
def wholeSel (q : Rat) (ae : Bool) (prev maxS : IMap) (votes : Votes) : Sel :=
  votes.filterMap (fun p =>
    if 0 < wholeAward q ae prev maxS p then some (Key.cand p.1, wholeAward q ae prev maxS p) else none)

/-- the award as the code computes it (L227-237) -/
def awardOf (q : Rat) (ae : Bool) (prev maxS : IMap) (p : Cand × Rat) : Option (Key × Int) :=
  if fulfills q ae p.2 = true ∧ 0 < capMin maxS p.1 (Py.pyInt (p.2 / q)) - getI prev p.1 0 then
    some (Key.cand p.1, capMin maxS p.1 (Py.pyInt (p.2 / q)) - getI prev p.1 0)
  else none

theorem wholeStep_eq {q : Rat} (hq : q ≠ 0) (ae : Bool) (prev maxS : IMap) (sel : Sel)
    (p : Cand × Rat) (hk : hasK sel (.cand p.1) = false) :
    wholeStep q ae prev maxS sel p = .ok (sel ++ (awardOf q ae prev maxS p).toList) := by
  unfold wholeStep awardOf
  simp only
  by_cases hf : fulfills q ae p.2 = true
  · rw [if_pos hf, if_neg hq]
    by_cases hpos : capMin maxS p.1 (Py.pyInt (p.2 / q)) - getI prev p.1 0 > 0
    · rw [if_pos hpos, if_pos ⟨hf, hpos⟩, setK_of_not_hasK hk]
      rfl
    · rw [if_neg hpos, if_neg (fun h => hpos h.2)]
      simp
  · rw [if_neg hf, if_neg (fun h => hf h.1)]
    simp

theorem wholeLoop_eq {q : Rat} (hq : q ≠ 0) (ae : Bool) (prev maxS : IMap) (votes : Votes) :
    ∀ (sel : Sel), (votes.map (·.1)).Nodup → (∀ p ∈ votes, hasK sel (.cand p.1) = false) →
      wholeLoop q ae prev maxS sel votes = .ok (sel ++ votes.filterMap (awardOf q ae prev maxS)) := by
  induction votes with
  | nil => intro sel _ _; simp [wholeLoop]
  | cons p ps ih =>
    intro sel hnd hk
    have hnd' := List.nodup_cons.mp hnd
    unfold wholeLoop
    rw [wholeStep_eq hq ae prev maxS sel p (hk p List.mem_cons_self)]
    simp only
    rw [ih _ hnd'.2]
    · simp only [List.filterMap_cons]
      cases h : awardOf q ae prev maxS p <;> simp
    · intro x hx
      simp only [hasK_append, Bool.or_eq_false_iff]
      refine ⟨hk x (List.mem_cons_of_mem _ hx), ?_⟩
      have hne : x.1 ≠ p.1 := by
        intro e
        exact hnd'.1 (List.mem_map.mpr ⟨x, hx, e⟩)
      unfold awardOf
      split
      · simp [hasK, Ne.symm hne]
      · simp [hasK]

/-- for non-negative votes and a positive quota the code's arithmetic is the textbook one -/
theorem awardOf_eq_textbook {q : Rat} (hq : 0 < q) (ae : Bool) (prev maxS : IMap) (p : Cand × Rat)
    (hv : 0 ≤ p.2) (hp : 0 ≤ getI prev p.1 0) :
    awardOf q ae prev maxS p =
      if 0 < wholeAward q ae prev maxS p then some (Key.cand p.1, wholeAward q ae prev maxS p) else none := by
  unfold awardOf wholeAward
  rw [capMin_eq]
  have hdiv : 0 ≤ p.2 / q := div_nonneg hv (le_of_lt hq)
  by_cases hf : fulfills q ae p.2 = true
  · have hw : Py.pyInt (p.2 / q) = wholeQ q ae p.2 := by
      unfold wholeQ
      have hne : ¬ (p.2 = q ∧ ae = false) := by
        rintro ⟨h1, h2⟩
        simp [fulfills, h1, h2] at hf
      rw [if_neg hne, pyInt_nonneg hdiv]
    rw [hw]
    by_cases hpos : 0 < capQ maxS p.1 (wholeQ q ae p.2) - getI prev p.1 0
    · rw [if_pos ⟨hf, hpos⟩, max_eq_left (le_of_lt hpos), if_pos hpos]
    · rw [if_neg (fun h => hpos h.2), max_eq_right (not_lt.mp hpos), if_neg (lt_irrefl 0)]
  · rw [if_neg (fun h => hf h.1)]
    have hzero : wholeQ q ae p.2 = 0 := by
      unfold wholeQ
      split
      · rfl
      · rename_i hne
        simp only [fulfills, Bool.or_eq_true, decide_eq_true_eq, Bool.and_eq_true, not_or, not_lt, not_and] at hf
        have hlt : p.2 < q := by
          rcases lt_or_eq_of_le hf.1 with h | h
          · exact h
          · exfalso
            apply hne
            refine ⟨h, ?_⟩
            cases ae
            · rfl
            · exact absurd h (hf.2 rfl)
        rw [Int.floor_eq_iff]
        constructor
        · simpa using hdiv
        · simp only [Int.cast_zero, zero_add]
          rw [div_lt_one hq]; exact hlt
    have hc := capQ_le maxS p.1 (wholeQ q ae p.2)
    rw [hzero] at hc
    rw [hzero, max_eq_right (by omega), if_neg (lt_irrefl 0)]

theorem pyInt_eq_wholeQ {q : Rat} (hq : 0 < q) {ae : Bool} {v : Rat} (hv : 0 ≤ v)
    (hf : fulfills q ae v = true) : Py.pyInt (v / q) = wholeQ q ae v := by
  unfold wholeQ
  have hne : ¬ (v = q ∧ ae = false) := by
    rintro ⟨h1, h2⟩
    simp [fulfills, h1, h2] at hf
  rw [if_neg hne, pyInt_nonneg (div_nonneg hv (le_of_lt hq))]

theorem wholeQ_nonneg {q : Rat} (hq : 0 < q) (ae : Bool) {v : Rat} (hv : 0 ≤ v) : 0 ≤ wholeQ q ae v := by
  unfold wholeQ
  split
  · exact le_refl _
  · exact Int.floor_nonneg.mpr (div_nonneg hv (le_of_lt hq))

theorem filterMap_awardOf_eq {q : Rat} (hq : 0 < q) (ae : Bool) (prev maxS : IMap) (votes : Votes)
    (hv : ∀ p ∈ votes, 0 ≤ p.2) (hp : ∀ c, 0 ≤ getI prev c 0) :
    votes.filterMap (awardOf q ae prev maxS) = wholeSel q ae prev maxS votes := by
  unfold wholeSel
  apply List.filterMap_congr
  intro p hpm
  exact awardOf_eq_textbook hq ae prev maxS p (hv p hpm) (hp p.1)

theorem wholeSel_cons (q : Rat) (ae : Bool) (prev maxS : IMap) (x : Cand × Rat) (xs : Votes) :
    wholeSel q ae prev maxS (x :: xs) =
      if 0 < wholeAward q ae prev maxS x then (Key.cand x.1, wholeAward q ae prev maxS x) :: wholeSel q ae prev maxS xs
      else wholeSel q ae prev maxS xs := by
  unfold wholeSel
  rw [List.filterMap_cons]
  split <;> rename_i h
  · split at h
    · cases h
    · rename_i h'; rw [if_neg h']
  · split at h
    · rename_i h'; rw [if_pos h']; injection h with h; rw [← h]
    · cases h

theorem keys_wholeSel (q : Rat) (ae : Bool) (prev maxS : IMap) (votes : Votes) :
    (wholeSel q ae prev maxS votes).map (·.1) =
      (votes.filter (fun p => decide (0 < wholeAward q ae prev maxS p))).map (fun p => Key.cand p.1) := by
  induction votes with
  | nil => rfl
  | cons x xs ih =>
    rw [wholeSel_cons, List.filter_cons]
    by_cases h : 0 < wholeAward q ae prev maxS x
    · simp [h, ih]
    · simp [h, ih]

theorem mem_keys_wholeSel {q : Rat} {ae : Bool} {prev maxS : IMap} {votes : Votes} {k : Key}
    (h : k ∈ (wholeSel q ae prev maxS votes).map (·.1)) : ∃ p ∈ votes, k = Key.cand p.1 := by
  rw [keys_wholeSel] at h
  obtain ⟨p, hp, rfl⟩ := List.mem_map.mp h
  exact ⟨p, (List.mem_filter.mp hp).1, rfl⟩

theorem KNodup_wholeSel (q : Rat) (ae : Bool) (prev maxS : IMap) (votes : Votes)
    (hnd : (votes.map (·.1)).Nodup) : KNodup (wholeSel q ae prev maxS votes) := by
  unfold KNodup
  rw [keys_wholeSel]
  have h1 : ((votes.filter (fun p => decide (0 < wholeAward q ae prev maxS p))).map (·.1)).Nodup :=
    List.Nodup.sublist (List.Sublist.map _ List.filter_sublist) hnd
  have : (votes.filter (fun p => decide (0 < wholeAward q ae prev maxS p))).map (fun p => Key.cand p.1)
      = ((votes.filter (fun p => decide (0 < wholeAward q ae prev maxS p))).map (·.1)).map Key.cand := by
    rw [List.map_map]; rfl
  rw [this]
  exact List.Nodup.map (fun a b h => by injection h) h1

theorem wholeAward_nonneg (q : Rat) (ae : Bool) (prev maxS : IMap) (p : Cand × Rat) : 0 ≤ wholeAward q ae prev maxS p :=
  le_max_right _ _

theorem getK_wholeSel (q : Rat) (ae : Bool) (prev maxS : IMap) (votes : Votes) (hnd : (votes.map (·.1)).Nodup)
    (p : Cand × Rat) (hp : p ∈ votes) :
    getK (wholeSel q ae prev maxS votes) (.cand p.1) 0 = wholeAward q ae prev maxS p := by
  induction votes with
  | nil => cases hp
  | cons x xs ih =>
    have hnd' := List.nodup_cons.mp hnd
    rw [wholeSel_cons]
    rcases List.mem_cons.mp hp with rfl | hpx
    · by_cases h : 0 < wholeAward q ae prev maxS p
      · rw [if_pos h, getK_cons]; simp
      · rw [if_neg h]
        have hz : wholeAward q ae prev maxS p = 0 := le_antisymm (not_lt.mp h) (wholeAward_nonneg _ _ _ _ _)
        rw [hz]
        apply getK_of_not_hasK
        rw [← Bool.not_eq_true]
        intro hh
        obtain ⟨p', hp', he⟩ := mem_keys_wholeSel ((hasK_iff _ _).mp hh)
        injection he with he
        exact hnd'.1 (List.mem_map.mpr ⟨p', hp', he.symm⟩)
    · have hne : x.1 ≠ p.1 := fun e => hnd'.1 (List.mem_map.mpr ⟨p, hpx, e.symm⟩)
      by_cases h : 0 < wholeAward q ae prev maxS x
      · rw [if_pos h, getK_cons, if_neg (by intro e; injection e with e; exact hne e)]
        exact ih hnd'.2 hpx
      · rw [if_neg h]; exact ih hnd'.2 hpx

/-- `QuotaDistributor.evaluate` for a positive quota: the over-award policy applied to the dict the loop builds -/
theorem quotaDistribute_eq (cfg : Cfg) (votes : Votes) (n : Nat) (prev maxS : IMap)
    (hq : 0 < cfg.quota (sumVals votes) n) (hnd : (votes.map (·.1)).Nodup) :
    quotaDistribute cfg votes n prev maxS =
      applyPolicy cfg votes n prev
        (votes.filterMap (awardOf (cfg.quota (sumVals votes) n) cfg.acceptEqual prev maxS)) := by
  unfold quotaDistribute
  simp only
  rw [if_neg (not_le.mpr hq),
    wholeLoop_eq (ne_of_gt hq) cfg.acceptEqual prev maxS votes [] hnd (fun _ _ => rfl)]
  simp

/-- a non-positive quota is refused before anything is computed (repair eca6e34) -/
theorem quotaDistribute_nonpos (cfg : Cfg) (votes : Votes) (n : Nat) (prev maxS : IMap)
    (hq : cfg.quota (sumVals votes) n ≤ 0) :
    quotaDistribute cfg votes n prev maxS = .error .votingSystemError := by
  unfold quotaDistribute
  simp only
  rw [if_pos hq]

/-! ### the subtract loop -/

theorem foldl_decK_sum (cs : List Cand) : ∀ (s : Sel), KNodup s →
    sumK (cs.foldl (fun acc c => decK acc (.cand c)) s) = sumK s - cs.length ∧
    KNodup (cs.foldl (fun acc c => decK acc (.cand c)) s) := by
  induction cs with
  | nil => intro s h; simp [h]
  | cons c cs ih =>
    intro s h
    simp only [List.foldl_cons, List.length_cons]
    obtain ⟨h1, h2⟩ := ih (decK s (.cand c)) (KNodup_decK h _)
    refine ⟨?_, h2⟩
    rw [h1, sumK_decK h]; push_cast; ring

/-- every successful pass of the `while` body withdraws exactly one seat -/
theorem subtractStep_sum (votes : Votes) (q : Rat) (prev : IMap) (sel sel' : Sel) (hn : KNodup sel)
    (h : subtractStep votes q prev sel = .ok sel') : sumK sel' = sumK sel - 1 ∧ KNodup sel' := by
  unfold subtractStep at h
  split at h
  · cases h
  · injection h with h; subst h
    exact ⟨sumK_decK hn _, KNodup_decK hn _⟩
  · simp only at h
    split at h
    · cases h
    · rename_i cs _
      split at h
      · injection h with h; subst h
        exact ⟨sumK_decK hn _, KNodup_decK hn _⟩
      · injection h with h; subst h
        obtain ⟨h1, h2⟩ := foldl_decK_sum cs sel hn
        refine ⟨?_, KNodup_setK h2 _ _⟩
        rw [sumK_setK, h1]; ring

theorem subtractLoop_sum (votes : Votes) (q : Rat) (prev : IMap) (k : Nat) :
    ∀ (sel r : Sel), KNodup sel → subtractLoop votes q prev k sel = .ok r →
      sumK r = sumK sel - k ∧ KNodup r := by
  induction k with
  | zero =>
    intro sel r hn h
    unfold subtractLoop at h
    injection h with h; subst h
    simp [hn]
  | succ k ih =>
    intro sel r hn h
    unfold subtractLoop at h
    split at h
    · rename_i sel' hs
      obtain ⟨h1, h2⟩ := subtractStep_sum votes q prev sel sel' hn hs
      obtain ⟨h3, h4⟩ := ih sel' r h2 h
      refine ⟨?_, h4⟩
      rw [h3, h1]; push_cast; ring
    · cases h

/-! ### the remainder stage of `LargestRemainder` -/

theorem sumK_addDict (b : Sel) : ∀ a : Sel, sumK (addDict a b) = sumK a + sumK b := by
  induction b with
  | nil => intro a; simp [addDict, sumK_nil]
  | cons x xs ih =>
    intro a
    have : addDict a (x :: xs) = addDict (setK a x.1 (getK a x.1 0 + x.2)) xs := rfl
    rw [this, ih, sumK_setK, sumK_cons]; ring

theorem getI_nil (c : Cand) (d : Int) : getI [] c d = d := rfl

theorem getI_cons (x : Cand × Int) (xs : IMap) (c : Cand) (d : Int) :
    getI (x :: xs) c d = if x.1 = c then x.2 else getI xs c d := by
  unfold getI
  rw [List.find?_cons]
  by_cases h : x.1 = c <;> simp [h]

theorem getI_of_not_mem {m : IMap} {c : Cand} (h : c ∉ m.map (·.1)) (d : Int) : getI m c d = d := by
  induction m with
  | nil => rfl
  | cons x xs ih =>
    simp only [List.map_cons, List.mem_cons, not_or] at h
    rw [getI_cons, if_neg (fun e => h.1 e.symm), ih h.2]

theorem sumK_prevAsSel (prev : IMap) : sumK (prevAsSel prev) = sumI prev := by
  rw [sumK_eq, sumI_eq]; unfold prevAsSel; rw [List.map_map]; rfl

theorem getK_addDict_prev (prev : IMap) (hnd : (prev.map (·.1)).Nodup) (c : Cand) :
    ∀ s : Sel, getK (addDict s (prevAsSel prev)) (.cand c) 0 = getK s (.cand c) 0 + getI prev c 0 := by
  induction prev with
  | nil => intro s; simp [prevAsSel, addDict, getI_nil]
  | cons x xs ih =>
    intro s
    have hnd' := List.nodup_cons.mp hnd
    have : addDict s (prevAsSel (x :: xs)) =
        addDict (setK s (.cand x.1) (getK s (.cand x.1) 0 + x.2)) (prevAsSel xs) := rfl
    rw [this, ih hnd'.2, getI_cons]
    by_cases h : x.1 = c
    · subst h
      rw [if_pos rfl, getK_setK_self, getI_of_not_mem hnd'.1]; ring
    · rw [if_neg h, getK_setK_ne _ (by intro e; injection e with e; exact h e.symm)]

/-- seats a party holds after the whole-quota stage, previous gains included: `max (wholeQ, prev)` -/
def gainedQ (q : Rat) (ae : Bool) (prev maxS : IMap) (p : Cand × Rat) : Int :=
  wholeAward q ae prev maxS p + getI prev p.1 0

/-- may the party still take a remainder seat? (`gained < max_seats.get(c, INF)`, L380) -/
def eligible (q : Rat) (ae : Bool) (prev maxS : IMap) (p : Cand × Rat) : Bool :=
  match getCap maxS p.1 with
  | some m => decide (gainedQ q ae prev maxS p < m)
  | none => true

/-- the exact remainders `v/q − gained` of the eligible parties, in the order of `votes` -/
def lrRems (q : Rat) (ae : Bool) (prev maxS : IMap) (votes : Votes) : Votes :=
  votes.filterMap (fun p =>
    if eligible q ae prev maxS p then some (p.1, p.2 / q - (gainedQ q ae prev maxS p : Rat)) else none)

theorem lrRemainders_eq (q : Rat) (ae : Bool) (prev maxS : IMap) (votes : Votes)
    (hnd : (votes.map (·.1)).Nodup) (hpn : (prev.map (·.1)).Nodup) :
    lrRemainders votes q (addDict (wholeSel q ae prev maxS votes) (prevAsSel prev)) maxS =
      lrRems q ae prev maxS votes := by
  unfold lrRemainders lrRems
  apply List.filterMap_congr
  intro p hp
  simp only
  rw [getK_addDict_prev prev hpn, getK_wholeSel q ae prev maxS votes hnd p hp]
  unfold eligible gainedQ
  cases getCap maxS p.1 <;> rfl

theorem keys_lrRems_sublist (q : Rat) (ae : Bool) (prev maxS : IMap) (votes : Votes) :
    List.Sublist ((lrRems q ae prev maxS votes).map (·.1)) (votes.map (·.1)) := by
  unfold lrRems
  induction votes with
  | nil => simp
  | cons x xs ih =>
    rw [List.filterMap_cons]
    split
    · rename_i h; exact List.Sublist.cons _ ih
    · rename_i b h
      split at h
      · injection h with h; subst h
        simp only [List.map_cons]
        exact List.Sublist.cons_cons _ ih
      · cases h

theorem mem_lrRems {q : Rat} {ae : Bool} {prev maxS : IMap} {votes : Votes} {e : Cand × Rat}
    (h : e ∈ lrRems q ae prev maxS votes) :
    ∃ p ∈ votes, eligible q ae prev maxS p = true ∧ e = (p.1, p.2 / q - (gainedQ q ae prev maxS p : Rat)) := by
  unfold lrRems at h
  obtain ⟨p, hp, he⟩ := List.mem_filterMap.mp h
  split at he
  · rename_i hel; injection he with he; exact ⟨p, hp, hel, he.symm⟩
  · cases he

theorem sumK_incK (s : Sel) (k : Key) : sumK (incK s k) = sumK s + 1 := by
  unfold incK
  split
  · rw [sumK_setK]; ring
  · rename_i h
    rw [sumK_setK, getK_of_not_hasK (by simpa using h)]; ring

theorem getK_incK_self (s : Sel) (k : Key) : getK (incK s k) k 0 = getK s k 0 + 1 := by
  unfold incK
  split
  · rw [getK_setK_self]
  · rename_i h
    rw [getK_setK_self, getK_of_not_hasK (by simpa using h)]; ring

theorem getK_incK_ne (s : Sel) {k k' : Key} (h : k' ≠ k) : getK (incK s k) k' 0 = getK s k' 0 := by
  unfold incK
  split <;> rw [getK_setK_ne _ h]

theorem sumK_foldl_incK (l : List Slot) : ∀ s : Sel,
    sumK (l.foldl (fun acc x => incK acc (slotKey x)) s) = sumK s + l.length := by
  induction l with
  | nil => intro s; simp
  | cons x xs ih =>
    intro s
    simp only [List.foldl_cons, List.length_cons]
    rw [ih, sumK_incK]; push_cast; ring

theorem getK_foldl_incK (l : List Slot) (k : Key) : ∀ s : Sel,
    getK (l.foldl (fun acc x => incK acc (slotKey x)) s) k 0 = getK s k 0 + (l.map slotKey).count k := by
  induction l with
  | nil => intro s; simp
  | cons x xs ih =>
    intro s
    simp only [List.foldl_cons, List.map_cons]
    rw [ih]
    by_cases h : slotKey x = k
    · subst h
      rw [getK_incK_self, List.count_cons_self]; push_cast; ring
    · rw [getK_incK_ne _ (Ne.symm h), List.count_cons_of_ne h]

/-! ### facts about `getNBest` used for the remainder seats -/

theorem getNBest_zero (votes : Votes) : getNBest votes 0 = [] := by
  unfold getNBest
  simp only
  split
  · rename_i h
    have h0 : 0 < (sortDesc votes).length := h
    have e : (sortDesc votes)[0 - 1]? = some ((sortDesc votes)[0]) := List.getElem?_eq_getElem h0
    rw [e]
    simp
  · rename_i h
    have : (sortDesc votes) = [] := by
      cases hs : sortDesc votes with
      | nil => rfl
      | cons a b => rw [hs] at h; simp at h
    rw [this]; rfl

theorem getNBest_shape (votes : Votes) (n : Nat) :
    ∃ (k j : Nat) (T : List Cand), getNBest votes n =
      ((sortDesc votes).take k).map (fun p => Slot.cand p.1) ++ List.replicate j (Slot.tie T) := by
  unfold getNBest
  simp only
  split
  · split
    · split
      · exact ⟨_, _, _, rfl⟩
      · exact ⟨n, 0, [], by simp⟩
    · exact ⟨0, 0, [], by simp⟩
  · refine ⟨(sortDesc votes).length, 0, [], ?_⟩
    simp

theorem count_cand_getNBest_le_one (votes : Votes) (hnd : (votes.map (·.1)).Nodup) (n : Nat) (c : Cand) :
    (getNBest votes n).count (Slot.cand c) ≤ 1 := by
  obtain ⟨k, j, T, h⟩ := getNBest_shape votes n
  rw [h, List.count_append]
  have h2 : (List.replicate j (Slot.tie T)).count (Slot.cand c) = 0 := by
    rw [List.count_eq_zero]
    intro hm
    have := (List.mem_replicate.mp hm).2
    cases this
  rw [h2, Nat.add_zero]
  have h3 : (((sortDesc votes).take k).map (fun p => Slot.cand p.1)) =
      (((sortDesc votes).take k).map (·.1)).map Slot.cand := by rw [List.map_map]; rfl
  rw [h3]
  have hsub : List.Sublist (((sortDesc votes).take k).map (·.1)) ((sortDesc votes).map (·.1)) :=
    List.Sublist.map _ (List.take_sublist _ _)
  have hnd2 : ((sortDesc votes).map (·.1)).Nodup :=
    ((sortDesc_perm votes).map _).nodup_iff.mpr hnd
  have hnd3 : ((((sortDesc votes).take k).map (·.1)).map Slot.cand).Nodup :=
    List.Nodup.map (fun a b h => by injection h) (List.Nodup.sublist hsub hnd2)
  exact List.nodup_iff_count_le_one.mp hnd3 _

theorem cand_mem_getNBest (votes : Votes) (n : Nat) (c : Cand) (h : Slot.cand c ∈ getNBest votes n) :
    ∃ p ∈ votes, p.1 = c := by
  obtain ⟨k, j, T, hs⟩ := getNBest_shape votes n
  rw [hs] at h
  rcases List.mem_append.mp h with h | h
  · obtain ⟨p, hp, he⟩ := List.mem_map.mp h
    injection he with he
    exact ⟨p, mem_sortDesc.mp (List.mem_of_mem_take hp), he⟩
  · have := (List.mem_replicate.mp h).2
    cases this

theorem getNBest_length_eq (votes : Votes) (n : Nat) (h : n ≤ votes.length) : (getNBest votes n).length = n := by
  rcases Nat.eq_zero_or_pos n with rfl | hpos
  · rw [getNBest_zero]; rfl
  · exact C09.getNBest_length votes n hpos h

/-- whoever is elected has at least as much as whoever is not -/
theorem elected_ge_unelected (votes : Votes) (hnd : (votes.map (·.1)).Nodup) (n : Nat)
    (p p' : Cand × Rat) (hp : p ∈ votes) (hp' : p' ∈ votes)
    (he : Slot.cand p.1 ∈ getNBest votes n) (hne : Slot.cand p'.1 ∉ getNBest votes n) : p'.2 ≤ p.2 := by
  rcases Nat.eq_zero_or_pos n with rfl | hpos
  · rw [getNBest_zero] at he; cases he
  · rcases Nat.lt_or_ge n votes.length with hlt | hge
    · obtain ⟨t, ht⟩ := nth_exists votes n hpos (le_of_lt hlt)
      have h1 : ¬ p.2 < t := fun hlt' => (C09.below_never_elected votes hnd n hpos hlt t ht p hp hlt').1 he
      have h2 : ¬ t < p'.2 := fun hgt =>
        hne (C09.strictly_above_elected votes n hpos (le_of_lt hlt) t ht p' hp' hgt)
      exact le_trans (not_lt.mp h2) (not_lt.mp h1)
    · exfalso
      apply hne
      rw [getNBest_all votes n hge]
      exact List.mem_map.mpr ⟨p', mem_sortDesc.mpr hp', rfl⟩

/-- an individually elected candidate's whole level set (everybody with at least its value) fits -/
theorem elected_cntGe_le (votes : Votes) (hnd : (votes.map (·.1)).Nodup) (n : Nat) (hlt : n < votes.length)
    (p : Cand × Rat) (hp : p ∈ votes) (he : Slot.cand p.1 ∈ getNBest votes n) : cntGe votes p.2 ≤ n := by
  rcases Nat.eq_zero_or_pos n with rfl | hpos
  · rw [getNBest_zero] at he; cases he
  · obtain ⟨t, ht⟩ := nth_exists votes n hpos (le_of_lt hlt)
    rcases lt_trichotomy p.2 t with h | h | h
    · exact absurd he (C09.below_never_elected votes hnd n hpos hlt t ht p hp h).1
    · rw [h]
      by_contra hcon
      exact C09.not_above_not_elected_in_tie votes hnd n hpos hlt t ht (by omega) p hp (le_of_eq h) he
    · have hle : cntGe votes p.2 ≤ cntGt votes t := by
        unfold cntGe cntGt
        apply List.Sublist.length_le
        apply List.monotone_filter_right
        intro x hx
        simp only [decide_eq_true_eq] at hx ⊢
        exact lt_of_lt_of_le h hx
      have := ht.2.1
      omega

/-- a tie among the winners is the level set of the n-th value, which does not fit -/
theorem tie_mem_getNBest (votes : Votes) (n : Nat) (T : List Cand) (h : Slot.tie T ∈ getNBest votes n) :
    ∃ t, IsNth votes n t ∧ n < cntGe votes t ∧ T = level votes t ∧
      (getNBest votes n).count (Slot.tie T) = n - cntGt votes t := by
  rcases Nat.eq_zero_or_pos n with rfl | hpos
  · rw [getNBest_zero] at h; cases h
  · rcases Nat.lt_or_ge n votes.length with hlt | hge
    · obtain ⟨t, ht⟩ := nth_exists votes n hpos (le_of_lt hlt)
      rcases Nat.lt_or_ge n (cntGe votes t) with hno | hfit
      · refine ⟨t, ht, hno, ?_⟩
        rw [C09.getNBest_tie votes n hpos hlt t ht hno] at h ⊢
        rcases List.mem_append.mp h with h | h
        · obtain ⟨x, _, hx⟩ := List.mem_map.mp h; cases hx
        · have hT : T = level votes t := by
            have := (List.mem_replicate.mp h).2; injection this
          refine ⟨hT, ?_⟩
          rw [List.count_append, hT]
          have : ((aboveSorted votes t).map (fun p => Slot.cand p.1)).count (Slot.tie (level votes t)) = 0 := by
            rw [List.count_eq_zero]; intro hm
            obtain ⟨x, _, hx⟩ := List.mem_map.mp hm; cases hx
          rw [this, List.count_replicate_self]; omega
      · exfalso
        rw [C09.getNBest_fits votes n hpos hlt t ht hfit] at h
        rcases List.mem_append.mp h with h | h
        · obtain ⟨x, _, hx⟩ := List.mem_map.mp h; cases hx
        · obtain ⟨x, _, hx⟩ := List.mem_map.mp h; cases hx
    · exfalso
      rw [getNBest_all votes n hge] at h
      obtain ⟨x, _, hx⟩ := List.mem_map.mp h; cases hx

theorem mem_lrRems_of {q : Rat} {ae : Bool} {prev maxS : IMap} {votes : Votes} {p : Cand × Rat}
    (hp : p ∈ votes) (hel : eligible q ae prev maxS p = true) :
    (p.1, p.2 / q - (gainedQ q ae prev maxS p : Rat)) ∈ lrRems q ae prev maxS votes := by
  unfold lrRems
  rw [List.mem_filterMap]
  exact ⟨p, hp, by rw [if_pos hel]⟩

theorem count_slotKey_cand (l : List Slot) (c : Cand) :
    (l.map slotKey).count (Key.cand c) = l.count (Slot.cand c) := by
  induction l with
  | nil => rfl
  | cons x xs ih =>
    rw [List.map_cons]
    cases x with
    | cand c' =>
      by_cases h : c' = c
      · subst h; simp [slotKey, ih]
      · have h1 : slotKey (Slot.cand c') ≠ Key.cand c := by
          intro e; simp only [slotKey] at e; injection e with e; exact h e
        have h2 : Slot.cand c' ≠ Slot.cand c := by intro e; injection e with e; exact h e
        rw [List.count_cons_of_ne h1, List.count_cons_of_ne h2, ih]
    | tie T =>
      have h1 : slotKey (Slot.tie T) ≠ Key.cand c := by
        intro e; simp only [slotKey, mkTie] at e; cases e
      have h2 : Slot.tie T ≠ Slot.cand c := by intro e; cases e
      rw [List.count_cons_of_ne h1, List.count_cons_of_ne h2, ih]

theorem getK_wholeSel_tie (q : Rat) (ae : Bool) (prev maxS : IMap) (votes : Votes) (T : List Cand) :
    getK (wholeSel q ae prev maxS votes) (Key.tie T) 0 = 0 := by
  apply getK_of_not_hasK
  rw [← Bool.not_eq_true]
  intro hh
  obtain ⟨p, _, he⟩ := mem_keys_wholeSel ((hasK_iff _ _).mp hh)
  cases he

/-- a candidate whose whole level set (everybody with at least its value) fits is elected individually -/
theorem cntGe_le_elected (votes : Votes) (n : Nat) (p : Cand × Rat) (hp : p ∈ votes)
    (h : cntGe votes p.2 ≤ n) : Slot.cand p.1 ∈ getNBest votes n := by
  have hself : 1 ≤ cntGe votes p.2 := by
    unfold cntGe
    apply List.length_pos_of_mem (a := p)
    rw [List.mem_filter]
    exact ⟨hp, by simp⟩
  rcases Nat.lt_or_ge n votes.length with hlt | hge
  · have hpos : 1 ≤ n := by omega
    obtain ⟨t, ht⟩ := nth_exists votes n hpos (le_of_lt hlt)
    rcases lt_trichotomy p.2 t with hl | he | hg
    · exfalso
      have hsub : List.Sublist (votes.filter (fun x => decide (t ≤ x.2))) (votes.filter (fun x => decide (p.2 ≤ x.2))) := by
        apply List.monotone_filter_right
        intro x hx
        simp only [decide_eq_true_eq] at hx ⊢
        exact le_trans (le_of_lt hl) hx
      have hlen : cntGe votes t ≤ cntGe votes p.2 := hsub.length_le
      have hn := ht.2.2
      have heq : cntGe votes t = cntGe votes p.2 := by omega
      have := hsub.eq_of_length heq
      have hpm : p ∈ votes.filter (fun x => decide (p.2 ≤ x.2)) := by
        rw [List.mem_filter]; exact ⟨hp, by simp⟩
      rw [← this, List.mem_filter] at hpm
      simp only [decide_eq_true_eq] at hpm
      exact absurd hpm.2 (not_le.mpr hl)
    · rw [he] at h
      exact C09.level_all_elected votes n hpos hlt t ht h p hp he
    · exact C09.strictly_above_elected votes n hpos (le_of_lt hlt) t ht p hp hg
  · rw [getNBest_all votes n hge]
    exact List.mem_map.mpr ⟨p, mem_sortDesc.mpr hp, rfl⟩

theorem cntGe_one_le_sum (l : Votes) (h : ∀ e ∈ l, 0 ≤ e.2) : ((cntGe l 1 : Nat) : Rat) ≤ (l.map (·.2)).sum := by
  induction l with
  | nil => simp [cntGe]
  | cons x xs ih =>
    have hx := h x List.mem_cons_self
    have := ih (fun e he => h e (List.mem_cons_of_mem _ he))
    unfold cntGe at this ⊢
    rw [List.filter_cons]
    simp only [List.map_cons, List.sum_cons]
    by_cases h1 : (1 : Rat) ≤ x.2
    · simp only [h1, decide_true, if_true, List.length_cons]
      push_cast; linarith
    · simp only [h1, decide_false]
      simp only [Bool.false_eq_true, if_false]
      linarith

theorem cntGe_zero_eq_length (l : Votes) (h : ∀ e ∈ l, 0 ≤ e.2) : cntGe l 0 = l.length := by
  unfold cntGe
  rw [List.filter_eq_self.mpr]
  intro e he
  simpa using h e he

/-! ### `get_n_best(·, 1)`: the maximum, or the tie of all maxima -/

theorem cntGe_eq_cntGt_add_level (votes : Votes) (t : Rat) :
    cntGe votes t = cntGt votes t + (level votes t).length := by
  unfold cntGe cntGt level
  rw [List.length_map]
  induction votes with
  | nil => rfl
  | cons x xs ih =>
    simp only [List.filter_cons]
    rcases lt_trichotomy x.2 t with h | h | h
    · have h1 : ¬ t ≤ x.2 := not_le.mpr h
      have h2 : ¬ t < x.2 := fun hh => h1 (le_of_lt hh)
      have h3 : ¬ x.2 = t := ne_of_lt h
      simp only [h1, h2, h3, decide_false, Bool.false_eq_true, if_false]
      exact ih
    · simp only [h, le_refl, lt_irrefl, decide_true, decide_false, Bool.false_eq_true, if_true, if_false,
        List.length_cons]
      omega
    · have h1 : t ≤ x.2 := le_of_lt h
      have h3 : ¬ x.2 = t := ne_of_gt h
      simp only [h1, h, h3, decide_true, decide_false, Bool.false_eq_true, if_true, if_false, List.length_cons]
      omega

theorem getNBest_one (votes : Votes) (hne : votes ≠ []) :
    ∃ t, (∃ e ∈ votes, e.2 = t) ∧ (∀ e ∈ votes, e.2 ≤ t) ∧
      getNBest votes 1 =
        if (level votes t).length = 1 then (level votes t).map Slot.cand else [Slot.tie (level votes t)] := by
  have hlen : 1 ≤ votes.length := by
    cases votes with
    | nil => exact absurd rfl hne
    | cons a b => simp
  obtain ⟨t, ht⟩ := nth_exists votes 1 (le_refl 1) hlen
  have hgt0 : cntGt votes t = 0 := by have := ht.2.1; omega
  have hall : ∀ e ∈ votes, e.2 ≤ t := by
    intro e he
    by_contra hcon
    have hmem : e ∈ votes.filter (fun p => decide (t < p.2)) := by
      rw [List.mem_filter]; exact ⟨he, by simpa using hcon⟩
    have : 0 < cntGt votes t := List.length_pos_of_mem hmem
    omega
  have habove : aboveSorted votes t = [] := by
    apply List.eq_nil_of_length_eq_zero
    unfold aboveSorted
    rw [sortDesc_filter_length]; exact hgt0
  have hsplit := cntGe_eq_cntGt_add_level votes t
  refine ⟨t, ht.1, hall, ?_⟩
  rcases Nat.lt_or_ge 1 votes.length with hlt | hge
  · rcases Nat.lt_or_ge 1 (cntGe votes t) with hno | hfit
    · rw [C09.getNBest_tie votes 1 (le_refl 1) hlt t ht hno, habove, hgt0, if_neg (by omega)]
      rfl
    · have h1 := ht.2.2
      rw [C09.getNBest_fits votes 1 (le_refl 1) hlt t ht hfit, habove, if_pos (by omega)]
      rfl
  · have h1 : votes.length = 1 := by omega
    match votes, h1 with
    | [e], _ =>
      have het : e.2 = t := by
        obtain ⟨e', he', h'⟩ := ht.1
        simp only [List.mem_singleton] at he'
        rw [← he']; exact h'
      have hl : level [e] t = [e.1] := by simp [level, het]
      rw [hl]
      simp [getNBest, sortDesc, insertDesc]

theorem mapM_candOfKey_some (ks : List Key) : ∀ cs, ks.mapM candOfKey = some cs → ks = cs.map Key.cand := by
  induction ks with
  | nil => intro cs h; simp at h; subst h; rfl
  | cons k ks ih =>
    intro cs h
    rw [List.mapM_cons] at h
    cases hk : candOfKey k with
    | none => rw [hk] at h; simp at h
    | some c =>
      rw [hk] at h
      cases hks : ks.mapM candOfKey with
      | none => rw [hks] at h; simp at h
      | some cs' =>
        rw [hks] at h
        simp at h
        subst h
        have : k = Key.cand c := by
          cases k with
          | cand c' => simp [candOfKey] at hk; rw [hk]
          | tie T => simp [candOfKey] at hk
        rw [this, ih cs' hks]; rfl

/-- margin by which the holder of an entry of `selected` cleared its last quota: `v − q·(seats + prev)` -/
def margin (votes : Votes) (q : Rat) (prev : IMap) (e : Key × Int) : Rat :=
  votesOfKey votes e.1 - q * (((e.2 + prevOfKey prev e.1 : Int)) : Rat)

theorem mem_subRemainders {votes : Votes} {q : Rat} {prev : IMap} {sel : Sel} {x : Cand × Rat} :
    x ∈ subRemainders votes q prev sel ↔ ∃ e, sel[x.1]? = some e ∧ x.2 = - margin votes q prev e := by
  unfold subRemainders margin
  constructor
  · intro h
    obtain ⟨ip, hip, rfl⟩ := List.mem_map.mp h
    obtain ⟨i, hi, hie⟩ := List.mem_iff_getElem.mp hip
    rw [List.getElem_zip] at hie
    simp only [List.length_zip, List.length_range, Nat.min_self] at hi
    refine ⟨ip.2, ?_, rfl⟩
    have h1 : ip.1 = i := by rw [← hie]; simp
    have h2 : ip.2 = sel[i] := by rw [← hie]
    simp only
    rw [h1, h2]; exact List.getElem?_eq_getElem hi
  · rintro ⟨e, he, hx⟩
    obtain ⟨hi, hie⟩ := List.getElem?_eq_some_iff.mp he
    refine List.mem_map.mpr ⟨(x.1, e), ?_, ?_⟩
    · refine List.mem_iff_getElem.mpr ⟨x.1, by simpa using hi, ?_⟩
      rw [List.getElem_zip]; simp [hie]
    · simp only; rw [← hx]

theorem subRemainders_ne_nil {votes : Votes} {q : Rat} {prev : IMap} {sel : Sel} (h : sel ≠ []) :
    subRemainders votes q prev sel ≠ [] := by
  intro hn
  have : (subRemainders votes q prev sel).length = sel.length := by
    unfold subRemainders; simp
  rw [hn] at this
  exact h (List.eq_nil_of_length_eq_zero this.symm)

/-! ### sums: exact quotas fill the house -/

theorem sumVals_eq (votes : Votes) : sumVals votes = (votes.map (·.2)).sum := by
  unfold sumVals
  have : ∀ a : Rat, votes.foldl (fun acc p => acc + p.2) a = a + (votes.map (·.2)).sum := by
    induction votes with
    | nil => simp
    | cons x xs ih => intro a; simp only [List.foldl_cons, List.map_cons, List.sum_cons]; rw [ih]; ring
  rw [this]; simp

theorem sumK_wholeSel (q : Rat) (ae : Bool) (prev maxS : IMap) (votes : Votes) :
    sumK (wholeSel q ae prev maxS votes) = (votes.map (wholeAward q ae prev maxS)).sum := by
  induction votes with
  | nil => rfl
  | cons x xs ih =>
    rw [wholeSel_cons, List.map_cons, List.sum_cons]
    by_cases h : 0 < wholeAward q ae prev maxS x
    · rw [if_pos h, sumK_cons, ih]
    · rw [if_neg h, ih]
      have := wholeAward_nonneg q ae prev maxS x
      omega

theorem wholeAward_nil {q : Rat} (hq : 0 < q) (ae : Bool) (p : Cand × Rat) (hv : 0 ≤ p.2) :
    wholeAward q ae [] [] p = wholeQ q ae p.2 := by
  unfold wholeAward
  rw [getI_nil, capQ_nil]
  have := wholeQ_nonneg hq ae hv
  rw [max_eq_left (by omega)]; ring

/-- the exact remainder after the whole quotas lies in `[0, 1]` (it is `1` only on the `accept_equal` edge) -/
theorem rem_bounds {q : Rat} (hq : 0 < q) (ae : Bool) {v : Rat} :
    0 ≤ v / q - (wholeQ q ae v : Rat) ∧ v / q - (wholeQ q ae v : Rat) ≤ 1 := by
  unfold wholeQ
  split
  · rename_i h
    rw [h.1, div_self (ne_of_gt hq)]; simp
  · have h1 := Int.floor_le (v / q)
    have h2 := Int.lt_floor_add_one (v / q)
    constructor <;> linarith

theorem sum_rems (q : Rat) (ae : Bool) (votes : Votes) :
    (votes.map (fun p => p.2 / q - (wholeQ q ae p.2 : Rat))).sum =
      (votes.map (·.2)).sum / q - (((votes.map (fun p => wholeQ q ae p.2)).sum : Int) : Rat) := by
  induction votes with
  | nil => simp
  | cons x xs ih =>
    simp only [List.map_cons, List.sum_cons, ih]
    push_cast
    rw [add_div]; ring

theorem sum_unit_bounds (l : List Rat) (h : ∀ x ∈ l, 0 ≤ x ∧ x ≤ 1) : 0 ≤ l.sum ∧ l.sum ≤ l.length := by
  induction l with
  | nil => simp
  | cons x xs ih =>
    have hx := h x List.mem_cons_self
    have := ih (fun y hy => h y (List.mem_cons_of_mem _ hy))
    simp only [List.sum_cons, List.length_cons]
    push_cast
    constructor <;> linarith [hx.1, hx.2, this.1, this.2]

theorem sum_unit_le_pred (l : List Rat) (h : ∀ x ∈ l, 0 ≤ x ∧ x ≤ 1) (hz : (0 : Rat) ∈ l) :
    l.sum ≤ (l.length : Rat) - 1 := by
  induction l with
  | nil => cases hz
  | cons x xs ih =>
    have hx := h x List.mem_cons_self
    have hb := sum_unit_bounds xs (fun y hy => h y (List.mem_cons_of_mem _ hy))
    simp only [List.sum_cons, List.length_cons]
    push_cast
    rcases List.mem_cons.mp hz with h0 | h0
    · rw [← h0]; linarith [hb.2]
    · have := ih (fun y hy => h y (List.mem_cons_of_mem _ hy)) h0
      linarith [hx.2]

theorem list_sum_nonneg (l : List Rat) (h : ∀ x ∈ l, 0 ≤ x) : 0 ≤ l.sum := by
  induction l with
  | nil => simp
  | cons y ys ih =>
    simp only [List.sum_cons]
    have := ih (fun z hz => h z (List.mem_cons_of_mem _ hz))
    linarith [h y List.mem_cons_self]

theorem mem_le_sum (l : List Rat) (h : ∀ x ∈ l, 0 ≤ x) (x : Rat) (hx : x ∈ l) : x ≤ l.sum := by
  induction l with
  | nil => cases hx
  | cons y ys ih =>
    have hy := h y List.mem_cons_self
    have hs : 0 ≤ ys.sum := list_sum_nonneg ys (fun z hz => h z (List.mem_cons_of_mem _ hz))
    simp only [List.sum_cons]
    rcases List.mem_cons.mp hx with rfl | hx'
    · linarith
    · have := ih (fun z hz => h z (List.mem_cons_of_mem _ hz)) hx'
      linarith

theorem sum_map_div (q : Rat) (votes : Votes) :
    (votes.map (fun p => p.2 / q)).sum = (votes.map (·.2)).sum / q := by
  induction votes with
  | nil => simp
  | cons x xs ih => simp only [List.map_cons, List.sum_cons, ih]; rw [add_div]

/-- without previous gains and caps every party is eligible and its remainder is `v/q − wholeQ` -/
theorem lrRems_plain {q : Rat} (hq : 0 < q) (ae : Bool) (votes : Votes) (hv : ∀ p ∈ votes, 0 ≤ p.2) :
    lrRems q ae [] [] votes = votes.map (fun p => (p.1, p.2 / q - (wholeQ q ae p.2 : Rat))) := by
  unfold lrRems
  rw [← List.filterMap_eq_map]
  apply List.filterMap_congr
  intro p hp
  have he : eligible q ae [] [] p = true := rfl
  rw [if_pos he]
  unfold gainedQ
  rw [wholeAward_nil hq ae p (hv p hp), getI_nil]
  simp

theorem totalAwarded_plain_aux {q : Rat} (hq : 0 < q) (ae : Bool) (votes : Votes) (hv : ∀ p ∈ votes, 0 ≤ p.2) :
    sumK (wholeSel q ae [] [] votes) = (votes.map (fun p => wholeQ q ae p.2)).sum := by
  rw [sumK_wholeSel]
  congr 1
  apply List.map_congr_left
  intro p hp
  exact wholeAward_nil hq ae p (hv p hp)

theorem count_slotKey_tie (votes : Votes) (n : Nat) (T : List Cand) (h : Slot.tie T ∈ getNBest votes n) :
    ((getNBest votes n).map slotKey).count (mkTie T) = (getNBest votes n).count (Slot.tie T) := by
  obtain ⟨k, j, T0, hs⟩ := getNBest_shape votes n
  rw [hs] at h ⊢
  have hT : T = T0 := by
    rcases List.mem_append.mp h with h | h
    · obtain ⟨x, _, hx⟩ := List.mem_map.mp h; cases hx
    · have := (List.mem_replicate.mp h).2; injection this
  subst hT
  rw [List.map_append, List.count_append, List.count_append, List.map_replicate]
  have h1 : ((((sortDesc votes).take k).map (fun p => Slot.cand p.1)).map slotKey).count (mkTie T) = 0 := by
    rw [List.count_eq_zero]
    intro hm
    obtain ⟨x, hx, hxe⟩ := List.mem_map.mp hm
    obtain ⟨y, _, rfl⟩ := List.mem_map.mp hx
    simp [slotKey, mkTie] at hxe
  have h2 : (((sortDesc votes).take k).map (fun p => Slot.cand p.1)).count (Slot.tie T) = 0 := by
    rw [List.count_eq_zero]
    intro hm
    obtain ⟨y, _, hy⟩ := List.mem_map.mp hm
    cases hy
  rw [h1, h2]
  show 0 + (List.replicate j (mkTie T)).count (mkTie T) = 0 + (List.replicate j (Slot.tie T)).count (Slot.tie T)
  rw [List.count_replicate_self, List.count_replicate_self]

/-! ### exact quotas -/

/-- facts about an exact quota `q = V / (n + k)` (`k = 0` Hare, `1` Hagenbach-Bischoff, `2` Imperiali): it is
    positive, the shares `v/q` add up to `n + k`, and the whole quotas stay below that -/
theorem exact_quota_facts (q : Rat) (ae : Bool) (k : Nat) (votes : Votes) (n : Nat)
    (hqe : q = sumVals votes / ((n : Rat) + k)) (hv : ∀ p ∈ votes, 0 ≤ p.2) (hV : 0 < sumVals votes) (hn : 1 ≤ n) :
    0 < q ∧ (votes.map (·.2)).sum / q = (n : Rat) + k ∧
      (votes.map (fun p => wholeQ q ae p.2)).sum ≤ (n : Int) + k ∧
      (∀ p ∈ votes, wholeQ q ae p.2 ≤ (n : Int) + k) ∧
      ((n : Int) + k) - (votes.map (fun p => wholeQ q ae p.2)).sum ≤ votes.length := by
  have hnk : (0 : Rat) < (n : Rat) + k := by positivity
  have hq : 0 < q := by rw [hqe]; exact div_pos hV hnk
  have hVq : (votes.map (·.2)).sum / q = (n : Rat) + k := by
    rw [← sumVals_eq, hqe, div_div_eq_mul_div, mul_comm, mul_div_assoc, div_self (ne_of_gt hV), mul_one]
  have hs := sum_rems q ae votes
  rw [hVq] at hs
  have hb := sum_unit_bounds (votes.map (fun p => p.2 / q - (wholeQ q ae p.2 : Rat)))
    (by
      intro x hx
      obtain ⟨p, _, rfl⟩ := List.mem_map.mp hx
      exact rem_bounds hq ae)
  rw [hs, List.length_map] at hb
  refine ⟨hq, hVq, ?_, ?_, ?_⟩
  · have : (((votes.map (fun p => wholeQ q ae p.2)).sum : Int) : Rat) ≤ (((n : Int) + k : Int) : Rat) := by
      push_cast; linarith [hb.1]
    exact_mod_cast this
  · intro p hp
    have h1 : p.2 / q ≤ (votes.map (fun p => p.2 / q)).sum :=
      mem_le_sum _ (by
        intro x hx
        obtain ⟨p', hp', rfl⟩ := List.mem_map.mp hx
        exact div_nonneg (hv p' hp') (le_of_lt hq)) _ (List.mem_map.mpr ⟨p, hp, rfl⟩)
    rw [sum_map_div, hVq] at h1
    have h2 := (rem_bounds (v := p.2) hq ae).1
    have : ((wholeQ q ae p.2 : Int) : Rat) ≤ (((n : Int) + k : Int) : Rat) := by push_cast; linarith
    exact_mod_cast this
  · have : ((((n : Int) + k) - (votes.map (fun p => wholeQ q ae p.2)).sum : Int) : Rat) ≤ ((votes.length : Int) : Rat) := by
      push_cast; linarith [hb.2]
    exact_mod_cast this

theorem getI_of_getCap {m : IMap} {c : Cand} {x : Int} (h : getCap m c = some x) (d : Int) :
    getI m c d = x := by
  unfold getCap at h
  unfold getI
  cases hf : m.find? (fun p => p.1 = c) with
  | none => rw [hf] at h; cases h
  | some y => rw [hf] at h; injection h

/-! ### the counting argument behind the quota rule -/

/-- for any quota under which the number of remainder seats `r` equals the sum of the exact remainders
    (Hare: the shares add up to `n`), a party ends between the floor and the ceiling of its share -/
theorem quota_rule_aux (q : Rat) (ae : Bool) (votes : Votes) (hnd0 : (votes.map (·.1)).Nodup)
    (hv : ∀ p ∈ votes, 0 ≤ p.2) (hq : 0 < q) (r : Nat)
    (hrnat : ((r : Nat) : Rat) = ((lrRems q ae [] [] votes).map (·.2)).sum)
    (p : Cand × Rat) (hp : p ∈ votes) (seats : Int)
    (hseats : seats = wholeQ q ae p.2 +
      (if Slot.cand p.1 ∈ getNBest (lrRems q ae [] [] votes) r then 1 else 0)) :
    ⌊p.2 / q⌋ ≤ seats ∧ seats ≤ ⌈p.2 / q⌉ := by
  -- the remainder list
  have hrems : lrRems q ae [] [] votes = votes.map (fun p => (p.1, p.2 / q - (wholeQ q ae p.2 : Rat))) :=
    lrRems_plain hq ae votes hv
  have hremvals : (lrRems q ae [] [] votes).map (·.2) = votes.map (fun p => p.2 / q - (wholeQ q ae p.2 : Rat)) := by
    rw [hrems, List.map_map]; rfl
  have hnn : ∀ e ∈ lrRems q ae [] [] votes, 0 ≤ e.2 := by
    intro e he
    rw [hrems] at he
    obtain ⟨p', _, rfl⟩ := List.mem_map.mp he
    exact (rem_bounds hq ae).1
  have hnd : ((lrRems q ae [] [] votes).map (·.1)).Nodup :=
    List.Nodup.sublist (keys_lrRems_sublist _ _ _ _ _) hnd0
  have hpe : (p.1, p.2 / q - (wholeQ q ae p.2 : Rat)) ∈ lrRems q ae [] [] votes := by
    rw [hrems]; exact List.mem_map.mpr ⟨p, hp, rfl⟩
  have hfl := Int.floor_le (p.2 / q)
  have hflt := Int.lt_floor_add_one (p.2 / q)
  by_cases hedge : p.2 = q ∧ ae = false
  · -- exactly one quota, accept_equal off: no whole quota, but the largest possible remainder
    have hw : wholeQ q ae p.2 = 0 := by unfold wholeQ; rw [if_pos hedge]
    have hx : p.2 / q = 1 := by rw [hedge.1, div_self (ne_of_gt hq)]
    have hone : cntGe (lrRems q ae [] [] votes) 1 ≤ r := by
      have := cntGe_one_le_sum _ hnn
      rw [← hrnat] at this
      exact_mod_cast this
    have hel : Slot.cand p.1 ∈ getNBest (lrRems q ae [] [] votes) r := by
      have := cntGe_le_elected (lrRems q ae [] [] votes) r
        (p.1, p.2 / q - (wholeQ q ae p.2 : Rat)) hpe (by rw [hw, hx]; simpa using hone)
      exact this
    rw [if_pos hel, hw] at hseats
    rw [hseats, hx]
    simp
  · have hw : wholeQ q ae p.2 = ⌊p.2 / q⌋ := by unfold wholeQ; rw [if_neg hedge]
    rw [hw] at hseats
    constructor
    · rw [hseats]; split <;> omega
    · by_cases hint : ((⌊p.2 / q⌋ : Int) : Rat) = p.2 / q
      · -- an integral share: remainder 0, which never wins a seat
        have hnot : Slot.cand p.1 ∉ getNBest (lrRems q ae [] [] votes) r := by
          intro hel
          have hzero : (0 : Rat) ∈ (lrRems q ae [] [] votes).map (·.2) := by
            refine List.mem_map.mpr ⟨_, hpe, ?_⟩
            simp only [hw]; linarith
          have hub := sum_unit_le_pred ((lrRems q ae [] [] votes).map (·.2)) (by
            intro x hx
            rw [hremvals] at hx
            obtain ⟨p', _, rfl⟩ := List.mem_map.mp hx
            exact rem_bounds hq ae) hzero
          rw [← hrnat, List.length_map] at hub
          have hlen1 : 1 ≤ (lrRems q ae [] [] votes).length := List.length_pos_of_mem hpe
          have hlt : r < (lrRems q ae [] [] votes).length := by
            have : ((r : Nat) : Rat) < ((lrRems q ae [] [] votes).length : Rat) := by
              linarith
            exact_mod_cast this
          have hc := elected_cntGe_le _ hnd _ hlt _ hpe hel
          simp only [hw] at hc
          have hz : p.2 / q - ((⌊p.2 / q⌋ : Int) : Rat) = 0 := by linarith
          rw [hz, cntGe_zero_eq_length _ hnn] at hc
          omega
        rw [if_neg hnot] at hseats
        rw [hseats]
        simp only [add_zero]
        exact Int.floor_le_ceil _
      · have hlt : ((⌊p.2 / q⌋ : Int) : Rat) < p.2 / q := lt_of_le_of_ne hfl hint
        have hc : ⌊p.2 / q⌋ + 1 ≤ ⌈p.2 / q⌉ := by
          have := Int.le_ceil (p.2 / q)
          have : ((⌊p.2 / q⌋ : Int) : Rat) < ((⌈p.2 / q⌉ : Int) : Rat) := lt_of_lt_of_le hlt this
          have : ⌊p.2 / q⌋ < ⌈p.2 / q⌉ := by exact_mod_cast this
          omega
        rw [hseats]; split <;> omega



/-! ### withdrawals only lower a party's seats -/

theorem getK_delK_self (s : Sel) (k : Key) (d : Int) : getK (delK s k) k d = d := by
  apply getK_of_not_hasK
  rw [← Bool.not_eq_true]
  intro hh
  have := (hasK_iff _ _).mp hh
  rw [keys_delK, List.mem_filter] at this
  simp at this

theorem getK_delK_ne (s : Sel) {k k' : Key} (h : k' ≠ k) (d : Int) : getK (delK s k) k' d = getK s k' d := by
  induction s with
  | nil => rfl
  | cons x xs ih =>
    unfold delK at ih ⊢
    rw [List.filter_cons]
    by_cases hx : x.1 = k
    · have : ¬ x.1 = k' := fun e => h (e.symm.trans hx)
      simp only [hx, ne_eq, not_true_eq_false, decide_false, Bool.false_eq_true, if_false]
      rw [ih, getK_cons, if_neg (by rw [hx]; exact fun e => h e.symm)]
    · simp only [hx, ne_eq, not_false_eq_true, decide_true, if_true]
      rw [getK_cons, getK_cons, ih]

theorem getK_decK_le (s : Sel) (k k' : Key) : getK (decK s k) k' 0 ≤ getK s k' 0 := by
  unfold decK
  by_cases hk : k' = k
  · subst hk
    split
    · rename_i h1; rw [getK_delK_self, h1]; omega
    · rw [getK_setK_self]; omega
  · split
    · rw [getK_delK_ne _ hk]
    · rw [getK_setK_ne _ hk]

theorem foldl_decK_cand_le (cs : List Cand) (k : Key) : ∀ s : Sel,
    getK (cs.foldl (fun acc c => decK acc (.cand c)) s) k 0 ≤ getK s k 0 := by
  induction cs with
  | nil => intro s; exact le_refl _
  | cons c cs ih =>
    intro s
    simp only [List.foldl_cons]
    exact le_trans (ih _) (getK_decK_le s _ k)

theorem subtractStep_cand_le (votes : Votes) (q : Rat) (prev : IMap) (sel sel' : Sel) (c : Cand)
    (h : subtractStep votes q prev sel = .ok sel') : getK sel' (.cand c) 0 ≤ getK sel (.cand c) 0 := by
  unfold subtractStep at h
  split at h
  · cases h
  · injection h with h; subst h; exact getK_decK_le _ _ _
  · simp only at h
    split at h
    · cases h
    · rename_i cs _
      split at h
      · injection h with h; subst h; exact getK_decK_le _ _ _
      · injection h with h; subst h
        rw [getK_setK_ne _ (by unfold mkTie; intro e; cases e)]
        exact foldl_decK_cand_le cs _ sel

theorem subtractLoop_cand_le (votes : Votes) (q : Rat) (prev : IMap) (k : Nat) (c : Cand) :
    ∀ (sel r : Sel), subtractLoop votes q prev k sel = .ok r → getK r (.cand c) 0 ≤ getK sel (.cand c) 0 := by
  induction k with
  | zero => intro sel r h; unfold subtractLoop at h; injection h with h; subst h; exact le_refl _
  | succ k ih =>
    intro sel r h
    unfold subtractLoop at h
    split at h
    · rename_i sel' hs
      exact le_trans (ih sel' r h) (subtractStep_cand_le votes q prev sel sel' c hs)
    · cases h

theorem length_lrRems (q : Rat) (ae : Bool) (prev maxS : IMap) (votes : Votes) :
    (lrRems q ae prev maxS votes).length = (votes.filter (fun p => eligible q ae prev maxS p)).length := by
  unfold lrRems
  induction votes with
  | nil => rfl
  | cons x xs ih =>
    rw [List.filterMap_cons, List.filter_cons]
    by_cases h : eligible q ae prev maxS x = true
    · simp only [h, if_true, List.length_cons, ih]
    · simp only [h, Bool.false_eq_true, if_false, ih]

/-! ### which exceptions can escape -/

theorem wholeStep_err {q : Rat} {ae : Bool} {prev maxS : IMap} {sel : Sel} {p : Cand × Rat} {e : Err}
    (h : wholeStep q ae prev maxS sel p = .error e) : e = zeroDiv ∧ q = 0 := by
  unfold wholeStep at h
  simp only at h
  split at h
  · split at h
    · rename_i hq0; injection h with h; exact ⟨h.symm, hq0⟩
    · split at h <;> cases h
  · cases h

theorem wholeLoop_err {q : Rat} {ae : Bool} {prev maxS : IMap} {e : Err} (votes : Votes) :
    ∀ sel, wholeLoop q ae prev maxS sel votes = .error e → e = zeroDiv ∧ q = 0 := by
  induction votes with
  | nil => intro sel h; cases h
  | cons p ps ih =>
    intro sel h
    unfold wholeLoop at h
    split at h
    · exact ih _ h
    · rename_i e' he
      injection h with h
      rw [← h]; exact wholeStep_err he

theorem subtractStep_err {votes : Votes} {q : Rat} {prev : IMap} {sel : Sel} {e : Err}
    (h : subtractStep votes q prev sel = .error e) : e = indexErr ∨ e = nestedTie := by
  unfold subtractStep at h
  split at h
  · injection h with h; exact Or.inl h.symm
  · cases h
  · simp only at h
    split at h
    · injection h with h; exact Or.inr h.symm
    · split at h <;> cases h

theorem subtractLoop_err {votes : Votes} {q : Rat} {prev : IMap} {e : Err} (k : Nat) :
    ∀ sel, subtractLoop votes q prev k sel = .error e → e = indexErr ∨ e = nestedTie := by
  induction k with
  | zero => intro sel h; cases h
  | succ k ih =>
    intro sel h
    unfold subtractLoop at h
    split at h
    · exact ih _ h
    · rename_i e' he
      injection h with h
      rw [← h]; exact subtractStep_err he

theorem applyPolicy_err {cfg : Cfg} {votes : Votes} {n : Nat} {prev : IMap} {sel : Sel} {e : Err}
    (h : applyPolicy cfg votes n prev sel = .error e) :
    e = .votingSystemError ∨ e = indexErr ∨ e = nestedTie := by
  unfold applyPolicy at h
  simp only at h
  split at h
  · cases hpol : cfg.onOver with
    | ignore => rw [hpol] at h; cases h
    | error => rw [hpol] at h; injection h with h; exact Or.inl h.symm
    | subtract =>
      rw [hpol] at h
      simp only [subtractOveraward] at h
      exact Or.inr (subtractLoop_err _ _ h)
  · cases h

/-- for EVERY quota and every input (well-formed or not) the exceptions that can escape are the declared
    `VotingSystemError`, the withdrawal loop's `IndexError`, and the model's own `Model:NestedTie` marker;
    in particular never `ZeroDivisionError` -/
theorem quotaDistribute_err {cfg : Cfg} {votes : Votes} {n : Nat} {prev maxS : IMap} {e : Err}
    (h : quotaDistribute cfg votes n prev maxS = .error e) :
    e = .votingSystemError ∨ e = indexErr ∨ e = nestedTie := by
  unfold quotaDistribute at h
  simp only at h
  split at h
  · injection h with h; exact Or.inl h.symm
  · rename_i hq
    split at h
    · rename_i e' he
      exfalso
      have := (wholeLoop_err votes _ he).2
      rw [this] at hq
      exact hq (le_refl 0)
    · exact applyPolicy_err h

theorem quotaDistribute_ok_pos {cfg : Cfg} {votes : Votes} {n : Nat} {prev maxS : IMap} {r : Sel}
    (h : quotaDistribute cfg votes n prev maxS = .ok r) : 0 < cfg.quota (sumVals votes) n := by
  unfold quotaDistribute at h
  simp only at h
  split at h
  · cases h
  · rename_i hq; exact not_le.mp hq

end QD
end VL
