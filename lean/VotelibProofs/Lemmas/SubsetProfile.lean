/-
  Restricting a ranked profile to a set of candidates preserves the pairwise counts among them
  (`RankedToCondorcetVotes(unranked_at_bottom=True)` ∘ `SubsettedVotes(RankedSubsetter)`).
-/
import VotelibProofs.Lemmas.WidestPaths
namespace VL.Condorcet
open VL

/-! ### the count of a pair as a weighted sum over the ballots -/

theorem pget_padd (m : Pairwise) (q : Pair) (x : Rat) (q' : Pair) :
    pget (padd m q x) q' = if q' = q then pget m q + x else pget m q' := by
  induction m with
  | nil =>
    by_cases h : q' = q
    · subst h; simp [padd, pget_cons, pget]
    · have : ¬ q = q' := fun h' => h h'.symm
      simp [padd, pget_cons, h, this, pget]
  | cons e es ih =>
    obtain ⟨a, y⟩ := e
    by_cases ha : a = q
    · subst ha
      by_cases h : q' = a
      · subst h; simp [padd, pget_cons]
      · have : ¬ a = q' := fun h' => h h'.symm
        simp [padd, pget_cons, h, this]
    · simp only [padd, ha, if_false, pget_cons, ih]
      by_cases h : q' = q
      · subst h; simp [ha]
      · simp [h]

theorem pget_paddFold (pairs : List Pair) (w : Rat) (counts : Pairwise) (q : Pair) :
    pget (pairs.foldl (fun cs pr => padd cs pr w) counts) q = pget counts q + (pairs.count q : Rat) * w := by
  induction pairs generalizing counts with
  | nil => simp
  | cons pr prs ih =>
    rw [List.foldl_cons, ih, pget_padd, List.count_cons]
    by_cases h : q = pr
    · subst h; simp; ring
    · have h' : ¬ (pr == q) = true := by simpa using fun e : pr = q => h e.symm
      simp [h, h']

/-- weighted sum over the ballots of a profile -/
def wsum : Profile → (Ballot → Rat) → Rat
  | [], _ => 0
  | e :: es, g => g e.1 * e.2 + wsum es g

/-- the unranked candidates of a ballot among `allCands` -/
def unrankedOf (allCands : List Cand) (b : Ballot) : List Cand :=
  allCands.filter (fun c => !(b.flatMap itemCands).contains c)

theorem pget_rtcFold (allCands : List Cand) (p : Profile) (counts : Pairwise) (q : Pair) :
    pget (p.foldl (fun counts b =>
      (ballotPairs allCands b.1 (unrankedOf allCands b.1)).foldl (fun cs pr => padd cs pr b.2) counts) counts) q =
      pget counts q + wsum p (fun b => ((ballotPairs allCands b (unrankedOf allCands b)).count q : Rat)) := by
  induction p generalizing counts with
  | nil => simp [wsum]
  | cons e es ih =>
    rw [List.foldl_cons, ih, pget_paddFold, wsum]
    ring

theorem pget_rtc (p : Profile) (q : Pair) :
    pget (rankedToCondorcet p) q =
      wsum p (fun b => ((ballotPairs (allRankedCandidates p) b (unrankedOf (allRankedCandidates p) b)).count q : Rat)) := by
  have := pget_rtcFold (allRankedCandidates p) p [] q
  simp only [pget, List.find?_nil, zero_add] at this
  exact this

/-! ### counting the pairs of one ballot -/

/-- how often a ballot counts for `x` over `y` (once, for a ballot that names nobody twice) -/
def cnt (x y : Cand) : Ballot → List Cand → Nat
  | [], _ => 0
  | it :: rest, unr => (itemCands it).count x * ((rest.flatMap itemCands).count y + unr.count y) + cnt x y rest unr

theorem count_map_pair (x y u : Cand) (L : List Cand) :
    (L.map (fun l => (u, l))).count (x, y) = if u = x then L.count y else 0 := by
  induction L with
  | nil => simp
  | cons l ls ih2 =>
    rw [List.map_cons, List.count_cons, ih2, List.count_cons]
    by_cases hu : u = x
    · subst hu
      by_cases hl : l = y
      · subst hl; simp
      · have : ¬ (l == y) = true := by simpa using hl
        simp [hl, this]
    · have : ¬ ((u, l) == (x, y)) = true := by simp [hu]
      simp [hu, this]

theorem count_pairs_row (x y : Cand) (L : List Cand) (cs : List Cand) :
    (cs.flatMap (fun u => L.map (fun l => (u, l)))).count (x, y) = cs.count x * L.count y := by
  induction cs with
  | nil => simp
  | cons u us ih =>
    rw [List.flatMap_cons, List.count_append, ih, List.count_cons, count_map_pair]
    by_cases hu : u = x
    · subst hu; simp [Nat.add_mul, Nat.add_comm]
    · have : ¬ (u == x) = true := by simpa using hu
      simp [hu, this]

theorem count_ballotPairs (ac : List Cand) (x y : Cand) (b : Ballot) (unr : List Cand) :
    (ballotPairs ac b unr).count (x, y) = cnt x y b unr := by
  induction b with
  | nil => simp [ballotPairs, cnt]
  | cons it rest ih =>
    unfold ballotPairs cnt
    rw [List.count_append, ih]
    congr 1
    have : ((itemCands it).flatMap (fun u =>
        (rest.flatMap itemCands).map (fun l => (u, l)) ++ unr.map (fun l => (u, l)))) =
        (itemCands it).flatMap (fun u => (rest.flatMap itemCands ++ unr).map (fun l => (u, l))) := by
      congr 1; funext u; rw [List.map_append]
    rw [this, count_pairs_row, List.count_append]

/-! ### subsetting one ballot -/

theorem flatMap_subsetBallot (T : List Cand) (b : Ballot) :
    (subsetBallot T b).flatMap itemCands = (b.flatMap itemCands).filter (fun c => T.contains c) := by
  induction b with
  | nil => rfl
  | cons it rest ih =>
    cases it with
    | one d =>
      unfold subsetBallot
      split
      · rename_i hd
        rw [List.flatMap_cons, List.flatMap_cons, ih]
        show [d] ++ _ = List.filter _ ([d] ++ _)
        rw [List.filter_append, List.filter_cons_of_pos (by exact hd), List.filter_nil]
      · rename_i hd
        rw [List.flatMap_cons, ih]
        show _ = List.filter _ ([d] ++ _)
        rw [List.filter_append, List.filter_cons_of_neg (by exact hd), List.filter_nil, List.nil_append]
    | shared cs =>
      unfold subsetBallot
      split
      · rename_i h0
        rw [List.flatMap_cons, ih]
        show _ = List.filter _ (cs ++ _)
        rw [List.filter_append, h0, List.nil_append]
      · rename_i c h1
        rw [List.flatMap_cons, List.flatMap_cons, ih]
        show [c] ++ _ = List.filter _ (cs ++ _)
        rw [List.filter_append, h1]
      · rw [List.flatMap_cons, List.flatMap_cons, ih]
        show List.filter _ cs ++ _ = List.filter _ (cs ++ _)
        rw [List.filter_append]

theorem count_filter_mem {T : List Cand} {x : Cand} (hx : T.contains x = true) (L : List Cand) :
    (L.filter (fun c => T.contains c)).count x = L.count x := by
  rw [List.count_filter]
  exact hx

/-- for two candidates of `T` a ballot restricted to `T` counts exactly as the ballot itself -/
theorem cnt_subsetBallot {T : List Cand} {x y : Cand} (hx : T.contains x = true) (hy : T.contains y = true)
    (b : Ballot) (unr unr' : List Cand) (hu : unr'.count y = unr.count y) :
    cnt x y (subsetBallot T b) unr' = cnt x y b unr := by
  induction b with
  | nil => simp [subsetBallot, cnt]
  | cons it rest ih =>
    have hrest : ((subsetBallot T rest).flatMap itemCands).count y = (rest.flatMap itemCands).count y := by
      rw [flatMap_subsetBallot, count_filter_mem hy]
    cases it with
    | one d =>
      unfold subsetBallot
      split
      · simp only [cnt, itemCands, hrest, hu, ih]
      · rename_i hd
        have hxd : [d].count x = 0 := by
          rw [List.count_eq_zero]
          intro h
          simp only [List.mem_singleton] at h
          subst h
          exact hd hx
        simp only [cnt, itemCands, hxd, Nat.zero_mul, Nat.zero_add, ih]
    | shared cs =>
      have hcs : (cs.filter (fun c => T.contains c)).count x = cs.count x := count_filter_mem hx cs
      unfold subsetBallot
      split
      · rename_i h0
        rw [h0] at hcs
        simp only [cnt, itemCands, ← hcs, List.count_nil, Nat.zero_mul, Nat.zero_add, ih]
      · rename_i c h1
        rw [h1] at hcs
        simp only [cnt, itemCands, ← hcs, hrest, hu, ih]
      · simp only [cnt, itemCands, hcs, hrest, hu, ih]

/-! ### merging of equal ballots (`sub[sub_vote] += n_votes`) keeps weighted sums -/

theorem wsum_badd (acc : Profile) (b : Ballot) (x : Rat) (g : Ballot → Rat) :
    wsum (badd acc b x) g = wsum acc g + g b * x := by
  induction acc with
  | nil => simp [badd, wsum]
  | cons e es ih =>
    obtain ⟨q, y⟩ := e
    unfold badd
    split
    · rename_i hq
      subst hq
      simp only [wsum]; ring
    · simp only [wsum, ih]; ring

theorem wsum_subsetFold (T : List Cand) (p acc : Profile) (g : Ballot → Rat) :
    wsum (p.foldl (fun acc b => badd acc (subsetBallot T b.1) b.2) acc) g =
      wsum acc g + wsum p (fun b => g (subsetBallot T b)) := by
  induction p generalizing acc with
  | nil => simp [wsum]
  | cons e es ih =>
    rw [List.foldl_cons, ih, wsum_badd]
    simp only [wsum]; ring

theorem wsum_subsetProfile (T : List Cand) (p : Profile) (g : Ballot → Rat) :
    wsum (subsetProfile p T) g = wsum p (fun b => g (subsetBallot T b)) := by
  unfold subsetProfile
  rw [wsum_subsetFold]
  simp [wsum]

theorem wsum_congr {p : Profile} {f g : Ballot → Rat} (h : ∀ b, f b = g b) : wsum p f = wsum p g := by
  induction p with
  | nil => rfl
  | cons e es ih => simp only [wsum, h, ih]

/-! ### the restricted profile -/

theorem badd_has_key (acc : Profile) (b : Ballot) (x : Rat) : ∃ e ∈ badd acc b x, e.1 = b := by
  induction acc with
  | nil => exact ⟨(b, x), by simp [badd], rfl⟩
  | cons a rest ih =>
    obtain ⟨q, y⟩ := a
    unfold badd
    split
    · rename_i hq; exact ⟨(q, y + x), by simp, hq⟩
    · obtain ⟨e, he, h⟩ := ih
      exact ⟨e, List.mem_cons_of_mem _ he, h⟩

theorem badd_keeps_key {acc : Profile} {e : Ballot × Rat} (he : e ∈ acc) (b : Ballot) (x : Rat) :
    ∃ e' ∈ badd acc b x, e'.1 = e.1 := by
  induction acc with
  | nil => simp at he
  | cons a rest ih =>
    obtain ⟨q, y⟩ := a
    unfold badd
    rcases List.mem_cons.1 he with rfl | he'
    · split
      · exact ⟨(q, y + x), by simp, rfl⟩
      · exact ⟨(q, y), by simp, rfl⟩
    · split
      · exact ⟨e, List.mem_cons_of_mem _ he', rfl⟩
      · obtain ⟨e', he'', h⟩ := ih he'
        exact ⟨e', List.mem_cons_of_mem _ he'', h⟩

theorem subsetProfile_has {p : Profile} (T : List Cand) {b : Ballot × Rat} (hb : b ∈ p) :
    ∃ e ∈ subsetProfile p T, e.1 = subsetBallot T b.1 := by
  unfold subsetProfile
  have key : ∀ (l acc : Profile), (b ∈ l ∨ ∃ e ∈ acc, e.1 = subsetBallot T b.1) →
      ∃ e ∈ l.foldl (fun acc b => badd acc (subsetBallot T b.1) b.2) acc, e.1 = subsetBallot T b.1 := by
    intro l
    induction l with
    | nil =>
      intro acc h
      rcases h with h | h
      · simp at h
      · exact h
    | cons a rest ih =>
      intro acc h
      rw [List.foldl_cons]
      apply ih
      rcases h with h | ⟨e, he, h⟩
      · rcases List.mem_cons.1 h with rfl | h'
        · exact Or.inr (badd_has_key acc _ _)
        · exact Or.inl h'
      · obtain ⟨e', he', h'⟩ := badd_keeps_key he (subsetBallot T a.1) a.2
        exact Or.inr ⟨e', he', h'.trans h⟩
  exact key p [] (Or.inl hb)

theorem mem_allRanked_subsetProfile {p : Profile} {T : List Cand} {c : Cand} :
    c ∈ allRankedCandidates (subsetProfile p T) ↔ T.contains c = true ∧ c ∈ allRankedCandidates p := by
  constructor
  · intro h
    have := allRanked_subsetProfile h
    exact ⟨List.contains_iff_mem.2 this.1, this.2⟩
  · rintro ⟨hT, hc⟩
    obtain ⟨b, hb, hcb⟩ := mem_allRanked hc
    obtain ⟨e, he, hee⟩ := subsetProfile_has T hb
    apply item_mem_allRanked he
    rw [hee, flatMap_subsetBallot, List.mem_filter]
    exact ⟨hcb, hT⟩

theorem nodup_allRanked (p : Profile) : (allRankedCandidates p).Nodup := nodup_uniq _

theorem count_unrankedOf (ac : List Cand) (hac : ac.Nodup) (b : Ballot) (y : Cand) :
    (unrankedOf ac b).count y = if (b.flatMap itemCands).contains y = false ∧ y ∈ ac then 1 else 0 := by
  unfold unrankedOf
  by_cases hr : (b.flatMap itemCands).contains y = true
  · have : (List.filter (fun c => !(b.flatMap itemCands).contains c) ac).count y = 0 := by
      rw [List.count_eq_zero, List.mem_filter]
      rintro ⟨_, h⟩
      rw [hr] at h
      simp at h
    rw [this, hr]; simp
  · simp only [Bool.not_eq_true] at hr
    rw [List.count_filter (by rw [hr]; rfl), hr]
    simp only [true_and]
    rw [hac.count]

/-- **Restricting a profile to `T` preserves the pairwise counts among the candidates of `T`.** -/
theorem pget_rtc_subsetProfile (p : Profile) {T : List Cand} {x y : Cand} (hx : T.contains x = true)
    (hy : T.contains y = true) :
    pget (rankedToCondorcet (subsetProfile p T)) (x, y) = pget (rankedToCondorcet p) (x, y) := by
  rw [pget_rtc, pget_rtc, wsum_subsetProfile]
  apply wsum_congr
  intro b
  rw [count_ballotPairs, count_ballotPairs]
  congr 1
  apply cnt_subsetBallot hx hy
  rw [count_unrankedOf _ (nodup_allRanked _), count_unrankedOf _ (nodup_allRanked _)]
  have hmem : y ∈ allRankedCandidates (subsetProfile p T) ↔ y ∈ allRankedCandidates p := by
    rw [mem_allRanked_subsetProfile]; exact ⟨fun h => h.2, fun h => ⟨hy, h⟩⟩
  have hr : ((subsetBallot T b).flatMap itemCands).contains y = (b.flatMap itemCands).contains y := by
    rw [flatMap_subsetBallot]
    cases h1 : (b.flatMap itemCands).contains y with
    | true =>
      rw [List.contains_iff_mem, List.mem_filter]
      exact ⟨List.contains_iff_mem.1 h1, hy⟩
    | false =>
      cases h2 : (List.filter (fun c => T.contains c) (b.flatMap itemCands)).contains y with
      | false => rfl
      | true =>
        have := (List.mem_filter.1 (List.contains_iff_mem.1 h2)).1
        rw [← List.contains_iff_mem, h1] at this
        exact absurd this (by simp)
  rw [hr]
  by_cases hm : y ∈ allRankedCandidates p
  · simp [hm, hmem.2 hm]
  · have : y ∉ allRankedCandidates (subsetProfile p T) := fun h => hm (hmem.1 h)
    simp [hm, this]

end VL.Condorcet
