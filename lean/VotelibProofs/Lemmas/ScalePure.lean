/-
  C11: PureProportionality (exact proportional shares with floors `prev_gains` and caps `max_seats`) is scale invariant for
  every configuration: the seats per vote become `budget / (k·total)`, every share `k·v · budget/(k·total)` is literally
  the same number, so every pass of the fixing loop fixes the same parties at the same values.
-/
import VotelibProofs.Lemmas.ScaleCondorcet
import VotelibModel.PureProportionality
namespace VL.Scale
open VL VL.Pure

theorem passStep_scale (k : Rat) (hk : 0 < k) (budget tot : Rat) (prev maxS : IMap) (st : St) (p : Cand × Rat) :
    passStep (budget / (k * tot)) prev maxS st (p.1, k * p.2) = passStep (budget / tot) prev maxS st p := by
  have h : k * p.2 * (budget / (k * tot)) = p.2 * (budget / tot) := by
    rw [mul_comm k p.2, mul_assoc, ← mul_div_assoc, mul_div_mul_left _ _ (ne_of_gt hk)]
  unfold passStep
  simp only [h]

theorem pureLoop_scale (k : Rat) (hk : 0 < k) (votes : Votes) (n : Nat) (prev maxS : IMap) :
    ∀ (f : Nat) (fixed : List Cand) (result : Votes) (prevLen : Int),
      pureLoop (scaleVotes k votes) n prev maxS f fixed result prevLen = pureLoop votes n prev maxS f fixed result prevLen := by
  intro f
  induction f with
  | zero => intro fixed result prevLen; rfl
  | succ f ih =>
    intro fixed result prevLen
    simp only [pureLoop]
    have hcur : (scaleVotes k votes).filter (fun p => decide (p.1 ∉ fixed))
        = scaleVotes k (votes.filter (fun p => decide (p.1 ∉ fixed))) := filter_scale k _ _ _ (fun _ _ => rfl)
    rw [hcur, sumVals_scale]
    simp only [mul_eq_zero, ne_of_gt hk, false_or]
    have hfold : ∀ (cur : Votes) (st : St) (b t : Rat),
        (scaleVotes k cur).foldl (passStep (b / (k * t)) prev maxS) st = cur.foldl (passStep (b / t) prev maxS) st := by
      intro cur st b t
      unfold scaleVotes
      exact foldl_simMap (fun s : St => s) (passStep (b / t) prev maxS) (passStep (b / (k * t)) prev maxS)
        (fun p => (p.1, k * p.2)) (fun s p => passStep_scale k hk b t prev maxS s p) cur st
    simp only [hfold, ih]

/-- **PureProportionality**: every seat number, every previous gains, every caps -/
theorem pureProportionality_scale (k : Rat) (hk : 0 < k) (votes : Votes) (n : Nat) (prev maxS : IMap) :
    pureProportionality (scaleVotes k votes) n prev maxS = pureProportionality votes n prev maxS := by
  unfold pureProportionality
  rw [scaleVotes_length, pureLoop_scale k hk]

end VL.Scale
