/-
  C10 — ballot-order independence of `PreferenceAddition` (Bucklin / Oklahoma), n seats
  (model VotelibModel/ShapeSequential.lean, owned by C08), part 1: the loop without the decoupling of shared ranks.

  The running totals of the two runs are the same dict up to insertion order (`DRel Eq`, machinery of
  PermSTV.lean), the candidates elected in earlier rounds are the same up to order; the round that fills the last
  seats is a `get_n_best`, hence `SlotsEquiv`.  A Tie can only appear in that last round, so the accumulated result
  is `SlotsEquiv` as a whole; `Tie.reconcile` reads a `SlotsEquiv` class only.
-/
import VotelibProofs.Lemmas.PermSTV
import VotelibProofs.Lemmas.ShapeSequential
namespace VL.Perm.Buck
open VL VL.Convert VL.ShapeSeq VL.C10 VL.Perm.Stv

/-! ### `addTo` is an update-or-insert -/

section AddTo
variable {κ : Type} [DecidableEq κ]

theorem addTo_eq_upd (d : Dict κ) (k : κ) (v : Rat) : addTo d k v = upd d k (fun x => x + v) 0 := by
  induction d with
  | nil => simp [addTo, upd]
  | cons e es ih =>
    obtain ⟨k', v'⟩ := e
    simp only [addTo, upd, ih]

/-- the same dict key -> number up to insertion order -/
abbrev VRel (d₁ d₂ : Dict κ) : Prop := DRel (κ := κ) (α := Rat) Eq d₁ d₂

theorem vRel_symm : ∀ a b : Dict κ, VRel a b → VRel b a := fun _ _ h => DRel.symm (fun _ _ e => e.symm) h
theorem vRel_trans : ∀ a b c : Dict κ, VRel a b → VRel b c → VRel a c :=
  fun _ _ _ h h' => DRel.trans (fun _ _ _ e e' => e.trans e') h h'

def addReq (d : Dict κ) (r : κ × Rat) : Dict κ := addTo d r.1 r.2

/-- a batch of `d[k] += v` requests -/
def addAllTo (d : Dict κ) (reqs : List (κ × Rat)) : Dict κ := reqs.foldl addReq d

theorem addReq_rel (r : κ × Rat) (d d' : Dict κ) (h : VRel d d') : VRel (addReq d r) (addReq d' r) := by
  unfold addReq
  rw [addTo_eq_upd, addTo_eq_upd]
  exact DRel.upd h _ (fun v v' e => by rw [e]) rfl

theorem addReq_comm (r s : κ × Rat) (d : Dict κ) (h : VRel d d) :
    VRel (addReq (addReq d r) s) (addReq (addReq d s) r) := by
  unfold addReq
  simp only [addTo_eq_upd]
  exact upd_comm h _ _ (fun v v' e => by rw [e]) (fun v v' e => by rw [e]) rfl (fun v _ => add_right_comm v r.2 s.2)

theorem addAllTo_perm {l₁ l₂ : List (κ × Rat)} (hl : l₁.Perm l₂) {d₁ d₂ : Dict κ} (h : VRel d₁ d₂) :
    VRel (addAllTo d₁ l₁) (addAllTo d₂ l₂) := by
  unfold addAllTo
  exact foldl_perm_rel VRel vRel_symm vRel_trans addReq (fun _ _ => True) (fun _ _ _ => trivial)
    addReq_rel (fun x y s _ hs => addReq_comm x y s hs) hl (List.pairwise_of_forall (fun _ _ => trivial)) _ _ h

theorem addAllTo_append (d : Dict κ) (l l' : List (κ × Rat)) : addAllTo d (l ++ l') = addAllTo (addAllTo d l) l' := by
  unfold addAllTo; rw [List.foldl_append]

theorem vRel_nil : VRel ([] : Dict κ) [] := DRel.refl_of_nodup (by simp)

end AddTo

/-! ### `_add_round_votes` as a batch of requests -/

/-- the additions of one round: every unelected member of place `i` of every ballot receives `weight * coef` -/
def roundReqs (coef : Rat) (p : RProfile) (i : Nat) (elected : List Slot) : List (Cand × Rat) :=
  p.flatMap (fun bw => match bw.1[i]? with
    | some it => (it.cands.filter (fun c => decide (Slot.cand c ∉ elected))).map (fun c => (c, bw.2 * coef))
    | none => [])

theorem inner_eq (elected : List Slot) (w : Rat) (cs : List Cand) (t : Votes) :
    cs.foldl (fun t c => if Slot.cand c ∈ elected then t else addTo t c w) t =
      addAllTo t ((cs.filter (fun c => decide (Slot.cand c ∉ elected))).map (fun c => (c, w))) := by
  unfold addAllTo
  induction cs generalizing t with
  | nil => rfl
  | cons c cs ih =>
    rw [List.foldl_cons, List.filter_cons]
    by_cases h : Slot.cand c ∈ elected
    · rw [if_pos h, ih]
      simp [h]
    · rw [if_neg h, ih]
      simp [h, addReq]

theorem addRound_eq (coef : Rat) (p : RProfile) (i : Nat) (elected : List Slot) (tot : Votes) :
    addRound coef p i elected tot = addAllTo tot (roundReqs coef p i elected) := by
  unfold addRound roundReqs addAllTo
  rw [List.foldl_flatMap]
  congr 1
  funext t bw
  cases bw.1[i]? with
  | none => rfl
  | some it => exact inner_eq elected (bw.2 * coef) it.cands t

theorem roundReqs_perm (coef : Rat) {p₁ p₂ : RProfile} (hp : p₁.Perm p₂) (i : Nat) {e₁ e₂ : List Slot}
    (he : ∀ c, Slot.cand c ∈ e₁ ↔ Slot.cand c ∈ e₂) :
    (roundReqs coef p₁ i e₁).Perm (roundReqs coef p₂ i e₂) := by
  unfold roundReqs
  have hf : (fun c => decide (Slot.cand c ∉ e₁)) = (fun c => decide (Slot.cand c ∉ e₂)) := by
    funext c; exact decide_eq_decide.mpr (not_congr (he c))
  rw [hf]
  exact hp.flatMap_right _

theorem addRound_rel (coef : Rat) {p₁ p₂ : RProfile} (hp : p₁.Perm p₂) (i : Nat) {e₁ e₂ : List Slot}
    (he : ∀ c, Slot.cand c ∈ e₁ ↔ Slot.cand c ∈ e₂) {t₁ t₂ : Votes} (ht : VRel t₁ t₂) :
    VRel (addRound coef p₁ i e₁ t₁) (addRound coef p₂ i e₂ t₂) := by
  rw [addRound_eq, addRound_eq]
  exact addAllTo_perm (roundReqs_perm coef hp i he) ht

/-! ### selection results -/

theorem mem_cand_append_replicate {c : Cand} {e : List Cand} {m : Nat} {T : List Cand} :
    Slot.cand c ∈ e.map Slot.cand ++ List.replicate m (Slot.tie T) ↔ c ∈ e := by
  rw [List.mem_append]
  constructor
  · rintro (h | h)
    · exact C08.mem_map_cand.mp h
    · exact absurd (List.mem_replicate.mp h).2 (by simp)
  · intro h; exact Or.inl (C08.mem_map_cand.mpr h)

theorem slotsEquiv_mem_cand {r₁ r₂ : List Slot} (h : SlotsEquiv r₁ r₂) (c : Cand) :
    Slot.cand c ∈ r₁ ↔ Slot.cand c ∈ r₂ := by
  obtain ⟨e₁, e₂, T₁, T₂, m, h1, h2, he, _⟩ := h
  rw [h1, h2, mem_cand_append_replicate, mem_cand_append_replicate]
  exact he.mem_iff

theorem slotsEquiv_length {r₁ r₂ : List Slot} (h : SlotsEquiv r₁ r₂) : r₁.length = r₂.length := by
  obtain ⟨e₁, e₂, T₁, T₂, m, h1, h2, he, _⟩ := h
  rw [h1, h2]
  simp [he.length_eq]

theorem slotsEquiv_prepend_cands {l₁ l₂ : List Cand} (hl : l₁.Perm l₂) {b₁ b₂ : List Slot} (hb : SlotsEquiv b₁ b₂) :
    SlotsEquiv (l₁.map Slot.cand ++ b₁) (l₂.map Slot.cand ++ b₂) := by
  obtain ⟨e₁, e₂, T₁, T₂, m, h1, h2, he, hT⟩ := hb
  refine ⟨l₁ ++ e₁, l₂ ++ e₂, T₁, T₂, m, ?_, ?_, hl.append he, hT⟩
  · rw [h1, List.map_append, List.append_assoc]
  · rw [h2, List.map_append, List.append_assoc]

theorem slotsEquiv_cands {l₁ l₂ : List Cand} (hl : l₁.Perm l₂) : SlotsEquiv (l₁.map Slot.cand) (l₂.map Slot.cand) :=
  ⟨l₁, l₂, [], [], 0, by simp, by simp, hl, List.Perm.refl _⟩

/-- a round that does not end the count elects candidates only -/
theorem best_cands (maj : Votes) (k : Nat) (hk : (getNBest maj k).length ≠ k) :
    getNBest maj k = ((sortDesc maj).map (·.1)).map Slot.cand := by
  have hlt : maj.length ≤ k := by
    by_contra hc
    have hc' : k < maj.length := Nat.lt_of_not_le hc
    rcases Nat.eq_zero_or_pos k with h0 | h1
    · subst h0; rw [getNBest_zero] at hk; exact hk rfl
    · exact hk (C09.getNBest_length maj k h1 (Nat.le_of_lt hc'))
  rw [getNBest_all maj k hlt, List.map_map]
  rfl

/-! ### the loop -/

theorem paLoop_perm (coef : Nat → Rat) {p₁ p₂ : RProfile} (hp : p₁.Perm p₂) (quota : Rat) (n : Nat) :
    ∀ (f i : Nat) (t₁ t₂ : Votes) (l₁ l₂ : List Cand), VRel t₁ t₂ → l₁.Perm l₂ →
      SlotsEquiv (paLoop coef p₁ quota n f i t₁ (l₁.map Slot.cand)) (paLoop coef p₂ quota n f i t₂ (l₂.map Slot.cand)) := by
  intro f
  induction f with
  | zero => intro i t₁ t₂ l₁ l₂ _ hl; exact slotsEquiv_cands hl
  | succ f ih =>
    intro i t₁ t₂ l₁ l₂ ht hl
    have hmem : ∀ c, Slot.cand c ∈ l₁.map Slot.cand ↔ Slot.cand c ∈ l₂.map Slot.cand := fun c => by
      rw [C08.mem_map_cand, C08.mem_map_cand]; exact hl.mem_iff
    have ht' := addRound_rel (coef i) hp i hmem ht
    unfold paLoop
    simp only [List.length_map, List.length_append]
    generalize addRound (coef i) p₁ i (l₁.map Slot.cand) t₁ = s₁ at ht'
    generalize addRound (coef i) p₂ i (l₂.map Slot.cand) t₂ = s₂ at ht'
    have hmaj : ((sortDesc s₁).filter (fun e => decide (quota < e.2))).Perm
        ((sortDesc s₂).filter (fun e => decide (quota < e.2))) :=
      (sortDesc_perm_of_perm (DRel.perm ht')).filter _
    generalize (sortDesc s₁).filter (fun e => decide (quota < e.2)) = m₁ at hmaj
    generalize (sortDesc s₂).filter (fun e => decide (quota < e.2)) = m₂ at hmaj
    rw [← hl.length_eq]
    have hbest := getNBest_perm m₁ m₂ hmaj (n - l₁.length)
    have hlen := slotsEquiv_length hbest
    by_cases hstop : l₁.length + (getNBest m₁ (n - l₁.length)).length = n
    · rw [if_pos hstop, if_pos (hlen ▸ hstop)]
      exact slotsEquiv_prepend_cands hl hbest
    · rw [if_neg hstop, if_neg (hlen ▸ hstop)]
      have hex : ∃ b₁ b₂ : List Cand, getNBest m₁ (n - l₁.length) = b₁.map Slot.cand ∧
          getNBest m₂ (n - l₁.length) = b₂.map Slot.cand ∧ b₁.Perm b₂ := by
        rcases Nat.eq_zero_or_pos (n - l₁.length) with h0 | h1
        · rw [h0, getNBest_zero, getNBest_zero]
          exact ⟨[], [], rfl, rfl, List.Perm.refl _⟩
        · have hk₁ : (getNBest m₁ (n - l₁.length)).length ≠ n - l₁.length := by omega
          have hk₂ : (getNBest m₂ (n - l₁.length)).length ≠ n - l₁.length := by omega
          exact ⟨_, _, best_cands m₁ _ hk₁, best_cands m₂ _ hk₂, (sortDesc_perm_of_perm hmaj).map _⟩
      obtain ⟨b₁, b₂, e₁, e₂, hb⟩ := hex
      rw [e₁, e₂, ← List.map_append, ← List.map_append]
      have hq : (fun e : Cand × Rat => decide (Slot.cand e.1 ∉ b₂.map Slot.cand)) =
          (fun e : Cand × Rat => (fun c => decide (Slot.cand c ∉ b₁.map Slot.cand)) e.1) := by
        funext e
        apply decide_eq_decide.mpr
        rw [C08.mem_map_cand, C08.mem_map_cand]
        exact not_congr hb.mem_iff.symm
      rw [hq]
      exact ih (i + 1) _ _ _ _
        (DRel.filter ht' (fun c => decide (Slot.cand c ∉ b₁.map Slot.cand))) (hl.append hb)

/-! ### `Tie.reconcile` -/

/-- the additions of `n_places` -/
def tieReqs (r : List Slot) : List (Cand × Rat) :=
  r.flatMap (fun s => match s with
    | .tie T => T.map (fun c => (c, 1 / (T.length : Rat)))
    | .cand _ => [])

theorem nPlaces_eq (r : List Slot) : nPlaces r = addAllTo [] (tieReqs r) := by
  unfold nPlaces tieReqs addAllTo
  rw [List.foldl_flatMap]
  congr 1
  funext np s
  cases s with
  | cand c => rfl
  | tie T => rw [List.foldl_map]; rfl

theorem tieReqs_cands (e : List Cand) : tieReqs (e.map Slot.cand) = [] := by
  unfold tieReqs
  induction e with
  | nil => rfl
  | cons c cs ih => rw [List.map_cons, List.flatMap_cons, ih]; rfl

theorem tieReqs_append (r r' : List Slot) : tieReqs (r ++ r') = tieReqs r ++ tieReqs r' := by
  unfold tieReqs; rw [List.flatMap_append]

theorem tieReqs_replicate_perm {T₁ T₂ : List Cand} (hT : T₁.Perm T₂) (m : Nat) :
    (tieReqs (List.replicate m (Slot.tie T₁))).Perm (tieReqs (List.replicate m (Slot.tie T₂))) := by
  induction m with
  | zero => exact List.Perm.refl _
  | succ k ih =>
    unfold tieReqs at ih ⊢
    rw [List.replicate_succ, List.replicate_succ, List.flatMap_cons, List.flatMap_cons]
    refine List.Perm.append ?_ ih
    simp only [hT.length_eq]
    exact hT.map _

theorem tieReqs_equiv {r₁ r₂ : List Slot} (h : SlotsEquiv r₁ r₂) : (tieReqs r₁).Perm (tieReqs r₂) := by
  obtain ⟨e₁, e₂, T₁, T₂, m, h1, h2, _, hT⟩ := h
  rw [h1, h2, tieReqs_append, tieReqs_append, tieReqs_cands, tieReqs_cands]
  exact tieReqs_replicate_perm hT m

theorem emptyTie_equiv {r₁ r₂ : List Slot} (h : SlotsEquiv r₁ r₂) :
    r₁.any (fun s => s == Slot.tie []) = r₂.any (fun s => s == Slot.tie []) := by
  obtain ⟨e₁, e₂, T₁, T₂, m, h1, h2, _, hT⟩ := h
  have key : ∀ (e T : List Cand), (e.map Slot.cand ++ List.replicate m (Slot.tie T)).any (fun s => s == Slot.tie []) =
      (decide (m ≠ 0) && decide (T = [])) := by
    intro e T
    apply Bool.eq_iff_iff.mpr
    rw [List.any_eq_true]
    simp only [beq_iff_eq, Bool.and_eq_true, decide_eq_true_eq]
    constructor
    · rintro ⟨s, hs, rfl⟩
      rcases List.mem_append.mp hs with h | h
      · obtain ⟨d, _, hd⟩ := List.mem_map.mp h; cases hd
      · obtain ⟨hm, he⟩ := List.mem_replicate.mp h
        injection he with he
        exact ⟨hm, he.symm⟩
    · rintro ⟨hm, rfl⟩
      exact ⟨Slot.tie [], List.mem_append_right _ (List.mem_replicate.mpr ⟨hm, rfl⟩), rfl⟩
  rw [h1, h2, key, key]
  have : (T₁ = []) ↔ (T₂ = []) := ⟨fun e => (e ▸ hT).symm.eq_nil, fun e => (e ▸ hT).eq_nil⟩
  rw [decide_eq_decide.mpr this]

/-- `Tie.reconcile` on equivalent results: the same exception, or the results unchanged -/
theorem reconcile_equiv {r₁ r₂ : List Slot} (h : SlotsEquiv r₁ r₂) : ExceptEquiv SlotsEquiv (reconcile r₁) (reconcile r₂) := by
  unfold reconcile
  rw [emptyTie_equiv h]
  have hn : VRel (nPlaces r₁) (nPlaces r₂) := by
    rw [nPlaces_eq, nPlaces_eq]
    exact addAllTo_perm (tieReqs_equiv h) vRel_nil
  rw [(DRel.perm hn).any_eq]
  split
  · exact rfl
  · split
    · exact rfl
    · exact h

/-! ### perm-invariant reads of the profile -/

theorem sumValues_perm {κ : Type} {d₁ d₂ : Dict κ} (h : d₁.Perm d₂) : sumValues d₁ = sumValues d₂ := by
  unfold sumValues
  exact h.foldl_eq' (fun x _ y _ z => add_right_comm z x.2 y.2) _

theorem maxLen_perm {p₁ p₂ : RProfile} (h : p₁.Perm p₂) : maxLen p₁ = maxLen p₂ := by
  unfold maxLen
  exact h.foldl_eq' (fun x _ y _ z => Nat.max_right_comm z x.1.length y.1.length) _

theorem isEmpty_perm {α : Type} {l₁ l₂ : List α} (h : l₁.Perm l₂) : l₁.isEmpty = l₂.isEmpty := by
  cases l₁ with
  | nil => rw [h.symm.eq_nil]
  | cons x xs =>
    cases l₂ with
    | nil => exact absurd h.eq_nil (by simp)
    | cons y ys => rfl

/-- the evaluation after the optional decoupling, on two presentations of the same ballots -/
theorem paCore_perm (coef : Nat → Rat) {v₁ v₂ : RProfile} (hp : v₁.Perm v₂) (n : Nat) :
    ExceptEquiv SlotsEquiv
      (if v₁.isEmpty then .error .valueError
        else reconcile (paLoop coef v₁ (sumValues v₁ / 2) n (maxLen v₁) 0 [] []))
      (if v₂.isEmpty then .error .valueError
        else reconcile (paLoop coef v₂ (sumValues v₂ / 2) n (maxLen v₂) 0 [] [])) := by
  rw [← isEmpty_perm hp, ← sumValues_perm hp, ← maxLen_perm hp]
  split
  · exact rfl
  · exact reconcile_equiv (paLoop_perm coef hp _ n _ 0 [] [] vRel_nil (l₁ := []) (l₂ := []) (List.Perm.refl _))

end VL.Perm.Buck

namespace VL.Perm
open VL VL.Convert VL.ShapeSeq VL.C10 VL.Perm.Buck

/-- **Ballot-order independence of `PreferenceAddition` without decoupling** (`split_equal_rankings=False`), every
    coefficient function, every number of seats, all ranked profiles (shared ranks allowed): the same ballots in another
    insertion order give the same exception or a `SlotsEquiv` result.  No hypothesis on the ballots is needed. -/
theorem preferenceAddition_nosplit_perm (coef : Nat → Rat) {p₁ p₂ : RProfile} (hp : p₁.Perm p₂) (n : Nat) :
    ExceptEquiv SlotsEquiv (preferenceAddition coef false p₁ n) (preferenceAddition coef false p₂ n) := by
  unfold preferenceAddition
  exact paCore_perm coef hp n

end VL.Perm
