/-
  C10, score family, STAR — part 2: `STAR.evaluate` (`VL.Score.star`, model VotelibModel/Score.lean, owned by C12) does
  not depend on the insertion order of the profile dict.  No hypothesis on the profile, every setting.

  * score sums: `convert_perm` (PermScore) and `getNBest_perm`: the run-off selections are `SlotsEquiv`;
  * run-off members: the same candidates (`starMembers_spec` of C12), so permutations of each other; with at most one
    member the two lists are equal;
  * pairwise counts: the double loop of `RankedToCondorcetVotes.convert` is a sequence of `d[(u, l)] += n`, so
    `pairCounts(...).get((a, b), 0)` is a sum over the ballots (`getPair_pairCounts`), the same for both orders; the
    candidate set it completes the ballots with is iterated in ascending id order — the same list;
  * the member matrix therefore holds the same items in another order, and the score-side Schulze does not depend on
    that order (`star_schulze_perm`, PermStar).
-/
import VotelibProofs.Lemmas.PermStar
namespace VL.Perm.Star
open VL VL.Score VL.C10 VL.Appr

/-! ### the pairwise counts as sums -/

theorem getPair_addPair (d : PairCounts) (a b : Cand) (n : Int) (x y : Cand) :
    getPair (addPair d a b n) x y = getPair d x y + (if (x, y) = (a, b) then n else 0) := by
  unfold addPair
  rw [getPair_eq, dget_setPair]
  by_cases h : (x, y) = (a, b)
  · rw [if_pos h, if_pos h]
    injection h with h1 h2
    subst h1 h2
    rfl
  · rw [if_neg h, if_neg h, ← getPair_eq, add_zero]

/-- the `(upper, lower)` pairs the double loop of `addRanking.go` increments, in order -/
def rankPairs (unranked : List Cand) : List (List Cand) → List (Cand × Cand)
  | [] => []
  | upper :: lower =>
    upper.flatMap (fun u => lower.flatten.map (fun l => (u, l)) ++ unranked.map (fun x => (u, x))) ++
      rankPairs unranked lower

theorem go_eq (n : Int) (unranked : List Cand) : ∀ (ranking : List (List Cand)) (d : PairCounts),
    addRanking.go n unranked d ranking = (rankPairs unranked ranking).foldl (fun d q => addPair d q.1 q.2 n) d := by
  intro ranking
  induction ranking with
  | nil => intro d; rfl
  | cons upper lower ih =>
    intro d
    unfold addRanking.go rankPairs
    rw [ih, List.foldl_append, List.foldl_flatMap]
    congr 1
    congr 1
    funext d u
    rw [List.foldl_append, List.foldl_map, List.foldl_map]

/-- the increments of one ballot -/
def ballotIncs (unscored : Option Rat) (allC : List Cand) (bn : SBallot × Int) : List ((Cand × Cand) × Int) :=
  let r := convertOne unscored allC bn.1
  (rankPairs (allC.filter (fun c => !(r.flatten.contains c))) r).map (fun q => (q, bn.2))

theorem addRanking_eq (unscored : Option Rat) (allC : List Cand) (d : PairCounts) (bn : SBallot × Int) :
    addRanking allC d (convertOne unscored allC bn.1) bn.2 =
      (ballotIncs unscored allC bn).foldl (fun d t => addPair d t.1.1 t.1.2 t.2) d := by
  unfold addRanking ballotIncs
  simp only
  rw [go_eq, List.foldl_map]

def allCp (votes : SProfile) : List Cand := sortDedup (votes.flatMap (fun bn => bn.1.map (·.1)))

def pcIncs (unscored : Option Rat) (votes : SProfile) : List ((Cand × Cand) × Int) :=
  votes.flatMap (ballotIncs unscored (allCp votes))

theorem pairCounts_eq (unscored : Option Rat) (votes : SProfile) :
    pairCounts unscored votes = (pcIncs unscored votes).foldl (fun d t => addPair d t.1.1 t.1.2 t.2) [] := by
  unfold pairCounts pcIncs
  simp only
  rw [List.foldl_flatMap]
  congr 1
  funext d bn
  exact addRanking_eq unscored _ d bn

theorem getPair_foldl_addPair (L : List ((Cand × Cand) × Int)) : ∀ (d : PairCounts) (x y : Cand),
    getPair (L.foldl (fun d t => addPair d t.1.1 t.1.2 t.2) d) x y =
      getPair d x y + ((L.filter (fun t => t.1 = (x, y))).map (·.2)).sum := by
  induction L with
  | nil => intro d x y; simp
  | cons t ts ih =>
    intro d x y
    rw [List.foldl_cons, ih, getPair_addPair, List.filter_cons]
    by_cases h : t.1 = (x, y)
    · have h' : (x, y) = (t.1.1, t.1.2) := h.symm
      rw [if_pos h']
      simp only [h, decide_true, if_true, List.map_cons, List.sum_cons]
      rw [add_assoc]
    · have h' : ¬ (x, y) = (t.1.1, t.1.2) := fun e => h e.symm
      rw [if_neg h', add_zero]
      simp only [h, decide_false, Bool.false_eq_true, if_false]

/-- **`pairwise.get((a, b), 0)` is a sum over the ballots** -/
theorem getPair_pairCounts (unscored : Option Rat) (votes : SProfile) (x y : Cand) :
    getPair (pairCounts unscored votes) x y =
      (((pcIncs unscored votes).filter (fun t => t.1 = (x, y))).map (·.2)).sum := by
  rw [pairCounts_eq, getPair_foldl_addPair]
  simp [getPair]

theorem allCp_perm {p₁ p₂ : SProfile} (h : p₁.Perm p₂) : allCp p₁ = allCp p₂ :=
  sortDedup_congr (fun _ => (h.flatMap_right _).mem_iff)

/-- the pairwise counts, as a map, do not depend on the ballot order -/
theorem getPair_pairCounts_perm (unscored : Option Rat) {p₁ p₂ : SProfile} (h : p₁.Perm p₂) :
    getPair (pairCounts unscored p₁) = getPair (pairCounts unscored p₂) := by
  funext x y
  rw [getPair_pairCounts, getPair_pairCounts]
  have : (pcIncs unscored p₁).Perm (pcIncs unscored p₂) := by
    unfold pcIncs
    rw [allCp_perm h]
    exact h.flatMap_right _
  exact ((this.filter _).map _).sum_eq

/-! ### run-off members and the member matrix -/

theorem slotNames_equiv {r₁ r₂ : List Slot} (h : SlotsEquiv r₁ r₂) (x : Cand) :
    (∃ s ∈ r₁, x ∈ slotNames s) ↔ (∃ s ∈ r₂, x ∈ slotNames s) := by
  obtain ⟨e₁, e₂, T₁, T₂, m, rfl, rfl, he, hT⟩ := h
  have key : ∀ (e T : List Cand), (∃ s ∈ e.map Slot.cand ++ List.replicate m (Slot.tie T), x ∈ slotNames s) ↔
      x ∈ e ∨ (0 < m ∧ x ∈ T) := by
    intro e T
    constructor
    · rintro ⟨s, hs, hx⟩
      rcases List.mem_append.mp hs with hs | hs
      · obtain ⟨c, hc, rfl⟩ := List.mem_map.mp hs
        simp only [slotNames, List.mem_singleton] at hx
        subst hx
        exact Or.inl hc
      · obtain ⟨hm, rfl⟩ := List.mem_replicate.mp hs
        exact Or.inr ⟨Nat.pos_of_ne_zero hm, hx⟩
    · rintro (hx | ⟨hm, hx⟩)
      · exact ⟨Slot.cand x, List.mem_append_left _ (List.mem_map.mpr ⟨x, hx, rfl⟩), by simp [slotNames]⟩
      · exact ⟨Slot.tie T, List.mem_append_right _ (List.mem_replicate.mpr ⟨Nat.ne_of_gt hm, rfl⟩), hx⟩
  rw [key, key, he.mem_iff, hT.mem_iff]

/-- equivalent run-off selections name the same members -/
theorem starMembers_perm {r₁ r₂ : List Slot} (h : SlotsEquiv r₁ r₂) : (starMembers r₁).Perm (starMembers r₂) := by
  apply (List.perm_ext_iff_of_nodup (starMembers_spec r₁).2 (starMembers_spec r₂).2).mpr
  intro x
  rw [(starMembers_spec r₁).1, (starMembers_spec r₂).1]
  exact slotNames_equiv h x

theorem memberPairs_perm {all₁ all₂ : PairCounts} (hall : getPair all₁ = getPair all₂) {ms₁ ms₂ : List Cand}
    (hnd : ms₁.Nodup) (hms : ms₁.Perm ms₂) : (memberPairs all₁ ms₁).Perm (memberPairs all₂ ms₂) := by
  have hnd2 : ms₂.Nodup := hms.nodup_iff.mp hnd
  apply (List.perm_ext_iff_of_nodup (List.Nodup.of_map _ (memberPairs_keys_nodup all₁ hnd))
    (List.Nodup.of_map _ (memberPairs_keys_nodup all₂ hnd2))).mpr
  intro p
  rw [mem_memberPairs, mem_memberPairs, hall, hms.mem_iff, hms.mem_iff]

theorem perm_short_eq {l₁ l₂ : List Cand} (h : l₁.Perm l₂) (hl : l₁.length ≤ 1) : l₁ = l₂ := by
  cases l₁ with
  | nil => exact h.nil_eq
  | cons a t =>
    cases t with
    | nil => exact (List.perm_singleton.mp h.symm).symm
    | cons b t => simp at hl

end VL.Perm.Star

namespace VL.Perm
open VL VL.Score VL.C10

/-- **`STAR.evaluate`: ballot-order independence.**  Every setting (`added_count`, `added_fraction`, the
    `ScoreToSimpleVotes` configuration, any number of seats), no hypothesis on the profile: the same exception, or
    `SlotsEquiv` selections. -/
theorem star_perm (ac : Nat) (af : Rat) (cfg : Cfg) {p₁ p₂ : SProfile} (h : p₁.Perm p₂) (n : Nat) :
    ExceptEquiv SlotsEquiv (Score.star ac af cfg p₁ n) (Score.star ac af cfg p₂ n) := by
  have hc := convert_perm { cfg with fn := .sum } h
  unfold Score.star starRunoff
  cases h1 : convert { cfg with fn := .sum } p₁ with
  | error e =>
    cases h2 : convert { cfg with fn := .sum } p₂ with
    | error e' => rw [h1, h2] at hc; exact hc
    | ok y => rw [h1, h2] at hc; exact hc.elim
  | ok x =>
    cases h2 : convert { cfg with fn := .sum } p₂ with
    | error e' => rw [h1, h2] at hc; exact hc.elim
    | ok y =>
      rw [h1, h2] at hc
      have hsel := getNBest_perm x y hc (starSize ac af n)
      have hms := Star.starMembers_perm hsel
      have hnd := (starMembers_spec (getNBest x (starSize ac af n))).2
      have hpairs := Star.memberPairs_perm (Star.getPair_pairCounts_perm (starUnscored cfg) h) hnd hms
      simp only [bind, Except.bind, pure, Except.pure]
      rw [← hms.length_eq]
      split
      · rename_i hle
        rw [← Star.perm_short_eq hms hle]
        exact slotsEquiv_refl _ ⟨(starMembers (getNBest x (starSize ac af n))).take n, [], 0, by simp [List.map_take]⟩
      · exact star_schulze_perm hpairs (memberPairs_keys_nodup _ hnd) n

example : [([(0, (5 : Rat)), (1, 0), (2, 0)], (2 : Int)), ([(0, 1), (1, 2), (2, 0)], 3)].Perm
    [([(0, 1), (1, 2), (2, 0)], 3), ([(0, 5), (1, 0), (2, 0)], 2)] := by decide +kernel
example : Score.star 1 0 { fn := .sum, unscored := .none, minCount := 0, trunc := .off, bottom := 0 }
    [([(0, 1), (1, 2), (2, 0)], 3), ([(0, 5), (1, 0), (2, 0)], 2)] 1 = .ok [Slot.cand 1] := by decide +kernel

end VL.Perm
