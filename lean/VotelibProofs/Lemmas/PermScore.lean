/-
  C10, score family: `ScoreToSimpleVotes` / `ScoreVoting` (model VotelibModel/Score.lean, owned by C12) do not depend on
  the insertion order of the profile dict.

  The profile order leaks into the intermediate dicts in two places: the order of the candidates in `scores` and the
  order of the grades in each candidate's count dict.  Both are forgotten by `TableEquiv`; it is established for
  `rawScores` by reading the nested dict as a map ("dict as a map": the double loop is a fold of a commutative update of
  that map), carried through `_correct_candidate_scores` (every primitive respects permutations of a dict with distinct
  keys) and `aggregate` (aggregation functions see the grades as a multiset); `getNBest_perm` finishes.
-/
import VotelibProofs.Lemmas.PermBase
import VotelibProofs.Lemmas.PermQuota
import VotelibProofs.Lemmas.C12Score
import VotelibProofs.Lemmas.C12Trunc
namespace VL.Perm
open VL VL.Score VL.C10

/-! ### `mapM` in `Except` over permuted / related lists -/

theorem score_mapM_cons_ok {α β : Type} (f : α → Except Err β) (x : α) (xs : List α) :
    (x :: xs).mapM f = match f x with
      | .error e => .error e
      | .ok y => match xs.mapM f with
        | .error e => .error e
        | .ok ys => .ok (y :: ys) := by
  rw [List.mapM_cons]
  cases f x with
  | error e => rfl
  | ok y =>
    cases xs.mapM f with
    | error e => rfl
    | ok ys => rfl

/-- when every failure of `f` is the same exception, `mapM f` fails with it iff some element fails -/
theorem score_mapM_uniform {α β : Type} (f : α → Except Err β) (e₀ : Err) (l : List α)
    (hf : ∀ x ∈ l, ∀ e, f x = .error e → e = e₀) :
    l.mapM f = if l.all (fun x => (f x).toBool) then .ok (l.filterMap (fun x => (f x).toOption)) else .error e₀ := by
  induction l with
  | nil => rfl
  | cons x xs ih =>
    rw [score_mapM_cons_ok, ih (fun y hy => hf y (List.mem_cons_of_mem _ hy))]
    cases hx : f x with
    | error e =>
      have := hf x List.mem_cons_self e hx
      subst this
      simp [hx, Except.toBool]
    | ok y =>
      have e1 : ((x :: xs).all fun x => (f x).toBool) = (xs.all fun x => (f x).toBool) := by
        rw [List.all_cons, hx]; rfl
      have e2 : (x :: xs).filterMap (fun x => (f x).toOption) = y :: xs.filterMap (fun x => (f x).toOption) := by
        rw [List.filterMap_cons, hx]; rfl
      rw [e1, e2]
      by_cases ha : (xs.all fun x => (f x).toBool) = true
      · rw [if_pos ha, if_pos ha]
      · rw [if_neg ha, if_neg ha]

theorem score_mapM_perm {α β : Type} (f : α → Except Err β) (e₀ : Err) {l₁ l₂ : List α} (h : l₁.Perm l₂)
    (hf : ∀ x ∈ l₁, ∀ e, f x = .error e → e = e₀) :
    ExceptEquiv List.Perm (l₁.mapM f) (l₂.mapM f) := by
  rw [score_mapM_uniform f e₀ l₁ hf, score_mapM_uniform f e₀ l₂ (fun x hx => hf x (h.mem_iff.mpr hx)), h.all_eq]
  split
  · exact h.filterMap _
  · exact rfl

theorem score_mapM_forall₂ {α β : Type} {R : α → α → Prop} {S : β → β → Prop} (f g : α → Except Err β)
    (hfg : ∀ a b, R a b → ExceptEquiv S (f a) (g b)) {l₁ l₂ : List α} (h : List.Forall₂ R l₁ l₂) :
    ExceptEquiv (List.Forall₂ S) (l₁.mapM f) (l₂.mapM g) := by
  induction h with
  | nil => exact List.Forall₂.nil
  | cons hab _ ih =>
    rename_i a b l₁ l₂ _
    rw [score_mapM_cons_ok, score_mapM_cons_ok]
    have h1 := hfg a b hab
    cases hfa : f a with
    | error e =>
      cases hgb : g b with
      | error e' => rw [hfa, hgb] at h1; exact h1
      | ok y => rw [hfa, hgb] at h1; exact h1.elim
    | ok x =>
      cases hgb : g b with
      | error e' => rw [hfa, hgb] at h1; exact h1.elim
      | ok y =>
        rw [hfa, hgb] at h1
        simp only
        cases hl₁ : l₁.mapM f with
        | error e =>
          cases hl₂ : l₂.mapM g with
          | error e' => rw [hl₁, hl₂] at ih; exact ih
          | ok ys => rw [hl₁, hl₂] at ih; exact ih.elim
        | ok xs =>
          cases hl₂ : l₂.mapM g with
          | error e' => rw [hl₁, hl₂] at ih; exact ih.elim
          | ok ys => rw [hl₁, hl₂] at ih; exact List.Forall₂.cons h1 ih

/-! ### dicts as maps -/

section Dict
variable {κ ν : Type} [DecidableEq κ]

/-- `d.get(k)` of an insertion-ordered dict -/
def score_dget (d : List (κ × ν)) (k : κ) : Option ν := (d.find? (fun p => p.1 = k)).map (·.2)

theorem score_dget_nil (k : κ) : score_dget ([] : List (κ × ν)) k = none := rfl

theorem score_dget_cons (p : κ × ν) (d : List (κ × ν)) (k : κ) : score_dget (p :: d) k = if p.1 = k then some p.2 else score_dget d k := by
  unfold score_dget
  rw [List.find?_cons]
  by_cases h : p.1 = k <;> simp [h]

theorem score_dget_isSome {d : List (κ × ν)} {k : κ} : (score_dget d k).isSome = true ↔ k ∈ d.map (·.1) := by
  induction d with
  | nil => simp [score_dget_nil]
  | cons p ps ih =>
    rw [score_dget_cons]
    by_cases h : p.1 = k
    · simp [h]
    · have h' : ¬ k = p.1 := fun e => h e.symm
      simp [h, h', ih]

theorem score_dget_eq_none {d : List (κ × ν)} {k : κ} : score_dget d k = none ↔ k ∉ d.map (·.1) := by
  rw [← score_dget_isSome]; cases score_dget d k <;> simp

theorem score_dget_eq_some_iff {d : List (κ × ν)} (hnd : (d.map (·.1)).Nodup) {k : κ} {v : ν} :
    score_dget d k = some v ↔ (k, v) ∈ d := by
  induction d with
  | nil => simp [score_dget_nil]
  | cons p ps ih =>
    have hp : p.1 ∉ ps.map (·.1) ∧ (ps.map (·.1)).Nodup := List.nodup_cons.mp hnd
    rw [score_dget_cons, List.mem_cons]
    by_cases h : p.1 = k
    · rw [if_pos h]
      constructor
      · intro e; injection e with e; left; rw [← h, ← e]
      · rintro (e | e)
        · rw [← e]
        · exfalso; apply hp.1; rw [h]; exact List.mem_map.mpr ⟨(k, v), e, rfl⟩
    · rw [if_neg h, ih hp.2]
      constructor
      · exact Or.inr
      · rintro (e | e)
        · exfalso; apply h; rw [← e]
        · exact e

theorem score_dget_perm {d₁ d₂ : List (κ × ν)} (h : d₁.Perm d₂) (hnd : (d₁.map (·.1)).Nodup) (k : κ) :
    score_dget d₁ k = score_dget d₂ k := by
  unfold score_dget
  rw [find?_perm_of_nodup_keys (fun p : κ × ν => p.1) h hnd k]

omit [DecidableEq κ] in
theorem score_nodup_of_nodup_keys {d : List (κ × ν)} (hnd : (d.map (·.1)).Nodup) : d.Nodup := List.Nodup.of_map _ hnd

/-- two dicts with distinct keys that are the same map hold the same items -/
theorem perm_of_score_dget_eq {d₁ d₂ : List (κ × ν)} (h₁ : (d₁.map (·.1)).Nodup) (h₂ : (d₂.map (·.1)).Nodup)
    (h : ∀ k, score_dget d₁ k = score_dget d₂ k) : d₁.Perm d₂ := by
  apply (List.perm_ext_iff_of_nodup (score_nodup_of_nodup_keys h₁) (score_nodup_of_nodup_keys h₂)).mpr
  rintro ⟨k, v⟩
  rw [← score_dget_eq_some_iff h₁, ← score_dget_eq_some_iff h₂, h k]

end Dict

/-! ### count dicts (`Dict[score, count]`) up to insertion order -/

theorem getCount_eq_score_dget (d : CScores) (s : Rat) : getCount d s = (score_dget d s).getD 0 := by
  unfold getCount score_dget
  cases d.find? (fun p => p.1 = s) <;> rfl

theorem score_dget_setCount (d : CScores) (s : Rat) (n : Int) (k : Rat) :
    score_dget (setCount d s n) k = if k = s then some n else score_dget d k := by
  induction d with
  | nil =>
    simp only [setCount, score_dget_cons, score_dget_nil]
    by_cases h : k = s
    · rw [if_pos h.symm, if_pos h]
    · rw [if_neg (fun e => h e.symm), if_neg h]
  | cons p ps ih =>
    obtain ⟨q, v⟩ := p
    unfold setCount
    by_cases hq : q = s
    · rw [if_pos hq, score_dget_cons, score_dget_cons]
      simp only
      by_cases h : k = s
      · rw [if_pos (hq.trans h.symm), if_pos h]
      · rw [if_neg h, if_neg (fun e => h (e.symm.trans hq)), if_neg (fun e => h (e.symm.trans hq))]
    · rw [if_neg hq, score_dget_cons, score_dget_cons, ih]
      simp only
      by_cases h : q = k
      · rw [if_pos h, if_pos h, if_neg (fun e => hq (h.trans e))]
      · rw [if_neg h, if_neg h]

/-- the same count dict up to insertion order (keys distinct, as in every dict) -/
def CEquiv (a b : CScores) : Prop := a.Perm b ∧ (ckeys a).Nodup

theorem CEquiv.refl {a : CScores} (h : (ckeys a).Nodup) : CEquiv a a := ⟨List.Perm.refl _, h⟩

theorem CEquiv.nodup_right {a b : CScores} (h : CEquiv a b) : (ckeys b).Nodup := (h.1.map _).nodup_iff.mp h.2

theorem CEquiv.score_dget_eq {a b : CScores} (h : CEquiv a b) (s : Rat) : score_dget a s = score_dget b s := score_dget_perm h.1 h.2 s

theorem CEquiv.getCount_eq {a b : CScores} (h : CEquiv a b) (s : Rat) : getCount a s = getCount b s := by
  rw [getCount_eq_score_dget, getCount_eq_score_dget, h.score_dget_eq]

theorem CEquiv.setCount {a b : CScores} (h : CEquiv a b) (s : Rat) (n : Int) : CEquiv (setCount a s n) (setCount b s n) := by
  refine ⟨perm_of_score_dget_eq (ckeys_setCount_nodup h.2 s n) (ckeys_setCount_nodup h.nodup_right s n) ?_,
    ckeys_setCount_nodup h.2 s n⟩
  intro k
  rw [score_dget_setCount, score_dget_setCount, h.score_dget_eq]

theorem CEquiv.delKey {a b : CScores} (h : CEquiv a b) (s : Rat) : CEquiv (delKey a s) (delKey b s) :=
  ⟨h.1.filter _, ckeys_delKey_nodup h.2 s⟩

theorem totalCount_perm {a b : CScores} (h : a.Perm b) : totalCount a = totalCount b := by
  unfold totalCount; exact (h.map _).sum_eq

theorem expand_perm {a b : CScores} (h : a.Perm b) : (expand a).Perm (expand b) := by
  unfold expand; exact h.flatMap_right _

theorem score_foldl_min_spec (xs : List Rat) : ∀ m0 : Rat,
    (xs.foldl (fun m y => if y < m then y else m) m0 = m0 ∨ xs.foldl (fun m y => if y < m then y else m) m0 ∈ xs) ∧
    xs.foldl (fun m y => if y < m then y else m) m0 ≤ m0 ∧
    ∀ y ∈ xs, xs.foldl (fun m y => if y < m then y else m) m0 ≤ y := by
  induction xs with
  | nil => intro m0; simp
  | cons x xs ih =>
    intro m0
    rw [List.foldl_cons]
    obtain ⟨h1, h2, h3⟩ := ih (if x < m0 then x else m0)
    have hle : (if x < m0 then x else m0) ≤ m0 ∧ (if x < m0 then x else m0) ≤ x := by
      split
      · rename_i hlt; exact ⟨le_of_lt hlt, le_refl _⟩
      · rename_i hnl; exact ⟨le_refl _, not_lt.mp hnl⟩
    refine ⟨?_, le_trans h2 hle.1, ?_⟩
    · rcases h1 with h1 | h1
      · rw [h1]
        split
        · right; exact List.mem_cons_self
        · left; rfl
      · right; exact List.mem_cons_of_mem _ h1
    · intro y hy
      rcases List.mem_cons.mp hy with rfl | hy'
      · exact le_trans h2 hle.2
      · exact h3 y hy'

theorem listMin_spec {l : List Rat} {m : Rat} (h : listMin l = .ok m) : m ∈ l ∧ ∀ y ∈ l, m ≤ y := by
  cases l with
  | nil => cases h
  | cons x xs =>
    simp only [listMin] at h
    injection h with h
    obtain ⟨h1, h2, h3⟩ := score_foldl_min_spec xs x
    rw [h] at h1 h2 h3
    refine ⟨?_, ?_⟩
    · rcases h1 with h1 | h1
      · rw [h1]; exact List.mem_cons_self
      · exact List.mem_cons_of_mem _ h1
    · intro y hy
      rcases List.mem_cons.mp hy with rfl | hy'
      · exact h2
      · exact h3 y hy'

/-- builtin `min` sees its argument as a multiset -/
theorem listMin_perm {l l' : List Rat} (h : l.Perm l') : listMin l = listMin l' := by
  cases hl : listMin l with
  | error e =>
    cases l with
    | nil => rw [← h.nil_eq, hl]
    | cons x xs => cases hl
  | ok m =>
    cases hl' : listMin l' with
    | error e =>
      cases l' with
      | nil => rw [h.eq_nil] at hl; cases hl
      | cons x xs => cases hl'
    | ok m' =>
      obtain ⟨a1, a2⟩ := listMin_spec hl
      obtain ⟨b1, b2⟩ := listMin_spec hl'
      have := le_antisymm (a2 m' (h.mem_iff.mpr b1)) (b2 m (h.mem_iff.mp a1))
      rw [this]

theorem listMin_error {l : List Rat} {e : Err} (h : listMin l = .error e) : e = .valueError := by
  cases l with
  | nil => injection h with h; exact h.symm
  | cons x xs => cases h

theorem subtractLowest_go_cequiv (cutoff : Int) : ∀ (ks : List Rat) (a b : CScores) (cut : Int), CEquiv a b →
    CEquiv (subtractLowest.go cutoff a ks cut) (subtractLowest.go cutoff b ks cut) := by
  intro ks
  induction ks with
  | nil => intro a b cut h; exact h
  | cons s rest ih =>
    intro a b cut h
    unfold subtractLowest.go
    rw [← h.getCount_eq s]
    split
    · exact ih _ _ _ (h.delKey s)
    · exact h.setCount s _

theorem subtractLowest_cequiv {a b : CScores} (h : CEquiv a b) (ks : List Rat) (cutoff : Int) :
    CEquiv (subtractLowest a ks cutoff) (subtractLowest b ks cutoff) :=
  subtractLowest_go_cequiv cutoff ks a b 0 h

/-! ### `_correct_candidate_scores` -/

/-- the `unscored_value` stage of `correctOne` -/
def unscoredStep (cfg : Cfg) (scores : CScores) (nVotes : Int) : Except Err CScores :=
  match cfg.unscored with
  | .none => pure scores
  | .value u => pure (setCount scores u (nVotes - totalCount scores + getCount scores u))
  | .min => do
    let u ← listMin (expand scores)
    pure (setCount scores u (nVotes - totalCount scores + getCount scores u))

/-- the truncation stage of `correctOne` -/
def truncStep (cfg : Cfg) (scores1 : CScores) (nVotes nScores : Int) : CScores :=
  match cfg.trunc with
  | .off => scores1
  | .frac r =>
    let cutoff := Py.pyInt ((((if nVotes ≠ 0 then nVotes else nScores) : Int) : Rat) * r)
    let keys := sortR (scores1.map (·.1))
    subtractLowest (subtractLowest scores1 keys cutoff) keys.reverse cutoff
  | .count k =>
    let cutoff : Int := k
    let keys := sortR (scores1.map (·.1))
    subtractLowest (subtractLowest scores1 keys cutoff) keys.reverse cutoff

theorem correctOne_eq (cfg : Cfg) (scores : CScores) (nVotes : Int) :
    correctOne cfg scores nVotes =
      if totalCount scores < cfg.minCount then .ok [(cfg.bottom, cfg.minCount)]
      else match unscoredStep cfg scores nVotes with
        | .error e => .error e
        | .ok s1 => .ok (truncStep cfg s1 nVotes (totalCount scores)) := by
  unfold correctOne unscoredStep truncStep
  simp only
  split
  · rfl
  · cases cfg.unscored with
    | none => cases cfg.trunc <;> rfl
    | value u => cases cfg.trunc <;> rfl
    | min =>
      cases listMin (expand scores) with
      | error e => rfl
      | ok u => cases cfg.trunc <;> rfl

theorem unscoredStep_cequiv (cfg : Cfg) {a b : CScores} (h : CEquiv a b) (nVotes : Int) :
    ExceptEquiv CEquiv (unscoredStep cfg a nVotes) (unscoredStep cfg b nVotes) := by
  unfold unscoredStep
  rw [← totalCount_perm h.1, ← listMin_perm (expand_perm h.1)]
  cases cfg.unscored with
  | none => exact h
  | value u => simp only [← h.getCount_eq]; exact h.setCount _ _
  | min =>
    simp only
    cases listMin (expand a) with
    | error e => exact rfl
    | ok u => simp only [← h.getCount_eq]; exact h.setCount _ _

theorem truncStep_cequiv (cfg : Cfg) {a b : CScores} (h : CEquiv a b) (nVotes nScores : Int) :
    CEquiv (truncStep cfg a nVotes nScores) (truncStep cfg b nVotes nScores) := by
  have hk : sortR (a.map (·.1)) = sortR (b.map (·.1)) := sortR_eq_of_perm (h.1.map _)
  unfold truncStep
  cases cfg.trunc with
  | off => exact h
  | frac r =>
    simp only [← hk]
    exact subtractLowest_cequiv (subtractLowest_cequiv h _ _) _ _
  | count k =>
    simp only [← hk]
    exact subtractLowest_cequiv (subtractLowest_cequiv h _ _) _ _

/-- `_correct_candidate_scores` does not see the insertion order of the count dict -/
theorem correctOne_cequiv (cfg : Cfg) {a b : CScores} (h : CEquiv a b) (nVotes : Int) :
    ExceptEquiv CEquiv (correctOne cfg a nVotes) (correctOne cfg b nVotes) := by
  rw [correctOne_eq, correctOne_eq, ← totalCount_perm h.1]
  split
  · exact CEquiv.refl (by simp [ckeys])
  · have hu := unscoredStep_cequiv cfg h nVotes
    cases h1 : unscoredStep cfg a nVotes with
    | error e =>
      cases h2 : unscoredStep cfg b nVotes with
      | error e' => rw [h1, h2] at hu; exact hu
      | ok y => rw [h1, h2] at hu; exact hu.elim
    | ok x =>
      cases h2 : unscoredStep cfg b nVotes with
      | error e' => rw [h1, h2] at hu; exact hu.elim
      | ok y => rw [h1, h2] at hu; exact truncStep_cequiv cfg hu _ _

/-- the only exception `_correct_candidate_scores` raises is the `ValueError` of `min()` of nothing -/
theorem correctOne_error {cfg : Cfg} {a : CScores} {nVotes : Int} {e : Err} (h : correctOne cfg a nVotes = .error e) :
    e = .valueError := by
  rw [correctOne_eq] at h
  split at h
  · cases h
  · unfold unscoredStep at h
    cases hu : cfg.unscored with
    | none => rw [hu] at h; cases h
    | value u => rw [hu] at h; cases h
    | min =>
      rw [hu] at h
      simp only at h
      cases hm : listMin (expand a) with
      | error e' =>
        rw [hm] at h
        have := listMin_error hm
        subst this
        injection h with h; exact h.symm
      | ok u => rw [hm] at h; cases h

/-! ### the nested dict `scores` (`Dict[candidate, Dict[score, count]]`) as a map -/

def scoreTKeys (t : ScoreTable) : List Cand := t.map (·.1)

/-- distinct candidates, and distinct grades in every count dict -/
def ScoreTWF (t : ScoreTable) : Prop := (scoreTKeys t).Nodup ∧ ∀ p ∈ t, (ckeys p.2).Nodup

theorem tableGet_eq_score_dget (t : ScoreTable) (c : Cand) : tableGet t c = score_dget t c := by
  unfold tableGet score_dget
  cases t.find? (fun p => p.1 = c) <;> rfl

theorem score_dget_addScore (t : ScoreTable) (c : Cand) (s : Rat) (n : Int) (c' : Cand) :
    score_dget (addScore t c s n) c' = if c' = c then some (addCount ((score_dget t c).getD []) s n) else score_dget t c' := by
  induction t with
  | nil =>
    simp only [addScore, score_dget_cons, score_dget_nil]
    by_cases h : c' = c
    · rw [if_pos h.symm, if_pos h]; rfl
    · rw [if_neg (fun e => h e.symm), if_neg h]
  | cons p ps ih =>
    obtain ⟨k, cs⟩ := p
    unfold addScore
    by_cases hk : k = c
    · rw [if_pos hk, score_dget_cons, score_dget_cons, score_dget_cons]
      simp only
      by_cases h : c' = c
      · rw [if_pos (hk.trans h.symm), if_pos h, if_pos hk]; rfl
      · rw [if_neg (fun e => h (e.symm.trans hk)), if_neg h, if_neg (fun e => h (e.symm.trans hk))]
    · rw [if_neg hk, score_dget_cons, score_dget_cons, score_dget_cons, ih]
      simp only
      rw [if_neg hk]
      by_cases h : k = c'
      · rw [if_pos h, if_pos h, if_neg (fun e => hk (h.trans e))]
      · rw [if_neg h, if_neg h]

theorem mem_scoreTKeys_addScore (t : ScoreTable) (c : Cand) (s : Rat) (n : Int) (c' : Cand) :
    c' ∈ scoreTKeys (addScore t c s n) ↔ c' ∈ scoreTKeys t ∨ c' = c := by
  unfold scoreTKeys
  rw [← score_dget_isSome, ← score_dget_isSome, score_dget_addScore]
  by_cases h : c' = c
  · simp [h]
  · simp [h]

theorem ScoreTWF_addScore {t : ScoreTable} (h : ScoreTWF t) (c : Cand) (s : Rat) (n : Int) : ScoreTWF (addScore t c s n) := by
  induction t with
  | nil =>
    refine ⟨by simp [addScore, scoreTKeys], ?_⟩
    intro p hp
    simp only [addScore, List.mem_singleton] at hp
    subst hp
    exact ckeys_setCount_nodup (by simp [ckeys]) _ _
  | cons p ps ih =>
    obtain ⟨k, cs⟩ := p
    obtain ⟨h1, h2⟩ := h
    have h1' : k ∉ scoreTKeys ps ∧ (scoreTKeys ps).Nodup := List.nodup_cons.mp h1
    have hps : ScoreTWF ps := ⟨h1'.2, fun q hq => h2 q (List.mem_cons_of_mem _ hq)⟩
    unfold addScore
    by_cases hk : k = c
    · rw [if_pos hk]
      refine ⟨h1, ?_⟩
      intro q hq
      rcases List.mem_cons.mp hq with rfl | hq'
      · exact ckeys_setCount_nodup (h2 (k, cs) List.mem_cons_self) _ _
      · exact h2 q (List.mem_cons_of_mem _ hq')
    · rw [if_neg hk]
      have ih' := ih hps
      refine ⟨?_, ?_⟩
      · show (k :: scoreTKeys (addScore ps c s n)).Nodup
        refine List.nodup_cons.mpr ⟨?_, ih'.1⟩
        rw [mem_scoreTKeys_addScore]
        rintro (h | h)
        · exact h1'.1 h
        · exact hk h
      · intro q hq
        rcases List.mem_cons.mp hq with rfl | hq'
        · exact h2 (k, cs) List.mem_cons_self
        · exact ih'.2 q hq'

/-- the nested dict read as a map candidate -> (grade -> count) -/
abbrev ScoreSem := Cand → Option (Rat → Option Int)

def scoreSem (t : ScoreTable) : ScoreSem := fun c => (score_dget t c).map (fun cs => score_dget cs)

def scoreSemRow (m : ScoreSem) (c : Cand) : Rat → Option Int := (m c).getD (fun _ => none)

/-- `scores[cand][score] += n` on the map -/
def semUpd (m : ScoreSem) (x : Cand × Rat × Int) : ScoreSem :=
  Function.update m x.1 (some (Function.update (scoreSemRow m x.1) x.2.1 (some (((scoreSemRow m x.1) x.2.1).getD 0 + x.2.2))))

theorem scoreSemRow_sem (t : ScoreTable) (c : Cand) : scoreSemRow (scoreSem t) c = score_dget ((score_dget t c).getD []) := by
  unfold scoreSemRow scoreSem
  cases score_dget t c with
  | none => funext k; rfl
  | some cs => rfl

theorem scoreSem_addScore (t : ScoreTable) (x : Cand × Rat × Int) : scoreSem (addScore t x.1 x.2.1 x.2.2) = semUpd (scoreSem t) x := by
  obtain ⟨c, s, n⟩ := x
  funext c'
  unfold semUpd
  simp only
  by_cases h : c' = c
  · subst h
    rw [Function.update_self]
    unfold scoreSem
    rw [score_dget_addScore, if_pos rfl]
    simp only [Option.map_some]
    congr 1
    funext k
    unfold addCount
    rw [score_dget_setCount, Function.update_apply]
    have := scoreSemRow_sem t c'
    unfold scoreSem at this
    rw [this, getCount_eq_score_dget]
  · rw [Function.update_of_ne h]
    unfold scoreSem
    rw [score_dget_addScore, if_neg h]

/-- the update is commutative: the order of the `+=` does not matter for the map -/
theorem semUpd_comm (m : ScoreSem) (x y : Cand × Rat × Int) : semUpd (semUpd m x) y = semUpd (semUpd m y) x := by
  obtain ⟨c₁, s₁, n₁⟩ := x
  obtain ⟨c₂, s₂, n₂⟩ := y
  unfold semUpd
  simp only
  by_cases hc : c₁ = c₂
  · subst hc
    simp only [scoreSemRow, Function.update_self, Function.update_idem, Option.getD_some]
    congr 2
    by_cases hs : s₁ = s₂
    · subst hs
      simp only [Function.update_self, Function.update_idem, Option.getD_some]
      congr 2
      omega
    · have hs' : s₂ ≠ s₁ := fun e => hs e.symm
      rw [Function.update_of_ne hs', Function.update_of_ne hs, Function.update_comm hs]
  · have hc' : c₂ ≠ c₁ := fun e => hc e.symm
    have e1 : scoreSemRow (Function.update m c₁ (some (Function.update (scoreSemRow m c₁) s₁ (some ((scoreSemRow m c₁ s₁).getD 0 + n₁))))) c₂
        = scoreSemRow m c₂ := by
      unfold scoreSemRow; rw [Function.update_of_ne hc']
    have e2 : scoreSemRow (Function.update m c₂ (some (Function.update (scoreSemRow m c₂) s₂ (some ((scoreSemRow m c₂ s₂).getD 0 + n₂))))) c₁
        = scoreSemRow m c₁ := by
      unfold scoreSemRow; rw [Function.update_of_ne hc]
    rw [e1, e2, Function.update_comm hc]

/-- the `(candidate, grade, count)` increments of the double loop convert.py L188-191, in order -/
def scoreFlat (votes : SProfile) : List (Cand × Rat × Int) :=
  votes.flatMap (fun bn => bn.1.map (fun cs => (cs.1, cs.2, bn.2)))

theorem rawScores_eq_fold (votes : SProfile) :
    rawScores votes = (scoreFlat votes).foldl (fun t x => addScore t x.1 x.2.1 x.2.2) [] := by
  unfold rawScores scoreFlat
  rw [List.foldl_flatMap]
  congr 1
  funext t bn
  rw [List.foldl_map]

theorem scoreSem_fold (L : List (Cand × Rat × Int)) : ∀ t : ScoreTable,
    scoreSem (L.foldl (fun t x => addScore t x.1 x.2.1 x.2.2) t) = L.foldl semUpd (scoreSem t) := by
  induction L with
  | nil => intro t; rfl
  | cons x xs ih => intro t; rw [List.foldl_cons, List.foldl_cons, ih, scoreSem_addScore]

theorem ScoreTWF_fold (L : List (Cand × Rat × Int)) : ∀ t : ScoreTable, ScoreTWF t →
    ScoreTWF (L.foldl (fun t x => addScore t x.1 x.2.1 x.2.2) t) := by
  induction L with
  | nil => intro t h; exact h
  | cons x xs ih => intro t h; rw [List.foldl_cons]; exact ih _ (ScoreTWF_addScore h _ _ _)

theorem ScoreTWF_rawScores (votes : SProfile) : ScoreTWF (rawScores votes) := by
  rw [rawScores_eq_fold]
  exact ScoreTWF_fold _ _ ⟨List.nodup_nil, fun p hp => by cases hp⟩

/-- as a map, `scores` does not depend on the ballot order -/
theorem scoreSem_rawScores_perm {p₁ p₂ : SProfile} (hf : (scoreFlat p₁).Perm (scoreFlat p₂)) : scoreSem (rawScores p₁) = scoreSem (rawScores p₂) := by
  rw [rawScores_eq_fold, rawScores_eq_fold, scoreSem_fold, scoreSem_fold]
  exact hf.foldl_eq' (fun x _ y _ z => semUpd_comm z x y) _

/-- two profiles that hold the same ballots with the same counts: the same `(candidate, grade, count)` increments up to
    order (this forgets the order of the ballots AND the order in which a ballot lists its candidates) and the same
    number of voters -/
def SameBallots (p₁ p₂ : SProfile) : Prop := (scoreFlat p₁).Perm (scoreFlat p₂) ∧ totalVotes p₁ = totalVotes p₂

instance (p₁ p₂ : SProfile) : Decidable (SameBallots p₁ p₂) := by unfold SameBallots; infer_instance

theorem sameBallots_of_perm {p₁ p₂ : SProfile} (h : p₁.Perm p₂) : SameBallots p₁ p₂ :=
  ⟨h.flatMap_right _, by unfold totalVotes; exact (h.map _).sum_eq⟩

/-- ballots re-listed: position by position the same ballot up to the order of its `(candidate, grade)` pairs -/
theorem sameBallots_of_forall₂ {p₁ p₂ : SProfile}
    (h : List.Forall₂ (fun a b : SBallot × Int => a.1.Perm b.1 ∧ a.2 = b.2) p₁ p₂) : SameBallots p₁ p₂ := by
  induction h with
  | nil => exact ⟨List.Perm.refl _, rfl⟩
  | cons hab _ ih =>
    rename_i a b l₁ l₂ _
    refine ⟨?_, ?_⟩
    · unfold scoreFlat
      rw [List.flatMap_cons, List.flatMap_cons, hab.2]
      exact (hab.1.map _).append ih.1
    · unfold totalVotes
      rw [List.map_cons, List.map_cons, List.sum_cons, List.sum_cons, hab.2]
      congr 1
      exact ih.2

theorem SameBallots.trans {p₁ p₂ p₃ : SProfile} (h₁ : SameBallots p₁ p₂) (h₂ : SameBallots p₂ p₃) : SameBallots p₁ p₃ :=
  ⟨h₁.1.trans h₂.1, h₁.2.trans h₂.2⟩

/-! ### tables up to insertion order (outer and inner) -/

def EntryEquiv (x y : Cand × CScores) : Prop := x.1 = y.1 ∧ CEquiv x.2 y.2

/-- the same nested dict up to the insertion order of the candidates and of the grades of each candidate -/
def TableEquiv (t₁ t₂ : ScoreTable) : Prop := ∃ t', t₁.Perm t' ∧ List.Forall₂ EntryEquiv t' t₂

theorem tableEquiv_of_scoreSem {t₁ t₂ : ScoreTable} (h₁ : ScoreTWF t₁) (h₂ : ScoreTWF t₂) (h : scoreSem t₁ = scoreSem t₂) : TableEquiv t₁ t₂ := by
  -- every entry of `t₂` has its counterpart in `t₁`
  have key : ∀ q ∈ t₂, ∃ cs, score_dget t₁ q.1 = some cs ∧ (q.1, cs) ∈ t₁ ∧ CEquiv cs q.2 := by
    intro q hq
    have e2 : score_dget t₂ q.1 = some q.2 := (score_dget_eq_some_iff h₂.1).mpr hq
    have := congrFun h q.1
    unfold scoreSem at this
    rw [e2] at this
    cases e1 : score_dget t₁ q.1 with
    | none => rw [e1] at this; cases this
    | some cs =>
      rw [e1] at this
      simp only [Option.map_some, Option.some.injEq] at this
      have hm : (q.1, cs) ∈ t₁ := (score_dget_eq_some_iff h₁.1).mp e1
      exact ⟨cs, rfl, hm, perm_of_score_dget_eq (h₁.2 _ hm) (h₂.2 _ hq) (fun k => congrFun this k), h₁.2 _ hm⟩
  refine ⟨t₂.map (fun q => (q.1, (score_dget t₁ q.1).getD [])), ?_, ?_⟩
  · have hk : (t₂.map (fun q => (q.1, (score_dget t₁ q.1).getD []))).map (·.1) = t₂.map (·.1) := by
      rw [List.map_map]; rfl
    apply (List.perm_ext_iff_of_nodup (score_nodup_of_nodup_keys h₁.1) (score_nodup_of_nodup_keys (by rw [hk]; exact h₂.1))).mpr
    rintro ⟨c, cs⟩
    rw [List.mem_map]
    constructor
    · intro hm
      have e1 : score_dget t₁ c = some cs := (score_dget_eq_some_iff h₁.1).mpr hm
      have := congrFun h c
      unfold scoreSem at this
      rw [e1] at this
      cases e2 : score_dget t₂ c with
      | none => rw [e2] at this; cases this
      | some x =>
        refine ⟨(c, x), (score_dget_eq_some_iff h₂.1).mp e2, ?_⟩
        simp only [e1, Option.getD_some]
    · rintro ⟨q, hq, e⟩
      obtain ⟨cs', e1, hm, _⟩ := key q hq
      rw [e1] at e
      simp only [Option.getD_some] at e
      rw [← e]; exact hm
  · rw [List.forall₂_map_left_iff, List.forall₂_same]
    intro q hq
    obtain ⟨cs', e1, _, hce⟩ := key q hq
    rw [e1]
    exact ⟨rfl, hce⟩

/-- **`scores` does not depend on the ballot order** but for the insertion order of its two levels -/
theorem rawScores_perm {p₁ p₂ : SProfile} (h : SameBallots p₁ p₂) : TableEquiv (rawScores p₁) (rawScores p₂) :=
  tableEquiv_of_scoreSem (ScoreTWF_rawScores p₁) (ScoreTWF_rawScores p₂) (scoreSem_rawScores_perm h.1)

/-- composing the two halves of a table equivalence under `Except` -/
theorem score_exceptEquiv_comp {α : Type} {R : α → α → Prop} {x y z : Except Err (List α)}
    (h₁ : ExceptEquiv List.Perm x y) (h₂ : ExceptEquiv (List.Forall₂ R) y z) :
    ExceptEquiv (fun a c => ∃ b, a.Perm b ∧ List.Forall₂ R b c) x z := by
  cases x with
  | error e =>
    cases y with
    | error e' =>
      cases z with
      | error e'' => exact Eq.trans h₁ h₂
      | ok c => exact h₂.elim
    | ok b => exact h₁.elim
  | ok a =>
    cases y with
    | error e' => exact h₁.elim
    | ok b =>
      cases z with
      | error e'' => exact h₂.elim
      | ok c => exact ⟨b, h₁, h₂⟩

/-- one entry of `corrected_scores` -/
def correctEntry (cfg : Cfg) (nVotes : Int) (p : Cand × CScores) : Except Err (Cand × CScores) := do
  let cs ← correctOne cfg p.2 nVotes
  pure (p.1, cs)

theorem correctEntry_equiv (cfg : Cfg) (nVotes : Int) (a b : Cand × CScores) (h : EntryEquiv a b) :
    ExceptEquiv EntryEquiv (correctEntry cfg nVotes a) (correctEntry cfg nVotes b) := by
  have hc := correctOne_cequiv cfg h.2 nVotes
  unfold correctEntry
  cases h1 : correctOne cfg a.2 nVotes with
  | error e =>
    cases h2 : correctOne cfg b.2 nVotes with
    | error e' => rw [h1, h2] at hc; exact hc
    | ok y => rw [h1, h2] at hc; exact hc.elim
  | ok x =>
    cases h2 : correctOne cfg b.2 nVotes with
    | error e' => rw [h1, h2] at hc; exact hc.elim
    | ok y => rw [h1, h2] at hc; exact ⟨h.1, hc⟩

theorem correctEntry_error {cfg : Cfg} {nVotes : Int} {p : Cand × CScores} {e : Err}
    (h : correctEntry cfg nVotes p = .error e) : e = .valueError := by
  unfold correctEntry at h
  cases h1 : correctOne cfg p.2 nVotes with
  | error e' =>
    rw [h1] at h
    have := correctOne_error h1
    subst this
    injection h with h; exact h.symm
  | ok x => rw [h1] at h; cases h

/-- **`corrected_scores` does not depend on the ballot order** but for the insertion order of its two levels -/
theorem correctedScores_same (cfg : Cfg) {p₁ p₂ : SProfile} (h : SameBallots p₁ p₂) :
    ExceptEquiv TableEquiv (correctedScores cfg p₁) (correctedScores cfg p₂) := by
  obtain ⟨t', hp, hf⟩ := rawScores_perm h
  have e : ∀ votes, correctedScores cfg votes = (rawScores votes).mapM (correctEntry cfg (totalVotes votes)) := fun _ => rfl
  rw [e, e, h.2]
  exact score_exceptEquiv_comp
    (score_mapM_perm _ .valueError hp (fun x _ e he => correctEntry_error he))
    (score_mapM_forall₂ _ _ (correctEntry_equiv cfg _) hf)

/-! ### `aggregate` -/

/-- the one exception an aggregation function raises (on nothing to aggregate) -/
def aggErr : Agg → Err
  | .mean => .other "ZeroDivisionError"
  | .sum => .valueError
  | .medianLow => .other "StatisticsError"

theorem aggregateOne_error {fn : Agg} {cs : CScores} {e : Err} (h : aggregateOne fn cs = .error e) : e = aggErr fn := by
  unfold aggregateOne at h
  cases fn with
  | mean =>
    simp only [aggFn, exactMean] at h
    split at h
    · injection h with h; exact h.symm
    · cases h
  | sum => cases h
  | medianLow =>
    simp only [aggFn] at h
    by_cases hn : expand cs = []
    · rw [hn, medianLow_nil] at h
      injection h with h; exact h.symm
    · obtain ⟨v, hv, _⟩ := medianLow_spec (expand cs) hn
      rw [hv] at h; cases h

theorem aggregateOne_cequiv (fn : Agg) {a b : CScores} (h : CEquiv a b) : aggregateOne fn a = aggregateOne fn b :=
  aggFn_perm fn (expand_perm h.1)

def aggEntry (fn : Agg) (p : Cand × CScores) : Except Err (Cand × Rat) := do
  let v ← aggregateOne fn p.2
  pure (p.1, v)

theorem aggEntry_equiv (fn : Agg) (a b : Cand × CScores) (h : EntryEquiv a b) :
    ExceptEquiv (· = ·) (aggEntry fn a) (aggEntry fn b) := by
  unfold aggEntry
  rw [aggregateOne_cequiv fn h.2, h.1]
  cases aggregateOne fn b.2 with
  | error e => exact rfl
  | ok v => exact rfl

theorem aggEntry_error {fn : Agg} {p : Cand × CScores} {e : Err} (h : aggEntry fn p = .error e) : e = aggErr fn := by
  unfold aggEntry at h
  cases h1 : aggregateOne fn p.2 with
  | error e' =>
    rw [h1] at h
    have := aggregateOne_error h1
    rw [← this]
    injection h with h; exact h.symm
  | ok x => rw [h1] at h; cases h

/-- `aggregate` of equivalent tables: the same dict candidate -> aggregate up to insertion order, or the same exception -/
theorem aggregate_equiv (fn : Agg) {t₁ t₂ : ScoreTable} (h : TableEquiv t₁ t₂) :
    ExceptEquiv List.Perm (aggregate fn t₁) (aggregate fn t₂) := by
  obtain ⟨t', hp, hf⟩ := h
  have e : ∀ t, aggregate fn t = t.mapM (aggEntry fn) := fun _ => rfl
  rw [e, e]
  have h1 := score_mapM_perm (aggEntry fn) (aggErr fn) hp (fun x _ e he => aggEntry_error he)
  have h2 := score_mapM_forall₂ (aggEntry fn) (aggEntry fn) (aggEntry_equiv fn) hf
  have h3 := score_exceptEquiv_comp h1 h2
  cases hx : t₁.mapM (aggEntry fn) with
  | error e1 =>
    cases hz : t₂.mapM (aggEntry fn) with
    | error e2 => rw [hx, hz] at h3; exact h3
    | ok c => rw [hx, hz] at h3; exact h3.elim
  | ok a =>
    cases hz : t₂.mapM (aggEntry fn) with
    | error e2 => rw [hx, hz] at h3; exact h3.elim
    | ok c =>
      rw [hx, hz] at h3
      obtain ⟨b, hab, hbc⟩ := h3
      rw [List.forall₂_eq_eq_eq] at hbc
      subst hbc
      exact hab

/-- **`ScoreToSimpleVotes.convert`: independence of the ballot order and of the order in which a ballot lists its
    candidates** (`SameBallots`).  The aggregated dict candidate -> score is the same up to insertion order, or both runs
    raise the same exception.  Every configuration (`mean`/`sum`/`median_low`, `unscored_value`, `min_count`,
    truncation); no well-formedness hypothesis on the profile. -/
theorem convert_same (cfg : Cfg) {p₁ p₂ : SProfile} (h : SameBallots p₁ p₂) :
    ExceptEquiv List.Perm (convert cfg p₁) (convert cfg p₂) := by
  have hc := correctedScores_same cfg h
  unfold convert
  cases h1 : correctedScores cfg p₁ with
  | error e =>
    cases h2 : correctedScores cfg p₂ with
    | error e' => rw [h1, h2] at hc; exact hc
    | ok y => rw [h1, h2] at hc; exact hc.elim
  | ok x =>
    cases h2 : correctedScores cfg p₂ with
    | error e' => rw [h1, h2] at hc; exact hc.elim
    | ok y => rw [h1, h2] at hc; exact aggregate_equiv cfg.fn hc

/-- **`ScoreVoting.evaluate`: independence of the ballot order and of the listing order inside a ballot.**  The same
    exception, or `SlotsEquiv` selections (the same elected set, the same tie as a set, the same number of tied seats),
    for every number of seats. -/
theorem scoreVoting_same (cfg : Cfg) {p₁ p₂ : SProfile} (h : SameBallots p₁ p₂) (n : Nat) :
    ExceptEquiv SlotsEquiv (scoreVoting cfg p₁ n) (scoreVoting cfg p₂ n) := by
  have hc := convert_same cfg h
  unfold scoreVoting
  cases h1 : convert cfg p₁ with
  | error e =>
    cases h2 : convert cfg p₂ with
    | error e' => rw [h1, h2] at hc; exact hc
    | ok y => rw [h1, h2] at hc; exact hc.elim
  | ok x =>
    cases h2 : convert cfg p₂ with
    | error e' => rw [h1, h2] at hc; exact hc.elim
    | ok y => rw [h1, h2] at hc; exact getNBest_perm x y hc n

/-- `corrected_scores`, profile given in another ballot order -/
theorem correctedScores_perm (cfg : Cfg) {p₁ p₂ : SProfile} (h : p₁.Perm p₂) :
    ExceptEquiv TableEquiv (correctedScores cfg p₁) (correctedScores cfg p₂) :=
  correctedScores_same cfg (sameBallots_of_perm h)

/-- **`ScoreToSimpleVotes.convert`: ballot-order independence** (the profile dict in another insertion order) -/
theorem convert_perm (cfg : Cfg) {p₁ p₂ : SProfile} (h : p₁.Perm p₂) :
    ExceptEquiv List.Perm (convert cfg p₁) (convert cfg p₂) :=
  convert_same cfg (sameBallots_of_perm h)

/-- **`ScoreVoting.evaluate`: ballot-order independence** (the profile dict in another insertion order) -/
theorem scoreVoting_perm (cfg : Cfg) {p₁ p₂ : SProfile} (h : p₁.Perm p₂) (n : Nat) :
    ExceptEquiv SlotsEquiv (scoreVoting cfg p₁ n) (scoreVoting cfg p₂ n) :=
  scoreVoting_same cfg (sameBallots_of_perm h) n

example : SameBallots [([(0, (5 : Rat)), (1, 2)], (2 : Int)), ([(1, 5), (0, 1)], 1), ([(2, 3)], 1)]
    [([(2, 3)], 1), ([(0, 1), (1, 5)], 1), ([(1, 2), (0, 5)], 2)] := by decide +kernel
example : [([(0, (5 : Rat)), (1, 2)], (2 : Int)), ([(1, 5), (0, 1)], 1), ([(2, 3)], 1)].Perm
    [([(2, 3)], 1), ([(1, 5), (0, 1)], 1), ([(0, 5), (1, 2)], 2)] := by decide +kernel
example : convert { fn := .mean, unscored := .none, minCount := 0, trunc := .off, bottom := 0 }
    [([(0, 5), (1, 2)], 2), ([(1, 5), (0, 1)], 1), ([(2, 3)], 1)] = .ok [(0, 11 / 3), (1, 3), (2, 3)] := by decide +kernel
example : convert { fn := .mean, unscored := .none, minCount := 0, trunc := .off, bottom := 0 }
    [([(2, 3)], 1), ([(1, 5), (0, 1)], 1), ([(0, 5), (1, 2)], 2)] = .ok [(2, 3), (1, 3), (0, 11 / 3)] := by decide +kernel

end VL.Perm
