/-
  C10, score family: `ScoreToSimpleVotes` / `ScoreVoting` (model VotelibModel/Score.lean, owned by C12) do not depend on
  the insertion order of the profile dict.

  The profile order leaks into the intermediate dicts in two places: the order of the candidates in `scores` and the
  order of the grades in each candidate's count dict.  Both are forgotten by `TableEquiv`; it is established for
  `rawScores` by reading the nested dict as a map ("dict as a map": the double loop is a fold of a commutative update of
  that map), carried through `_correct_candidate_scores` (every primitive respects permutations of a dict with distinct
  keys) and `aggregate` (aggregation functions see the grades as a multiset); `getNBest_perm` finishes.
-/
import VotelibProofs.Lemmas.PermBase
import VotelibProofs.Lemmas.PermQuota
import VotelibProofs.Lemmas.C12Score
import VotelibProofs.Lemmas.C12Trunc
namespace VL.Perm
open VL VL.Score VL.C10

/-! ### `mapM` in `Except` over permuted / related lists -/

theorem mapM_cons_ok {α β : Type} (f : α → Except Err β) (x : α) (xs : List α) :
    (x :: xs).mapM f = match f x with
      | .error e => .error e
      | .ok y => match xs.mapM f with
        | .error e => .error e
        | .ok ys => .ok (y :: ys) := by
  rw [List.mapM_cons]
  cases f x with
  | error e => rfl
  | ok y =>
    cases xs.mapM f with
    | error e => rfl
    | ok ys => rfl

/-- when every failure of `f` is the same exception, `mapM f` fails with it iff some element fails -/
theorem mapM_uniform {α β : Type} (f : α → Except Err β) (e₀ : Err) (l : List α)
    (hf : ∀ x ∈ l, ∀ e, f x = .error e → e = e₀) :
    l.mapM f = if l.all (fun x => (f x).toBool) then .ok (l.filterMap (fun x => (f x).toOption)) else .error e₀ := by
  induction l with
  | nil => rfl
  | cons x xs ih =>
    rw [mapM_cons_ok, ih (fun y hy => hf y (List.mem_cons_of_mem _ hy))]
    cases hx : f x with
    | error e =>
      have := hf x List.mem_cons_self e hx
      subst this
      simp [hx, Except.toBool]
    | ok y =>
      have e1 : ((x :: xs).all fun x => (f x).toBool) = (xs.all fun x => (f x).toBool) := by
        rw [List.all_cons, hx]; rfl
      have e2 : (x :: xs).filterMap (fun x => (f x).toOption) = y :: xs.filterMap (fun x => (f x).toOption) := by
        rw [List.filterMap_cons, hx]; rfl
      rw [e1, e2]
      by_cases ha : (xs.all fun x => (f x).toBool) = true
      · rw [if_pos ha, if_pos ha]
      · rw [if_neg ha, if_neg ha]

theorem mapM_perm {α β : Type} (f : α → Except Err β) (e₀ : Err) {l₁ l₂ : List α} (h : l₁.Perm l₂)
    (hf : ∀ x ∈ l₁, ∀ e, f x = .error e → e = e₀) :
    ExceptEquiv List.Perm (l₁.mapM f) (l₂.mapM f) := by
  rw [mapM_uniform f e₀ l₁ hf, mapM_uniform f e₀ l₂ (fun x hx => hf x (h.mem_iff.mpr hx)), h.all_eq]
  split
  · exact h.filterMap _
  · exact rfl

theorem mapM_forall₂ {α β : Type} {R : α → α → Prop} {S : β → β → Prop} (f g : α → Except Err β)
    (hfg : ∀ a b, R a b → ExceptEquiv S (f a) (g b)) {l₁ l₂ : List α} (h : List.Forall₂ R l₁ l₂) :
    ExceptEquiv (List.Forall₂ S) (l₁.mapM f) (l₂.mapM g) := by
  induction h with
  | nil => exact List.Forall₂.nil
  | cons hab _ ih =>
    rename_i a b l₁ l₂ _
    rw [mapM_cons_ok, mapM_cons_ok]
    have h1 := hfg a b hab
    cases hfa : f a with
    | error e =>
      cases hgb : g b with
      | error e' => rw [hfa, hgb] at h1; exact h1
      | ok y => rw [hfa, hgb] at h1; exact h1.elim
    | ok x =>
      cases hgb : g b with
      | error e' => rw [hfa, hgb] at h1; exact h1.elim
      | ok y =>
        rw [hfa, hgb] at h1
        simp only
        cases hl₁ : l₁.mapM f with
        | error e =>
          cases hl₂ : l₂.mapM g with
          | error e' => rw [hl₁, hl₂] at ih; exact ih
          | ok ys => rw [hl₁, hl₂] at ih; exact ih.elim
        | ok xs =>
          cases hl₂ : l₂.mapM g with
          | error e' => rw [hl₁, hl₂] at ih; exact ih.elim
          | ok ys => rw [hl₁, hl₂] at ih; exact List.Forall₂.cons h1 ih

/-! ### dicts as maps -/

section Dict
variable {κ ν : Type} [DecidableEq κ]

/-- `d.get(k)` of an insertion-ordered dict -/
def dget (d : List (κ × ν)) (k : κ) : Option ν := (d.find? (fun p => p.1 = k)).map (·.2)

theorem dget_nil (k : κ) : dget ([] : List (κ × ν)) k = none := rfl

theorem dget_cons (p : κ × ν) (d : List (κ × ν)) (k : κ) : dget (p :: d) k = if p.1 = k then some p.2 else dget d k := by
  unfold dget
  rw [List.find?_cons]
  by_cases h : p.1 = k <;> simp [h]

theorem dget_isSome {d : List (κ × ν)} {k : κ} : (dget d k).isSome = true ↔ k ∈ d.map (·.1) := by
  induction d with
  | nil => simp [dget_nil]
  | cons p ps ih =>
    rw [dget_cons]
    by_cases h : p.1 = k
    · simp [h]
    · have h' : ¬ k = p.1 := fun e => h e.symm
      simp [h, h', ih]

theorem dget_eq_none {d : List (κ × ν)} {k : κ} : dget d k = none ↔ k ∉ d.map (·.1) := by
  rw [← dget_isSome]; cases dget d k <;> simp

theorem dget_eq_some_iff {d : List (κ × ν)} (hnd : (d.map (·.1)).Nodup) {k : κ} {v : ν} :
    dget d k = some v ↔ (k, v) ∈ d := by
  induction d with
  | nil => simp [dget_nil]
  | cons p ps ih =>
    have hp : p.1 ∉ ps.map (·.1) ∧ (ps.map (·.1)).Nodup := List.nodup_cons.mp hnd
    rw [dget_cons, List.mem_cons]
    by_cases h : p.1 = k
    · rw [if_pos h]
      constructor
      · intro e; injection e with e; left; rw [← h, ← e]
      · rintro (e | e)
        · rw [← e]
        · exfalso; apply hp.1; rw [h]; exact List.mem_map.mpr ⟨(k, v), e, rfl⟩
    · rw [if_neg h, ih hp.2]
      constructor
      · exact Or.inr
      · rintro (e | e)
        · exfalso; apply h; rw [← e]
        · exact e

theorem dget_perm {d₁ d₂ : List (κ × ν)} (h : d₁.Perm d₂) (hnd : (d₁.map (·.1)).Nodup) (k : κ) :
    dget d₁ k = dget d₂ k := by
  unfold dget
  rw [find?_perm_of_nodup_keys (fun p : κ × ν => p.1) h hnd k]

omit [DecidableEq κ] in
theorem nodup_of_nodup_keys {d : List (κ × ν)} (hnd : (d.map (·.1)).Nodup) : d.Nodup := List.Nodup.of_map _ hnd

/-- two dicts with distinct keys that are the same map hold the same items -/
theorem perm_of_dget_eq {d₁ d₂ : List (κ × ν)} (h₁ : (d₁.map (·.1)).Nodup) (h₂ : (d₂.map (·.1)).Nodup)
    (h : ∀ k, dget d₁ k = dget d₂ k) : d₁.Perm d₂ := by
  apply (List.perm_ext_iff_of_nodup (nodup_of_nodup_keys h₁) (nodup_of_nodup_keys h₂)).mpr
  rintro ⟨k, v⟩
  rw [← dget_eq_some_iff h₁, ← dget_eq_some_iff h₂, h k]

end Dict

/-! ### count dicts (`Dict[score, count]`) up to insertion order -/

theorem getCount_eq_dget (d : CScores) (s : Rat) : getCount d s = (dget d s).getD 0 := by
  unfold getCount dget
  cases d.find? (fun p => p.1 = s) <;> rfl

theorem dget_setCount (d : CScores) (s : Rat) (n : Int) (k : Rat) :
    dget (setCount d s n) k = if k = s then some n else dget d k := by
  induction d with
  | nil =>
    simp only [setCount, dget_cons, dget_nil]
    by_cases h : k = s
    · rw [if_pos h.symm, if_pos h]
    · rw [if_neg (fun e => h e.symm), if_neg h]
  | cons p ps ih =>
    obtain ⟨q, v⟩ := p
    unfold setCount
    by_cases hq : q = s
    · rw [if_pos hq, dget_cons, dget_cons]
      simp only
      by_cases h : k = s
      · rw [if_pos (hq.trans h.symm), if_pos h]
      · rw [if_neg h, if_neg (fun e => h (e.symm.trans hq)), if_neg (fun e => h (e.symm.trans hq))]
    · rw [if_neg hq, dget_cons, dget_cons, ih]
      simp only
      by_cases h : q = k
      · rw [if_pos h, if_pos h]
      · rw [if_neg h, if_neg h]

/-- the same count dict up to insertion order (keys distinct, as in every dict) -/
def CEquiv (a b : CScores) : Prop := a.Perm b ∧ (ckeys a).Nodup

theorem CEquiv.refl {a : CScores} (h : (ckeys a).Nodup) : CEquiv a a := ⟨List.Perm.refl _, h⟩

theorem CEquiv.nodup_right {a b : CScores} (h : CEquiv a b) : (ckeys b).Nodup := (h.1.map _).nodup_iff.mp h.2

theorem CEquiv.dget_eq {a b : CScores} (h : CEquiv a b) (s : Rat) : dget a s = dget b s := dget_perm h.1 h.2 s

theorem CEquiv.getCount_eq {a b : CScores} (h : CEquiv a b) (s : Rat) : getCount a s = getCount b s := by
  rw [getCount_eq_dget, getCount_eq_dget, h.dget_eq]

theorem CEquiv.setCount {a b : CScores} (h : CEquiv a b) (s : Rat) (n : Int) : CEquiv (setCount a s n) (setCount b s n) := by
  refine ⟨perm_of_dget_eq (ckeys_setCount_nodup h.2 s n) (ckeys_setCount_nodup h.nodup_right s n) ?_,
    ckeys_setCount_nodup h.2 s n⟩
  intro k
  rw [dget_setCount, dget_setCount, h.dget_eq]

theorem CEquiv.delKey {a b : CScores} (h : CEquiv a b) (s : Rat) : CEquiv (delKey a s) (delKey b s) :=
  ⟨h.1.filter _, ckeys_delKey_nodup h.2 s⟩

theorem totalCount_perm {a b : CScores} (h : a.Perm b) : totalCount a = totalCount b := by
  unfold totalCount; exact (h.map _).sum_eq

theorem expand_perm {a b : CScores} (h : a.Perm b) : (expand a).Perm (expand b) := by
  unfold expand; exact h.flatMap_right _

theorem foldl_min_spec (xs : List Rat) : ∀ m0 : Rat,
    (xs.foldl (fun m y => if y < m then y else m) m0 = m0 ∨ xs.foldl (fun m y => if y < m then y else m) m0 ∈ xs) ∧
    xs.foldl (fun m y => if y < m then y else m) m0 ≤ m0 ∧
    ∀ y ∈ xs, xs.foldl (fun m y => if y < m then y else m) m0 ≤ y := by
  induction xs with
  | nil => intro m0; simp
  | cons x xs ih =>
    intro m0
    rw [List.foldl_cons]
    obtain ⟨h1, h2, h3⟩ := ih (if x < m0 then x else m0)
    have hle : (if x < m0 then x else m0) ≤ m0 ∧ (if x < m0 then x else m0) ≤ x := by
      split
      · rename_i hlt; exact ⟨le_of_lt hlt, le_refl _⟩
      · rename_i hnl; exact ⟨le_refl _, not_lt.mp hnl⟩
    refine ⟨?_, le_trans h2 hle.1, ?_⟩
    · rcases h1 with h1 | h1
      · rw [h1]
        split
        · right; exact List.mem_cons_self
        · left; rfl
      · right; exact List.mem_cons_of_mem _ h1
    · intro y hy
      rcases List.mem_cons.mp hy with rfl | hy'
      · exact le_trans h2 hle.2
      · exact h3 y hy'

theorem listMin_spec {l : List Rat} {m : Rat} (h : listMin l = .ok m) : m ∈ l ∧ ∀ y ∈ l, m ≤ y := by
  cases l with
  | nil => cases h
  | cons x xs =>
    simp only [listMin] at h
    injection h with h
    obtain ⟨h1, h2, h3⟩ := foldl_min_spec xs x
    rw [h] at h1 h2 h3
    refine ⟨?_, ?_⟩
    · rcases h1 with h1 | h1
      · rw [h1]; exact List.mem_cons_self
      · exact List.mem_cons_of_mem _ h1
    · intro y hy
      rcases List.mem_cons.mp hy with rfl | hy'
      · exact h2
      · exact h3 y hy'

/-- builtin `min` sees its argument as a multiset -/
theorem listMin_perm {l l' : List Rat} (h : l.Perm l') : listMin l = listMin l' := by
  cases hl : listMin l with
  | error e =>
    cases l with
    | nil => rw [h.nil_eq] at hl ⊢; rfl
    | cons x xs => cases hl
  | ok m =>
    cases hl' : listMin l' with
    | error e =>
      cases l' with
      | nil => rw [h.eq_nil] at hl; cases hl
      | cons x xs => cases hl'
    | ok m' =>
      obtain ⟨a1, a2⟩ := listMin_spec hl
      obtain ⟨b1, b2⟩ := listMin_spec hl'
      have := le_antisymm (a2 m' (h.mem_iff.mpr b1)) (b2 m (h.mem_iff.mp a1))
      rw [this]

theorem listMin_error {l : List Rat} {e : Err} (h : listMin l = .error e) : e = .valueError := by
  cases l with
  | nil => injection h with h; exact h.symm
  | cons x xs => cases h

theorem subtractLowest_go_cequiv (cutoff : Int) : ∀ (ks : List Rat) (a b : CScores) (cut : Int), CEquiv a b →
    CEquiv (subtractLowest.go cutoff a ks cut) (subtractLowest.go cutoff b ks cut) := by
  intro ks
  induction ks with
  | nil => intro a b cut h; exact h
  | cons s rest ih =>
    intro a b cut h
    unfold subtractLowest.go
    rw [← h.getCount_eq s]
    split
    · exact ih _ _ _ (h.delKey s)
    · exact h.setCount s _

theorem subtractLowest_cequiv {a b : CScores} (h : CEquiv a b) (ks : List Rat) (cutoff : Int) :
    CEquiv (subtractLowest a ks cutoff) (subtractLowest b ks cutoff) :=
  subtractLowest_go_cequiv cutoff ks a b 0 h

end VL.Perm
