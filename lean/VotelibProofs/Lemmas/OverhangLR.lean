/-
  The minimal model of `LargestRemainder('hare')` (VotelibModel/Overhang.lean, `lrHareEval`) fills the house:
  whole Hare quotas leave fewer remainder seats than there are parties, and `get_n_best` hands out exactly that many.
-/
import VotelibProofs.Lemmas.OverhangCont
import VotelibProofs.Props.C09
import Mathlib.Data.Rat.Floor
import Mathlib.Algebra.BigOperators.Ring.List
namespace VL.OH
open VL

/-! ### the whole-quota pass as a pure function -/

/-- what one party contributes to `selected` in `QuotaDistributor.evaluate` (no error case) -/
def hareAdd (q : Rat) (prev : Seats) (p : Cand × Rat) : Option (Cand × Nat) :=
  if q < p.2 ∨ p.2 = q then
    let add : Int := Py.pyInt (p.2 / q) - (natLookup prev p.1 0 : Nat)
    if 0 < add then some (p.1, add.toNat) else none
  else none

theorem hareQuota_foldl (q : Rat) (n : Nat) (prev : Seats) (l : Votes) (acc qe : Seats)
    (h : l.foldl (fun (acc : Except Err Seats) (p : Cand × Rat) => do
        let sel ← acc
        if q < p.2 ∨ p.2 = q then
          if q = 0 then .error zeroDiv else
          let whole : Int := Py.pyInt (p.2 / q)
          let add : Int := whole - (natLookup prev p.1 0 : Nat)
          if 0 < add then
            if (n : Int) < whole then .error unmodelled
            else pure (sel ++ [(p.1, add.toNat)])
          else pure sel
        else pure sel) (.ok acc) = .ok qe) :
    qe = acc ++ l.filterMap (hareAdd q prev) ∧ (∀ p ∈ l, (q < p.2 ∨ p.2 = q) → q ≠ 0) := by
  induction l generalizing acc with
  | nil =>
    simp only [List.foldl_nil, Except.ok.injEq] at h
    simp [h]
  | cons x xs ih =>
    rw [List.foldl_cons] at h
    simp only [bind, Except.bind] at h
    by_cases hful : q < x.2 ∨ x.2 = q
    · rw [if_pos hful] at h
      by_cases hq : q = 0
      · rw [if_pos hq] at h
        -- the accumulator is an error from here on
        exfalso
        clear ih hful
        induction xs with
        | nil => simp at h
        | cons y ys ih' => rw [List.foldl_cons] at h; exact ih' h
      · rw [if_neg hq] at h
        by_cases hadd : 0 < Py.pyInt (x.2 / q) - ((natLookup prev x.1 0 : Nat) : Int)
        · rw [if_pos hadd] at h
          by_cases hov : (n : Int) < Py.pyInt (x.2 / q)
          · rw [if_pos hov] at h
            exfalso
            clear ih hful
            induction xs with
            | nil => simp at h
            | cons y ys ih' => rw [List.foldl_cons] at h; exact ih' h
          · rw [if_neg hov] at h
            obtain ⟨h1, h2⟩ := ih _ h
            refine ⟨?_, ?_⟩
            · rw [h1, List.filterMap_cons]
              have : hareAdd q prev x = some (x.1, (Py.pyInt (x.2 / q) - ((natLookup prev x.1 0 : Nat) : Int)).toNat) := by
                unfold hareAdd; rw [if_pos hful]; simp only; rw [if_pos hadd]
              rw [this]; simp
            · intro p hp hf
              rcases List.mem_cons.mp hp with rfl | hp'
              · exact hq
              · exact h2 p hp' hf
        · rw [if_neg hadd] at h
          obtain ⟨h1, h2⟩ := ih _ h
          refine ⟨?_, ?_⟩
          · rw [h1, List.filterMap_cons]
            have : hareAdd q prev x = none := by
              unfold hareAdd; rw [if_pos hful]; simp only; rw [if_neg hadd]
            rw [this]
          · intro p hp hf
            rcases List.mem_cons.mp hp with rfl | hp'
            · exact hq
            · exact h2 p hp' hf
    · rw [if_neg hful] at h
      obtain ⟨h1, h2⟩ := ih _ h
      refine ⟨?_, ?_⟩
      · rw [h1, List.filterMap_cons]
        have : hareAdd q prev x = none := by unfold hareAdd; rw [if_neg hful]
        rw [this]
      · intro p hp hf
        rcases List.mem_cons.mp hp with rfl | hp'
        · exact absurd hf hful
        · exact h2 p hp' hf

/-! ### arithmetic of the Hare quota -/

def hareContrib (q : Rat) (prev : Seats) (p : Cand × Rat) : Nat :=
  match hareAdd q prev p with
  | some a => a.2
  | none => 0

theorem sumSeats_filterMap_hareAdd (q : Rat) (prev : Seats) (l : Votes) :
    sumSeats (l.filterMap (hareAdd q prev)) = (l.map (hareContrib q prev)).sum := by
  unfold sumSeats
  induction l with
  | nil => rfl
  | cons x xs ih =>
    rw [List.filterMap_cons]
    unfold hareContrib at ih ⊢
    cases hx : hareAdd q prev x with
    | none => simp only [List.map_cons, List.sum_cons, hx, Nat.zero_add]; exact ih
    | some a => simp only [List.map_cons, List.sum_cons, hx]; rw [ih]

theorem pyInt_nonneg_eq_floor (r : Rat) (h : 0 ≤ r) : Py.pyInt r = ⌊r⌋ := by
  unfold Py.pyInt
  rw [if_pos h]
  rfl

/-- whole quotas are covered: what the pass adds plus the previous gains is at least `⌊v/q⌋` -/
theorem hareContrib_ge (q : Rat) (hq : 0 < q) (prev : Seats) (p : Cand × Rat) (hp : 0 ≤ p.2) :
    ⌊p.2 / q⌋ ≤ (hareContrib q prev p : Int) + (natLookup prev p.1 0 : Nat) := by
  have hdiv : 0 ≤ p.2 / q := div_nonneg hp (le_of_lt hq)
  unfold hareContrib hareAdd
  by_cases hful : q < p.2 ∨ p.2 = q
  · rw [if_pos hful]
    simp only
    rw [pyInt_nonneg_eq_floor _ hdiv]
    by_cases hadd : 0 < ⌊p.2 / q⌋ - ((natLookup prev p.1 0 : Nat) : Int)
    · rw [if_pos hadd]
      simp only
      omega
    · rw [if_neg hadd]
      simp only
      omega
  · rw [if_neg hful]
    simp only
    have hlt : p.2 / q < 1 := by
      rw [div_lt_one hq]
      rcases lt_trichotomy p.2 q with h | h | h
      · exact h
      · exact absurd (Or.inr h) hful
      · exact absurd (Or.inl h) hful
    have : ⌊p.2 / q⌋ < 1 := by
      rw [Int.floor_lt]; exact_mod_cast hlt
    omega

theorem sumVals_eq (votes : Votes) : sumVals votes = (votes.map (·.2)).sum := by
  unfold sumVals
  have : ∀ (a : Rat), votes.foldl (fun acc p => acc + p.2) a = a + (votes.map (·.2)).sum := by
    induction votes with
    | nil => intro a; simp
    | cons x xs ih => intro a; simp only [List.foldl_cons, List.map_cons, List.sum_cons]; rw [ih]; ring
  rw [this]; ring

/-- the whole Hare quotas of `m` parties sum to more than `n - m` -/
theorem hare_floor_sum (votes : Votes) (hne : votes ≠ []) (n : Nat) (q : Rat) (hq : 0 < q) (hT : sumVals votes = q * n) :
    (n : Int) < (votes.map (fun p => ⌊p.2 / q⌋)).sum + votes.length := by
  have h1 : ((votes.map (fun p => p.2 / q)).sum : Rat) = n := by
    have : (votes.map (fun p => p.2 / q)).sum = (votes.map (·.2)).sum / q := by
      simp only [div_eq_mul_inv]
      exact List.sum_map_mul_right (l := votes) (f := fun p => p.2) (r := q⁻¹)
    rw [this, ← sumVals_eq, hT]
    field_simp
  have h2 : ∀ l : Votes, l ≠ [] → ((l.map (fun p => p.2 / q)).sum : Rat) < ((l.map (fun p => ⌊p.2 / q⌋)).sum : Int) + l.length := by
    intro l
    induction l with
    | nil => intro h; exact absurd rfl h
    | cons x xs ih =>
      intro _
      simp only [List.map_cons, List.sum_cons, List.length_cons]
      have hx := Int.lt_floor_add_one (x.2 / q)
      by_cases hxs : xs = []
      · subst hxs
        simp only [List.map_nil, List.sum_nil, List.length_nil]
        push_cast
        linarith
      · have := ih hxs
        push_cast at this ⊢
        linarith
  have := h2 votes hne
  rw [h1] at this
  exact_mod_cast this

/-! ### previous gains of distinct parties -/

theorem distGet_seatsToDist (prev : Seats) (c : Cand) : distGet (seatsToDist prev) (.cand c) = natLookup prev c 0 := by
  induction prev with
  | nil => rfl
  | cons x xs ih =>
    unfold seatsToDist at ih ⊢
    rw [List.map_cons, distGet_cons, natLookup_cons, ih]
    by_cases h : x.1 = c
    · simp [h]
    · simp [h]

theorem sum_lookup_le (prev : Seats) (K : List Cand) (hK : K.Nodup) :
    (K.map (fun c => natLookup prev c 0)).sum ≤ sumSeats prev := by
  have h := sum_floors_le (K.map (fun c => (Key.cand c, natLookup prev c 0)))
    (by
      rw [List.map_map]
      exact hK.map (fun a b h => by simpa using h))
    (seatsToDist prev)
    (by
      intro p hp
      obtain ⟨c, _, rfl⟩ := List.mem_map.mp hp
      simp only
      rw [distGet_seatsToDist])
  rw [sumDist_seatsToDist] at h
  unfold sumDist at h
  rw [List.map_map] at h
  exact h

/-! ### handing out the remainder seats -/

theorem sumDist_foldl_slots (best : List Slot) (qd : Dist) :
    sumDist (best.foldl incSlot qd) = sumDist qd + best.length := by
  induction best generalizing qd with
  | nil => simp
  | cons x xs ih =>
    rw [List.foldl_cons, ih, List.length_cons]
    cases x with
    | cand c =>
      have := sumDist_setK qd (.cand c) (distGet qd (.cand c) + 1)
      simp only [incSlot]
      omega
    | tie cs =>
      have := sumDist_setK qd (.tie (sortNat cs)) (distGet qd (.tie (sortNat cs)) + 1)
      simp only [incSlot]
      omega

theorem sum_int_split (votes : Votes) (f g : Cand × Rat → Nat) :
    (votes.map (fun p => (f p : Int) + (g p : Nat))).sum = (((votes.map f).sum + (votes.map g).sum : Nat) : Int) := by
  induction votes with
  | nil => simp
  | cons x xs ih =>
    simp only [List.map_cons, List.sum_cons]
    rw [ih]
    push_cast
    ring

/-- **`LargestRemainder('hare')` fills the house** (minimal model): non-negative votes, at least one party,
    previous gains that fit — whenever it answers, previous gains plus awarded seats are exactly `n`. -/
theorem lrHare_fills (votes : Votes) (hne : votes ≠ []) (hv : ∀ p ∈ votes, 0 ≤ p.2) (hn : (keys votes).Nodup)
    (n : Nat) (prev : Seats) (r : Dist) (h : lrHareEval votes n prev [] = .ok r) :
    sumSeats prev + sumDist r = n := by
  unfold lrHareEval at h
  simp only [ne_eq, not_true_eq_false, ↓reduceIte, bind, Except.bind] at h
  cases hqe : hareQuotaSeats votes n prev with
  | error e => rw [hqe] at h; simp at h
  | ok qe =>
    rw [hqe] at h
    simp only at h
    unfold hareQuotaSeats at hqe
    by_cases hn0 : n = 0
    · rw [if_pos hn0] at hqe; simp at hqe
    · rw [if_neg hn0] at hqe
      simp only at hqe
      obtain ⟨hqeq, hqne⟩ := hareQuota_foldl (sumVals votes / (n : Rat)) n prev votes [] qe hqe
      rw [List.nil_append] at hqeq
      by_cases hover : n < sumSeats qe + sumSeats prev
      · rw [if_pos hover] at h; simp at h
      · rw [if_neg hover] at h
        simp only [pure, Except.pure, Except.ok.injEq] at h
        rw [← h, sumDist_foldl_slots, sumDist_seatsToDist]
        by_cases hrem : n - (sumSeats qe + sumSeats prev) = 0
        · rw [if_pos hrem]
          simp only [List.length_nil]
          omega
        · rw [if_neg hrem]
          have hTnn : 0 ≤ sumVals votes := by
            rw [sumVals_eq]
            apply List.sum_nonneg
            intro x hx
            obtain ⟨p, hp, rfl⟩ := List.mem_map.mp hx
            exact hv p hp
          have hnpos : (0 : Rat) < n := by exact_mod_cast Nat.pos_of_ne_zero hn0
          have hq0 : 0 ≤ sumVals votes / (n : Rat) := div_nonneg hTnn (le_of_lt hnpos)
          have hqpos : 0 < sumVals votes / (n : Rat) := by
            rcases lt_or_eq_of_le hq0 with hlt | heq
            · exact hlt
            · exfalso
              obtain ⟨p0, hp0⟩ := List.exists_mem_of_ne_nil _ hne
              have hp0nn := hv p0 hp0
              have : sumVals votes / (n : Rat) < p0.2 ∨ p0.2 = sumVals votes / (n : Rat) := by
                rw [← heq]
                rcases lt_or_eq_of_le hp0nn with h1 | h1
                · exact Or.inl h1
                · exact Or.inr h1.symm
              exact hqne p0 hp0 this heq.symm
          have hT : sumVals votes = sumVals votes / (n : Rat) * n := by field_simp
          have hfs := hare_floor_sum votes hne n _ hqpos hT
          have hcov : (votes.map (fun p => ⌊p.2 / (sumVals votes / (n : Rat))⌋)).sum
              ≤ ((sumSeats qe + sumSeats prev : Nat) : Int) := by
            have h1 : (votes.map (fun p => ⌊p.2 / (sumVals votes / (n : Rat))⌋)).sum
                ≤ (votes.map (fun p => (hareContrib (sumVals votes / (n : Rat)) prev p : Int)
                    + (natLookup prev p.1 0 : Nat))).sum :=
              List.sum_le_sum (fun p hp => hareContrib_ge _ hqpos prev p (hv p hp))
            rw [sum_int_split] at h1
            have h3 : (votes.map (hareContrib (sumVals votes / (n : Rat)) prev)).sum = sumSeats qe := by
              rw [hqeq, sumSeats_filterMap_hareAdd]
            have h4 : (votes.map (fun p => natLookup prev p.1 0)).sum ≤ sumSeats prev := by
              have := sum_lookup_le prev (keys votes) hn
              unfold keys at this
              rw [List.map_map] at this
              exact this
            rw [h3] at h1
            have : (((sumSeats qe + (votes.map (fun p => natLookup prev p.1 0)).sum : Nat)) : Int)
                ≤ ((sumSeats qe + sumSeats prev : Nat) : Int) := by exact_mod_cast Nat.add_le_add_left h4 _
            exact le_trans h1 this
          have hlen : n - (sumSeats qe + sumSeats prev) ≤ votes.length := by
            have : (n : Int) < ((sumSeats qe + sumSeats prev : Nat) : Int) + votes.length := lt_of_lt_of_le hfs (by linarith)
            omega
          rw [C09.getNBest_length _ _ (by omega) (by rw [List.length_map]; exact hlen)]
          omega


/-! ### distinct result keys -/

theorem mem_keys_setK (d : Dist) (k : Key) (v : Nat) (x : Key) :
    x ∈ (setK d k v).map (·.1) ↔ x ∈ d.map (·.1) ∨ x = k := by
  induction d with
  | nil => simp [setK]
  | cons p ps ih =>
    simp only [setK]
    by_cases hp : p.1 = k
    · rw [if_pos hp]
      simp only [List.map_cons, List.mem_cons, hp]
      constructor
      · rintro (h | h)
        · exact Or.inr h
        · exact Or.inl (Or.inr h)
      · rintro ((h | h) | h)
        · exact Or.inl h
        · exact Or.inr h
        · exact Or.inl h
    · rw [if_neg hp]
      simp only [List.map_cons, List.mem_cons, ih]
      constructor
      · rintro (h | h | h)
        · exact Or.inl (Or.inl h)
        · exact Or.inl (Or.inr h)
        · exact Or.inr h
      · rintro ((h | h) | h)
        · exact Or.inl h
        · exact Or.inr (Or.inl h)
        · exact Or.inr (Or.inr h)

theorem setK_keys_nodup (d : Dist) (k : Key) (v : Nat) (h : (d.map (·.1)).Nodup) : ((setK d k v).map (·.1)).Nodup := by
  induction d with
  | nil => simp [setK]
  | cons p ps ih =>
    rw [List.map_cons, List.nodup_cons] at h
    simp only [setK]
    by_cases hp : p.1 = k
    · rw [if_pos hp, List.map_cons, List.nodup_cons]
      simp only
      rw [← hp]
      exact h
    · rw [if_neg hp, List.map_cons, List.nodup_cons]
      refine ⟨?_, ih h.2⟩
      rw [mem_keys_setK]
      rintro (hm | he)
      · exact h.1 hm
      · exact hp he

theorem foldl_incSlot_nodup (best : List Slot) (qd : Dist) (h : (qd.map (·.1)).Nodup) :
    ((best.foldl incSlot qd).map (·.1)).Nodup := by
  induction best generalizing qd with
  | nil => exact h
  | cons x xs ih =>
    rw [List.foldl_cons]
    apply ih
    cases x <;> exact setK_keys_nodup _ _ _ h

theorem hareAdd_keys_sublist (q : Rat) (prev : Seats) (l : Votes) :
    ((l.filterMap (hareAdd q prev)).map (·.1)).Sublist (l.map (·.1)) := by
  induction l with
  | nil => simp
  | cons x xs ih =>
    rw [List.filterMap_cons]
    cases hx : hareAdd q prev x with
    | none => simp only [List.map_cons]; exact ih.cons _
    | some a =>
      have ha : a.1 = x.1 := by
        unfold hareAdd at hx
        split at hx
        · simp only at hx
          split at hx
          · simp only [Option.some.injEq] at hx; rw [← hx]
          · simp at hx
        · simp at hx
      simp only [List.map_cons, ha]
      exact ih.cons_cons _

/-- the result keys of the largest-remainder model are pairwise distinct -/
theorem lrHare_nodup (votes : Votes) (hn : (keys votes).Nodup) (n : Nat) (prev caps : Seats) (r : Dist)
    (h : lrHareEval votes n prev caps = .ok r) : (r.map (·.1)).Nodup := by
  unfold lrHareEval at h
  split at h
  · simp at h
  · simp only [bind, Except.bind] at h
    cases hqe : hareQuotaSeats votes n prev with
    | error e => rw [hqe] at h; simp at h
    | ok qe =>
      rw [hqe] at h
      simp only at h
      split at h
      · simp at h
      · simp only [pure, Except.pure, Except.ok.injEq] at h
        rw [← h]
        apply foldl_incSlot_nodup
        unfold hareQuotaSeats at hqe
        split at hqe
        · simp at hqe
        · simp only at hqe
          obtain ⟨hqeq, _⟩ := hareQuota_foldl _ n prev votes [] qe hqe
          rw [List.nil_append] at hqeq
          have hsub := hareAdd_keys_sublist (sumVals votes / (n : Rat)) prev votes
          rw [← hqeq] at hsub
          have hnd : (qe.map (·.1)).Nodup := hsub.nodup hn
          have hk : (seatsToDist qe).map (·.1) = (qe.map (·.1)).map Key.cand := by
            unfold seatsToDist
            rw [List.map_map, List.map_map]
            rfl
          rw [hk]
          exact hnd.map (fun a b hab => by cases hab; rfl)

/-! ### the two-stage wrapper with a duplicate-free direct-seat map -/

theorem setK_of_not_mem (d : Dist) (k : Key) (v : Nat) (h : k ∉ d.map (·.1)) : setK d k v = d ++ [(k, v)] := by
  induction d with
  | nil => rfl
  | cons p ps ih =>
    simp only [List.map_cons, List.mem_cons, not_or] at h
    simp only [setK]
    rw [if_neg (fun e => h.1 e.symm), ih h.2]
    rfl

theorem addDist_append_of_disjoint (acc l : Dist) (hl : (l.map (·.1)).Nodup)
    (hd : ∀ k ∈ l.map (·.1), k ∉ acc.map (·.1)) : addDist acc l = acc ++ l := by
  induction l generalizing acc with
  | nil => simp [addDist]
  | cons x xs ih =>
    rw [List.map_cons, List.nodup_cons] at hl
    have hx : x.1 ∉ acc.map (·.1) := hd x.1 (by simp)
    rw [addDist_cons, setK_of_not_mem _ _ _ hx, distGet_eq_zero_of_not_mem hx, Nat.zero_add]
    rw [ih (acc ++ [(x.1, x.2)]) hl.2]
    · simp
    · intro k hk
      simp only [List.map_append, List.map_cons, List.map_nil, List.mem_append, List.mem_singleton, not_or]
      exact ⟨hd k (by simp [hk]), fun e => hl.1 (e ▸ hk)⟩

theorem distToSeats_seatsToDist (s : Seats) : distToSeats (seatsToDist s) = some s := by
  induction s with
  | nil => rfl
  | cons x xs ih =>
    unfold seatsToDist at ih ⊢
    simp only [List.map_cons, distToSeats, ih, Option.map_some]

theorem distGet_addDist_nodup (d1 d2 : Dist) (h2 : (d2.map (·.1)).Nodup) (k : Key) :
    distGet (addDist d1 d2) k = distGet d1 k + distGet d2 k := by
  induction d2 generalizing d1 with
  | nil => simp [addDist, distGet]
  | cons x xs ih =>
    rw [List.map_cons, List.nodup_cons] at h2
    rw [addDist_cons, ih _ h2.2, distGet_setK, distGet_cons]
    by_cases hk : x.1 = k
    · rw [if_pos hk, if_pos hk]
      have : distGet xs k = 0 := distGet_eq_zero_of_not_mem (by rw [← hk]; exact h2.1)
      rw [hk] 
      omega
    · rw [if_neg hk, if_neg hk]


end VL.OH
