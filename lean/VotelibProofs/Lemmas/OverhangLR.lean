/-
  The minimal model of `LargestRemainder('hare')` (VotelibModel/Overhang.lean, `lrHareEval`) fills the house:
  whole Hare quotas leave fewer remainder seats than there are parties, and `get_n_best` hands out exactly that many.
-/
import VotelibProofs.Lemmas.OverhangCont
import VotelibProofs.Props.C09
import Mathlib.Data.Rat.Floor
import Mathlib.Algebra.BigOperators.Ring.List
import Mathlib.Algebra.Order.Archimedean.Basic
namespace VL.OH
open VL

/-! ### the whole-quota pass as a pure function -/

/-- what one party contributes to `selected` in `QuotaDistributor.evaluate` (no error case) -/
def hareAdd (q : Rat) (prev : Seats) (p : Cand × Rat) : Option (Cand × Nat) :=
  if q < p.2 ∨ p.2 = q then
    let add : Int := Py.pyInt (p.2 / q) - (natLookup prev p.1 0 : Nat)
    if 0 < add then some (p.1, add.toNat) else none
  else none

/-- one step of the pass on a successful accumulator -/
theorem hareStep_ok (q : Rat) (prev : Seats) (sel : Seats) (p : Cand × Rat) :
    hareStep q prev (.ok sel) p =
      if q < p.2 ∨ p.2 = q then
        if q = 0 then .error zeroDiv else
        if 0 < Py.pyInt (p.2 / q) - ((natLookup prev p.1 0 : Nat) : Int) then
          .ok (sel ++ [(p.1, (Py.pyInt (p.2 / q) - ((natLookup prev p.1 0 : Nat) : Int)).toNat)])
        else .ok sel
      else .ok sel := rfl

theorem hareStep_error (q : Rat) (prev : Seats) (e : Err) (l : Votes) :
    l.foldl (hareStep q prev) (.error e) = .error e := by
  induction l with
  | nil => rfl
  | cons x xs ih => rw [List.foldl_cons]; exact ih

theorem hareAdd_of (q : Rat) (prev : Seats) (x : Cand × Rat) (hful : q < x.2 ∨ x.2 = q) :
    hareAdd q prev x =
      if 0 < Py.pyInt (x.2 / q) - ((natLookup prev x.1 0 : Nat) : Int)
      then some (x.1, (Py.pyInt (x.2 / q) - ((natLookup prev x.1 0 : Nat) : Int)).toNat) else none := by
  unfold hareAdd; rw [if_pos hful]

theorem hareQuota_foldl (q : Rat) (prev : Seats) (l : Votes) (acc qe : Seats)
    (h : l.foldl (hareStep q prev) (.ok acc) = .ok qe) :
    qe = acc ++ l.filterMap (hareAdd q prev) ∧ (∀ p ∈ l, (q < p.2 ∨ p.2 = q) → q ≠ 0) := by
  induction l generalizing acc with
  | nil =>
    simp only [List.foldl_nil, Except.ok.injEq] at h
    simp [h]
  | cons x xs ih =>
    rw [List.foldl_cons, hareStep_ok] at h
    by_cases hful : q < x.2 ∨ x.2 = q
    · rw [if_pos hful] at h
      by_cases hq : q = 0
      · rw [if_pos hq, hareStep_error] at h
        simp at h
      · rw [if_neg hq] at h
        by_cases hadd : 0 < Py.pyInt (x.2 / q) - ((natLookup prev x.1 0 : Nat) : Int)
        · rw [if_pos hadd] at h
          obtain ⟨h1, h2⟩ := ih _ h
          refine ⟨?_, ?_⟩
          · rw [h1, List.filterMap_cons, hareAdd_of q prev x hful, if_pos hadd]; simp
          · intro p hp hf
            rcases List.mem_cons.mp hp with rfl | hp'
            · exact hq
            · exact h2 p hp' hf
        · rw [if_neg hadd] at h
          obtain ⟨h1, h2⟩ := ih _ h
          refine ⟨?_, ?_⟩
          · rw [h1, List.filterMap_cons, hareAdd_of q prev x hful, if_neg hadd]
          · intro p hp hf
            rcases List.mem_cons.mp hp with rfl | hp'
            · exact hq
            · exact h2 p hp' hf
    · rw [if_neg hful] at h
      obtain ⟨h1, h2⟩ := ih _ h
      refine ⟨?_, ?_⟩
      · rw [h1, List.filterMap_cons]
        have : hareAdd q prev x = none := by unfold hareAdd; rw [if_neg hful]
        rw [this]
      · intro p hp hf
        rcases List.mem_cons.mp hp with rfl | hp'
        · exact absurd hf hful
        · exact h2 p hp' hf

/-- the whole-quota pass succeeds when the quota is non-zero -/
theorem hareQuota_foldl_ok (q : Rat) (hq : q ≠ 0) (prev : Seats) (l : Votes) (acc : Seats) :
    l.foldl (hareStep q prev) (.ok acc) = .ok (acc ++ l.filterMap (hareAdd q prev)) := by
  induction l generalizing acc with
  | nil => simp
  | cons x xs ih =>
    rw [List.foldl_cons, hareStep_ok]
    by_cases hful : q < x.2 ∨ x.2 = q
    · rw [if_pos hful, if_neg hq]
      by_cases hadd : 0 < Py.pyInt (x.2 / q) - ((natLookup prev x.1 0 : Nat) : Int)
      · rw [if_pos hadd, ih, List.filterMap_cons, hareAdd_of q prev x hful, if_pos hadd]; simp
      · rw [if_neg hadd, ih, List.filterMap_cons, hareAdd_of q prev x hful, if_neg hadd]
    · rw [if_neg hful, ih, List.filterMap_cons]
      have : hareAdd q prev x = none := by unfold hareAdd; rw [if_neg hful]
      rw [this]

theorem hareQuotaSeats_ok (votes : Votes) (n : Nat) (prev qe : Seats) (h : hareQuotaSeats votes n prev = .ok qe) :
    n ≠ 0 ∧ 0 < sumVals votes / (n : Rat) ∧
      votes.foldl (hareStep (sumVals votes / (n : Rat)) prev) (.ok []) = .ok qe := by
  unfold hareQuotaSeats at h
  by_cases hn0 : n = 0
  · rw [if_pos hn0] at h; cases h
  · rw [if_neg hn0] at h
    by_cases hq : sumVals votes / (n : Rat) ≤ 0
    · rw [if_pos hq] at h; cases h
    · rw [if_neg hq] at h
      exact ⟨hn0, not_le.mp hq, h⟩

theorem hareQuotaSeats_of_pos (votes : Votes) (n : Nat) (prev : Seats) (hn : n ≠ 0)
    (hq : 0 < sumVals votes / (n : Rat)) :
    hareQuotaSeats votes n prev = votes.foldl (hareStep (sumVals votes / (n : Rat)) prev) (.ok []) := by
  unfold hareQuotaSeats
  rw [if_neg hn, if_neg (not_le.mpr hq)]

/-! ### arithmetic of the Hare quota -/

def hareContrib (q : Rat) (prev : Seats) (p : Cand × Rat) : Nat :=
  match hareAdd q prev p with
  | some a => a.2
  | none => 0

theorem sumSeats_filterMap_hareAdd (q : Rat) (prev : Seats) (l : Votes) :
    sumSeats (l.filterMap (hareAdd q prev)) = (l.map (hareContrib q prev)).sum := by
  unfold sumSeats
  induction l with
  | nil => rfl
  | cons x xs ih =>
    rw [List.filterMap_cons]
    unfold hareContrib at ih ⊢
    cases hx : hareAdd q prev x with
    | none => simp only [List.map_cons, List.sum_cons, hx, Nat.zero_add]; exact ih
    | some a => simp only [List.map_cons, List.sum_cons, hx]; rw [ih]

theorem pyInt_nonneg_eq_floor (r : Rat) (h : 0 ≤ r) : Py.pyInt r = ⌊r⌋ := by
  unfold Py.pyInt
  rw [if_pos h]
  rfl

/-- whole quotas are covered: what the pass adds plus the previous gains is at least `⌊v/q⌋` -/
theorem hareContrib_ge (q : Rat) (hq : 0 < q) (prev : Seats) (p : Cand × Rat) (hp : 0 ≤ p.2) :
    ⌊p.2 / q⌋ ≤ (hareContrib q prev p : Int) + (natLookup prev p.1 0 : Nat) := by
  have hdiv : 0 ≤ p.2 / q := div_nonneg hp (le_of_lt hq)
  unfold hareContrib hareAdd
  by_cases hful : q < p.2 ∨ p.2 = q
  · rw [if_pos hful]
    simp only
    rw [pyInt_nonneg_eq_floor _ hdiv]
    by_cases hadd : 0 < ⌊p.2 / q⌋ - ((natLookup prev p.1 0 : Nat) : Int)
    · rw [if_pos hadd]
      simp only
      omega
    · rw [if_neg hadd]
      simp only
      omega
  · rw [if_neg hful]
    simp only
    have hlt : p.2 / q < 1 := by
      rw [div_lt_one hq]
      rcases lt_trichotomy p.2 q with h | h | h
      · exact h
      · exact absurd (Or.inr h) hful
      · exact absurd (Or.inl h) hful
    have : ⌊p.2 / q⌋ < 1 := by
      rw [Int.floor_lt]; exact_mod_cast hlt
    omega

theorem sumVals_eq (votes : Votes) : sumVals votes = (votes.map (·.2)).sum := by
  unfold sumVals
  have : ∀ (a : Rat), votes.foldl (fun acc p => acc + p.2) a = a + (votes.map (·.2)).sum := by
    induction votes with
    | nil => intro a; simp
    | cons x xs ih => intro a; simp only [List.foldl_cons, List.map_cons, List.sum_cons]; rw [ih]; ring
  rw [this]; ring

/-- the whole Hare quotas of `m` parties sum to more than `n - m` -/
theorem hare_floor_sum (votes : Votes) (hne : votes ≠ []) (n : Nat) (q : Rat) (hq : 0 < q) (hT : sumVals votes = q * n) :
    (n : Int) < (votes.map (fun p => ⌊p.2 / q⌋)).sum + votes.length := by
  have h1 : ((votes.map (fun p => p.2 / q)).sum : Rat) = n := by
    have : (votes.map (fun p => p.2 / q)).sum = (votes.map (·.2)).sum / q := by
      simp only [div_eq_mul_inv]
      exact List.sum_map_mul_right (l := votes) (f := fun p => p.2) (r := q⁻¹)
    rw [this, ← sumVals_eq, hT]
    field_simp
  have h2 : ∀ l : Votes, l ≠ [] → ((l.map (fun p => p.2 / q)).sum : Rat) < ((l.map (fun p => ⌊p.2 / q⌋)).sum : Int) + l.length := by
    intro l
    induction l with
    | nil => intro h; exact absurd rfl h
    | cons x xs ih =>
      intro _
      simp only [List.map_cons, List.sum_cons, List.length_cons]
      have hx := Int.lt_floor_add_one (x.2 / q)
      by_cases hxs : xs = []
      · subst hxs
        simp only [List.map_nil, List.sum_nil, List.length_nil]
        push_cast
        linarith
      · have := ih hxs
        push_cast at this ⊢
        linarith
  have := h2 votes hne
  rw [h1] at this
  exact_mod_cast this

/-! ### previous gains of distinct parties -/

theorem distGet_seatsToDist (prev : Seats) (c : Cand) : distGet (seatsToDist prev) (.cand c) = natLookup prev c 0 := by
  induction prev with
  | nil => rfl
  | cons x xs ih =>
    unfold seatsToDist at ih ⊢
    rw [List.map_cons, distGet_cons, natLookup_cons, ih]
    by_cases h : x.1 = c
    · simp [h]
    · simp [h]

theorem sum_lookup_le (prev : Seats) (K : List Cand) (hK : K.Nodup) :
    (K.map (fun c => natLookup prev c 0)).sum ≤ sumSeats prev := by
  have h := sum_floors_le (K.map (fun c => (Key.cand c, natLookup prev c 0)))
    (by
      rw [List.map_map]
      exact hK.map (fun a b h => by simpa using h))
    (seatsToDist prev)
    (by
      intro p hp
      obtain ⟨c, _, rfl⟩ := List.mem_map.mp hp
      simp only
      rw [distGet_seatsToDist])
  rw [sumDist_seatsToDist] at h
  unfold sumDist at h
  rw [List.map_map] at h
  exact h

/-! ### handing out the remainder seats -/

theorem sumDist_foldl_slots (best : List Slot) (qd : Dist) :
    sumDist (best.foldl incSlot qd) = sumDist qd + best.length := by
  induction best generalizing qd with
  | nil => simp
  | cons x xs ih =>
    rw [List.foldl_cons, ih, List.length_cons]
    cases x with
    | cand c =>
      have := sumDist_setK qd (.cand c) (distGet qd (.cand c) + 1)
      simp only [incSlot]
      omega
    | tie cs =>
      have := sumDist_setK qd (.tie (sortNat cs)) (distGet qd (.tie (sortNat cs)) + 1)
      simp only [incSlot]
      omega

theorem sum_int_split (votes : Votes) (f g : Cand × Rat → Nat) :
    (votes.map (fun p => (f p : Int) + (g p : Nat))).sum = (((votes.map f).sum + (votes.map g).sum : Nat) : Int) := by
  induction votes with
  | nil => simp
  | cons x xs ih =>
    simp only [List.map_cons, List.sum_cons]
    rw [ih]
    push_cast
    ring

/-- **`LargestRemainder('hare')` fills the house** (minimal model): non-negative votes, at least one party,
    previous gains that fit — whenever it answers, previous gains plus awarded seats are exactly `n`. -/
theorem lrHare_fills (votes : Votes) (hne : votes ≠ []) (hv : ∀ p ∈ votes, 0 ≤ p.2) (hn : (keys votes).Nodup)
    (n : Nat) (prev : Seats) (r : Dist) (h : lrHareEval votes n prev [] = .ok r) :
    sumSeats prev + sumDist r = n := by
  unfold lrHareEval at h
  simp only [ne_eq, not_true_eq_false, ↓reduceIte, bind, Except.bind] at h
  cases hqe : hareQuotaSeats votes n prev with
  | error e => rw [hqe] at h; simp at h
  | ok qe =>
    rw [hqe] at h
    simp only at h
    obtain ⟨hn0, _, hqe⟩ := hareQuotaSeats_ok votes n prev qe hqe
    by_cases hn0' : n = 0
    · exact absurd hn0' hn0
    · obtain ⟨hqeq, hqne⟩ := hareQuota_foldl (sumVals votes / (n : Rat)) prev votes [] qe hqe
      rw [List.nil_append] at hqeq
      by_cases hover : n < sumSeats qe + sumSeats prev
      · rw [if_pos hover] at h; simp at h
      · rw [if_neg hover] at h
        simp only [pure, Except.pure, Except.ok.injEq] at h
        rw [← h, sumDist_foldl_slots, sumDist_seatsToDist]
        by_cases hrem : n - (sumSeats qe + sumSeats prev) = 0
        · rw [if_pos hrem]
          simp only [List.length_nil]
          omega
        · rw [if_neg hrem]
          have hTnn : 0 ≤ sumVals votes := by
            rw [sumVals_eq]
            apply List.sum_nonneg
            intro x hx
            obtain ⟨p, hp, rfl⟩ := List.mem_map.mp hx
            exact hv p hp
          have hnpos : (0 : Rat) < n := by exact_mod_cast Nat.pos_of_ne_zero hn0
          have hq0 : 0 ≤ sumVals votes / (n : Rat) := div_nonneg hTnn (le_of_lt hnpos)
          have hqpos : 0 < sumVals votes / (n : Rat) := by
            rcases lt_or_eq_of_le hq0 with hlt | heq
            · exact hlt
            · exfalso
              obtain ⟨p0, hp0⟩ := List.exists_mem_of_ne_nil _ hne
              have hp0nn := hv p0 hp0
              have : sumVals votes / (n : Rat) < p0.2 ∨ p0.2 = sumVals votes / (n : Rat) := by
                rw [← heq]
                rcases lt_or_eq_of_le hp0nn with h1 | h1
                · exact Or.inl h1
                · exact Or.inr h1.symm
              exact hqne p0 hp0 this heq.symm
          have hT : sumVals votes = sumVals votes / (n : Rat) * n := by field_simp
          have hfs := hare_floor_sum votes hne n _ hqpos hT
          have hcov : (votes.map (fun p => ⌊p.2 / (sumVals votes / (n : Rat))⌋)).sum
              ≤ ((sumSeats qe + sumSeats prev : Nat) : Int) := by
            have h1 : (votes.map (fun p => ⌊p.2 / (sumVals votes / (n : Rat))⌋)).sum
                ≤ (votes.map (fun p => (hareContrib (sumVals votes / (n : Rat)) prev p : Int)
                    + (natLookup prev p.1 0 : Nat))).sum :=
              List.sum_le_sum (fun p hp => hareContrib_ge _ hqpos prev p (hv p hp))
            rw [sum_int_split] at h1
            have h3 : (votes.map (hareContrib (sumVals votes / (n : Rat)) prev)).sum = sumSeats qe := by
              rw [hqeq, sumSeats_filterMap_hareAdd]
            have h4 : (votes.map (fun p => natLookup prev p.1 0)).sum ≤ sumSeats prev := by
              have := sum_lookup_le prev (keys votes) hn
              unfold keys at this
              rw [List.map_map] at this
              exact this
            rw [h3] at h1
            have : (((sumSeats qe + (votes.map (fun p => natLookup prev p.1 0)).sum : Nat)) : Int)
                ≤ ((sumSeats qe + sumSeats prev : Nat) : Int) := by exact_mod_cast Nat.add_le_add_left h4 _
            exact le_trans h1 this
          have hlen : n - (sumSeats qe + sumSeats prev) ≤ votes.length := by
            have : (n : Int) < ((sumSeats qe + sumSeats prev : Nat) : Int) + votes.length := lt_of_lt_of_le hfs (by linarith)
            omega
          rw [C09.getNBest_length _ _ (by omega) (by rw [List.length_map]; exact hlen)]
          omega


/-! ### distinct result keys -/

theorem mem_keys_setK (d : Dist) (k : Key) (v : Nat) (x : Key) :
    x ∈ (setK d k v).map (·.1) ↔ x ∈ d.map (·.1) ∨ x = k := by
  induction d with
  | nil => simp [setK]
  | cons p ps ih =>
    simp only [setK]
    by_cases hp : p.1 = k
    · rw [if_pos hp]
      simp only [List.map_cons, List.mem_cons, hp]
      constructor
      · rintro (h | h)
        · exact Or.inr h
        · exact Or.inl (Or.inr h)
      · rintro ((h | h) | h)
        · exact Or.inl h
        · exact Or.inr h
        · exact Or.inl h
    · rw [if_neg hp]
      simp only [List.map_cons, List.mem_cons, ih]
      constructor
      · rintro (h | h | h)
        · exact Or.inl (Or.inl h)
        · exact Or.inl (Or.inr h)
        · exact Or.inr h
      · rintro ((h | h) | h)
        · exact Or.inl h
        · exact Or.inr (Or.inl h)
        · exact Or.inr (Or.inr h)

theorem setK_keys_nodup (d : Dist) (k : Key) (v : Nat) (h : (d.map (·.1)).Nodup) : ((setK d k v).map (·.1)).Nodup := by
  induction d with
  | nil => simp [setK]
  | cons p ps ih =>
    rw [List.map_cons, List.nodup_cons] at h
    simp only [setK]
    by_cases hp : p.1 = k
    · rw [if_pos hp, List.map_cons, List.nodup_cons]
      simp only
      rw [← hp]
      exact h
    · rw [if_neg hp, List.map_cons, List.nodup_cons]
      refine ⟨?_, ih h.2⟩
      rw [mem_keys_setK]
      rintro (hm | he)
      · exact h.1 hm
      · exact hp he

theorem foldl_incSlot_nodup (best : List Slot) (qd : Dist) (h : (qd.map (·.1)).Nodup) :
    ((best.foldl incSlot qd).map (·.1)).Nodup := by
  induction best generalizing qd with
  | nil => exact h
  | cons x xs ih =>
    rw [List.foldl_cons]
    apply ih
    cases x <;> exact setK_keys_nodup _ _ _ h

theorem hareAdd_keys_sublist (q : Rat) (prev : Seats) (l : Votes) :
    ((l.filterMap (hareAdd q prev)).map (·.1)).Sublist (l.map (·.1)) := by
  induction l with
  | nil => simp
  | cons x xs ih =>
    rw [List.filterMap_cons]
    cases hx : hareAdd q prev x with
    | none => simp only [List.map_cons]; exact ih.cons _
    | some a =>
      have ha : a.1 = x.1 := by
        unfold hareAdd at hx
        split at hx
        · simp only at hx
          split at hx
          · simp only [Option.some.injEq] at hx; rw [← hx]
          · simp at hx
        · simp at hx
      simp only [List.map_cons, ha]
      exact ih.cons_cons _

/-- the result keys of the largest-remainder model are pairwise distinct -/
theorem lrHare_nodup (votes : Votes) (hn : (keys votes).Nodup) (n : Nat) (prev caps : Seats) (r : Dist)
    (h : lrHareEval votes n prev caps = .ok r) : (r.map (·.1)).Nodup := by
  unfold lrHareEval at h
  split at h
  · simp at h
  · simp only [bind, Except.bind] at h
    cases hqe : hareQuotaSeats votes n prev with
    | error e => rw [hqe] at h; simp at h
    | ok qe =>
      rw [hqe] at h
      simp only at h
      split at h
      · simp at h
      · simp only [pure, Except.pure, Except.ok.injEq] at h
        rw [← h]
        apply foldl_incSlot_nodup
        obtain ⟨_, _, hqe⟩ := hareQuotaSeats_ok votes n prev qe hqe
        by_cases hdummy : False
        · exact hdummy.elim
        · obtain ⟨hqeq, _⟩ := hareQuota_foldl _ prev votes [] qe hqe
          rw [List.nil_append] at hqeq
          have hsub := hareAdd_keys_sublist (sumVals votes / (n : Rat)) prev votes
          rw [← hqeq] at hsub
          have hnd : (qe.map (·.1)).Nodup := hsub.nodup hn
          have hk : (seatsToDist qe).map (·.1) = (qe.map (·.1)).map Key.cand := by
            unfold seatsToDist
            rw [List.map_map, List.map_map]
            rfl
          rw [hk]
          exact hnd.map (fun a b hab => by cases hab; rfl)

/-! ### the two-stage wrapper with a duplicate-free direct-seat map -/

theorem setK_of_not_mem (d : Dist) (k : Key) (v : Nat) (h : k ∉ d.map (·.1)) : setK d k v = d ++ [(k, v)] := by
  induction d with
  | nil => rfl
  | cons p ps ih =>
    simp only [List.map_cons, List.mem_cons, not_or] at h
    simp only [setK]
    rw [if_neg (fun e => h.1 e.symm), ih h.2]
    rfl

theorem addDist_append_of_disjoint (acc l : Dist) (hl : (l.map (·.1)).Nodup)
    (hd : ∀ k ∈ l.map (·.1), k ∉ acc.map (·.1)) : addDist acc l = acc ++ l := by
  induction l generalizing acc with
  | nil => simp [addDist]
  | cons x xs ih =>
    rw [List.map_cons, List.nodup_cons] at hl
    have hx : x.1 ∉ acc.map (·.1) := hd x.1 (by simp)
    rw [addDist_cons, setK_of_not_mem _ _ _ hx, distGet_eq_zero_of_not_mem hx, Nat.zero_add]
    rw [ih (acc ++ [(x.1, x.2)]) hl.2]
    · simp
    · intro k hk
      simp only [List.map_append, List.map_cons, List.map_nil, List.mem_append, List.mem_singleton, not_or]
      exact ⟨hd k (by simp [hk]), fun e => hl.1 (e ▸ hk)⟩

theorem distToSeats_seatsToDist (s : Seats) : distToSeats (seatsToDist s) = some s := by
  induction s with
  | nil => rfl
  | cons x xs ih =>
    unfold seatsToDist at ih ⊢
    simp only [List.map_cons, distToSeats, ih, Option.map_some]

theorem distGet_addDist_nodup (d1 d2 : Dist) (h2 : (d2.map (·.1)).Nodup) (k : Key) :
    distGet (addDist d1 d2) k = distGet d1 k + distGet d2 k := by
  induction d2 generalizing d1 with
  | nil => simp [addDist, distGet]
  | cons x xs ih =>
    rw [List.map_cons, List.nodup_cons] at h2
    rw [addDist_cons, ih _ h2.2, distGet_setK, distGet_cons]
    by_cases hk : x.1 = k
    · rw [if_pos hk, if_pos hk]
      have : distGet xs k = 0 := distGet_eq_zero_of_not_mem (by rw [← hk]; exact h2.1)
      rw [hk] 
      omega
    · rw [if_neg hk, if_neg hk]


/-! ### the model answers for every house size; whole quotas grow without bound -/

theorem hareContrib_le_floor (q : Rat) (hq : 0 < q) (p : Cand × Rat) (hp : 0 ≤ p.2) :
    (hareContrib q [] p : Int) ≤ ⌊p.2 / q⌋ := by
  have hdiv : 0 ≤ p.2 / q := div_nonneg hp (le_of_lt hq)
  have hfl : 0 ≤ ⌊p.2 / q⌋ := Int.floor_nonneg.mpr hdiv
  unfold hareContrib hareAdd
  by_cases hful : q < p.2 ∨ p.2 = q
  · rw [if_pos hful]
    simp only
    rw [pyInt_nonneg_eq_floor _ hdiv]
    have h0 : ((natLookup ([] : Seats) p.1 0 : Nat) : Int) = 0 := rfl
    by_cases hadd : 0 < ⌊p.2 / q⌋ - ((natLookup ([] : Seats) p.1 0 : Nat) : Int)
    · rw [if_pos hadd]; simp only; omega
    · rw [if_neg hadd]; simp only; omega
  · rw [if_neg hful]; simp only; omega

theorem natLookup_filterMap_hareAdd (q : Rat) (prev : Seats) (l : Votes) (hn : (l.map (·.1)).Nodup)
    (p : Cand × Rat) (hp : p ∈ l) :
    natLookup (l.filterMap (hareAdd q prev)) p.1 0 = hareContrib q prev p := by
  induction l with
  | nil => simp at hp
  | cons x xs ih =>
    rw [List.map_cons, List.nodup_cons] at hn
    rw [List.filterMap_cons]
    have hkey : ∀ a, hareAdd q prev x = some a → a.1 = x.1 := by
      intro a hx
      unfold hareAdd at hx
      split at hx
      · simp only at hx
        split at hx
        · simp only [Option.some.injEq] at hx; rw [← hx]
        · simp at hx
      · simp at hx
    rcases List.mem_cons.mp hp with rfl | hp'
    · unfold hareContrib
      cases hx : hareAdd q prev p with
      | none =>
        simp only
        apply natLookup_zero_of_not_mem
        intro hm
        have := (hareAdd_keys_sublist q prev xs).subset hm
        exact hn.1 this
      | some a =>
        simp only
        rw [natLookup_cons, if_pos (hkey a hx)]
    · have hne : x.1 ≠ p.1 := fun e => hn.1 (e ▸ List.mem_map.mpr ⟨p, hp', rfl⟩)
      cases hx : hareAdd q prev x with
      | none => simp only; exact ih hn.2 hp'
      | some a =>
        simp only
        rw [natLookup_cons, if_neg (by rw [hkey a hx]; exact hne)]
        exact ih hn.2 hp'

theorem distGet_incSlot_ge (acc : Dist) (s : Slot) (k : Key) : distGet acc k ≤ distGet (incSlot acc s) k := by
  cases s with
  | cand c =>
    simp only [incSlot]
    rw [distGet_setK]
    split
    · rename_i h; rw [← h]; omega
    · exact Nat.le_refl _
  | tie cs =>
    simp only [incSlot]
    rw [distGet_setK]
    split
    · rename_i h; rw [← h]; omega
    · exact Nat.le_refl _

theorem distGet_foldl_incSlot_ge (best : List Slot) (qd : Dist) (k : Key) :
    distGet qd k ≤ distGet (best.foldl incSlot qd) k := by
  induction best generalizing qd with
  | nil => exact Nat.le_refl _
  | cons x xs ih => rw [List.foldl_cons]; exact Nat.le_trans (distGet_incSlot_ge _ _ _) (ih _)

theorem cast_sum_map_nat (l : Votes) (f : Cand × Rat → Nat) :
    (((l.map f).sum : Nat) : Int) = (l.map (fun p => (f p : Int))).sum := by
  induction l with
  | nil => simp
  | cons x xs ih => simp only [List.map_cons, List.sum_cons]; push_cast; rw [← ih]

theorem floor_sum_le (q : Rat) (l : Votes) :
    (((l.map (fun p => ⌊p.2 / q⌋)).sum : Int) : Rat) ≤ (l.map (fun p => p.2 / q)).sum := by
  induction l with
  | nil => simp
  | cons x xs ih =>
    simp only [List.map_cons, List.sum_cons]
    push_cast
    have := Int.floor_le (x.2 / q)
    linarith

/-- **The largest-remainder model answers for every house size `h ≥ 1`** (no previous gains, positive total), and
    gives every party at least its whole Hare quotas. -/
theorem lrHare_answers (votes : Votes) (hv : ∀ p ∈ votes, 0 ≤ p.2) (hn : (keys votes).Nodup)
    (hT : 0 < sumVals votes) (h : Nat) (hh : 0 < h) :
    ∃ r, lrHareEval votes h [] [] = .ok r ∧
      ∀ p ∈ votes, ⌊p.2 / (sumVals votes / (h : Rat))⌋ ≤ (distGet r (.cand p.1) : Int) := by
  have hhpos : (0 : Rat) < h := by exact_mod_cast hh
  set q : Rat := sumVals votes / (h : Rat) with hqdef
  have hq : 0 < q := div_pos hT hhpos
  have hle : ∀ p ∈ votes, p.2 ≤ sumVals votes := by
    intro p hp
    rw [sumVals_eq]
    exact List.single_le_sum (fun x hx => by
      obtain ⟨y, hy, rfl⟩ := List.mem_map.mp hx; exact hv y hy) _ (List.mem_map.mpr ⟨p, hp, rfl⟩)
  have hfloor_le : ∀ p ∈ votes, ⌊p.2 / q⌋ ≤ (h : Int) := by
    intro p hp
    have : p.2 / q ≤ h := by
      rw [div_le_iff₀ hq, hqdef]
      have := hle p hp
      have e : (h : Rat) * (sumVals votes / h) = sumVals votes := by field_simp
      rw [e]; exact this
    have h2 : (⌊p.2 / q⌋ : Rat) ≤ h := le_trans (Int.floor_le _) this
    exact_mod_cast h2
  have hw : ∀ p ∈ votes, ¬ (h : Int) < Py.pyInt (p.2 / q) := by
    intro p hp
    rw [pyInt_nonneg_eq_floor _ (div_nonneg (hv p hp) (le_of_lt hq))]
    have := hfloor_le p hp
    omega
  have hqe : hareQuotaSeats votes h [] = .ok (votes.filterMap (hareAdd q [])) := by
    rw [hareQuotaSeats_of_pos votes h [] (by omega) hq]
    have := hareQuota_foldl_ok q (ne_of_gt hq) [] votes []
    rw [List.nil_append] at this
    exact this
  -- the quota seats fit into the house
  have hsum : sumSeats (votes.filterMap (hareAdd q [])) ≤ h := by
    rw [sumSeats_filterMap_hareAdd]
    have h1 : (((votes.map (hareContrib q [])).sum : Nat) : Int) ≤ (votes.map (fun p => ⌊p.2 / q⌋)).sum := by
      have := cast_sum_map_nat votes (hareContrib q [])
      rw [this]
      exact List.sum_le_sum (fun p hp => hareContrib_le_floor q hq p (hv p hp))
    have h2 : (((votes.map (fun p => ⌊p.2 / q⌋)).sum : Int) : Rat) ≤ (votes.map (fun p => p.2 / q)).sum :=
      floor_sum_le q votes
    have h3 : ((votes.map (fun p => p.2 / q)).sum : Rat) = h := by
      have : (votes.map (fun p => p.2 / q)).sum = (votes.map (·.2)).sum / q := by
        simp only [div_eq_mul_inv]
        exact List.sum_map_mul_right (l := votes) (f := fun p => p.2) (r := q⁻¹)
      rw [this, ← sumVals_eq, hqdef]
      field_simp
    have h4 : (((votes.map (fun p => ⌊p.2 / q⌋)).sum : Int) : Rat) ≤ h := by rw [← h3]; exact h2
    have h5 : (votes.map (fun p => ⌊p.2 / q⌋)).sum ≤ (h : Int) := by exact_mod_cast h4
    omega
  unfold lrHareEval
  simp only [ne_eq, not_true_eq_false, ↓reduceIte, bind, Except.bind, hqe]
  have hs0 : sumSeats ([] : Seats) = 0 := rfl
  rw [if_neg (by rw [hs0]; omega)]
  refine ⟨_, rfl, ?_⟩
  intro p hp
  refine le_trans ?_ (Int.ofNat_le.mpr (distGet_foldl_incSlot_ge _ _ _))
  rw [distGet_seatsToDist, natLookup_filterMap_hareAdd q [] votes hn p hp]
  have := hareContrib_ge q hq [] p (hv p hp)
  have h0 : ((natLookup ([] : Seats) p.1 0 : Nat) : Int) = 0 := rfl
  omega

theorem entry_of_getD_pos (votes : Votes) (c : Cand) (h : 0 < getD votes c 0) :
    ∃ p ∈ votes, p.1 = c ∧ p.2 = getD votes c 0 := by
  unfold getD lookup at h ⊢
  cases hf : votes.find? (fun p => p.1 = c) with
  | none => rw [hf] at h; simp at h
  | some p =>
    have hm := List.mem_of_find?_eq_some hf
    have hk := List.find?_some hf
    simp only [decide_eq_true_eq] at hk
    exact ⟨p, hm, hk, by simp⟩

/-- every floor of a party with positive votes is eventually met by the largest-remainder model, and stays met -/
theorem lr_meets_eventually (votes : Votes) (hv : ∀ p ∈ votes, 0 ≤ p.2) (hn : (keys votes).Nodup)
    (hT : 0 < sumVals votes) (floors : Dist) (hfl : ∀ p ∈ floors, ∃ c, p.1 = .cand c ∧ 0 < getD votes c 0) :
    ∃ H, ∀ h, H ≤ h → 0 < h → ∀ r, lrHareEval votes h [] [] = .ok r → MeetsFloors r floors := by
  induction floors with
  | nil => exact ⟨0, fun h _ _ r _ p hp => by simp at hp⟩
  | cons x xs ih =>
    obtain ⟨H1, hH1⟩ := ih (fun p hp => hfl p (List.mem_cons_of_mem _ hp))
    obtain ⟨c, hxc, hcpos⟩ := hfl x List.mem_cons_self
    obtain ⟨p, hpm, hpc, hpv⟩ := entry_of_getD_pos votes c hcpos
    have hppos : 0 < p.2 := by rw [hpv]; exact hcpos
    obtain ⟨k, hk⟩ := exists_nat_ge ((x.2 : Rat) * sumVals votes / p.2)
    refine ⟨max H1 k, fun h hh hpos r hr q hq => ?_⟩
    rcases List.mem_cons.mp hq with rfl | hq'
    · obtain ⟨r', hr', hbound⟩ := lrHare_answers votes hv hn hT h hpos
      rw [hr] at hr'
      have hre : r = r' := Except.ok.inj hr'
      subst hre
      have hb := hbound p hpm
      rw [hxc, ← hpc]
      have hhpos : (0 : Rat) < h := by exact_mod_cast hpos
      have hqpos : 0 < sumVals votes / (h : Rat) := div_pos hT hhpos
      have hkh : (k : Rat) ≤ h := by exact_mod_cast le_trans (le_max_right H1 k) hh
      have hfl2 : (q.2 : Int) ≤ ⌊p.2 / (sumVals votes / (h : Rat))⌋ := by
        rw [Int.le_floor]
        push_cast
        rw [le_div_iff₀ hqpos]
        have h1 : (q.2 : Rat) * sumVals votes / p.2 ≤ h := le_trans hk hkh
        rw [div_le_iff₀ hppos] at h1
        have e : (q.2 : Rat) * (sumVals votes / h) = (q.2 : Rat) * sumVals votes / h := by ring
        rw [e, div_le_iff₀ hhpos]
        linarith
      omega
    · exact hH1 h (le_trans (le_max_left _ _) hh) hpos r hr q hq'

end VL.OH
