/-
  Helper lemmas for C12 (score family): ascending sort of numbers, the expanded list of a count dict, counting
  characterisation of the lower median.
-/
import VotelibModel.Score
import Mathlib.Data.List.Sort
import Mathlib.Algebra.Order.Ring.Rat
import Mathlib.Algebra.Order.Field.Basic
import Mathlib.Tactic.Linarith
import Mathlib.Tactic.Ring
namespace VL.Score
open VL

/-! ### `sorted()` -/

theorem insertR_perm (x : Rat) (l : List Rat) : (insertR x l).Perm (x :: l) := by
  induction l with
  | nil => simp [insertR]
  | cons y ys ih =>
    unfold insertR
    split
    · exact (List.Perm.cons y ih).trans (List.Perm.swap x y ys)
    · exact List.Perm.refl _

theorem sortR_perm (l : List Rat) : (sortR l).Perm l := by
  induction l with
  | nil => simp [sortR]
  | cons x xs ih => exact (insertR_perm x _).trans (List.Perm.cons x ih)

/-- non-decreasing -/
def Asc (l : List Rat) : Prop := l.Pairwise (· ≤ ·)

theorem insertR_asc (x : Rat) (l : List Rat) (h : Asc l) : Asc (insertR x l) := by
  induction l with
  | nil => simp [insertR, Asc]
  | cons y ys ih =>
    have hy := List.pairwise_cons.mp h
    unfold insertR
    split
    · rename_i hle
      refine List.pairwise_cons.mpr ⟨?_, ih hy.2⟩
      intro z hz
      rcases List.mem_cons.mp ((insertR_perm x ys).mem_iff.mp hz) with rfl | hz'
      · exact hle
      · exact hy.1 z hz'
    · rename_i hnle
      have hxy : x ≤ y := le_of_lt (not_le.mp hnle)
      refine List.pairwise_cons.mpr ⟨?_, h⟩
      intro z hz
      rcases List.mem_cons.mp hz with rfl | hz'
      · exact hxy
      · exact le_trans hxy (hy.1 z hz')

theorem sortR_asc (l : List Rat) : Asc (sortR l) := by
  induction l with
  | nil => simp [sortR, Asc]
  | cons x xs ih => exact insertR_asc x _ ih

theorem sortR_length (l : List Rat) : (sortR l).length = l.length := (sortR_perm l).length_eq

/-- number of entries below / at most `v` -/
def cntLt (l : List Rat) (v : Rat) : Nat := (l.filter (fun x => decide (x < v))).length
def cntLe (l : List Rat) (v : Rat) : Nat := (l.filter (fun x => decide (x ≤ v))).length

theorem cntLt_perm {l l' : List Rat} (h : l.Perm l') (v : Rat) : cntLt l v = cntLt l' v := (h.filter _).length_eq
theorem cntLe_perm {l l' : List Rat} (h : l.Perm l') (v : Rat) : cntLe l v = cntLe l' v := (h.filter _).length_eq

theorem asc_take_drop {s : List Rat} (h : Asc s) (k : Nat) : ∀ a ∈ s.take k, ∀ b ∈ s.drop k, a ≤ b := by
  have h' : Asc (s.take k ++ s.drop k) := by rw [List.take_append_drop]; exact h
  exact (List.pairwise_append.mp h').2.2

theorem asc_drop_ge {s : List Rat} (h : Asc s) {k : Nat} (hk : k < s.length) : ∀ b ∈ s.drop k, s[k] ≤ b := by
  intro b hb
  rw [List.drop_eq_getElem_cons hk] at hb
  have hd : Asc (s.drop k) := List.Pairwise.sublist (List.drop_sublist k s) h
  rw [List.drop_eq_getElem_cons hk] at hd
  rcases List.mem_cons.mp hb with rfl | hb'
  · exact le_refl _
  · exact (List.pairwise_cons.mp hd).1 b hb'

theorem asc_take_le {s : List Rat} (h : Asc s) {k : Nat} (hk : k < s.length) : ∀ a ∈ s.take (k + 1), a ≤ s[k] := by
  intro a ha
  rw [List.take_succ_eq_append_getElem hk] at ha
  rcases List.mem_append.mp ha with ha' | ha'
  · have hmem : s[k] ∈ s.drop k := by rw [List.drop_eq_getElem_cons hk]; exact List.mem_cons_self
    exact asc_take_drop h k a ha' _ hmem
  · simp at ha'; subst ha'; exact le_refl _

/-- in a sorted list fewer than `k+1` entries lie strictly below the entry at position `k` … -/
theorem asc_cntLt_le {s : List Rat} (h : Asc s) {k : Nat} (hk : k < s.length) : cntLt s s[k] ≤ k := by
  have hd := asc_drop_ge h hk
  generalize s[k] = t at hd ⊢
  unfold cntLt
  have hsplit : s.filter (fun x => decide (x < t)) =
      (s.take k).filter (fun x => decide (x < t)) ++ (s.drop k).filter (fun x => decide (x < t)) := by
    rw [← List.filter_append, List.take_append_drop]
  have hnil : (s.drop k).filter (fun x => decide (x < t)) = [] := by
    rw [List.filter_eq_nil_iff]
    intro b hb
    simp only [decide_eq_true_eq, not_lt]
    exact hd b hb
  rw [hsplit, hnil, List.append_nil]
  exact le_trans (List.length_filter_le _ _) (by simp [List.length_take])

/-- … and at least `k+1` entries are at most it -/
theorem asc_cntLe_ge {s : List Rat} (h : Asc s) {k : Nat} (hk : k < s.length) : k + 1 ≤ cntLe s s[k] := by
  have hd := asc_take_le h hk
  generalize s[k] = t at hd ⊢
  unfold cntLe
  have hsub : List.Sublist ((s.take (k + 1)).filter (fun x => decide (x ≤ t)))
      (s.filter (fun x => decide (x ≤ t))) := (List.take_sublist _ _).filter _
  have hall : (s.take (k + 1)).filter (fun x => decide (x ≤ t)) = s.take (k + 1) := by
    rw [List.filter_eq_self]
    intro a ha
    simp only [decide_eq_true_eq]
    exact hd a ha
  rw [hall] at hsub
  have := hsub.length_le
  simp [List.length_take] at this
  omega

/-- `v` is the `k`-th smallest entry of `l` (1-based, counted with multiplicity): order-free definition -/
def IsKthSmallest (l : List Rat) (k : Nat) (v : Rat) : Prop := v ∈ l ∧ cntLt l v < k ∧ k ≤ cntLe l v

theorem kthSmallest_unique {l : List Rat} {k : Nat} {v v' : Rat}
    (h : IsKthSmallest l k v) (h' : IsKthSmallest l k v') : v = v' := by
  by_contra hne
  rcases lt_or_gt_of_ne hne with hlt | hgt
  · have : cntLe l v ≤ cntLt l v' := by
      unfold cntLe cntLt
      apply List.Sublist.length_le
      apply List.monotone_filter_right
      intro x hx
      simp only [decide_eq_true_eq] at hx ⊢
      exact lt_of_le_of_lt hx hlt
    have h1 := h.2.2; have h2 := h'.2.1; omega
  · have : cntLe l v' ≤ cntLt l v := by
      unfold cntLe cntLt
      apply List.Sublist.length_le
      apply List.monotone_filter_right
      intro x hx
      simp only [decide_eq_true_eq] at hx ⊢
      exact lt_of_le_of_lt hx hgt
    have h1 := h'.2.2; have h2 := h.2.1; omega

/-- **`statistics.median_low`** of a non-empty list is its ⌈n/2⌉-th smallest entry -/
theorem medianLow_spec (l : List Rat) (hne : l ≠ []) :
    ∃ v, medianLow l = .ok v ∧ IsKthSmallest l ((l.length + 1) / 2) v := by
  have hlen : 0 < l.length := List.length_pos_iff.mpr hne
  have hs : (sortR l).length = l.length := sortR_length l
  set n := l.length with hn
  set i := if n % 2 = 1 then n / 2 else n / 2 - 1 with hi
  have hin : i < (sortR l).length := by
    rw [hs]; simp only [hi]; split <;> omega
  have hi1 : i + 1 = (n + 1) / 2 := by
    simp only [hi]; split <;> omega
  refine ⟨(sortR l)[i], ?_, ?_⟩
  · unfold medianLow
    simp only [hs]
    rw [if_neg (by omega)]
    have : (sortR l)[if l.length % 2 = 1 then l.length / 2 else l.length / 2 - 1]? = some ((sortR l)[i]) :=
      List.getElem?_eq_getElem hin
    rw [this]
  · refine ⟨(sortR_perm l).mem_iff.mp (List.getElem_mem _), ?_, ?_⟩
    · rw [← cntLt_perm (sortR_perm l)]
      have := asc_cntLt_le (sortR_asc l) hin
      omega
    · rw [← cntLe_perm (sortR_perm l)]
      have := asc_cntLe_ge (sortR_asc l) hin
      omega

theorem medianLow_nil : medianLow [] = .error (.other "StatisticsError") := rfl

/-! ### the expanded list of a count dict -/

/-- weighted sum of the grades Σ grade · count (negative counts count as 0, as `range(count)` does) -/
def wSum (cs : CScores) : Rat := (cs.map (fun p => p.1 * ((p.2.toNat : Nat) : Rat))).sum
/-- total weight -/
def wTotal (cs : CScores) : Nat := (cs.map (fun p => p.2.toNat)).sum
/-- weight of the grades below / at most `v` -/
def wLt (cs : CScores) (v : Rat) : Nat := ((cs.filter (fun p => decide (p.1 < v))).map (fun p => p.2.toNat)).sum
def wLe (cs : CScores) (v : Rat) : Nat := ((cs.filter (fun p => decide (p.1 ≤ v))).map (fun p => p.2.toNat)).sum

theorem sum_replicate_rat (n : Nat) (x : Rat) : (List.replicate n x).sum = x * ((n : Nat) : Rat) := by
  induction n with
  | zero => simp
  | succ n ih => rw [List.replicate_succ, List.sum_cons, ih]; push_cast; ring

theorem expand_sum (cs : CScores) : (expand cs).sum = wSum cs := by
  unfold expand wSum
  induction cs with
  | nil => simp
  | cons p ps ih => rw [List.flatMap_cons, List.sum_append, ih, sum_replicate_rat]; simp

theorem expand_length (cs : CScores) : (expand cs).length = wTotal cs := by
  unfold expand wTotal
  induction cs with
  | nil => simp
  | cons p ps ih => rw [List.flatMap_cons, List.length_append, ih]; simp

theorem expand_cntLt (cs : CScores) (v : Rat) : cntLt (expand cs) v = wLt cs v := by
  unfold expand cntLt wLt
  induction cs with
  | nil => simp
  | cons p ps ih =>
    rw [List.flatMap_cons, List.filter_append, List.length_append, ih]
    by_cases h : p.1 < v
    · simp [List.filter_cons, h, List.filter_replicate]
    · simp [List.filter_cons, h, List.filter_replicate]

theorem expand_cntLe (cs : CScores) (v : Rat) : cntLe (expand cs) v = wLe cs v := by
  unfold expand cntLe wLe
  induction cs with
  | nil => simp
  | cons p ps ih =>
    rw [List.flatMap_cons, List.filter_append, List.length_append, ih]
    by_cases h : p.1 ≤ v
    · simp [List.filter_cons, h, List.filter_replicate]
    · simp [List.filter_cons, h, List.filter_replicate]

theorem mem_expand {cs : CScores} {v : Rat} : v ∈ expand cs ↔ ∃ p ∈ cs, p.1 = v ∧ 0 < p.2 := by
  unfold expand
  simp only [List.mem_flatMap, List.mem_replicate]
  constructor
  · rintro ⟨p, hp, hn, rfl⟩
    exact ⟨p, hp, rfl, by omega⟩
  · rintro ⟨p, hp, rfl, hpos⟩
    exact ⟨p, hp, by omega, rfl⟩

end VL.Score

namespace VL.Score
open VL

/-- first entry of a sorted list satisfying a predicate that fails below `v` and holds at `v` -/
theorem find_sorted {ks : List Rat} (hs : Asc ks) {P : Rat → Bool} {v : Rat} (hv : v ∈ ks) (hP : P v = true)
    (hbelow : ∀ u ∈ ks, u < v → P u = false) : ks.find? P = some v := by
  induction ks with
  | nil => cases hv
  | cons y ys ih =>
    have hy := List.pairwise_cons.mp hs
    by_cases hPy : P y = true
    · have hyv : y ≤ v := by
        rcases List.mem_cons.mp hv with rfl | h
        · exact le_refl _
        · exact hy.1 v h
      have : ¬ y < v := by
        intro hlt
        have := hbelow y List.mem_cons_self hlt
        rw [this] at hPy; cases hPy
      have heq : y = v := le_antisymm hyv (not_lt.mp this)
      rw [List.find?_cons, hPy, heq]
    · have hne : v ≠ y := by
        intro h; rw [h] at hP; exact hPy hP
      have hv' : v ∈ ys := by
        rcases List.mem_cons.mp hv with h | h
        · exact absurd h hne
        · exact h
      have hPy' : P y = false := by simpa using hPy
      rw [List.find?_cons, hPy']
      exact ih hy.2 hv' (fun u hu hlt => hbelow u (List.mem_cons_of_mem _ hu) hlt)

/-- the lower median of a weighted multiset by counting: the smallest grade whose cumulative weight reaches ⌈W/2⌉ -/
def wMedianLow (cs : CScores) : Option Rat :=
  (sortR (cs.map (·.1))).find? (fun v => decide ((wTotal cs + 1) / 2 ≤ wLe cs v))

/-- the configured aggregate of a grade multiset, by definition -/
def aggSpec : Agg → CScores → Except Err Rat
  | .mean, cs => if wTotal cs = 0 then .error (.other "ZeroDivisionError") else .ok (wSum cs / ((wTotal cs : Nat) : Rat))
  | .sum, cs => .ok (wSum cs)
  | .medianLow, cs =>
    if wTotal cs = 0 then .error (.other "StatisticsError")
    else match wMedianLow cs with
      | some v => .ok v
      | none => .error (.other "StatisticsError")

theorem wLe_mono (cs : CScores) {u v : Rat} (h : u < v) : wLe cs u ≤ wLt cs v := by
  unfold wLe wLt
  induction cs with
  | nil => simp
  | cons p ps ih =>
    by_cases h1 : p.1 ≤ u
    · have h2 : p.1 < v := lt_of_le_of_lt h1 h
      simp only [List.filter_cons, h1, h2, decide_true, if_true, List.map_cons, List.sum_cons]
      omega
    · by_cases h2 : p.1 < v
      · simp only [List.filter_cons, h1, h2, decide_true, decide_false, if_true, Bool.false_eq_true, if_false,
          List.map_cons, List.sum_cons]
        omega
      · simp only [List.filter_cons, h1, h2, decide_false, Bool.false_eq_true, if_false]
        exact ih

theorem medianLow_expand (cs : CScores) (hW : wTotal cs ≠ 0) :
    ∃ v, medianLow (expand cs) = .ok v ∧ wMedianLow cs = some v ∧
      (∃ p ∈ cs, p.1 = v ∧ 0 < p.2) ∧ wLt cs v < (wTotal cs + 1) / 2 ∧ (wTotal cs + 1) / 2 ≤ wLe cs v := by
  have hne : expand cs ≠ [] := by
    intro h
    have := expand_length cs
    rw [h] at this
    exact hW this.symm
  obtain ⟨v, hv, hk⟩ := medianLow_spec (expand cs) hne
  obtain ⟨hmem, hlt, hle⟩ := hk
  rw [expand_length, expand_cntLt] at hlt
  rw [expand_length, expand_cntLe] at hle
  have hmem' := mem_expand.mp hmem
  refine ⟨v, hv, ?_, hmem', hlt, hle⟩
  unfold wMedianLow
  apply find_sorted (sortR_asc _)
  · obtain ⟨p, hp, hpv, _⟩ := hmem'
    exact (sortR_perm _).mem_iff.mpr (List.mem_map.mpr ⟨p, hp, hpv⟩)
  · simpa using hle
  · intro u _ hu
    have := wLe_mono cs hu
    simp only [decide_eq_false_iff_not, not_le]
    omega

end VL.Score
