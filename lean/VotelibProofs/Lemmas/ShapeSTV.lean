/-
  C08 for the transferable vote (models VL.STV, owned by C03 / C04).

  Family 1  `TransferableVoteSelector.evaluate`  = `selectorEvaluate E cfg votes n ds`
            (driver ops `stv_eval` / `stv_eval_psc` with `form = "selector"`).
  Family 2  `TransferableVoteDistributor.evaluate(votes, n)` (no previous gains, no maximum seats)
            = `distributorEvaluate E cfg (distInput votes n) ds`  (the same ops with `form = "distributor"`,
            `prev = []`, `max = []`).

  The candidates of a profile are `allRanked votes` (`util.all_ranked_candidates`).
-/
import VotelibProofs.Lemmas.ShapeDefs
import VotelibProofs.Props.C03
import VotelibProofs.Props.C04
namespace VL.C08
open VL VL.STV

/-! ## Family 1: the selector — shape -/

/-- a list of individually elected candidates as a selection result (the selector never returns a tie object:
    an unresolved tie is the refusal `NotImplementedError`) -/
def stvSlots (l : List Cand) : List Slot := l.map Slot.cand

theorem stv_selShape_of_cands {cands l : List Cand} {n : Nat} (hlen : l.length = n) (hnd : l.Nodup)
    (hsub : ∀ c ∈ l, c ∈ cands) : SelShape cands n (stvSlots l) := by
  unfold stvSlots
  refine ⟨by rw [List.length_map]; exact hlen, ?_, ?_, ?_, ?_, ?_⟩
  · intro c hc
    obtain ⟨d, hd, he⟩ := List.mem_map.mp hc
    injection he with he; subst he; exact hsub d hd
  · intro T hT; obtain ⟨d, _, he⟩ := List.mem_map.mp hT; cases he
  · rw [electedOf_map_cand]; exact hnd
  · intro T hT; obtain ⟨d, _, he⟩ := List.mem_map.mp hT; cases he
  · intro T hT; obtain ⟨d, _, he⟩ := List.mem_map.mp hT; cases he

/-- **TransferableVoteSelector, shape.**  Whatever the transferer (Gregory, or Hare under the draw contract), the
    configuration (any quota function or none, any `eliminate_step`, `mandatory_quota` or not), the profile and the
    seat number: a returned list has the selection shape over the candidates of the votes — exactly `n` entries,
    all of them candidates of the votes, nobody twice, and never a tie object. -/
theorem stv_shape {E : Engine} (hE : EngineOK E) {cfg : Cfg} {votes : Profile} {n : Nat} {ds : List Draw}
    {l : List Cand} (h : selectorEvaluate E cfg votes n ds = .ok l) :
    SelShape (allRanked votes) n (stvSlots l) := by
  obtain ⟨h1, h2, h3⟩ := C04.result_shape hE h
  exact stv_selShape_of_cands h1 h2 h3

/-- the instance C08 runs: Gregory transfer -/
theorem stv_gregory_shape {cfg : Cfg} {votes : Profile} {n : Nat} {ds : List Draw} {l : List Cand}
    (h : selectorEvaluate gregory cfg votes n ds = .ok l) : SelShape (allRanked votes) n (stvSlots l) :=
  stv_shape gregory_ok h

/-! ## the run: every count makes progress, so the fuel of the model is never exhausted -/

theorem sumSeats_pos_of_ones {el : Seats} (hne : el ≠ []) (h : ∀ ck ∈ el, 1 ≤ ck.2) : 1 ≤ sumSeats el := by
  cases el with
  | nil => exact absurd rfl hne
  | cons x xs =>
    rw [sumSeats_cons]
    have := h x List.mem_cons_self
    omega

/-- termination measure of the counting loop -/
def stvMeasure (inp : Input) (st : St) : Nat :=
  if st.final then 0 else 1 + (inp.nSeats - sumSeats st.seats) + (continuing st.alloc).length

theorem stv_final_false_of_ne {cfg : Cfg} {inp : Input} {st : St} (hi : StInv cfg inp st)
    (hne : sumSeats st.seats ≠ inp.nSeats) : st.final = false := by
  cases hf : st.final with
  | false => rfl
  | true => exact absurd (hi.fin hf) hne

/-- every executed count elects somebody, removes somebody, or is the last one -/
theorem stv_step_decreases {E : Engine} (hE : EngineOK E) {cfg : Cfg} {inp : Input} {st st' : St}
    (hi : StInv cfg inp st) (h : countStep E cfg inp st = .ok (some st')) :
    stvMeasure inp st' < stvMeasure inp st := by
  obtain ⟨hne, out, ds', hnext, hnp, hadv⟩ := countStep_inv h
  have hfin := stv_final_false_of_ne hi hne
  have hk := hi.keys hfin
  subst hadv
  obtain ⟨hle, hcase⟩ := nextCount_cases hnext
  unfold stvMeasure
  rw [hfin]
  simp only [advance, Bool.false_eq_true, if_false]
  rcases Bool.eq_false_or_eq_true out.shortcut with hsc | hsc
  · simp only [hsc, if_true]; omega
  · simp only [hsc, Bool.false_eq_true, if_false]
    have hc := count_inv hE hk hnext hsc
    have hlen : (continuing out.alloc).length ≤ (continuing st.alloc).length := by
      rw [hc.cont_eq]; exact List.length_filter_le _ _
    cases hcase with
    | shortcut hs he => rw [(electAll_spec he).2.1] at hsc; cases hsc
    | election qv hq hpos el hel hnel hout =>
      obtain ⟨_, _, _, _, he1, _, _⟩ := afterElection_inv hout
      obtain ⟨_, hfacts⟩ := election_facts hk hpos hel
      have h1 := sumSeats_pos_of_ones hnel (fun ck hck => (hfacts ck hck).2.1)
      rw [sumSeats_seatsAdd, he1]
      omega
    | elimination _ hout =>
      obtain ⟨retained, _, hel, _, he1, _⟩ := afterElimination_inv hout
      have hne2 : out.eliminated ≠ [] := by
        intro h0
        simp [noProgress, he1, hsc, h0] at hnp
      have hlt : (continuing out.alloc).length < (continuing st.alloc).length := by
        rw [hc.cont_eq]
        apply List.length_filter_lt_length_iff_exists.mpr
        obtain ⟨x, hx⟩ := List.exists_mem_of_ne_nil _ hne2
        refine ⟨x, ?_, by simpa using hx⟩
        rw [hel] at hx
        have := (List.mem_filter.mp hx).1
        rwa [keys_totalsInPlay] at this
      rw [he1]
      simp only [seatsAdd, List.foldl_nil]
      omega

theorem countStep_none {E : Engine} {cfg : Cfg} {inp : Input} {st : St} (h : countStep E cfg inp st = .ok none) :
    sumSeats st.seats = inp.nSeats := by
  unfold countStep at h
  split at h
  · assumption
  · split at h
    · cases h
    · split at h <;> cases h

/-- with fuel above the measure the loop stops because all seats are filled -/
theorem runCounts_finished {E : Engine} (hE : EngineOK E) {cfg : Cfg} {inp : Input} {ds : List Draw} :
    ∀ (k : Nat) (st st' : St), Reach E cfg inp ds st → stvMeasure inp st < k →
      runCounts E cfg inp k st = .ok st' → sumSeats st'.seats = inp.nSeats := by
  intro k
  induction k with
  | zero => intro st st' _ hk; omega
  | succ k ih =>
    intro st st' hr hk h
    simp only [runCounts] at h
    split at h
    · cases h
    · rename_i hnone
      injection h with h; subst h
      exact countStep_none hnone
    · rename_i st1 hstep
      have := stv_step_decreases hE (reach_inv hE hr) hstep
      exact ih st1 st' (.step hr hstep) (by omega) h

theorem runCounts_error {E : Engine} {cfg : Cfg} {inp : Input} {ds : List Draw} {e : Err} :
    ∀ (k : Nat) (st : St), Reach E cfg inp ds st → runCounts E cfg inp k st = .error e →
      ∃ st', Reach E cfg inp ds st' ∧ countStep E cfg inp st' = .error e := by
  intro k
  induction k with
  | zero => intro st _ h; simp only [runCounts] at h; cases h
  | succ k ih =>
    intro st hr h
    simp only [runCounts] at h
    split at h
    · rename_i e' herr
      injection h with h; subst h
      exact ⟨st, hr, herr⟩
    · cases h
    · rename_i st1 hstep
      exact ih st1 (.step hr hstep) h

theorem stv_initial_measure {E : Engine} (hE : EngineOK E) {inp : Input} {ds : List Draw} {st0 : St}
    (h0 : initState E inp ds = .ok st0) : stvMeasure inp st0 < evalFuel inp := by
  obtain ⟨_, hf0, _, _⟩ := initState_inv (cfg := ⟨none, true, false, none⟩) hE h0
  have hc0 : continuing st0.alloc = allRanked inp.votes := by
    unfold initState at h0
    split at h0
    · cases h0
    · rename_i a ds' hinit
      injection h0 with h0; subst h0
      exact (init_inv hE hinit).cont_eq
  unfold stvMeasure evalFuel
  rw [hf0, hc0]
  simp only [Bool.false_eq_true, if_false]
  omega

/-- how `evaluate` can fail: the initial allocation fails, or a count of a reached state fails -/
theorem distributorEvaluate_error {E : Engine} (hE : EngineOK E) {cfg : Cfg} {inp : Input} {ds : List Draw} {e : Err}
    (h : distributorEvaluate E cfg inp ds = .error e) :
    initState E inp ds = .error e ∨ ∃ st, Reach E cfg inp ds st ∧ countStep E cfg inp st = .error e := by
  unfold distributorEvaluate at h
  cases h0 : initState E inp ds with
  | error e0 => rw [h0] at h; simp only [bind, Except.bind] at h; injection h with h; subst h; exact Or.inl rfl
  | ok st0 =>
    right
    rw [h0] at h
    simp only [bind, Except.bind] at h
    cases hk : runCounts E cfg inp (evalFuel inp) st0 with
    | error e1 =>
      rw [hk] at h
      simp only at h
      injection h with h; subst h
      exact runCounts_error _ st0 (.init h0) hk
    | ok st =>
      rw [hk] at h
      simp only at h
      have hfin := runCounts_finished hE _ st0 st (.init h0) (stv_initial_measure hE h0) hk
      have : finished inp st = true := by simp [finished, hfin]
      rw [this] at h
      simp [pure, Except.pure] at h

/-- **The model's fuel is never exhausted** (any transferer meeting the specification, any configuration, any
    input): the outcome `Err.other "fuel"` of `distributorEvaluate` / `selectorEvaluate` does not occur, i.e.
    `evalFuel` counts always suffice — every executed count fills a seat, removes a candidate or is the last. -/
theorem stv_fuel_unreachable {E : Engine} (hE : EngineOK E) (cfg : Cfg) (inp : Input) (ds : List Draw) :
    ∀ st0 st, initState E inp ds = .ok st0 → runCounts E cfg inp (evalFuel inp) st0 = .ok st →
      finished inp st = true := by
  intro st0 st h0 hk
  have hfin := runCounts_finished hE _ st0 st (.init h0) (stv_initial_measure hE h0) hk
  simp [finished, hfin]

/-! ## what a count under Gregory transfer can answer besides a new state -/

def errNonPositiveQuota : Err := .other "unmodelled:non-positive quota"
def errNegativeRemaining : Err := .other "unmodelled:negative remaining seats"
def errNegativeAvailable : Err := .other "unmodelled:negative available seats"

/-- the error outcomes of one `next_count` under Gregory transfer, each with the condition it arises under -/
inductive StvCountErr (cfg : Cfg) (a : Alloc) (n : Nat) (total : Rat) (prev maxS : Seats) : Err → Prop
  /-- an unresolved tie (`_correct_overcount`, `select_retained`) -/
  | tie : StvCountErr cfg a n total prev maxS .notImplemented
  /-- `eliminate_step=None` without a retainer -/
  | noStep : cfg.step = none → StvCountErr cfg a n total prev maxS .valueError
  /-- the quota function returned a non-positive value (outside the model: Python divides by it) -/
  | quota (q : Rat) : computeQuota cfg total n = some q → q ≤ 0 → StvCountErr cfg a n total prev maxS errNonPositiveQuota
  /-- more seats awarded than asked for (outside the model) -/
  | over : n < sumSeats prev → StvCountErr cfg a n total prev maxS errNegativeRemaining
  /-- the elect-all shortcut with a candidate above its maximum (outside the model) -/
  | avail (p : Cand × Option Int) (k : Int) : p ∈ availSeats a prev maxS → p.2 = some k → k < 0 →
      shortcutCond cfg a n prev maxS = true → StvCountErr cfg a n total prev maxS errNegativeAvailable

theorem gregory_afterElimination_err {a : Alloc} {step : Option Int} {ds : List Draw} {e : Err}
    (h : afterElimination gregory a step ds = .error e) :
    e = .notImplemented ∨ (step = none ∧ e = .valueError) := by
  unfold afterElimination at h
  simp only at h
  split at h
  · rename_i e' hsel
    injection h with h; subst h
    cases step with
    | none => right; refine ⟨rfl, ?_⟩; simp only [selectRetained] at hsel; injection hsel with hsel; exact hsel.symm
    | some s => left; exact selectRetained_err hsel
  · rename_i retained hsel
    obtain ⟨a2, htr⟩ := gregory_transferIf_ok a
      (((totalsInPlay a).map (·.1)).filter (fun c => decide (c ∉ retained))) ds
    rw [htr] at h
    cases h

theorem gregory_afterElection_ok {a : Alloc} (hk : KeysNodup a) {eq : Bool} {qv : Rat} (hpos : 0 < qv) {nRem : Nat}
    {prev maxS : Seats} {el : Seats} (hel : electByQuota eq qv nRem prev maxS (totalsInPlay a) = .ok el)
    (ds : List Draw) : ∃ out, afterElection gregory a el qv prev maxS ds = .ok (out, ds) := by
  obtain ⟨hnd, hfacts⟩ := election_facts hk hpos hel
  obtain ⟨a1, hsub1⟩ := gregory_subtract_ok (a := a) ds (els := el.map (fun ck => (ck.1, (ck.2 : Rat) * qv)))
    (by simpa [List.map_map, Function.comp_def] using hnd)
    (by
      intro x hx
      obtain ⟨ck, hck, rfl⟩ := List.mem_map.mp hx
      obtain ⟨_, h1, h2, _⟩ := hfacts ck hck
      have : (0 : Rat) < (ck.2 : Rat) * qv := mul_pos (by exact_mod_cast h1) hpos
      unfold totalOf at h2
      simp only
      linarith)
  obtain ⟨a2, htr⟩ := gregory_transferIf_ok a1 (fullyElected el prev maxS) ds
  exact ⟨{ alloc := a2, elected := el, eliminated := fullyElected el prev maxS, shortcut := false },
    by unfold afterElection; simp only [hsub1, htr]⟩

theorem gregory_nextCount_err {cfg : Cfg} {a : Alloc} (hk : KeysNodup a) {n : Nat} {total : Rat} {prev maxS : Seats}
    {ds : List Draw} {e : Err} (h : nextCount gregory cfg a n total prev maxS ds = .error e) :
    StvCountErr cfg a n total prev maxS e := by
  unfold nextCount at h
  split at h
  · rename_i hgt
    injection h with h; subst h
    exact .over hgt
  · split at h
    · rename_i hs
      unfold electAll at h
      simp only at h
      split at h
      · rename_i hany
        injection h with h; subst h
        obtain ⟨p, hp, hpp⟩ := List.any_eq_true.mp hany
        have hs' := hs
        unfold shortcutCond at hs'
        simp only [Bool.and_eq_true, decide_eq_true_eq] at hs'
        obtain ⟨_, _, hall, _⟩ := totAvail_go _ _ hs'.1
        obtain ⟨k, hk2⟩ := hall p hp
        rw [hk2] at hpp
        exact .avail p k hp hk2 (by simpa using hpp) hs
      · cases h
    · unfold countProper at h
      split at h
      · rcases gregory_afterElimination_err h with rfl | ⟨hst, rfl⟩
        · exact .tie
        · exact .noStep hst
      · rename_i qv hq
        split at h
        · rename_i hle
          injection h with h; subst h
          exact .quota qv hq hle
        · rename_i hpos
          split at h
          · rename_i e' hel
            injection h with h; subst h
            rw [electByQuota_err hel]
            exact .tie
          · rename_i el hel
            split at h
            · rcases gregory_afterElimination_err h with rfl | ⟨hst, rfl⟩
              · exact .tie
              · exact .noStep hst
            · obtain ⟨out, hout⟩ := gregory_afterElection_ok hk (not_le.mp hpos) hel ds
              rw [hout] at h
              cases h

/-- one iteration of the counting loop: the declared "infinite loop" refusal, or an outcome of `next_count` -/
theorem gregory_countStep_err {cfg : Cfg} {inp : Input} {st : St} {e : Err}
    (hi : StInv cfg inp st) (h : countStep gregory cfg inp st = .error e) :
    e = .votingSystemError ∨ StvCountErr cfg st.alloc inp.nSeats (totalVotes inp.votes) st.seats inp.maxS e := by
  unfold countStep at h
  split at h
  · cases h
  · rename_i hne
    have hk := hi.keys (stv_final_false_of_ne hi hne)
    split at h
    · rename_i e' herr
      injection h with h; subst h
      exact Or.inr (gregory_nextCount_err hk herr)
    · split at h
      · injection h with h; exact Or.inl h.symm
      · cases h

/-- **Outcomes of an evaluation under Gregory transfer** (any configuration, any input, selector or distributor
    form): an error outcome is `VotingSystemError`, or an outcome of `next_count` at a state the run reaches. -/
theorem gregory_evaluate_err {cfg : Cfg} {inp : Input} {ds : List Draw} {e : Err}
    (h : distributorEvaluate gregory cfg inp ds = .error e) :
    e = .votingSystemError ∨ ∃ st, Reach gregory cfg inp ds st ∧ sumSeats st.seats ≠ inp.nSeats ∧ st.final = false ∧
      StvCountErr cfg st.alloc inp.nSeats (totalVotes inp.votes) st.seats inp.maxS e := by
  rcases distributorEvaluate_error gregory_ok h with h0 | ⟨st, hr, hstep⟩
  · obtain ⟨st, hst⟩ := gregory_initState_ok inp ds
    rw [hst] at h0; cases h0
  · have hi := reach_inv gregory_ok hr
    rcases gregory_countStep_err hi hstep with h1 | h1
    · exact Or.inl h1
    · have hne : sumSeats st.seats ≠ inp.nSeats := by
        intro heq
        unfold countStep at hstep
        rw [if_pos heq] at hstep
        cases hstep
      exact Or.inr ⟨st, hr, hne, stv_final_false_of_ne hi hne, h1⟩

/-- in particular the model's fuel value `Err.other "fuel"` is not an outcome (selector or distributor form) -/
theorem stv_gregory_no_fuel (cfg : Cfg) (inp : Input) (ds : List Draw) :
    distributorEvaluate gregory cfg inp ds ≠ .error (.other "fuel") := by
  intro h
  rcases gregory_evaluate_err h with h1 | ⟨st, _, _, _, hc⟩
  · cases h1
  · generalize he : Err.other "fuel" = e at hc
    cases hc with
    | tie => cases he
    | noStep _ => cases he
    | quota _ _ _ => exact absurd he (by decide)
    | over _ => exact absurd he (by decide)
    | avail _ _ _ _ _ _ => exact absurd he (by decide)

/-! ## Family 1: the selector — refusals -/

theorem selectorEvaluate_error {E : Engine} {cfg : Cfg} {votes : Profile} {n : Nat} {ds : List Draw} {e : Err}
    (h : selectorEvaluate E cfg votes n ds = .error e) :
    distributorEvaluate E cfg (selectorInput votes n) ds = .error e := by
  unfold selectorEvaluate at h
  cases hd : distributorEvaluate E cfg (selectorInput votes n) ds with
  | error e' => rw [hd] at h; simp only [bind, Except.bind] at h; injection h with h; rw [h]
  | ok seats => rw [hd] at h; simp [bind, Except.bind, pure, Except.pure] at h

/-- selector form: never more seats filled than asked for -/
theorem selector_sum_le {E : Engine} (hE : EngineOK E) {cfg : Cfg} {votes : Profile} {n : Nat} {ds : List Draw} {st : St}
    (hr : Reach E cfg (selectorInput votes n) ds st) : sumSeats st.seats ≤ n := by
  induction hr with
  | init h0 =>
    obtain ⟨_, _, hs, _⟩ := initState_inv (cfg := cfg) hE h0
    rw [hs]; simp [selectorInput, sumSeats]
  | @step st st' hr' h ih =>
    have hi := reach_inv hE hr'
    have hj := shape_reach hE hr'
    have hi' := step_inv hE hi h
    obtain ⟨hne, out, ds', hnext, _, hadv⟩ := countStep_inv h
    have hfin := stv_final_false_of_ne hi hne
    subst hadv
    have hk := hi.keys hfin
    have hsub := hi.cont_sub
    have hcnd : (continuing st.alloc).Nodup := continuing_nodup hk
    obtain ⟨hle, hcase⟩ := nextCount_cases hnext
    simp only [selectorInput] at hnext hcase hle hsub hne
    cases hcase with
    | shortcut hs he =>
      have := hi'.fin (by simp only [advance]; exact (electAll_spec he).2.1)
      simpa [selectorInput] using le_of_eq this
    | election qv hq hpos el hel hnel hout =>
      obtain ⟨_, _, _, _, he1, _, _⟩ := afterElection_inv hout
      have hqm1 : ∀ x ∈ quotaMultiples cfg.acceptEqual qv st.seats ((allRanked votes).map (fun c => (c, 1)))
          (totalsInPlay st.alloc), x.2.1 = 1 := by
        intro x hx
        obtain ⟨t, ht, h1, _, hmax⟩ := mem_quotaMultiples hpos hx
        have hxc : x.1 ∈ continuing st.alloc := by
          rw [← keys_totalsInPlay]; exact List.mem_map.mpr ⟨(x.1, t), ht, rfl⟩
        have := hmax 1 (maxGet_selector (hsub _ hxc))
        omega
      have hqmnd : ((quotaMultiples cfg.acceptEqual qv st.seats ((allRanked votes).map (fun c => (c, 1)))
          (totalsInPlay st.alloc)).map (·.1)).Nodup :=
        List.Nodup.sublist (quotaMultiples_keys_sublist _ _ _ _ _)
          (keys_nodup_of_sortDesc (by rw [keys_totalsInPlay]; exact hcnd))
      have := electByQuota_sum_le hel hqm1 hqmnd (by omega)
      simp only [advance, he1, sumSeats_seatsAdd]
      omega
    | elimination _ hout =>
      obtain ⟨_, _, _, _, he1, _⟩ := afterElimination_inv hout
      simp only [advance, he1, seatsAdd, List.foldl_nil]
      exact ih

/-- **TransferableVoteSelector with Gregory transfer: every outcome that is not a list** (any configuration, any
    profile, any seat number).  Besides the two declared refusals only two outcomes exist, each with its cause:
    `ValueError` of `eliminate_step=None`, and a quota function returning a non-positive value (where the Python
    code divides by the quota; outside the model).  The model's fuel value does not occur. -/
theorem stv_refusals_partial {cfg : Cfg} {votes : Profile} {n : Nat} {ds : List Draw} {e : Err}
    (h : selectorEvaluate gregory cfg votes n ds = .error e) :
    e = .votingSystemError ∨ e = .notImplemented ∨ (cfg.step = none ∧ e = .valueError) ∨
    ((∃ q, computeQuota cfg (totalVotes votes) n = some q ∧ q ≤ 0) ∧ e = errNonPositiveQuota) := by
  rcases gregory_evaluate_err (selectorEvaluate_error h) with h1 | ⟨st, hr, hne, hfin, hc⟩
  · exact Or.inl h1
  · have hi := reach_inv gregory_ok hr
    have hj := shape_reach gregory_ok hr
    simp only [selectorInput] at hc
    cases hc with
    | tie => exact Or.inr (Or.inl rfl)
    | noStep hs => exact Or.inr (Or.inr (Or.inl ⟨hs, rfl⟩))
    | quota q hq hle => exact Or.inr (Or.inr (Or.inr ⟨⟨q, hq, hle⟩, rfl⟩))
    | over hgt => exact absurd (selector_sum_le gregory_ok hr) (by omega)
    | avail p k hp hk2 hlt hs =>
      have hsub : ∀ c ∈ continuing st.alloc, c ∈ allRanked votes := hi.cont_sub
      have hdisj : ∀ c ∈ continuing st.alloc, c ∉ st.seats.map (·.1) := by
        intro c hc hmm
        obtain ⟨p, hp, rfl⟩ := List.mem_map.mp hmm
        exact hj.disj p hp hc
      rw [availSeats_selector hsub hdisj] at hp
      obtain ⟨c, _, rfl⟩ := List.mem_map.mp hp
      simp only [Option.some.injEq] at hk2
      omega

/-- **TransferableVoteSelector, refusals** (Gregory transfer; any `eliminate_step` that is set; any quota function
    whose value is positive whenever it is computed, or none; `mandatory_quota` or not; any profile; any seat
    number, also above the number of candidates): an evaluation that does not return a list raises
    `VotingSystemError` or `NotImplementedError` — nothing else, and the model's fuel value does not occur.
    The full statement without `hstep` / `hq` is false of the code: see the two witnesses below. -/
theorem stv_refusals {cfg : Cfg} {votes : Profile} {n : Nat} {ds : List Draw} {e : Err}
    (hstep : cfg.step ≠ none) (hq : ∀ q, computeQuota cfg (totalVotes votes) n = some q → 0 < q)
    (h : selectorEvaluate gregory cfg votes n ds = .error e) :
    e = .votingSystemError ∨ e = .notImplemented := by
  rcases stv_refusals_partial h with h1 | h1 | ⟨hs, _⟩ | ⟨⟨q, hq1, hle⟩, _⟩
  · exact Or.inl h1
  · exact Or.inr h1
  · exact absurd hs hstep
  · exact absurd (hq q hq1) (not_lt.mpr hle)

/-- **The default selector** (`eliminate_step = -1`, no `mandatory_quota`) with `1 ≤ n ≤ #candidates` never stalls:
    the only refusal is `NotImplementedError` (an unresolved tie).  (C04 `no_infinite_loop`.) -/
theorem stv_default_refusals {cfg : Cfg} {votes : Profile} {n : Nat} {ds : List Draw} {e : Err}
    (hstep : cfg.step = some (-1)) (hmand : cfg.mandatory = false)
    (hq : ∀ q, computeQuota cfg (totalVotes votes) n = some q → 0 < q) (hn : n ≤ (allRanked votes).length)
    (h : selectorEvaluate gregory cfg votes n ds = .error e) : e = .notImplemented := by
  rcases selector_total ⟨hstep, hmand, hq⟩ hn ds with h1 | ⟨l, h1⟩
  · rw [h1] at h; injection h with h; exact h.symm
  · rw [h1] at h; cases h

/-- … so the default selector answers a full valid list or refuses on a tie -/
theorem stv_default_total {cfg : Cfg} {votes : Profile} {n : Nat} (hstep : cfg.step = some (-1))
    (hmand : cfg.mandatory = false) (hq : ∀ q, computeQuota cfg (totalVotes votes) n = some q → 0 < q)
    (hn : n ≤ (allRanked votes).length) (ds : List Draw) :
    selectorEvaluate gregory cfg votes n ds = .error .notImplemented ∨
    ∃ l, selectorEvaluate gregory cfg votes n ds = .ok l ∧ SelShape (allRanked votes) n (stvSlots l) := by
  rcases selector_total ⟨hstep, hmand, hq⟩ hn ds with h1 | ⟨l, h1⟩
  · exact Or.inl h1
  · exact Or.inr ⟨l, h1, stv_gregory_shape h1⟩

/-- the quotas of the two C08 selector families are positive whenever computed (votes non-negative) -/
theorem stv_quota_pos_droop {cfg : Cfg} (hc : cfg.quota = some Gen.Quota.droop) {votes : Profile} (hwf : WFVotes votes)
    (n : Nat) : ∀ q, computeQuota cfg (totalVotes votes) n = some q → 0 < q := C04.droop_positive hc hwf n

theorem stv_quota_pos_hare {cfg : Cfg} (hc : cfg.quota = some Gen.Quota.hare) {votes : Profile} (hwf : WFVotes votes)
    (n : Nat) : ∀ q, computeQuota cfg (totalVotes votes) n = some q → 0 < q := C04.hare_positive hc hwf n

theorem stv_quota_pos_none {cfg : Cfg} (hc : cfg.quota = none) (votes : Profile) (n : Nat) :
    ∀ q, computeQuota cfg (totalVotes votes) n = some q → 0 < q := by
  intro q hq; simp [computeQuota, hc] at hq

/-! ## Family 2: the distributor `evaluate(votes, n)` (no previous gains, no maximum seats) -/

/-- the input of `TransferableVoteDistributor.evaluate(votes, n)` with the default `prev_gains={}`, `max_seats={}` -/
def distInput (votes : Profile) (n : Nat) : Input := { votes := votes, nSeats := n, prev := [], maxS := [] }

theorem mem_seatsAdd1 {s : Seats} {c : Cand} {k : Nat} {p : Cand × Nat} (h : p ∈ seatsAdd1 s c k) :
    p ∈ s ∨ (p.1 = c ∧ k ≤ p.2) := by
  induction s with
  | nil =>
    simp only [seatsAdd1, List.mem_singleton] at h
    subst h; exact Or.inr ⟨rfl, by simp⟩
  | cons x xs ih =>
    obtain ⟨c', k'⟩ := x
    simp only [seatsAdd1] at h
    split at h
    · rename_i hc
      rcases List.mem_cons.mp h with h | h
      · subst h; exact Or.inr ⟨hc, by simp⟩
      · exact Or.inl (List.mem_cons_of_mem _ h)
    · rcases List.mem_cons.mp h with h | h
      · subst h; exact Or.inl List.mem_cons_self
      · rcases ih h with h | h
        · exact Or.inl (List.mem_cons_of_mem _ h)
        · exact Or.inr h

theorem keys_seatsAdd1 (s : Seats) (c : Cand) (k : Nat) :
    (seatsAdd1 s c k).map (·.1) = if c ∈ s.map (·.1) then s.map (·.1) else s.map (·.1) ++ [c] := by
  induction s with
  | nil => simp [seatsAdd1]
  | cons x xs ih =>
    obtain ⟨c', k'⟩ := x
    simp only [seatsAdd1]
    by_cases hc : c' = c
    · subst hc; simp
    · rw [if_neg hc]
      simp only [List.map_cons, ih, List.mem_cons]
      have hc' : ¬ c = c' := fun e => hc e.symm
      by_cases hm : c ∈ xs.map (·.1)
      · simp [hm]
      · simp [hm, hc']

/-- a result dict under construction: positive awards, no key twice, keys are candidates of the votes -/
def StvGoodSeats (cands : List Cand) (s : Seats) : Prop :=
  (∀ p ∈ s, 0 < p.2) ∧ (s.map (·.1)).Nodup ∧ ∀ p ∈ s, p.1 ∈ cands

theorem stvGoodSeats_add1 {cands : List Cand} {s : Seats} (h : StvGoodSeats cands s) {c : Cand} {k : Nat} (hk : 0 < k)
    (hc : c ∈ cands) : StvGoodSeats cands (seatsAdd1 s c k) := by
  refine ⟨?_, ?_, ?_⟩
  · intro p hp
    rcases mem_seatsAdd1 hp with hp | ⟨_, hp⟩
    · exact h.1 p hp
    · omega
  · rw [keys_seatsAdd1]
    split
    · exact h.2.1
    · rename_i hm
      refine List.nodup_append.mpr ⟨h.2.1, List.nodup_singleton c, ?_⟩
      intro a ha b hb hab
      rw [List.mem_singleton] at hb
      exact hm (hb ▸ hab ▸ ha)
  · intro p hp
    rcases mem_seatsAdd1 hp with hp | ⟨hp, _⟩
    · exact h.2.2 p hp
    · rw [hp]; exact hc

theorem stvGoodSeats_add {cands : List Cand} {add : Seats} (hadd : ∀ p ∈ add, 0 < p.2 ∧ p.1 ∈ cands) :
    ∀ s : Seats, StvGoodSeats cands s → StvGoodSeats cands (seatsAdd s add) := by
  unfold seatsAdd
  induction add with
  | nil => intro s hs; exact hs
  | cons x xs ih =>
    intro s hs
    rw [List.foldl_cons]
    exact ih (fun p hp => hadd p (List.mem_cons_of_mem _ hp)) _
      (stvGoodSeats_add1 hs (hadd x List.mem_cons_self).1 (hadd x List.mem_cons_self).2)

theorem availSeats_nil (a : Alloc) (prev : Seats) :
    availSeats a prev [] = ((sortDesc (totalsInPlay a)).map (·.1)).map (fun c => (c, (none : Option Int))) := by
  unfold availSeats
  apply List.map_congr_left
  intro c _
  simp [maxGet]

theorem foldl_availAdd_none (l : List (Cand × Option Int)) : l.foldl availAdd none = none := by
  induction l with
  | nil => rfl
  | cons x xs ih => rw [List.foldl_cons]; simpa [availAdd] using ih

/-- without maximum seats the elect-all shortcut is never taken while seats are open -/
theorem shortcutCond_nil {cfg : Cfg} {a : Alloc} {n : Nat} {prev : Seats} (hle : sumSeats prev ≤ n)
    (hne : sumSeats prev ≠ n) : shortcutCond cfg a n prev [] = false := by
  unfold shortcutCond totAvail
  rw [availSeats_nil]
  cases hl : (sortDesc (totalsInPlay a)).map (·.1) with
  | nil =>
    simp only [List.map_nil, List.foldl_nil, Option.some.injEq, Bool.and_eq_false_imp, decide_eq_true_eq]
    intro h0
    have : (n - sumSeats prev : Nat) = 0 := by exact_mod_cast h0.symm
    omega
  | cons x xs =>
    simp only [List.map_cons, List.foldl_cons, availAdd, foldl_availAdd_none]
    simp

/-- distributor form: the seats dict stays a valid result dict -/
theorem dist_goodSeats {E : Engine} (hE : EngineOK E) {cfg : Cfg} {votes : Profile} {n : Nat} {ds : List Draw} {st : St}
    (hr : Reach E cfg (distInput votes n) ds st) : StvGoodSeats (allRanked votes) st.seats := by
  induction hr with
  | init h0 =>
    obtain ⟨_, _, hs, _⟩ := initState_inv (cfg := cfg) hE h0
    rw [hs]
    exact ⟨by simp [distInput], by simp [distInput], by simp [distInput]⟩
  | @step st st' hr' h ih =>
    have hi := reach_inv hE hr'
    obtain ⟨hne, out, ds', hnext, _, hadv⟩ := countStep_inv h
    have hfin := stv_final_false_of_ne hi hne
    subst hadv
    have hk := hi.keys hfin
    have hsub := hi.cont_sub
    obtain ⟨hle, hcase⟩ := nextCount_cases hnext
    simp only [distInput] at hnext hcase hle hsub hne
    simp only [advance]
    cases hcase with
    | shortcut hs he => rw [shortcutCond_nil hle hne] at hs; cases hs
    | election qv hq hpos el hel hnel hout =>
      obtain ⟨_, _, _, _, he1, _, _⟩ := afterElection_inv hout
      obtain ⟨_, hfacts⟩ := election_facts hk hpos hel
      rw [he1]
      exact stvGoodSeats_add (fun p hp => ⟨(hfacts p hp).2.1, hsub _ (hfacts p hp).1⟩) _ ih
    | elimination _ hout =>
      obtain ⟨_, _, _, _, he1, _⟩ := afterElimination_inv hout
      rw [he1]
      exact ih

/-- an `.ok` outcome of `TransferableVoteDistributor.evaluate` is the seats dict of a reached state with all seats
    filled -/
theorem distributorEvaluate_ok {E : Engine} {cfg : Cfg} {inp : Input} {ds : List Draw} {seats : Seats}
    (hd : distributorEvaluate E cfg inp ds = .ok seats) :
    ∃ st, Reach E cfg inp ds st ∧ sumSeats st.seats = inp.nSeats ∧ seats = st.seats := by
  unfold distributorEvaluate at hd
  cases h0 : initState E inp ds with
  | error e => rw [h0] at hd; simp [bind, Except.bind] at hd
  | ok st0 =>
    rw [h0] at hd
    simp only [bind, Except.bind] at hd
    cases hk : runCounts E cfg inp (evalFuel inp) st0 with
    | error e => rw [hk] at hd; simp at hd
    | ok st =>
      rw [hk] at hd
      simp only at hd
      split at hd
      · rename_i hfin
        simp only [pure, Except.pure] at hd
        injection hd with hd
        subst hd
        refine ⟨st, (Reach.init h0).runCounts hk, ?_, rfl⟩
        unfold finished at hfin
        exact of_decide_eq_true hfin
      · cases hd

/-- the result dict `{candidate: seats}` as a distribution over keys -/
def stvDist (s : Seats) : List (Key × Nat) := s.map (fun p => (Key.cand p.1, p.2))

/-- **TransferableVoteDistributor, shape** (`evaluate(votes, n)`; any transferer meeting the specification, any
    configuration, any profile, any seat number): a returned dict awards positive numbers of seats to candidates of
    the votes (never a tie object), holds no candidate twice, and the awards add up to exactly `n`. -/
theorem stvd_shape {E : Engine} (hE : EngineOK E) {cfg : Cfg} {votes : Profile} {n : Nat} {ds : List Draw}
    {seats : Seats} (h : distributorEvaluate E cfg (distInput votes n) ds = .ok seats) :
    DistShape (allRanked votes) (stvDist seats) ∧ (seats.map (·.1)).Nodup ∧ sumSeats seats = n := by
  obtain ⟨st, hr, hsum, rfl⟩ := distributorEvaluate_ok h
  obtain ⟨hpos, hnd, hsub⟩ := dist_goodSeats hE hr
  refine ⟨⟨?_, ?_, ?_⟩, hnd, hsum⟩
  · intro k m hkm
    obtain ⟨p, hp, he⟩ := List.mem_map.mp hkm
    injection he with _ he2
    rw [← he2]; exact hpos p hp
  · intro c m hcm
    obtain ⟨p, hp, he⟩ := List.mem_map.mp hcm
    injection he with he1 _
    injection he1 with he1
    rw [← he1]; exact hsub p hp
  · intro T m hTm
    obtain ⟨p, _, he⟩ := List.mem_map.mp hTm
    injection he with he1 _
    cases he1

theorem stvd_gregory_shape {cfg : Cfg} {votes : Profile} {n : Nat} {ds : List Draw} {seats : Seats}
    (h : distributorEvaluate gregory cfg (distInput votes n) ds = .ok seats) :
    DistShape (allRanked votes) (stvDist seats) ∧ (seats.map (·.1)).Nodup ∧ sumSeats seats = n :=
  stvd_shape gregory_ok h

/-! ### distributor: refusals -/

/-- seats in the dict = previous gains + seats filled by quota, as long as the shortcut has not been taken -/
theorem reach_byQuota {E : Engine} (hE : EngineOK E) {cfg : Cfg} {inp : Input} {ds : List Draw} {st : St}
    (hr : Reach E cfg inp ds st) : st.final = false → sumSeats st.seats = sumSeats inp.prev + st.byQuota := by
  induction hr with
  | init h0 =>
    obtain ⟨_, _, hs, hb⟩ := initState_inv (cfg := cfg) hE h0
    intro _; rw [hs, hb]; rfl
  | @step st st' hr' h ih =>
    have hi := reach_inv hE hr'
    obtain ⟨hne, out, ds', _, _, hadv⟩ := countStep_inv h
    have hfin := stv_final_false_of_ne hi hne
    subst hadv
    intro hf
    simp only [advance] at hf
    simp only [advance, hf, sumSeats_seatsAdd, ih hfin, Bool.false_eq_true, if_false]
    omega

theorem stv_held_nonneg {a : Alloc} (hn : NonNeg a) : 0 ≤ held a := by
  induction a with
  | nil => simp [held]
  | cons x xs ih =>
    rw [held_cons]
    have h1 := pileTotal_nonneg (hn x List.mem_cons_self)
    have h2 := ih (fun hp hhp => hn hp (List.mem_cons_of_mem _ hhp))
    linarith

/-- with a quota above `votes / (n + 1)` (Droop, Hare) no more than `n` seats are ever filled: each seat filled by
    quota costs one quota of the votes cast (C03 `conservation`) -/
theorem dist_sum_le {E : Engine} (hE : EngineOK E) {cfg : Cfg} {votes : Profile} {n : Nat} {ds : List Draw} {st : St}
    (hwf : WFVotes votes) {q : Rat} (hq : computeQuota cfg (totalVotes votes) n = some q) (hpos : 0 < q)
    (hbig : totalVotes votes < ((n : Rat) + 1) * q) (hr : Reach E cfg (distInput votes n) ds st) :
    sumSeats st.seats ≤ n := by
  have hi := reach_inv hE hr
  cases hf : st.final with
  | true => exact le_of_eq (hi.fin hf)
  | false =>
    have hcons := hi.cons hf
    have hb := reach_byQuota hE hr hf
    have hheld := stv_held_nonneg (hi.nonneg hwf hf)
    have hempty := emptyWeight_nonneg hwf
    have hrq : runQuota cfg (distInput votes n) = q := by
      simp [runQuota, quotaValue, distInput, hq]
    rw [hrq] at hcons
    simp only [distInput] at hcons hempty hb
    have hb' : st.byQuota = sumSeats st.seats := by rw [sumSeats_nil] at hb; omega
    rw [hb'] at hcons
    have h1 : q * (sumSeats st.seats : Rat) < ((n : Rat) + 1) * q := by linarith
    have h2 : (sumSeats st.seats : Rat) < (n : Rat) + 1 := by
      by_contra hc
      have hc' : (n : Rat) + 1 ≤ (sumSeats st.seats : Rat) := not_lt.mp hc
      have := mul_le_mul_of_nonneg_right hc' (le_of_lt hpos)
      linarith
    have h3 : sumSeats st.seats < n + 1 := by exact_mod_cast h2
    omega

/-- **TransferableVoteDistributor with Gregory transfer: every outcome of `evaluate(votes, n)` that is not a dict**
    (any configuration, any profile, any seat number).  Besides the two declared refusals: `ValueError` of
    `eliminate_step=None`; a non-positive quota value (Python divides by it; outside the model); and a count that
    awards more seats than remain because one candidate alone holds more quotas than seats are open (possible with
    quotas below Droop's, e.g. Imperiali; outside the model — the Python loop goes on with a negative number of
    remaining seats).  The model's fuel value does not occur. -/
theorem stvd_refusals_partial {cfg : Cfg} {votes : Profile} {n : Nat} {ds : List Draw} {e : Err}
    (h : distributorEvaluate gregory cfg (distInput votes n) ds = .error e) :
    e = .votingSystemError ∨ e = .notImplemented ∨ (cfg.step = none ∧ e = .valueError) ∨
    ((∃ q, computeQuota cfg (totalVotes votes) n = some q ∧ q ≤ 0) ∧ e = errNonPositiveQuota) ∨
    ((∃ st, Reach gregory cfg (distInput votes n) ds st ∧ n < sumSeats st.seats) ∧ e = errNegativeRemaining) := by
  rcases gregory_evaluate_err h with h1 | ⟨st, hr, hne, hfin, hc⟩
  · exact Or.inl h1
  · simp only [distInput] at hc
    cases hc with
    | tie => exact Or.inr (Or.inl rfl)
    | noStep hs => exact Or.inr (Or.inr (Or.inl ⟨hs, rfl⟩))
    | quota q hq hle => exact Or.inr (Or.inr (Or.inr (Or.inl ⟨⟨q, hq, hle⟩, rfl⟩)))
    | over hgt => exact Or.inr (Or.inr (Or.inr (Or.inr ⟨⟨st, hr, hgt⟩, rfl⟩)))
    | avail p k hp hk2 hlt hs =>
      rw [availSeats_nil] at hp
      obtain ⟨c, _, rfl⟩ := List.mem_map.mp hp
      cases hk2

/-- **TransferableVoteDistributor, refusals** (`evaluate(votes, n)`, Gregory transfer, `eliminate_step` set,
    non-negative vote counts, a positive quota `q` with `(n + 1)·q > votes cast` — Droop, Hare): an evaluation that
    does not return a dict raises `VotingSystemError` or `NotImplementedError`; nothing else occurs. -/
theorem stvd_refusals {cfg : Cfg} {votes : Profile} {n : Nat} {ds : List Draw} {e : Err}
    (hwf : WFVotes votes) (hstep : cfg.step ≠ none) {q : Rat}
    (hq : computeQuota cfg (totalVotes votes) n = some q) (hpos : 0 < q)
    (hbig : totalVotes votes < ((n : Rat) + 1) * q)
    (h : distributorEvaluate gregory cfg (distInput votes n) ds = .error e) :
    e = .votingSystemError ∨ e = .notImplemented := by
  rcases stvd_refusals_partial h with h1 | h1 | ⟨hs, _⟩ | ⟨⟨q', hq', hle⟩, _⟩ | ⟨⟨st, hr, hgt⟩, _⟩
  · exact Or.inl h1
  · exact Or.inr h1
  · exact absurd hs hstep
  · rw [hq] at hq'; injection hq' with hq'; subst hq'; exact absurd hpos (not_lt.mpr hle)
  · exact absurd (dist_sum_le gregory_ok hwf hq hpos hbig hr) (by omega)

/-- the C08 family `stv_dist_gregory_droop`: Droop quota, positive total, at least one seat -/
theorem stvd_droop_refusals {cfg : Cfg} {votes : Profile} {n : Nat} {ds : List Draw} {e : Err}
    (hwf : WFVotes votes) (hstep : cfg.step ≠ none) (hc : cfg.quota = some Gen.Quota.droop)
    (htot : 0 < totalVotes votes) (h1 : 1 ≤ n)
    (h : distributorEvaluate gregory cfg (distInput votes n) ds = .error e) :
    e = .votingSystemError ∨ e = .notImplemented := by
  have hq : computeQuota cfg (totalVotes votes) n = some (Gen.Quota.droop (totalVotes votes) n) := by
    unfold computeQuota
    rw [hc]
    simp only
    rw [if_pos ⟨ne_of_gt htot, by omega⟩]
  exact stvd_refusals hwf hstep hq (C04.droop_positive hc hwf n _ hq) (C04.droop_exceeds hc hwf hq) h

/-- the same for the selector families of C08 (`stv_gregory_droop`, `stv_gregory_hare`), default configuration -/
theorem stv_droop_refusals {cfg : Cfg} {votes : Profile} {n : Nat} {ds : List Draw} {e : Err}
    (hwf : WFVotes votes) (hc : cfg.quota = some Gen.Quota.droop) (hstep : cfg.step = some (-1))
    (hmand : cfg.mandatory = false) (hn : n ≤ (allRanked votes).length)
    (h : selectorEvaluate gregory cfg votes n ds = .error e) : e = .notImplemented :=
  stv_default_refusals hstep hmand (stv_quota_pos_droop hc hwf n) hn h

theorem stv_hare_refusals {cfg : Cfg} {votes : Profile} {n : Nat} {ds : List Draw} {e : Err}
    (hwf : WFVotes votes) (hc : cfg.quota = some Gen.Quota.hare) (hstep : cfg.step = some (-1))
    (hmand : cfg.mandatory = false) (hn : n ≤ (allRanked votes).length)
    (h : selectorEvaluate gregory cfg votes n ds = .error e) : e = .notImplemented :=
  stv_default_refusals hstep hmand (stv_quota_pos_hare hc hwf n) hn h

/-! ## witnesses of the excluded outcomes, and non-vacuity -/

section Witness
def stvCfgDroop : Cfg := { quota := some Gen.Quota.droop, acceptEqual := true, mandatory := false, step := some (-1) }
def stvCfgHare : Cfg := { quota := some Gen.Quota.hare, acceptEqual := true, mandatory := false, step := some (-1) }

/-- **Finding (rounded quotas).**  Full statement that fails: `stv_refusals` without `hq`.  One voter ranking four
    candidates, three seats, `quota_function='hare_rounded'` (or `'hagenbach_bischoff_rounded'`): the quota is
    `round(1/3) = 0`, the model leaves its domain where `_elect_by_quota` computes `total // quota_val` — the Python
    code raises `ZeroDivisionError`, not a declared refusal.  The input is inside C08's quantifier (positive total,
    `1 ≤ n ≤ #candidates`). -/
theorem stv_refusals_quota_zero_witness :
    WFVotes [([.one 0, .one 1, .one 2, .one 3], 1)] ∧ 3 ≤ (allRanked [([.one 0, .one 1, .one 2, .one 3], 1)]).length ∧
    selectorEvaluate gregory { stvCfgDroop with quota := some Gen.Quota.hare_rounded }
      [([.one 0, .one 1, .one 2, .one 3], 1)] 3 [] = .error errNonPositiveQuota ∧
    selectorEvaluate gregory { stvCfgDroop with quota := some Gen.Quota.hagenbach_bischoff_rounded }
      [([.one 0, .one 1, .one 2, .one 3], 1)] 3 [] = .error errNonPositiveQuota := by
  refine ⟨by unfold WFVotes; decide +kernel, by decide +kernel, by decide +kernel, by decide +kernel⟩

/-- full statement that fails: `stv_refusals` without `hstep` — `eliminate_step=None` without a retainer raises
    `ValueError` as soon as somebody has to be eliminated -/
theorem stv_refusals_no_step_witness :
    selectorEvaluate gregory { stvCfgDroop with step := none } [([.one 0, .one 1, .one 2], 1), ([.one 1], 1)] 1 [] =
      .error .valueError := by decide +kernel

/-- full statement that fails of the MODEL: `stvd_refusals` without `hbig`.  Imperiali quota 10/4, two seats, one
    candidate with 9 of 10 votes holds three quotas and keeps all three (`_correct_overcount` only takes seats from
    candidates that are not among the best): three seats for a house of two.  The model stops here (outside its
    domain); the Python loop goes on and ends in `VotingSystemError('infinite loop in STV')`. -/
theorem stvd_refusals_over_award_witness :
    distributorEvaluate gregory { stvCfgDroop with quota := some Gen.Quota.imperiali }
      (distInput [([.one 0, .one 1, .one 2], 9), ([.one 1], 1)] 2) [] = .error errNegativeRemaining := by
  decide +kernel
end Witness

section Example
/-- a>b ×10, b ×3, c ×4, c>b ×1 (C03's example): two seats -/
def stvExVotes : Profile := [([.one 0, .one 1], 10), ([.one 1], 3), ([.one 2], 4), ([.one 2, .one 1], 1)]

example : WFVotes stvExVotes := by unfold WFVotes; decide +kernel
-- `stv_shape` / `stv_default_total`: a list is returned
example : selectorEvaluate gregory stvCfgDroop stvExVotes 2 [] = .ok [0, 1] ∧ 1 ≤ 2 ∧ 2 ≤ (allRanked stvExVotes).length := by
  decide +kernel
example : selectorEvaluate gregory stvCfgHare stvExVotes 2 [] = .ok [0, 2] := by decide +kernel
-- `stv_default_refusals`, `stv_droop_refusals`: the refusal occurs (a>b>c ×3, b>a>c ×3, c ×5; one seat)
example : selectorEvaluate gregory stvCfgDroop C04.cVotes 1 [] = .error .notImplemented ∧
    stvCfgDroop.step = some (-1) ∧ stvCfgDroop.mandatory = false ∧ 1 ≤ (allRanked C04.cVotes).length := by decide +kernel
-- `stv_refusals`: `VotingSystemError` occurs with `mandatory_quota` (a ×2, b ×1, two seats, Droop quota 2)
example : selectorEvaluate gregory { stvCfgDroop with mandatory := true } [([.one 0], 2), ([.one 1], 1)] 2 [] =
    .error .votingSystemError ∧ ({ stvCfgDroop with mandatory := true } : Cfg).step ≠ none := by decide +kernel
example : ∀ q, computeQuota { stvCfgDroop with mandatory := true } (totalVotes [([.one 0], 2), ([.one 1], 1)]) 2 = some q →
    0 < q := stv_quota_pos_droop rfl (by unfold WFVotes; decide +kernel) 2
-- … and with more seats than candidates
example : selectorEvaluate gregory stvCfgDroop [([.one 0], 1)] 2 [] = .error .votingSystemError := by decide +kernel
-- `stvd_shape`: a dict is returned; one candidate may hold several seats
example : distributorEvaluate gregory stvCfgDroop (distInput [([.one 0, .one 1, .one 2], 5), ([.one 1], 4)] 2) [] =
    .ok [(0, 1), (1, 1)] := by decide +kernel
example : distributorEvaluate gregory stvCfgDroop (distInput [([.one 0, .one 1], 8), ([.one 1], 1)] 2) [] =
    .ok [(0, 2)] := by decide +kernel
-- `stvd_refusals` / `stvd_droop_refusals`: the refusal occurs (nobody is ever removed for being elected)
example : distributorEvaluate gregory stvCfgDroop (distInput [([.one 0, .one 1, .one 2], 5), ([.one 1], 1)] 2) [] =
    .error .votingSystemError ∧ WFVotes [([.one 0, .one 1, .one 2], 5), ([.one 1], 1)] ∧
    0 < totalVotes [([.one 0, .one 1, .one 2], 5), ([.one 1], 1)] := by
  refine ⟨by decide +kernel, by unfold WFVotes; decide +kernel, by decide +kernel⟩
end Example

end VL.C08
