/-
  C08 for the transferable vote (models VL.STV, owned by C03 / C04).

  Family 1  `TransferableVoteSelector.evaluate`  = `selectorEvaluate E cfg votes n ds`
            (driver ops `stv_eval` / `stv_eval_psc` with `form = "selector"`).
  Family 2  `TransferableVoteDistributor.evaluate(votes, n)` (no previous gains, no maximum seats)
            = `distributorEvaluate E cfg (distInput votes n) ds`  (the same ops with `form = "distributor"`,
            `prev = []`, `max = []`).

  The candidates of a profile are `allRanked votes` (`util.all_ranked_candidates`).
-/
import VotelibProofs.Lemmas.ShapeDefs
import VotelibProofs.Props.C03
import VotelibProofs.Props.C04
namespace VL.C08
open VL VL.STV

/-! ## Family 1: the selector — shape -/

/-- a list of individually elected candidates as a selection result (the selector never returns a tie object:
    an unresolved tie is the refusal `NotImplementedError`) -/
def asSlots (l : List Cand) : List Slot := l.map Slot.cand

theorem selShape_of_cands {cands l : List Cand} {n : Nat} (hlen : l.length = n) (hnd : l.Nodup)
    (hsub : ∀ c ∈ l, c ∈ cands) : SelShape cands n (asSlots l) := by
  unfold asSlots
  refine ⟨by rw [List.length_map]; exact hlen, ?_, ?_, ?_, ?_, ?_⟩
  · intro c hc
    obtain ⟨d, hd, he⟩ := List.mem_map.mp hc
    injection he with he; subst he; exact hsub d hd
  · intro T hT; obtain ⟨d, _, he⟩ := List.mem_map.mp hT; cases he
  · rw [electedOf_map_cand]; exact hnd
  · intro T hT; obtain ⟨d, _, he⟩ := List.mem_map.mp hT; cases he
  · intro T hT; obtain ⟨d, _, he⟩ := List.mem_map.mp hT; cases he

/-- **TransferableVoteSelector, shape.**  Whatever the transferer (Gregory, or Hare under the draw contract), the
    configuration (any quota function or none, any `eliminate_step`, `mandatory_quota` or not), the profile and the
    seat number: a returned list has the selection shape over the candidates of the votes — exactly `n` entries,
    all of them candidates of the votes, nobody twice, and never a tie object. -/
theorem stv_shape {E : Engine} (hE : EngineOK E) {cfg : Cfg} {votes : Profile} {n : Nat} {ds : List Draw}
    {l : List Cand} (h : selectorEvaluate E cfg votes n ds = .ok l) :
    SelShape (allRanked votes) n (asSlots l) := by
  obtain ⟨h1, h2, h3⟩ := C04.result_shape hE h
  exact selShape_of_cands h1 h2 h3

/-- the instance C08 runs: Gregory transfer -/
theorem stv_gregory_shape {cfg : Cfg} {votes : Profile} {n : Nat} {ds : List Draw} {l : List Cand}
    (h : selectorEvaluate gregory cfg votes n ds = .ok l) : SelShape (allRanked votes) n (asSlots l) :=
  stv_shape gregory_ok h

/-! ## the run: every count makes progress, so the fuel of the model is never exhausted -/

theorem sumSeats_pos_of_ones {el : Seats} (hne : el ≠ []) (h : ∀ ck ∈ el, 1 ≤ ck.2) : 1 ≤ sumSeats el := by
  cases el with
  | nil => exact absurd rfl hne
  | cons x xs =>
    rw [sumSeats_cons]
    have := h x List.mem_cons_self
    omega

/-- termination measure of the counting loop -/
def stvMeasure (inp : Input) (st : St) : Nat :=
  if st.final then 0 else 1 + (inp.nSeats - sumSeats st.seats) + (continuing st.alloc).length

theorem final_false_of_ne {cfg : Cfg} {inp : Input} {st : St} (hi : StInv cfg inp st)
    (hne : sumSeats st.seats ≠ inp.nSeats) : st.final = false := by
  cases hf : st.final with
  | false => rfl
  | true => exact absurd (hi.fin hf) hne

/-- every executed count elects somebody, removes somebody, or is the last one -/
theorem step_decreases {E : Engine} (hE : EngineOK E) {cfg : Cfg} {inp : Input} {st st' : St}
    (hi : StInv cfg inp st) (h : countStep E cfg inp st = .ok (some st')) :
    stvMeasure inp st' < stvMeasure inp st := by
  obtain ⟨hne, out, ds', hnext, hnp, hadv⟩ := countStep_inv h
  have hfin := final_false_of_ne hi hne
  have hk := hi.keys hfin
  subst hadv
  obtain ⟨hle, hcase⟩ := nextCount_cases hnext
  unfold stvMeasure
  rw [hfin]
  simp only [advance, Bool.false_eq_true, if_false]
  rcases Bool.eq_false_or_eq_true out.shortcut with hsc | hsc
  · simp only [hsc, if_true]; omega
  · simp only [hsc, Bool.false_eq_true, if_false]
    have hc := count_inv hE hk hnext hsc
    have hlen : (continuing out.alloc).length ≤ (continuing st.alloc).length := by
      rw [hc.cont_eq]; exact List.length_filter_le _ _
    cases hcase with
    | shortcut hs he => rw [(electAll_spec he).2.1] at hsc; cases hsc
    | election qv hq hpos el hel hnel hout =>
      obtain ⟨_, _, _, _, he1, _, _⟩ := afterElection_inv hout
      obtain ⟨_, hfacts⟩ := election_facts hk hpos hel
      have h1 := sumSeats_pos_of_ones hnel (fun ck hck => (hfacts ck hck).2.1)
      rw [sumSeats_seatsAdd, he1]
      omega
    | elimination _ hout =>
      obtain ⟨retained, _, hel, _, he1, _⟩ := afterElimination_inv hout
      have hne2 : out.eliminated ≠ [] := by
        intro h0
        simp [noProgress, he1, hsc, h0] at hnp
      have hlt : (continuing out.alloc).length < (continuing st.alloc).length := by
        rw [hc.cont_eq]
        apply List.length_filter_lt_length_iff_exists.mpr
        obtain ⟨x, hx⟩ := List.exists_mem_of_ne_nil _ hne2
        refine ⟨x, ?_, by simpa using hx⟩
        rw [hel] at hx
        have := (List.mem_filter.mp hx).1
        rwa [keys_totalsInPlay] at this
      rw [he1]
      simp only [seatsAdd, List.foldl_nil]
      omega

theorem countStep_none {E : Engine} {cfg : Cfg} {inp : Input} {st : St} (h : countStep E cfg inp st = .ok none) :
    sumSeats st.seats = inp.nSeats := by
  unfold countStep at h
  split at h
  · assumption
  · split at h
    · cases h
    · split at h <;> cases h

/-- with fuel above the measure the loop stops because all seats are filled -/
theorem runCounts_finished {E : Engine} (hE : EngineOK E) {cfg : Cfg} {inp : Input} {ds : List Draw} :
    ∀ (k : Nat) (st st' : St), Reach E cfg inp ds st → stvMeasure inp st < k →
      runCounts E cfg inp k st = .ok st' → sumSeats st'.seats = inp.nSeats := by
  intro k
  induction k with
  | zero => intro st st' _ hk; omega
  | succ k ih =>
    intro st st' hr hk h
    simp only [runCounts] at h
    split at h
    · cases h
    · rename_i hnone
      injection h with h; subst h
      exact countStep_none hnone
    · rename_i st1 hstep
      have := step_decreases hE (reach_inv hE hr) hstep
      exact ih st1 st' (.step hr hstep) (by omega) h

theorem runCounts_error {E : Engine} {cfg : Cfg} {inp : Input} {ds : List Draw} {e : Err} :
    ∀ (k : Nat) (st : St), Reach E cfg inp ds st → runCounts E cfg inp k st = .error e →
      ∃ st', Reach E cfg inp ds st' ∧ countStep E cfg inp st' = .error e := by
  intro k
  induction k with
  | zero => intro st _ h; simp only [runCounts] at h; cases h
  | succ k ih =>
    intro st hr h
    simp only [runCounts] at h
    split at h
    · rename_i e' herr
      injection h with h; subst h
      exact ⟨st, hr, herr⟩
    · cases h
    · rename_i st1 hstep
      exact ih st1 (.step hr hstep) h

theorem initial_measure {E : Engine} (hE : EngineOK E) {inp : Input} {ds : List Draw} {st0 : St}
    (h0 : initState E inp ds = .ok st0) : stvMeasure inp st0 < evalFuel inp := by
  obtain ⟨_, hf0, _, _⟩ := initState_inv (cfg := ⟨none, true, false, none⟩) hE h0
  have hc0 : continuing st0.alloc = allRanked inp.votes := by
    unfold initState at h0
    split at h0
    · cases h0
    · rename_i a ds' hinit
      injection h0 with h0; subst h0
      exact (init_inv hE hinit).cont_eq
  unfold stvMeasure evalFuel
  rw [hf0, hc0]
  simp only [Bool.false_eq_true, if_false]
  omega

/-- how `evaluate` can fail: the initial allocation fails, or a count of a reached state fails -/
theorem distributorEvaluate_error {E : Engine} (hE : EngineOK E) {cfg : Cfg} {inp : Input} {ds : List Draw} {e : Err}
    (h : distributorEvaluate E cfg inp ds = .error e) :
    initState E inp ds = .error e ∨ ∃ st, Reach E cfg inp ds st ∧ countStep E cfg inp st = .error e := by
  unfold distributorEvaluate at h
  cases h0 : initState E inp ds with
  | error e0 => rw [h0] at h; simp only [bind, Except.bind] at h; injection h with h; subst h; exact Or.inl rfl
  | ok st0 =>
    right
    rw [h0] at h
    simp only [bind, Except.bind] at h
    cases hk : runCounts E cfg inp (evalFuel inp) st0 with
    | error e1 =>
      rw [hk] at h
      simp only at h
      injection h with h; subst h
      exact runCounts_error _ st0 (.init h0) hk
    | ok st =>
      rw [hk] at h
      simp only at h
      have hfin := runCounts_finished hE _ st0 st (.init h0) (initial_measure hE h0) hk
      have : finished inp st = true := by simp [finished, hfin]
      rw [this] at h
      simp [pure, Except.pure] at h

/-- **The model's fuel is never exhausted** (any transferer meeting the specification, any configuration, any
    input): the outcome `Err.other "fuel"` of `distributorEvaluate` / `selectorEvaluate` does not occur, i.e.
    `evalFuel` counts always suffice — every executed count fills a seat, removes a candidate or is the last. -/
theorem stv_fuel_unreachable {E : Engine} (hE : EngineOK E) (cfg : Cfg) (inp : Input) (ds : List Draw) :
    ∀ st0 st, initState E inp ds = .ok st0 → runCounts E cfg inp (evalFuel inp) st0 = .ok st →
      finished inp st = true := by
  intro st0 st h0 hk
  have hfin := runCounts_finished hE _ st0 st (.init h0) (initial_measure hE h0) hk
  simp [finished, hfin]

end VL.C08
