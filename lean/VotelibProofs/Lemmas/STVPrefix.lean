/-
  Generalisation of "rests with the top continuing candidate" to ballots that have shared ranks further down:
  as long as a candidate of the strict prefix of the ballot (its ranks before the first shared rank) continues,
  the paper rests with the first such candidate.
-/
import VotelibProofs.Lemmas.STVSplit
namespace VL.STV
open VL

def isOne : RankItem → Bool
  | .one _ => true
  | .shared _ => false

/-- the ranks of the ballot before its first shared rank -/
def strictPre (b : Ballot) : Ballot := b.takeWhile isOne

/-- the highest continuing candidate among the ranks before the first shared rank -/
def topPre (b : Ballot) (cont : List Cand) : Option Cand := topCont (strictPre b) cont

theorem strictPre_cons_one (c : Cand) (rest : Ballot) : strictPre (.one c :: rest) = .one c :: strictPre rest := by
  simp [strictPre, List.takeWhile_cons, isOne]

theorem strictPre_cons_shared (cs : List Cand) (rest : Ballot) : strictPre (.shared cs :: rest) = [] := by
  simp [strictPre, List.takeWhile_cons, isOne]

theorem topPre_cons_one (c : Cand) (rest : Ballot) (cont : List Cand) :
    topPre (.one c :: rest) cont = if c ∈ cont then some c else topPre rest cont := by
  unfold topPre; rw [strictPre_cons_one, topCont_cons_one]

theorem topPre_cons_shared (cs : List Cand) (rest : Ballot) (cont : List Cand) :
    topPre (.shared cs :: rest) cont = none := by
  unfold topPre; rw [strictPre_cons_shared]; rfl

theorem topPre_nil (cont : List Cand) : topPre [] cont = none := rfl

/-- scanning with `take_next` set: the first continuing candidate of the strict prefix is the single target -/
theorem rankedNextGo_true_pre (frm : Option Cand) (allowed : List Cand) (b : Ballot) {t : Cand}
    (h : topPre b allowed = some t) : rankedNextGo frm allowed true b = [t] := by
  induction b with
  | nil => rw [topPre_nil] at h; cases h
  | cons it rest ih =>
    cases it with
    | shared cs => rw [topPre_cons_shared] at h; cases h
    | one c =>
      rw [topPre_cons_one] at h
      simp only [rankedNextGo, if_true]
      by_cases hc : c ∈ allowed
      · rw [if_pos hc] at h ⊢; injection h with h; rw [h]
      · rw [if_neg hc] at h ⊢; exact ih h

/-- a paper resting with the top candidate `c` of its strict prefix goes, when `c` is removed, to the next
    continuing candidate of the strict prefix, if there is one -/
theorem rankedNextGo_false_pre {c : Cand} {c0 cont : List Cand} (b : Ballot) (htop : topPre b c0 = some c)
    (hsub : ∀ x ∈ cont, x ∈ c0) (hc : c ∉ cont) {t : Cand} (ht : topPre b cont = some t) :
    rankedNextGo (some c) cont false b = [t] := by
  induction b with
  | nil => rw [topPre_nil] at htop; cases htop
  | cons it rest ih =>
    cases it with
    | shared cs => rw [topPre_cons_shared] at htop; cases htop
    | one x =>
      rw [topPre_cons_one] at htop ht
      by_cases hx : x ∈ c0
      · rw [if_pos hx] at htop
        have hxc : x = c := by injection htop
        subst hxc
        rw [if_neg hc] at ht
        simp only [rankedNextGo, Bool.false_eq_true, if_false, if_true]
        exact rankedNextGo_true_pre _ _ _ ht
      · rw [if_neg hx] at htop
        have hne : c ≠ x := fun he => hx (he ▸ topCont_mem htop)
        have hxn : x ∉ cont := fun h => hx (hsub x h)
        rw [if_neg hxn] at ht
        simp only [rankedNextGo, Bool.false_eq_true, if_false]
        rw [if_neg (by intro he; injection he with he; exact hne he)]
        exact ih htop ht

theorem topPre_mono {b : Ballot} {c0 cont : List Cand} (hsub : ∀ x ∈ cont, x ∈ c0) :
    (∀ t, topPre b c0 = some t → t ∈ cont → topPre b cont = some t) ∧
    (topPre b c0 = none → topPre b cont = none) := topCont_mono hsub

/-- every paper rests with the first continuing candidate of its strict prefix, if there is one -/
def RestsPre (a : Alloc) : Prop :=
  ∀ hp ∈ a, ∀ x ∈ hp.2, ∀ t, topPre x.1 (continuing a) = some t → hp.1 = some t

theorem RestsPre.of_transfer {cont rs : List Cand} {a a' : Alloc} (hs : TransferSpec cont rs a a')
    (hcont : ∀ t, t ∈ cont ↔ t ∈ continuing a ∧ t ∉ rs) (hr : RestsPre a) : RestsPre a' := by
  intro hp hhp x hx t ht
  have hc' : ∀ u, u ∈ continuing a' ↔ u ∈ cont := by
    intro u; rw [hs.cont_eq, hcont]; simp [List.mem_filter]
  have hcongr : topPre x.1 (continuing a') = topPre x.1 cont := topCont_congr _ hc'
  rw [hcongr] at ht
  have hsub : ∀ u ∈ cont, u ∈ continuing a := fun u hu => ((hcont u).mp hu).1
  have htc : t ∈ cont := topCont_mem ht
  obtain ⟨hp0, hm0, ⟨w, hw⟩, hrel⟩ := hs.entry hp hhp x hx
  rcases hrel with ⟨h1, h2⟩ | ⟨c, hc, h1, h2⟩
  · -- the paper stayed: its old top (if any) is its holder
    cases htop : topPre x.1 (continuing a) with
    | none => rw [(topPre_mono hsub).2 htop] at ht; cases ht
    | some t0 =>
      have h0 := hr hp0 hm0 (x.1, w) hw t0 htop
      have ht0 : t0 ∈ cont := (hcont t0).mpr ⟨topCont_mem htop, fun hin => h2 t0 hin (by rw [← h1, h0])⟩
      have := (topPre_mono hsub).1 t0 htop ht0
      rw [this] at ht
      injection ht with ht
      rw [← h1, h0, ht]
  · -- the paper was re-allocated from `c`
    have hcn : c ∉ cont := fun hin => ((hcont c).mp hin).2 hc
    cases htop : topPre x.1 (continuing a) with
    | none => rw [(topPre_mono hsub).2 htop] at ht; cases ht
    | some t0 =>
      have h0 := hr hp0 hm0 (x.1, w) hw t0 htop
      have hct0 : c = t0 := by rw [h1] at h0; injection h0
      subst hct0
      have hrn : rankedNext x.1 (some c) cont = [t] := by
        simp only [rankedNext, Option.isNone_some]
        exact rankedNextGo_false_pre x.1 htop hsub hcn ht
      rcases h2 with ⟨_, h4⟩ | ⟨u, h3, h4⟩
      · rw [hrn] at h4; cases h4
      · rw [hrn] at h4; simp at h4; rw [h3, h4]

theorem RestsPre.of_subtract {el : List (Cand × Rat)} {a a' : Alloc} (hs : SubSpec el a a') (hr : RestsPre a) :
    RestsPre a' := by
  intro hp hhp x hx t ht
  obtain ⟨hp0, hm0, hk0, w, hw⟩ := hs.entry hp hhp x hx
  have hc : continuing a' = continuing a := by rw [continuing_eq, continuing_eq, hs.keys_eq]
  rw [hc] at ht
  rw [← hk0]
  exact hr hp0 hm0 (x.1, w) hw t ht

theorem RestsPre.of_transferIf {E : Engine} (hE : EngineOK E) {a a' : Alloc} {elim : List Cand} {ds ds' : List Draw}
    (h : transferIf E a elim ds = .ok (a', ds')) (hr : RestsPre a) : RestsPre a' := by
  rw [transferIf_eq] at h
  apply RestsPre.of_transfer (transfer_spec hE h) _ hr
  intro t
  simp only [List.mem_filter, decide_eq_true_eq, decide_not, Bool.not_eq_eq_eq_not, Bool.not_true,
    decide_eq_false_iff_not]
  tauto

theorem restsPre_init {E : Engine} (hE : EngineOK E) {votes : Profile} {ds ds' : List Draw} {a0 : Alloc}
    (h : initialAllocation E votes ds = .ok (a0, ds')) : RestsPre a0 := by
  unfold initialAllocation at h
  have hc : ∀ t ∈ allRanked votes, t ∈ continuing (firstPrefs votes) := by
    intro t ht; rw [continuing_firstPrefs]; exact ht
  have hs := movePile_spec hE hc h
  intro hp hhp x hx t ht
  rw [hs.cont_eq, continuing_firstPrefs] at ht
  rcases hs.entry hp hhp x hx with ⟨hp', hm', hk', hxx'⟩ | ⟨bw, hbw, h3, _⟩
  · unfold firstPrefs at hm'
    obtain ⟨c, hcm, rfl⟩ := List.mem_map.mp hm'
    have hx2 := (List.mem_filter.mp hxx').2
    rw [← hk']
    simp only
    unfold firstIs at hx2
    split at hx2
    · rename_i c' more hb
      have hcc : c' = c := by simpa using hx2
      rw [hb, topPre_cons_one, hcc, if_pos hcm] at ht
      injection ht with ht
      rw [ht]
    · cases hx2
  · exfalso
    have hsf := (List.mem_filter.mp hbw).2
    unfold sharedFirst at hsf
    split at hsf
    · rename_i ms more hb
      rw [h3, hb, topPre_cons_shared] at ht
      cases ht
    · cases hsf

theorem restsPre_step {E : Engine} (hE : EngineOK E) {cfg : Cfg} {inp : Input} {st st' : St}
    (hr : st.final = false → RestsPre st.alloc) (hfin : st.final = true → sumSeats st.seats = inp.nSeats)
    (h : countStep E cfg inp st = .ok (some st')) : st'.final = false → RestsPre st'.alloc := by
  obtain ⟨hne, out, ds', hnext, _, hadv⟩ := countStep_inv h
  have hf : st.final = false := by
    cases hf : st.final with
    | false => rfl
    | true => exact absurd (hfin hf) hne
  subst hadv
  intro hf'
  obtain ⟨_, hcase⟩ := nextCount_cases hnext
  cases hcase with
  | shortcut hs he =>
    have := (electAll_spec he).2.1
    simp only [advance] at hf'
    rw [this] at hf'; cases hf'
  | election qv hq hpos el hel hne' hout =>
    obtain ⟨a1, ds1, hsub, htr, _, _, _⟩ := afterElection_inv hout
    exact RestsPre.of_transferIf hE htr (RestsPre.of_subtract (subtract_spec hE hsub) (hr hf))
  | elimination _ hout =>
    obtain ⟨_, _, _, htr, _, _⟩ := afterElimination_inv hout
    exact RestsPre.of_transferIf hE htr (hr hf)

theorem reach_restsPre {E : Engine} (hE : EngineOK E) {cfg : Cfg} {inp : Input} {ds0 : List Draw} {st : St}
    (hr : Reach E cfg inp ds0 st) : st.final = false → RestsPre st.alloc := by
  induction hr with
  | init h =>
    intro _
    unfold initState at h
    split at h
    · cases h
    · rename_i a ds' hinit
      injection h with h; subst h
      exact restsPre_init hE hinit
  | step hr' h ih => exact restsPre_step hE ih (reach_inv hE hr').fin h


/-! ### ballots solid for a coalition through unshared ranks -/

theorem ballotCands_append (b1 b2 : Ballot) : ballotCands (b1 ++ b2) = ballotCands b1 ++ ballotCands b2 := by
  simp [ballotCands]

/-- the ballot is solid for `S` through a prefix of ranks none of which is shared -/
def solidStrict (b : Ballot) (S : List Cand) : Bool :=
  (List.range (b.length + 1)).any (fun j => sameSet (prefixCands b j) S && (b.take j).all isOne)

theorem takeWhile_append_all {p : RankItem → Bool} {l1 l2 : Ballot} (h : l1.all p = true) :
    (l1 ++ l2).takeWhile p = l1 ++ l2.takeWhile p := by
  induction l1 with
  | nil => rfl
  | cons x xs ih =>
    simp only [List.all_cons, Bool.and_eq_true] at h
    rw [List.cons_append, List.takeWhile_cons, if_pos h.1, ih h.2, List.cons_append]

/-- on a ballot solid for `S` through unshared ranks, the first continuing candidate of the strict prefix is a
    member of `S` as long as a member continues -/
theorem solid_top_pre {b : Ballot} {S cont : List Cand} (hs : solidStrict b S = true) {s : Cand} (hsS : s ∈ S)
    (hsc : s ∈ cont) : ∃ t, topPre b cont = some t ∧ t ∈ S := by
  unfold solidStrict at hs
  rw [List.any_eq_true] at hs
  obtain ⟨j, _, hj⟩ := hs
  rw [Bool.and_eq_true] at hj
  obtain ⟨hsame, hall⟩ := hj
  have hset := sameSet_iff.mp hsame
  unfold prefixCands at hset
  have hpre : strictPre b = b.take j ++ (b.drop j).takeWhile isOne := by
    unfold strictPre
    conv_lhs => rw [← List.take_append_drop j b]
    exact takeWhile_append_all hall
  unfold topPre topCont
  rw [hpre, ballotCands_append, List.find?_append]
  have hspre : s ∈ ballotCands (b.take j) := (hset s).mpr hsS
  cases hf : (ballotCands (b.take j)).find? (fun c => decide (c ∈ cont)) with
  | none =>
    exfalso
    rw [List.find?_eq_none] at hf
    exact hf s hspre (by simpa using hsc)
  | some t =>
    refine ⟨t, by simp, ?_⟩
    exact (hset t).mp (List.mem_of_find?_eq_some hf)

theorem all_isOne_of_noShared {b : Ballot} (h : noShared b = true) : b.all isOne = true := by
  unfold noShared at h
  rw [List.all_eq_true] at h ⊢
  intro x hx
  have := h x hx
  cases x with
  | one c => rfl
  | shared cs => simp at this

/-- a ballot without any shared rank that is solid for `S` is so through unshared ranks -/
theorem solidStrict_of_noShared {b : Ballot} {S : List Cand} (hn : noShared b = true) (hs : solidFor b S = true) :
    solidStrict b S = true := by
  unfold solidFor at hs
  unfold solidStrict
  rw [List.any_eq_true] at hs ⊢
  obtain ⟨j, hj, hsame⟩ := hs
  refine ⟨j, hj, ?_⟩
  rw [Bool.and_eq_true]
  refine ⟨hsame, ?_⟩
  have := all_isOne_of_noShared hn
  rw [List.all_eq_true] at this ⊢
  intro x hx
  exact this x (List.mem_of_mem_take hx)

end VL.STV
