/-
  Justified representation of PAV committees: the swap / averaging argument, on lists.
-/
import VotelibProofs.Lemmas.C12Approval
import Mathlib.Algebra.Order.BigOperators.Group.List
import Mathlib.Algebra.BigOperators.Group.List.Basic
import Mathlib.Tactic.Linarith
import Mathlib.Tactic.FieldSimp
import Mathlib.Tactic.Positivity
namespace VL.Appr
open VL

/-- the number of votes cast -/
def totalWeight (votes : Profile) : Rat := (votes.map (·.2)).sum

/-- weights are non-negative -/
def NonNeg (votes : Profile) : Prop := ∀ bw ∈ votes, 0 ≤ bw.2

instance (votes : Profile) : Decidable (NonNeg votes) := by unfold NonNeg; infer_instance

/-- weight of the voters who approve `c` and nobody in `W` -/
def unrepresented (votes : Profile) (W : List Cand) (c : Cand) : Rat :=
  (votes.map (fun bw => if c ∈ bw.1 ∧ interLen bw.1 W = 0 then bw.2 else 0)).sum

theorem sum_comm' {α β : Type} (W : List α) (L : List β) (f : α → β → Rat) :
    (W.map (fun x => (L.map (fun b => f x b)).sum)).sum = (L.map (fun b => (W.map (fun x => f x b)).sum)).sum := by
  induction W with
  | nil => simp
  | cons y ys ih =>
    simp only [List.map_cons, List.sum_cons]
    rw [ih, ← List.sum_map_add]

theorem harmonic_succ (k : Nat) : harmonic (k + 1) = harmonic k + 1 / (((k + 1 : Nat)) : Rat) := rfl

theorem harmonic_nonneg (k : Nat) : 0 ≤ harmonic k := by
  induction k with
  | zero => simp [harmonic]
  | succ k ih => rw [harmonic_succ]; positivity

theorem mem_interFilter {b A : List Cand} {y : Cand} :
    y ∈ b.filter (fun c => A.contains c) ↔ y ∈ b ∧ y ∈ A := by
  rw [List.mem_filter]; simp

/-- removing a committee member `x` lowers the number of approved members exactly on the ballots approving `x` -/
theorem interLen_remove {W : List Cand} {x : Cand} (hx : x ∈ W) {b : List Cand} (hb : b.Nodup) :
    interLen b (W.filter (· != x)) + (if x ∈ b then 1 else 0) = interLen b W := by
  unfold interLen
  induction b with
  | nil => simp
  | cons y ys ih =>
    have hy := List.nodup_cons.mp hb
    have ih' := ih hy.2
    by_cases hyx : y = x
    · subst hyx
      have hnot : y ∉ ys := hy.1
      have h1 : (W.filter (· != y)).contains y = false := by simp
      have h2 : W.contains y = true := by simpa using hx
      simp only [List.filter_cons, h1, h2, List.mem_cons, true_or, if_true, Bool.false_eq_true, if_false,
        List.length_cons]
      rw [if_neg hnot] at ih'
      omega
    · have h1 : (W.filter (· != x)).contains y = W.contains y := by
        by_cases hyW : y ∈ W
        · have : y ∈ W.filter (· != x) := List.mem_filter.mpr ⟨hyW, by simpa using hyx⟩
          simp [hyW, this, hyx]
        · have : y ∉ W.filter (· != x) := fun h => hyW (List.mem_filter.mp h).1
          simp [hyW]
      have hxy : ¬ x = y := fun h => hyx h.symm
      simp only [List.filter_cons, h1, List.mem_cons, hxy, false_or]
      split
      · simp only [List.length_cons]; omega
      · exact ih'

/-- adding a candidate outside the committee raises it exactly on the ballots approving the candidate -/
theorem interLen_cons {A : List Cand} {c : Cand} (hc : c ∉ A) {b : List Cand} (hb : b.Nodup) :
    interLen b (c :: A) = interLen b A + (if c ∈ b then 1 else 0) := by
  unfold interLen
  induction b with
  | nil => simp
  | cons y ys ih =>
    have hy := List.nodup_cons.mp hb
    have ih' := ih hy.2
    by_cases hyc : y = c
    · subst hyc
      have hnot : y ∉ ys := hy.1
      have h1 : (y :: A).contains y = true := by simp
      have h2 : A.contains y = false := by simpa using hc
      simp only [List.filter_cons, h1, h2, List.mem_cons, true_or, if_true, Bool.false_eq_true, if_false,
        List.length_cons]
      rw [if_neg hnot] at ih'
      omega
    · have h1 : (c :: A).contains y = A.contains y := by
        simp [hyc]
      have hcy : ¬ c = y := fun h => hyc h.symm
      simp only [List.filter_cons, h1, List.mem_cons, hcy, false_or]
      split
      · simp only [List.length_cons]; omega
      · exact ih'

/-- for duplicate-free lists the intersection has the same size counted from either side -/
theorem inter_comm_length {W b : List Cand} (hW : W.Nodup) (hb : b.Nodup) :
    (W.filter (fun x => decide (x ∈ b))).length = interLen b W := by
  unfold interLen
  apply List.Perm.length_eq
  apply (List.perm_ext_iff_of_nodup (hW.filter _) (hb.filter _)).mpr
  intro a
  rw [mem_interFilter, List.mem_filter]
  simp only [decide_eq_true_eq]
  tauto

theorem sum_ite_const (W : List Cand) (P : Cand → Prop) [DecidablePred P] (t : Rat) :
    (W.map (fun x => if P x then t else 0)).sum = ((W.filter (fun x => decide (P x))).length : Rat) * t := by
  induction W with
  | nil => simp
  | cons y ys ih =>
    by_cases h : P y
    · simp only [List.map_cons, List.sum_cons, h, if_true, List.filter_cons, decide_true, List.length_cons, ih]
      push_cast; ring
    · simp only [List.map_cons, List.sum_cons, h, if_false, List.filter_cons, decide_false, Bool.false_eq_true, ih]
      ring

/-- (P1) the satisfaction a ballot loses when `x` leaves the committee -/
theorem ballot_remove {W : List Cand} {x : Cand} (hx : x ∈ W) {b : List Cand} (hb : b.Nodup) (w : Rat) :
    harmonic (interLen b W) * w =
      harmonic (interLen b (W.filter (· != x))) * w + (if x ∈ b then w / ((interLen b W : Nat) : Rat) else 0) := by
  have h := interLen_remove hx hb
  by_cases hxb : x ∈ b
  · rw [if_pos hxb] at h ⊢
    rw [← h, harmonic_succ]
    ring
  · rw [if_neg hxb] at h ⊢
    rw [Nat.add_zero] at h
    rw [h]; ring

/-- (P3) the satisfaction a ballot gains when `c` joins; a ballot approving `c` and nobody in `W` gains its full weight -/
theorem ballot_add {W : List Cand} {x c : Cand} (hx : x ∈ W) (hc : c ∉ W) {b : List Cand} (hb : b.Nodup)
    {w : Rat} (hw : 0 ≤ w) :
    harmonic (interLen b (W.filter (· != x))) * w + (if c ∈ b ∧ interLen b W = 0 then w else 0) ≤
      harmonic (interLen b (c :: W.filter (· != x))) * w := by
  have hcA : c ∉ W.filter (· != x) := fun h => hc (List.mem_filter.mp h).1
  rw [interLen_cons hcA hb]
  have hrem := interLen_remove hx hb
  by_cases hcb : c ∈ b
  · rw [if_pos hcb, harmonic_succ]
    by_cases hk : interLen b W = 0
    · have hk' : interLen b (W.filter (· != x)) = 0 := by omega
      rw [if_pos ⟨hcb, hk⟩, hk']
      simp [harmonic]
    · rw [if_neg (fun h => hk h.2)]
      have : 0 ≤ 1 / (((interLen b (W.filter (· != x)) + 1 : Nat)) : Rat) * w := by positivity
      linarith
  · rw [if_neg hcb, if_neg (fun h => hcb h.1)]
    simp

/-- (P2) summed over the committee, the losses of one ballot are its weight if it approves a member, else nothing -/
theorem ballot_losses {W : List Cand} (hW : W.Nodup) {b : List Cand} (hb : b.Nodup) (w : Rat) :
    (W.map (fun x => if x ∈ b then w / ((interLen b W : Nat) : Rat) else 0)).sum =
      if interLen b W = 0 then 0 else w := by
  rw [sum_ite_const W (fun x => x ∈ b), inter_comm_length hW hb]
  by_cases hk : interLen b W = 0
  · rw [if_pos hk, hk]; simp
  · rw [if_neg hk]
    have : (((interLen b W : Nat)) : Rat) ≠ 0 := by exact_mod_cast hk
    field_simp

/-- a duplicate-free list of candidates of the right size is, up to order, one of the committees compared by PAV -/
theorem max_over_sets {votes : Profile} {n : Nat} {W : List Cand}
    (hmax : ∀ B : List Cand, B.Sublist (allCands votes) → B.length = n → satH votes B ≤ satH votes W)
    {B : List Cand} (hnd : B.Nodup) (hsub : ∀ y ∈ B, y ∈ allCands votes) (hlen : B.length = n) :
    satH votes B ≤ satH votes W := by
  set B' := (allCands votes).filter (fun y => B.contains y) with hB'
  have hmem : ∀ y, y ∈ B' ↔ y ∈ B := by
    intro y
    rw [hB', List.mem_filter]
    constructor
    · intro h; simpa using h.2
    · intro h; exact ⟨hsub y h, by simpa using h⟩
  have hperm : B'.Perm B :=
    (List.perm_ext_iff_of_nodup ((allCands_nodup votes).filter _) hnd).mpr hmem
  rw [← satH_congr (a := B') (a' := B) hmem]
  exact hmax B' List.filter_sublist (by rw [hperm.length_eq]; exact hlen)

/-- **Justified representation, core inequality.**  For a committee `W` of `n ≥ 1` distinct candidates that no other
    `n`-subset beats in harmonic satisfaction, and any candidate `c`: the voters approving `c` but nobody in `W` weigh
    strictly less than `V / n`. -/
theorem jr_core {votes : Profile} (hwf : WF votes) (hnn : NonNeg votes) {W : List Cand} (hWnd : W.Nodup)
    (hWsub : ∀ x ∈ W, x ∈ allCands votes) {n : Nat} (hn : W.length = n) (hn1 : 1 ≤ n)
    (hmax : ∀ B : List Cand, B.Sublist (allCands votes) → B.length = n → satH votes B ≤ satH votes W)
    (hV : 0 < totalWeight votes) (c : Cand) :
    (n : Rat) * unrepresented votes W c < totalWeight votes := by
  set u := unrepresented votes W c with hu
  set V := totalWeight votes with hVdef
  have hnpos : (0 : Rat) < n := by exact_mod_cast hn1
  by_cases hu0 : u ≤ 0
  · have : (n : Rat) * u ≤ 0 := mul_nonpos_of_nonneg_of_nonpos (le_of_lt hnpos) hu0
    linarith
  · have hupos : 0 < u := not_le.mp hu0
    -- some ballot approves c and nobody in W
    have hex : ∃ bw ∈ votes, c ∈ bw.1 ∧ interLen bw.1 W = 0 := by
      by_contra hne
      have hne' : ∀ bw ∈ votes, ¬ (c ∈ bw.1 ∧ interLen bw.1 W = 0) := fun bw hbw h => hne ⟨bw, hbw, h⟩
      have : u = 0 := by
        rw [hu]; unfold unrepresented
        apply List.sum_eq_zero
        intro t ht
        obtain ⟨bw, hbw, rfl⟩ := List.mem_map.mp ht
        rw [if_neg (hne' bw hbw)]
      linarith
    obtain ⟨bw0, hbw0, hcb0, hk0⟩ := hex
    have hcall : c ∈ allCands votes := mem_allCands.mpr ⟨bw0, hbw0, hcb0⟩
    have hcW : c ∉ W := by
      intro hcW
      have : c ∈ bw0.1.filter (fun y => W.contains y) := mem_interFilter.mpr ⟨hcb0, hcW⟩
      have hpos := List.length_pos_of_mem this
      unfold interLen at hk0
      omega
    -- losses
    let L : Cand → Rat := fun x =>
      (votes.map (fun bw => if x ∈ bw.1 then bw.2 / ((interLen bw.1 W : Nat) : Rat) else 0)).sum
    have hsumL : (W.map L).sum + u ≤ V := by
      have h1 : (W.map L).sum = (votes.map (fun bw => if interLen bw.1 W = 0 then 0 else bw.2)).sum := by
        show (W.map (fun x => (votes.map (fun bw => if x ∈ bw.1 then bw.2 / ((interLen bw.1 W : Nat) : Rat) else 0)).sum)).sum = _
        rw [sum_comm' W votes (fun x bw => if x ∈ bw.1 then bw.2 / ((interLen bw.1 W : Nat) : Rat) else 0)]
        apply congrArg
        apply List.map_congr_left
        intro bw hbw
        exact ballot_losses hWnd (hwf bw hbw) bw.2
      rw [h1, hu, hVdef]
      unfold unrepresented totalWeight
      rw [← List.sum_map_add]
      apply List.sum_le_sum
      intro bw hbw
      have hw := hnn bw hbw
      by_cases hk : interLen bw.1 W = 0
      · rw [if_pos hk]
        by_cases hcb : c ∈ bw.1
        · rw [if_pos ⟨hcb, hk⟩]; linarith
        · rw [if_neg (fun h => hcb h.1)]; linarith
      · rw [if_neg hk, if_neg (fun h => hk h.2)]; linarith
    have hWne : W ≠ [] := by
      intro h; rw [h] at hn; simp at hn; omega
    -- a member whose loss is at most the average
    obtain ⟨x, hxW, hLx⟩ : ∃ x ∈ W, L x ≤ (V - u) / n := by
      apply List.exists_le_of_sum_le hWne L (fun _ => (V - u) / n)
      have : (W.map (fun _ : Cand => (V - u) / (n : Rat))).sum = V - u := by
        rw [List.map_const', List.sum_replicate, hn]
        simp only [nsmul_eq_mul]
        field_simp
      rw [this]; linarith
    -- satisfaction of W without x, and of the swap
    have hremove : satH votes W ≤ satH votes (W.filter (· != x)) + L x := by
      show satH votes W ≤ satH votes (W.filter (· != x)) +
        (votes.map (fun bw => if x ∈ bw.1 then bw.2 / ((interLen bw.1 W : Nat) : Rat) else 0)).sum
      unfold satH
      rw [← List.sum_map_add]
      apply List.sum_le_sum
      intro bw hbw
      exact le_of_eq (ballot_remove hxW (hwf bw hbw) bw.2)
    have hadd : satH votes (W.filter (· != x)) + u ≤ satH votes (c :: W.filter (· != x)) := by
      rw [hu]; unfold satH unrepresented
      rw [← List.sum_map_add]
      apply List.sum_le_sum
      intro bw hbw
      exact ballot_add hxW hcW (hwf bw hbw) (hnn bw hbw)
    have hswap : satH votes (c :: W.filter (· != x)) ≤ satH votes W := by
      apply max_over_sets hmax
      · refine List.nodup_cons.mpr ⟨fun h => hcW (List.mem_filter.mp h).1, hWnd.filter _⟩
      · intro y hy
        rcases List.mem_cons.mp hy with rfl | hy
        · exact hcall
        · exact hWsub y (List.mem_filter.mp hy).1
      · rw [List.length_cons, ← hWnd.erase_eq_filter, List.length_erase_of_mem hxW, hn]
        omega
    -- arithmetic
    have h1 : u ≤ (V - u) / n := by linarith
    have h2 : u * n ≤ V - u := by
      have := mul_le_mul_of_nonneg_right h1 (le_of_lt hnpos)
      rwa [div_mul_cancel₀ _ (ne_of_gt hnpos)] at this
    by_contra hcontra
    have : V ≤ n * u := not_lt.mp hcontra
    linarith

end VL.Appr
