/-
  C07: a refusal of the ported tie-and-transfer loop is justified — closure of the labelling, the adjustment
  coefficient is attained, the labels at a refusal form a Hall cut accepted by the verified checker.
-/
import VotelibProofs.Lemmas.Biprop
import Mathlib.Data.List.Perm.Subperm
import Mathlib.Data.Rat.Floor
namespace VL.Biprop

variable {ord : List Nat}

theorem foldl_ext_len {α γ : Type} (g : List γ → α → List γ) (hext : ∀ b a, b.length ≤ (g b a).length) :
    ∀ (l : List α) (b : List γ), b.length ≤ (l.foldl g b).length
  | [], b => le_refl _
  | a :: l, b => by
    rw [List.foldl_cons]
    exact le_trans (hext b a) (foldl_ext_len g hext l (g b a))

theorem foldl_ext_fix {α γ : Type} (g : List γ → α → List γ) (hext : ∀ b a, b.length ≤ (g b a).length)
    (hfix : ∀ b a, (g b a).length = b.length → g b a = b) :
    ∀ (l : List α) (b : List γ), (l.foldl g b).length = b.length → l.foldl g b = b ∧ ∀ a ∈ l, g b a = b
  | [], b, _ => ⟨rfl, fun a ha => by simp at ha⟩
  | a :: l, b, h => by
    rw [List.foldl_cons] at h ⊢
    have h1 := hext b a
    have h2 := foldl_ext_len g hext l (g b a)
    have hga : g b a = b := hfix b a (by omega)
    rw [hga] at h ⊢
    obtain ⟨ih1, ih2⟩ := foldl_ext_fix g hext hfix l b h
    refine ⟨ih1, fun a' ha' => ?_⟩
    rcases List.mem_cons.mp ha' with rfl | ha'
    · exact hga
    · exact ih2 a' ha'

/-- inner step of `phase1` for district `d` -/
def p1step (q : Rat) (qt : Nat → Nat → Rat) (x : Mat Nat) (d : Nat) (lp : LabP) (p : Nat) : LabP :=
  if !hasKey lp p && isDown q (qt d p) (mget x d p) then lp ++ [(p, d)] else lp
/-- inner step of `phase2` for party `p` -/
def p2step (q : Rat) (qt : Nat → Nat → Rat) (x : Mat Nat) (p : Nat) (ld : LabD) (d : Nat) : LabD :=
  if !hasKey ld d && isUp q (qt d p) (mget x d p) then ld ++ [(d, some p)] else ld

theorem phase1_eq (q : Rat) (qt : Nat → Nat → Rat) (x : Mat Nat) (n : Nat) (labD : LabD) (labP : LabP) :
    phase1 q qt x n ord labD labP = labD.foldl (fun lp e => (ord.filter (fun p => decide (p < n))).foldl (p1step q qt x e.1) lp) labP := rfl
theorem phase2_eq (q : Rat) (qt : Nat → Nat → Rat) (x : Mat Nat) (m : Nat) (labD : LabD) (labP : LabP) :
    phase2 q qt x m labD labP = labP.foldl (fun ld e => (List.range m).foldl (p2step q qt x e.1) ld) labD := rfl

theorem p1step_len (q qt x d) (lp : LabP) (p : Nat) : lp.length ≤ (p1step q qt x d lp p).length := by
  unfold p1step; split <;> simp
theorem p1step_fix (q qt x d) (lp : LabP) (p : Nat) (h : (p1step q qt x d lp p).length = lp.length) :
    p1step q qt x d lp p = lp := by
  unfold p1step at h ⊢; split at h
  · simp at h
  · rename_i hc; rw [if_neg hc]
theorem p2step_len (q qt x p) (ld : LabD) (d : Nat) : ld.length ≤ (p2step q qt x p ld d).length := by
  unfold p2step; split <;> simp
theorem p2step_fix (q qt x p) (ld : LabD) (d : Nat) (h : (p2step q qt x p ld d).length = ld.length) :
    p2step q qt x p ld d = ld := by
  unfold p2step at h ⊢; split at h
  · simp at h
  · rename_i hc; rw [if_neg hc]

theorem phase1_len (q qt x n) (labD : LabD) (labP : LabP) : labP.length ≤ (phase1 q qt x n ord labD labP).length := by
  rw [phase1_eq]
  exact foldl_ext_len (fun lp (e : Nat × Option Nat) => (ord.filter (fun p => decide (p < n))).foldl (p1step q qt x e.1) lp)
    (fun b e => foldl_ext_len (p1step q qt x e.1) (p1step_len q qt x e.1) (ord.filter (fun p => decide (p < n))) b) labD labP
theorem phase2_len (q qt x m) (labD : LabD) (labP : LabP) : labD.length ≤ (phase2 q qt x m labD labP).length := by
  rw [phase2_eq]
  exact foldl_ext_len (fun ld (e : Nat × Nat) => (List.range m).foldl (p2step q qt x e.1) ld)
    (fun b e => foldl_ext_len (p2step q qt x e.1) (p2step_len q qt x e.1) (List.range m) b) labP labD

/-- a round of `phase1` that adds no label: nothing changed, and every downgradable cell of a labelled district
    belongs to a labelled party -/
theorem phase1_fix {q : Rat} {qt : Nat → Nat → Rat} {x : Mat Nat} {n : Nat} {labD : LabD} {labP : LabP}
    (h : (phase1 q qt x n ord labD labP).length = labP.length) :
    phase1 q qt x n ord labD labP = labP ∧
    ∀ e ∈ labD, ∀ p ∈ ord, p < n → isDown q (qt e.1 p) (mget x e.1 p) = true → hasKey labP p = true := by
  rw [phase1_eq] at h ⊢
  obtain ⟨h1, h2⟩ := foldl_ext_fix (fun lp (e : Nat × Option Nat) => (ord.filter (fun p => decide (p < n))).foldl (p1step q qt x e.1) lp)
    (fun b e => foldl_ext_len _ (p1step_len q qt x e.1) _ b)
    (fun b e hb => (foldl_ext_fix _ (p1step_len q qt x e.1) (p1step_fix q qt x e.1) _ b hb).1) labD labP h
  refine ⟨h1, fun e he p hpo hp hdown => ?_⟩
  have hin := h2 e he
  have hlen : ((ord.filter (fun p => decide (p < n))).foldl (p1step q qt x e.1) labP).length = labP.length := by
    rw [hin]
  have := (foldl_ext_fix _ (p1step_len q qt x e.1) (p1step_fix q qt x e.1) _ labP hlen).2 p
    (List.mem_filter.mpr ⟨hpo, decide_eq_true hp⟩)
  unfold p1step at this
  by_contra hk
  have hk' : hasKey labP p = false := by simpa using hk
  rw [if_pos (by simp [hk', hdown])] at this
  have := congrArg List.length this
  simp at this

theorem phase2_fix {q : Rat} {qt : Nat → Nat → Rat} {x : Mat Nat} {m : Nat} {labD : LabD} {labP : LabP}
    (h : (phase2 q qt x m labD labP).length = labD.length) :
    phase2 q qt x m labD labP = labD ∧
    ∀ e ∈ labP, ∀ d < m, isUp q (qt d e.1) (mget x d e.1) = true → hasKey labD d = true := by
  rw [phase2_eq] at h ⊢
  obtain ⟨h1, h2⟩ := foldl_ext_fix (fun ld (e : Nat × Nat) => (List.range m).foldl (p2step q qt x e.1) ld)
    (fun b e => foldl_ext_len _ (p2step_len q qt x e.1) _ b)
    (fun b e hb => (foldl_ext_fix _ (p2step_len q qt x e.1) (p2step_fix q qt x e.1) _ b hb).1) labP labD h
  refine ⟨h1, fun e he d hd hup => ?_⟩
  have hin := h2 e he
  have hlen : ((List.range m).foldl (p2step q qt x e.1) labD).length = labD.length := by
    rw [hin]
  have := (foldl_ext_fix _ (p2step_len q qt x e.1) (p2step_fix q qt x e.1) _ labD hlen).2 d (List.mem_range.mpr hd)
  unfold p2step at this
  by_contra hk
  have hk' : hasKey labD d = false := by simpa using hk
  rw [if_pos (by simp [hk', hup])] at this
  have := congrArg List.length this
  simp at this

/-- keys are distinct and inside the matrix -/
def KeysOk {α : Type} (bound : Nat) (l : List (Nat × α)) : Prop := (l.map (·.1)).Nodup ∧ ∀ e ∈ l, e.1 < bound

theorem hasKey_iff {α : Type} (l : List (Nat × α)) (k : Nat) : hasKey l k = true ↔ k ∈ l.map (·.1) := by
  unfold hasKey
  simp only [List.any_eq_true, beq_iff_eq, List.mem_map]

theorem KeysOk.length_le {α : Type} {bound : Nat} {l : List (Nat × α)} (h : KeysOk bound l) : l.length ≤ bound := by
  have hsub : l.map (·.1) ⊆ List.range bound := by
    intro k hk
    obtain ⟨e, he, rfl⟩ := List.mem_map.mp hk
    exact List.mem_range.mpr (h.2 e he)
  have := (List.subperm_of_subset h.1 hsub).length_le
  simpa using this

theorem KeysOk.append {α : Type} {bound : Nat} {l : List (Nat × α)} (h : KeysOk bound l) {k : Nat} {v : α}
    (hk : hasKey l k = false) (hb : k < bound) : KeysOk bound (l ++ [(k, v)]) := by
  refine ⟨?_, ?_⟩
  · rw [List.map_append, List.nodup_append]
    refine ⟨h.1, by simp, ?_⟩
    intro a ha b hb'
    simp only [List.map_cons, List.map_nil, List.mem_singleton] at hb'
    subst hb'
    intro hab; subst hab
    have := (hasKey_iff l a).mpr ha
    rw [hk] at this; simp at this
  · intro e he
    rcases List.mem_append.mp he with he | he
    · exact h.2 e he
    · simp only [List.mem_singleton] at he; subst he; exact hb

theorem phase1_keys {q : Rat} {qt : Nat → Nat → Rat} {x : Mat Nat} {n : Nat} {labD : LabD} {labP : LabP}
    (h : KeysOk n labP) : KeysOk n (phase1 q qt x n ord labD labP) := by
  rw [phase1_eq]
  apply foldl_inv (KeysOk n) _ labD labP h
  intro lp e _ hlp
  apply foldl_inv (KeysOk n) _ (ord.filter (fun p => decide (p < n))) lp hlp
  intro lp' p hp hlp'
  simp only [p1step]
  split
  · rename_i hc
    simp only [Bool.and_eq_true, Bool.not_eq_true'] at hc
    exact hlp'.append hc.1 (of_decide_eq_true (List.mem_filter.mp hp).2)
  · exact hlp'

theorem phase2_keys {q : Rat} {qt : Nat → Nat → Rat} {x : Mat Nat} {m : Nat} {labD : LabD} {labP : LabP}
    (h : KeysOk m labD) : KeysOk m (phase2 q qt x m labD labP) := by
  rw [phase2_eq]
  apply foldl_inv (KeysOk m) _ labP labD h
  intro ld e _ hld
  apply foldl_inv (KeysOk m) _ (List.range m) ld hld
  intro ld' d hd hld'
  simp only [p2step]
  split
  · rename_i hc
    simp only [Bool.and_eq_true, Bool.not_eq_true'] at hc
    exact hld'.append hc.1 (List.mem_range.mp hd)
  · exact hld'

theorem phase2_mono {q : Rat} {qt : Nat → Nat → Rat} {x : Mat Nat} {m : Nat} {labD : LabD} {labP : LabP} :
    ∀ k, hasKey labD k = true → hasKey (phase2 q qt x m labD labP) k = true := by
  rw [phase2_eq]
  apply foldl_inv (fun ld' => ∀ k, hasKey labD k = true → hasKey ld' k = true) _ labP labD (fun _ h => h)
  intro ld e _ hld
  apply foldl_inv (fun ld' => ∀ k, hasKey labD k = true → hasKey ld' k = true) _ (List.range m) ld hld
  intro ld' d _ hld' k hk
  simp only [p2step]
  split
  · unfold hasKey; rw [List.any_append]; simp only [Bool.or_eq_true]; left; exact hld' k hk
  · exact hld' k hk

/-- the labels at the exit of `_labeled`: either an under-represented district was reached, or the labelling is
    closed under both search steps -/
def LabClosed (q : Rat) (qt : Nat → Nat → Rat) (x : Mat Nat) (m n : Nat) (ord : List Nat) (labD : LabD) (labP : LabP) :
    Prop :=
  (∀ e ∈ labD, ∀ p ∈ ord, p < n → isDown q (qt e.1 p) (mget x e.1 p) = true → hasKey labP p = true) ∧
  (∀ e ∈ labP, ∀ d < m, isUp q (qt d e.1) (mget x d e.1) = true → hasKey labD d = true)

theorem labelLoop_exit {q : Rat} {qt : Nat → Nat → Rat} {x : Mat Nat} {m n : Nat} {under : List Nat} :
    ∀ (f : Nat) (ld : LabD) (lp : LabP), KeysOk m ld → KeysOk n lp → m + n + 1 ≤ f + ld.length + lp.length →
      (∀ k, hasKey ld k = true → hasKey (labelLoop q qt x m n ord under f ld lp).1 k = true) ∧
      (under.any (hasKey (labelLoop q qt x m n ord under f ld lp).1) = true ∨
       LabClosed q qt x m n ord (labelLoop q qt x m n ord under f ld lp).1 (labelLoop q qt x m n ord under f ld lp).2)
  | 0, ld, lp, hD, hP, hf => by
    have := hD.length_le; have := hP.length_le; omega
  | f+1, ld, lp, hD, hP, hf => by
    have hP' := phase1_keys (ord := ord) (q := q) (qt := qt) (x := x) (labD := ld) hP
    have hD' := phase2_keys (q := q) (qt := qt) (x := x) (labP := phase1 q qt x n ord ld lp) hD
    have hmono := phase2_mono (q := q) (qt := qt) (x := x) (m := m) (labD := ld) (labP := phase1 q qt x n ord ld lp)
    have hl1 := phase1_len (ord := ord) q qt x n ld lp
    have hl2 := phase2_len q qt x m ld (phase1 q qt x n ord ld lp)
    simp only [labelLoop]
    split
    · rename_i hu; exact ⟨hmono, Or.inl hu⟩
    · split
      · rename_i heq
        refine ⟨hmono, Or.inr ?_⟩
        have e1 : (phase1 q qt x n ord ld lp).length = lp.length := by omega
        have e2 : (phase2 q qt x m ld (phase1 q qt x n ord ld lp)).length = ld.length := by omega
        obtain ⟨f1, c1⟩ := phase1_fix e1
        obtain ⟨f2, c2⟩ := phase2_fix e2
        rw [f2, f1]
        rw [f1] at c2
        exact ⟨c1, c2⟩
      · rename_i hne
        obtain ⟨ih1, ih2⟩ := labelLoop_exit f _ _ hD' hP' (by omega)
        exact ⟨fun k hk => ih1 k (hmono k hk), ih2⟩

open Finset

theorem labeled_exit {q : Rat} {qt : Nat → Nat → Rat} {x : Mat Nat} {m n : Nat} {under over : List Nat}
    (hnd : over.Nodup) (hlt : ∀ d ∈ over, d < m) :
    (∀ d ∈ over, hasKey (labeled q qt x m n ord under over).1 d = true) ∧
    (under.any (hasKey (labeled q qt x m n ord under over).1) = true ∨
      LabClosed q qt x m n ord (labeled q qt x m n ord under over).1 (labeled q qt x m n ord under over).2) := by
  unfold labeled
  have hK : KeysOk m (over.map (fun d => (d, (none : Option Nat)))) := by
    refine ⟨by simpa [List.map_map, Function.comp_def] using hnd, ?_⟩
    intro e he
    obtain ⟨d, hd, rfl⟩ := List.mem_map.mp he
    exact hlt d hd
  have hK2 : KeysOk n ([] : LabP) := ⟨by simp, fun e he => by simp at he⟩
  obtain ⟨h1, h2⟩ := labelLoop_exit (q := q) (qt := qt) (x := x) (under := under) (m + n + 2) _ _ hK hK2
    (by simp; omega)
  refine ⟨fun d hd => h1 d ?_, h2⟩
  rw [hasKey_iff]
  simp only [List.map_map, Function.comp_def, List.map_id']
  exact hd

theorem pyInt_signpost {q : Rat} (hq : q = 0 ∨ q = 1/2) (k : Nat) (hk : 1 ≤ k) :
    ((Py.pyInt ((k : Rat) - q) : Int) : Rat) = (k : Rat) - q - q := by
  have hk' : (1 : Rat) ≤ (k : Rat) := by exact_mod_cast hk
  unfold Py.pyInt
  rcases hq with rfl | rfl
  · have h0 : (0 : Rat) ≤ (k : Rat) - 0 := by linarith
    rw [if_pos h0]
    have : ((k : Rat) - 0).floor = (k : Int) := by
      show ⌊(k : Rat) - 0⌋ = (k : Int)
      rw [Int.floor_eq_iff]; push_cast; constructor <;> linarith
    rw [this]; push_cast; ring
  · have h0 : (0 : Rat) ≤ (k : Rat) - 1/2 := by linarith
    rw [if_pos h0]
    have : ((k : Rat) - 1/2).floor = (k : Int) - 1 := by
      show ⌊(k : Rat) - 1/2⌋ = (k : Int) - 1
      rw [Int.floor_eq_iff]; push_cast; constructor <;> linarith
    rw [this]; push_cast; ring

theorem isDown_of_eq {q : Rat} (hq : q = 0 ∨ q = 1/2) {qt : Rat} {s : Nat} (hs : 1 ≤ s) (h : qt = (s : Rat) - q) :
    isDown q qt s = true := by
  unfold isDown
  rw [h, pyInt_signpost hq s hs]
  simp [hs]

theorem isUp_of_eq {q : Rat} (hq : q = 0 ∨ q = 1/2) {qt : Rat} {s : Nat} (h : qt = (s : Rat) + 1 - q) :
    isUp q qt s = true := by
  unfold isUp
  have := pyInt_signpost hq (s + 1) (by omega)
  push_cast at this
  rw [h, this]
  simp

theorem maxFold_mem_or : ∀ (l : List Rat) (init : Rat), maxFold init l = init ∨ maxFold init l ∈ l
  | [], init => Or.inl rfl
  | b :: l, init => by
    unfold maxFold; rw [List.foldl_cons]
    have := maxFold_mem_or l (if b > init then b else init)
    unfold maxFold at this
    rcases this with h | h
    · rw [h]; split
      · exact Or.inr List.mem_cons_self
      · exact Or.inl rfl
    · exact Or.inr (List.mem_cons_of_mem _ h)

/-- the adjustment coefficient is 0 or attained at a cell that bounds it -/
theorem adjCoef_attained {q : Rat} {qt : Nat → Nat → Rat} {x : Mat Nat} {m n : Nat} {labD : LabD} {labP : LabP}
    {c : Rat} (h : adjCoef q qt x m n labD labP = .ok c) :
    c = 0 ∨
    (∃ i < m, ∃ j < n, hasKey labD i = true ∧ hasKey labP j = false ∧ (mget x i j : Rat) - q > 0 ∧
      qt i j ≠ 0 ∧ c = ((mget x i j : Rat) - q) / qt i j) ∨
    (∃ i < m, ∃ j < n, hasKey labD i = false ∧ hasKey labP j = true ∧ qt i j > 0 ∧
      c = 1 / (((mget x i j : Rat) - q + 1) / qt i j)) := by
  unfold adjCoef at h
  simp only at h
  split at h
  · simp at h
  · rename_i hz
    have halpha : maxFold 0 ((alphaCells q qt x m n labD labP).map (fun c => c.1 / c.2)) = 0 ∨
        ∃ i < m, ∃ j < n, hasKey labD i = true ∧ hasKey labP j = false ∧ (mget x i j : Rat) - q > 0 ∧
          qt i j ≠ 0 ∧ maxFold 0 ((alphaCells q qt x m n labD labP).map (fun c => c.1 / c.2))
            = ((mget x i j : Rat) - q) / qt i j := by
      rcases maxFold_mem_or ((alphaCells q qt x m n labD labP).map (fun c => c.1 / c.2)) 0 with h0 | hm
      · exact Or.inl h0
      · right
        rw [List.mem_map] at hm
        obtain ⟨ac, hac, heq⟩ := hm
        have hne : ac.2 ≠ 0 := by
          intro h0; apply hz; rw [List.any_eq_true]; exact ⟨ac, hac, by simp [h0]⟩
        unfold alphaCells at hac
        rw [List.mem_filterMap] at hac
        obtain ⟨cell, hcell, hsome⟩ := hac
        obtain ⟨i, j⟩ := cell
        have hij := mem_cells.mp hcell
        split at hsome
        · rename_i hcond
          simp only [Bool.and_eq_true, Bool.not_eq_true', decide_eq_true_eq] at hcond
          simp only [Option.some.injEq] at hsome
          subst hsome
          exact ⟨i, hij.1, j, hij.2, hcond.1.1, hcond.1.2, hcond.2, hne, heq.symm⟩
        · simp at hsome
    split at h
    · simp only [Except.ok.injEq] at h
      rcases halpha with h0 | hc
      · left; rw [← h, h0]
      · right; left; rw [← h]; exact hc
    · rename_i beta hbeta
      simp only [Except.ok.injEq] at h
      split at h
      · rcases halpha with h0 | hc
        · left; rw [← h, h0]
        · right; left; rw [← h]; exact hc
      · right; right
        have hbmem := minFold_mem hbeta
        rw [List.mem_map] at hbmem
        obtain ⟨bc, hbc, hbceq⟩ := hbmem
        unfold betaCells at hbc
        rw [List.mem_filterMap] at hbc
        obtain ⟨cell, hcell, hsome⟩ := hbc
        obtain ⟨i, j⟩ := cell
        have hij := mem_cells.mp hcell
        split at hsome
        · rename_i hcond
          simp only [Bool.and_eq_true, Bool.not_eq_true', decide_eq_true_eq] at hcond
          simp only [Option.some.injEq] at hsome
          subst hsome
          exact ⟨i, hij.1, j, hij.2, hcond.1.1, hcond.1.2, hcond.2, by rw [← h, ← hbceq]⟩
        · simp at hsome

/-- with a closed labelling and every cell between its signposts the adjustment coefficient is below 1 -/
theorem adjCoef_lt_one {q : Rat} (hq : q = 0 ∨ q = 1/2) {qt : Nat → Nat → Rat} {x : Mat Nat} {m n : Nat}
    {labD : LabD} {labP : LabP} {c : Rat}
    (hqt : ∀ i < m, ∀ j < n, 0 ≤ qt i j)
    (hcell : ∀ i < m, ∀ j < n, isRounding q (qt i j) (mget x i j))
    (hord : ∀ i < m, ∀ j < n, qt i j ≠ 0 → j ∈ ord)
    (hclosed : LabClosed q qt x m n ord labD labP)
    (h : adjCoef q qt x m n labD labP = .ok c) : c < 1 := by
  have hq0 : 0 ≤ q := by rcases hq with rfl | rfl <;> norm_num
  have hq1 : q < 1 := by rcases hq with rfl | rfl <;> norm_num
  by_contra hge
  have hge : 1 ≤ c := not_lt.mp hge
  rcases adjCoef_attained h with h0 | ⟨i, hi, j, hj, hd, hp, hs, hne, hc⟩ | ⟨i, hi, j, hj, hd, hp, hpos, hc⟩
  · linarith
  · have hqpos : 0 < qt i j := lt_of_le_of_ne (hqt i hi j hj) (Ne.symm hne)
    rw [hc, le_div_iff₀ hqpos] at hge
    have hx1 : 1 ≤ mget x i j := by
      by_contra hlt
      have : mget x i j = 0 := by omega
      rw [this] at hs; simp at hs; linarith
    have hr := hcell i hi j hj
    have hlow : (mget x i j : Rat) - q ≤ qt i j := by
      rcases hr.1 with h0 | h0
      · omega
      · exact h0
    have heq : qt i j = (mget x i j : Rat) - q := by linarith
    have hdown := isDown_of_eq hq hx1 heq
    obtain ⟨e, he, hek⟩ : ∃ e ∈ labD, e.1 = i := by
      have := (hasKey_iff labD i).mp hd
      obtain ⟨e, he, rfl⟩ := List.mem_map.mp this
      exact ⟨e, he, rfl⟩
    have := hclosed.1 e he j (hord i hi j hj hne) hj (by rw [hek]; exact hdown)
    rw [hp] at this; simp at this
  · have hden : (0 : Rat) < (mget x i j : Rat) - q + 1 := by
      have : (0 : Rat) ≤ (mget x i j : Rat) := Nat.cast_nonneg _
      linarith
    rw [hc, one_div_div, le_div_iff₀ hden] at hge
    have hr := hcell i hi j hj
    have heq : qt i j = (mget x i j : Rat) + 1 - q := by linarith [hr.2]
    have hup := isUp_of_eq hq heq
    obtain ⟨e, he, hek⟩ : ∃ e ∈ labP, e.1 = j := by
      have := (hasKey_iff labP j).mp hp
      obtain ⟨e, he, rfl⟩ := List.mem_map.mp this
      exact ⟨e, he, rfl⟩
    have := hclosed.2 e he i hi (by rw [hek]; exact hup)
    rw [hd] at this; simp at this


theorem augPath_error {labD : LabD} {labP : LabP} {over : List Nat} :
    ∀ (f d : Nat) (e : Err), augPath labD labP over f d = .error e → e = .other "KeyError"
  | 0, _, e, h => by simp [augPath] at h; exact h.symm
  | f+1, d, e, h => by
    simp only [augPath] at h
    split at h
    · simp at h
    · split at h
      · split at h
        · rename_i d' _
          cases hr : augPath labD labP over f d' with
          | error e' =>
            rw [hr] at h
            simp only [Except.error.injEq] at h
            rw [← h]; exact augPath_error f d' e' hr
          | ok r => rw [hr] at h; simp at h
        · simp at h; exact h.symm
      · simp at h; exact h.symm

theorem applyPath_error : ∀ (path : List (Nat × Nat × Nat)) (x : Mat Nat) (e : Err),
    applyPath path x = .error e → e = .other "KeyError"
  | [], _, _, h => by simp [applyPath] at h
  | (d, p, d') :: rest, x, e, h => by
    simp only [applyPath] at h
    split at h
    · simp at h; exact h.symm
    · exact applyPath_error rest _ e h

theorem augment_error {x : Mat Nat} {labD : LabD} {labP : LabP} {start fuel : Nat} {over : List Nat} {e : Err}
    (h : augment x labD labP start over fuel = .error e) : e = .other "KeyError" := by
  unfold augment at h
  cases hp : augPath labD labP over fuel start with
  | error e' => rw [hp] at h; simp only [Except.error.injEq] at h; rw [← h]; exact augPath_error _ _ _ hp
  | ok path => rw [hp] at h; exact applyPath_error _ _ _ h

theorem adjCoef_error {q : Rat} {qt : Nat → Nat → Rat} {x : Mat Nat} {m n : Nat} {labD : LabD} {labP : LabP}
    {e : Err} (h : adjCoef q qt x m n labD labP = .error e) : e = .other "ZeroDivisionError" := by
  unfold adjCoef at h
  simp only at h
  split at h
  · simp at h; exact h.symm
  · split at h <;> simp at h

/-- the districts below / above their target, and the labels `_labeled` computes from them -/
def underOf (tgt : List Nat) (s : State) (m : Nat) : List Nat :=
  (List.range m).filter (fun i => decide (rowSum s.x i < tgt.getD i 0))
def overOf (tgt : List Nat) (s : State) (m : Nat) : List Nat :=
  (List.range m).filter (fun i => decide (rowSum s.x i > tgt.getD i 0))
def labelsOf (q : Rat) (ord : List Nat) (V : Mat Rat) (tgt : List Nat) (s : State) : LabD × LabP :=
  labeled q (quot V s) s.x V.length (nCols V) ord (underOf tgt s V.length) (overOf tgt s V.length)

/-- what a `VotingSystemError` of one loop iteration means -/
theorem step_refusal {q : Rat} {V : Mat Rat} {tgt : List Nat} {s : State}
    (h : step q ord V tgt s = .error .votingSystemError) :
    ¬ ((underOf tgt s V.length).isEmpty && (overOf tgt s V.length).isEmpty) = true ∧
    (underOf tgt s V.length).filter (hasKey (labelsOf q ord V tgt s).1) = [] ∧
    ∃ c, adjCoef q (quot V s) s.x V.length (nCols V) (labelsOf q ord V tgt s).1 (labelsOf q ord V tgt s).2 = .ok c ∧
      (c = 0 ∨ c ≥ 1) := by
  unfold labelsOf underOf overOf
  unfold step at h
  simp only at h
  split at h
  · simp at h
  · rename_i hne
    refine ⟨hne, ?_⟩
    generalize labeled q (quot V s) s.x V.length (nCols V) ord _ _ = L at h ⊢
    obtain ⟨labD, labP⟩ := L
    simp only at h ⊢
    split at h
    · rename_i start _ _
      cases haug : augment s.x labD labP start
          ((List.range V.length).filter (fun i => decide (rowSum s.x i > tgt.getD i 0))) (V.length + nCols V + 2) with
      | error e =>
        rw [haug] at h
        simp only [Except.error.injEq] at h
        have := augment_error haug
        rw [h] at this; simp at this
      | ok x' => rw [haug] at h; simp at h
    · rename_i hnil
      refine ⟨hnil, ?_⟩
      cases hadj : adjCoef q (quot V s) s.x V.length (nCols V) labD labP with
      | error e =>
        rw [hadj] at h
        simp only [Except.error.injEq] at h
        have := adjCoef_error hadj
        rw [h] at this; simp at this
      | ok c =>
        rw [hadj] at h
        simp only at h
        refine ⟨c, rfl, ?_⟩
        split at h
        · rename_i hc
          simpa using hc
        · simp at h


theorem rowSum_eq {x : Mat Nat} {m n : Nat} (hs : shapeOk x m n = true) {i : Nat} (hi : i < m) :
    rowSum x i = ∑ j ∈ range n, mget x i j := by
  unfold rowSum
  rw [← sumN_eq_sum, ← sumN_getD, shapeOk_row hs hi]
  rfl

theorem ordCovers_mem {V : Mat Rat} (h : ordCovers ord V = true) : ∀ i j, vget V i j ≠ 0 → j ∈ ord := by
  intro i j hv
  simp only [ordCovers, List.all_eq_true, List.mem_range, Bool.or_eq_true, beq_iff_eq] at h
  unfold vget at hv
  simp only [List.getD_eq_getElem?_getD] at hv
  cases hi : V[i]? with
  | none => rw [hi] at hv; simp at hv
  | some r =>
    rw [hi] at hv
    simp only [Option.getD_some] at hv
    have hr : r ∈ V := List.mem_of_getElem? hi
    have hj : j < r.length := by
      by_contra hc
      rw [List.getElem?_eq_none (by omega)] at hv
      simp at hv
    rcases h r hr j hj with h0 | h0
    · rw [List.getD_eq_getElem?_getD] at h0; exact absurd h0 hv
    · simpa using h0

/-- **A refusal is justified**: when an iteration raises `VotingSystemError` in a consistent state, the labels
    (or, without any over-represented district, the whole matrix) form a Hall cut that the verified checker
    accepts for the district targets and the current party totals. -/
theorem step_refusal_cut {q : Rat} (hq : q = 0 ∨ q = 1/2) {V : Mat Rat} {tgt : List Nat} {s : State}
    (hV : ∀ i j, 0 ≤ vget V i j) (hcov : ordCovers ord V = true) (hs : shapeOk s.x V.length (nCols V) = true)
    (hinv : LoopInv q V V.length (nCols V) s) (h : step q ord V tgt s = .error .votingSystemError) :
    ∃ S T : Nat → Bool, infeasibleCheck V.length (nCols V) (vget V) (fun i => tgt.getD i 0)
      (fun j => sumN (fun i => mget s.x i j) V.length) S T = true := by
  have hq0 : 0 ≤ q := by rcases hq with rfl | rfl <;> norm_num
  have hq1 : q < 1 := by rcases hq with rfl | rfl <;> norm_num
  obtain ⟨hne, hnil, c, hadj, hc⟩ := step_refusal h
  obtain ⟨hdc, hpc, hcell⟩ := hinv
  have hunder : ∀ i, i ∈ underOf tgt s V.length ↔ i < V.length ∧ rowSum s.x i < tgt.getD i 0 := by
    intro i; simp [underOf, List.mem_filter]
  have hover : ∀ i, i ∈ overOf tgt s V.length ↔ i < V.length ∧ rowSum s.x i > tgt.getD i 0 := by
    intro i; simp [overOf, List.mem_filter]
  have hqt : ∀ i < V.length, ∀ j < nCols V, 0 ≤ quot V s i j := by
    intro i hi j hj; unfold quot
    exact mul_nonneg (mul_nonneg (hV i j) (le_of_lt (hdc i hi))) (le_of_lt (hpc j hj))
  by_cases hov : overOf tgt s V.length = []
  · -- nobody is over-represented but somebody is under-represented: the targets exceed the seats there are
    refine ⟨fun _ => true, fun _ => true, ?_⟩
    unfold infeasibleCheck
    simp only [Bool.or_eq_true, Bool.and_eq_true, allN_iff, decide_eq_true_eq, sumN_eq_sum, if_true]
    left
    refine ⟨fun i _ j _ => by simp, ?_⟩
    rw [Finset.sum_comm]
    have hun : underOf tgt s V.length ≠ [] := by
      intro hu; apply hne; rw [hu, hov]; rfl
    obtain ⟨i0, hi0⟩ := List.exists_mem_of_ne_nil _ hun
    obtain ⟨hi0m, hi0lt⟩ := (hunder i0).mp hi0
    apply Finset.sum_lt_sum
    · intro i hi
      have him := Finset.mem_range.mp hi
      rw [← rowSum_eq hs him]
      by_contra hgt
      have : i ∈ overOf tgt s V.length := (hover i).mpr ⟨him, by omega⟩
      rw [hov] at this; simp at this
    · exact ⟨i0, Finset.mem_range.mpr hi0m, by rw [← rowSum_eq hs hi0m]; exact hi0lt⟩
  · -- the labelled districts and parties form the cut
    obtain ⟨hovl, hexit⟩ := labeled_exit (q := q) (qt := quot V s) (x := s.x) (n := nCols V)
      (under := underOf tgt s V.length) (over := overOf tgt s V.length)
      (List.Nodup.filter _ List.nodup_range) (fun d hd => ((hover d).mp hd).1)
    have hclosed : LabClosed q (quot V s) s.x V.length (nCols V) ord (labelsOf q ord V tgt s).1 (labelsOf q ord V tgt s).2 := by
      rcases hexit with hu | hcl
      · exfalso
        rw [List.any_eq_true] at hu
        obtain ⟨i, hi, hk⟩ := hu
        have : i ∈ (underOf tgt s V.length).filter (hasKey (labelsOf q ord V tgt s).1) :=
          List.mem_filter.mpr ⟨hi, hk⟩
        rw [hnil] at this; simp at this
      · exact hcl
    have hord : ∀ i < V.length, ∀ j < nCols V, quot V s i j ≠ 0 → j ∈ ord := by
      intro i _ j _ hne0
      apply ordCovers_mem hcov i j
      intro hv0; apply hne0; unfold quot; rw [hv0]; simp
    have hlt1 := adjCoef_lt_one hq hqt hcell hord hclosed hadj
    have hc0 : c = 0 := by rcases hc with h0 | h1; exact h0; linarith
    subst hc0
    obtain ⟨_, halpha, hbeta⟩ := adjCoef_bounds hq1 hadj
    refine ⟨hasKey (labelsOf q ord V tgt s).1, hasKey (labelsOf q ord V tgt s).2, ?_⟩
    -- labelled district × unlabelled party holds no seat
    have hzeroA : ∀ i < V.length, ∀ j < nCols V, hasKey (labelsOf q ord V tgt s).1 i = true →
        hasKey (labelsOf q ord V tgt s).2 j = false → mget s.x i j = 0 := by
      intro i hi j hj hd hp
      by_contra hx
      have hx1 : (1 : Rat) ≤ (mget s.x i j : Rat) := by exact_mod_cast Nat.one_le_iff_ne_zero.mpr hx
      obtain ⟨hne0, hle⟩ := halpha i hi j hj hd hp (by linarith)
      have hpos : 0 < quot V s i j := lt_of_le_of_ne (hqt i hi j hj) (Ne.symm hne0)
      have : 0 < ((mget s.x i j : Rat) - q) / quot V s i j := div_pos (by linarith) hpos
      linarith
    -- unlabelled district × labelled party has no votes
    have hzeroB : ∀ i < V.length, ∀ j < nCols V, hasKey (labelsOf q ord V tgt s).1 i = false →
        hasKey (labelsOf q ord V tgt s).2 j = true → vget V i j = 0 := by
      intro i hi j hj hd hp
      by_contra hv
      have hvpos : 0 < vget V i j := lt_of_le_of_ne (hV i j) (Ne.symm hv)
      have hpos : 0 < quot V s i j := by
        unfold quot; exact mul_pos (mul_pos hvpos (hdc i hi)) (hpc j hj)
      have hb := hbeta i hi j hj hd hp hpos
      have hxnn : (0 : Rat) ≤ (mget s.x i j : Rat) := Nat.cast_nonneg _
      have : 0 < 1 / (((mget s.x i j : Rat) - q + 1) / quot V s i j) :=
        one_div_pos.mpr (div_pos (by linarith) hpos)
      linarith
    unfold infeasibleCheck
    simp only [Bool.or_eq_true, Bool.and_eq_true, allN_iff, decide_eq_true_eq, sumN_eq_sum,
      Bool.not_eq_true', beq_iff_eq]
    right
    refine ⟨?_, ?_⟩
    · intro i hi j hj
      by_cases hd : hasKey (labelsOf q ord V tgt s).1 i = true
      · left; left; exact hd
      · by_cases hp : hasKey (labelsOf q ord V tgt s).2 j = true
        · right; exact hzeroB i hi j hj (by simpa using hd) hp
        · left; right; simpa using hp
    · obtain ⟨i0, hi0⟩ := List.exists_mem_of_ne_nil _ hov
      obtain ⟨hi0m, hi0gt⟩ := (hover i0).mp hi0
      have hS0 : hasKey (labelsOf q ord V tgt s).1 i0 = true := hovl i0 hi0
      -- Σ_{i∈S} tgt_i < Σ_{i∈S} cur_i
      have h1 : ∑ i ∈ range V.length, (if hasKey (labelsOf q ord V tgt s).1 i = true then tgt.getD i 0 else 0)
          < ∑ i ∈ range V.length, (if hasKey (labelsOf q ord V tgt s).1 i = true then rowSum s.x i else 0) := by
        apply Finset.sum_lt_sum
        · intro i hi
          have him := Finset.mem_range.mp hi
          by_cases hd : hasKey (labelsOf q ord V tgt s).1 i = true
          · simp only [hd, if_true]
            by_contra hlt
            have : i ∈ (underOf tgt s V.length).filter (hasKey (labelsOf q ord V tgt s).1) :=
              List.mem_filter.mpr ⟨(hunder i).mpr ⟨him, by omega⟩, hd⟩
            rw [hnil] at this; simp at this
          · simp [hd]
        · exact ⟨i0, Finset.mem_range.mpr hi0m, by rw [if_pos hS0, if_pos hS0]; exact hi0gt⟩
      -- Σ_{i∈S} cur_i ≤ Σ_{j∈T} col_j
      have h2 : ∑ i ∈ range V.length, (if hasKey (labelsOf q ord V tgt s).1 i = true then rowSum s.x i else 0)
          ≤ ∑ j ∈ range (nCols V), (if hasKey (labelsOf q ord V tgt s).2 j = true
              then ∑ i ∈ range V.length, mget s.x i j else 0) := by
        have e : ∑ j ∈ range (nCols V), (if hasKey (labelsOf q ord V tgt s).2 j = true
              then ∑ i ∈ range V.length, mget s.x i j else 0)
            = ∑ i ∈ range V.length, ∑ j ∈ range (nCols V),
                (if hasKey (labelsOf q ord V tgt s).2 j = true then mget s.x i j else 0) := by
          rw [Finset.sum_comm]
          apply Finset.sum_congr rfl
          intro j _
          by_cases hp : hasKey (labelsOf q ord V tgt s).2 j = true <;> simp [hp]
        rw [e]
        apply Finset.sum_le_sum
        intro i hi
        have him := Finset.mem_range.mp hi
        by_cases hd : hasKey (labelsOf q ord V tgt s).1 i = true
        · simp only [hd, if_true]
          rw [rowSum_eq hs him]
          apply Finset.sum_le_sum
          intro j hj
          have hjn := Finset.mem_range.mp hj
          by_cases hp : hasKey (labelsOf q ord V tgt s).2 j = true
          · simp [hp]
          · rw [hzeroA i him j hjn hd (by simpa using hp)]; simp
        · simp [hd]
      exact lt_of_lt_of_le h1 h2

theorem mapM_except_error {α β ε : Type} (f : α → Except ε β) :
    ∀ (l : List α) (e : ε), l.mapM f = .error e → ∃ a ∈ l, f a = .error e
  | [], e, h => by simp only [List.mapM_nil] at h; cases h
  | a :: l, e, h => by
    rw [List.mapM_cons] at h
    cases hfa : f a with
    | error e' =>
      rw [hfa] at h
      cases h
      exact ⟨a, List.mem_cons_self, hfa⟩
    | ok b =>
      rw [hfa] at h
      cases hl : l.mapM f with
      | error e' =>
        rw [hl] at h
        cases h
        obtain ⟨a', ha', hfa'⟩ := mapM_except_error f l e hl
        exact ⟨a', List.mem_cons_of_mem _ ha', hfa'⟩
      | ok bs => rw [hl] at h; cases h

theorem haEvaluate_error {div : Nat → Rat} {votes : List Rat} {n : Nat} {e : Err}
    (h : haEvaluate div votes n = .error e) : e ≠ .votingSystemError := by
  unfold haEvaluate at h
  split at h
  · simp only [Except.error.injEq] at h; rw [← h]; simp
  · simp at h

theorem partySeats_error {div : Nat → Rat} {V : Mat Rat} {total : Nat} {e : Err}
    (h : partySeats div V total = .error e) : e ≠ .votingSystemError := by
  unfold partySeats at h
  cases hr : haEvaluate div (colTotals V) total with
  | error e' => rw [hr] at h; simp only [Except.error.injEq] at h; rw [← h]; exact haEvaluate_error hr
  | ok r =>
    rw [hr] at h
    simp only at h
    split at h
    · simp only [Except.error.injEq] at h; rw [← h]; simp
    · simp at h

theorem districtSeats_error {div : Nat → Rat} {V : Mat Rat} {total : Nat} {e : Err}
    (h : districtSeats div V total = .error e) : e ≠ .votingSystemError := by
  unfold districtSeats at h
  cases hr : haEvaluate div (rowTotals V) total with
  | error e' => rw [hr] at h; simp only [Except.error.injEq] at h; rw [← h]; exact haEvaluate_error hr
  | ok r =>
    rw [hr] at h
    simp only at h
    split at h
    · simp only [Except.error.injEq] at h; rw [← h]; simp
    · simp at h

theorem initialColumn_error {div : Nat → Rat} {V : Mat Rat} {j k : Nat} {e : Err}
    (h : initialColumn div V j k = .error e) : e ≠ .votingSystemError := by
  unfold initialColumn at h
  split at h
  · simp at h
  · cases hr : haEvaluate div (colOf V j) k with
    | error e' => rw [hr] at h; simp only [Except.error.injEq] at h; rw [← h]; exact haEvaluate_error hr
    | ok r => rw [hr] at h; simp at h

theorem initState_error {div : Nat → Rat} {q : Rat} {V : Mat Rat} {total : Nat} {e : Err}
    (h : initState div q V total = .error e) : e ≠ .votingSystemError := by
  unfold initState at h
  cases hx : initialSolution div V total with
  | ok x0 => rw [hx] at h; simp at h
  | error e' =>
    rw [hx] at h
    simp only [Except.error.injEq] at h
    subst h
    unfold initialSolution at hx
    cases hps : partySeats div V total with
    | error e'' => rw [hps] at hx; simp only [Except.error.injEq] at hx; rw [← hx]; exact partySeats_error hps
    | ok ps =>
      rw [hps] at hx
      simp only at hx
      cases hcols : (List.range (nCols V)).mapM (fun j => initialColumn div V j (ps.getD j 0)) with
      | ok cols => rw [hcols] at hx; simp at hx
      | error e'' =>
        rw [hcols] at hx
        simp only [Except.error.injEq] at hx
        obtain ⟨j, _, hj⟩ := mapM_except_error _ _ _ hcols
        rw [← hx]; exact initialColumn_error hj

end VL.Biprop
