/-
  C08 — the two result-shape schemata (`SelShape` for selections, `DistShape` / `DistShapeI` for distributions)
  and the instance everything else reduces to: `get_n_best` has the selection shape.
-/
import VotelibProofs.Props.C09
namespace VL.C08
open VL

/-- individually elected candidates of a selection result -/
def electedOf : List Slot → List Cand
  | [] => []
  | Slot.cand c :: r => c :: electedOf r
  | Slot.tie _ :: r => electedOf r

/-- shape of a selection result for `n` seats over the candidates `cands` -/
structure SelShape (cands : List Cand) (n : Nat) (r : List Slot) : Prop where
  length   : r.length = n
  cand_ok  : ∀ c, Slot.cand c ∈ r → c ∈ cands
  tie_ok   : ∀ T, Slot.tie T ∈ r → ∀ c ∈ T, c ∈ cands
  nodup    : (electedOf r).Nodup
  /-- a tie object is repeated once per seat it contests and has more members than those seats -/
  tie_big  : ∀ T, Slot.tie T ∈ r → r.count (Slot.tie T) < T.length
  /-- nobody is both elected and listed in a tie -/
  disjoint : ∀ T, Slot.tie T ∈ r → ∀ c ∈ T, Slot.cand c ∉ r

theorem electedOf_map_cand (l : List Cand) : electedOf (l.map Slot.cand) = l := by
  induction l with
  | nil => rfl
  | cons x xs ih => simp [electedOf, ih]

theorem electedOf_append (a b : List Slot) : electedOf (a ++ b) = electedOf a ++ electedOf b := by
  induction a with
  | nil => rfl
  | cons x xs ih => cases x <;> simp [electedOf, ih]

theorem electedOf_replicate_tie (m : Nat) (T : List Cand) : electedOf (List.replicate m (Slot.tie T)) = [] := by
  induction m with
  | zero => rfl
  | succ k ih => simp [List.replicate_succ, electedOf, ih]

/-- keys of the candidates at or above `t`, in sorted order, are distinct -/
theorem ge_keys_nodup (votes : Votes) (hwf : C09.WF votes) (t : Rat) :
    ((aboveSorted votes t).map (·.1) ++ level votes t).Nodup := by
  have hs : ((sortDesc votes).map (·.1)).Nodup := ((sortDesc_perm votes).map _).nodup_iff.mpr hwf
  have hsplit := desc_filter_ge_split (sortDesc_desc votes) t
  have : (aboveSorted votes t).map (·.1) ++ level votes t
      = ((sortDesc votes).filter (fun p => decide (t ≤ p.2))).map (·.1) := by
    rw [hsplit, List.map_append]
    unfold aboveSorted level
    rw [sortDesc_filter_eq]
  rw [this]
  exact List.Nodup.sublist (List.Sublist.map _ List.filter_sublist) hs

/-- **Plurality / get_n_best has the selection shape** whenever at least `n ≥ 1` candidates stand. -/
theorem getNBest_shape (votes : Votes) (hwf : C09.WF votes) (n : Nat) (h1 : 1 ≤ n) (hlen : n ≤ votes.length) :
    SelShape (keys votes) n (getNBest votes n) := by
  have hlength := C09.getNBest_length votes n h1 hlen
  rcases Nat.lt_or_ge n votes.length with hlt | hge
  · obtain ⟨t, ht⟩ := nth_exists votes n h1 hlen
    have hnd := ge_keys_nodup votes hwf t
    have habove_key : ∀ p ∈ aboveSorted votes t, p.1 ∈ keys votes := fun p hp =>
      List.mem_map.mpr ⟨p, (C09.mem_aboveSorted.mp hp).1, rfl⟩
    have hlevel_key : ∀ c ∈ level votes t, c ∈ keys votes := by
      intro c hc
      simp only [level, List.mem_map, List.mem_filter] at hc
      obtain ⟨p, ⟨hp, _⟩, rfl⟩ := hc
      exact List.mem_map.mpr ⟨p, hp, rfl⟩
    rcases Nat.lt_or_ge n (cntGe votes t) with hno | hfit
    · have hres := C09.getNBest_tie votes n h1 hlt t ht hno
      have hcount : cntGe votes t = cntGt votes t + (level votes t).length := by
        have hsplit := congrArg List.length (desc_filter_ge_split (sortDesc_desc votes) t)
        rw [List.length_append] at hsplit
        have e1 : (List.filter (fun p => decide (t ≤ p.2)) (sortDesc votes)).length = cntGe votes t :=
          sortDesc_filter_length votes _
        have e2 : (List.filter (fun p => decide (t < p.2)) (sortDesc votes)).length = cntGt votes t :=
          sortDesc_filter_length votes _
        have e3 : (List.filter (fun p => decide (p.2 = t)) (sortDesc votes)).length = (level votes t).length := by
          rw [sortDesc_filter_eq]; simp [level]
        omega
      have hmemcand : ∀ c, Slot.cand c ∈ getNBest votes n ↔ c ∈ (aboveSorted votes t).map (·.1) := by
        intro c
        rw [hres]
        simp only [List.mem_append, List.mem_map, List.mem_replicate]
        constructor
        · rintro (⟨p, hp, he⟩ | ⟨_, he⟩)
          · injection he with he; exact ⟨p, hp, he⟩
          · cases he
        · rintro ⟨p, hp, rfl⟩; exact Or.inl ⟨p, hp, rfl⟩
      have hmemtie : ∀ T, Slot.tie T ∈ getNBest votes n → T = level votes t := by
        intro T hT
        rw [hres] at hT
        rcases List.mem_append.mp hT with h | h
        · obtain ⟨p, _, he⟩ := List.mem_map.mp h; cases he
        · have := (List.mem_replicate.mp h).2; injection this
      refine ⟨hlength, ?_, ?_, ?_, ?_, ?_⟩
      · intro c hc
        obtain ⟨p, hp, rfl⟩ := List.mem_map.mp ((hmemcand c).mp hc)
        exact habove_key p hp
      · intro T hT c hc; rw [hmemtie T hT] at hc; exact hlevel_key c hc
      · rw [hres, electedOf_append, electedOf_replicate_tie, List.append_nil]
        have : (aboveSorted votes t).map (fun p => Slot.cand p.1) = ((aboveSorted votes t).map (·.1)).map Slot.cand := by
          rw [List.map_map]; rfl
        rw [this, electedOf_map_cand]
        exact (List.nodup_append.mp hnd).1
      · intro T hT
        have hTe := hmemtie T hT
        subst hTe
        rw [hres, List.count_append, List.count_replicate_self]
        have hz : List.count (Slot.tie (level votes t)) ((aboveSorted votes t).map (fun p => Slot.cand p.1)) = 0 := by
          rw [List.count_eq_zero]
          intro hmem
          obtain ⟨p, _, he⟩ := List.mem_map.mp hmem; cases he
        rw [hz]
        have := ht.2.1
        omega
      · intro T hT c hc hcand
        rw [hmemtie T hT] at hc
        have h1' := (hmemcand c).mp hcand
        exact (List.nodup_append.mp hnd).2.2 c h1' c hc rfl
    · have hres := C09.getNBest_fits votes n h1 hlt t ht hfit
      have hform : getNBest votes n = ((aboveSorted votes t).map (·.1) ++ level votes t).map Slot.cand := by
        rw [hres, List.map_append, List.map_map]; rfl
      refine ⟨hlength, ?_, ?_, ?_, ?_, ?_⟩
      · intro c hc
        rw [hform] at hc
        obtain ⟨d, hd, he⟩ := List.mem_map.mp hc
        injection he with he; subst he
        rcases List.mem_append.mp hd with h | h
        · obtain ⟨p, hp, rfl⟩ := List.mem_map.mp h; exact habove_key p hp
        · exact hlevel_key d h
      · intro T hT; rw [hform] at hT; obtain ⟨d, _, he⟩ := List.mem_map.mp hT; cases he
      · rw [hform, electedOf_map_cand]; exact hnd
      · intro T hT; rw [hform] at hT; obtain ⟨d, _, he⟩ := List.mem_map.mp hT; cases he
      · intro T hT; rw [hform] at hT; obtain ⟨d, _, he⟩ := List.mem_map.mp hT; cases he
  · have hres := getNBest_all votes n hge
    have hform : getNBest votes n = ((sortDesc votes).map (·.1)).map Slot.cand := by
      rw [hres, List.map_map]; rfl
    have hs : ((sortDesc votes).map (·.1)).Nodup := ((sortDesc_perm votes).map _).nodup_iff.mpr hwf
    refine ⟨hlength, ?_, ?_, ?_, ?_, ?_⟩
    · intro c hc
      rw [hform] at hc
      obtain ⟨d, hd, he⟩ := List.mem_map.mp hc
      injection he with he; subst he
      obtain ⟨p, hp, rfl⟩ := List.mem_map.mp hd
      exact List.mem_map.mpr ⟨p, mem_sortDesc.mp hp, rfl⟩
    · intro T hT; rw [hform] at hT; obtain ⟨d, _, he⟩ := List.mem_map.mp hT; cases he
    · rw [hform, electedOf_map_cand]; exact hs
    · intro T hT; rw [hform] at hT; obtain ⟨d, _, he⟩ := List.mem_map.mp hT; cases he
    · intro T hT; rw [hform] at hT; obtain ⟨d, _, he⟩ := List.mem_map.mp hT; cases he


theorem SelShape.mono {cands cands' : List Cand} {n : Nat} {r : List Slot} (h : SelShape cands n r)
    (hsub : ∀ c ∈ cands, c ∈ cands') : SelShape cands' n r :=
  ⟨h.length, fun c hc => hsub c (h.cand_ok c hc), fun T hT c hc => hsub c (h.tie_ok T hT c hc), h.nodup, h.tie_big,
    h.disjoint⟩

/-- `get_n_best` over a score table whose keys are exactly the candidates `cands` (the last step of every scoring
    evaluator): the selection shape over `cands` -/
theorem getNBest_shape_of_keys (table : Votes) (cands : List Cand) (hk : keys table = cands) (hnd : cands.Nodup)
    (n : Nat) (h1 : 1 ≤ n) (hlen : n ≤ cands.length) : SelShape cands n (getNBest table n) := by
  subst hk
  exact getNBest_shape table hnd n h1 (by simpa [keys] using hlen)

/-! ### distributions -/

/-- a key of a distribution result is a candidate of the votes or a tie of such candidates -/
def KeyOK (cands : List Cand) : Key → Prop
  | .cand c => c ∈ cands
  | .tie T => ∀ c ∈ T, c ∈ cands

/-- shape of a distribution result: positive awards to parties from the votes (or ties of them) -/
structure DistShape (cands : List Cand) (r : List (Key × Nat)) : Prop where
  positive : ∀ k m, (k, m) ∈ r → 0 < m
  cand_ok  : ∀ c m, (Key.cand c, m) ∈ r → c ∈ cands
  tie_ok   : ∀ T m, (Key.tie T, m) ∈ r → ∀ c ∈ T, c ∈ cands

/-- the same for result dicts whose values are Python ints (`Int` in the model) -/
structure DistShapeI (cands : List Cand) (r : List (Key × Int)) : Prop where
  positive : ∀ k m, (k, m) ∈ r → 0 < m
  cand_ok  : ∀ c m, (Key.cand c, m) ∈ r → c ∈ cands
  tie_ok   : ∀ T m, (Key.tie T, m) ∈ r → ∀ c ∈ T, c ∈ cands
  /-- a dict: no key twice -/
  keys_nodup : (r.map (·.1)).Nodup

theorem distShapeI_of (cands : List Cand) (r : List (Key × Int)) (hpos : ∀ p ∈ r, 0 < p.2)
    (hkey : ∀ p ∈ r, KeyOK cands p.1) (hnd : (r.map (·.1)).Nodup) : DistShapeI cands r :=
  ⟨fun k m h => hpos (k, m) h, fun c m h => hkey (Key.cand c, m) h, fun T m h => hkey (Key.tie T, m) h, hnd⟩

end VL.C08
