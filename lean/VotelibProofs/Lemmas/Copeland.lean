/-
  Copeland scores: `Copeland.scores` = wins − losses; the Condorcet winner has the unique maximum.
-/
import VotelibProofs.Lemmas.CondorcetWinner
import VotelibProofs.Lemmas.NBestMax
import VotelibModel.CondorcetEval
namespace VL.Condorcet
open VL

theorem getD_incr (d : Votes) (a : Cand) (k : Rat) (c : Cand) :
    getD (incr d a k) c 0 = getD d c 0 + (if c = a then k else 0) := by
  unfold getD
  rw [lookup_incr]
  by_cases h : c = a
  · subst h; simp
  · simp [h]

theorem getD_copelandFold (wins : List Pair) (d : Votes) (c : Cand) :
    getD (wins.foldl (fun d w => incr (incr d w.1 1) w.2 (-1)) d) c 0 =
      getD d c 0 + (winsBy wins c : Rat) - (lossesOf wins c : Rat) := by
  induction wins generalizing d with
  | nil => simp [winsBy, lossesOf]
  | cons w ws ih =>
    rw [List.foldl_cons, ih, getD_incr, getD_incr, winsBy_cons, lossesOf_cons]
    have e1 : (c = w.1) ↔ (w.1 = c) := eq_comm
    have e2 : (c = w.2) ↔ (w.2 = c) := eq_comm
    by_cases h1 : w.1 = c <;> by_cases h2 : w.2 = c <;> simp [h1, h2, e1, e2] <;> ring

/-- `Copeland.scores(wins)[c]` (0 when absent) = wins − losses -/
theorem getD_copelandScoresRaw (wins : List Pair) (c : Cand) :
    getD (copelandScoresRaw wins) c 0 = (winsBy wins c : Rat) - (lossesOf wins c : Rat) := by
  unfold copelandScoresRaw
  rw [getD_copelandFold]
  simp [getD, lookup_nil]

theorem keys_seededScores (v : Pairwise) (raw : Votes) : keys (seededScores v raw) = candidates v := by
  simp [seededScores, keys, List.map_map, Function.comp_def]

theorem length_seededScores (v : Pairwise) (raw : Votes) : (seededScores v raw).length = (candidates v).length := by
  simp [seededScores]

/-- in a duplicate-free list, a predicate failing at two distinct members holds for at most
    `length - 2` members -/
theorem filter_length_le_of_two {l : List Cand} (_hl : l.Nodup) {a b : Cand} (ha : a ∈ l) (hb : b ∈ l) (hab : a ≠ b)
    (P : Cand → Bool) (hPa : P a = false) (hPb : P b = false) : (l.filter P).length + 2 ≤ l.length := by
  have hsub : [a, b].Subperm (l.filter (fun x => !P x)) := by
    apply List.subperm_of_subset
    · simp [hab]
    · intro x hx
      simp only [List.mem_cons, List.not_mem_nil, or_false] at hx
      rcases hx with rfl | rfl
      · simp [List.mem_filter, ha, hPa]
      · simp [List.mem_filter, hb, hPb]
  have h2 : 2 ≤ (l.filter (fun x => !P x)).length := by simpa using hsub.length_le
  have hsum : l.length = (l.filter P).length + (l.filter (fun x => !P x)).length := by
    have := List.length_eq_length_filter_add (l := l) P
    simpa using this
  omega

theorem lossesOf_pos {wins : List Pair} {a c : Cand} (h : (a, c) ∈ wins) : 1 ≤ lossesOf wins c := by
  unfold lossesOf
  apply List.length_pos_of_mem (a := (a, c))
  simp [List.mem_filter, h]

theorem lossesOf_eq_zero {wins : List Pair} {c : Cand} (h : ∀ a, (a, c) ∉ wins) : lossesOf wins c = 0 := by
  unfold lossesOf
  rw [List.length_eq_zero_iff, List.filter_eq_nil_iff]
  rintro ⟨a, b⟩ hw
  simp only [decide_eq_true_eq]
  rintro rfl
  exact h a hw

/-- the Condorcet winner's Copeland score `m − 1` is strictly above everybody else's (`≤ m − 3`) -/
theorem copeland_cw_max {v : Pairwise} (hwf : WF v) {w : Cand} (hw : IsCW v w) :
    let raw := copelandScoresRaw (pairwiseWins v false)
    ∀ o ∈ candidates v, o ≠ w → getD raw o 0 < getD raw w 0 := by
  intro raw o ho how
  simp only [raw, getD_copelandScoresRaw]
  have hcnt := (isCW_iff_count hwf w).1 hw
  have hlw : lossesOf (pairwiseWins v false) w = 0 := by
    apply lossesOf_eq_zero
    intro a ha
    have hb := (mem_pairwiseWins hwf).1 ha
    have haw : a ≠ w := hb.ne
    exact hb.asymm (hw.2 a (hb.mem hwf).1 haw)
  have hlo : 1 ≤ lossesOf (pairwiseWins v false) o :=
    lossesOf_pos ((mem_pairwiseWins hwf).2 (hw.2 o ho how))
  have hwo : winsBy (pairwiseWins v false) o + 2 ≤ (candidates v).length := by
    rw [winsBy_eq_filter hwf]
    apply filter_length_le_of_two (nodup_candidates v) ho hw.1 how
    · simp [Beats]
    · simpa using (hw.2 o ho how).asymm
  have h1 : ((winsBy (pairwiseWins v false) o : Nat) : Rat) + 2 ≤ ((candidates v).length : Rat) := by
    exact_mod_cast hwo
  have h2 : ((winsBy (pairwiseWins v false) w : Nat) : Rat) + 1 = ((candidates v).length : Rat) := by
    exact_mod_cast hcnt.2
  have h3 : (1 : Rat) ≤ ((lossesOf (pairwiseWins v false) o : Nat) : Rat) := by exact_mod_cast hlo
  rw [hlw]
  push_cast
  linarith

theorem mem_seededScores {v : Pairwise} {raw : Votes} {c : Cand} (hc : c ∈ candidates v) :
    (c, getD raw c 0) ∈ seededScores v raw := List.mem_map.2 ⟨c, hc, rfl⟩

theorem copeland_scores_cw {v : Pairwise} (hwf : WF v) {w : Cand} (hw : IsCW v w) :
    getNBest (seededScores v (copelandScoresRaw (pairwiseWins v false))) 1 = [Slot.cand w] := by
  refine getNBest_one_of_unique_max (x := getD (copelandScoresRaw (pairwiseWins v false)) w 0) ?_
    (mem_seededScores hw.1) ?_
  · rw [keys_seededScores]; exact nodup_candidates v
  · intro p hp hne
    obtain ⟨o, ho, rfl⟩ := List.mem_map.1 hp
    exact copeland_cw_max hwf hw o ho hne

end VL.Condorcet
