/-
  Proportionality for solid coalitions of the transferable-vote count itself (selector form): lemmas.
-/
import VotelibProofs.Lemmas.STVMutual
import VotelibProofs.Lemmas.STVPrefix
namespace VL.STV
open VL

/-! ### what a subtraction does to a class of ballots -/

/-- a subtraction of `n` lowers the weight of any class of papers of the pile by at most `n`, and never raises it -/
def SubBound (E : Engine) : Prop :=
  ∀ {p p' : Pile} {n : Rat} {ds ds' : List Draw}, E.subtract p n ds = .ok (p', ds') → 0 ≤ n → n ≤ pileTotal p →
    (∀ x ∈ p, 0 ≤ x.2) → ∀ P : Ballot → Bool, pileTotalP P p - n ≤ pileTotalP P p' ∧ pileTotalP P p' ≤ pileTotalP P p

theorem pileTotalP_scale (P : Ballot → Bool) (p : Pile) (k : Rat) :
    pileTotalP P (p.map (fun bw => (bw.1, bw.2 * k))) = pileTotalP P p * k := by
  induction p with
  | nil => simp
  | cons x xs ih =>
    simp only [List.map_cons, pileTotalP_cons, ih]
    split <;> ring

theorem gregory_subBound : SubBound gregory := by
  intro p p' n ds ds' h hn0 hn hp P
  simp only [gregory] at h
  cases hg : gregorySubtract p n with
  | error e => rw [hg] at h; cases h
  | ok q =>
    rw [hg] at h
    simp only [Except.map] at h
    injection h with h; injection h with h1 h2; subst h1
    have hPle := pileTotalP_le (P := P) hp
    have hP0 := pileTotalP_nonneg (P := P) hp
    unfold gregorySubtract at hg
    simp only at hg
    split at hg
    · cases hg
    · rename_i hne
      split at hg
      · injection hg with hg; subst hg
        simp only [pileTotalP_nil]
        constructor <;> linarith
      · rename_i hlt
        injection hg with hg; subst hg
        rw [pileTotalP_scale]
        have hcur : 0 < pileTotal p := lt_of_le_of_ne (pileTotal_nonneg hp) (Ne.symm hne)
        have hf0 : 0 ≤ (pileTotal p - n) / pileTotal p := div_nonneg (by linarith [not_le.mp hlt]) (le_of_lt hcur)
        have hf1 : (pileTotal p - n) / pileTotal p ≤ 1 := by rw [div_le_one hcur]; linarith
        constructor
        · -- PP - n ≤ PP * f   ⇔   PP * (n / cur) ≤ n
          have : pileTotalP P p * ((pileTotal p - n) / pileTotal p) =
              pileTotalP P p - pileTotalP P p * (n / pileTotal p) := by field_simp
          rw [this]
          have h1 : pileTotalP P p * (n / pileTotal p) ≤ pileTotal p * (n / pileTotal p) :=
            mul_le_mul_of_nonneg_right hPle (div_nonneg hn0 (le_of_lt hcur))
          have h2 : pileTotal p * (n / pileTotal p) = n := by field_simp
          linarith
        · calc pileTotalP P p * ((pileTotal p - n) / pileTotal p) ≤ pileTotalP P p * 1 :=
                mul_le_mul_of_nonneg_left hf1 hP0
            _ = pileTotalP P p := by ring

theorem hareApply_P {ans : List (Ballot × Rat)} {p : Pile} (P : Ballot → Bool)
    (hle : ∀ bw ∈ p, (lookupB ans bw.1).getD 0 ≤ bw.2) (h0 : ∀ bw ∈ p, 0 ≤ (lookupB ans bw.1).getD 0) :
    pileTotalP P p - (takenFrom ans p).sum ≤ pileTotalP P (hareApply ans p) ∧
    pileTotalP P (hareApply ans p) ≤ pileTotalP P p := by
  induction p with
  | nil => simp [hareApply, takenFrom]
  | cons x xs ih =>
    obtain ⟨ih1, ih2⟩ := ih (fun bw hbw => hle bw (List.mem_cons_of_mem _ hbw))
      (fun bw hbw => h0 bw (List.mem_cons_of_mem _ hbw))
    have hx := hle x List.mem_cons_self
    have hx0 := h0 x List.mem_cons_self
    simp only [hareApply, takenFrom, List.filterMap_cons, List.map_cons, List.sum_cons] at ih1 ih2 ⊢
    cases hl : lookupB ans x.1 with
    | none =>
      simp only [Option.getD_none, pileTotalP_cons]
      constructor <;> linarith
    | some s =>
      simp only [hl, Option.getD_some] at hx hx0 ⊢
      by_cases hge : s ≥ x.2
      · rw [if_pos hge]
        have : s = x.2 := le_antisymm hx hge
        simp only [pileTotalP_cons]
        split <;> constructor <;> linarith
      · rw [if_neg hge]
        simp only [pileTotalP_cons]
        split <;> constructor <;> linarith

theorem lookupB_mem {ans : List (Ballot × Rat)} {b : Ballot} {s : Rat} (h : lookupB ans b = some s) : (b, s) ∈ ans := by
  unfold lookupB at h
  split at h
  · rename_i p hf
    injection h with h
    have h1 := List.find?_some hf
    have h2 := List.mem_of_find?_eq_some hf
    have : p = (b, s) := Prod.ext (by simpa using h1) h
    rw [← this]; exact h2
  · cases h

theorem hare_subBound : SubBound hare := by
  intro p p' n ds ds' h _ _ _ P
  simp only [hare] at h
  unfold hareSubtract at h
  split at h
  · rename_i ans ds1
    split at h
    · rename_i hok
      injection h with h; injection h with h1 h2; subst h1
      simp only [papersOK, Bool.and_eq_true, List.all_eq_true, decide_eq_true_eq] at hok
      have h0 : ∀ bw ∈ p, 0 ≤ (lookupB ans bw.1).getD 0 := by
        intro bw _
        cases hl : lookupB ans bw.1 with
        | none => simp
        | some s => simp only [Option.getD_some]; exact (hok.1.1 _ (lookupB_mem hl)).1
      have := hareApply_P P hok.1.2 h0
      rw [hok.2] at this
      exact this
    · cases h
  · cases h


/-! ### subtraction on an allocation -/

theorem heldP_setPile (P : Ballot → Bool) {a : Alloc} (hk : KeysNodup a) {h : Option Cand} (p' : Pile)
    (hm : h ∈ allocKeys a) :
    heldP P (allocSetPile a h p') = heldP P a - pileTotalP P (allocPile a h) + pileTotalP P p' := by
  induction a with
  | nil => simp [allocKeys] at hm
  | cons y ys ih =>
    obtain ⟨h', p⟩ := y
    have hk' : KeysNodup ys := (List.nodup_cons.mp hk).2
    simp only [allocSetPile]
    split
    · rename_i heq
      subst heq
      rw [heldP_cons, heldP_cons, allocPile_cons, if_pos rfl]; ring
    · rename_i hne
      have hm' : h ∈ allocKeys ys := by
        simp only [allocKeys, List.map_cons, List.mem_cons] at hm
        rcases hm with h1 | h1
        · exact absurd h1.symm hne
        · exact h1
      rw [heldP_cons, ih hk' hm', allocPile_cons, if_neg hne, heldP_cons]; ring

/-- what a subtraction costs a class of papers: at most the amounts taken from the piles that hold such papers -/
def subCost (P : Ballot → Bool) (a : Alloc) (els : List (Cand × Rat)) : Rat :=
  (els.map (fun x => if pileTotalP P (allocPile a (some x.1)) = 0 then 0 else x.2)).sum

theorem heldP_subtract_ge {E : Engine} (hE : EngineOK E) (hB : SubBound E) (P : Ballot → Bool)
    {els : List (Cand × Rat)} {a a' : Alloc} {ds ds' : List Draw} (h : subtract E els a ds = .ok (a', ds'))
    (hk : KeysNodup a) (hn : NonNeg a) (hnd : (els.map (·.1)).Nodup) (hmem : ∀ x ∈ els, some x.1 ∈ allocKeys a)
    (hrange : ∀ x ∈ els, 0 ≤ x.2 ∧ x.2 ≤ pileTotal (allocPile a (some x.1))) :
    heldP P a - subCost P a els ≤ heldP P a' := by
  induction els generalizing a ds with
  | nil =>
    simp only [subtract] at h
    injection h with h; injection h with h1 h2; subst h1
    simp [subCost]
  | cons cn rest ih =>
    obtain ⟨c, n⟩ := cn
    simp only [subtract] at h
    cases hs : E.subtract (allocPile a (some c)) n ds with
    | error e => rw [hs] at h; simp [bind, Except.bind] at h
    | ok v =>
      obtain ⟨p', ds1⟩ := v
      rw [hs] at h
      simp only [bind, Except.bind] at h
      have hnd' := List.nodup_cons.mp hnd
      have hk1 : KeysNodup (allocSetPile a (some c) p') := by unfold KeysNodup; rw [allocKeys_setPile]; exact hk
      have hn1 : NonNeg (allocSetPile a (some c) p') := by
        intro hp hhp x hx
        rcases mem_setPile hhp with h1 | h1
        · exact hn hp h1 x hx
        · subst h1; exact hE.sub_nonneg hs (hn.pile _) x hx
      have hoth : ∀ x ∈ rest, allocPile (allocSetPile a (some c) p') (some x.1) = allocPile a (some x.1) := by
        intro x hx
        apply allocPile_setPile_ne
        intro he; injection he with he
        exact hnd'.1 (List.mem_map.mpr ⟨x, hx, he⟩)
      have hr0 := hrange (c, n) List.mem_cons_self
      have hb := hB hs hr0.1 hr0.2 (hn.pile _) P
      have hP0 : 0 ≤ pileTotalP P p' := pileTotalP_nonneg (hE.sub_nonneg hs (hn.pile _))
      have ih' := ih h hk1 hn1 hnd'.2
        (by intro x hx; rw [allocKeys_setPile]; exact hmem x (List.mem_cons_of_mem _ hx))
        (by intro x hx; rw [hoth x hx]; exact hrange x (List.mem_cons_of_mem _ hx))
      have hcost : subCost P (allocSetPile a (some c) p') rest = subCost P a rest := by
        unfold subCost
        congr 1
        apply List.map_congr_left
        intro x hx
        rw [hoth x hx]
      rw [hcost, heldP_setPile P hk p' (hmem (c, n) List.mem_cons_self)] at ih'
      have hsplit : subCost P a ((c, n) :: rest) =
          (if pileTotalP P (allocPile a (some c)) = 0 then 0 else n) + subCost P a rest := by
        simp [subCost]
      rw [hsplit]
      split
      · rename_i hz
        have : pileTotalP P p' = 0 := le_antisymm (by rw [← hz]; exact hb.2) hP0
        rw [hz, this] at ih'
        linarith
      · linarith [hb.1]

/-! ### the papers of a class lie with a set of holders -/

theorem heldP_le_sum_totals (P : Ballot → Bool) {a : Alloc} (hn : NonNeg a) (S : List Cand)
    (hall : ∀ hp ∈ a, (∀ c ∈ S, hp.1 ≠ some c) → ∀ y ∈ hp.2, P y.1 = false) :
    heldP P a ≤ (((totalsInPlay a).filter (fun ct => decide (ct.1 ∈ S))).map (·.2)).sum := by
  induction a with
  | nil => simp [totalsInPlay]
  | cons y ys ih =>
    obtain ⟨h, p⟩ := y
    have ih' := ih (fun hp hhp => hn hp (List.mem_cons_of_mem _ hhp))
      (fun hp hhp => hall hp (List.mem_cons_of_mem _ hhp))
    have hp0 : ∀ x ∈ p, 0 ≤ x.2 := hn (h, p) List.mem_cons_self
    rw [heldP_cons]
    cases h with
    | none =>
      have : pileTotalP P p = 0 := pileTotalP_zero (hall (none, p) List.mem_cons_self (by intro c _ e; cases e))
      simp only [totalsInPlay, List.filterMap_cons] at ih' ⊢
      linarith
    | some c =>
      by_cases hc : c ∈ S
      · have hle := pileTotalP_le (P := P) hp0
        simp only [totalsInPlay, List.filterMap_cons, List.filter_cons, hc, decide_true, if_true, List.map_cons,
          List.sum_cons] at ih' ⊢
        linarith
      · have : pileTotalP P p = 0 := pileTotalP_zero (hall (some c, p) List.mem_cons_self
          (by intro c' hc' e; injection e with e; exact hc (e ▸ hc')))
        simp only [totalsInPlay, List.filterMap_cons, List.filter_cons, hc, decide_false, Bool.false_eq_true,
          if_false] at ih' ⊢
        linarith

theorem sum_lt_of_all_lt {l : Votes} {q : Rat} (h : ∀ ct ∈ l, ct.2 < q) (hne : l ≠ []) :
    (l.map (·.2)).sum < (l.length : Rat) * q := by
  induction l with
  | nil => exact absurd rfl hne
  | cons x xs ih =>
    have hx := h x List.mem_cons_self
    simp only [List.map_cons, List.sum_cons, List.length_cons]
    push_cast
    by_cases hxs : xs = []
    · subst hxs; simp; linarith
    · have := ih (fun ct hct => h ct (List.mem_cons_of_mem _ hct)) hxs
      linarith

/-! ### counting members of `S` -/

/-- how many members of `S` occur in `L` -/
def cnt (S L : List Cand) : Nat := (S.filter (fun c => decide (c ∈ L))).length

theorem cnt_eq_electedIn (S L : List Cand) : cnt S L = electedIn L S := rfl

theorem cnt_append {S A B : List Cand} (hd : ∀ x ∈ A, x ∉ B) : cnt S (A ++ B) = cnt S A + cnt S B := by
  unfold cnt
  induction S with
  | nil => simp
  | cons x xs ih =>
    simp only [List.filter_cons, List.mem_append]
    by_cases ha : x ∈ A
    · have hb : x ∉ B := hd x ha
      simp only [ha, hb, true_or, decide_true, if_true, decide_false, Bool.false_eq_true, if_false, List.length_cons]
      simp only [List.mem_append] at ih
      omega
    · by_cases hb : x ∈ B
      · simp only [ha, hb, or_true, decide_true, if_true, decide_false, Bool.false_eq_true, if_false, List.length_cons]
        simp only [List.mem_append] at ih
        omega
      · simp only [ha, hb, or_self, decide_false, Bool.false_eq_true, if_false]
        simp only [List.mem_append] at ih
        exact ih

theorem cnt_filter_not {S L D : List Cand} (hsub : ∀ x ∈ D, x ∈ L) :
    cnt S L = cnt S (L.filter (fun c => decide (c ∉ D))) + cnt S D := by
  unfold cnt
  induction S with
  | nil => simp
  | cons x xs ih =>
    simp only [List.filter_cons, List.mem_filter, decide_not, Bool.not_eq_eq_eq_not, Bool.not_true,
      decide_eq_false_iff_not]
    simp only [List.mem_filter, decide_not, Bool.not_eq_eq_eq_not, Bool.not_true, decide_eq_false_iff_not] at ih
    by_cases hd : x ∈ D
    · have hl : x ∈ L := hsub x hd
      simp only [hl, hd, not_true_eq_false, and_false, decide_true, decide_false, if_true, Bool.false_eq_true,
        if_false, List.length_cons]
      omega
    · by_cases hl : x ∈ L
      · simp only [hl, hd, not_false_eq_true, and_self, decide_true, decide_false, if_true, Bool.false_eq_true,
          if_false, List.length_cons]
        omega
      · simp only [hl, hd, false_and, decide_false, Bool.false_eq_true, if_false]
        exact ih

theorem cnt_le_length (S L : List Cand) : cnt S L ≤ S.length := List.length_filter_le _ _

theorem cnt_perm {S L L' : List Cand} (h : ∀ x, x ∈ L ↔ x ∈ L') : cnt S L = cnt S L' := by
  unfold cnt
  congr 1
  apply List.filter_congr
  intro x _
  simp [h x]

/-- members of `S` in `L`, counted from either side -/
theorem cnt_comm {S L : List Cand} (hS : S.Nodup) (hL : L.Nodup) :
    cnt S L = (L.filter (fun c => decide (c ∈ S))).length := by
  unfold cnt
  apply List.Perm.length_eq
  apply (List.perm_ext_iff_of_nodup (hS.filter _) (hL.filter _)).mpr
  intro x
  simp only [List.mem_filter, decide_eq_true_eq]
  tauto


/-! ### when nobody is elected by quota, nobody holds the quota -/

theorem electByQuota_nil {eq : Bool} {q : Rat} {nRem : Nat} (hr : 1 ≤ nRem) {prev maxS : Seats} {tp : Votes}
    (h : electByQuota eq q nRem prev maxS tp = .ok []) : quotaMultiples eq q prev maxS tp = [] := by
  by_contra hne
  unfold electByQuota at h
  simp only at h
  split at h
  · -- over-award: the best `nRem ≥ 1` overcounts are kept, so somebody is elected
    unfold correctOvercount at h
    simp only at h
    split at h
    · cases h
    · rename_i hnt
      injection h with h
      have hnt' : hasTie (getNBest ((quotaMultiples eq q prev maxS tp).map (fun x => (x.1, x.2.2))) nRem) = false := by
        simpa using hnt
      obtain ⟨hret, _⟩ := getNBest_noTie hr hnt'
      -- the first of the sorted overcounts is kept
      cases hqm : quotaMultiples eq q prev maxS tp with
      | nil => exact hne hqm
      | cons y ys =>
        have hlen : 0 < (sortDesc ((quotaMultiples eq q prev maxS tp).map (fun x => (x.1, x.2.2)))).length := by
          rw [sortDesc_length, hqm]; simp
        obtain ⟨z, hz⟩ : ∃ z, z ∈ (sortDesc ((quotaMultiples eq q prev maxS tp).map (fun x => (x.1, x.2.2)))).take nRem := by
          cases hs : sortDesc ((quotaMultiples eq q prev maxS tp).map (fun x => (x.1, x.2.2))) with
          | nil => rw [hs] at hlen; simp at hlen
          | cons z zs =>
            refine ⟨z, ?_⟩
            cases nRem with
            | zero => omega
            | succ m => simp
        have hzk : z.1 ∈ slotCands (getNBest ((quotaMultiples eq q prev maxS tp).map (fun x => (x.1, x.2.2))) nRem) := by
          rw [hret]; exact List.mem_map.mpr ⟨z, hz, rfl⟩
        have hzin : z ∈ (quotaMultiples eq q prev maxS tp).map (fun x => (x.1, x.2.2)) :=
          mem_sortDesc.mp (List.mem_of_mem_take hz)
        obtain ⟨x, hx, hxe⟩ := List.mem_map.mp hzin
        have : (x.1, x.2.1) ∈ (quotaMultiples eq q prev maxS tp).filterMap (fun x =>
            if x.1 ∈ slotCands (getNBest ((quotaMultiples eq q prev maxS tp).map (fun x => (x.1, x.2.2))) nRem)
            then some (x.1, x.2.1) else if x.2.1 > 1 then some (x.1, x.2.1 - 1) else none) := by
          refine List.mem_filterMap.mpr ⟨x, hx, ?_⟩
          have : x.1 = z.1 := by rw [← hxe]
          rw [if_pos (this ▸ hzk)]
        rw [h] at this
        cases this
  · injection h with h
    cases hqm : quotaMultiples eq q prev maxS tp with
    | nil => exact hne hqm
    | cons y ys => rw [hqm] at h; simp at h

/-- with `accept_quota_equal`, one seat per candidate and no seat yet: not being awarded a seat means holding
    less than the quota -/
theorem below_quota_of_no_entry {q : Rat} (hq : 0 < q) {prev maxS : Seats} {ct : Cand × Rat}
    (hmax : maxGet maxS ct.1 = some 1) (hprev : seatsGet prev ct.1 = 0)
    (h : quotaEntry true q prev maxS ct = none) : ct.2 < q := by
  unfold quotaEntry at h
  simp only [Bool.true_or, if_true] at h
  split at h
  · cases h
  · rename_i hnp
    have hcap : capOf maxS ct.1 (ct.2 / q).floor ≤ 0 := by
      rw [hprev] at hnp
      simp only [Nat.cast_zero, sub_zero, gt_iff_lt, not_lt] at hnp
      exact hnp
    unfold capOf at hcap
    rw [hmax] at hcap
    simp only [Nat.cast_one] at hcap
    have hfl : (ct.2 / q).floor ≤ 0 := by
      rcases le_total (ct.2 / q).floor 1 with h1 | h1
      · rwa [min_eq_left h1] at hcap
      · rw [min_eq_right h1] at hcap; omega
    have hlt : ct.2 / q < 1 := by
      have := Rat.lt_floor_add_one (ct.2 / q)
      have h2 : (((ct.2 / q).floor + 1 : Int) : Rat) ≤ 1 := by exact_mod_cast (by omega : (ct.2 / q).floor + 1 ≤ 1)
      linarith
    rwa [div_lt_one hq] at hlt


/-! ### the invariant of proportionality for solid coalitions -/

structure PscHyp (cfg : Cfg) (votes : Profile) (n : Nat) (S : List Cand) (k : Nat) (q : Rat) : Prop where
  wf : WFVotes votes
  snd : S.Nodup
  sne : S ≠ []
  step : cfg.step = some (-1)
  eqOk : cfg.acceptEqual = true
  quota : computeQuota cfg (totalVotes votes) n = some q
  qpos : 0 < q
  droop : totalVotes votes < ((n : Rat) + 1) * q
  supp : (k : Rat) * q ≤ support votes S

structure PscInv (votes : Profile) (S : List Cand) (k : Nat) (q : Rat) (st : St) : Prop where
  fin : st.final = true → min k S.length ≤ cnt S (st.seats.map (·.1))
  byq : st.final = false → st.byQuota = sumSeats st.seats
  rest : st.final = false → 1 ≤ cnt S (continuing st.alloc) →
    support votes S - (cnt S (st.seats.map (·.1)) : Rat) * q ≤ heldP (fun b => solidFor b S) st.alloc
  pot : st.final = false → min k S.length ≤ cnt S (st.seats.map (·.1)) + cnt S (continuing st.alloc)

section
variable {cfg : Cfg} {votes : Profile} {n : Nat} {S : List Cand} {k : Nat} {q : Rat}

theorem exists_of_cnt_pos {L : List Cand} (h : 1 ≤ cnt S L) : ∃ s ∈ S, s ∈ L := by
  unfold cnt at h
  cases hf : S.filter (fun c => decide (c ∈ L)) with
  | nil => rw [hf] at h; simp at h
  | cons x xs =>
    have : x ∈ S.filter (fun c => decide (c ∈ L)) := by rw [hf]; exact List.mem_cons_self
    obtain ⟨h1, h2⟩ := List.mem_filter.mp this
    exact ⟨x, h1, by simpa using h2⟩

/-- every solid paper rests with a member of `S` while a member continues (any seat number, shared ranks allowed) -/
theorem solid_rests_gen {st : St} (hpre : RestsItem st.alloc) {s : Cand} (hsS : s ∈ S)
    (hsc : s ∈ continuing st.alloc) {hp : Option Cand × Pile} (hhp : hp ∈ st.alloc) {x : Ballot × Rat}
    (hx : x ∈ hp.2) (hsol : solidFor x.1 S = true) : ∃ t ∈ S, hp.1 = some t := by
  obtain ⟨it, hit, hsub⟩ := solid_top_item hsol hsS hsc
  have := hpre hp hhp x hx
  rw [hit] at this
  obtain ⟨t, ht, hti⟩ := this
  exact ⟨t, hsub t hti, ht⟩

theorem sum_indicator_cnt {L : List Cand} (hL : L.Nodup) (hS : S.Nodup) (q : Rat) :
    (L.map (fun c => if c ∈ S then q else 0)).sum = (cnt S L : Rat) * q := by
  rw [cnt_comm hS hL]
  clear hL
  induction L with
  | nil => simp
  | cons x xs ih =>
    simp only [List.map_cons, List.sum_cons, List.filter_cons, ih]
    by_cases hx : x ∈ S
    · simp only [hx, if_true, decide_true, List.length_cons]; push_cast; ring
    · simp only [hx, if_false, decide_false, Bool.false_eq_true]; ring

theorem sum_map_le {α : Type} (l : List α) (f g : α → Rat) (h : ∀ x ∈ l, f x ≤ g x) :
    (l.map f).sum ≤ (l.map g).sum := by
  induction l with
  | nil => simp
  | cons x xs ih =>
    simp only [List.map_cons, List.sum_cons]
    have := ih (fun y hy => h y (List.mem_cons_of_mem _ hy))
    linarith [h x List.mem_cons_self]

theorem cnt_le_len {L : List Cand} (hS : S.Nodup) (hL : L.Nodup) : cnt S L ≤ L.length := by
  rw [cnt_comm hS hL]; exact List.length_filter_le _ _

theorem psc_step {E : Engine} (hE : EngineOK E) (hB : SubBound E) (hh : PscHyp cfg votes n S k q) {st st' : St}
    (hi : StInv cfg (selectorInput votes n) st) (hj : ShapeInv votes st) (hpre : st.final = false → RestsItem st.alloc)
    (hp : PscInv votes S k q st)
    (h : countStep E cfg (selectorInput votes n) st = .ok (some st')) : PscInv votes S k q st' := by
  obtain ⟨hne, out, ds', hnext, _, hadv⟩ := countStep_inv h
  have hfin : st.final = false := by
    cases hf : st.final with
    | false => rfl
    | true => exact absurd (hi.fin hf) hne
  subst hadv
  have hk := hi.keys hfin
  have hnn := hi.nonneg hh.wf hfin
  have hsub := hi.cont_sub
  have hcnd : (continuing st.alloc).Nodup := continuing_nodup hk
  have hdisj' : ∀ c ∈ continuing st.alloc, c ∉ st.seats.map (·.1) := by
    intro c hc hm
    obtain ⟨p, hp', rfl⟩ := List.mem_map.mp hm
    exact hj.disj p hp' hc
  have hdisj2 : ∀ x ∈ st.seats.map (·.1), x ∉ continuing st.alloc := fun x hx hc => hdisj' x hc hx
  obtain ⟨hle, hcase⟩ := nextCount_cases hnext
  simp only [selectorInput] at hnext hcase hle hsub hne
  have hlt : sumSeats st.seats < n := by omega
  cases hcase with
  | shortcut hs he =>
    obtain ⟨_, hsc, _, _, hel, _⟩ := electAll_spec he
    have hkeysperm : ((sortDesc (totalsInPlay st.alloc)).map (·.1)).Perm (continuing st.alloc) := by
      rw [← keys_totalsInPlay]; exact (sortDesc_perm _).map _
    have havail : out.elected = ((sortDesc (totalsInPlay st.alloc)).map (·.1)).map (fun x => (x, 1)) := by
      rw [hel]
      simp only [availSeats, List.map_map]
      apply List.map_congr_left
      intro x hx
      have hxc : x.1 ∈ continuing st.alloc := by
        rw [← keys_totalsInPlay]
        exact List.mem_map.mpr ⟨x, mem_sortDesc.mp hx, rfl⟩
      simp [Function.comp_def, maxGet_selector (hsub _ hxc), seatsGet_of_not_mem (hdisj' _ hxc)]
    have hekeys : out.elected.map (·.1) = (sortDesc (totalsInPlay st.alloc)).map (·.1) := by
      rw [havail]; simp [List.map_map, Function.comp_def]
    have hadd : seatsAdd st.seats out.elected = st.seats ++ out.elected := by
      apply seatsAdd_of_disjoint
      · rw [hekeys]; exact hkeysperm.nodup_iff.mpr hcnd
      · intro p hp'
        have : p.1 ∈ out.elected.map (·.1) := List.mem_map.mpr ⟨p, hp', rfl⟩
        rw [hekeys] at this
        exact hdisj' _ (hkeysperm.mem_iff.mp this)
    refine ⟨?_, ?_, ?_, ?_⟩
    · intro _
      simp only [advance, hadd, List.map_append, hekeys]
      rw [cnt_append (by intro x hx hb; exact hdisj2 x hx (hkeysperm.mem_iff.mp hb)),
        cnt_perm (L' := continuing st.alloc) (fun x => hkeysperm.mem_iff)]
      exact hp.pot hfin
    all_goals (intro hf; simp only [advance, hsc] at hf; cases hf)
  | election qv hqv hpos el hel hnel hout =>
    have hqq : qv = q := by
      have := hh.quota; rw [hqv] at this; injection this
    subst hqq
    obtain ⟨a1, ds1, hsubt, htr, he1, he2, he3⟩ := afterElection_inv hout
    obtain ⟨hnd, hfacts⟩ := election_facts hk hpos hel
    have hone : ∀ ck ∈ el, ck.2 = 1 := by
      intro ck hck
      obtain ⟨hcont, h1, _, hmax⟩ := hfacts ck hck
      have := hmax 1 (maxGet_selector (hsub _ hcont))
      omega
    have hadd : seatsAdd st.seats el = st.seats ++ el :=
      seatsAdd_of_disjoint hnd (fun p hp' => hdisj' _ (hfacts p hp').1)
    have hfe : ∀ c, c ∈ fullyElected el st.seats ((allRanked votes).map (fun c => (c, 1))) ↔ c ∈ el.map (·.1) := by
      intro c
      constructor
      · intro hc
        unfold fullyElected at hc
        obtain ⟨ck, hck, rfl⟩ := List.mem_map.mp hc
        exact List.mem_map.mpr ⟨ck, (List.mem_filter.mp hck).1, rfl⟩
      · intro hc
        obtain ⟨ck, hck, rfl⟩ := List.mem_map.mp hc
        unfold fullyElected
        refine List.mem_map.mpr ⟨ck, List.mem_filter.mpr ⟨hck, ?_⟩, rfl⟩
        rw [maxGet_selector (hsub _ (hfacts ck hck).1)]
        have hadd2 : seatsAdd el st.seats = el ++ st.seats := by
          apply seatsAdd_of_disjoint hj.nd
          intro p hp' hmm
          obtain ⟨ck', hck', he⟩ := List.mem_map.mp hmm
          exact hj.disj p hp' (he ▸ (hfacts ck' hck').1)
        have hck1 : (ck.1, 1) ∈ el := by
          have : ck = (ck.1, 1) := Prod.ext rfl (hone ck hck)
          rw [← this]; exact hck
        rw [hadd2, seatsGet_append_of_mem hnd hck1]
        simp
    have hs := subtract_spec hE hsubt
    have hk1 : KeysNodup a1 := by unfold KeysNodup; rw [hs.keys_eq]; exact hk
    have hm := transferIf_moved hE htr
    have hc1 : continuing a1 = continuing st.alloc := by rw [continuing_eq, continuing_eq, hs.keys_eq]
    -- counting
    have hcntE : cnt S ((st.seats ++ el).map (·.1)) = cnt S (st.seats.map (·.1)) + cnt S (el.map (·.1)) := by
      rw [List.map_append]
      apply cnt_append
      intro x hx hb
      obtain ⟨ck, hck, rfl⟩ := List.mem_map.mp hb
      exact hdisj' _ (hfacts ck hck).1 hx
    have hcntM : cnt S (continuing st.alloc) = cnt S (continuing out.alloc) + cnt S (el.map (·.1)) := by
      rw [hm.cont_eq, hc1]
      rw [cnt_filter_not (S := S) (L := continuing st.alloc)
        (D := fullyElected el st.seats ((allRanked votes).map (fun c => (c, 1))))
        (by intro x hx; obtain ⟨ck, hck, rfl⟩ := List.mem_map.mp ((hfe x).mp hx); exact (hfacts ck hck).1)]
      congr 1
      exact cnt_perm hfe
    refine ⟨?_, ?_, ?_, ?_⟩
    · intro hf; simp only [advance, he3] at hf; cases hf
    · intro _
      simp only [advance, he3, Bool.false_eq_true, if_false, he1, sumSeats_seatsAdd]
      rw [hp.byq hfin]
    · intro _ hm1
      simp only [advance] at hm1 ⊢
      rw [he1, hadd, hcntE]
      have hmS : 1 ≤ cnt S (continuing st.alloc) := by omega
      have hrest := hp.rest hfin hmS
      obtain ⟨s, hsS, hsc⟩ := exists_of_cnt_pos hmS
      rw [heldP_transferIf hE _ hk1 htr]
      have hge := heldP_subtract_ge hE hB (fun b => solidFor b S) hsubt hk hnn
        (by simpa [List.map_map, Function.comp_def] using hnd)
        (by
          intro x hx
          obtain ⟨ck, hck, rfl⟩ := List.mem_map.mp hx
          exact mem_continuing.mp (hfacts ck hck).1)
        (by
          intro x hx
          obtain ⟨ck, hck, rfl⟩ := List.mem_map.mp hx
          obtain ⟨_, h1, h2, _⟩ := hfacts ck hck
          refine ⟨mul_nonneg (Nat.cast_nonneg _) (le_of_lt hpos), ?_⟩
          unfold totalOf at h2
          exact h2)
      -- the cost falls only on members of S
      have hcost : subCost (fun b => solidFor b S) st.alloc (el.map (fun ck => (ck.1, (ck.2 : Rat) * qv))) ≤
          (cnt S (el.map (·.1)) : Rat) * qv := by
        rw [← sum_indicator_cnt hnd hh.snd qv]
        unfold subCost
        rw [List.map_map, List.map_map]
        apply sum_map_le
        intro ck hck
        simp only [Function.comp_def]
        split
        · split
          · exact le_of_lt hpos
          · exact le_refl _
        · rename_i hnz
          have hcS : ck.1 ∈ S := by
            by_contra hcn
            apply hnz
            apply pileTotalP_zero
            intro x hx
            obtain ⟨hp', hhp', hk', hxx⟩ := allocPile_mem hx
            by_contra hc
            have hsol : solidFor x.1 S = true := by simpa using hc
            obtain ⟨t, htS, hte⟩ := solid_rests_gen (hpre hfin) hsS hsc hhp' hxx hsol
            rw [hk'] at hte
            injection hte with hte
            exact hcn (hte ▸ htS)
          rw [if_pos hcS, hone ck hck]
          simp
      push_cast
      linarith
    · intro _
      simp only [advance]
      rw [he1, hadd, hcntE]
      have := hp.pot hfin
      omega
  | elimination hnoq hout =>
    obtain ⟨retained, hsel, he, htr, he1, he2⟩ := afterElimination_inv hout
    rw [hh.step] at hsel
    have hes := elim_spec (by norm_num : (-1 : Int) < 0) hsel
    rw [← he] at hes
    have hm := transferIf_moved hE htr
    have hnd : ((totalsInPlay st.alloc).map (·.1)).Nodup := by rw [keys_totalsInPlay]; exact hcnd
    have hlenT : (totalsInPlay st.alloc).length = (continuing st.alloc).length := by
      rw [← keys_totalsInPlay, List.length_map]
    have hcount := hes.count hnd
    have hrc := retainedCount_neg (by norm_num : (-1 : Int) < 0) (totalsInPlay st.alloc).length
    have hel1 : out.eliminated.length ≤ 1 := by omega
    have hndE : out.eliminated.Nodup := by rw [he]; exact hnd.filter _
    have hesub : ∀ x ∈ out.eliminated, x ∈ continuing st.alloc := by
      intro x hx; rw [← keys_totalsInPlay]; exact hes.sub x hx
    have hseats : seatsAdd st.seats out.elected = st.seats := by rw [he1]; rfl
    have hcntM : cnt S (continuing st.alloc) = cnt S (continuing out.alloc) + cnt S out.eliminated := by
      rw [hm.cont_eq]; exact cnt_filter_not hesub
    have hheld : heldP (fun b => solidFor b S) out.alloc = heldP (fun b => solidFor b S) st.alloc :=
      heldP_transferIf hE _ hk htr
    have hcE : cnt S out.eliminated ≤ 1 := le_trans (cnt_le_len hh.snd hndE) hel1
    -- nobody holds the quota
    obtain ⟨_, hel0⟩ := hnoq q hh.quota
    have hqm := electByQuota_nil (by omega) hel0
    have hbelow : ∀ ct ∈ totalsInPlay st.alloc, ct.2 < q := by
      intro ct hct
      have hcc : ct.1 ∈ continuing st.alloc := by
        rw [← keys_totalsInPlay]; exact List.mem_map.mpr ⟨ct, hct, rfl⟩
      unfold quotaMultiples at hqm
      rw [List.filterMap_eq_nil_iff] at hqm
      have := hqm ct (mem_sortDesc.mpr hct)
      rw [hh.eqOk] at this
      exact below_quota_of_no_entry hh.qpos (maxGet_selector (hsub _ hcc)) (seatsGet_of_not_mem (hdisj' _ hcc)) this
    refine ⟨?_, ?_, ?_, ?_⟩
    · intro hf; simp only [advance, he2] at hf; cases hf
    · intro _
      simp only [advance, he2, Bool.false_eq_true, if_false, he1, sumSeats_nil, Nat.add_zero]
      exact hp.byq hfin
    · intro _ hm1
      simp only [advance, hseats] at hm1 ⊢
      rw [hheld]
      exact hp.rest hfin (by omega)
    · intro _
      simp only [advance, hseats]
      have hpot := hp.pot hfin
      by_cases hz : cnt S out.eliminated = 0
      · omega
      · -- a member of S is eliminated: the coalition still has more members than quotas to fill
        have hmS : 1 ≤ cnt S (continuing st.alloc) := by omega
        have hrest := hp.rest hfin hmS
        obtain ⟨s, hsS, hsc⟩ := exists_of_cnt_pos hmS
        have hall : ∀ hp' ∈ st.alloc, (∀ c ∈ S, hp'.1 ≠ some c) → ∀ y ∈ hp'.2, (fun b => solidFor b S) y.1 = false := by
          intro hp' hhp' hno y hy
          by_contra hc
          have hsol : solidFor y.1 S = true := by simpa using hc
          obtain ⟨t, htS, hte⟩ := solid_rests_gen (hpre hfin) hsS hsc hhp' hy hsol
          exact hno t htS hte
        have hle1 := heldP_le_sum_totals (fun b => solidFor b S) hnn S hall
        have hlenF : ((totalsInPlay st.alloc).filter (fun ct => decide (ct.1 ∈ S))).length = cnt S (continuing st.alloc) := by
          rw [cnt_comm hh.snd hcnd, ← keys_totalsInPlay]
          rw [List.filter_map, List.length_map]
          rfl
        have hneF : (totalsInPlay st.alloc).filter (fun ct => decide (ct.1 ∈ S)) ≠ [] := by
          intro h0; rw [h0] at hlenF; simp at hlenF; omega
        have hlt2 := sum_lt_of_all_lt (q := q) (fun ct hct => hbelow ct (List.mem_filter.mp hct).1) hneF
        rw [hlenF] at hlt2
        have hsupp := hh.supp
        -- (k - eS) q ≤ W - eS q ≤ R < mS q
        have hkey : ((k : Rat) - (cnt S (st.seats.map (·.1)) : Rat)) * q < (cnt S (continuing st.alloc) : Rat) * q := by
          linarith
        have hkey2 : (k : Rat) - (cnt S (st.seats.map (·.1)) : Rat) < (cnt S (continuing st.alloc) : Rat) :=
          lt_of_mul_lt_mul_right hkey (le_of_lt hh.qpos)
        have hkey3 : (k : Int) - (cnt S (st.seats.map (·.1)) : Int) < (cnt S (continuing st.alloc) : Int) := by
          exact_mod_cast hkey2
        have : min k S.length ≤ k := min_le_left _ _
        omega


theorem psc_reach {E : Engine} (hE : EngineOK E) (hB : SubBound E) (hh : PscHyp cfg votes n S k q)
    {ds : List Draw} {st : St} (hr : Reach E cfg (selectorInput votes n) ds st) : PscInv votes S k q st := by
  induction hr with
  | init h =>
    obtain ⟨_, hf, hs, hb⟩ := initState_inv (cfg := cfg) hE h
    simp only [selectorInput] at hs
    unfold initState at h
    split at h
    · cases h
    · rename_i a ds' hinit
      injection h with h; subst h
      have hi := init_inv hE hinit
      simp only [selectorInput] at hinit hi
      refine ⟨(by intro hc; cases hc), (fun _ => by simp [sumSeats, selectorInput]), fun _ _ => ?_, fun _ => ?_⟩
      · simp only [selectorInput, List.map_nil]
        rw [support_eq_heldP_init hE hh.sne hinit]
        simp [cnt]
      · simp only [selectorInput]
        rw [hi.cont_eq]
        by_cases hk0 : k = 0
        · simp [hk0]
        · -- the support is positive, so some ballot is solid for S and all members of S are candidates
          have hkpos : (1 : Rat) ≤ (k : Rat) := by exact_mod_cast Nat.pos_of_ne_zero hk0
          have hpos : 0 < support votes S := by
            have := hh.supp
            have : q ≤ (k : Rat) * q := by nlinarith [hh.qpos]
            linarith [hh.qpos, hh.supp]
          have hex : ∃ bw ∈ votes, solidFor bw.1 S = true := by
            by_contra hno
            have : ∀ bw ∈ votes, solidFor bw.1 S = false := by
              intro bw hbw; by_contra hc; exact hno ⟨bw, hbw, by simpa using hc⟩
            rw [support_zero_of_none this] at hpos
            exact lt_irrefl _ hpos
          obtain ⟨bw, hbw, hsol⟩ := hex
          unfold solidFor at hsol
          rw [List.any_eq_true] at hsol
          obtain ⟨j, _, hsame⟩ := hsol
          have hall : ∀ x ∈ S, x ∈ allRanked votes := by
            intro x hx
            have hxp : x ∈ prefixCands bw.1 j := ((sameSet_iff.mp hsame) x).mpr hx
            apply mem_allRanked.mpr
            refine ⟨bw, hbw, ?_⟩
            unfold prefixCands at hxp
            have hsplit : ballotCands bw.1 = ballotCands (bw.1.take j) ++ ballotCands (bw.1.drop j) := by
              rw [← ballotCands_append, List.take_append_drop]
            rw [hsplit]
            exact List.mem_append_left _ hxp
          have hfull : cnt S (allRanked votes) = S.length := by
            unfold cnt
            rw [List.filter_eq_self.mpr (by intro x hx; simpa using hall x hx)]
          have h0 : cnt S ([] : List Cand) = 0 := by simp [cnt]
          rw [hfull, List.map_nil, h0, zero_add]
          exact Nat.min_le_right _ _
  | step hr' h ih => exact psc_step hE hB hh (reach_inv hE hr') (shape_reach hE hr') (reach_restsItem hE hr') ih h

/-- **Proportionality for solid coalitions** of the selector outcome -/
theorem psc_selector {E : Engine} (hE : EngineOK E) (hB : SubBound E) (hh : PscHyp cfg votes n S k q)
    {ds : List Draw} {l : List Cand} (h : selectorEvaluate E cfg votes n ds = .ok l) :
    min k S.length ≤ electedIn l S := by
  obtain ⟨st, hr, hsum, rfl⟩ := selectorEvaluate_ok h
  have hp := psc_reach hE hB hh hr
  have hi := reach_inv hE hr
  have hperm := distributionToSelection_perm st.seats
  rw [← cnt_eq_electedIn, cnt_perm (L' := st.seats.map (·.1)) (fun x => hperm.mem_iff)]
  cases hf : st.final with
  | true => exact hp.fin hf
  | false =>
    by_contra hlt
    have hlt' : cnt S (st.seats.map (·.1)) < min k S.length := not_le.mp hlt
    have hpot := hp.pot hf
    have hmS : 1 ≤ cnt S (continuing st.alloc) := by omega
    have hrest := hp.rest hf hmS
    have hbq := hp.byq hf
    have hcons := hi.cons hf
    have hnn := hi.nonneg hh.wf hf
    simp only [selectorInput, runQuota, quotaValue, hh.quota, Option.getD_some, hbq, hsum] at hcons
    have he := emptyWeight_nonneg hh.wf
    have hle : heldP (fun b => solidFor b S) st.alloc ≤ held st.alloc := by
      rw [held_split (fun b => solidFor b S) st.alloc]
      have := heldP_nonneg (P := fun b => !solidFor b S) hnn
      linarith
    have hk1 : (cnt S (st.seats.map (·.1)) : Rat) + 1 ≤ (k : Rat) := by
      have : cnt S (st.seats.map (·.1)) + 1 ≤ k := by
        have := min_le_left k S.length
        omega
      exact_mod_cast this
    have hd := hh.droop
    have hs := hh.supp
    have hq := hh.qpos
    nlinarith

end

end VL.STV
