/-
  C10, score family: candidate names do not matter.  `ScoreToSimpleVotes.convert` and `ScoreVoting.evaluate` never
  compare candidates but for equality (dict keys), so for every injective renaming `σ` the outcome on the renamed profile
  is the renamed outcome — an EQUALITY when every ballot lists its renamed candidates in the old order, and the same
  dict / selection up to insertion order (`List.Perm` / `SlotsEquiv`) when the ballots are re-listed (e.g. re-sorted by
  the new ids, as a `frozenset` of a non-monotone renaming would iterate).
-/
import VotelibProofs.Lemmas.PermScore
namespace VL.Perm
open VL VL.Score VL.C10

def renSBallot (σ : Cand → Cand) (b : SBallot) : SBallot := b.map (fun cs => (σ cs.1, cs.2))
/-- the score profile with every candidate renamed -/
def renScore (σ : Cand → Cand) (p : SProfile) : SProfile := p.map (fun bn => (renSBallot σ bn.1, bn.2))
def renScoreTable (σ : Cand → Cand) (t : ScoreTable) : ScoreTable := t.map (fun q => (σ q.1, q.2))

theorem addScore_ren {σ : Cand → Cand} (hσ : Function.Injective σ) (t : ScoreTable) (c : Cand) (s : Rat) (n : Int) :
    addScore (renScoreTable σ t) (σ c) s n = renScoreTable σ (addScore t c s n) := by
  induction t with
  | nil => rfl
  | cons q qs ih =>
    obtain ⟨k, cs⟩ := q
    show addScore ((σ k, cs) :: renScoreTable σ qs) (σ c) s n = _
    unfold addScore
    by_cases hk : k = c
    · rw [if_pos hk, if_pos (by rw [hk])]; rfl
    · rw [if_neg hk, if_neg (fun e => hk (hσ e)), ih]; rfl

theorem scoreFlat_ren (σ : Cand → Cand) (p : SProfile) :
    scoreFlat (renScore σ p) = (scoreFlat p).map (fun x => (σ x.1, x.2.1, x.2.2)) := by
  unfold scoreFlat renScore renSBallot
  rw [List.flatMap_map, List.map_flatMap]
  congr 1
  funext bn
  simp only [List.map_map, Function.comp_def]

theorem rawScores_ren {σ : Cand → Cand} (hσ : Function.Injective σ) (p : SProfile) :
    rawScores (renScore σ p) = renScoreTable σ (rawScores p) := by
  rw [rawScores_eq_fold, rawScores_eq_fold, scoreFlat_ren, List.foldl_map]
  have : ∀ (L : List (Cand × Rat × Int)) (t : ScoreTable),
      L.foldl (fun t x => addScore t (σ x.1) x.2.1 x.2.2) (renScoreTable σ t) =
        renScoreTable σ (L.foldl (fun t x => addScore t x.1 x.2.1 x.2.2) t) := by
    intro L
    induction L with
    | nil => intro t; rfl
    | cons x xs ih => intro t; rw [List.foldl_cons, List.foldl_cons, addScore_ren hσ, ih]
  exact this _ []

theorem totalVotes_ren (σ : Cand → Cand) (p : SProfile) : totalVotes (renScore σ p) = totalVotes p := by
  unfold totalVotes renScore
  rw [List.map_map]; rfl

/-- `mapM` commutes with a renaming of the items -/
theorem score_mapM_ren {α β : Type} (g : α → α) (g' : β → β) (f : α → Except Err β)
    (hf : ∀ x, f (g x) = (f x).map g') (l : List α) : (l.map g).mapM f = (l.mapM f).map (List.map g') := by
  induction l with
  | nil => rfl
  | cons x xs ih =>
    rw [List.map_cons, score_mapM_cons_ok, score_mapM_cons_ok, hf x, ih]
    cases f x with
    | error e => rfl
    | ok y =>
      cases xs.mapM f with
      | error e => rfl
      | ok ys => rfl

theorem correctedScores_ren {σ : Cand → Cand} (hσ : Function.Injective σ) (cfg : Cfg) (p : SProfile) :
    correctedScores cfg (renScore σ p) = (correctedScores cfg p).map (renScoreTable σ) := by
  have e : ∀ votes, correctedScores cfg votes = (rawScores votes).mapM (correctEntry cfg (totalVotes votes)) := fun _ => rfl
  rw [e, e, rawScores_ren hσ, totalVotes_ren]
  apply score_mapM_ren
  intro q
  unfold correctEntry
  cases correctOne cfg q.2 (totalVotes p) <;> rfl

theorem aggregate_ren (σ : Cand → Cand) (fn : Agg) (t : ScoreTable) :
    aggregate fn (renScoreTable σ t) = (aggregate fn t).map (renVotes σ) := by
  have e : ∀ t, aggregate fn t = t.mapM (aggEntry fn) := fun _ => rfl
  rw [e, e]
  apply score_mapM_ren
  intro q
  unfold aggEntry
  cases aggregateOne fn q.2 <;> rfl

/-- **`ScoreToSimpleVotes.convert` commutes with every injective renaming** (ballots list the renamed candidates in the
    old order): the aggregated dict is the renamed dict, in the same insertion order -/
theorem convert_rename {σ : Cand → Cand} (hσ : Function.Injective σ) (cfg : Cfg) (p : SProfile) :
    convert cfg (renScore σ p) = (convert cfg p).map (renVotes σ) := by
  unfold convert
  rw [correctedScores_ren hσ]
  cases correctedScores cfg p with
  | error e => rfl
  | ok t => exact aggregate_ren σ cfg.fn t

/-- **`ScoreVoting.evaluate` commutes with every injective renaming**: the same exception, or the renamed selection -/
theorem scoreVoting_rename {σ : Cand → Cand} (hσ : Function.Injective σ) (cfg : Cfg) (p : SProfile) (n : Nat) :
    scoreVoting cfg (renScore σ p) n = (scoreVoting cfg p n).map (List.map (renSlot σ)) := by
  unfold scoreVoting
  rw [convert_rename hσ]
  cases convert cfg p with
  | error e => rfl
  | ok agg => exact congrArg Except.ok (getNBest_rename σ agg n)

theorem score_exceptEquiv_map_right {α : Type} {R : α → α → Prop} (f : α → α) {x y : Except Err α}
    (h : ExceptEquiv R x (y.map f)) : ExceptEquiv (fun a b => R a (f b)) x y := by
  cases x with
  | error e =>
    cases y with
    | error e' => exact h
    | ok b => exact h.elim
  | ok a =>
    cases y with
    | error e' => exact h.elim
    | ok b => exact h

/-- **Score aggregation: candidate names do not matter**, ballots re-listed in any order (`p'` holds the renamed ballots of
    `p`, each with its `(candidate, grade)` pairs in any order, the ballots in any order): the same exception, or the
    renamed dict up to insertion order -/
theorem convert_rename_same {σ : Cand → Cand} (hσ : Function.Injective σ) (cfg : Cfg) (p p' : SProfile)
    (h : SameBallots p' (renScore σ p)) :
    ExceptEquiv (fun r' r => r'.Perm (renVotes σ r)) (convert cfg p') (convert cfg p) := by
  apply score_exceptEquiv_map_right
  rw [← convert_rename hσ]
  exact convert_same cfg h

/-- **ScoreVoting: candidate names do not matter**, ballots re-listed in any order: the same exception, or the renamed
    selection up to `SlotsEquiv` -/
theorem scoreVoting_rename_same {σ : Cand → Cand} (hσ : Function.Injective σ) (cfg : Cfg) (p p' : SProfile)
    (h : SameBallots p' (renScore σ p)) (n : Nat) :
    ExceptEquiv (fun r' r => SlotsEquiv r' (r.map (renSlot σ))) (scoreVoting cfg p' n) (scoreVoting cfg p n) := by
  apply score_exceptEquiv_map_right
  rw [← scoreVoting_rename hσ]
  exact scoreVoting_same cfg h n

example : Function.Injective (fun c : Nat => if c = 0 then 7 else if c = 1 then 3 else if c = 2 then 5 else c + 10) := by
  intro a b h
  simp only at h
  split_ifs at h <;> omega

/-- non-vacuity: the renaming 0 ↦ 7, 1 ↦ 3, 2 ↦ 5 (not monotone), the renamed ballots re-sorted by the new ids -/
example : SameBallots [([(3, 2), (7, 5)], 2), ([(3, 5), (7, 1)], 1), ([(5, 3)], 1)]
    (renScore (fun c => if c = 0 then 7 else if c = 1 then 3 else if c = 2 then 5 else c + 10)
      [([(0, 5), (1, 2)], 2), ([(0, 1), (1, 5)], 1), ([(2, 3)], 1)]) := by decide +kernel

end VL.Perm
