/-
  The system header of STV files for ARBITRARY evaluator trees (C19): what `_dump_system` refuses, which files it
  writes that its own reader refuses, which settings it drops silently, and the round trip for everything else.
-/
import VotelibProofs.Lemmas.StvFile
namespace VL.StvFile
open VL
set_option linter.unusedSimpArgs false
set_option linter.unusedVariables false

/-! ### the writer: `dumpSys` is `linesOf` unless `sysRefused` -/
theorem dumpTb_spec : ∀ tb : Tb, dumpTb tb = if tbRefused tb then .error notSupported else .ok (tbLines tb)
  | .pre ok inner => by
      cases ok <;> simp [dumpTb, tbRefused, tbLines, tbMeaning, dumpTb_spec inner]
  | .order => by simp [dumpTb, tbRefused, tbLines, tbMeaning, rndVal]
  | .sortitor (some n) => by simp [dumpTb, tbRefused, tbLines, tbMeaning, rndVal]
  | .sortitor none => by simp [dumpTb, tbRefused, tbLines, tbMeaning]
  | .unsupported => by simp [dumpTb, tbRefused]

theorem dumpTv_spec (a b c : Bool) (q : Option String) (m : Bool) :
    dumpTv a b c q m = if tvRefused a b c q then .error notSupported
      else .ok ([("method", SVal.word "BC")] ++ (match q with | some n => [("quota", SVal.word n)] | none => [])
        ++ (if m then [("quota", SVal.word "mandatory")] else [])) := by
  cases a <;> cases b <;> cases c <;> simp [dumpTv, tvRefused]
  rcases q with _ | n
  · cases m <;> simp
  · by_cases h : n = "droop" ∨ n = "hare"
    · rcases h with rfl | rfl <;> cases m <;> simp
    · simp [h]
      rcases not_or.1 h with ⟨h1, h2⟩
      simp [h1, h2]

theorem dumpSys_spec : ∀ sys : Sys, dumpSys sys = if sysRefused sys then .error notSupported else .ok (linesOf sys)
  | .voting none e => by simp only [dumpSys, sysRefused, linesOf]; exact dumpSys_spec e
  | .voting (some (t, ok)) e => by
      cases ok
      · simp [dumpSys, sysRefused]
      · by_cases h : sysRefused e = true <;> simp [dumpSys, sysRefused, linesOf, dumpSys_spec e, h]
  | .fixed n e => by
      by_cases h : sysRefused e = true <;> simp [dumpSys, sysRefused, linesOf, dumpSys_spec e, h]
  | .tie m tb d => by
      by_cases h : sysRefused m = true
      · simp [dumpSys, sysRefused, dumpSys_spec m, h]
      · by_cases h2 : tbRefused tb = true <;> simp [dumpSys, sysRefused, linesOf, dumpSys_spec m, dumpTb_spec tb, h, h2]
  | .tv a b c q m ae sel => by simp only [dumpSys, sysRefused, linesOf]; exact dumpTv_spec a b c q m
  | .other => by simp [dumpSys, sysRefused, linesOf]

/-! ### the reader: the collected settings do not depend on the order of the lines -/
def vals (k : String) (ls : List (String × SVal)) : List SVal := (ls.filter (fun p => p.1 == k)).map (·.2)

theorem vals_append (k : String) (a b : List (String × SVal)) : vals k (a ++ b) = vals k a ++ vals k b := by
  simp [vals]

def KnownKeys (ls : List (String × SVal)) : Prop :=
  ∀ p ∈ ls, p.1 = "title" ∨ p.1 = "method" ∨ p.1 = "quota" ∨ p.1 = "seats" ∨ p.1 = "random"

def quotaList (c : Comps) : List SVal :=
  match c.quota with
  | none => []
  | some (a, none) => [a]
  | some (a, some b) => [a, b]

def quotaOf : List SVal → Option (SVal × Option SVal)
  | [] => none
  | [a] => some (a, none)
  | a :: b :: _ => some (a, some b)

/-- `syscomps` from the values of each key, in file order: every key at most once, `quota` at most twice -/
def assemble (T M Q S R : List SVal) : Except Err Comps :=
  if T.length ≤ 1 ∧ M.length ≤ 1 ∧ Q.length ≤ 2 ∧ S.length ≤ 1 ∧ R.length ≤ 1 then
    .ok { title := T.head?, method := M.head?, quota := quotaOf Q, seats := S.head?, random := R.head? }
  else .error Err.parseError

theorem assemble_self (c : Comps) :
    assemble c.title.toList c.method.toList (quotaList c) c.seats.toList c.random.toList = .ok c := by
  obtain ⟨t, m, q, s, r⟩ := c
  cases t <;> cases m <;> cases s <;> cases r <;> rcases q with _ | ⟨a, _ | b⟩ <;>
    simp [assemble, quotaList, quotaOf]

theorem assemble_err (T M Q S R : List SVal)
    (h : 1 < T.length ∨ 1 < M.length ∨ 2 < Q.length ∨ 1 < S.length ∨ 1 < R.length) :
    assemble T M Q S R = .error Err.parseError := by
  unfold assemble
  rw [if_neg]
  intro hc
  omega

/-- **the header is a dictionary**: what `_load_system` collects from lines with known keys depends only on the values
    given for each key -/
theorem collect_spec : ∀ (ls : List (String × SVal)) (c : Comps), KnownKeys ls →
    collect ls c = assemble (c.title.toList ++ vals "title" ls) (c.method.toList ++ vals "method" ls)
      (quotaList c ++ vals "quota" ls) (c.seats.toList ++ vals "seats" ls) (c.random.toList ++ vals "random" ls)
  | [], c, _ => by simp [collect, vals, assemble_self, pure, Except.pure]
  | (k, v) :: t, c, hk => by
      have hkt : KnownKeys t := fun p hp => hk p (List.mem_cons_of_mem _ hp)
      have hkv := hk (k, v) List.mem_cons_self
      simp only at hkv
      obtain ⟨ct, cm, cq, cs, cr⟩ := c
      have k1 : ("method" = "title") = False := by decide
      have k2 : ("quota" = "title") = False := by decide
      have k3 : ("quota" = "method") = False := by decide
      have k4 : ("quota" = "seats") = False := by decide
      have k5 : ("quota" = "random") = False := by decide
      have k6 : ("seats" = "title") = False := by decide
      have k7 : ("seats" = "method") = False := by decide
      have k8 : ("random" = "title") = False := by decide
      have k9 : ("random" = "method") = False := by decide
      have k10 : ("random" = "seats") = False := by decide
      rcases hkv with rfl | rfl | rfl | rfl | rfl
      · cases ct with
        | none =>
          simp only [collect, compsAdd, if_true, ok_bind, pure_eq]
          rw [collect_spec t _ hkt]
          simp [vals, quotaList]
        | some x =>
          simp only [collect, compsAdd, if_true, throw_eq, err_bind]
          rw [assemble_err]
          left; simp [vals]
      · cases cm with
        | none =>
          simp only [collect, compsAdd, k1, if_false, if_true, ok_bind, pure_eq]
          rw [collect_spec t _ hkt]
          simp [vals, quotaList]
        | some x =>
          simp only [collect, compsAdd, k1, if_false, if_true, throw_eq, err_bind]
          rw [assemble_err]
          right; left; simp [vals]
      · rcases cq with _ | ⟨a, _ | b⟩
        · simp only [collect, compsAdd, k2, k3, k4, k5, if_false, if_true, ok_bind, pure_eq]
          rw [collect_spec t _ hkt]
          simp [vals, quotaList]
        · simp only [collect, compsAdd, k2, k3, k4, k5, if_false, if_true, ok_bind, pure_eq]
          rw [collect_spec t _ hkt]
          simp [vals, quotaList]
        · simp only [collect, compsAdd, k2, k3, k4, k5, if_false, if_true, throw_eq, err_bind]
          rw [assemble_err]
          right; right; left; simp [vals, quotaList]
      · cases cs with
        | none =>
          simp only [collect, compsAdd, k6, k7, if_false, if_true, ok_bind, pure_eq]
          rw [collect_spec t _ hkt]
          simp [vals, quotaList]
        | some x =>
          simp only [collect, compsAdd, k6, k7, if_false, if_true, throw_eq, err_bind]
          rw [assemble_err]
          right; right; right; left; simp [vals]
      · cases cr with
        | none =>
          simp only [collect, compsAdd, k8, k9, k10, if_false, if_true, ok_bind, pure_eq]
          rw [collect_spec t _ hkt]
          simp [vals, quotaList]
        | some x =>
          simp only [collect, compsAdd, k8, k9, k10, if_false, if_true, throw_eq, err_bind]
          rw [assemble_err]
          right; right; right; right; simp [vals]

/-! ### the lines of a tree, key by key -/
theorem vals_tbLines_random (tb : Tb) : vals "random" (tbLines tb) = ((tbMeaning tb).toList).map rndVal := by
  cases h : tbMeaning tb <;> simp [tbLines, vals, h]

theorem vals_tbLines_other (k : String) (hk : ("random" == k) = false) (tb : Tb) : vals k (tbLines tb) = [] := by
  cases h : tbMeaning tb <;> simp [tbLines, vals, h, hk]

theorem knownKeys_tbLines (tb : Tb) : KnownKeys (tbLines tb) := by
  intro p hp
  cases h : tbMeaning tb <;> simp [tbLines, h] at hp
  subst hp; simp

theorem knownKeys_linesOf : ∀ sys : Sys, KnownKeys (linesOf sys)
  | .voting none e => by simp only [linesOf]; exact knownKeys_linesOf e
  | .voting (some (t, ok)) e => by
      intro p hp
      simp only [linesOf, List.mem_cons] at hp
      rcases hp with rfl | hp
      · simp
      · exact knownKeys_linesOf e p hp
  | .fixed n e => by
      intro p hp
      simp only [linesOf, List.mem_cons] at hp
      rcases hp with rfl | hp
      · simp
      · exact knownKeys_linesOf e p hp
  | .tie m tb d => by
      intro p hp
      simp only [linesOf, List.mem_append] at hp
      rcases hp with hp | hp
      · exact knownKeys_linesOf m p hp
      · exact knownKeys_tbLines tb p hp
  | .tv a b c q m ae sel => by
      intro p hp
      rcases q with _ | n <;> cases m <;> simp [linesOf] at hp
      all_goals (first | (subst hp; simp) | (rcases hp with rfl | rfl <;> simp) | (rcases hp with rfl | rfl | rfl <;> simp))
  | .other => by intro p hp; simp [linesOf] at hp

/-- the `method=` values written: BC for a transferable-vote evaluator, nothing for anything else -/
def methodsOf : Sys → List SVal
  | .voting _ e => methodsOf e
  | .fixed _ e => methodsOf e
  | .tie m _ _ => methodsOf m
  | .tv _ _ _ _ _ _ _ => [SVal.word "BC"]
  | .other => []

/-- the `quota=` values written -/
def quotasOf : Sys → List SVal
  | .voting _ e => quotasOf e
  | .fixed _ e => quotasOf e
  | .tie m _ _ => quotasOf m
  | .tv _ _ _ q m _ _ => (match q with | some n => [SVal.word n] | none => []) ++ (if m then [SVal.word "mandatory"] else [])
  | .other => []

theorem vals_title : ∀ sys : Sys, vals "title" (linesOf sys) = titlesOf sys
  | .voting none e => by simp only [linesOf, titlesOf]; exact vals_title e
  | .voting (some (t, ok)) e => by simp [linesOf, titlesOf, vals, ← vals_title e]
  | .fixed n e => by simp [linesOf, titlesOf, vals, ← vals_title e]
  | .tie m tb d => by simp [linesOf, titlesOf, vals_append, vals_title m, vals_tbLines_other "title" (by decide)]
  | .tv a b c q m ae sel => by rcases q with _ | n <;> cases m <;> simp [linesOf, titlesOf, vals]
  | .other => by simp [linesOf, titlesOf, vals]

theorem vals_seats : ∀ sys : Sys, vals "seats" (linesOf sys) = (seatsOf sys).map SVal.num
  | .voting none e => by simp only [linesOf, seatsOf]; exact vals_seats e
  | .voting (some (t, ok)) e => by simp [linesOf, seatsOf, vals, ← vals_seats e]
  | .fixed n e => by simp [linesOf, seatsOf, vals, ← vals_seats e]
  | .tie m tb d => by simp [linesOf, seatsOf, vals_append, vals_seats m, vals_tbLines_other "seats" (by decide)]
  | .tv a b c q m ae sel => by rcases q with _ | n <;> cases m <;> simp [linesOf, seatsOf, vals]
  | .other => by simp [linesOf, seatsOf, vals]

theorem vals_random : ∀ sys : Sys, vals "random" (linesOf sys) = (randomsOf sys).map rndVal
  | .voting none e => by simp only [linesOf, randomsOf]; exact vals_random e
  | .voting (some (t, ok)) e => by simp [linesOf, randomsOf, vals, ← vals_random e]
  | .fixed n e => by simp [linesOf, randomsOf, vals, ← vals_random e]
  | .tie m tb d => by simp [linesOf, randomsOf, vals_append, vals_random m, vals_tbLines_random]
  | .tv a b c q m ae sel => by rcases q with _ | n <;> cases m <;> simp [linesOf, randomsOf, vals]
  | .other => by simp [linesOf, randomsOf, vals]

theorem vals_method : ∀ sys : Sys, vals "method" (linesOf sys) = methodsOf sys
  | .voting none e => by simp only [linesOf, methodsOf]; exact vals_method e
  | .voting (some (t, ok)) e => by simp [linesOf, methodsOf, vals, ← vals_method e]
  | .fixed n e => by simp [linesOf, methodsOf, vals, ← vals_method e]
  | .tie m tb d => by simp [linesOf, methodsOf, vals_append, vals_method m, vals_tbLines_other "method" (by decide)]
  | .tv a b c q m ae sel => by rcases q with _ | n <;> cases m <;> simp [linesOf, methodsOf, vals]
  | .other => by simp [linesOf, methodsOf, vals]

theorem vals_quota : ∀ sys : Sys, vals "quota" (linesOf sys) = quotasOf sys
  | .voting none e => by simp only [linesOf, quotasOf]; exact vals_quota e
  | .voting (some (t, ok)) e => by simp [linesOf, quotasOf, vals, ← vals_quota e]
  | .fixed n e => by simp [linesOf, quotasOf, vals, ← vals_quota e]
  | .tie m tb d => by simp [linesOf, quotasOf, vals_append, vals_quota m, vals_tbLines_other "quota" (by decide)]
  | .tv a b c q m ae sel => by rcases q with _ | n <;> cases m <;> simp [linesOf, quotasOf, vals]
  | .other => by simp [linesOf, quotasOf, vals]

/-- the settings collected from the file written for a system that is not refused -/
theorem collect_linesOf (sys : Sys) (arg : Option Nat) :
    collect (linesOf sys ++ argLines arg) {} = assemble (titlesOf sys) (methodsOf sys) (quotasOf sys)
      ((seatsOf sys ++ arg.toList).map SVal.num) ((randomsOf sys).map rndVal) := by
  have hk : KnownKeys (linesOf sys ++ argLines arg) := by
    intro p hp
    rcases List.mem_append.1 hp with h | h
    · exact knownKeys_linesOf sys p h
    · cases arg <;> simp [argLines] at h
      subst h; simp
  rw [collect_spec _ _ hk]
  simp only [vals_append, vals_title, vals_method, vals_quota, vals_seats, vals_random]
  cases arg <;> simp [argLines, vals, quotaList]

/-! ### the bottom of the chain -/
theorem leaf_cases : ∀ sys : Sys,
    (methodsOf sys = [] ∧ quotasOf sys = [] ∧ leafQuota sys = none)
    ∨ (∃ m : Bool, methodsOf sys = [SVal.word "BC"] ∧ quotasOf sys = (if m then [SVal.word "mandatory"] else []) ∧ leafQuota sys = none)
    ∨ (∃ (q : String) (m : Bool), methodsOf sys = [SVal.word "BC"]
        ∧ quotasOf sys = SVal.word q :: (if m then [SVal.word "mandatory"] else []) ∧ leafQuota sys = some (q, m)
        ∧ (sysRefused sys = false → q = "droop" ∨ q = "hare"))
  | .voting none e => by simpa [methodsOf, quotasOf, leafQuota, sysRefused] using leaf_cases e
  | .voting (some (t, ok)) e => by
      rcases leaf_cases e with h | ⟨m, h⟩ | ⟨q, m, h1, h2, h3, h4⟩
      · exact Or.inl (by simpa [methodsOf, quotasOf, leafQuota] using h)
      · exact Or.inr (Or.inl ⟨m, by simpa [methodsOf, quotasOf, leafQuota] using h⟩)
      · refine Or.inr (Or.inr ⟨q, m, by simpa [methodsOf] using h1, by simpa [quotasOf] using h2,
          by simpa [leafQuota] using h3, ?_⟩)
        intro hr
        apply h4
        cases ok <;> simp [sysRefused] at hr
        exact hr
  | .fixed n e => by simpa [methodsOf, quotasOf, leafQuota, sysRefused] using leaf_cases e
  | .tie m0 tb d => by
      rcases leaf_cases m0 with h | ⟨m, h⟩ | ⟨q, m, h1, h2, h3, h4⟩
      · exact Or.inl (by simpa [methodsOf, quotasOf, leafQuota] using h)
      · exact Or.inr (Or.inl ⟨m, by simpa [methodsOf, quotasOf, leafQuota] using h⟩)
      · refine Or.inr (Or.inr ⟨q, m, by simpa [methodsOf] using h1, by simpa [quotasOf] using h2,
          by simpa [leafQuota] using h3, ?_⟩)
        intro hr
        apply h4
        simp [sysRefused] at hr
        exact hr.1
  | .tv a b c none m ae sel => Or.inr (Or.inl ⟨m, by simp [methodsOf, quotasOf, leafQuota]⟩)
  | .tv a b c (some q) m ae sel => by
      refine Or.inr (Or.inr ⟨q, m, by simp [methodsOf], by simp [quotasOf], by simp [leafQuota], ?_⟩)
      intro hr
      simp [sysRefused, tvRefused] at hr
      by_cases hq : q = "droop"
      · exact Or.inl hq
      · exact Or.inr (hr.2 hq)
  | .other => Or.inl (by simp [methodsOf, quotasOf, leafQuota])

/-! ### the three outcomes -/
theorem reloadSys_refused (sys : Sys) (arg : Option Nat) (h : sysRefused sys = true) :
    dumpSys sys = .error notSupported ∧ reloadSys sys arg = .error notSupported := by
  have hd : dumpSys sys = .error notSupported := by rw [dumpSys_spec, if_pos h]
  exact ⟨hd, by simp [reloadSys, hd]⟩

theorem reloadSys_eq (sys : Sys) (arg : Option Nat) (h : sysRefused sys = false) :
    dumpSys sys = .ok (linesOf sys) ∧
    reloadSys sys arg = (assemble (titlesOf sys) (methodsOf sys) (quotasOf sys)
      ((seatsOf sys ++ arg.toList).map SVal.num) ((randomsOf sys).map rndVal) >>= createSystem) := by
  have hd : dumpSys sys = .ok (linesOf sys) := by rw [dumpSys_spec]; simp [h]
  refine ⟨hd, ?_⟩
  simp only [reloadSys, hd, ok_bind]
  rw [collect_linesOf sys arg]

theorem assemble_ok (T M Q S R : List SVal)
    (h : T.length ≤ 1 ∧ M.length ≤ 1 ∧ Q.length ≤ 2 ∧ S.length ≤ 1 ∧ R.length ≤ 1) :
    assemble T M Q S R = .ok { title := T.head?, method := M.head?, quota := quotaOf Q, seats := S.head?, random := R.head? } := by
  unfold assemble; rw [if_pos h]

theorem reloadSys_unreadable (sys : Sys) (arg : Option Nat) (h : sysRefused sys = false)
    (hr : sysReadable sys arg = false) : reloadSys sys arg = .error Err.parseError := by
  rw [(reloadSys_eq sys arg h).2]
  by_cases hT : (titlesOf sys).length ≤ 1
  swap
  · rw [assemble_err _ _ _ _ _ (Or.inl (by omega))]; rfl
  by_cases hS : (seatsOf sys ++ arg.toList).length ≤ 1
  swap
  · rw [assemble_err _ _ _ _ _ (Or.inr (Or.inr (Or.inr (Or.inl (by simpa using hS)))))]; rfl
  by_cases hR : (randomsOf sys).length ≤ 1
  swap
  · rw [assemble_err _ _ _ _ _ (Or.inr (Or.inr (Or.inr (Or.inr (by simpa using hR)))))]; rfl
  have hq : leafQuota sys = none := by
    simp only [sysReadable, hT, hS, hR, decide_true, Bool.true_and] at hr
    cases hl : leafQuota sys with
    | none => rfl
    | some x => rw [hl] at hr; simp at hr
  rcases leaf_cases sys with ⟨h1, h2, _⟩ | ⟨m, h1, h2, _⟩ | ⟨q, m, _, _, h3, _⟩
  · rw [h1, h2, assemble_ok _ _ _ _ _ ⟨hT, by simp, by simp, by simpa using hS, by simpa using hR⟩]
    simp [createSystem, sysMethod, bind, Except.bind]
  · rw [h1, h2, assemble_ok _ _ _ _ _ ⟨hT, by simp, by cases m <;> simp, by simpa using hS, by simpa using hR⟩]
    cases m <;> simp [createSystem, sysMethod, sysQuotaSel, sysQuota, quotaOf, SVal.word, knownQuotas, bind, Except.bind]
  · rw [hq] at h3; cases h3

theorem reloadSys_readable (sys : Sys) (arg : Option Nat) (h : sysRefused sys = false)
    (hr : sysReadable sys arg = true) : reloadSys sys arg = .ok (summaryOf sys arg) := by
  rw [(reloadSys_eq sys arg h).2]
  simp only [sysReadable, Bool.and_eq_true, decide_eq_true_eq] at hr
  obtain ⟨⟨⟨hT, hS⟩, hR⟩, hq⟩ := hr
  rcases leaf_cases sys with ⟨_, _, h3⟩ | ⟨m, _, _, h3⟩ | ⟨q, m, h1, h2, h3, h4⟩
  · rw [h3] at hq; cases hq
  · rw [h3] at hq; cases hq
  rw [h1, h2, assemble_ok _ _ _ _ _ ⟨hT, by simp, by cases m <;> simp, by simpa using hS, by simpa using hR⟩]
  simp only [summaryOf, h3]
  have hqq := h4 h
  generalize titlesOf sys = T at hT ⊢
  generalize seatsOf sys ++ arg.toList = S at hS ⊢
  generalize randomsOf sys = R at hR ⊢
  rcases T with _ | ⟨t, _ | _⟩ <;> (try (simp at hT; done)) <;>
  rcases S with _ | ⟨n, _ | _⟩ <;> (try (simp at hS; done)) <;>
  rcases R with _ | ⟨_ | r, _ | _⟩ <;> (try (simp at hR; done)) <;>
  rcases hqq with rfl | rfl <;> cases m <;>
  simp [createSystem, sysTitle, sysMethod, sysQuotaSel, sysQuota, sysRandom, sysSeats, quotaOf, rndVal,
    knownQuotas, SVal.word, SVal.num, bind, Except.bind, pure, Except.pure]

/-- the whole file: every system that is not refused and readable round-trips with its candidates and ballots -/
theorem load_dump_sys (sys : Sys) (arg : Option Nat) (h : sysRefused sys = false) (hr : sysReadable sys arg = true)
    (d : Doc Weight) (hd : wfStv d = true) (cls : String → OItem) (bl : List Blt.Line) :
    ∃ hv, dumpStv sys arg true d = .ok hv ∧
      loadStv cls hv.1 hv.2 bl = .ok (eraseDoc d, d.cands.map (fun c => (c.1, c.2.1)), summaryOf sys arg) := by
  have hls := (reloadSys_eq sys arg h).1
  have hre := reloadSys_readable sys arg h hr
  simp only [reloadSys, hls, ok_bind] at hre
  cases hc : collect (linesOf sys ++ argLines arg) {} with
  | error e => rw [hc] at hre; simp at hre
  | ok c =>
    rw [hc] at hre
    simp only [ok_bind] at hre
    exact load_dump_gen sys arg (linesOf sys) c (summaryOf sys arg) hls hc hre d hd cls bl

end VL.StvFile
