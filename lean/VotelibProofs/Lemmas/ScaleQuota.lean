/-
  C11: QuotaDistributor (all over-award policies, any prev_gains / max_seats) and LargestRemainder are scale
  invariant when the quota is homogeneous (hare, hagenbach_bischoff, imperiali): the whole quotas
  `int(kv / (kq))` are unchanged, the subtract-remainders scale by `k`, the largest-remainder remainders
  `kv/(kq) - gained` do not change at all.
-/
import VotelibProofs.Lemmas.ScaleBasic
import VotelibProofs.Props.C09
import VotelibModel.QuotaDist
namespace VL.Scale
open VL VL.QD

theorem getNBest_scale' (k : Rat) (hk : 0 < k) (votes : Votes) (n : Nat) :
    getNBest (scaleVotes k votes) n = getNBest votes n :=
  VL.C09.getNBest_strictMono_map (fun x => k * x) (fun _ _ h => mul_lt_mul_of_pos_left h hk) votes n

theorem fulfills_scale (k : Rat) (hk : 0 < k) (q : Rat) (ae : Bool) (v : Rat) :
    fulfills (k * q) ae (k * v) = fulfills q ae v := by
  unfold fulfills
  simp only [mul_lt_mul_iff_right₀ hk, mul_right_inj' (ne_of_gt hk)]

theorem wholeStep_scale (k : Rat) (hk : 0 < k) (q : Rat) (ae : Bool) (prev maxS : IMap) (sel : Sel) (p : Cand × Rat) :
    wholeStep (k * q) ae prev maxS sel (p.1, k * p.2) = wholeStep q ae prev maxS sel p := by
  unfold wholeStep
  simp only [fulfills_scale k hk, mul_eq_zero, ne_of_gt hk, false_or, mul_div_mul_left _ _ (ne_of_gt hk)]

theorem wholeLoop_scale (k : Rat) (hk : 0 < k) (q : Rat) (ae : Bool) (prev maxS : IMap) (votes : Votes) :
    ∀ sel : Sel, wholeLoop (k * q) ae prev maxS sel (scaleVotes k votes) = wholeLoop q ae prev maxS sel votes := by
  unfold scaleVotes
  induction votes with
  | nil => intro sel; rfl
  | cons p ps ih =>
    intro sel
    simp only [List.map_cons, wholeLoop, wholeStep_scale k hk]
    cases wholeStep q ae prev maxS sel p with
    | error e => rfl
    | ok s => exact ih s

theorem votesOfKey_scale (k : Rat) (votes : Votes) (key : Key) :
    votesOfKey (scaleVotes k votes) key = k * votesOfKey votes key := by
  cases key with
  | cand c => exact getD_scale k votes c
  | tie _ => simp [votesOfKey]

theorem subRemainders_scale (k : Rat) (votes : Votes) (q : Rat) (prev : IMap) (sel : Sel) :
    subRemainders (scaleVotes k votes) (k * q) prev sel = scaleVotes k (subRemainders votes q prev sel) := by
  unfold subRemainders
  conv_rhs => unfold scaleVotes
  rw [List.map_map]
  apply List.map_congr_left
  intro ip _
  simp only [Function.comp, votesOfKey_scale, Prod.mk.injEq, true_and]
  ring

theorem subtractStep_scale (k : Rat) (hk : 0 < k) (votes : Votes) (q : Rat) (prev : IMap) (sel : Sel) :
    subtractStep (scaleVotes k votes) (k * q) prev sel = subtractStep votes q prev sel := by
  unfold subtractStep
  rw [subRemainders_scale, getNBest_scale' k hk]

theorem subtractLoop_scale (k : Rat) (hk : 0 < k) (votes : Votes) (q : Rat) (prev : IMap) :
    ∀ (fuel : Nat) (sel : Sel),
      subtractLoop (scaleVotes k votes) (k * q) prev fuel sel = subtractLoop votes q prev fuel sel := by
  intro fuel
  induction fuel with
  | zero => intro sel; rfl
  | succ f ih =>
    intro sel
    simp only [subtractLoop, subtractStep_scale k hk]
    cases subtractStep votes q prev sel with
    | error e => rfl
    | ok s => exact ih s

theorem applyPolicy_scale (cfg : Cfg) (hq : ∀ (k V : Rat) (n : Nat), cfg.quota (k * V) n = k * cfg.quota V n)
    (k : Rat) (hk : 0 < k) (votes : Votes) (n : Nat) (prev : IMap) (sel : Sel) :
    applyPolicy cfg (scaleVotes k votes) n prev sel = applyPolicy cfg votes n prev sel := by
  unfold applyPolicy subtractOveraward
  simp only [sumVals_scale, hq, subtractLoop_scale k hk]

/-- QuotaDistributor with a homogeneous quota: every policy, any previous gains and caps -/
theorem quotaDistribute_scale (cfg : Cfg) (hq : ∀ (k V : Rat) (n : Nat), cfg.quota (k * V) n = k * cfg.quota V n)
    (k : Rat) (hk : 0 < k) (votes : Votes) (n : Nat) (prev maxS : IMap) :
    quotaDistribute cfg (scaleVotes k votes) n prev maxS = quotaDistribute cfg votes n prev maxS := by
  unfold quotaDistribute
  have hle : ∀ q : Rat, (k * q ≤ 0) ↔ (q ≤ 0) := by
    intro q
    constructor
    · intro h; by_contra hn; exact absurd h (not_le.mpr (mul_pos hk (not_le.mp hn)))
    · intro h; exact mul_nonpos_of_nonneg_of_nonpos (le_of_lt hk) h
  simp only [sumVals_scale, hq, wholeLoop_scale k hk, applyPolicy_scale cfg hq k hk, hle]

theorem lrRemainders_scale (k : Rat) (hk : 0 < k) (votes : Votes) (q : Rat) (gained : Sel) (maxS : IMap) :
    lrRemainders (scaleVotes k votes) (k * q) gained maxS = lrRemainders votes q gained maxS := by
  unfold lrRemainders scaleVotes
  rw [List.filterMap_map]
  apply List.filterMap_congr
  intro p _
  simp only [Function.comp, mul_div_mul_left _ _ (ne_of_gt hk)]

/-- LargestRemainder with a homogeneous quota -/
theorem largestRemainder_scale (cfg : Cfg) (hq : ∀ (k V : Rat) (n : Nat), cfg.quota (k * V) n = k * cfg.quota V n)
    (k : Rat) (hk : 0 < k) (votes : Votes) (n : Nat) (prev maxS : IMap) :
    largestRemainder cfg (scaleVotes k votes) n prev maxS = largestRemainder cfg votes n prev maxS := by
  unfold largestRemainder
  simp only [quotaDistribute_scale cfg hq k hk, sumVals_scale, hq, lrRemainders_scale k hk, mul_eq_zero,
    ne_of_gt hk, false_or]

end VL.Scale
