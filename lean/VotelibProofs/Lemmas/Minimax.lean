/-
  Minimax: `max_counterscore[c]` is the maximum of the scores of the pairs in which `c` is the lower
  candidate (`none` = -inf when there is none); the Condorcet winner has the unique best value under the
  winning-votes and margins scorers.
-/
import VotelibProofs.Lemmas.Copeland
namespace VL.Condorcet
open VL

/-- `max(current, s)` where `none` is `-inf` -/
def omax (a : Option Rat) (s : Rat) : Option Rat :=
  match a with
  | none => some s
  | some a => some (rmax a s)

def okeys (m : List (Cand × Option Rat)) : List Cand := m.map (·.1)

theorem oget_cons (a : Cand) (y : Option Rat) (es : List (Cand × Option Rat)) (c : Cand) :
    oget ((a, y) :: es) c = if a = c then y else oget es c := by
  by_cases h : a = c
  · simp [oget, List.find?, h]
  · simp [oget, List.find?, h]

theorem oget_oset (m : List (Cand × Option Rat)) (c : Cand) (x : Option Rat) (c' : Cand) :
    oget (oset m c x) c' = if c' = c then x else oget m c' := by
  induction m with
  | nil =>
    by_cases h : c' = c
    · subst h; simp [oset, oget_cons]
    · have : ¬ c = c' := fun h' => h h'.symm
      simp [oset, oget_cons, h, this, oget]
  | cons e es ih =>
    obtain ⟨a, y⟩ := e
    by_cases ha : a = c
    · subst ha
      by_cases h : c' = a
      · subst h; simp [oset, oget_cons]
      · have : ¬ a = c' := fun h' => h h'.symm
        simp [oset, oget_cons, h, this]
    · simp only [oset, ha, if_false, oget_cons, ih]
      by_cases h : c' = c
      · subst h; simp [ha]
      · simp [h]

theorem okeys_oset (m : List (Cand × Option Rat)) (c : Cand) (x : Option Rat) (hc : c ∈ okeys m) :
    okeys (oset m c x) = okeys m := by
  induction m with
  | nil => simp [okeys] at hc
  | cons e es ih =>
    obtain ⟨a, y⟩ := e
    by_cases ha : a = c
    · subst ha; simp [oset, okeys]
    · simp only [okeys, List.map_cons, List.mem_cons] at hc ih ⊢
      have hc' : c ∈ List.map (fun x => x.1) es := by
        rcases hc with h | h
        · exact absurd h.symm ha
        · exact h
      simp [oset, ha, ih hc']

def mmStep (m : List (Cand × Option Rat)) (e : Pair × Rat) : List (Cand × Option Rat) :=
  oset m e.1.2 (omax (oget m e.1.2) e.2)

theorem minimaxTable_eq (sc : Scorer) (v : Pairwise) :
    minimaxTable sc v = (scorePairs sc (allPairs v)).foldl mmStep ((candidates v).map (fun c => (c, none))) := by
  rfl

theorem oget_mmFold (sp : Pairwise) (m : List (Cand × Option Rat)) (c : Cand) :
    oget (sp.foldl mmStep m) c = ((sp.filter (fun e => e.1.2 = c)).map (·.2)).foldl omax (oget m c) := by
  induction sp generalizing m with
  | nil => simp
  | cons e es ih =>
    rw [List.foldl_cons, ih, mmStep, oget_oset]
    by_cases h : e.1.2 = c
    · have hc : c = e.1.2 := h.symm
      subst hc
      simp [List.filter_cons]
    · have hc : ¬ c = e.1.2 := fun h' => h h'.symm
      simp [List.filter_cons, h, hc]

theorem okeys_mmFold (sp : Pairwise) (m : List (Cand × Option Rat)) (h : ∀ e ∈ sp, e.1.2 ∈ okeys m) :
    okeys (sp.foldl mmStep m) = okeys m := by
  induction sp generalizing m with
  | nil => rfl
  | cons e es ih =>
    rw [List.foldl_cons]
    have h1 : okeys (mmStep m e) = okeys m := okeys_oset m _ _ (h e (by simp))
    rw [ih]
    · exact h1
    · intro e' he'
      rw [h1]
      exact h e' (List.mem_cons_of_mem _ he')

theorem rmax_ge_left (a b : Rat) : a ≤ rmax a b := by
  unfold rmax; split
  · exact le_of_lt ‹_›
  · exact le_refl _

theorem rmax_ge_right (a b : Rat) : b ≤ rmax a b := by
  unfold rmax; split
  · exact le_refl _
  · exact not_lt.1 ‹_›

theorem rmax_le {a b B : Rat} (ha : a ≤ B) (hb : b ≤ B) : rmax a b ≤ B := by
  unfold rmax; split <;> assumption

theorem omaxFold_some (l : List Rat) (a0 : Rat) : ∃ s, l.foldl omax (some a0) = some s ∧ a0 ≤ s := by
  induction l generalizing a0 with
  | nil => exact ⟨a0, rfl, le_refl _⟩
  | cons t ts ih =>
    obtain ⟨s, hs, hle⟩ := ih (rmax a0 t)
    exact ⟨s, hs, le_trans (rmax_ge_left _ _) hle⟩

theorem omaxFold_ge (l : List Rat) (a : Option Rat) {t : Rat} (ht : t ∈ l) :
    ∃ s, l.foldl omax a = some s ∧ t ≤ s := by
  induction l generalizing a with
  | nil => simp at ht
  | cons x xs ih =>
    rcases List.mem_cons.1 ht with rfl | ht'
    · cases a with
      | none =>
        obtain ⟨s, hs, hle⟩ := omaxFold_some xs t
        exact ⟨s, hs, hle⟩
      | some a0 =>
        obtain ⟨s, hs, hle⟩ := omaxFold_some xs (rmax a0 t)
        exact ⟨s, hs, le_trans (rmax_ge_right _ _) hle⟩
    · exact ih _ ht'

theorem omaxFold_le (l : List Rat) (a : Option Rat) {B : Rat} (hl : ∀ t ∈ l, t ≤ B) (ha : ∀ a0, a = some a0 → a0 ≤ B)
    {s : Rat} (hs : l.foldl omax a = some s) : s ≤ B := by
  induction l generalizing a with
  | nil => exact ha s hs
  | cons x xs ih =>
    apply ih (omax a x) (fun t ht => hl t (List.mem_cons_of_mem _ ht)) _ hs
    intro a0 h0
    cases a with
    | none =>
      simp only [omax, Option.some.injEq] at h0
      rw [← h0]; exact hl x (by simp)
    | some a1 =>
      simp only [omax, Option.some.injEq] at h0
      rw [← h0]; exact rmax_le (ha a1 rfl) (hl x (by simp))

/-- the score a scorer gives to one entry -/
def scoreOf (sc : Scorer) (v : Pairwise) (e : Pair × Rat) : Rat :=
  match sc with
  | .winningVotes => if pget v (e.1.2, e.1.1) < e.2 then e.2 else 0
  | .margins => e.2 - pget v (e.1.2, e.1.1)
  | .pairwiseOpposition => e.2

/-- the regenerated value functions are the textbook ones (an edit of `pairwin_scorer.py` breaks these) -/
theorem winning_votes_value_eq (count rev : Rat) :
    Gen.PairwinScorer.winning_votes_value count rev = if rev < count then count else 0 := by
  unfold Gen.PairwinScorer.winning_votes_value
  simp

theorem margins_value_eq (count rev : Rat) : Gen.PairwinScorer.margins_value count rev = count - rev := rfl

theorem pairwise_opposition_value_eq (count rev : Rat) :
    Gen.PairwinScorer.pairwise_opposition_value count rev = count := rfl

theorem scorePairs_eq (sc : Scorer) (v : Pairwise) : scorePairs sc v = v.map (fun e => (e.1, scoreOf sc v e)) := by
  cases sc <;>
    simp only [scorePairs, scoreOf, winning_votes_value_eq, margins_value_eq, pairwise_opposition_value_eq]

/-- the scorers in closed form (for users of the model that do not go through `scoreOf`) -/
theorem scorePairs_wv (v : Pairwise) :
    scorePairs .winningVotes v = v.map (fun e => (e.1, if pget v (e.1.2, e.1.1) < e.2 then e.2 else 0)) :=
  scorePairs_eq _ v

theorem scorePairs_margins (v : Pairwise) :
    scorePairs .margins v = v.map (fun e => (e.1, e.2 - pget v (e.1.2, e.1.1))) := scorePairs_eq _ v

theorem scorePairs_pwo (v : Pairwise) : scorePairs .pairwiseOpposition v = v := by
  rw [scorePairs_eq]
  simp [scoreOf]

/-- the scores of the pairs in which `c` is the lower candidate -/
def defeatsOf (sc : Scorer) (v : Pairwise) (c : Cand) : List Rat :=
  (v.filter (fun e => e.1.2 = c)).map (scoreOf sc v)

theorem oget_noneDict (cands : List Cand) (c : Cand) :
    oget (cands.map (fun c => (c, (none : Option Rat)))) c = none := by
  unfold oget
  cases hf : (cands.map (fun c => (c, (none : Option Rat)))).find? (fun e => e.1 = c) with
  | none => rfl
  | some e =>
    have := List.mem_of_find?_eq_some hf
    obtain ⟨x, _, rfl⟩ := List.mem_map.1 this
    rfl

theorem oget_minimaxTable (sc : Scorer) (v : Pairwise) (c : Cand) :
    oget (minimaxTable sc v) c = (defeatsOf sc (allPairs v) c).foldl omax none := by
  rw [minimaxTable_eq, oget_mmFold, scorePairs_eq, oget_noneDict]
  congr 1
  simp [defeatsOf, List.filter_map, List.map_map, Function.comp_def]

theorem mem_allPairs {v : Pairwise} {e : Pair × Rat} :
    e ∈ allPairs v ↔ ∃ u ∈ candidates v, ∃ l ∈ candidates v, u ≠ l ∧ e = ((u, l), pget v (u, l)) := by
  simp only [allPairs, List.mem_filter, List.mem_flatMap, List.mem_map, bne_iff_ne, ne_eq]
  constructor
  · rintro ⟨⟨u, hu, l, hl, rfl⟩, hne⟩
    exact ⟨u, hu, l, hl, hne, rfl⟩
  · rintro ⟨u, hu, l, hl, hne, rfl⟩
    exact ⟨⟨u, hu, l, hl, rfl⟩, hne⟩

theorem okeys_minimaxTable (sc : Scorer) (v : Pairwise) : okeys (minimaxTable sc v) = candidates v := by
  rw [minimaxTable_eq, okeys_mmFold]
  · simp [okeys, List.map_map, Function.comp_def]
  · intro e he
    rw [scorePairs_eq] at he
    obtain ⟨e', he', rfl⟩ := List.mem_map.1 he
    obtain ⟨u, _, l, hl, _, rfl⟩ := mem_allPairs.1 he'
    simp only [okeys, List.map_map, Function.comp_def, List.map_id']
    exact hl

/-- `all_pairs.get((a, b), 0)` is `votes.get((a, b), 0)` for two distinct candidates -/
theorem pget_allPairs {v : Pairwise} {a b : Cand} (ha : a ∈ candidates v) (hb : b ∈ candidates v) (hne : a ≠ b) :
    pget (allPairs v) (a, b) = pget v (a, b) := by
  rcases pget_mem_or_zero (allPairs v) (a, b) with h | ⟨h, _⟩
  · obtain ⟨u, _, l, _, _, heq⟩ := mem_allPairs.1 h
    simp only [Prod.mk.injEq] at heq
    obtain ⟨⟨rfl, rfl⟩, h2⟩ := heq
    exact h2
  · exfalso
    apply h
    exact List.mem_map.2 ⟨((a, b), pget v (a, b)), mem_allPairs.2 ⟨a, ha, b, hb, hne, rfl⟩, rfl⟩

/-- the strength of "`o` over `c`" under a scorer, from `d x y = votes.get((x, y), 0)` alone -/
def pairScore (sc : Scorer) (v : Pairwise) (o c : Cand) : Rat :=
  match sc with
  | .winningVotes => if pget v (c, o) < pget v (o, c) then pget v (o, c) else 0
  | .margins => pget v (o, c) - pget v (c, o)
  | .pairwiseOpposition => pget v (o, c)

theorem mem_defeatsOf_allPairs {sc : Scorer} {v : Pairwise} {c : Cand} {t : Rat} :
    t ∈ defeatsOf sc (allPairs v) c ↔
      ∃ o ∈ candidates v, c ∈ candidates v ∧ o ≠ c ∧ t = pairScore sc v o c := by
  simp only [defeatsOf, List.mem_map, List.mem_filter, decide_eq_true_eq]
  constructor
  · rintro ⟨e, ⟨he, hec⟩, rfl⟩
    obtain ⟨u, hu, l, hl, hne, rfl⟩ := mem_allPairs.1 he
    simp only at hec
    subst hec
    refine ⟨u, hu, hl, hne, ?_⟩
    cases sc <;> simp only [scoreOf, pairScore, pget_allPairs hl hu (fun h => hne h.symm)]
  · rintro ⟨o, ho, hc, hne, rfl⟩
    refine ⟨((o, c), pget v (o, c)), ⟨mem_allPairs.2 ⟨o, ho, c, hc, hne, rfl⟩, rfl⟩, ?_⟩
    cases sc <;> simp only [scoreOf, pairScore, pget_allPairs hc ho (fun h => hne h.symm)]

theorem oget_of_mem {m : List (Cand × Option Rat)} (hk : (okeys m).Nodup) {e : Cand × Option Rat} (he : e ∈ m) :
    oget m e.1 = e.2 := by
  induction m with
  | nil => simp at he
  | cons x xs ih =>
    obtain ⟨a, y⟩ := x
    simp only [okeys, List.map_cons, List.nodup_cons] at hk
    rw [oget_cons]
    rcases List.mem_cons.1 he with rfl | he'
    · simp
    · have : a ≠ e.1 := fun h => hk.1 (List.mem_map.2 ⟨e, he', h.symm⟩)
      simp only [this, if_false]
      exact ih hk.2 he'

theorem minimaxBig_pos (m : List (Cand × Option Rat)) : 1 ≤ minimaxBig m := by
  unfold minimaxBig
  have : ∀ (l : List (Cand × Option Rat)) (acc : Rat), 0 ≤ acc →
      0 ≤ l.foldl (fun acc e => match e.2 with | some s => rmax acc (-s) | none => acc) acc := by
    intro l
    induction l with
    | nil => intro acc h; exact h
    | cons e es ih =>
      intro acc h
      rw [List.foldl_cons]
      apply ih
      cases e.2 with
      | none => exact h
      | some s => exact le_trans h (rmax_ge_left _ _)
  exact le_add_of_nonneg_right (this m 0 (le_refl _))

/-- value handed to `get_n_best` for a worst counter-score -/
def mmVal (big : Rat) : Option Rat → Rat
  | some s => -s
  | none => big

theorem minimax_eq (sc : Scorer) (v : Pairwise) (n : Nat) :
    minimax sc v n = getNBest ((minimaxTable sc v).map
      (fun e => (e.1, mmVal (minimaxBig (minimaxTable sc v)) e.2))) n := by
  rfl

/-- **Condorcet winner under minimax** when every defeat score of the winner is `≤ 0` and everybody else
    has a positive one -/
theorem minimax_cw_of_scores (sc : Scorer) (v : Pairwise) {w : Cand} (hw : w ∈ candidates v)
    (hwin : ∀ t ∈ defeatsOf sc (allPairs v) w, t ≤ 0)
    (hlose : ∀ o ∈ candidates v, o ≠ w → ∃ t ∈ defeatsOf sc (allPairs v) o, 0 < t) :
    minimax sc v 1 = [Slot.cand w] := by
  rw [minimax_eq]
  set m := minimaxTable sc v with hm
  set big := minimaxBig m with hbig
  have hkeys : okeys m = candidates v := okeys_minimaxTable sc v
  have hnd : (okeys m).Nodup := by rw [hkeys]; exact nodup_candidates v
  have hwv : 0 ≤ mmVal big (oget m w) := by
    cases hg : oget m w with
    | none => simp only [mmVal]; have := minimaxBig_pos m; linarith
    | some s =>
      simp only [mmVal]
      rw [hm, oget_minimaxTable] at hg
      have := omaxFold_le _ none hwin (by simp) hg
      linarith
  have hwm : ∃ e ∈ m, e.1 = w := by
    have : w ∈ okeys m := by rw [hkeys]; exact hw
    obtain ⟨e, he, h⟩ := List.mem_map.1 this
    exact ⟨e, he, h⟩
  obtain ⟨ew, hew, hew1⟩ := hwm
  refine getNBest_one_of_unique_max (x := mmVal big (oget m w)) ?_ ?_ ?_
  · simp only [keys, List.map_map, Function.comp_def]
    exact hnd
  · refine List.mem_map.2 ⟨ew, hew, ?_⟩
    rw [← hew1, oget_of_mem hnd hew]
  · intro p hp hne
    obtain ⟨e, he, rfl⟩ := List.mem_map.1 hp
    simp only at hne ⊢
    have heo : e.1 ∈ candidates v := by rw [← hkeys]; exact List.mem_map.2 ⟨e, he, rfl⟩
    obtain ⟨t, ht, htpos⟩ := hlose e.1 heo hne
    have hg := oget_of_mem hnd he
    rw [hm, oget_minimaxTable] at hg
    obtain ⟨s, hs, hts⟩ := omaxFold_ge (defeatsOf sc (allPairs v) e.1) none ht
    rw [hs] at hg
    have h2 : mmVal big e.2 = -s := by rw [← hg]; rfl
    rw [h2]
    linarith
/-! ### the worst defeat over all opponents -/

theorem omaxFold_mem (l : List Rat) (a : Option Rat) {s : Rat} (h : l.foldl omax a = some s) : a = some s ∨ s ∈ l := by
  induction l generalizing a with
  | nil => exact Or.inl h
  | cons x xs ih =>
    rw [List.foldl_cons] at h
    rcases ih _ h with h1 | h1
    · cases a with
      | none =>
        simp only [omax, Option.some.injEq] at h1
        exact Or.inr (by simp [h1])
      | some a0 =>
        simp only [omax, Option.some.injEq] at h1
        unfold rmax at h1
        split at h1
        · exact Or.inr (by simp [h1])
        · exact Or.inl (by rw [h1])
    · exact Or.inr (List.mem_cons_of_mem _ h1)

theorem omaxFold_none (l : List Rat) (h : l.foldl omax none = none) : l = [] := by
  cases l with
  | nil => rfl
  | cons x xs =>
    rw [List.foldl_cons] at h
    obtain ⟨s, hs, _⟩ := omaxFold_some xs x
    simp only [omax] at h
    rw [hs] at h
    simp at h


/-- the worst defeat of `c`: the maximum strength of "`o` over `c`" over ALL other candidates `o`
    (`0` only in the degenerate case of a lone candidate) -/
def worstDefeat (sc : Scorer) (v : Pairwise) (c : Cand) : Rat :=
  ((((candidates v).filter (fun o => decide (o ≠ c))).map (fun o => pairScore sc v o c)).foldl omax none).getD 0

/-- `s` is the maximum of the strengths of all opponents over `c` -/
def IsWorstDefeat (sc : Scorer) (v : Pairwise) (c : Cand) (s : Rat) : Prop :=
  (∃ o ∈ candidates v, o ≠ c ∧ s = pairScore sc v o c) ∧ ∀ o ∈ candidates v, o ≠ c → pairScore sc v o c ≤ s

theorem IsWorstDefeat.unique {sc : Scorer} {v : Pairwise} {c : Cand} {s s' : Rat}
    (h : IsWorstDefeat sc v c s) (h' : IsWorstDefeat sc v c s') : s = s' := by
  obtain ⟨⟨o, ho, hne, rfl⟩, hmax⟩ := h
  obtain ⟨⟨o', ho', hne', rfl⟩, hmax'⟩ := h'
  exact le_antisymm (hmax' o ho hne) (hmax o' ho' hne')

theorem worstDefeat_spec {sc : Scorer} {v : Pairwise} {c : Cand} (hopp : ∃ o ∈ candidates v, o ≠ c) :
    IsWorstDefeat sc v c (worstDefeat sc v c) := by
  unfold worstDefeat
  set L := ((candidates v).filter (fun o => decide (o ≠ c))).map (fun o => pairScore sc v o c) with hL
  have hmemL : ∀ t, t ∈ L ↔ ∃ o ∈ candidates v, o ≠ c ∧ t = pairScore sc v o c := by
    intro t
    simp only [hL, List.mem_map, List.mem_filter, decide_eq_true_eq]
    constructor
    · rintro ⟨o, ⟨ho, hne⟩, rfl⟩; exact ⟨o, ho, hne, rfl⟩
    · rintro ⟨o, ho, hne, rfl⟩; exact ⟨o, ⟨ho, hne⟩, rfl⟩
  cases h : L.foldl omax none with
  | none =>
    exfalso
    have := omaxFold_none L h
    obtain ⟨o, ho, hne⟩ := hopp
    have hm : pairScore sc v o c ∈ L := (hmemL _).2 ⟨o, ho, hne, rfl⟩
    rw [this] at hm
    simp at hm
  | some s =>
    simp only [Option.getD_some]
    refine ⟨?_, fun o ho hne => ?_⟩
    · rcases omaxFold_mem L none h with h1 | h1
      · simp at h1
      · exact (hmemL s).1 h1
    · obtain ⟨s', hs', hle⟩ := omaxFold_ge L none ((hmemL _).2 ⟨o, ho, hne, rfl⟩)
      rw [h] at hs'
      simp only [Option.some.injEq] at hs'
      rw [hs']; exact hle

/-- the table entry of a candidate with an opponent is its worst defeat over all opponents -/
theorem oget_minimaxTable_eq {sc : Scorer} {v : Pairwise} {c : Cand} (hc : c ∈ candidates v)
    (hopp : ∃ o ∈ candidates v, o ≠ c) : oget (minimaxTable sc v) c = some (worstDefeat sc v c) := by
  rw [oget_minimaxTable]
  obtain ⟨o, ho, hne⟩ := hopp
  have hm : pairScore sc v o c ∈ defeatsOf sc (allPairs v) c := mem_defeatsOf_allPairs.2 ⟨o, ho, hc, hne, rfl⟩
  cases h : (defeatsOf sc (allPairs v) c).foldl omax none with
  | none =>
    have := omaxFold_none _ h
    rw [this] at hm
    simp at hm
  | some s =>
    congr 1
    have hs : IsWorstDefeat sc v c s := by
      refine ⟨?_, fun o' ho' hne' => ?_⟩
      · rcases omaxFold_mem _ none h with h1 | h1
        · simp at h1
        · obtain ⟨o', ho', _, hne', rfl⟩ := mem_defeatsOf_allPairs.1 h1
          exact ⟨o', ho', hne', rfl⟩
      · obtain ⟨s', hs', hle⟩ := omaxFold_ge (defeatsOf sc (allPairs v) c) none
          (mem_defeatsOf_allPairs.2 ⟨o', ho', hc, hne', rfl⟩)
        rw [h] at hs'
        simp only [Option.some.injEq] at hs'
        rw [hs']; exact hle
    exact hs.unique (worstDefeat_spec ⟨o, ho, hne⟩)

/-- **minimax ranks by the negated worst defeat over all opponents** (every candidate has an opponent) -/
theorem minimax_by_worstDefeat (sc : Scorer) (v : Pairwise) (n : Nat)
    (hopp : ∀ c ∈ candidates v, ∃ o ∈ candidates v, o ≠ c) :
    minimax sc v n = getNBest ((candidates v).map (fun c => (c, -(worstDefeat sc v c)))) n := by
  rw [minimax_eq]
  set m := minimaxTable sc v with hm
  have hkeys : okeys m = candidates v := okeys_minimaxTable sc v
  have hnd : (okeys m).Nodup := by rw [hkeys]; exact nodup_candidates v
  have h1 : m.map (fun e => (e.1, mmVal (minimaxBig m) e.2)) =
      m.map (fun e => (e.1, -(worstDefeat sc v e.1))) := by
    apply List.map_congr_left
    intro e he
    have hec : e.1 ∈ candidates v := by rw [← hkeys]; exact List.mem_map.2 ⟨e, he, rfl⟩
    have h2 := oget_of_mem hnd he
    rw [hm, oget_minimaxTable_eq hec (hopp _ hec)] at h2
    rw [← h2]; rfl
  rw [h1]
  congr 1
  have : m.map (fun e => (e.1, -(worstDefeat sc v e.1))) =
      (okeys m).map (fun c => (c, -(worstDefeat sc v c))) := by
    simp [okeys, List.map_map, Function.comp_def]
  rw [this, hkeys]


end VL.Condorcet
