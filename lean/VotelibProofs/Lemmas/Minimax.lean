/-
  Minimax: `max_counterscore[c]` is the maximum of the scores of the pairs in which `c` is the lower
  candidate (`none` = -inf when there is none); the Condorcet winner has the unique best value under the
  winning-votes and margins scorers.
-/
import VotelibProofs.Lemmas.Copeland
namespace VL.Condorcet
open VL

/-- `max(current, s)` where `none` is `-inf` -/
def omax (a : Option Rat) (s : Rat) : Option Rat :=
  match a with
  | none => some s
  | some a => some (rmax a s)

def okeys (m : List (Cand × Option Rat)) : List Cand := m.map (·.1)

theorem oget_cons (a : Cand) (y : Option Rat) (es : List (Cand × Option Rat)) (c : Cand) :
    oget ((a, y) :: es) c = if a = c then y else oget es c := by
  by_cases h : a = c
  · simp [oget, List.find?, h]
  · simp [oget, List.find?, h]

theorem oget_oset (m : List (Cand × Option Rat)) (c : Cand) (x : Option Rat) (c' : Cand) :
    oget (oset m c x) c' = if c' = c then x else oget m c' := by
  induction m with
  | nil =>
    by_cases h : c' = c
    · subst h; simp [oset, oget_cons]
    · have : ¬ c = c' := fun h' => h h'.symm
      simp [oset, oget_cons, h, this, oget]
  | cons e es ih =>
    obtain ⟨a, y⟩ := e
    by_cases ha : a = c
    · subst ha
      by_cases h : c' = a
      · subst h; simp [oset, oget_cons]
      · have : ¬ a = c' := fun h' => h h'.symm
        simp [oset, oget_cons, h, this]
    · simp only [oset, ha, if_false, oget_cons, ih]
      by_cases h : c' = c
      · subst h; simp [ha]
      · simp [h]

theorem okeys_oset (m : List (Cand × Option Rat)) (c : Cand) (x : Option Rat) (hc : c ∈ okeys m) :
    okeys (oset m c x) = okeys m := by
  induction m with
  | nil => simp [okeys] at hc
  | cons e es ih =>
    obtain ⟨a, y⟩ := e
    by_cases ha : a = c
    · subst ha; simp [oset, okeys]
    · simp only [okeys, List.map_cons, List.mem_cons] at hc ih ⊢
      have hc' : c ∈ List.map (fun x => x.1) es := by
        rcases hc with h | h
        · exact absurd h.symm ha
        · exact h
      simp [oset, ha, ih hc']

def mmStep (m : List (Cand × Option Rat)) (e : Pair × Rat) : List (Cand × Option Rat) :=
  oset m e.1.2 (omax (oget m e.1.2) e.2)

theorem maxCounterscore_eq (sc : Scorer) (v : Pairwise) :
    maxCounterscore sc v = (scorePairs sc v).foldl mmStep ((candidates v).map (fun c => (c, none))) := by
  rfl

theorem oget_mmFold (sp : Pairwise) (m : List (Cand × Option Rat)) (c : Cand) :
    oget (sp.foldl mmStep m) c = ((sp.filter (fun e => e.1.2 = c)).map (·.2)).foldl omax (oget m c) := by
  induction sp generalizing m with
  | nil => simp
  | cons e es ih =>
    rw [List.foldl_cons, ih, mmStep, oget_oset]
    by_cases h : e.1.2 = c
    · have hc : c = e.1.2 := h.symm
      subst hc
      simp [List.filter_cons]
    · have hc : ¬ c = e.1.2 := fun h' => h h'.symm
      simp [List.filter_cons, h, hc]

theorem okeys_mmFold (sp : Pairwise) (m : List (Cand × Option Rat)) (h : ∀ e ∈ sp, e.1.2 ∈ okeys m) :
    okeys (sp.foldl mmStep m) = okeys m := by
  induction sp generalizing m with
  | nil => rfl
  | cons e es ih =>
    rw [List.foldl_cons]
    have h1 : okeys (mmStep m e) = okeys m := okeys_oset m _ _ (h e (by simp))
    rw [ih]
    · exact h1
    · intro e' he'
      rw [h1]
      exact h e' (List.mem_cons_of_mem _ he')

theorem rmax_ge_left (a b : Rat) : a ≤ rmax a b := by
  unfold rmax; split
  · exact le_of_lt ‹_›
  · exact le_refl _

theorem rmax_ge_right (a b : Rat) : b ≤ rmax a b := by
  unfold rmax; split
  · exact le_refl _
  · exact not_lt.1 ‹_›

theorem rmax_le {a b B : Rat} (ha : a ≤ B) (hb : b ≤ B) : rmax a b ≤ B := by
  unfold rmax; split <;> assumption

theorem omaxFold_some (l : List Rat) (a0 : Rat) : ∃ s, l.foldl omax (some a0) = some s ∧ a0 ≤ s := by
  induction l generalizing a0 with
  | nil => exact ⟨a0, rfl, le_refl _⟩
  | cons t ts ih =>
    obtain ⟨s, hs, hle⟩ := ih (rmax a0 t)
    exact ⟨s, hs, le_trans (rmax_ge_left _ _) hle⟩

theorem omaxFold_ge (l : List Rat) (a : Option Rat) {t : Rat} (ht : t ∈ l) :
    ∃ s, l.foldl omax a = some s ∧ t ≤ s := by
  induction l generalizing a with
  | nil => simp at ht
  | cons x xs ih =>
    rcases List.mem_cons.1 ht with rfl | ht'
    · cases a with
      | none =>
        obtain ⟨s, hs, hle⟩ := omaxFold_some xs t
        exact ⟨s, hs, hle⟩
      | some a0 =>
        obtain ⟨s, hs, hle⟩ := omaxFold_some xs (rmax a0 t)
        exact ⟨s, hs, le_trans (rmax_ge_right _ _) hle⟩
    · exact ih _ ht'

theorem omaxFold_le (l : List Rat) (a : Option Rat) {B : Rat} (hl : ∀ t ∈ l, t ≤ B) (ha : ∀ a0, a = some a0 → a0 ≤ B)
    {s : Rat} (hs : l.foldl omax a = some s) : s ≤ B := by
  induction l generalizing a with
  | nil => exact ha s hs
  | cons x xs ih =>
    apply ih (omax a x) (fun t ht => hl t (List.mem_cons_of_mem _ ht)) _ hs
    intro a0 h0
    cases a with
    | none =>
      simp only [omax, Option.some.injEq] at h0
      rw [← h0]; exact hl x (by simp)
    | some a1 =>
      simp only [omax, Option.some.injEq] at h0
      rw [← h0]; exact rmax_le (ha a1 rfl) (hl x (by simp))

/-- the score a scorer gives to one entry -/
def scoreOf (sc : Scorer) (v : Pairwise) (e : Pair × Rat) : Rat :=
  match sc with
  | .winningVotes => if pget v (e.1.2, e.1.1) < e.2 then e.2 else 0
  | .margins => e.2 - pget v (e.1.2, e.1.1)
  | .pairwiseOpposition => e.2

theorem scorePairs_eq (sc : Scorer) (v : Pairwise) : scorePairs sc v = v.map (fun e => (e.1, scoreOf sc v e)) := by
  cases sc <;> simp [scorePairs, scoreOf]

/-- the scores of the pairs in which `c` is the lower candidate -/
def defeatsOf (sc : Scorer) (v : Pairwise) (c : Cand) : List Rat :=
  (v.filter (fun e => e.1.2 = c)).map (scoreOf sc v)

theorem oget_maxCounterscore (sc : Scorer) (v : Pairwise) (c : Cand) :
    oget (maxCounterscore sc v) c = (defeatsOf sc v c).foldl omax none := by
  rw [maxCounterscore_eq, oget_mmFold, scorePairs_eq]
  have h0 : oget ((candidates v).map (fun c => (c, (none : Option Rat)))) c = none := by
    unfold oget
    cases hf : ((candidates v).map (fun c => (c, (none : Option Rat)))).find? (fun e => e.1 = c) with
    | none => rfl
    | some e =>
      have := List.mem_of_find?_eq_some hf
      obtain ⟨x, _, rfl⟩ := List.mem_map.1 this
      rfl
  rw [h0]
  congr 1
  simp [defeatsOf, List.filter_map, List.map_map, Function.comp_def]

theorem okeys_maxCounterscore (sc : Scorer) (v : Pairwise) : okeys (maxCounterscore sc v) = candidates v := by
  rw [maxCounterscore_eq, okeys_mmFold]
  · simp [okeys, List.map_map, Function.comp_def]
  · intro e he
    rw [scorePairs_eq] at he
    obtain ⟨e', he', rfl⟩ := List.mem_map.1 he
    simp only [okeys, List.map_map, Function.comp_def, List.map_id']
    exact snd_mem_candidates he'

theorem oget_of_mem {m : List (Cand × Option Rat)} (hk : (okeys m).Nodup) {e : Cand × Option Rat} (he : e ∈ m) :
    oget m e.1 = e.2 := by
  induction m with
  | nil => simp at he
  | cons x xs ih =>
    obtain ⟨a, y⟩ := x
    simp only [okeys, List.map_cons, List.nodup_cons] at hk
    rw [oget_cons]
    rcases List.mem_cons.1 he with rfl | he'
    · simp
    · have : a ≠ e.1 := fun h => hk.1 (List.mem_map.2 ⟨e, he', h.symm⟩)
      simp only [this, if_false]
      exact ih hk.2 he'

theorem minimaxBig_pos (m : List (Cand × Option Rat)) : 1 ≤ minimaxBig m := by
  unfold minimaxBig
  have : ∀ (l : List (Cand × Option Rat)) (acc : Rat), 0 ≤ acc →
      0 ≤ l.foldl (fun acc e => match e.2 with | some s => rmax acc (-s) | none => acc) acc := by
    intro l
    induction l with
    | nil => intro acc h; exact h
    | cons e es ih =>
      intro acc h
      rw [List.foldl_cons]
      apply ih
      cases e.2 with
      | none => exact h
      | some s => exact le_trans h (rmax_ge_left _ _)
  exact le_add_of_nonneg_right (this m 0 (le_refl _))

/-- value handed to `get_n_best` for a worst counter-score -/
def mmVal (big : Rat) : Option Rat → Rat
  | some s => -s
  | none => big

theorem minimax_eq (sc : Scorer) (v : Pairwise) (n : Nat) :
    minimax sc v n = getNBest ((maxCounterscore sc v).map
      (fun e => (e.1, mmVal (minimaxBig (maxCounterscore sc v)) e.2))) n := by
  rfl

/-- **Condorcet winner under minimax** when every defeat score of the winner is `≤ 0` and everybody else
    has a positive one -/
theorem minimax_cw_of_scores (sc : Scorer) (v : Pairwise) {w : Cand} (hw : w ∈ candidates v)
    (hwin : ∀ t ∈ defeatsOf sc v w, t ≤ 0)
    (hlose : ∀ o ∈ candidates v, o ≠ w → ∃ t ∈ defeatsOf sc v o, 0 < t) :
    minimax sc v 1 = [Slot.cand w] := by
  rw [minimax_eq]
  set m := maxCounterscore sc v with hm
  set big := minimaxBig m with hbig
  have hkeys : okeys m = candidates v := okeys_maxCounterscore sc v
  have hnd : (okeys m).Nodup := by rw [hkeys]; exact nodup_candidates v
  have hwv : 0 ≤ mmVal big (oget m w) := by
    cases hg : oget m w with
    | none => simp only [mmVal]; have := minimaxBig_pos m; linarith
    | some s =>
      simp only [mmVal]
      rw [hm, oget_maxCounterscore] at hg
      have := omaxFold_le _ none hwin (by simp) hg
      linarith
  have hwm : ∃ e ∈ m, e.1 = w := by
    have : w ∈ okeys m := by rw [hkeys]; exact hw
    obtain ⟨e, he, h⟩ := List.mem_map.1 this
    exact ⟨e, he, h⟩
  obtain ⟨ew, hew, hew1⟩ := hwm
  refine getNBest_one_of_unique_max (x := mmVal big (oget m w)) ?_ ?_ ?_
  · simp only [keys, List.map_map, Function.comp_def]
    exact hnd
  · refine List.mem_map.2 ⟨ew, hew, ?_⟩
    rw [← hew1, oget_of_mem hnd hew]
  · intro p hp hne
    obtain ⟨e, he, rfl⟩ := List.mem_map.1 hp
    simp only at hne ⊢
    have heo : e.1 ∈ candidates v := by rw [← hkeys]; exact List.mem_map.2 ⟨e, he, rfl⟩
    obtain ⟨t, ht, htpos⟩ := hlose e.1 heo hne
    have hg := oget_of_mem hnd he
    rw [hm, oget_maxCounterscore] at hg
    obtain ⟨s, hs, hts⟩ := omaxFold_ge (defeatsOf sc v e.1) none ht
    rw [hs] at hg
    have h2 : mmVal big e.2 = -s := by rw [← hg]; rfl
    rw [h2]
    linarith

end VL.Condorcet
