/-
  C10, Condorcet family: Kemeny-Young does not depend on the insertion order of the pairwise dictionary and commutes with
  every injective renaming.  The evaluator scans all orders of the candidates and answers only when the maximiser of the
  score is unique; the enumeration order (which follows the insertion order) is irrelevant because the enumeration has no
  repetitions and the scan keeps exactly the maximisers.
-/
import VotelibProofs.Lemmas.RenameCondorcet
import VotelibProofs.Lemmas.Kemeny
namespace VL.Perm
open VL VL.Condorcet VL.C10

/-! ### the enumeration of orders has no repetitions -/

theorem erase_of_mem_insertEverywhere {x : Cand} {ys q : List Cand} (hx : x ∉ ys) (hq : q ∈ insertEverywhere x ys) :
    q.erase x = ys := by
  obtain ⟨a, b, rfl, rfl⟩ := mem_insertEverywhere.1 hq
  have ha : x ∉ a := fun h => hx (List.mem_append_left _ h)
  rw [List.erase_append_right _ ha, List.erase_cons_head]

theorem nodup_insertEverywhere {x : Cand} {ys : List Cand} (hx : x ∉ ys) : (insertEverywhere x ys).Nodup := by
  induction ys with
  | nil => simp [insertEverywhere]
  | cons y ys ih =>
    have hxy : x ≠ y := fun e => hx (by simp [e])
    have hx' : x ∉ ys := fun h => hx (List.mem_cons_of_mem _ h)
    simp only [insertEverywhere, List.nodup_cons, List.mem_map, not_exists, not_and]
    refine ⟨?_, ?_⟩
    · intro l _ he
      injection he with h1 _
      exact hxy h1.symm
    · exact (ih hx').map (fun a b h => by injection h)

theorem nodup_perms {l : List Cand} (hl : l.Nodup) : (perms l).Nodup := by
  induction l with
  | nil => simp [perms]
  | cons x xs ih =>
    rw [List.nodup_cons] at hl
    have hnot : ∀ p ∈ perms xs, x ∉ p := fun p hp hxp => hl.1 ((mem_perms.1 hp).subset hxp)
    simp only [perms]
    rw [List.nodup_flatMap]
    refine ⟨fun p hp => nodup_insertEverywhere (hnot p hp), ?_⟩
    have hpw : (perms xs).Pairwise (· ≠ ·) := ih hl.2
    refine List.Pairwise.imp_of_mem ?_ hpw
    intro p p' hp hp' hne
    simp only [Function.onFun, List.disjoint_left]
    intro q hq hq'
    exact hne ((erase_of_mem_insertEverywhere (hnot p hp) hq).symm.trans
      (erase_of_mem_insertEverywhere (hnot p' hp') hq'))

theorem perms_perm {l₁ l₂ : List Cand} (h : l₁.Perm l₂) (hn : l₁.Nodup) : (perms l₁).Perm (perms l₂) := by
  rw [List.perm_ext_iff_of_nodup (nodup_perms hn) (nodup_perms (h.nodup_iff.mp hn))]
  intro q
  rw [mem_perms, mem_perms]
  exact ⟨fun hq => hq.trans h, fun hq => hq.trans h.symm⟩

/-! ### the scan keeps exactly the maximisers -/

theorem kyScore_congr {v₁ v₂ : Pairwise} (hp : pget v₁ = pget v₂) : kyScore v₁ = kyScore v₂ := by
  funext l
  induction l with
  | nil => rfl
  | cons x xs ih => simp only [kyScore, hp, ih]

/-- the score kept by the scan: non-negative, and `0` or attained -/
theorem kyScan_attained (v : Pairwise) (P : List (List Cand)) :
    0 ≤ (P.foldl (kyStep v) ([], 0)).2 ∧
      ((P.foldl (kyStep v) ([], 0)).2 = 0 ∨ ∃ q ∈ P, kyScore v q = (P.foldl (kyStep v) ([], 0)).2) := by
  apply foldl_preserves (fun st : List (List Cand) × Rat => 0 ≤ st.2 ∧ (st.2 = 0 ∨ ∃ q ∈ P, kyScore v q = st.2))
  · exact ⟨le_refl _, Or.inl rfl⟩
  · intro st x hx hst
    unfold kyStep
    simp only
    split
    · split
      · rename_i hlt
        exact ⟨le_of_lt (lt_of_le_of_lt hst.1 hlt), Or.inr ⟨x, hx, rfl⟩⟩
      · exact hst
    · exact hst

/-- the scan over two enumerations of the same orders ends with the same maximisers, up to order -/
theorem kyScan_perm (v : Pairwise) {P₁ P₂ : List (List Cand)} (h : P₁.Perm P₂) :
    (P₁.foldl (kyStep v) ([], 0)).1.Perm (P₂.foldl (kyStep v) ([], 0)).1 := by
  obtain ⟨a1, b1⟩ := kyScan_inv v P₁ [] ([], 0) (by simp) (by simp)
  obtain ⟨a2, b2⟩ := kyScan_inv v P₂ [] ([], 0) (by simp) (by simp)
  obtain ⟨c1, d1⟩ := kyScan_attained v P₁
  obtain ⟨c2, d2⟩ := kyScan_attained v P₂
  simp only [List.nil_append] at a1 b1 a2 b2
  have hM : (P₁.foldl (kyStep v) ([], 0)).2 = (P₂.foldl (kyStep v) ([], 0)).2 := by
    apply le_antisymm
    · rcases d1 with h0 | ⟨q, hq, hs⟩
      · rw [h0]; exact c2
      · rw [← hs]; exact b2 q (h.mem_iff.mp hq)
    · rcases d2 with h0 | ⟨q, hq, hs⟩
      · rw [h0]; exact c1
      · rw [← hs]; exact b1 q (h.mem_iff.mpr hq)
  rw [a1, a2, hM]
  exact h.filter _

/-- **Kemeny-Young: ballot-order independence** (the same result or the same refusal) -/
theorem kemenyYoung_perm {v₁ v₂ : Pairwise} (h : v₁.Perm v₂) (hn : (v₁.map (·.1)).Nodup) (n : Nat) :
    kemenyYoung v₁ n = kemenyYoung v₂ n := by
  rw [kemenyYoung_eq, kemenyYoung_eq]
  have hk : kyStep v₁ = kyStep v₂ := by
    funext st q
    unfold kyStep
    rw [kyScore_congr (pget_perm_fun h hn)]
  rw [hk]
  have hp := kyScan_perm v₂ (perms_perm (candidates_perm h) (nodup_candidates v₁))
  generalize (List.foldl (kyStep v₂) ([], 0) (perms (candidates v₁))).1 = l₁ at hp ⊢
  generalize (List.foldl (kyStep v₂) ([], 0) (perms (candidates v₂))).1 = l₂ at hp ⊢
  match l₁, l₂, hp with
  | [], l₂, h => have := h.nil_eq; subst this; rfl
  | [b], l₂, h => have := List.perm_singleton.mp h.symm; subst this; rfl
  | a :: b :: t, [], h => exact absurd h.length_eq (by simp)
  | a :: b :: t, [c], h => exact absurd h.length_eq (by simp)
  | a :: b :: t, c :: d :: t', _ => rfl

/-- the same statement in the shared vocabulary of C10 -/
theorem kemenyYoung_perm_equiv {v₁ v₂ : Pairwise} (h : v₁.Perm v₂) (hn : (v₁.map (·.1)).Nodup) (n : Nat) :
    ExceptEquiv SlotsEquiv (kemenyYoung v₁ n) (kemenyYoung v₂ n) := by
  apply exceptEquiv_of_eq_cands (kemenyYoung_perm h hn n)
  intro r hr
  obtain ⟨best, _, hb, _⟩ := kemenyYoung_ok hr
  exact ⟨best.take n, hb⟩

/-! ### renaming -/

theorem insertEverywhere_ren (σ : Cand → Cand) (x : Cand) (ys : List Cand) :
    insertEverywhere (σ x) (ys.map σ) = (insertEverywhere x ys).map (List.map σ) := by
  induction ys with
  | nil => rfl
  | cons y ys ih =>
    simp only [List.map_cons, insertEverywhere, ih, List.map_map]
    congr 1

theorem perms_ren (σ : Cand → Cand) (l : List Cand) : perms (l.map σ) = (perms l).map (List.map σ) := by
  induction l with
  | nil => rfl
  | cons x xs ih =>
    simp only [List.map_cons, perms, ih, List.flatMap_map, List.map_flatMap, insertEverywhere_ren]

theorem kyScore_ren (σ : Cand → Cand) (hσ : Function.Injective σ) (v : Pairwise) (l : List Cand) :
    kyScore (renPairwise σ v) (l.map σ) = kyScore v l := by
  induction l with
  | nil => rfl
  | cons x xs ih =>
    simp only [List.map_cons, kyScore, ih, List.foldl_map, pget_ren' σ hσ]

/-- **Kemeny-Young: renaming** -/
theorem kemenyYoung_ren (σ : Cand → Cand) (hσ : Function.Injective σ) (v : Pairwise) (n : Nat) :
    kemenyYoung (renPairwise σ v) n = (kemenyYoung v n).map (fun r => r.map (renSlot σ)) := by
  rw [kemenyYoung_eq, kemenyYoung_eq, candidates_ren σ hσ, perms_ren, List.foldl_map]
  have hfold : (perms (candidates v)).foldl (fun st q => kyStep (renPairwise σ v) st (q.map σ)) ([], 0) =
      (fun st : List (List Cand) × Rat => (st.1.map (List.map σ), st.2))
        ((perms (candidates v)).foldl (kyStep v) ([], 0)) := by
    refine List.foldl_hom (fun st : List (List Cand) × Rat => (st.1.map (List.map σ), st.2)) (init := ([], 0))
      (fun st q => ?_)
    unfold kyStep
    simp only [kyScore_ren σ hσ]
    split
    · split
      · rfl
      · simp
    · rfl
  rw [hfold]
  simp only
  match ((perms (candidates v)).foldl (kyStep v) ([], 0)).1 with
  | [] => rfl
  | [b] =>
    simp only [List.map_cons, List.map_nil, Except.map, List.map_map, ← List.map_take]
    rfl
  | _ :: _ :: _ => rfl

example : Function.Injective (fun c : Cand => c + 5) := fun _ _ h => Nat.add_right_cancel h

example : ([((0, 1), (3 : Rat)), ((1, 0), 2), ((1, 2), 4), ((2, 1), 1)] : Pairwise).Perm
      [((1, 2), (4 : Rat)), ((0, 1), 3), ((2, 1), 1), ((1, 0), 2)] ∧
    (([((0, 1), (3 : Rat)), ((1, 0), 2), ((1, 2), 4), ((2, 1), 1)] : Pairwise).map (·.1)).Nodup := by
  decide +kernel

end VL.Perm
