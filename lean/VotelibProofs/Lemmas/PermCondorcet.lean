/-
  C10, Condorcet family: the evaluators over a pairwise dictionary (models VotelibModel/Condorcet.lean and
  CondorcetEval.lean, owned by C05/C06) do not depend on the insertion order of the dictionary.
  The dictionary is a Python `dict`: the only well-formedness assumed is that its keys are distinct.
  Technique: `votes.get(pair, 0)` (`pget`) is the same function for both orders, every table the evaluators build is
  "candidates ↦ value computed from `pget` and from order-insensitive folds", and the selection ends in `getNBest`
  (`getNBest_perm`).
-/
import VotelibProofs.Lemmas.PermQuota
import VotelibProofs.Lemmas.Schulze
import VotelibProofs.Lemmas.SmithModel
import Mathlib.Data.List.Perm.Basic
namespace VL.Perm
open VL VL.Condorcet VL.C10

/-! ### (a) basics -/

/-- `votes.get(pair, 0)` does not depend on the insertion order -/
theorem pget_perm {v₁ v₂ : Pairwise} (h : v₁.Perm v₂) (hn : (v₁.map (·.1)).Nodup) (p : Pair) :
    pget v₁ p = pget v₂ p := by
  unfold pget
  rw [find?_perm_of_nodup_keys (fun e : Pair × Rat => e.1) h hn p]

theorem pget_perm_fun {v₁ v₂ : Pairwise} (h : v₁.Perm v₂) (hn : (v₁.map (·.1)).Nodup) : pget v₁ = pget v₂ :=
  funext (pget_perm h hn)

theorem nodup_keys_of_perm {v₁ v₂ : Pairwise} (h : v₁.Perm v₂) (hn : (v₁.map (·.1)).Nodup) : (v₂.map (·.1)).Nodup :=
  (h.map _).nodup_iff.mp hn

/-- `pairwise_wins`: the same wins, in the order of the dictionary -/
theorem pairwiseWins_perm {v₁ v₂ : Pairwise} (h : v₁.Perm v₂) (hn : (v₁.map (·.1)).Nodup) (t : Bool) :
    (pairwiseWins v₁ t).Perm (pairwiseWins v₂ t) := by
  unfold pairwiseWins
  rw [pget_perm_fun h hn]
  exact (h.filter _).map _

/-- the same candidates -/
theorem candidates_perm {v₁ v₂ : Pairwise} (h : v₁.Perm v₂) : (candidates v₁).Perm (candidates v₂) := by
  rw [List.perm_ext_iff_of_nodup (nodup_candidates _) (nodup_candidates _)]
  intro c
  rw [mem_candidates, mem_candidates]
  constructor
  · rintro ⟨e, he, hc⟩; exact ⟨e, h.mem_iff.mp he, hc⟩
  · rintro ⟨e, he, hc⟩; exact ⟨e, h.mem_iff.mpr he, hc⟩

theorem mem_candidates_perm {v₁ v₂ : Pairwise} (h : v₁.Perm v₂) (c : Cand) : c ∈ candidates v₁ ↔ c ∈ candidates v₂ :=
  (candidates_perm h).mem_iff

theorem winsBy_perm {w₁ w₂ : List Pair} (h : w₁.Perm w₂) (c : Cand) : winsBy w₁ c = winsBy w₂ c :=
  (h.filter _).length_eq

theorem lossesOf_perm {w₁ w₂ : List Pair} (h : w₁.Perm w₂) (c : Cand) : lossesOf w₁ c = lossesOf w₂ c :=
  (h.filter _).length_eq

/-- `Copeland.scores(wins)` as a map does not depend on the order of the wins -/
theorem copelandScoresRaw_getD_perm {w₁ w₂ : List Pair} (h : w₁.Perm w₂) (c : Cand) :
    getD (copelandScoresRaw w₁) c 0 = getD (copelandScoresRaw w₂) c 0 := by
  rw [getD_copelandScoresRaw, getD_copelandScoresRaw, winsBy_perm h, lossesOf_perm h]

/-- a dict with distinct keys is its key list mapped through its lookup -/
theorem votes_eq_map_getD {d : Votes} (hk : (keys d).Nodup) : d = (keys d).map (fun c => (c, getD d c 0)) := by
  unfold keys
  rw [List.map_map]
  conv_lhs => rw [← List.map_id d]
  apply List.map_congr_left
  intro p hp
  simp only [id, Function.comp]
  rw [← mem_getD_of_key hk hp]

/-- two dicts with distinct keys, the same key set and the same lookups hold the same items -/
theorem votes_perm_of_getD {d₁ d₂ : Votes} (h1 : (keys d₁).Nodup) (h2 : (keys d₂).Nodup) (hk : (keys d₁).Perm (keys d₂))
    (hg : ∀ c, getD d₁ c 0 = getD d₂ c 0) : d₁.Perm d₂ := by
  rw [votes_eq_map_getD h1, votes_eq_map_getD h2]
  have : (fun c => (c, getD d₁ c 0)) = (fun c => (c, getD d₂ c 0)) := funext (fun c => by rw [hg])
  rw [this]
  exact hk.map _

theorem mem_keys_incr (d : Votes) (c : Cand) (k : Rat) (x : Cand) : x ∈ keys (incr d c k) ↔ x ∈ keys d ∨ x = c := by
  rw [keys_incr]
  split
  · rename_i hc
    constructor
    · exact fun h => Or.inl h
    · rintro (h | rfl)
      · exact h
      · exact hc
  · simp

theorem copelandFold_keys (wins : List Pair) : ∀ d : Votes, (keys d).Nodup →
    (keys (wins.foldl (fun d w => incr (incr d w.1 1) w.2 (-1)) d)).Nodup ∧
      ∀ x, x ∈ keys (wins.foldl (fun d w => incr (incr d w.1 1) w.2 (-1)) d) ↔
        x ∈ keys d ∨ ∃ w ∈ wins, x = w.1 ∨ x = w.2 := by
  induction wins with
  | nil => intro d hd; exact ⟨hd, by simp⟩
  | cons w ws ih =>
    intro d hd
    rw [List.foldl_cons]
    obtain ⟨h1, h2⟩ := ih _ (nodup_keys_incr (nodup_keys_incr hd w.1 1) w.2 (-1))
    refine ⟨h1, fun x => ?_⟩
    rw [h2, mem_keys_incr, mem_keys_incr]
    simp only [List.mem_cons, exists_eq_or_imp, or_assoc]

/-- `Copeland.scores(wins)`: the same items, whatever the order of the wins -/
theorem copelandScoresRaw_perm {w₁ w₂ : List Pair} (h : w₁.Perm w₂) :
    (copelandScoresRaw w₁).Perm (copelandScoresRaw w₂) := by
  obtain ⟨n1, m1⟩ := copelandFold_keys w₁ [] (by simp [keys])
  obtain ⟨n2, m2⟩ := copelandFold_keys w₂ [] (by simp [keys])
  refine votes_perm_of_getD n1 n2 ?_ (copelandScoresRaw_getD_perm h)
  apply (List.perm_ext_iff_of_nodup n1 n2).mpr
  intro x
  rw [m1, m2]
  simp only [h.mem_iff]

/-- the seeded Copeland score table: the same items -/
theorem seededScores_perm {v₁ v₂ : Pairwise} (h : v₁.Perm v₂) {r₁ r₂ : Votes} (hr : ∀ c, getD r₁ c 0 = getD r₂ c 0) :
    (seededScores v₁ r₁).Perm (seededScores v₂ r₂) := by
  unfold seededScores
  have : (fun c => (c, getD r₁ c 0)) = (fun c => (c, getD r₂ c 0)) := funext (fun c => by rw [hr])
  rw [this]
  exact (candidates_perm h).map _

theorem copelandTable_perm {v₁ v₂ : Pairwise} (h : v₁.Perm v₂) (hn : (v₁.map (·.1)).Nodup) :
    (seededScores v₁ (copelandScoresRaw (pairwiseWins v₁ false))).Perm
      (seededScores v₂ (copelandScoresRaw (pairwiseWins v₂ false))) :=
  seededScores_perm h (copelandScoresRaw_getD_perm (pairwiseWins_perm h hn false))

/-! ### (b) Copeland -/

/-- **Copeland (first order): ballot-order independence** -/
theorem copeland_false_perm {v₁ v₂ : Pairwise} (h : v₁.Perm v₂) (hn : (v₁.map (·.1)).Nodup) (n : Nat) :
    SlotsEquiv (copeland false v₁ n) (copeland false v₂ n) := by
  unfold copeland
  simp only [Bool.false_and, Bool.false_eq_true, if_false]
  exact getNBest_perm _ _ (copelandTable_perm h hn) n

/-! ### (c) minimax -/

/-- `all_pairs.get((a, b), 0)`, for every pair -/
theorem pget_allPairs_eq (v : Pairwise) (a b : Cand) :
    pget (allPairs v) (a, b) = if a ∈ candidates v ∧ b ∈ candidates v ∧ a ≠ b then pget v (a, b) else 0 := by
  split
  · rename_i h; exact pget_allPairs h.1 h.2.1 h.2.2
  · rename_i h
    apply pget_of_not_mem
    intro hm
    obtain ⟨e, he, hk⟩ := List.mem_map.1 hm
    obtain ⟨u, hu, l, hl, hne, rfl⟩ := mem_allPairs.1 he
    simp only [Prod.mk.injEq] at hk
    obtain ⟨rfl, rfl⟩ := hk
    exact h ⟨hu, hl, hne⟩

theorem allPairs_perm {v₁ v₂ : Pairwise} (h : v₁.Perm v₂) (hn : (v₁.map (·.1)).Nodup) :
    (allPairs v₁).Perm (allPairs v₂) := by
  unfold allPairs
  rw [pget_perm_fun h hn]
  apply List.Perm.filter
  exact List.Perm.flatMap (candidates_perm h) (fun u _ => (candidates_perm h).map _)

theorem pget_allPairs_perm {v₁ v₂ : Pairwise} (h : v₁.Perm v₂) (hn : (v₁.map (·.1)).Nodup) :
    pget (allPairs v₁) = pget (allPairs v₂) := by
  funext ⟨a, b⟩
  rw [pget_allPairs_eq, pget_allPairs_eq, pget_perm h hn]
  simp only [mem_candidates_perm h]

theorem scoreOf_congr (sc : Scorer) {a₁ a₂ : Pairwise} (hp : pget a₁ = pget a₂) : scoreOf sc a₁ = scoreOf sc a₂ := by
  funext e
  cases sc <;> simp only [scoreOf, hp]

theorem defeatsOf_perm {v₁ v₂ : Pairwise} (h : v₁.Perm v₂) (hn : (v₁.map (·.1)).Nodup) (sc : Scorer) (c : Cand) :
    (defeatsOf sc (allPairs v₁) c).Perm (defeatsOf sc (allPairs v₂) c) := by
  unfold defeatsOf
  rw [scoreOf_congr sc (pget_allPairs_perm h hn)]
  exact ((allPairs_perm h hn).filter _).map _

theorem rmax_max (a b : Rat) : rmax a b = max a b := by
  unfold rmax; split
  · exact (max_eq_right (le_of_lt ‹_›)).symm
  · exact (max_eq_left (not_lt.1 ‹_›)).symm

theorem omax_comm (a : Option Rat) (x y : Rat) : omax (omax a x) y = omax (omax a y) x := by
  cases a with
  | none => simp only [omax, rmax_max]; rw [max_comm]
  | some a0 => simp only [omax, rmax_max]; rw [max_right_comm]

theorem omaxFold_perm {l₁ l₂ : List Rat} (h : l₁.Perm l₂) (a : Option Rat) : l₁.foldl omax a = l₂.foldl omax a :=
  h.foldl_eq' (fun x _ y _ z => omax_comm z x y) a

/-- the worst counter-score of a candidate does not depend on the insertion order -/
theorem oget_minimaxTable_perm {v₁ v₂ : Pairwise} (h : v₁.Perm v₂) (hn : (v₁.map (·.1)).Nodup) (sc : Scorer) (c : Cand) :
    oget (minimaxTable sc v₁) c = oget (minimaxTable sc v₂) c := by
  rw [oget_minimaxTable, oget_minimaxTable]
  exact omaxFold_perm (defeatsOf_perm h hn sc c) none

theorem table_eq_map {m : List (Cand × Option Rat)} (hk : (okeys m).Nodup) :
    m = (okeys m).map (fun c => (c, oget m c)) := by
  unfold okeys
  rw [List.map_map]
  conv_lhs => rw [← List.map_id m]
  apply List.map_congr_left
  intro e he
  simp only [id, Function.comp]
  rw [oget_of_mem hk he]

/-- minimax: the table of worst counter-scores holds the same items -/
theorem minimaxTable_perm {v₁ v₂ : Pairwise} (h : v₁.Perm v₂) (hn : (v₁.map (·.1)).Nodup) (sc : Scorer) :
    (minimaxTable sc v₁).Perm (minimaxTable sc v₂) := by
  have k1 : (okeys (minimaxTable sc v₁)).Nodup := by rw [okeys_minimaxTable]; exact nodup_candidates _
  have k2 : (okeys (minimaxTable sc v₂)).Nodup := by rw [okeys_minimaxTable]; exact nodup_candidates _
  rw [table_eq_map k1, table_eq_map k2, okeys_minimaxTable, okeys_minimaxTable]
  have : (fun c => (c, oget (minimaxTable sc v₁) c)) = (fun c => (c, oget (minimaxTable sc v₂) c)) :=
    funext (fun c => by rw [oget_minimaxTable_perm h hn])
  rw [this]
  exact (candidates_perm h).map _

theorem minimaxBig_perm {m₁ m₂ : List (Cand × Option Rat)} (h : m₁.Perm m₂) : minimaxBig m₁ = minimaxBig m₂ := by
  unfold minimaxBig
  congr 1
  apply h.foldl_eq'
  intro x _ y _ z
  cases x.2 <;> cases y.2 <;> simp only [rmax_max]
  rw [max_right_comm]

/-- **minimax (every scorer): ballot-order independence** -/
theorem minimax_perm {v₁ v₂ : Pairwise} (h : v₁.Perm v₂) (hn : (v₁.map (·.1)).Nodup) (sc : Scorer) (n : Nat) :
    SlotsEquiv (minimax sc v₁ n) (minimax sc v₂ n) := by
  rw [Condorcet.minimax_eq, Condorcet.minimax_eq, minimaxBig_perm (minimaxTable_perm h hn sc)]
  exact getNBest_perm _ _ ((minimaxTable_perm h hn sc).map _) n

/-! ### (d) Condorcet winner -/

theorem find?_perm_of_unique {α : Type} {P : α → Bool} {l₁ l₂ : List α} (h : l₁.Perm l₂)
    (hu : ∀ a ∈ l₁, ∀ b ∈ l₁, P a = true → P b = true → a = b) : l₁.find? P = l₂.find? P := by
  cases h1 : l₁.find? P with
  | none =>
    rw [List.find?_eq_none] at h1
    symm
    rw [List.find?_eq_none]
    intro x hx
    exact h1 x (h.mem_iff.mpr hx)
  | some a =>
    have ha := List.mem_of_find?_eq_some h1
    have hPa := List.find?_some h1
    cases h2 : l₂.find? P with
    | none =>
      rw [List.find?_eq_none] at h2
      exact absurd hPa (h2 a (h.mem_iff.mp ha))
    | some b =>
      have hb := h.mem_iff.mpr (List.mem_of_find?_eq_some h2)
      rw [hu a ha b hb hPa (List.find?_some h2)]

theorem mem_wins_spec {v : Pairwise} (hn : (v.map (·.1)).Nodup) {a b : Cand} (h : (a, b) ∈ pairwiseWins v false) :
    a ∈ candidates v ∧ b ∈ candidates v ∧ pget v (b, a) < pget v (a, b) := by
  obtain ⟨hk, hlt⟩ := (mem_pairwiseWins_of_nodup (p := v) hn).1 h
  obtain ⟨e, he, hke⟩ := List.mem_map.1 hk
  have h1 := fst_mem_candidates he
  have h2 := snd_mem_candidates he
  rw [hke] at h1 h2
  exact ⟨h1, h2, hlt⟩

/-- a candidate with `|candidates| - 1` pairwise wins has beaten every other candidate -/
theorem full_winner_beats {v : Pairwise} (hn : (v.map (·.1)).Nodup) {c : Cand} (hc : c ∈ candidates v)
    (h1 : winsBy (pairwiseWins v false) c + 1 = (candidates v).length) :
    ∀ o ∈ candidates v, o ≠ c → (c, o) ∈ pairwiseWins v false := by
  intro o ho hoc
  have hW : (pairwiseWins v false).Nodup := nodup_pairwiseWins_of_nodup (p := v) hn false
  have hLnd : (((pairwiseWins v false).filter (fun w => w.1 = c)).map (·.2)).Nodup := by
    apply List.Nodup.map_on
    · rintro ⟨a, b⟩ ha ⟨a', b'⟩ ha' hbb
      simp only [List.mem_filter, decide_eq_true_eq] at ha ha'
      simp only at hbb
      rw [Prod.mk.injEq]
      exact ⟨ha.2.trans ha'.2.symm, hbb⟩
    · exact hW.filter _
  have hsub : ((pairwiseWins v false).filter (fun w => w.1 = c)).map (·.2) ⊆
      (candidates v).filter (fun x => decide (x ≠ c)) := by
    intro x hx
    obtain ⟨⟨a, b⟩, hab, rfl⟩ := List.mem_map.1 hx
    simp only [List.mem_filter, decide_eq_true_eq] at hab
    obtain ⟨hw, rfl⟩ := hab
    obtain ⟨_, hb, hlt⟩ := mem_wins_spec hn hw
    refine List.mem_filter.2 ⟨hb, ?_⟩
    simp only [decide_eq_true_eq]
    rintro rfl
    exact lt_irrefl _ hlt
  have hF : ((candidates v).filter (fun x => decide (x ≠ c))).length + 1 = (candidates v).length :=
    (filter_length_eq_pred (nodup_candidates v) hc (fun x => decide (x ≠ c)) (by simp)).2
      (fun o _ hne => by simpa using hne)
  have hlen : winsBy (pairwiseWins v false) c =
      (((pairwiseWins v false).filter (fun w => w.1 = c)).map (·.2)).length := by simp [winsBy]
  have hperm := (List.subperm_of_subset hLnd hsub).perm_of_length_le (by omega)
  have hoF : o ∈ (candidates v).filter (fun x => decide (x ≠ c)) := List.mem_filter.2 ⟨ho, by simpa using hoc⟩
  obtain ⟨⟨a, b⟩, hab, hb⟩ := List.mem_map.1 (hperm.mem_iff.mpr hoF)
  simp only [List.mem_filter, decide_eq_true_eq] at hab
  simp only at hb
  obtain ⟨hw, rfl⟩ := hab
  subst hb
  exact hw

theorem beatCounts_entry {v : Pairwise} {p : Cand × Rat} (hp : p ∈ beatCounts v) :
    winsBy (pairwiseWins v false) p.1 ≠ 0 ∧ p.2 = (winsBy (pairwiseWins v false) p.1 : Rat) := by
  have hl := (mem_iff_lookup (nodup_keys_beatCounts v) (c := p.1) (x := p.2)).1 hp
  rw [lookup_beatCounts] at hl
  by_cases h0 : winsBy (pairwiseWins v false) p.1 = 0
  · simp [h0] at hl
  · simp only [h0, if_false, Option.some.injEq] at hl
    exact ⟨h0, hl.symm⟩

/-- at most one entry of `beat_counts` reaches `|candidates| - 1` -/
theorem beatCounts_full_unique {v : Pairwise} (hn : (v.map (·.1)).Nodup) {a b : Cand × Rat}
    (ha : a ∈ beatCounts v) (hb : b ∈ beatCounts v) (hva : a.2 = ((candidates v).length : Rat) - 1)
    (hvb : b.2 = ((candidates v).length : Rat) - 1) : a = b := by
  obtain ⟨a0, a2⟩ := beatCounts_entry ha
  obtain ⟨b0, b2⟩ := beatCounts_entry hb
  have hfull : ∀ {p : Cand × Rat}, p.2 = ((candidates v).length : Rat) - 1 →
      p.2 = (winsBy (pairwiseWins v false) p.1 : Rat) →
      winsBy (pairwiseWins v false) p.1 + 1 = (candidates v).length := by
    intro p h1 h2
    have : ((winsBy (pairwiseWins v false) p.1 + 1 : Nat) : Rat) = ((candidates v).length : Rat) := by
      push_cast; rw [← h2, h1]; ring
    exact_mod_cast this
  have hmem : ∀ {c : Cand}, winsBy (pairwiseWins v false) c ≠ 0 → c ∈ candidates v := by
    intro c h0
    obtain ⟨w, hw⟩ := List.exists_mem_of_length_pos (Nat.pos_of_ne_zero h0)
    obtain ⟨hw1, hw2⟩ := List.mem_filter.1 hw
    simp only [decide_eq_true_eq] at hw2
    obtain ⟨x, y⟩ := w
    simp only at hw2
    subst hw2
    exact (mem_wins_spec hn hw1).1
  by_cases hc : a.1 = b.1
  · obtain ⟨c, x⟩ := a
    obtain ⟨c', x'⟩ := b
    simp only at hc hva hvb
    subst hc
    rw [hva, hvb]
  · exfalso
    have h1 := full_winner_beats hn (hmem a0) (hfull hva a2) b.1 (hmem b0) (fun e => hc e.symm)
    have h2 := full_winner_beats hn (hmem b0) (hfull hvb b2) a.1 (hmem a0) hc
    exact lt_asymm (mem_wins_spec hn h1).2.2 (mem_wins_spec hn h2).2.2

theorem beatCounts_perm {v₁ v₂ : Pairwise} (h : v₁.Perm v₂) (hn : (v₁.map (·.1)).Nodup) :
    (beatCounts v₁).Perm (beatCounts v₂) := by
  rw [List.perm_ext_iff_of_nodup (List.Nodup.of_map _ (nodup_keys_beatCounts v₁))
    (List.Nodup.of_map _ (nodup_keys_beatCounts v₂))]
  rintro ⟨c, x⟩
  rw [mem_iff_lookup (nodup_keys_beatCounts v₁), mem_iff_lookup (nodup_keys_beatCounts v₂), lookup_beatCounts,
    lookup_beatCounts, winsBy_perm (pairwiseWins_perm h hn false)]

/-- **CondorcetWinner: ballot-order independence** (the same result) -/
theorem condorcetWinner_perm {v₁ v₂ : Pairwise} (h : v₁.Perm v₂) (hn : (v₁.map (·.1)).Nodup) :
    condorcetWinner v₁ = condorcetWinner v₂ := by
  unfold condorcetWinner
  simp only
  rw [← (candidates_perm h).length_eq]
  rw [find?_perm_of_unique (beatCounts_perm h hn)]
  intro a ha b hb hPa hPb
  simp only [decide_eq_true_eq] at hPa hPb
  exact beatCounts_full_unique hn ha hb hPa hPb

/-! ### (d) Smith and Schwartz sets -/

/-- the closure of the initial reach relation depends on the candidates and the wins only as sets -/
theorem mem_closure_congr {c₁ c₂ : List Cand} {w₁ w₂ : List Pair} (hc : ∀ x, x ∈ c₁ ↔ x ∈ c₂)
    (hw : ∀ p, p ∈ w₁ ↔ p ∈ w₂) (ties : Bool) (a b : Cand) :
    (a, b) ∈ closure c₁ (reach0 c₁ w₁ ties) ↔ (a, b) ∈ closure c₂ (reach0 c₂ w₂ ties) := by
  have hirr : ∀ (cs : List Cand) (ws : List Pair), ∀ p ∈ reach0 cs ws ties, p.1 ≠ p.2 := by
    rintro cs ws ⟨x, y⟩ hp; exact (mem_reach0.1 hp).2.2.1
  have hin : ∀ (cs : List Cand) (ws : List Pair), ∀ p ∈ reach0 cs ws ties, p.1 ∈ cs ∧ p.2 ∈ cs := by
    rintro cs ws ⟨x, y⟩ hp; exact ⟨(mem_reach0.1 hp).1, (mem_reach0.1 hp).2.1⟩
  rw [mem_closure (hirr c₁ w₁) (hin c₁ w₁), mem_closure (hirr c₂ w₂) (hin c₂ w₂)]
  have hrel : (fun x y => (x, y) ∈ reach0 c₁ w₁ ties) = (fun x y => (x, y) ∈ reach0 c₂ w₂ ties) := by
    funext x y
    apply propext
    rw [mem_reach0, mem_reach0, hc, hc, hw, hw]
  rw [hrel]

theorem mem_smithSchwartz (v : Pairwise) (ties : Bool) (c : Cand) :
    c ∈ smithSchwartz v ties ↔ c ∈ candidates v ∧ ∀ o ∈ candidates v,
      if ties = true then
        (o = c ∨ (c, o) ∈ closure (candidates v) (reach0 (candidates v) (pairwiseWins v false) ties))
      else ((o, c) ∉ closure (candidates v) (reach0 (candidates v) (pairwiseWins v false) ties) ∨
        (c, o) ∈ closure (candidates v) (reach0 (candidates v) (pairwiseWins v false) ties)) := by
  unfold smithSchwartz
  cases ties with
  | true =>
    simp only [if_true, List.mem_filter, (ordering_perm v _).mem_iff, List.all_eq_true, Bool.or_eq_true,
      beq_iff_eq, contains_pair]
  | false =>
    simp only [Bool.false_eq_true, if_false, List.mem_filter, (ordering_perm v _).mem_iff, List.all_eq_true,
      Bool.or_eq_true, Bool.not_eq_true', contains_pair]
    constructor
    · rintro ⟨hc, h⟩
      refine ⟨hc, fun o ho => ?_⟩
      rcases h o ho with h1 | h1
      · left; intro hm; rw [← contains_pair, h1] at hm; exact Bool.false_ne_true hm
      · exact Or.inr h1
    · rintro ⟨hc, h⟩
      refine ⟨hc, fun o ho => ?_⟩
      rcases h o ho with h1 | h1
      · left
        cases hcon : (closure (candidates v) (reach0 (candidates v) (pairwiseWins v false) false)).contains (o, c) with
        | false => rfl
        | true => exact absurd (contains_pair.1 hcon) h1
      · exact Or.inr h1

/-- `_smith_schwartz_set`: the same set (listed in an order that may depend on the insertion order) -/
theorem smithSchwartz_perm {v₁ v₂ : Pairwise} (h : v₁.Perm v₂) (hn : (v₁.map (·.1)).Nodup) (ties : Bool) :
    (smithSchwartz v₁ ties).Perm (smithSchwartz v₂ ties) := by
  rw [List.perm_ext_iff_of_nodup (nodup_smithSchwartz v₁ ties) (nodup_smithSchwartz v₂ ties)]
  intro c
  have hcl := mem_closure_congr (mem_candidates_perm h) (fun p => (pairwiseWins_perm h hn false).mem_iff) ties
  rw [mem_smithSchwartz, mem_smithSchwartz]
  simp only [hcl, mem_candidates_perm h]

/-- **SmithSet: ballot-order independence** -/
theorem smithSet_perm {v₁ v₂ : Pairwise} (h : v₁.Perm v₂) (hn : (v₁.map (·.1)).Nodup) :
    (smithSet v₁).Perm (smithSet v₂) := smithSchwartz_perm h hn true

/-- **SchwartzSet: ballot-order independence** -/
theorem schwartzSet_perm {v₁ v₂ : Pairwise} (h : v₁.Perm v₂) (hn : (v₁.map (·.1)).Nodup) :
    (schwartzSet v₁).Perm (schwartzSet v₂) := smithSchwartz_perm h hn false

/-! ### results that are equal are equivalent -/

theorem slotsEquiv_cands (l : List Cand) : SlotsEquiv (l.map Slot.cand) (l.map Slot.cand) :=
  ⟨l, l, [], [], 0, by simp, by simp, List.Perm.refl _, List.Perm.refl _⟩

theorem exceptEquiv_of_eq_cands {a b : Except Err (List Slot)} (h : a = b)
    (hs : ∀ r, a = .ok r → ∃ l : List Cand, r = l.map Slot.cand) : ExceptEquiv SlotsEquiv a b := by
  subst h
  cases a with
  | error e => exact rfl
  | ok r =>
    obtain ⟨l, rfl⟩ := hs r rfl
    exact slotsEquiv_cands l

example : ([((0, 1), (3 : Rat)), ((1, 0), 2), ((1, 2), 4), ((2, 1), 1)] : Pairwise).Perm
      [((1, 2), (4 : Rat)), ((0, 1), 3), ((2, 1), 1), ((1, 0), 2)] ∧
    (([((0, 1), (3 : Rat)), ((1, 0), 2), ((1, 2), 4), ((2, 1), 1)] : Pairwise).map (·.1)).Nodup := by
  decide +kernel

end VL.Perm
