/-
  C13 helper lemmas: ScoreToRankedVotes.convert_one — sort by score, group equal scores, reverse.
-/
import VotelibProofs.Lemmas.ConvertMisc
import VotelibProofs.Lemmas.ConvertPositional
namespace VL.Convert
open VL

/-! ### the stable ascending sort (Core.sortAsc) -/

theorem insertAsc_perm (x : Cand × Rat) (l : Votes) : (insertAsc x l).Perm (x :: l) := by
  induction l with
  | nil => simp [insertAsc]
  | cons y ys ih =>
    unfold insertAsc
    split
    · exact (List.Perm.cons y ih).trans (List.Perm.swap x y ys)
    · exact List.Perm.refl _

theorem sortAsc_perm (l : Votes) : (sortAsc l).Perm l := by
  induction l with
  | nil => simp [sortAsc]
  | cons x xs ih => simp only [sortAsc]; exact (insertAsc_perm x _).trans (List.Perm.cons x ih)

/-- non-decreasing in the score -/
def AscS (l : Votes) : Prop := l.Pairwise (fun a b => a.2 ≤ b.2)

theorem insertAsc_asc (x : Cand × Rat) (l : Votes) (h : AscS l) : AscS (insertAsc x l) := by
  induction l with
  | nil => simp [insertAsc, AscS]
  | cons y ys ih =>
    unfold AscS at h ⊢
    rw [List.pairwise_cons] at h
    unfold insertAsc
    split
    · rename_i hlt
      rw [List.pairwise_cons]
      refine ⟨?_, ih h.2⟩
      intro b hb
      rcases (List.mem_cons.1 ((insertAsc_perm x ys).mem_iff.1 hb)) with rfl | hb
      · exact le_of_lt hlt
      · exact h.1 b hb
    · rename_i hge
      rw [List.pairwise_cons]
      refine ⟨?_, List.pairwise_cons.2 h⟩
      intro b hb
      rcases List.mem_cons.1 hb with rfl | hb
      · exact not_lt.1 hge
      · exact le_trans (not_lt.1 hge) (h.1 b hb)

theorem sortAsc_asc (l : Votes) : AscS (sortAsc l) := by
  induction l with
  | nil => simp [sortAsc, AscS]
  | cons x xs ih => simp only [sortAsc]; exact insertAsc_asc x _ ih

/-! ### itertools.groupby on a score-sorted list -/

/-- the groups keep every candidate, in order -/
theorem groupRuns_flatten (s : ScoreBallot) : (groupRuns s).flatMap (·.2) = s.map (·.1) := by
  induction s with
  | nil => rfl
  | cons e rest ih =>
    obtain ⟨c, sc⟩ := e
    unfold groupRuns
    cases hg : groupRuns rest with
    | nil => rw [hg] at ih; simp at ih ⊢; exact ih
    | cons g gs =>
      obtain ⟨s', cs⟩ := g
      rw [hg] at ih
      simp only
      split
      · simp only [List.flatMap_cons, List.map_cons] at ih ⊢
        rw [← ih]; simp
      · simp only [List.flatMap_cons, List.map_cons] at ih ⊢
        rw [← ih]; simp

theorem groupRuns_head (c : Cand) (sc : Rat) (rest : ScoreBallot) :
    ∃ cs gs, groupRuns ((c, sc) :: rest) = (sc, cs) :: gs := by
  unfold groupRuns
  cases groupRuns rest with
  | nil => exact ⟨_, _, rfl⟩
  | cons g gs =>
    obtain ⟨s', cs⟩ := g
    simp only
    split
    · exact ⟨_, _, rfl⟩
    · exact ⟨_, _, rfl⟩

/-- on a score-sorted list the groups carry strictly increasing scores, every member of a group has the
    group's score, and every scored candidate sits in the group of its score -/
theorem groupRuns_spec (s : ScoreBallot) (hs : AscS s) :
    (groupRuns s).Pairwise (fun g g' => g.1 < g'.1) ∧
    (∀ g ∈ groupRuns s, ∀ x ∈ g.2, (x, g.1) ∈ s) ∧
    (∀ x sx, (x, sx) ∈ s → ∃ g ∈ groupRuns s, g.1 = sx ∧ x ∈ g.2) := by
  induction s with
  | nil => simp [groupRuns]
  | cons e rest ih =>
    obtain ⟨c, sc⟩ := e
    unfold AscS at hs
    rw [List.pairwise_cons] at hs
    obtain ⟨ihp, ihm, ihc⟩ := ih hs.2
    unfold groupRuns
    cases hg : groupRuns rest with
    | nil =>
      rw [hg] at ihc
      have hrest : rest = [] := by
        cases rest with
        | nil => rfl
        | cons e' r' =>
          obtain ⟨g, hgm, _⟩ := ihc e'.1 e'.2 (by simp)
          simp at hgm
      subst hrest
      simp
    | cons g gs =>
      obtain ⟨s', cs⟩ := g
      rw [hg] at ihp ihm ihc
      -- the head group of `rest` carries the score of the head of `rest`, which is ≥ sc
      have hle : sc ≤ s' := by
        cases rest with
        | nil => simp [groupRuns] at hg
        | cons e' r' =>
          obtain ⟨c', sc'⟩ := e'
          obtain ⟨cs', gs', hh⟩ := groupRuns_head c' sc' r'
          have hle' : sc ≤ sc' := hs.1 (c', sc') (by simp)
          rw [hh] at hg
          cases hg
          exact hle'
      rw [List.pairwise_cons] at ihp
      simp only
      split
      · rename_i heq
        subst heq
        refine ⟨List.pairwise_cons.2 ⟨ihp.1, ihp.2⟩, ?_, ?_⟩
        · intro g hgm x hx
          rcases List.mem_cons.1 hgm with rfl | hgm
          · rcases List.mem_cons.1 hx with rfl | hx
            · simp
            · exact List.mem_cons_of_mem _ (ihm (sc, cs) (by simp) x hx)
          · exact List.mem_cons_of_mem _ (ihm g (List.mem_cons_of_mem _ hgm) x hx)
        · intro x sx hx
          rcases List.mem_cons.1 hx with he | hx
          · cases he; exact ⟨(sc, c :: cs), by simp, rfl, by simp⟩
          · obtain ⟨g, hgm, h1, h2⟩ := ihc x sx hx
            rcases List.mem_cons.1 hgm with rfl | hgm
            · exact ⟨(sc, c :: cs), by simp, h1, List.mem_cons_of_mem _ h2⟩
            · exact ⟨g, List.mem_cons_of_mem _ hgm, h1, h2⟩
      · rename_i hne
        have hlt : sc < s' := lt_of_le_of_ne hle hne
        refine ⟨?_, ?_, ?_⟩
        · rw [List.pairwise_cons]
          refine ⟨?_, List.pairwise_cons.2 ihp⟩
          intro g hgm
          rcases List.mem_cons.1 hgm with rfl | hgm
          · exact hlt
          · exact lt_trans hlt (ihp.1 g hgm)
        · intro g hgm x hx
          rcases List.mem_cons.1 hgm with rfl | hgm
          · simp at hx; subst hx; simp
          · exact List.mem_cons_of_mem _ (ihm g hgm x hx)
        · intro x sx hx
          rcases List.mem_cons.1 hx with he | hx
          · cases he; exact ⟨(sc, [c]), by simp, rfl, by simp⟩
          · obtain ⟨g, hgm, h1, h2⟩ := ihc x sx hx
            exact ⟨g, List.mem_cons_of_mem _ hgm, h1, h2⟩

/-! ### `Above` under append / reverse / grouping -/

theorem ballotCands_append (l₁ l₂ : Ballot) : ballotCands (l₁ ++ l₂) = ballotCands l₁ ++ ballotCands l₂ := by
  simp [ballotCands]

theorem above_append (l₁ l₂ : Ballot) (x y : Cand) :
    Above (l₁ ++ l₂) x y ↔ Above l₁ x y ∨ Above l₂ x y ∨ (x ∈ ballotCands l₁ ∧ y ∈ ballotCands l₂) := by
  induction l₁ with
  | nil => simp [Above, ballotCands]
  | cons it rest ih =>
    simp only [List.cons_append, Above, ih, ballotCands_append, ballotCands_cons, List.mem_append]
    tauto

theorem mem_ballotCands_reverse (l : Ballot) (x : Cand) : x ∈ ballotCands l.reverse ↔ x ∈ ballotCands l := by
  simp [mem_ballotCands]

theorem above_reverse (l : Ballot) (x y : Cand) : Above l.reverse x y ↔ Above l y x := by
  induction l with
  | nil => simp [Above]
  | cons it rest ih =>
    rw [List.reverse_cons, above_append, ih, mem_ballotCands_reverse]
    simp only [Above, ballotCands, List.flatMap_cons, List.flatMap_nil, List.append_nil, List.not_mem_nil, and_false,
      or_false, false_or]
    tauto

/-- the rank item built from one group (convert.py L482-485) -/
def toItem (g : Rat × List Cand) : RankItem :=
  match g.2 with
  | [c] => .one c
  | cs => .shared (canonSet cs)

theorem mem_toItem (g : Rat × List Cand) (x : Cand) : x ∈ (toItem g).cands ↔ x ∈ g.2 := by
  unfold toItem
  split
  · rename_i c h; rw [h]; simp [RankItem.cands]
  · simp [RankItem.cands, mem_canonSet]

theorem mem_ballotCands_groups (G : List (Rat × List Cand)) (x : Cand) :
    x ∈ ballotCands (G.map toItem) ↔ ∃ g ∈ G, x ∈ g.2 := by
  rw [mem_ballotCands]
  constructor
  · rintro ⟨it, hit, hx⟩
    obtain ⟨g, hg, rfl⟩ := List.mem_map.1 hit
    exact ⟨g, hg, (mem_toItem g x).1 hx⟩
  · rintro ⟨g, hg, hx⟩
    exact ⟨toItem g, List.mem_map.2 ⟨g, hg, rfl⟩, (mem_toItem g x).2 hx⟩

theorem above_groups (G : List (Rat × List Cand)) (hG : G.Pairwise (fun g g' => g.1 < g'.1)) (y x : Cand) :
    Above (G.map toItem) y x ↔ ∃ g ∈ G, ∃ g' ∈ G, g.1 < g'.1 ∧ y ∈ g.2 ∧ x ∈ g'.2 := by
  induction G with
  | nil => simp [Above]
  | cons g0 G' ih =>
    rw [List.pairwise_cons] at hG
    simp only [List.map_cons, Above, ih hG.2, mem_toItem, mem_ballotCands_groups]
    constructor
    · rintro (⟨hy, g', hg', hx⟩ | ⟨g, hg, g', hg', hlt, hy, hx⟩)
      · exact ⟨g0, by simp, g', List.mem_cons_of_mem _ hg', hG.1 g' hg', hy, hx⟩
      · exact ⟨g, List.mem_cons_of_mem _ hg, g', List.mem_cons_of_mem _ hg', hlt, hy, hx⟩
    · rintro ⟨g, hg, g', hg', hlt, hy, hx⟩
      rcases List.mem_cons.1 hg with e1 | hg1
      · rcases List.mem_cons.1 hg' with e2 | hg2
        · rw [e1, e2] at hlt; exact absurd hlt (lt_irrefl _)
        · rw [e1] at hy; exact Or.inl ⟨hy, g', hg2, hx⟩
      · rcases List.mem_cons.1 hg' with e2 | hg2
        · rw [e2] at hlt; exact absurd (lt_trans hlt (hG.1 g hg1)) (lt_irrefl _)
        · exact Or.inr ⟨g, hg1, g', hg2, hlt, hy, hx⟩

/-! ### convert_one -/

/-- the ballot with the unscored candidates of the universe added at `unscored_value` -/
def augment (uv : Option Rat) (U : List Cand) (vote : ScoreBallot) : ScoreBallot :=
  match uv with
  | none => vote
  | some x => vote ++ (U.filter (fun c => c ∉ vote.map (·.1))).map (fun c => (c, x))

theorem scoreToRankedOne_eq (uv : Option Rat) (U : List Cand) (vote : ScoreBallot) :
    scoreToRankedOne uv U vote = ((groupRuns (sortAsc (augment uv U vote))).map toItem).reverse := by
  unfold scoreToRankedOne augment toItem
  cases uv <;> rfl

theorem mem_augment (uv : Option Rat) (U : List Cand) (vote : ScoreBallot) (c : Cand) (s : Rat) :
    (c, s) ∈ augment uv U vote ↔ (c, s) ∈ vote ∨ (uv = some s ∧ c ∈ U ∧ ∀ s', (c, s') ∉ vote) := by
  unfold augment
  cases uv with
  | none => simp
  | some x =>
    simp only [List.mem_append, List.mem_map, List.mem_filter, decide_eq_true_eq, Prod.mk.injEq, Option.some.injEq]
    constructor
    · rintro (h | ⟨c', ⟨hU, hn⟩, rfl, rfl⟩)
      · exact Or.inl h
      · refine Or.inr ⟨rfl, hU, fun s' hm => hn ?_⟩
        exact ⟨(c', s'), hm, rfl⟩
    · rintro (h | ⟨rfl, hU, hn⟩)
      · exact Or.inl h
      · refine Or.inr ⟨c, ⟨hU, ?_⟩, rfl, rfl⟩
        rintro ⟨⟨c', s'⟩, hm, rfl⟩
        exact hn s' hm

/-- **the ranking lists exactly the (augmented) ballot's candidates …** -/
theorem mem_scoreToRankedOne (uv : Option Rat) (U : List Cand) (vote : ScoreBallot) (c : Cand) :
    c ∈ ballotCands (scoreToRankedOne uv U vote) ↔ ∃ s, (c, s) ∈ augment uv U vote := by
  rw [scoreToRankedOne_eq, mem_ballotCands_reverse, mem_ballotCands_groups]
  obtain ⟨_, hm, hc⟩ := groupRuns_spec _ (sortAsc_asc (augment uv U vote))
  constructor
  · rintro ⟨g, hg, hx⟩
    exact ⟨g.1, (sortAsc_perm _).mem_iff.1 (hm g hg c hx)⟩
  · rintro ⟨s, hs⟩
    obtain ⟨g, hg, _, hx⟩ := hc c s ((sortAsc_perm _).mem_iff.2 hs)
    exact ⟨g, hg, hx⟩

/-- **… by strictly descending score: x stands above y iff x has a higher score than y** -/
theorem above_scoreToRankedOne (uv : Option Rat) (U : List Cand) (vote : ScoreBallot) (x y : Cand) :
    Above (scoreToRankedOne uv U vote) x y
      ↔ ∃ sx sy, (x, sx) ∈ augment uv U vote ∧ (y, sy) ∈ augment uv U vote ∧ sy < sx := by
  rw [scoreToRankedOne_eq, above_reverse]
  obtain ⟨hp, hm, hc⟩ := groupRuns_spec _ (sortAsc_asc (augment uv U vote))
  rw [above_groups _ hp]
  constructor
  · rintro ⟨g, hg, g', hg', hlt, hy, hx⟩
    exact ⟨g'.1, g.1, (sortAsc_perm _).mem_iff.1 (hm g' hg' x hx), (sortAsc_perm _).mem_iff.1 (hm g hg y hy), hlt⟩
  · rintro ⟨sx, sy, hx, hy, hlt⟩
    obtain ⟨g', hg', e', hx'⟩ := hc x sx ((sortAsc_perm _).mem_iff.2 hx)
    obtain ⟨g, hg, e, hy'⟩ := hc y sy ((sortAsc_perm _).mem_iff.2 hy)
    exact ⟨g, hg, g', hg', by rw [e, e']; exact hlt, hy', hx'⟩

/-- every candidate is listed once when the ballot scores each candidate once -/
theorem nodup_scoreToRankedOne (uv : Option Rat) (U : List Cand) (vote : ScoreBallot)
    (h : ((augment uv U vote).map (·.1)).Nodup) : (ballotCands (scoreToRankedOne uv U vote)).Nodup := by
  rw [scoreToRankedOne_eq]
  have hflat := groupRuns_flatten (sortAsc (augment uv U vote))
  have hnd : ((groupRuns (sortAsc (augment uv U vote))).flatMap (·.2)).Nodup := by
    rw [hflat]; exact ((sortAsc_perm _).map _).nodup_iff.2 h
  have hperm : ∀ G : List (Rat × List Cand), (G.flatMap (·.2)).Nodup →
      (ballotCands (G.map toItem)).Perm (G.flatMap (·.2)) := by
    intro G
    induction G with
    | nil => intro _; exact List.Perm.refl _
    | cons g G' ih =>
      intro hn
      rw [List.flatMap_cons, List.nodup_append] at hn
      rw [List.map_cons, ballotCands_cons, List.flatMap_cons]
      apply List.Perm.append _ (ih hn.2.1)
      unfold toItem
      split
      · rename_i c hc; rw [hc]; exact List.Perm.refl _
      · simp only [RankItem.cands]
        exact (List.perm_ext_iff_of_nodup (nodup_canonSet _) hn.1).2 (fun a => mem_canonSet a _)
  have h1 := hperm _ hnd
  have h2 : (ballotCands ((groupRuns (sortAsc (augment uv U vote))).map toItem).reverse).Perm
      (ballotCands ((groupRuns (sortAsc (augment uv U vote))).map toItem)) := by
    unfold ballotCands
    exact (List.reverse_perm _).flatMap_right _
  exact (h2.trans h1).nodup_iff.2 hnd

end VL.Convert
