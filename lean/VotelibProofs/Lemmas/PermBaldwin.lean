/-
  C10 — Baldwin (`VL.ShapeSeq.baldwin`, sequential.py L732-782) does not depend on the order in which the ballots are
  presented nor on the names of the candidates.

  Technique: ONE simulation through `baldwinLoop`, generic in a pair (σ, Φ) of a candidate renaming and the profile
  transformation it induces (`Sym σ Φ`); the two theorems are the instances (id, id) and (σ, renRProfile σ).
  The current profiles of the two runs are related by "same content" (`Sim`): the same key set and the same weighted sums
  — NOT `Perm`, because `RANKED_SUBSETTER.convert` merges ballots that become equal, in insertion order, and a renaming
  may merge two presentations of one shared rank.  Every converter used by the loop (`subsetted`, `rankedToPositional`)
  only sees the content (C13: `X(p)(k) = Σ w · img b k`).  The score dicts are then permutations of each other,
  `get_n_best(neg, 1)` gives the same loser / the same Tie as a set (`getNBest_perm`), the lists of remaining candidates
  have the same members, and `subsetRanked` only tests membership.
-/
import VotelibProofs.Lemmas.PermTrans
import VotelibProofs.Lemmas.RenameCondorcetConvert
import VotelibProofs.Lemmas.ShapeSequential
namespace VL.Perm.Bald
open VL VL.Convert VL.C10 VL.ShapeSeq

/-! ### profiles with the same content -/

/-- the same ballots occur (key sets agree) and every weighted sum over the ballots agrees -/
def Sim (a b : RProfile) : Prop := (∀ k, k ∈ dkeys a ↔ k ∈ dkeys b) ∧ ∀ g : Ballot → Rat, wsum a g = wsum b g

theorem sim_refl (a : RProfile) : Sim a a := ⟨fun _ => Iff.rfl, fun _ => rfl⟩
theorem sim_symm {a b : RProfile} (h : Sim a b) : Sim b a := ⟨fun k => (h.1 k).symm, fun g => (h.2 g).symm⟩
theorem sim_trans {a b c : RProfile} (h₁ : Sim a b) (h₂ : Sim b c) : Sim a c :=
  ⟨fun k => (h₁.1 k).trans (h₂.1 k), fun g => (h₁.2 g).trans (h₂.2 g)⟩
theorem sim_of_perm {a b : RProfile} (h : a.Perm b) : Sim a b :=
  ⟨fun _ => (h.map _).mem_iff, fun g => wsum_perm h g⟩

/-- a statement about the ballots occurring in a profile only depends on the key set -/
theorem exists_key_iff {a b : RProfile} (h : ∀ k, k ∈ dkeys a ↔ k ∈ dkeys b) (P : Ballot → Prop) :
    (∃ bw ∈ a, P bw.1) ↔ ∃ bw ∈ b, P bw.1 := by
  constructor
  · rintro ⟨bw, hbw, hP⟩
    obtain ⟨bw', hbw', e⟩ := List.mem_map.mp ((h bw.1).mp (List.mem_map.mpr ⟨bw, hbw, rfl⟩))
    exact ⟨bw', hbw', by rw [e]; exact hP⟩
  · rintro ⟨bw, hbw, hP⟩
    obtain ⟨bw', hbw', e⟩ := List.mem_map.mp ((h bw.1).mpr (List.mem_map.mpr ⟨bw, hbw, rfl⟩))
    exact ⟨bw', hbw', by rw [e]; exact hP⟩

theorem forall_key_of {a b : RProfile} (h : ∀ k, k ∈ dkeys a ↔ k ∈ dkeys b) (P : Ballot → Prop)
    (ha : ∀ bw ∈ a, P bw.1) : ∀ bw ∈ b, P bw.1 := by
  intro bw hbw
  obtain ⟨bw', hbw', e⟩ := List.mem_map.mp ((h bw.1).mpr (List.mem_map.mpr ⟨bw, hbw, rfl⟩))
  rw [← e]; exact ha bw' hbw'

/-- weighted sums over the output of the one-item accumulator -/
theorem wsum_accumOne {β κ : Type} [DecidableEq κ] (key : β → Option κ) (p : Dict β) (g : κ → Rat) :
    wsum (accumOne key p) g = wsum p (fun b => match key b with | some k => g k | none => 0) := by
  unfold accumOne
  have : ∀ acc : Dict κ, wsum (p.foldl (fun acc bw => match key bw.1 with
      | none => acc
      | some k => addTo acc k bw.2) acc) g
      = wsum acc g + wsum p (fun b => match key b with | some k => g k | none => 0) := by
    induction p with
    | nil => intro acc; simp
    | cons bw t ih =>
      intro acc
      rw [List.foldl_cons, ih, wsum_cons]
      cases hk : key bw.1 with
      | none => simp
      | some k => simp only [wsum_addTo]; ring
  exact (this []).trans (by simp)

/-- `SubsettedVotes.convert` only sees the content of the profile -/
theorem sim_subsetted (f : Ballot → Option Ballot) {a b : RProfile} (h : Sim a b) : Sim (subsetted f a) (subsetted f b) := by
  constructor
  · intro k
    show k ∈ dkeys (accumOne f a) ↔ k ∈ dkeys (accumOne f b)
    rw [mem_dkeys_accumOne, mem_dkeys_accumOne]
    exact exists_key_iff h.1 (fun b => f b = some k)
  · intro g
    show wsum (accumOne f a) g = wsum (accumOne f b) g
    rw [wsum_accumOne, wsum_accumOne, h.2]

theorem allRankedCandidates_sim {a b : RProfile} (h : Sim a b) : (allRankedCandidates a).Perm (allRankedCandidates b) := by
  refine (List.perm_ext_iff_of_nodup (nodup_allRankedCandidates a) (nodup_allRankedCandidates b)).mpr (fun c => ?_)
  rw [mem_allRankedCandidates, mem_allRankedCandidates]
  exact exists_key_iff h.1 (fun b => c ∈ ballotCands b)

/-- `RankedToPositionalVotes.convert` only sees the content of the profile -/
theorem rankedToPositional_sim (sc : Scorer) {a b : RProfile} (h : Sim a b)
    (hs : C13.ScorerOK sc (allRankedCandidates a).length a) :
    ∃ d₁ d₂, rankedToPositional sc a = .ok d₁ ∧ rankedToPositional sc b = .ok d₂ ∧ d₁.Perm d₂ := by
  have hU := allRankedCandidates_sim h
  have hs2 : C13.ScorerOK sc (allRankedCandidates b).length b := by
    rw [← hU.length_eq]
    exact forall_key_of h.1 (fun k => scorerAccepts sc (allRankedCandidates a).length k.length = true) hs
  obtain ⟨d₁, e1, k1, n1, f1⟩ := C13.positional_sum sc _ a (C13.covers_allRankedCandidates a) hs
  obtain ⟨d₂, e2, k2, n2, f2⟩ := C13.positional_sum sc _ b (C13.covers_allRankedCandidates b) hs2
  refine ⟨d₁, d₂, e1, e2, dict_perm_of_toFun_eq (n1 (nodup_allRankedCandidates a)) (n2 (nodup_allRankedCandidates b))
    (fun k => by rw [k1, k2, hU.mem_iff]) (fun k => by rw [f1, f2, hU.length_eq, h.2])⟩

theorem rankedWF_sim {a b : RProfile} (h : Sim a b) (ha : C08.RankedWF a) : C08.RankedWF b :=
  forall_key_of h.1 (fun k => (ballotCands k).Nodup ∧ ∀ it ∈ k, it.cands ≠ []) ha

/-- `Baldwin._compute_negative_scores` only sees the content of the profile -/
theorem negScores_sim {a b : RProfile} (h : Sim a b) (ha : C08.RankedWF a) :
    ∃ n₁ n₂, negScores a = .ok n₁ ∧ negScores b = .ok n₂ ∧ n₁.Perm n₂ := by
  obtain ⟨d₁, d₂, e1, e2, hp⟩ := rankedToPositional_sim (.borda 0) h (C08.scorerOK_of_wf (.borda 0) (by decide) a ha)
  refine ⟨d₁.map (fun e => (e.1, -e.2)), d₂.map (fun e => (e.1, -e.2)), ?_, ?_, hp.map _⟩
  · unfold negScores; rw [e1]
  · unfold negScores; rw [e2]

/-! ### the subsetter only tests membership -/

theorem subsetRankedOne_congr {S₁ S₂ : List Cand} (h : ∀ c, c ∈ S₁ ↔ c ∈ S₂) : subsetRankedOne S₁ = subsetRankedOne S₂ := by
  funext vote
  unfold subsetRankedOne
  simp only [h]

theorem rankedSubset_congr (p : RProfile) {S₁ S₂ : List Cand} (h : ∀ c, c ∈ S₁ ↔ c ∈ S₂) :
    rankedSubset p S₁ = rankedSubset p S₂ := by
  unfold rankedSubset subsetRanked
  rw [subsetRankedOne_congr h]

/-! ### results -/

theorem single_cand {r : List Slot} {c : Cand} (h : SlotsEquiv r [Slot.cand c]) : r = [Slot.cand c] := by
  obtain ⟨e₁, e₂, T₁, T₂, m, h1, h2, he, _⟩ := h
  have h2' : [c].map Slot.cand ++ List.replicate 0 (Slot.tie []) = e₂.map Slot.cand ++ List.replicate m (Slot.tie T₂) := by
    rw [← h2]; rfl
  obtain ⟨a, b, _⟩ := slots_decomp_unique [c] e₂ [] T₂ 0 m h2'
  subst a; subst b
  have : e₁ = [c] := List.perm_singleton.mp he
  rw [h1, this]; rfl

theorem single_tie {r : List Slot} {T : List Cand} (h : SlotsEquiv r [Slot.tie T]) :
    ∃ T', r = [Slot.tie T'] ∧ T'.Perm T := by
  obtain ⟨e₁, e₂, T₁, T₂, m, h1, h2, he, hT⟩ := h
  have h2' : ([] : List Cand).map Slot.cand ++ List.replicate 1 (Slot.tie T) = e₂.map Slot.cand ++ List.replicate m (Slot.tie T₂) := by
    rw [← h2]; rfl
  obtain ⟨a, b, c⟩ := slots_decomp_unique [] e₂ T T₂ 1 m h2'
  subst a; subst b
  have hTT : T = T₂ := by
    rcases c with c | c
    · exact absurd c (by decide)
    · exact c
  have : e₁ = [] := List.perm_nil.mp he
  refine ⟨T₁, ?_, by rw [hTT]; exact hT⟩
  rw [h1, this]; rfl

/-- the tied-losers return (L759-764): everybody left is elected, then the Tie once per missing seat -/
theorem tie_result {rsA rsB : Votes} {TA TB : List Cand} (hrs : rsA.Perm rsB) (hT : TA.Perm TB) (k m : Nat)
    (hk : rsA.length ≤ k) :
    SlotsEquiv (getNBest rsA k ++ List.replicate m (Slot.tie TA)) (getNBest rsB k ++ List.replicate m (Slot.tie TB)) := by
  rw [getNBest_all rsA k hk, getNBest_all rsB k (by rw [← hrs.length_eq]; exact hk)]
  refine ⟨(sortDesc rsA).map (·.1), (sortDesc rsB).map (·.1), TA, TB, m, ?_, ?_, (sortDesc_perm_of_perm hrs).map _, hT⟩
  · rw [List.map_map]; rfl
  · rw [List.map_map]; rfl

theorem exceptEquiv_symm {r₁ r₂ : Except Err (List Slot)} (h : ExceptEquiv SlotsEquiv r₁ r₂) : ExceptEquiv SlotsEquiv r₂ r₁ := by
  cases r₁ <;> cases r₂
  · exact Eq.symm h
  · exact h
  · exact h
  · exact slotsEquiv_symm h

/-! ### one round of the loop, as equations -/

theorem loop_done {n f : Nat} {cur : RProfile} {neg : Votes} (h : ¬ neg.length > n) :
    baldwinLoop n (f + 1) cur neg = .ok (getNBest neg n) := by
  rw [baldwinLoop, if_neg h]

theorem loop_cand {n f : Nat} {cur : RProfile} {neg neg₂ : Votes} {c : Cand} {rest : List Slot} (h : neg.length > n)
    (hc : getNBest neg 1 = Slot.cand c :: rest)
    (hn : negScores (rankedSubset cur ((keys neg).filter (fun x => x ≠ c))) = .ok neg₂) :
    baldwinLoop n (f + 1) cur neg = baldwinLoop n f (rankedSubset cur ((keys neg).filter (fun x => x ≠ c))) neg₂ := by
  rw [baldwinLoop, if_pos h, hc]
  simp only
  rw [hn]

theorem loop_tie_elim {n f : Nat} {cur : RProfile} {neg neg₂ : Votes} {T : List Cand} {rest : List Slot} (h : neg.length > n)
    (hc : getNBest neg 1 = Slot.tie T :: rest) (hr : ¬ neg.length - T.length < n)
    (hn : negScores (rankedSubset cur ((keys neg).filter (fun c => c ∉ T))) = .ok neg₂) :
    baldwinLoop n (f + 1) cur neg = baldwinLoop n f (rankedSubset cur ((keys neg).filter (fun c => c ∉ T))) neg₂ := by
  rw [baldwinLoop, if_pos h, hc]
  simp only
  rw [if_neg hr, hn]

theorem loop_tie_stop {n f : Nat} {cur : RProfile} {neg rs : Votes} {T : List Cand} {rest : List Slot} (h : neg.length > n)
    (hc : getNBest neg 1 = Slot.tie T :: rest) (hr : neg.length - T.length < n)
    (hn : negScores (rankedSubset cur ((keys neg).filter (fun c => c ∉ T))) = .ok rs) :
    baldwinLoop n (f + 1) cur neg =
      .ok (getNBest rs (n - (n - (neg.length - T.length))) ++ List.replicate (n - (neg.length - T.length)) (Slot.tie T)) := by
  rw [baldwinLoop, if_pos h, hc]
  simp only
  rw [if_pos hr, hn]

/-! ### the generic simulation -/

/-- a renaming `σ` of the candidates and the transformation `Φ` of ranked profiles it induces: `Φ` keeps profiles
    well-formed, the negative scores of `Φ p` are the renamed ones of `p` (up to order), and subsetting commutes -/
structure Sym (σ : Cand → Cand) (Φ : RProfile → RProfile) : Prop where
  inj : Function.Injective σ
  wf : ∀ cur, C08.RankedWF cur → C08.RankedWF (Φ cur)
  neg : ∀ cur, C08.RankedWF cur →
    ∃ d' d, negScores (Φ cur) = .ok d' ∧ negScores cur = .ok d ∧ d'.Perm (renVotes σ d)
  sub : ∀ cur S, C08.RankedWF cur → Sim (rankedSubset (Φ cur) (S.map σ)) (Φ (rankedSubset cur S))

section
variable {σ : Cand → Cand} {Φ : RProfile → RProfile} (hS : Sym σ Φ)
include hS

theorem neg_rel {c' c : RProfile} (h : Sim c' (Φ c)) (hwf : C08.RankedWF c) :
    ∃ n' n, negScores c' = .ok n' ∧ negScores c = .ok n ∧ n'.Perm (renVotes σ n) := by
  obtain ⟨d', d, e1, e2, hp⟩ := hS.neg c hwf
  obtain ⟨n₁, n₂, f1, f2, hq⟩ := negScores_sim (sim_symm h) (hS.wf c hwf)
  rw [e1] at f1
  injection f1 with f1
  subst f1
  exact ⟨n₂, d, f2, e2, hq.symm.trans hp⟩

omit hS in
theorem keys_renVotes (σ : Cand → Cand) (v : Votes) : keys (renVotes σ v) = (keys v).map σ := by
  unfold keys renVotes; rw [List.map_map, List.map_map]; rfl

/-- one elimination on both sides: the remaining-candidate lists have corresponding members -/
theorem step_rel {cur' cur : RProfile} {neg : Votes} (hsim : Sim cur' (Φ cur)) (hI : C08.BaldwinInv cur neg)
    (q : Cand → Bool) (S' : List Cand) (hS' : ∀ x, x ∈ S' ↔ x ∈ ((keys neg).filter q).map σ) :
    ∃ neg₂' neg₂, negScores (rankedSubset cur' S') = .ok neg₂' ∧
      negScores (rankedSubset cur ((keys neg).filter q)) = .ok neg₂ ∧
      C08.BaldwinInv (rankedSubset cur ((keys neg).filter q)) neg₂ ∧ (keys neg₂).Perm ((keys neg).filter q) ∧
      Sim (rankedSubset cur' S') (Φ (rankedSubset cur ((keys neg).filter q))) ∧ neg₂'.Perm (renVotes σ neg₂) := by
  obtain ⟨neg₂, hn2, hI2, hperm⟩ := C08.baldwin_step hI q
  have hsim2 : Sim (rankedSubset cur' S') (Φ (rankedSubset cur ((keys neg).filter q))) := by
    rw [rankedSubset_congr cur' hS']
    exact sim_trans (sim_subsetted _ hsim) (hS.sub cur _ hI.wf)
  obtain ⟨n', n, f1, f2, hq⟩ := neg_rel hS hsim2 hI2.wf
  rw [hn2] at f2
  injection f2 with f2
  subst f2
  exact ⟨n', neg₂, f1, hn2, hI2, hperm, hsim2, hq⟩

/-- **the simulation through the loop of `Baldwin.evaluate`** -/
theorem loop_sim (n : Nat) : ∀ (f : Nat) (cur' cur : RProfile) (neg' neg : Votes),
    Sim cur' (Φ cur) → C08.BaldwinInv cur neg → neg'.Perm (renVotes σ neg) →
    ExceptEquiv SlotsEquiv (baldwinLoop n f cur' neg') ((baldwinLoop n f cur neg).map (List.map (renSlot σ))) := by
  intro f
  induction f with
  | zero => intro cur' cur neg' neg _ _ _; exact rfl
  | succ f ih =>
    intro cur' cur neg' neg hsim hI hperm
    have hlen : neg'.length = neg.length := by rw [hperm.length_eq]; simp [renVotes]
    have hkeys : ∀ x, x ∈ keys neg' ↔ x ∈ (keys neg).map σ := by
      intro x
      have := (hperm.map (·.1)).mem_iff (a := x)
      rw [← keys_renVotes]
      exact this
    have hbest : ∀ k, SlotsEquiv (getNBest neg' k) ((getNBest neg k).map (renSlot σ)) := by
      intro k
      have := getNBest_perm neg' (renVotes σ neg) hperm k
      rwa [getNBest_rename] at this
    by_cases hgt : neg.length > n
    · have hgt' : neg'.length > n := by omega
      have hne : neg ≠ [] := by rintro rfl; simp at hgt
      rcases C08.getNBest_one_cases neg hI.nodup hne with ⟨c, hc, hck⟩ | ⟨T, hT, hTnd, hTsub, hT2⟩
      · -- a single loser
        have hc' : getNBest neg' 1 = [Slot.cand (σ c)] := by
          have := hbest 1
          rw [hc] at this
          exact single_cand this
        have hmem : ∀ x, x ∈ (keys neg').filter (fun x => x ≠ σ c) ↔
            x ∈ ((keys neg).filter (fun x => decide (x ≠ c))).map σ := by
          intro x
          simp only [List.mem_filter, List.mem_map, decide_eq_true_eq, hkeys]
          constructor
          · rintro ⟨⟨y, hy, rfl⟩, hne⟩
            exact ⟨y, ⟨hy, fun e => hne (by rw [e])⟩, rfl⟩
          · rintro ⟨y, ⟨hy, hne⟩, rfl⟩
            exact ⟨⟨y, hy, rfl⟩, fun e => hne (hS.inj e)⟩
        obtain ⟨neg₂', neg₂, e1, e2, hI2, _, hsim2, hperm2⟩ := step_rel hS hsim hI (fun x => decide (x ≠ c)) _ hmem
        rw [loop_cand hgt' hc' e1, loop_cand hgt hc e2]
        exact ih _ _ _ _ hsim2 hI2 hperm2
      · -- tied losers
        obtain ⟨T', hT', hTp⟩ : ∃ T', getNBest neg' 1 = [Slot.tie T'] ∧ T'.Perm (T.map σ) := by
          have := hbest 1
          rw [hT] at this
          exact single_tie this
        have hTlen : T'.length = T.length := by rw [hTp.length_eq, List.length_map]
        have hmem : ∀ x, x ∈ (keys neg').filter (fun c => c ∉ T') ↔
            x ∈ ((keys neg).filter (fun c => decide (c ∉ T))).map σ := by
          intro x
          simp only [List.mem_filter, List.mem_map, decide_eq_true_eq, hkeys, hTp.mem_iff]
          constructor
          · rintro ⟨⟨y, hy, rfl⟩, hne⟩
            exact ⟨y, ⟨hy, fun e => hne ⟨y, e, rfl⟩⟩, rfl⟩
          · rintro ⟨y, ⟨hy, hne⟩, rfl⟩
            refine ⟨⟨y, hy, rfl⟩, ?_⟩
            rintro ⟨z, hz, e⟩
            exact hne (hS.inj e ▸ hz)
        obtain ⟨neg₂', neg₂, e1, e2, hI2, hk2, hsim2, hperm2⟩ := step_rel hS hsim hI (fun c => decide (c ∉ T)) _ hmem
        by_cases hrem : neg.length - T.length < n
        · have hrem' : neg'.length - T'.length < n := by omega
          rw [loop_tie_stop hgt' hT' hrem' e1, loop_tie_stop hgt hT hrem e2, hlen, hTlen]
          show SlotsEquiv _ (List.map (renSlot σ) _)
          rw [List.map_append, List.map_replicate, ← getNBest_rename]
          apply tie_result hperm2 hTp
          have h1 : neg₂'.length = neg₂.length := by rw [hperm2.length_eq]; simp [renVotes]
          have h2 : neg₂.length = neg.length - T.length := by
            rw [← C08.keys_length, hk2.length_eq, C08.length_filter_not_mem hI.nodup hTnd hTsub, C08.keys_length]
          omega
        · have hrem' : ¬ neg'.length - T'.length < n := by omega
          rw [loop_tie_elim hgt' hT' hrem' e1, loop_tie_elim hgt hT hrem e2]
          exact ih _ _ _ _ hsim2 hI2 hperm2
    · have hgt' : ¬ neg'.length > n := by omega
      rw [loop_done hgt', loop_done hgt]
      exact hbest n

/-- **the generic theorem**: profiles with the content of `Φ p` are evaluated like `p`, renamed -/
theorem baldwin_sim {p' p : RProfile} (hsim : Sim p' (Φ p)) (hwf : C08.RankedWF p) (n : Nat) :
    ExceptEquiv SlotsEquiv (baldwin p' n) ((baldwin p n).map (List.map (renSlot σ))) := by
  obtain ⟨neg', neg, e1, e2, hperm⟩ := neg_rel hS hsim hwf
  obtain ⟨neg0, h0, hnd, hmem⟩ := C08.negScores_ok hwf
  rw [e2] at h0
  injection h0 with h0
  subst h0
  have hlen : neg'.length = neg.length := by rw [hperm.length_eq]; simp [renVotes]
  unfold baldwin
  rw [e1, e2]
  simp only
  rw [hlen]
  exact loop_sim hS n _ _ _ _ _ hsim ⟨hwf, hnd, hmem⟩ hperm

end

/-! ### instance 1: the identity (ballot order) -/

theorem renVotes_id (v : Votes) : renVotes id v = v := by
  unfold renVotes; simp

theorem renSlot_id : renSlot id = id := by
  funext s
  cases s with
  | cand c => rfl
  | tie T => simp [renSlot]

theorem sym_id : Sym id id where
  inj := fun _ _ h => h
  wf := fun _ h => h
  neg := by
    intro cur hwf
    obtain ⟨neg, h, _, _⟩ := C08.negScores_ok hwf
    exact ⟨neg, neg, h, h, by rw [renVotes_id]⟩
  sub := by
    intro cur S _
    rw [List.map_id]
    exact sim_refl _

/-! ### instance 2: a renaming of the candidates -/

section
variable (σ : Cand → Cand) (hσ : Function.Injective σ)
include hσ

omit hσ in
theorem items_nodup_of_wf {p : RProfile} (h : C08.RankedWF p) : VL.Perm.RankedWF p := by
  intro bw hbw it hit
  have := (h bw hbw).1
  unfold ballotCands at this
  exact (List.nodup_flatMap.mp this).1 it hit

theorem rankedWF_ren {p : RProfile} (h : C08.RankedWF p) : C08.RankedWF (renRProfile σ p) := by
  intro bw' hbw'
  obtain ⟨bw, hbw, rfl⟩ := List.mem_map.mp hbw'
  refine ⟨nodup_ballotCands_ren σ hσ (h bw hbw).1, ?_⟩
  intro it' hit'
  obtain ⟨it, hit, rfl⟩ := List.mem_map.mp hit'
  obtain ⟨c, hc⟩ := List.exists_mem_of_ne_nil _ ((h bw hbw).2 it hit)
  exact List.ne_nil_of_mem ((mem_renItem σ it (σ c)).mpr ⟨c, hc, rfl⟩)

/-- the canonical form of a filtered set -/
theorem renSet_filter (S cs : List Cand) :
    (renSet σ cs).filter (fun c => c ∈ S.map σ) = renSet σ (cs.filter (fun c => c ∈ S)) := by
  have hs : ((renSet σ cs).filter (fun c => decide (c ∈ S.map σ))).Pairwise (· < ·) :=
    (sorted_canonSet _).sublist List.filter_sublist
  rw [← canonSet_of_sorted hs]
  unfold renSet
  rw [canonSet_eq_iff]
  intro c
  simp only [List.mem_filter, mem_canonSet, List.mem_map, decide_eq_true_eq]
  constructor
  · rintro ⟨⟨y, hy, rfl⟩, ⟨z, hz, e⟩⟩
    exact ⟨y, ⟨hy, hσ e ▸ hz⟩, rfl⟩
  · rintro ⟨y, ⟨hy, hyS⟩, rfl⟩
    exact ⟨⟨y, hy, rfl⟩, ⟨y, hyS, rfl⟩⟩

theorem subItem_ren (S : List Cand) (it : RankItem) (hit : it.cands.Nodup) :
    subItem (S.map σ) (renItem σ it) = (subItem S it).map (renItem σ) := by
  cases it with
  | one c =>
    simp only [renItem, subItem, List.mem_map_of_injective hσ]
    by_cases h : c ∈ S
    · rw [if_pos h, if_pos h]; rfl
    · rw [if_neg h, if_neg h]; rfl
  | shared cs =>
    simp only [renItem, subItem]
    rw [renSet_filter σ hσ]
    have hnd : (cs.filter (fun c => decide (c ∈ S))).Nodup := List.Nodup.filter _ hit
    have hlen := length_renSet σ hσ hnd
    generalize cs.filter (fun c => decide (c ∈ S)) = L at hnd hlen
    match L, hlen with
    | [], _ => rfl
    | [c], _ => rfl
    | c₁ :: c₂ :: t, hlen =>
      change _ = some (RankItem.shared (renSet σ (c₁ :: c₂ :: t)))
      generalize renSet σ (c₁ :: c₂ :: t) = R at hlen ⊢
      match R, hlen with
      | [], hlen => simp at hlen
      | [_], hlen => simp at hlen
      | a :: b :: r, _ => rfl

theorem subsetRankedOne_ren (S : List Cand) (b : Ballot) (hb : ∀ it ∈ b, it.cands.Nodup) :
    subsetRankedOne (S.map σ) (renBallot σ b) = renBallot σ (subsetRankedOne S b) := by
  rw [subsetRankedOne_eq, subsetRankedOne_eq]
  unfold renBallot
  rw [List.filterMap_map, List.map_filterMap]
  apply List.filterMap_congr
  intro it hit
  exact subItem_ren σ hσ S it (hb it hit)

omit hσ in
theorem mem_dkeys_renRProfile (p : RProfile) (k : Ballot) :
    k ∈ dkeys (renRProfile σ p) ↔ ∃ bw ∈ p, renBallot σ bw.1 = k := by
  unfold dkeys renRProfile
  simp only [List.mem_map]
  constructor
  · rintro ⟨_, ⟨bw, hbw, rfl⟩, rfl⟩; exact ⟨bw, hbw, rfl⟩
  · rintro ⟨bw, hbw, rfl⟩; exact ⟨_, ⟨bw, hbw, rfl⟩, rfl⟩

/-- subsetting the renamed profile by the renamed subset gives the content of the renamed subsetted profile -/
theorem sim_subset_ren (cur : RProfile) (S : List Cand) (hwf : VL.Perm.RankedWF cur) :
    Sim (rankedSubset (renRProfile σ cur) (S.map σ)) (renRProfile σ (rankedSubset cur S)) := by
  constructor
  · intro k
    rw [mem_dkeys_renRProfile]
    show k ∈ dkeys (accumOne (subsetRanked (S.map σ)) (renRProfile σ cur)) ↔ _
    rw [mem_dkeys_accumOne]
    constructor
    · rintro ⟨bw', hbw', hk⟩
      obtain ⟨bw, hbw, rfl⟩ := List.mem_map.mp hbw'
      simp only [subsetRanked, Option.some.injEq] at hk
      rw [subsetRankedOne_ren σ hσ S bw.1 (hwf bw hbw)] at hk
      have hkey : subsetRankedOne S bw.1 ∈ dkeys (accumOne (subsetRanked S) cur) :=
        (mem_dkeys_accumOne (subsetRanked S) cur _).mpr ⟨bw, hbw, rfl⟩
      obtain ⟨e, he, hek⟩ := List.mem_map.mp hkey
      exact ⟨e, he, by rw [hek]; exact hk⟩
    · rintro ⟨e, he, rfl⟩
      have hkey : e.1 ∈ dkeys (accumOne (subsetRanked S) cur) := List.mem_map.mpr ⟨e, he, rfl⟩
      obtain ⟨bw, hbw, hk⟩ := (mem_dkeys_accumOne (subsetRanked S) cur _).mp hkey
      simp only [subsetRanked, Option.some.injEq] at hk
      refine ⟨(renBallot σ bw.1, bw.2), List.mem_map.mpr ⟨bw, hbw, rfl⟩, ?_⟩
      simp only [subsetRanked, Option.some.injEq]
      rw [subsetRankedOne_ren σ hσ S bw.1 (hwf bw hbw), hk]
  · intro g
    show wsum (accumOne (subsetRanked (S.map σ)) (renRProfile σ cur)) g = wsum (renRProfile σ (accumOne (subsetRanked S) cur)) g
    unfold renRProfile
    rw [wsum_accumOne, wsum_map, wsum_map, wsum_accumOne]
    apply wsum_congr
    intro bw hbw
    simp only [subsetRanked]
    rw [subsetRankedOne_ren σ hσ S bw.1 (hwf bw hbw)]

theorem sym_ren : Sym σ (renRProfile σ) where
  inj := hσ
  wf := fun _ h => rankedWF_ren σ hσ h
  neg := by
    intro cur hwf
    obtain ⟨d', d, e1, e2, hp⟩ := rankedToPositional_ren σ hσ (.borda 0) cur (items_nodup_of_wf hwf)
      (C08.scorerOK_of_wf (.borda 0) (by decide) cur hwf)
    refine ⟨d'.map (fun e => (e.1, -e.2)), d.map (fun e => (e.1, -e.2)), ?_, ?_, ?_⟩
    · unfold negScores; rw [e1]
    · unfold negScores; rw [e2]
    · have : renVotes σ (d.map (fun e => (e.1, -e.2))) = (renVotes σ d).map (fun e => (e.1, -e.2)) := by
        unfold renVotes; rw [List.map_map, List.map_map]; rfl
      rw [this]
      exact hp.map _
  sub := fun cur S hwf => sim_subset_ren σ hσ cur S (items_nodup_of_wf hwf)

end

end VL.Perm.Bald

namespace VL.Perm
open VL VL.Convert VL.C10 VL.ShapeSeq

/-- **Baldwin: ballot-order independence** (`baldwin p n`, driver op `baldwin` of C08Seq).  On every well-formed ranked
    profile (no candidate twice on a ballot, no empty shared rank; shared ranks allowed), for every number of seats,
    presenting the same ballots in another order gives the same exception or an equivalent result: the same elected
    candidates, the same Tie as a set, the same number of seats carried by the Tie. -/
theorem baldwin_perm {p₁ p₂ : RProfile} (h : p₁.Perm p₂) (hwf : C08.RankedWF p₁) (n : Nat) :
    ExceptEquiv SlotsEquiv (baldwin p₁ n) (baldwin p₂ n) := by
  have := Bald.baldwin_sim Bald.sym_id (p' := p₂) (p := p₁) (Bald.sim_of_perm h.symm) hwf n
  rw [Bald.renSlot_id, List.map_id_fun] at this
  have hid : ∀ x : Except Err (List Slot), Except.map id x = x := by intro x; cases x <;> rfl
  rw [hid] at this
  exact Bald.exceptEquiv_symm this

/-- the stronger form: two presentations with the same CONTENT (the same ballots occur, with the same total weights —
    e.g. one of them lists a ballot twice with split weight) are evaluated alike -/
theorem baldwin_sameContent {p₁ p₂ : RProfile} (hk : ∀ b, b ∈ dkeys p₁ ↔ b ∈ dkeys p₂)
    (hw : ∀ g : Ballot → Rat, wsum p₁ g = wsum p₂ g) (hwf : C08.RankedWF p₁) (n : Nat) :
    ExceptEquiv SlotsEquiv (baldwin p₁ n) (baldwin p₂ n) := by
  have := Bald.baldwin_sim Bald.sym_id (p' := p₂) (p := p₁) (Bald.sim_symm ⟨hk, hw⟩) hwf n
  rw [Bald.renSlot_id, List.map_id_fun] at this
  have hid : ∀ x : Except Err (List Slot), Except.map id x = x := by intro x; cases x <;> rfl
  rw [hid] at this
  exact Bald.exceptEquiv_symm this

/-- **Baldwin: renaming equivariance**.  For every injective renaming of the candidates and every well-formed ranked
    profile (shared ranks allowed; the renamed shared ranks are re-canonicalised by `renRProfile`), the renamed profile
    is evaluated to the same exception or to the renamed result, up to the order of the elected and of the Tie members. -/
theorem baldwin_ren (σ : Cand → Cand) (hσ : Function.Injective σ) (p : RProfile) (hwf : C08.RankedWF p) (n : Nat) :
    ExceptEquiv SlotsEquiv (baldwin (renRProfile σ p) n) ((baldwin p n).map (List.map (renSlot σ))) :=
  Bald.baldwin_sim (Bald.sym_ren σ hσ) (Bald.sim_refl _) hwf n

/-! ### non-vacuity, and why list equality is too strong -/

/-- the hypotheses of `baldwin_perm` on a concrete profile; the two presentations list the MEMBERS OF THE TIE in different
    orders (`Tie` is a frozenset in Python: not observable), so list equality of the model results is false -/
theorem baldwin_perm_tie_order_witness :
    ([([.one 0, .one 1, .one 2], 1), ([.one 0, .one 2, .one 1], 1)] : RProfile).Perm
      [([.one 0, .one 2, .one 1], 1), ([.one 0, .one 1, .one 2], 1)] ∧
    C08.RankedWF [([.one 0, .one 1, .one 2], 1), ([.one 0, .one 2, .one 1], 1)] ∧
    baldwin [([.one 0, .one 1, .one 2], 1), ([.one 0, .one 2, .one 1], 1)] 2 = .ok [Slot.cand 0, Slot.tie [1, 2]] ∧
    baldwin [([.one 0, .one 2, .one 1], 1), ([.one 0, .one 1, .one 2], 1)] 2 = .ok [Slot.cand 0, Slot.tie [2, 1]] := by
  refine ⟨by decide, by unfold C08.RankedWF; decide, by decide +kernel, by decide +kernel⟩

/-- the order of the ELECTED depends on the ballot order too (equal final scores are listed in dict order): with
    ballots `0>{1,2}>3` (2 votes), `3>1>0`, `{2,3}>0` and three seats the winners come out as 3, 2, 0 or as 2, 3, 0 -/
theorem baldwin_perm_elected_order_witness :
    ([([.one 0, .shared [1, 2], .one 3], 2), ([.one 3, .one 1, .one 0], 1), ([.shared [2, 3], .one 0], 1)] : RProfile).Perm
      [([.shared [2, 3], .one 0], 1), ([.one 3, .one 1, .one 0], 1), ([.one 0, .shared [1, 2], .one 3], 2)] ∧
    C08.RankedWF [([.one 0, .shared [1, 2], .one 3], 2), ([.one 3, .one 1, .one 0], 1), ([.shared [2, 3], .one 0], 1)] ∧
    baldwin [([.one 0, .shared [1, 2], .one 3], 2), ([.one 3, .one 1, .one 0], 1), ([.shared [2, 3], .one 0], 1)] 3
      = .ok [Slot.cand 3, Slot.cand 2, Slot.cand 0] ∧
    baldwin [([.shared [2, 3], .one 0], 1), ([.one 3, .one 1, .one 0], 1), ([.one 0, .shared [1, 2], .one 3], 2)] 3
      = .ok [Slot.cand 2, Slot.cand 3, Slot.cand 0] := by
  refine ⟨by decide, by unfold C08.RankedWF; decide, by decide +kernel, by decide +kernel⟩

/-- renaming: with a shared rank the renamed profile lists the tied members in the canonical order of the NEW names, so
    the result is the renamed one only up to the order inside the Tie (σ = `10 - c`, injective on the candidates used;
    `baldwin_ren` needs global injectivity, e.g. the transposition-like map below) -/
theorem baldwin_ren_tie_order_witness :
    C08.RankedWF [([.shared [1, 2]], 1)] ∧
    baldwin (renRProfile (fun c => if c = 1 then 2 else if c = 2 then 1 else c) [([.shared [1, 2]], 1)]) 1
      = .ok [Slot.tie [1, 2]] ∧
    (baldwin [([.shared [1, 2]], 1)] 1).map (List.map (renSlot (fun c => if c = 1 then 2 else if c = 2 then 1 else c)))
      = .ok [Slot.tie [2, 1]] := by
  refine ⟨by unfold C08.RankedWF; decide, by decide +kernel, by decide +kernel⟩

/-- non-vacuity of `baldwin_ren`: the swap of 1 and 2 is injective and the profile is well-formed -/
example : Function.Injective (fun c : Cand => if c = 1 then 2 else if c = 2 then 1 else c) ∧
    C08.RankedWF [([.one 0, .shared [1, 2], .one 3], 2), ([.one 3, .one 1, .one 0], 1), ([.shared [2, 3], .one 0], 1)] := by
  refine ⟨?_, by unfold C08.RankedWF; decide⟩
  intro (a : Nat) (b : Nat) (h : (if a = 1 then 2 else if a = 2 then 1 else a) = (if b = 1 then 2 else if b = 2 then 1 else b))
  show a = b
  split_ifs at h <;> omega

end VL.Perm
