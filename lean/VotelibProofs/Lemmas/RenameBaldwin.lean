/-
  C10 — Baldwin under a renaming, profiles WITHOUT shared ranks: every step commutes exactly (list equality), because no
  step of the evaluator compares candidate names other than for equality.
-/
import VotelibProofs.Lemmas.PermBaldwin
namespace VL.Perm.Bald
open VL VL.Convert VL.C10 VL.ShapeSeq

/-- no place of the ballot is a shared rank -/
def NSB (b : Ballot) : Prop := ∀ it ∈ b, isShared it = false
/-- no ballot of the profile has a shared rank (`ranked_noshared` of the harness) -/
def NoShared (p : RProfile) : Prop := ∀ bw ∈ p, NSB bw.1

instance (b : Ballot) : Decidable (NSB b) := by unfold NSB; infer_instance
instance (p : RProfile) : Decidable (NoShared p) := by unfold NoShared; infer_instance

theorem eq_one_of_not_shared {it : RankItem} (h : isShared it = false) : ∃ c, it = .one c := by
  cases it with
  | one c => exact ⟨c, rfl⟩
  | shared cs => simp [isShared] at h

section
variable (σ : Cand → Cand) (hσ : Function.Injective σ)
include hσ

theorem renBallot_inj : ∀ (b₁ b₂ : Ballot), NSB b₁ → NSB b₂ → renBallot σ b₁ = renBallot σ b₂ → b₁ = b₂ := by
  intro b₁
  induction b₁ with
  | nil => intro b₂ _ _ h; cases b₂ with
    | nil => rfl
    | cons _ _ => simp [renBallot] at h
  | cons it rest ih =>
    intro b₂ h1 h2 h
    cases b₂ with
    | nil => simp [renBallot] at h
    | cons it' rest' =>
      simp only [renBallot, List.map_cons, List.cons.injEq] at h
      obtain ⟨c, rfl⟩ := eq_one_of_not_shared (h1 it (by simp))
      obtain ⟨c', rfl⟩ := eq_one_of_not_shared (h2 it' (by simp))
      simp only [renItem, RankItem.one.injEq] at h
      rw [hσ h.1, ih rest' (fun x hx => h1 x (by simp [hx])) (fun x hx => h2 x (by simp [hx])) h.2]

omit hσ in
theorem nsb_subset (S : List Cand) {b : Ballot} (h : NSB b) : NSB (subsetRankedOne S b) := by
  intro it' hit'
  rw [subsetRankedOne_eq, List.mem_filterMap] at hit'
  obtain ⟨it, hit, he⟩ := hit'
  obtain ⟨c, rfl⟩ := eq_one_of_not_shared (h it hit)
  simp only [subItem] at he
  split at he
  · cases he; rfl
  · cases he

omit hσ in
theorem noShared_rankedSubset {p : RProfile} (h : NoShared p) (S : List Cand) : NoShared (rankedSubset p S) := by
  intro bw hbw
  obtain ⟨bw0, hbw0, he⟩ := C08.mem_rankedSubset hbw
  rw [he]; exact nsb_subset S (h bw0 hbw0)

/-! ### `util.all_ranked_candidates` -/

omit hσ in
theorem maxLen_ren (p : RProfile) : maxLen (renRProfile σ p) = maxLen p := by
  unfold maxLen renRProfile
  rw [List.foldl_map]
  simp [renBallot]

omit hσ in
theorem rankingsAt_ren (i : Nat) (bw : Ballot × Rat) (h : NSB bw.1) :
    rankingsAt i (renBallot σ bw.1, bw.2) = (rankingsAt i bw).map (fun t => (σ t.1, t.2)) := by
  unfold rankingsAt
  simp only [renBallot, List.getElem?_map]
  cases hg : bw.1[i]? with
  | none => rfl
  | some it =>
    obtain ⟨c, rfl⟩ := eq_one_of_not_shared (h it (List.mem_of_getElem? hg))
    rfl

omit hσ in
theorem allRankings_ren (p : RProfile) (h : NoShared p) :
    allRankings (renRProfile σ p) = (allRankings p).map (fun t => (σ t.1, t.2)) := by
  unfold allRankings
  rw [maxLen_ren, List.map_flatMap]
  congr 1
  funext i
  have : ∀ q : RProfile, NoShared q →
      (renRProfile σ q).flatMap (rankingsAt i) = (q.flatMap (rankingsAt i)).map (fun t => (σ t.1, t.2)) := by
    intro q
    induction q with
    | nil => intro _; rfl
    | cons bw t ih =>
      intro hq
      have e : renRProfile σ (bw :: t) = (renBallot σ bw.1, bw.2) :: renRProfile σ t := rfl
      rw [e, List.flatMap_cons, List.flatMap_cons, List.map_append, rankingsAt_ren σ i bw (hq bw (by simp)),
        ih (fun x hx => hq x (by simp [hx]))]
  exact this p h

theorem allRankedCandidates_ren_exact (p : RProfile) (h : NoShared p) :
    allRankedCandidates (renRProfile σ p) = (allRankedCandidates p).map σ := by
  unfold allRankedCandidates
  rw [allRankings_ren σ p h]
  have : ∀ (l : List (Cand × Nat × Rat)) (out : List Cand),
      (l.map (fun t => (σ t.1, t.2))).foldl (fun out t => if t.1 ∈ out then out else out ++ [t.1]) (out.map σ)
        = (l.foldl (fun out t => if t.1 ∈ out then out else out ++ [t.1]) out).map σ := by
    intro l
    induction l with
    | nil => intro out; rfl
    | cons t rest ih =>
      intro out
      simp only [List.map_cons, List.foldl_cons, List.mem_map_of_injective hσ]
      by_cases hm : t.1 ∈ out
      · rw [if_pos hm, if_pos hm]; exact ih out
      · rw [if_neg hm, if_neg hm]
        have := ih (out ++ [t.1])
        rw [List.map_append] at this
        exact this
  exact this _ []

/-! ### `RankedToPositionalVotes` -/

theorem addExisting_ren (agg : Dict Cand) (k : Cand) (v : Rat) :
    addExisting (renVotes σ agg) (σ k) v = (addExisting agg k v).map (renVotes σ) := by
  induction agg with
  | nil => rfl
  | cons e t ih =>
    obtain ⟨k', v'⟩ := e
    have e1 : renVotes σ ((k', v') :: t) = (σ k', v') :: renVotes σ t := rfl
    rw [e1]
    simp only [addExisting]
    by_cases hk : k' = k
    · subst hk; rw [if_pos rfl, if_pos rfl]; rfl
    · have : σ k' ≠ σ k := fun e => hk (hσ e)
      rw [if_neg hk, if_neg this, ih]
      cases addExisting t k v <;> rfl

theorem positionalBallot_ren (scores : List Rat) (w : Rat) : ∀ (b : Ballot) (r : Nat) (agg : Dict Cand), NSB b →
    positionalBallot scores w r (renBallot σ b) (renVotes σ agg) = (positionalBallot scores w r b agg).map (renVotes σ) := by
  intro b
  induction b with
  | nil => intro r agg _; rfl
  | cons it rest ih =>
    intro r agg hb
    obtain ⟨c, rfl⟩ := eq_one_of_not_shared (hb it (by simp))
    have e1 : renBallot σ (RankItem.one c :: rest) = RankItem.one (σ c) :: renBallot σ rest := rfl
    rw [e1]
    simp only [positionalBallot]
    cases hs : scores[r]? with
    | none => rfl
    | some s =>
      simp only [RankItem.cands, List.foldlM_cons, List.foldlM_nil]
      rw [addExisting_ren σ hσ]
      cases addExisting agg c (s * w) with
      | error e => rfl
      | ok agg' =>
        exact ih (r + 1) agg' (fun x hx => hb x (by simp [hx]))

theorem positionalU_ren (sc : Scorer) (U : List Cand) (p : RProfile) (h : NoShared p) :
    positionalU sc (U.map σ) (renRProfile σ p) = (positionalU sc U p).map (renVotes σ) := by
  rw [positionalU_def, positionalU_def]
  have init : (U.map σ).map (fun c => (c, (0 : Rat))) = renVotes σ (U.map (fun c => (c, (0 : Rat)))) := by
    unfold renVotes; rw [List.map_map, List.map_map]; rfl
  rw [init, List.length_map]
  have key : ∀ (q : RProfile) (agg : Dict Cand), NoShared q →
      (renRProfile σ q).foldlM (positionalStep sc U.length) (renVotes σ agg)
      = (q.foldlM (positionalStep sc U.length) agg).map (renVotes σ) := by
    intro q
    induction q with
    | nil => intro agg _; rfl
    | cons bw t ih =>
      intro agg hq
      have e : renRProfile σ (bw :: t) = (renBallot σ bw.1, bw.2) :: renRProfile σ t := rfl
      rw [e, List.foldlM_cons, List.foldlM_cons]
      have hl : (renBallot σ bw.1).length = bw.1.length := by simp [renBallot]
      have hstep : positionalStep sc U.length (renVotes σ agg) (renBallot σ bw.1, bw.2)
          = (positionalStep sc U.length agg bw).map (renVotes σ) := by
        unfold positionalStep
        simp only [hl]
        cases sc.scores U.length bw.1.length with
        | error e => rfl
        | ok scores => exact positionalBallot_ren σ hσ scores bw.2 bw.1 0 agg (hq bw (by simp))
      rw [hstep]
      cases positionalStep sc U.length agg bw with
      | error e => rfl
      | ok agg' => exact ih agg' (fun x hx => hq x (by simp [hx]))
  rw [key p _ h]
  cases List.foldlM (positionalStep sc U.length) (U.map (fun c => (c, (0 : Rat)))) p with
  | error e => rfl
  | ok agg => simp only [Except.map]; rw [sortDesc_ren]

theorem negScores_ren_exact (p : RProfile) (h : NoShared p) :
    negScores (renRProfile σ p) = (negScores p).map (renVotes σ) := by
  unfold negScores rankedToPositional
  rw [allRankedCandidates_ren_exact σ hσ p h, positionalU_ren σ hσ _ _ p h]
  cases positionalU (.borda 0) (allRankedCandidates p) p with
  | error e => rfl
  | ok d =>
    simp only [Except.map]
    congr 1
    unfold renVotes; rw [List.map_map, List.map_map]; rfl

/-! ### `RANKED_SUBSETTER.convert` -/

theorem addTo_ren (acc : RProfile) (k : Ballot) (v : Rat) (hacc : ∀ k' ∈ dkeys acc, NSB k') (hk : NSB k) :
    addTo (renRProfile σ acc) (renBallot σ k) v = renRProfile σ (addTo acc k v) := by
  induction acc with
  | nil => rfl
  | cons e t ih =>
    obtain ⟨k', v'⟩ := e
    have e1 : renRProfile σ ((k', v') :: t) = (renBallot σ k', v') :: renRProfile σ t := rfl
    rw [e1]
    simp only [addTo]
    by_cases h : k' = k
    · subst h; rw [if_pos rfl, if_pos rfl]; rfl
    · have : renBallot σ k' ≠ renBallot σ k := fun e => h (renBallot_inj σ hσ k' k (hacc k' (by simp [dkeys])) hk e)
      rw [if_neg h, if_neg this, ih (fun x hx => hacc x (by simp only [dkeys, List.map_cons, List.mem_cons] at hx ⊢; exact Or.inr hx))]
      rfl

theorem rankedSubset_ren_exact (cur : RProfile) (S : List Cand) (h : NoShared cur) :
    rankedSubset (renRProfile σ cur) (S.map σ) = renRProfile σ (rankedSubset cur S) := by
  unfold rankedSubset subsetted
  have key : ∀ (q acc : RProfile), NoShared q → (∀ k' ∈ dkeys acc, NSB k') →
      (renRProfile σ q).foldl (fun acc bw => match subsetRanked (S.map σ) bw.1 with
        | none => acc
        | some k => addTo acc k bw.2) (renRProfile σ acc)
      = renRProfile σ (q.foldl (fun acc bw => match subsetRanked S bw.1 with
        | none => acc
        | some k => addTo acc k bw.2) acc) := by
    intro q
    induction q with
    | nil => intro acc _ _; rfl
    | cons bw t ih =>
      intro acc hq hacc
      have e : renRProfile σ (bw :: t) = (renBallot σ bw.1, bw.2) :: renRProfile σ t := rfl
      rw [e, List.foldl_cons, List.foldl_cons]
      simp only [subsetRanked]
      have hb := hq bw (by simp)
      have hitems : ∀ it ∈ bw.1, it.cands.Nodup := by
        intro it hit
        obtain ⟨c, rfl⟩ := eq_one_of_not_shared (hb it hit)
        simp [RankItem.cands]
      rw [subsetRankedOne_ren σ hσ S bw.1 hitems, addTo_ren σ hσ acc _ bw.2 hacc (nsb_subset S hb)]
      apply ih _ (fun x hx => hq x (by simp [hx]))
      intro k' hk'
      rcases (mem_dkeys_addTo acc _ _ k').mp hk' with h' | h'
      · exact hacc k' h'
      · rw [h']; exact nsb_subset S hb
  exact key cur [] h (by simp [dkeys])

/-! ### the loop -/

/-- one round of the loop over an arbitrary continuation -/
def stepF (n : Nat) (rec : RProfile → Votes → Except Err (List Slot)) (cur : RProfile) (neg : Votes) :
    Except Err (List Slot) :=
  if neg.length > n then
    match getNBest neg 1 with
    | [] => .error (.other "IndexError")
    | Slot.tie T :: _ =>
      let remaining := (keys neg).filter (fun c => c ∉ T)
      let nRem := neg.length - T.length
      if nRem < n then
        let nTies := n - nRem
        match negScores (rankedSubset cur remaining) with
        | .ok rs => .ok (getNBest rs (n - nTies) ++ List.replicate nTies (Slot.tie T))
        | .error e => .error e
      else
        let cur' := rankedSubset cur remaining
        match negScores cur' with
        | .ok neg' => rec cur' neg'
        | .error e => .error e
    | Slot.cand c :: _ =>
      let remaining := (keys neg).filter (fun x => x ≠ c)
      let cur' := rankedSubset cur remaining
      match negScores cur' with
      | .ok neg' => rec cur' neg'
      | .error e => .error e
  else .ok (getNBest neg n)

omit hσ in
theorem loop_succ (n f : Nat) (cur : RProfile) (neg : Votes) :
    baldwinLoop n (f + 1) cur neg = stepF n (baldwinLoop n f) cur neg := by
  rw [baldwinLoop]; rfl

theorem filter_ne_ren (l : List Cand) (c : Cand) :
    (l.map σ).filter (fun x => x ≠ σ c) = (l.filter (fun x => x ≠ c)).map σ := by
  rw [List.filter_map]
  congr 1
  apply List.filter_congr
  intro x _
  simp only [Function.comp, ne_eq, decide_not, hσ.eq_iff]

theorem filter_notMem_ren (l T : List Cand) :
    (l.map σ).filter (fun x => x ∉ T.map σ) = (l.filter (fun x => x ∉ T)).map σ := by
  rw [List.filter_map]
  congr 1
  apply List.filter_congr
  intro x _
  simp only [Function.comp, List.mem_map_of_injective hσ]

theorem stepF_ren (n : Nat) (rec' rec : RProfile → Votes → Except Err (List Slot))
    (hrec : ∀ c v, NoShared c → rec' (renRProfile σ c) (renVotes σ v) = (rec c v).map (List.map (renSlot σ)))
    (cur : RProfile) (neg : Votes) (h : NoShared cur) :
    stepF n rec' (renRProfile σ cur) (renVotes σ neg) = (stepF n rec cur neg).map (List.map (renSlot σ)) := by
  unfold stepF
  have hlen : (renVotes σ neg).length = neg.length := by simp [renVotes]
  rw [hlen, getNBest_rename, getNBest_rename, keys_renVotes]
  by_cases hgt : neg.length > n
  · rw [if_pos hgt, if_pos hgt]
    cases hb : getNBest neg 1 with
    | nil => rfl
    | cons s rest =>
      cases s with
      | cand c =>
        simp only [List.map_cons, renSlot]
        rw [filter_ne_ren σ hσ, rankedSubset_ren_exact σ hσ _ _ h,
          negScores_ren_exact σ hσ _ (noShared_rankedSubset h _)]
        cases negScores (rankedSubset cur ((keys neg).filter (fun x => x ≠ c))) with
        | error e => rfl
        | ok neg' => exact hrec _ _ (noShared_rankedSubset h _)
      | tie T =>
        simp only [List.map_cons, renSlot, List.length_map]
        rw [filter_notMem_ren σ hσ, rankedSubset_ren_exact σ hσ _ _ h,
          negScores_ren_exact σ hσ _ (noShared_rankedSubset h _)]
        by_cases hr : neg.length - T.length < n
        · rw [if_pos hr, if_pos hr]
          cases negScores (rankedSubset cur ((keys neg).filter (fun x => x ∉ T))) with
          | error e => rfl
          | ok rs =>
            simp only [Except.map, getNBest_rename, List.map_append, List.map_replicate, renSlot]
        · rw [if_neg hr, if_neg hr]
          cases negScores (rankedSubset cur ((keys neg).filter (fun x => x ∉ T))) with
          | error e => rfl
          | ok neg' => exact hrec _ _ (noShared_rankedSubset h _)
  · rw [if_neg hgt, if_neg hgt]; rfl

theorem loop_ren_exact (n : Nat) : ∀ (f : Nat) (cur : RProfile) (neg : Votes), NoShared cur →
    baldwinLoop n f (renRProfile σ cur) (renVotes σ neg) = (baldwinLoop n f cur neg).map (List.map (renSlot σ)) := by
  intro f
  induction f with
  | zero => intro _ _ _; rfl
  | succ f ih =>
    intro cur neg h
    rw [loop_succ, loop_succ]
    exact stepF_ren σ hσ n _ _ ih cur neg h

end
end VL.Perm.Bald

namespace VL.Perm
open VL VL.Convert VL.C10 VL.ShapeSeq

/-- **Baldwin: exact renaming equivariance on profiles without shared ranks** (the harness family `ranked_noshared`):
    for every injective renaming the model's answer on the renamed profile IS the renamed answer — the same exception, or
    the same list with every candidate and every Tie member renamed in place.  No other hypothesis (ballots may even
    repeat a candidate: the refusals commute too). -/
theorem baldwin_ren_noshared (σ : Cand → Cand) (hσ : Function.Injective σ) (p : RProfile) (h : Bald.NoShared p) (n : Nat) :
    baldwin (renRProfile σ p) n = (baldwin p n).map (List.map (renSlot σ)) := by
  unfold baldwin
  rw [Bald.negScores_ren_exact σ hσ p h]
  cases negScores p with
  | error e => rfl
  | ok neg =>
    simp only [Except.map]
    have hlen : (renVotes σ neg).length = neg.length := by simp [renVotes]
    rw [hlen]
    exact Bald.loop_ren_exact σ hσ n _ p neg h

example : Bald.NoShared [([.one 0, .one 1, .one 2], 1), ([.one 0, .one 2, .one 1], 1)] := by
  unfold Bald.NoShared Bald.NSB; decide

end VL.Perm
