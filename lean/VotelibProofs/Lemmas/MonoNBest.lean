/-
  C17 helper lemmas: when `get_n_best(votes, 1)` is a single candidate, and the generic additive
  monotonicity argument.
-/
import VotelibProofs.Lemmas.NBest
import VotelibProofs.Lemmas.ConvertSum
namespace VL.Mono
open VL VL.Convert

/-- `w` holds the strictly largest value of the dict -/
def SoleMax (d : Votes) (w : Cand) : Prop := ∃ x, (w, x) ∈ d ∧ ∀ e ∈ d, e.1 ≠ w → e.2 < x

theorem desc_head_ge {h : Cand × Rat} {t : Votes} (hd : Desc (h :: t)) : ∀ e ∈ t, e.2 ≤ h.2 := by
  intro e he
  exact (List.pairwise_cons.mp hd).1 e he

/-- shape of the one-seat result in terms of the sorted list -/
theorem getNBest_one_cases (d : Votes) :
    (sortDesc d = [] ∧ getNBest d 1 = []) ∨
    (∃ a, sortDesc d = [a] ∧ getNBest d 1 = [Slot.cand a.1]) ∨
    (∃ a b t, sortDesc d = a :: b :: t ∧ b.2 = a.2 ∧ ∃ T, getNBest d 1 = [Slot.tie T]) ∨
    (∃ a b t, sortDesc d = a :: b :: t ∧ b.2 ≠ a.2 ∧ getNBest d 1 = [Slot.cand a.1]) := by
  unfold getNBest
  cases hs : sortDesc d with
  | nil => left; simp
  | cons a t =>
    cases t with
    | nil => right; left; exact ⟨a, rfl, by simp⟩
    | cons b t =>
      by_cases hb : b.2 = a.2
      · right; right; left
        refine ⟨a, b, t, rfl, hb, ?_⟩
        simp only [List.length_cons, gt_iff_lt, Nat.lt_add_left_iff_pos, Nat.zero_lt_succ, ↓reduceIte, Nat.sub_self,
          List.getElem?_cons_zero, List.getElem?_cons_succ, hb]
        simp
      · right; right; right
        refine ⟨a, b, t, rfl, hb, ?_⟩
        simp only [List.length_cons, gt_iff_lt, Nat.lt_add_left_iff_pos, Nat.zero_lt_succ, ↓reduceIte, Nat.sub_self,
          List.getElem?_cons_zero, List.getElem?_cons_succ, hb]
        simp

theorem keys_perm {d d' : Votes} (h : d.Perm d') : (keys d).Perm (keys d') := h.map _

/-- **Sole winner.**  For a dict (distinct keys) the one-seat result is the single candidate `w` exactly when `w`
    holds the strictly largest value. -/
theorem sole_iff (d : Votes) (hn : (keys d).Nodup) (w : Cand) :
    getNBest d 1 = [Slot.cand w] ↔ SoleMax d w := by
  have hperm := sortDesc_perm d
  have hdesc := sortDesc_desc d
  have hns : (keys (sortDesc d)).Nodup := (keys_perm hperm).nodup_iff.mpr hn
  constructor
  · intro h
    rcases getNBest_one_cases d with ⟨_, h0⟩ | ⟨a, hs, h1⟩ | ⟨a, b, t, hs, _, T, h2⟩ | ⟨a, b, t, hs, hne, h3⟩
    · rw [h0] at h; simp at h
    · rw [h1] at h
      have hw : a.1 = w := by simpa using h
      refine ⟨a.2, ?_, ?_⟩
      · rw [← hw]; exact hperm.mem_iff.mp (by rw [hs]; simp)
      · intro e he hew
        have : e ∈ sortDesc d := hperm.mem_iff.mpr he
        rw [hs] at this
        simp only [List.mem_singleton] at this
        exact absurd (by rw [this, hw]) hew
    · rw [h2] at h; simp at h
    · rw [h3] at h
      have hw : a.1 = w := by simpa using h
      rw [hs] at hdesc hns
      have hge := desc_head_ge hdesc
      have hba : b.2 < a.2 := lt_of_le_of_ne (hge b (by simp)) hne
      refine ⟨a.2, ?_, ?_⟩
      · rw [← hw]; exact hperm.mem_iff.mp (by rw [hs]; simp)
      · intro e he hew
        have hmem : e ∈ a :: b :: t := by rw [← hs]; exact hperm.mem_iff.mpr he
        rcases List.mem_cons.mp hmem with rfl | hmem
        · exact absurd hw hew
        · rcases List.mem_cons.mp hmem with rfl | hmem
          · exact hba
          · have hdt : Desc (b :: t) := (List.pairwise_cons.mp hdesc).2
            exact lt_of_le_of_lt (desc_head_ge hdt e hmem) hba
  · rintro ⟨x, hwx, hlt⟩
    have hwx' : (w, x) ∈ sortDesc d := hperm.mem_iff.mpr hwx
    -- the head of the sorted list is (w, x)
    have hhead : ∀ a t, sortDesc d = a :: t → a = (w, x) ∧ ∀ e ∈ t, e.2 < x := by
      intro a t hs
      rw [hs] at hdesc hns hwx'
      have hge := desc_head_ge hdesc
      have ha : a.1 = w := by
        by_contra hne
        have h1 : a.2 < x := hlt a (hperm.mem_iff.mp (by rw [hs]; simp)) hne
        rcases List.mem_cons.mp hwx' with h2 | h2
        · rw [← h2] at hne; exact hne rfl
        · have := hge _ h2
          simp only at this
          exact absurd (lt_of_le_of_lt this h1) (lt_irrefl _)
      have hnd : a.1 ∉ keys t := (List.nodup_cons.mp (by simpa [keys] using hns)).1
      have hax : a = (w, x) := by
        rcases List.mem_cons.mp hwx' with h2 | h2
        · exact h2.symm
        · exfalso; apply hnd; rw [ha]; exact List.mem_map.mpr ⟨(w, x), h2, rfl⟩
      refine ⟨hax, fun e he => ?_⟩
      apply hlt e (hperm.mem_iff.mp (by rw [hs]; simp [he]))
      intro hew
      apply hnd; rw [ha, ← hew]; exact List.mem_map.mpr ⟨e, he, rfl⟩
    rcases getNBest_one_cases d with ⟨hs, _⟩ | ⟨a, hs, h1⟩ | ⟨a, b, t, hs, heq, _⟩ | ⟨a, b, t, hs, _, h3⟩
    · rw [hs] at hwx'; simp at hwx'
    · rw [h1, (hhead a [] hs).1]
    · exfalso
      obtain ⟨ha, ht⟩ := hhead a (b :: t) hs
      have := ht b (by simp)
      rw [heq, ha] at this
      exact lt_irrefl _ this
    · rw [h3, (hhead a (b :: t) hs).1]

/-- for a dict, the entry of `c` carries `toFun d c` -/
theorem mem_iff_toFun {d : Votes} (hn : (keys d).Nodup) {c : Cand} {x : Rat} (hc : c ∈ keys d) :
    (c, x) ∈ d ↔ toFun d c = x := by
  obtain ⟨e, he, rfl⟩ := List.mem_map.mp hc
  have h1 : toFun d e.1 = e.2 := toFun_eq_of_mem (by simpa [dkeys, keys] using hn) he
  constructor
  · intro h
    exact toFun_eq_of_mem (by simpa [dkeys, keys] using hn) h
  · intro h
    rw [h1] at h
    rw [← h]; exact he

theorem soleMax_iff (d : Votes) (hn : (keys d).Nodup) (w : Cand) :
    SoleMax d w ↔ w ∈ keys d ∧ ∀ c ∈ keys d, c ≠ w → toFun d c < toFun d w := by
  constructor
  · rintro ⟨x, hwx, hlt⟩
    have hw : w ∈ keys d := List.mem_map.mpr ⟨(w, x), hwx, rfl⟩
    have hx : toFun d w = x := (mem_iff_toFun hn hw).mp hwx
    refine ⟨hw, fun c hc hcw => ?_⟩
    obtain ⟨e, he, rfl⟩ := List.mem_map.mp hc
    have := hlt e he hcw
    rw [hx, (mem_iff_toFun hn hc).mp (show (e.1, e.2) ∈ d from he)]
    exact this
  · rintro ⟨hw, hlt⟩
    refine ⟨toFun d w, (mem_iff_toFun hn hw).mpr rfl, fun e he hew => ?_⟩
    have hc : e.1 ∈ keys d := List.mem_map.mpr ⟨e, he, rfl⟩
    have := hlt e.1 hc hew
    rwa [(mem_iff_toFun hn hc).mp (show (e.1, e.2) ∈ d from he)] at this

/-- **Generic additive monotonicity.**  Two score dictionaries over the same candidates (no new keys); the change
    raises `w`'s score by at least as much as anybody else's.  A strict sole winner stays the strict sole winner. -/
theorem additive_sole (d d' : Votes) (hn : (keys d).Nodup) (hn' : (keys d').Nodup) (w : Cand)
    (hsub : ∀ c ∈ keys d', c ∈ keys d) (hw : w ∈ keys d')
    (hdelta : ∀ c ∈ keys d', c ≠ w → toFun d' c - toFun d c ≤ toFun d' w - toFun d w)
    (h : getNBest d 1 = [Slot.cand w]) : getNBest d' 1 = [Slot.cand w] := by
  rw [sole_iff d hn, soleMax_iff d hn] at h
  rw [sole_iff d' hn', soleMax_iff d' hn']
  refine ⟨hw, fun c hc hcw => ?_⟩
  have h1 := h.2 c (hsub c hc) hcw
  have h2 := hdelta c hc hcw
  linarith

end VL.Mono
