/-
  Basic facts about pairwise dictionaries: `pget`, `uniq`/`candidates`, `pairwise_wins`, `defaultdict`
  increments, well-formedness.
-/
import VotelibModel.Condorcet
import VotelibProofs.Lemmas.Sort
namespace VL.Condorcet
open VL

/-! ### `uniq` and `candidates` -/

theorem mem_uniq {l : List Cand} {c : Cand} : c ∈ uniq l ↔ c ∈ l := by
  induction l with
  | nil => simp [uniq]
  | cons x xs ih =>
    simp only [uniq, List.mem_cons, List.mem_filter, bne_iff_ne, ne_eq, ih]
    by_cases h : c = x <;> simp [h]

theorem nodup_uniq (l : List Cand) : (uniq l).Nodup := by
  induction l with
  | nil => simp [uniq]
  | cons x xs ih =>
    simp only [uniq, List.nodup_cons, List.mem_filter, bne_iff_ne, ne_eq, not_true_eq_false, and_false,
      not_false_eq_true, true_and]
    exact ih.filter _

theorem nodup_candidates (v : Pairwise) : (candidates v).Nodup := nodup_uniq _

theorem mem_candidates {v : Pairwise} {c : Cand} :
    c ∈ candidates v ↔ ∃ e ∈ v, c = e.1.1 ∨ c = e.1.2 := by
  simp [candidates, mem_uniq, flatCands, List.mem_flatMap]

theorem fst_mem_candidates {v : Pairwise} {e : Pair × Rat} (h : e ∈ v) : e.1.1 ∈ candidates v :=
  mem_candidates.2 ⟨e, h, Or.inl rfl⟩

theorem snd_mem_candidates {v : Pairwise} {e : Pair × Rat} (h : e ∈ v) : e.1.2 ∈ candidates v :=
  mem_candidates.2 ⟨e, h, Or.inr rfl⟩

/-! ### well-formed dictionaries and `pget` -/

/-- a well-formed pairwise dictionary: keys are distinct (it is a `dict`), nobody is paired with
    himself, counts are non-negative -/
def WF (v : Pairwise) : Prop :=
  (v.map (·.1)).Nodup ∧ (∀ e ∈ v, e.1.1 ≠ e.1.2) ∧ (∀ e ∈ v, 0 ≤ e.2)

instance (v : Pairwise) : Decidable (WF v) := by unfold WF; infer_instance

theorem pget_of_mem {v : Pairwise} (hk : (v.map (·.1)).Nodup) {p : Pair} {x : Rat} (h : (p, x) ∈ v) :
    pget v p = x := by
  induction v with
  | nil => simp at h
  | cons e es ih =>
    simp only [List.map_cons, List.nodup_cons] at hk
    rcases List.mem_cons.1 h with rfl | h'
    · simp [pget, List.find?]
    · have hne : e.1 ≠ p := by
        intro he
        exact hk.1 (List.mem_map.2 ⟨(p, x), h', he.symm⟩)
      have := ih hk.2 h'
      simp only [pget, List.find?, hne] at this ⊢
      simpa using this

theorem pget_of_not_mem {v : Pairwise} {p : Pair} (h : p ∉ v.map (·.1)) : pget v p = 0 := by
  have : v.find? (fun e => e.1 = p) = none := by
    rw [List.find?_eq_none]
    intro e he hd
    simp only [decide_eq_true_eq] at hd
    exact h (List.mem_map.2 ⟨e, he, hd⟩)
  simp [pget, this]

theorem pget_mem_or_zero (v : Pairwise) (p : Pair) : (p, pget v p) ∈ v ∨ (p ∉ v.map (·.1) ∧ pget v p = 0) := by
  by_cases h : p ∈ v.map (·.1)
  · left
    cases hf : v.find? (fun e => e.1 = p) with
    | none =>
      rw [List.find?_eq_none] at hf
      obtain ⟨e, he, hp⟩ := List.mem_map.1 h
      exact absurd (by simpa using hp) (hf e he)
    | some e =>
      have h1 := List.mem_of_find?_eq_some hf
      have h2 := List.find?_some hf
      simp only [decide_eq_true_eq] at h2
      have : pget v p = e.2 := by simp [pget, hf]
      rw [this, ← h2]
      exact h1
  · exact Or.inr ⟨h, pget_of_not_mem h⟩

theorem pget_nonneg {v : Pairwise} (hwf : WF v) (p : Pair) : 0 ≤ pget v p := by
  rcases pget_mem_or_zero v p with h | ⟨_, h⟩
  · exact hwf.2.2 _ h
  · rw [h]

theorem pget_pos_mem {v : Pairwise} {p : Pair} (h : 0 < pget v p) : (p, pget v p) ∈ v := by
  rcases pget_mem_or_zero v p with h' | ⟨_, h'⟩
  · exact h'
  · rw [h'] at h; exact absurd h (lt_irrefl _)

/-! ### `pairwise_wins` -/

/-- `x` beats `y`: more voters rank `x` over `y` than `y` over `x` (absent pair = 0) -/
def Beats (v : Pairwise) (x y : Cand) : Prop := pget v (y, x) < pget v (x, y)

instance (v : Pairwise) (x y : Cand) : Decidable (Beats v x y) := by unfold Beats; infer_instance

theorem mem_pairwiseWins {v : Pairwise} (hwf : WF v) {x y : Cand} :
    (x, y) ∈ pairwiseWins v false ↔ Beats v x y := by
  simp only [pairwiseWins, Bool.false_and, Bool.or_false, List.mem_map, List.mem_filter, decide_eq_true_eq]
  constructor
  · rintro ⟨e, ⟨he, hlt⟩, hp⟩
    obtain ⟨p, c⟩ := e
    simp only at hp
    subst hp
    have := pget_of_mem hwf.1 he
    simp only [Beats, this]
    exact hlt
  · intro hb
    have hpos : 0 < pget v (x, y) := lt_of_le_of_lt (pget_nonneg hwf _) hb
    exact ⟨((x, y), pget v (x, y)), ⟨pget_pos_mem hpos, hb⟩, rfl⟩

theorem nodup_pairwiseWins {v : Pairwise} (hwf : WF v) (t : Bool) : (pairwiseWins v t).Nodup := by
  unfold pairwiseWins
  exact (hwf.1.sublist (List.Sublist.map _ List.filter_sublist))

theorem Beats.ne {v : Pairwise} {x y : Cand} (h : Beats v x y) : x ≠ y := by
  rintro rfl; exact lt_irrefl _ h

theorem Beats.asymm {v : Pairwise} {x y : Cand} (h : Beats v x y) : ¬ Beats v y x := fun h' => lt_asymm h h'

theorem Beats.mem {v : Pairwise} (hwf : WF v) {x y : Cand} (h : Beats v x y) :
    x ∈ candidates v ∧ y ∈ candidates v := by
  have hpos : 0 < pget v (x, y) := lt_of_le_of_lt (pget_nonneg hwf _) h
  have := pget_pos_mem hpos
  exact ⟨fst_mem_candidates this, snd_mem_candidates this⟩

/-! ### `defaultdict(int)` increments -/

theorem lookup_cons (a : Cand) (y : Rat) (es : Votes) (c : Cand) :
    lookup ((a, y) :: es) c = if a = c then some y else lookup es c := by
  by_cases h : a = c
  · simp [lookup, List.find?, h]
  · simp [lookup, List.find?, h]

theorem lookup_nil (c : Cand) : lookup [] c = none := rfl

theorem lookup_incr (d : Votes) (c : Cand) (k : Rat) (c' : Cand) :
    lookup (incr d c k) c' = if c' = c then some ((lookup d c).getD 0 + k) else lookup d c' := by
  induction d with
  | nil =>
    by_cases h : c' = c
    · subst h; simp [incr, lookup_cons, lookup_nil]
    · have : ¬ c = c' := fun h' => h h'.symm
      simp [incr, lookup_cons, lookup_nil, h, this]
  | cons e es ih =>
    obtain ⟨a, x⟩ := e
    by_cases ha : a = c
    · subst ha
      by_cases h : c' = a
      · subst h; simp [incr, lookup_cons]
      · have : ¬ a = c' := fun h' => h h'.symm
        simp [incr, lookup_cons, h, this]
    · simp only [incr, ha, if_false, lookup_cons, ih]
      by_cases h : c' = c
      · subst h; simp [ha]
      · simp [h]

theorem keys_incr (d : Votes) (c : Cand) (k : Rat) :
    keys (incr d c k) = if c ∈ keys d then keys d else keys d ++ [c] := by
  induction d with
  | nil => simp [incr, keys]
  | cons e es ih =>
    obtain ⟨a, x⟩ := e
    by_cases ha : a = c
    · subst ha; simp [incr, keys]
    · have hca : ¬ c = a := fun h => ha h.symm
      simp only [keys] at ih
      simp only [incr, ha, if_false, keys, List.map_cons, List.mem_cons, hca, false_or, ih]
      by_cases hc : c ∈ List.map (fun x => x.1) es
      · simp [hc]
      · simp [hc]

theorem nodup_keys_incr {d : Votes} (h : (keys d).Nodup) (c : Cand) (k : Rat) : (keys (incr d c k)).Nodup := by
  rw [keys_incr]
  split
  · exact h
  · rename_i hc
    rw [List.nodup_append]
    refine ⟨h, by simp, ?_⟩
    intro a ha b hb
    simp only [List.mem_singleton] at hb
    subst hb
    rintro rfl
    exact hc ha

theorem mem_iff_lookup {d : Votes} (h : (keys d).Nodup) {c : Cand} {x : Rat} :
    (c, x) ∈ d ↔ lookup d c = some x := by
  induction d with
  | nil => simp [lookup_nil]
  | cons e es ih =>
    obtain ⟨a, y⟩ := e
    simp only [keys, List.map_cons, List.nodup_cons] at h
    rw [lookup_cons]
    by_cases ha : a = c
    · subst ha
      simp only [List.mem_cons, Prod.mk.injEq, true_and, if_true, Option.some.injEq]
      constructor
      · rintro (h1 | h1)
        · exact h1.symm
        · exact absurd (List.mem_map.2 ⟨(a, x), h1, rfl⟩) h.1
      · intro h1; exact Or.inl h1.symm
    · have ih' := ih h.2
      simp only [List.mem_cons, Prod.mk.injEq, ha, if_false]
      rw [← ih']
      constructor
      · rintro (⟨h1, _⟩ | h1)
        · exact absurd h1.symm ha
        · exact h1
      · exact fun h1 => Or.inr h1

end VL.Condorcet
