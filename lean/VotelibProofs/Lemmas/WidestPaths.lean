/-
  `Schulze.widest_paths` computes, for two distinct candidates, the maximum over all chains of pairwise
  wins of the minimum win strength on the chain (Floyd-Warshall for the max-min semiring).
-/
import VotelibProofs.Lemmas.Hybrids
namespace VL.Condorcet
open VL

theorem rmax_eq_max (a b : Rat) : rmax a b = max a b := by
  unfold rmax; split
  · exact (max_eq_right (le_of_lt ‹_›)).symm
  · exact (max_eq_left (not_lt.1 ‹_›)).symm

theorem rmin_eq_min (a b : Rat) : rmin a b = min a b := by
  unfold rmin; split
  · exact (min_eq_right (le_of_lt ‹_›)).symm
  · exact (min_eq_left (not_lt.1 ‹_›)).symm

/-! ### one phase of the loop nest, exactly -/

/-- the innermost loop (fixed `c1 ≠ c2`) over the candidates `l` -/
theorem pget_wpInner {c1 c2 : Cand} (h12 : c1 ≠ c2) (l : List Cand) (hl : l.Nodup) (p3 : Pairwise) (a b : Cand) :
    pget (l.foldl (wpStep c1 c2) p3) (a, b) =
      if a = c2 ∧ b ∈ l ∧ b ≠ c1 ∧ b ≠ c2 then
        max (pget p3 (c2, b)) (min (pget p3 (c2, c1)) (pget p3 (c1, b)))
      else pget p3 (a, b) := by
  induction l generalizing p3 with
  | nil => simp
  | cons x xs ih =>
    rw [List.nodup_cons] at hl
    rw [List.foldl_cons, ih hl.2]
    by_cases hx : (x != c1 && x != c2) = true
    · have hstep : wpStep c1 c2 p3 x =
          pset p3 (c2, x) (rmax (pget p3 (c2, x)) (rmin (pget p3 (c2, c1)) (pget p3 (c1, x)))) := by
        unfold wpStep; rw [if_pos hx]
      simp only [Bool.and_eq_true, bne_iff_ne, ne_eq] at hx
      rw [hstep]
      simp only [pget_pset, Prod.mk.injEq, rmax_eq_max, rmin_eq_min]
      have e1 : ¬ (c2 = c2 ∧ c1 = x) := fun h => hx.1 h.2.symm
      have e2 : ∀ y, ¬ (c1 = c2 ∧ y = x) := fun y h => h12 h.1
      simp only [e1, e2, if_false]
      by_cases ha : a = c2
      · subst ha
        by_cases hbx : b = x
        · subst hbx
          have : b ∉ xs := hl.1
          simp [this, hx.1, hx.2]
        · have : ¬ (a = a ∧ b = x) := fun h => hbx h.2
          have hc1x : ¬ c1 = x := fun h => hx.1 h.symm
          simp only [List.mem_cons, hbx, false_or, this, if_false, true_and, hc1x]
      · have : ¬ (a = c2 ∧ b = x) := fun h => ha h.1
        simp [ha, this]
    · have hstep : wpStep c1 c2 p3 x = p3 := by
        unfold wpStep; rw [if_neg hx]
      rw [hstep]
      simp only [Bool.and_eq_true, bne_iff_ne, ne_eq, not_and_or, not_not] at hx
      by_cases ha : a = c2
      · subst ha
        by_cases hbx : b = x
        · subst hbx
          have : b ∉ xs := hl.1
          rcases hx with h | h
          · simp [this, h]
          · simp [this, h]
        · simp [List.mem_cons, hbx]
      · simp [ha]

/-- the loop over `c2` (fixed `c1`) started on the candidates `l2` -/
theorem pget_wpPhase (cands : List Cand) (hc : cands.Nodup) (c1 : Cand) (l2 : List Cand) (hl2 : l2.Nodup)
    (p : Pairwise) (a b : Cand) :
    pget (l2.foldl (fun p2 c2 => if c1 != c2 then cands.foldl (wpStep c1 c2) p2 else p2) p) (a, b) =
      if a ∈ l2 ∧ a ≠ c1 ∧ b ∈ cands ∧ b ≠ c1 ∧ b ≠ a then
        max (pget p (a, b)) (min (pget p (a, c1)) (pget p (c1, b)))
      else pget p (a, b) := by
  induction l2 generalizing p with
  | nil => simp
  | cons x xs ih =>
    rw [List.nodup_cons] at hl2
    rw [List.foldl_cons, ih hl2.2]
    by_cases hx : (c1 != x) = true
    · rw [if_pos hx]
      simp only [bne_iff_ne, ne_eq] at hx
      simp only [pget_wpInner hx cands hc]
      -- keys (·, c1) and (c1, ·) are untouched by the inner loop
      have e1 : ∀ y, ¬ (y = x ∧ c1 ∈ cands ∧ c1 ≠ c1 ∧ c1 ≠ x) := fun y h => h.2.2.1 rfl
      have e2 : ∀ y, ¬ (c1 = x ∧ y ∈ cands ∧ y ≠ c1 ∧ y ≠ x) := fun y h => hx h.1
      simp only [e1, e2, if_false]
      by_cases hax : a = x
      · subst hax
        have hnot : a ∉ xs := hl2.1
        by_cases hcond : b ∈ cands ∧ b ≠ c1 ∧ b ≠ a
        · have h1 : a ∈ a :: xs ∧ a ≠ c1 ∧ b ∈ cands ∧ b ≠ c1 ∧ b ≠ a :=
            ⟨by simp, fun h => hx h.symm, hcond.1, hcond.2.1, hcond.2.2⟩
          have h2 : ¬ (a ∈ xs ∧ a ≠ c1 ∧ b ∈ cands ∧ b ≠ c1 ∧ b ≠ a) := fun h => hnot h.1
          have h3 : a = a ∧ b ∈ cands ∧ b ≠ c1 ∧ b ≠ a := ⟨rfl, hcond⟩
          rw [if_neg h2, if_pos h3, if_pos h1]
        · have h1 : ¬ (a ∈ a :: xs ∧ a ≠ c1 ∧ b ∈ cands ∧ b ≠ c1 ∧ b ≠ a) :=
            fun h => hcond ⟨h.2.2.1, h.2.2.2.1, h.2.2.2.2⟩
          have h2 : ¬ (a ∈ xs ∧ a ≠ c1 ∧ b ∈ cands ∧ b ≠ c1 ∧ b ≠ a) := fun h => hnot h.1
          have h3 : ¬ (a = a ∧ b ∈ cands ∧ b ≠ c1 ∧ b ≠ a) := fun h => hcond h.2
          rw [if_neg h2, if_neg h3, if_neg h1]
      · have h3 : ∀ y, ¬ (a = x ∧ y ∈ cands ∧ y ≠ c1 ∧ y ≠ x) := fun y h => hax h.1
        simp only [h3, if_false, List.mem_cons, hax, false_or, false_and]
    · rw [if_neg hx]
      simp only [bne_iff_ne, ne_eq, not_not] at hx
      subst hx
      by_cases hax : a = c1
      · subst hax
        simp
      · simp [List.mem_cons, hax]

/-! ### the Floyd-Warshall recurrence on functions -/

/-- one phase (`cand1 = k`) as a map on strength tables -/
def fwPhase (cands : List Cand) (k : Cand) (F : Pair → Rat) : Pair → Rat := fun q =>
  if q.1 ∈ cands ∧ q.1 ≠ k ∧ q.2 ∈ cands ∧ q.2 ≠ k ∧ q.2 ≠ q.1 then
    max (F q) (min (F (q.1, k)) (F (k, q.2)))
  else F q

theorem pget_widestFold (cands : List Cand) (hc : cands.Nodup) (mids : List Cand) (p : Pairwise) :
    pget (mids.foldl (fun p1 c1 =>
      cands.foldl (fun p2 c2 => if c1 != c2 then cands.foldl (wpStep c1 c2) p2 else p2) p1) p) =
      mids.foldl (fun F k => fwPhase cands k F) (pget p) := by
  induction mids generalizing p with
  | nil => rfl
  | cons k ks ih =>
    rw [List.foldl_cons, List.foldl_cons, ih]
    congr 1
    funext q
    obtain ⟨a, b⟩ := q
    rw [pget_wpPhase cands hc k cands hc]
    rfl

/-- `s` is the strength (minimum edge weight) of some chain from `x` to `y` -/
inductive PathStr (g : Pair → Rat) : Cand → Cand → Rat → Prop
  | single (x y : Cand) : PathStr g x y (g (x, y))
  | cons (x m y : Cand) (s : Rat) : PathStr g m y s → PathStr g x y (min (g (x, m)) s)

theorem PathStr.append {g : Pair → Rat} {x m y : Cand} {s t : Rat} (h1 : PathStr g x m s) (h2 : PathStr g m y t) :
    PathStr g x y (min s t) := by
  induction h1 with
  | single x m => exact PathStr.cons x m y t h2
  | cons x m' m s' _ ih =>
    have := PathStr.cons x m' y _ (ih h2)
    rwa [← min_assoc] at this

theorem minmax4 {a b c d X : Rat} (h1 : min a c ≤ X) (h2 : min a d ≤ X) (h3 : min b c ≤ X) (h4 : min b d ≤ X) :
    min (max a b) (max c d) ≤ X := by
  rcases le_total a b with hab | hab <;> rcases le_total c d with hcd | hcd
  · rw [max_eq_right hab, max_eq_right hcd]; exact h4
  · rw [max_eq_right hab, max_eq_left hcd]; exact h3
  · rw [max_eq_left hab, max_eq_right hcd]; exact h2
  · rw [max_eq_left hab, max_eq_left hcd]; exact h1

theorem min_max_le {x y z X : Rat} (h1 : min x y ≤ X) (h2 : min x z ≤ X) : min x (max y z) ≤ X := by
  rcases le_total y z with h | h
  · rw [max_eq_right h]; exact h2
  · rw [max_eq_left h]; exact h1

theorem max_min_le {x y z X : Rat} (h1 : min y x ≤ X) (h2 : min z x ≤ X) : min (max y z) x ≤ X := by
  rcases le_total y z with h | h
  · rw [max_eq_right h]; exact h2
  · rw [max_eq_left h]; exact h1

/-- invariant of the recurrence after the mids `P` -/
structure FWInv (cands : List Cand) (g F : Pair → Rat) (P : List Cand) : Prop where
  ge : ∀ q, g q ≤ F q
  att : ∀ a b, PathStr g a b (F (a, b))
  trans : ∀ k ∈ P, ∀ a b, a ∈ cands → b ∈ cands → a ≠ b → a ≠ k → b ≠ k → min (F (a, k)) (F (k, b)) ≤ F (a, b)

theorem fwPhase_col (cands : List Cand) (k : Cand) (F : Pair → Rat) (a : Cand) : fwPhase cands k F (a, k) = F (a, k) := by
  unfold fwPhase; simp

theorem fwPhase_row (cands : List Cand) (k : Cand) (F : Pair → Rat) (b : Cand) : fwPhase cands k F (k, b) = F (k, b) := by
  unfold fwPhase; simp

theorem fwPhase_ge (cands : List Cand) (k : Cand) (F : Pair → Rat) (q : Pair) : F q ≤ fwPhase cands k F q := by
  unfold fwPhase; split
  · exact le_max_left _ _
  · exact le_refl _

theorem fwPhase_upd {cands : List Cand} {k : Cand} (F : Pair → Rat) {a b : Cand} (ha : a ∈ cands) (hb : b ∈ cands)
    (hab : a ≠ b) (hak : a ≠ k) (hbk : b ≠ k) :
    fwPhase cands k F (a, b) = max (F (a, b)) (min (F (a, k)) (F (k, b))) := by
  unfold fwPhase
  rw [if_pos ⟨ha, hak, hb, hbk, fun h => hab h.symm⟩]

theorem fwInv_step {cands : List Cand} {g F : Pair → Rat} {P : List Cand} (kp : Cand) (hkp : kp ∈ cands)
    (hP : ∀ k ∈ P, k ∈ cands ∧ k ≠ kp) (h : FWInv cands g F P) :
    FWInv cands g (fwPhase cands kp F) (kp :: P) := by
  refine ⟨fun q => le_trans (h.ge q) (fwPhase_ge _ _ _ q), ?_, ?_⟩
  · intro a b
    unfold fwPhase
    split
    · simp only
      rcases le_total (F (a, b)) (min (F (a, kp)) (F (kp, b))) with hle | hle
      · rw [max_eq_right hle]; exact (h.att a kp).append (h.att kp b)
      · rw [max_eq_left hle]; exact h.att a b
    · exact h.att a b
  · intro k hk a b ha hb hab hak hbk
    rcases List.mem_cons.1 hk with rfl | hkP
    · rw [fwPhase_col, fwPhase_row, fwPhase_upd F ha hb hab hak hbk]
      exact le_max_right _ _
    · obtain ⟨hkc, hkkp⟩ := hP k hkP
      have hT := h.trans k hkP
      by_cases hakp : a = kp
      · -- the row of kp is unchanged
        subst hakp
        rw [fwPhase_row, fwPhase_row, fwPhase_upd F hkc hb (fun e => hbk e.symm) hkkp (fun e => hab e.symm)]
        exact min_max_le (hT a b ha hb hab hak hbk) (le_trans (min_le_right _ _) (min_le_right _ _))
      · by_cases hbkp : b = kp
        · -- the column of kp is unchanged
          subst hbkp
          rw [fwPhase_col, fwPhase_col, fwPhase_upd F ha hkc hak hakp hkkp]
          exact max_min_le (hT a b ha hb hab hak hbk) (le_trans (min_le_left _ _) (min_le_left _ _))
        · rw [fwPhase_upd F ha hkc hak hakp hkkp, fwPhase_upd F hkc hb (fun e => hbk e.symm) hkkp hbkp,
            fwPhase_upd F ha hb hab hakp hbkp]
          have hT1 : min (F (a, k)) (F (k, kp)) ≤ F (a, kp) := hT a kp ha hkp hakp hak (fun e => hkkp e.symm)
          have hT2 : min (F (kp, k)) (F (k, b)) ≤ F (kp, b) := hT kp b hkp hb (fun e => hbkp e.symm) (fun e => hkkp e.symm) hbk
          apply minmax4
          · exact le_trans (hT a b ha hb hab hak hbk) (le_max_left _ _)
          · refine le_trans ?_ (le_max_right _ _)
            rw [← min_assoc]
            exact min_le_min hT1 (le_refl _)
          · refine le_trans ?_ (le_max_right _ _)
            rw [min_assoc]
            exact min_le_min (le_refl _) hT2
          · refine le_trans ?_ (le_max_right _ _)
            exact min_le_min (min_le_left _ _) (min_le_right _ _)

theorem fwInv_fold {cands : List Cand} {g : Pair → Rat} (mids : List Cand) (hm : mids.Nodup)
    (hmc : ∀ k ∈ mids, k ∈ cands) (F : Pair → Rat) (P : List Cand) (hP : ∀ k ∈ P, k ∈ cands ∧ k ∉ mids)
    (h : FWInv cands g F P) :
    ∃ P', (∀ k, k ∈ P' ↔ k ∈ mids ∨ k ∈ P) ∧ FWInv cands g (mids.foldl (fun F k => fwPhase cands k F) F) P' := by
  induction mids generalizing F P with
  | nil => exact ⟨P, by simp, h⟩
  | cons m ms ih =>
    rw [List.nodup_cons] at hm
    have hstep := fwInv_step m (hmc m (by simp)) (fun k hk => ⟨(hP k hk).1, fun e => (hP k hk).2 (by simp [e])⟩) h
    obtain ⟨P', hP', hinv⟩ := ih hm.2 (fun k hk => hmc k (List.mem_cons_of_mem _ hk)) (fwPhase cands m F) (m :: P)
      (by
        intro k hk
        rcases List.mem_cons.1 hk with rfl | hk'
        · exact ⟨hmc k (by simp), hm.1⟩
        · exact ⟨(hP k hk').1, fun e => (hP k hk').2 (List.mem_cons_of_mem _ e)⟩) hstep
    refine ⟨P', ?_, hinv⟩
    intro k
    rw [hP']
    simp only [List.mem_cons]
    tauto

/-- with transitivity through every candidate, no chain is stronger than the table entry -/
theorem pathStr_le {cands : List Cand} {g F : Pair → Rat} (h : FWInv cands g F cands)
    (hnn : ∀ q, 0 ≤ g q) (hpos : ∀ x y, 0 < g (x, y) → x ∈ cands ∧ y ∈ cands ∧ x ≠ y)
    {a b : Cand} {s : Rat} (hp : PathStr g a b s) (hb : b ∈ cands) (hab : a ≠ b) : s ≤ F (a, b) := by
  induction hp with
  | single x y => exact h.ge _
  | cons x m y s' _ ih =>
    by_cases hg : 0 < g (x, m)
    · obtain ⟨hx, hm, hxm⟩ := hpos x m hg
      by_cases hmy : m = y
      · subst hmy
        exact le_trans (min_le_left _ _) (h.ge _)
      · have h1 := ih hb hmy
        have h2 := h.trans m hm x y hx hb hab hxm (fun e => hmy e.symm)
        exact le_trans (min_le_min (h.ge _) h1) h2
    · have : g (x, m) ≤ 0 := not_lt.1 hg
      exact le_trans (min_le_left _ _) (le_trans this (le_trans (hnn (x, y)) (h.ge _)))

/-! ### the statement for `Schulze.widest_paths` -/

/-- the initial table (`paths` before the loops, L296-299): the count of a pairwise win, `0` otherwise -/
def winWeight (v : Pairwise) (q : Pair) : Rat :=
  pget (v.filter (fun e => decide (pget v (e.1.2, e.1.1) < e.2))) q

theorem winWeight_eq {v : Pairwise} (hwf : WF v) (x y : Cand) :
    winWeight v (x, y) = if pget v (y, x) < pget v (x, y) then pget v (x, y) else 0 := by
  unfold winWeight
  have hnd : ((v.filter (fun e => decide (pget v (e.1.2, e.1.1) < e.2))).map (·.1)).Nodup :=
    hwf.1.sublist (List.Sublist.map _ List.filter_sublist)
  split
  · rename_i hb
    have hpos : 0 < pget v (x, y) := lt_of_le_of_lt (pget_nonneg hwf _) hb
    exact pget_of_mem hnd (List.mem_filter.2 ⟨pget_pos_mem hpos, by simpa using hb⟩)
  · rename_i hb
    rcases pget_mem_or_zero (v.filter (fun e => decide (pget v (e.1.2, e.1.1) < e.2))) (x, y) with h | ⟨_, h⟩
    · exfalso
      obtain ⟨hv, hlt⟩ := List.mem_filter.1 h
      simp only [decide_eq_true_eq] at hlt
      have hval := pget_of_mem hwf.1 hv
      rw [← hval] at hlt
      exact hb hlt
    · exact h

theorem winWeight_nonneg {v : Pairwise} (hwf : WF v) (q : Pair) : 0 ≤ winWeight v q := by
  obtain ⟨x, y⟩ := q
  rw [winWeight_eq hwf]
  split
  · exact pget_nonneg hwf _
  · exact le_refl _

theorem winWeight_pos {v : Pairwise} (hwf : WF v) (x y : Cand) (h : 0 < winWeight v (x, y)) :
    x ∈ candidates v ∧ y ∈ candidates v ∧ x ≠ y := by
  rw [winWeight_eq hwf] at h
  split at h
  · rename_i hb
    have hb' : Beats v x y := hb
    exact ⟨(hb'.mem hwf).1, (hb'.mem hwf).2, hb'.ne⟩
  · exact absurd h (lt_irrefl _)

/-- **`widest_paths` is correct**: for two distinct candidates the table entry is the strength of some chain
    of pairs from `a` to `b` (minimum of the win weights on it), and no chain is stronger. -/
theorem widestPaths_maxmin {v : Pairwise} (hwf : WF v) {a b : Cand} (hb : b ∈ candidates v) (hab : a ≠ b) :
    PathStr (winWeight v) a b (pget (widestPaths v) (a, b)) ∧
      ∀ s, PathStr (winWeight v) a b s → s ≤ pget (widestPaths v) (a, b) := by
  have hfold : pget (widestPaths v) = (candidates v).foldl (fun F k => fwPhase (candidates v) k F) (winWeight v) := by
    rw [widestPaths_eq, pget_widestFold (candidates v) (nodup_candidates v)]
    rfl
  have h0 : FWInv (candidates v) (winWeight v) (winWeight v) [] :=
    ⟨fun _ => le_refl _, fun a b => PathStr.single a b, by simp⟩
  obtain ⟨P, hP, hinv⟩ := fwInv_fold (candidates v) (nodup_candidates v) (fun _ h => h) (winWeight v) []
    (by simp) h0
  rw [← hfold] at hinv
  have hinv' : FWInv (candidates v) (winWeight v) (pget (widestPaths v)) (candidates v) :=
    ⟨hinv.ge, hinv.att, fun k hk => hinv.trans k ((hP k).2 (Or.inl hk))⟩
  exact ⟨hinv'.att a b, fun s hs => pathStr_le hinv' (winWeight_nonneg hwf) (winWeight_pos hwf) hs hb hab⟩

end VL.Condorcet
