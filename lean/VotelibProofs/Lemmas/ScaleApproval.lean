/-
  C11: SequentialProportionalApproval and ProportionalApproval are scale invariant — reweighted round votes and
  harmonic satisfactions are linear in the ballot weights.
-/
import VotelibProofs.Lemmas.ScaleCondorcet
import VotelibModel.Approval
namespace VL.Scale
open VL VL.Appr

/-- an approval profile with every ballot weight multiplied by `k` -/
def scaleA (k : Rat) (p : Profile) : Profile := p.map (fun b => (b.1, k * b.2))

theorem mapM_sim {α α' β β' : Type} (h : α → α') (g : β → β') (f : α → Except Err β) (f' : α' → Except Err β')
    (hstep : ∀ a, f' (h a) = (f a).map g) : ∀ l : List α, (l.map h).mapM f' = (l.mapM f).map (List.map g) := by
  intro l
  induction l with
  | nil => rfl
  | cons a t ih =>
    simp only [List.map_cons, List.mapM_cons, hstep, ih]
    cases f a with
    | error e => rfl
    | ok b =>
      cases List.mapM f t with
      | error e => rfl
      | ok bs => rfl

theorem allCands_scale (k : Rat) (p : Profile) : allCands (scaleA k p) = allCands p := by
  unfold allCands scaleA; rw [List.flatMap_map]

/-! ### SPAV -/

theorem addVote_scale (k : Rat) (d : Votes) (c : Cand) (x : Rat) :
    addVote (scaleVotes k d) c (k * x) = scaleVotes k (addVote d c x) := by
  unfold scaleVotes
  induction d with
  | nil => simp [addVote]
  | cons e t ih =>
    obtain ⟨q, y⟩ := e
    simp only [List.map_cons, addVote]
    by_cases hq : q = c
    · simp only [hq, if_true, List.map_cons, mul_add]
    · simp only [hq, if_false, List.map_cons, ih]

theorem roundVotes_scale (k : Rat) (p : Profile) (elected : List Cand) :
    roundVotes (scaleA k p) elected = scaleVotes k (roundVotes p elected) := by
  unfold roundVotes scaleA
  refine foldl_simMap (scaleVotes k) _ _ _ ?_ p []
  intro d bw
  apply foldl_sim' (scaleVotes k)
  intro d' c
  simp only [mul_div_assoc]
  exact addVote_scale k d' c _

theorem spavGo_scale (k : Rat) (hk : 0 < k) (p : Profile) : ∀ (n : Nat) (elected : List Cand),
    spavGo (scaleA k p) n elected = spavGo p n elected := by
  intro n
  induction n with
  | zero => intro elected; rfl
  | succ n ih =>
    intro elected
    simp only [spavGo, roundVotes_scale]
    have hf : (scaleVotes k (roundVotes p elected)).filter (fun q => !(elected.contains q.1))
        = scaleVotes k ((roundVotes p elected).filter (fun q => !(elected.contains q.1))) :=
      filter_scale k _ _ _ (fun _ _ => rfl)
    rw [hf, getNBest_scaleC k hk]
    split
    · rfl
    · rfl
    · exact ih _

/-- **SequentialProportionalApproval** -/
theorem spav_scale (k : Rat) (hk : 0 < k) (p : Profile) (n : Nat) : spav (scaleA k p) n = spav p n :=
  spavGo_scale k hk p n []

/-! ### PAV -/

theorem satisfaction_scale (k : Rat) (coefs : List Rat) (p : Profile) (alt : List Cand) :
    satisfaction coefs (scaleA k p) alt = (satisfaction coefs p alt).map (fun s => k * s) := by
  unfold satisfaction scaleA
  have h := mapM_sim (fun b : Ballot × Rat => (b.1, k * b.2)) (fun t : Rat => k * t)
    (fun bw => do let c ← coefAt coefs (interLen bw.1 alt); pure (c * bw.2))
    (fun bw => do let c ← coefAt coefs (interLen bw.1 alt); pure (c * bw.2))
    (by
      intro bw
      cases coefAt coefs (interLen bw.1 alt) with
      | error e => rfl
      | ok c => show Except.ok (c * (k * bw.2)) = Except.ok (k * (c * bw.2)); rw [mul_left_comm])
    p
  rw [h]
  cases List.mapM (fun bw => do let c ← coefAt coefs (interLen bw.1 alt); pure (c * bw.2)) p with
  | error e => rfl
  | ok terms =>
    show Except.ok (List.sum (List.map (fun t => k * t) terms)) = Except.ok (k * List.sum terms)
    congr 1
    induction terms with
    | nil => simp
    | cons t ts ih => simp only [List.map_cons, List.sum_cons, ih, mul_add]

/-- the scan state with the best score multiplied by `k` -/
def scaleBest (k : Rat) (acc : List (List Cand) × Option Rat) : List (List Cand) × Option Rat :=
  (acc.1, acc.2.map (fun s => k * s))

theorem bestStep_scale (k : Rat) (hk : 0 < k) (acc : List (List Cand) × Option Rat) (q : List Cand × Rat) :
    bestStep (scaleBest k acc) (q.1, k * q.2) = scaleBest k (bestStep acc q) := by
  obtain ⟨l, o⟩ := acc
  cases o with
  | none => rfl
  | some bs =>
    simp only [bestStep, scaleBest, Option.map, gt_iff_lt, mul_lt_mul_iff_right₀ hk, mul_right_inj' (ne_of_gt hk)]
    split
    · rfl
    · split <;> rfl

theorem bestAlts_scale (k : Rat) (hk : 0 < k) (coefs : List Rat) (p : Profile) (cands : List Cand) (n : Nat) :
    bestAlts coefs (scaleA k p) cands n = bestAlts coefs p cands n := by
  unfold bestAlts
  have h := mapM_sim (fun a : List Cand => a) (fun q : List Cand × Rat => (q.1, k * q.2))
    (fun alt => do let s ← satisfaction coefs p alt; pure (alt, s))
    (fun alt => do let s ← satisfaction coefs (scaleA k p) alt; pure (alt, s))
    (by
      intro alt
      simp only [satisfaction_scale]
      cases satisfaction coefs p alt <;> rfl)
    (combos cands n)
  rw [List.map_id'] at h
  rw [h]
  cases List.mapM (fun alt => do let s ← satisfaction coefs p alt; pure (alt, s)) (combos cands n) with
  | error e => rfl
  | ok scored =>
    show Except.ok ((List.map (fun q : List Cand × Rat => (q.1, k * q.2)) scored).foldl bestStep ([], none)).1
      = Except.ok (scored.foldl bestStep ([], none)).1
    have := foldl_simMap (scaleBest k) bestStep bestStep (fun q : List Cand × Rat => (q.1, k * q.2))
      (fun s b => bestStep_scale k hk s b) scored ([], none)
    have h0 : scaleBest k ([], none) = ([], none) := rfl
    rw [h0] at this
    rw [this]
    rfl

theorem dropKeys_scale (k : Rat) (coefs : List Rat) (p : Profile) (alt : List Cand) :
    dropKeys coefs (scaleA k p) alt = (dropKeys coefs p alt).map (scaleVotes k) := by
  unfold dropKeys
  have h := mapM_sim (fun c : Cand => c) (fun q : Cand × Rat => (q.1, k * q.2))
    (fun c => do let s ← satisfaction coefs p (alt.filter (· != c)); pure (c, -s))
    (fun c => do let s ← satisfaction coefs (scaleA k p) (alt.filter (· != c)); pure (c, -s))
    (by
      intro c
      simp only [satisfaction_scale]
      cases satisfaction coefs p (alt.filter (· != c)) with
      | error e => rfl
      | ok s => show Except.ok (c, -(k * s)) = Except.ok (c, k * -s); rw [mul_neg])
    alt
  rw [List.map_id'] at h
  exact h

theorem orderByScore_scale (k : Rat) (hk : 0 < k) (coefs : List Rat) (p : Profile) (alt : List Cand) :
    orderByScore coefs (scaleA k p) alt = orderByScore coefs p alt := by
  unfold orderByScore
  rw [dropKeys_scale]
  cases dropKeys coefs p alt with
  | error e => rfl
  | ok drops =>
    show Except.ok (getNBest (scaleVotes k drops) alt.length) = Except.ok (getNBest drops alt.length)
    rw [getNBest_scaleC k hk]

/-- one call of `ProportionalApproval.evaluate` from any state of the coefficient cache -/
theorem pavStep_scale (k : Rat) (hk : 0 < k) (coefs : List Rat) (p : Profile) (n : Nat) :
    pavStep coefs (scaleA k p) n = pavStep coefs p n := by
  unfold pavStep
  simp only [bestAlts_scale k hk, allCands_scale, orderByScore_scale k hk]

/-- **ProportionalApproval** (fresh instance) -/
theorem pav_scale (k : Rat) (hk : 0 < k) (p : Profile) (n : Nat) : pav (scaleA k p) n = pav p n := by
  unfold pav; rw [pavStep_scale k hk]

end VL.Scale
