/-
  Benham is Smith-efficient (since elimination ties are refused): every round eliminates exactly one
  candidate, the pairwise counts among the remaining candidates are those of the profile, and the last
  member of the Smith set left would be a Condorcet winner of the round.
-/
import VotelibProofs.Lemmas.SubsetProfile
namespace VL.Condorcet
open VL

/-- a well-formed ranked profile: no ballot names a candidate twice, weights are non-negative -/
def ProfileOK (p : Profile) : Prop := ∀ b ∈ p, (b.1.flatMap itemCands).Nodup ∧ 0 ≤ b.2

instance (p : Profile) : Decidable (ProfileOK p) := by unfold ProfileOK; infer_instance

theorem padd_nonneg {m : Pairwise} (hm : ∀ e ∈ m, 0 ≤ e.2) (q : Pair) {x : Rat} (hx : 0 ≤ x) :
    ∀ e ∈ padd m q x, 0 ≤ e.2 := by
  induction m with
  | nil => intro e he; simp only [padd, List.mem_singleton] at he; subst he; exact hx
  | cons a rest ih =>
    obtain ⟨k, y⟩ := a
    intro e he
    unfold padd at he
    split at he
    · rcases List.mem_cons.1 he with rfl | h
      · exact add_nonneg (hm (k, y) (by simp)) hx
      · exact hm e (List.mem_cons_of_mem _ h)
    · rcases List.mem_cons.1 he with rfl | h
      · exact hm (k, y) (by simp)
      · exact ih (fun e' he' => hm e' (List.mem_cons_of_mem _ he')) e h

theorem nodup_pkeys_padd {m : Pairwise} (h : (pkeys m).Nodup) (q : Pair) (x : Rat) : (pkeys (padd m q x)).Nodup := by
  rw [pkeys_padd]
  split
  · exact h
  · rename_i hc
    rw [List.nodup_append]
    refine ⟨h, by simp, ?_⟩
    intro a ha b hb
    simp only [List.mem_singleton] at hb
    subst hb
    rintro rfl
    exact hc ha

theorem ballotPairs_ne {ac : List Cand} {b : Ballot} {unr : List Cand} (hb : (b.flatMap itemCands).Nodup)
    (hu : ∀ c ∈ unr, c ∉ b.flatMap itemCands) {u l : Cand} (h : (u, l) ∈ ballotPairs ac b unr) : u ≠ l := by
  induction b with
  | nil => simp [ballotPairs] at h
  | cons it rest ih =>
    rw [List.flatMap_cons, List.nodup_append] at hb
    unfold ballotPairs at h
    rcases List.mem_append.1 h with h1 | h1
    · obtain ⟨u', hu', hp⟩ := List.mem_flatMap.1 h1
      rcases List.mem_append.1 hp with h2 | h2
      · obtain ⟨l', hl', heq⟩ := List.mem_map.1 h2
        simp only [Prod.mk.injEq] at heq
        obtain ⟨rfl, rfl⟩ := heq
        exact hb.2.2 _ hu' _ hl'
      · obtain ⟨l', hl', heq⟩ := List.mem_map.1 h2
        simp only [Prod.mk.injEq] at heq
        obtain ⟨rfl, rfl⟩ := heq
        rintro rfl
        exact hu _ hl' (by rw [List.flatMap_cons]; exact List.mem_append_left _ hu')
    · exact ih hb.2.1 (fun c hc hm => hu c hc (by rw [List.flatMap_cons]; exact List.mem_append_right _ hm)) h1

/-- the pairwise dictionary of a well-formed profile is well-formed -/
theorem wf_rtc {p : Profile} (hp : ProfileOK p) : WF (rankedToCondorcet p) := by
  unfold rankedToCondorcet
  simp only
  have key := foldl_preserves (fun counts : Pairwise =>
      (pkeys counts).Nodup ∧ (∀ e ∈ counts, e.1.1 ≠ e.1.2) ∧ (∀ e ∈ counts, 0 ≤ e.2))
    (fun counts (b : Ballot × Rat) =>
      (ballotPairs (allRankedCandidates p) b.1
        ((allRankedCandidates p).filter (fun c => !(b.1.flatMap itemCands).contains c))).foldl
        (fun cs pr => padd cs pr b.2) counts) p []
    ⟨by simp [pkeys], by simp, by simp⟩ ?_
  · exact key
  · intro counts b hb hcounts
    apply foldl_preserves (fun counts : Pairwise =>
      (pkeys counts).Nodup ∧ (∀ e ∈ counts, e.1.1 ≠ e.1.2) ∧ (∀ e ∈ counts, 0 ≤ e.2)) _ _ _ hcounts
    intro cs pr hpr ⟨h1, h2, h3⟩
    refine ⟨nodup_pkeys_padd h1 _ _, ?_, padd_nonneg h3 _ (hp b hb).2⟩
    intro e he
    have hk : e.1 ∈ pkeys (padd cs pr b.2) := List.mem_map.2 ⟨e, he, rfl⟩
    rcases mem_pkeys_padd hk with h | h
    · obtain ⟨e', he', hee⟩ := List.mem_map.1 h
      rw [← hee]; exact h2 e' he'
    · rw [h]
      obtain ⟨u, l⟩ := pr
      apply ballotPairs_ne (hp b hb).1 _ hpr
      intro c hc hm
      have := (List.mem_filter.1 hc).2
      rw [List.contains_iff_mem.2 hm] at this
      simp at this

theorem badd_nonneg {acc : Profile} (hacc : ∀ e ∈ acc, 0 ≤ e.2) (b : Ballot) {x : Rat} (hx : 0 ≤ x) :
    ∀ e ∈ badd acc b x, 0 ≤ e.2 := by
  induction acc with
  | nil => intro e he; simp only [badd, List.mem_singleton] at he; subst he; exact hx
  | cons a rest ih =>
    obtain ⟨k, y⟩ := a
    intro e he
    unfold badd at he
    split at he
    · rcases List.mem_cons.1 he with rfl | h
      · exact add_nonneg (hacc (k, y) (by simp)) hx
      · exact hacc e (List.mem_cons_of_mem _ h)
    · rcases List.mem_cons.1 he with rfl | h
      · exact hacc (k, y) (by simp)
      · exact ih (fun e' he' => hacc e' (List.mem_cons_of_mem _ he')) e h

theorem profileOK_subset {p : Profile} (hp : ProfileOK p) (T : List Cand) : ProfileOK (subsetProfile p T) := by
  intro e he
  constructor
  · obtain ⟨b, hb, heq⟩ := mem_subsetProfile he
    rw [heq, flatMap_subsetBallot]
    exact (hp b hb).1.filter _
  · have key := foldl_preserves (fun acc : Profile => ∀ e ∈ acc, 0 ≤ e.2)
      (fun acc (b : Ballot × Rat) => badd acc (subsetBallot T b.1) b.2) p [] (by simp)
      (fun acc b hb hacc => badd_nonneg hacc _ (hp b hb).2)
    exact key e he

/-! ### `get_n_best` without a tie is a prefix of the sorted list -/

theorem getNBest_tiefree {votes : Votes} {n : Nat} (h1 : 1 ≤ n) (hlen : n < votes.length)
    (hno : (getNBest votes n).any isTie = false) :
    getNBest votes n = ((sortDesc votes).take n).map (fun p => Slot.cand p.1) := by
  obtain ⟨hn1, hn, hex⟩ := getNBest_explicit votes n h1 hlen
  rw [hex] at hno ⊢
  split
  · rename_i heq
    exfalso
    rw [if_pos heq] at hno
    have hk := desc_cntGt_le (sortDesc_desc votes) hn1
    have hpos : 1 ≤ n - cntGt (sortDesc votes) ((sortDesc votes)[n - 1]).2 := by omega
    obtain ⟨k, hk'⟩ : ∃ k, n - cntGt (sortDesc votes) ((sortDesc votes)[n - 1]).2 = k + 1 := ⟨_, (Nat.sub_add_cancel hpos).symm⟩
    rw [hk', List.replicate_succ] at hno
    simp [isTie] at hno
  · rfl

theorem slotCands_map_cand (l : Votes) : slotCands (l.map (fun p => Slot.cand p.1)) = l.map (·.1) := by
  induction l with
  | nil => rfl
  | cons x xs ih => simp only [List.map_cons, slotCands, List.filterMap_cons] at ih ⊢; rw [ih]

/-- a tie-free elimination among `m ≥ 2` candidates keeps `m - 1` distinct candidates of the round -/
theorem eliminateOne_tiefree {p : Profile} {rem : List Slot} (h : eliminateOne p = .ok rem)
    (hno : rem.any isTie = false) (hm : 2 ≤ (allRankedCandidates p).length) :
    (slotCands rem).Nodup ∧ (slotCands rem).length + 1 = (allRankedCandidates p).length ∧
      (∀ c ∈ slotCands rem, c ∈ allRankedCandidates p) ∧ rem = (slotCands rem).map Slot.cand := by
  have hraw := (eliminateOne_spec h).1
  have hk := keys_firstPrefTotals p
  have hlen : (firstPrefTotals p).length = (allRankedCandidates p).length := by rw [← hk]; simp [keys]
  unfold eliminateOneRaw at hraw
  simp only at hraw
  split at hraw
  · simp at hraw
  · rename_i h1; omega
  · rename_i m' hm'
    simp only [Except.ok.injEq] at hraw
    have ht := getNBest_tiefree (votes := firstPrefTotals p) (n := m' + 1) (by omega) (by omega) (by rw [hraw]; exact hno)
    rw [hraw] at ht
    subst ht
    rw [slotCands_map_cand]
    have hnd : ((sortDesc (firstPrefTotals p)).map (·.1)).Nodup := by
      have := ((sortDesc_perm (firstPrefTotals p)).map (·.1)).nodup_iff.2 (by
        change (keys (firstPrefTotals p)).Nodup; rw [hk]; exact nodup_allRanked p)
      exact this
    refine ⟨?_, ?_, ?_, ?_⟩
    · rw [List.map_take]; exact hnd.sublist (List.take_sublist _ _)
    · rw [List.length_map, List.length_take, sortDesc_length]; omega
    · intro c hc
      obtain ⟨e, he, rfl⟩ := List.mem_map.1 hc
      rw [← hk]
      exact List.mem_map.2 ⟨e, mem_sortDesc.1 (List.mem_of_mem_take he), rfl⟩
    · rw [List.map_map]; rfl

/-! ### the Benham rounds -/

section
variable {votes : Profile}

/-- the state of a round: the remaining candidates are candidates of the profile, their pairwise counts are
    those of the profile, at least two are left and one of them is in the Smith set -/
structure BenhamInv (votes cur : Profile) : Prop where
  counts : ∀ x ∈ allRankedCandidates cur, ∀ y ∈ allRankedCandidates cur,
    pget (rankedToCondorcet cur) (x, y) = pget (rankedToCondorcet votes) (x, y)
  ok : ProfileOK cur
  smith : ∃ s ∈ allRankedCandidates cur, s ∈ smithSet (rankedToCondorcet votes)
  sub : ∀ c ∈ allRankedCandidates cur, c ∈ allRankedCandidates votes
  two : 2 ≤ (allRankedCandidates cur).length

theorem smith_dominating {v : Pairwise} (hwf : WF v) :
    Graph.Dominating (candidates v) (Beats v) (fun x => x ∈ smithSet v) := by
  have : (fun x => x ∈ smithSet v) = Graph.SmithReach (candidates v) (Beats v) :=
    funext fun x => propext (mem_smithSet hwf x)
  rw [this]; exact Graph.smithReach_dominating

theorem beats_transfer {cur : Profile} (h : BenhamInv votes cur) {x y : Cand} (hx : x ∈ allRankedCandidates cur)
    (hy : y ∈ allRankedCandidates cur) : Beats (rankedToCondorcet cur) x y ↔ Beats (rankedToCondorcet votes) x y := by
  unfold Beats
  rw [h.counts x hx y hy, h.counts y hy x hx]

/-- a Condorcet winner of a round lies in the Smith set of the profile -/
theorem benham_round_cw (hp : ProfileOK votes)
    (hall : ∀ c ∈ allRankedCandidates votes, c ∈ candidates (rankedToCondorcet votes))
    {cur : Profile} (h : BenhamInv votes cur) {c : Cand} (hc : IsCW (rankedToCondorcet cur) c) :
    c ∈ smithSet (rankedToCondorcet votes) := by
  have hdom := smith_dominating (wf_rtc hp)
  have hcc : c ∈ allRankedCandidates cur := candidates_rankedToCondorcet_sub cur hc.1
  by_contra hnot
  obtain ⟨s, hs, hsS⟩ := h.smith
  have hb : Beats (rankedToCondorcet votes) s c := hdom.2 s c hsS (hall c (h.sub c hcc)) hnot
  have hb' := (beats_transfer h hs hcc).2 hb
  have hsc := (hb'.mem (wf_rtc h.ok)).1
  exact hb'.asymm (hc.2 s hsc hb'.ne)

/-- the only Smith member of a round (with somebody else around) is its Condorcet winner -/
theorem benham_last_member_cw (hp : ProfileOK votes)
    (hall : ∀ c ∈ allRankedCandidates votes, c ∈ candidates (rankedToCondorcet votes))
    {cur : Profile} (h : BenhamInv votes cur) {s : Cand} (hs : s ∈ allRankedCandidates cur)
    (hsS : s ∈ smithSet (rankedToCondorcet votes))
    (honly : ∀ o ∈ allRankedCandidates cur, o ≠ s → o ∉ smithSet (rankedToCondorcet votes)) :
    benhamCW cur = some s := by
  have hdom := smith_dominating (wf_rtc hp)
  have hbeat : ∀ o ∈ allRankedCandidates cur, o ≠ s → Beats (rankedToCondorcet cur) s o := by
    intro o ho hne
    exact (beats_transfer h hs ho).2 (hdom.2 s o hsS (hall o (h.sub o ho)) (honly o ho hne))
  -- somebody else is around
  obtain ⟨o, ho, hne⟩ : ∃ o ∈ allRankedCandidates cur, o ≠ s := by
    by_contra hcon
    simp only [not_exists, not_and, not_not] at hcon
    have hsub : (allRankedCandidates cur).Subperm [s] :=
      List.subperm_of_subset (nodup_allRanked cur) (fun x hx => by simp [hcon x hx])
    have := hsub.length_le
    have := h.two
    simp at *
    omega
  have hcw : IsCW (rankedToCondorcet cur) s :=
    ⟨((hbeat o ho hne).mem (wf_rtc h.ok)).1,
      fun o' ho' hne' => hbeat o' (candidates_rankedToCondorcet_sub cur ho') hne'⟩
  unfold benhamCW
  rw [cw_complete (wf_rtc h.ok) hcw]
  rfl

end


section
variable {votes : Profile}

theorem mem_of_almost_all {A T : List Cand} (hA : A.Nodup) (hT : T.Nodup) (hsub : ∀ c ∈ T, c ∈ A)
    (hlen : T.length + 1 = A.length) {s o : Cand} (hs : s ∈ A) (ho : o ∈ A) (hne : o ≠ s) (hsT : s ∉ T) : o ∈ T := by
  by_contra hoT
  have hsubperm : T.Subperm (A.filter (fun x => decide (x ≠ s) && decide (x ≠ o))) := by
    apply List.subperm_of_subset hT
    intro x hx
    rw [List.mem_filter]
    refine ⟨hsub x hx, ?_⟩
    simp only [Bool.and_eq_true, decide_eq_true_eq]
    exact ⟨fun h => hsT (h ▸ hx), fun h => hoT (h ▸ hx)⟩
  have h1 := hsubperm.length_le
  have h2 := filter_length_le_of_two hA hs ho (fun h => hne h.symm)
    (fun x => decide (x ≠ s) && decide (x ≠ o)) (by simp) (by simp)
  omega

/-- the round after a tie-free elimination satisfies the invariant again -/
theorem benham_step (hp : ProfileOK votes)
    (hall : ∀ c ∈ allRankedCandidates votes, c ∈ candidates (rankedToCondorcet votes))
    {cur : Profile} (h : BenhamInv votes cur) (hcw : benhamCW cur = none) {rem : List Slot}
    (hel : eliminateOne cur = .ok rem) (hlen : rem.length ≠ 1) :
    BenhamInv votes (subsetProfile votes (slotCands rem)) := by
  have hno : rem.any isTie = false := by
    rcases (eliminateOne_spec hel).2 with h1 | h1
    · have : rem = [] := by
        cases rem with
        | nil => rfl
        | cons a t => simp only [List.length_cons] at h1 hlen; omega
      rw [this]; rfl
    · exact h1
  obtain ⟨hnd, hcount, hsubA, hrem⟩ := eliminateOne_tiefree hel hno h.two
  have hlenT : (slotCands rem).length ≠ 1 := by
    rw [hrem, List.length_map] at hlen; exact hlen
  have hmem : ∀ c, c ∈ allRankedCandidates (subsetProfile votes (slotCands rem)) ↔ c ∈ slotCands rem := by
    intro c
    rw [mem_allRanked_subsetProfile, List.contains_iff_mem]
    exact ⟨fun h' => h'.1, fun h' => ⟨h', h.sub c (hsubA c h')⟩⟩
  refine ⟨?_, profileOK_subset hp _, ?_, ?_, ?_⟩
  · intro x hx y hy
    exact pget_rtc_subsetProfile votes (List.contains_iff_mem.2 ((hmem x).1 hx)) (List.contains_iff_mem.2 ((hmem y).1 hy))
  · by_contra hcon
    simp only [not_exists, not_and] at hcon
    obtain ⟨s, hs, hsS⟩ := h.smith
    have hsT : s ∉ slotCands rem := fun hm => hcon s ((hmem s).2 hm) hsS
    have honly : ∀ o ∈ allRankedCandidates cur, o ≠ s → o ∉ smithSet (rankedToCondorcet votes) := by
      intro o ho hne
      have hoT := mem_of_almost_all (nodup_allRanked cur) hnd hsubA hcount hs ho hne hsT
      exact hcon o ((hmem o).2 hoT)
    have := benham_last_member_cw hp hall h hs hsS honly
    rw [hcw] at this
    exact absurd this (by simp)
  · intro c hc
    exact h.sub c (hsubA c ((hmem c).1 hc))
  · have hsp : (slotCands rem).Subperm (allRankedCandidates (subsetProfile votes (slotCands rem))) :=
      List.subperm_of_subset hnd (fun x hx => (hmem x).2 hx)
    have h1 := hsp.length_le
    have h2 := h.two
    omega

/-- the candidate left by the last elimination lies in the Smith set -/
theorem benham_last (hp : ProfileOK votes)
    (hall : ∀ c ∈ allRankedCandidates votes, c ∈ candidates (rankedToCondorcet votes))
    {cur : Profile} (h : BenhamInv votes cur) (hcw : benhamCW cur = none) {x : Cand}
    (hel : eliminateOne cur = .ok [Slot.cand x]) : x ∈ smithSet (rankedToCondorcet votes) := by
  obtain ⟨hnd, hcount, hsubA, _⟩ := eliminateOne_tiefree hel (by simp [isTie]) h.two
  have hT : slotCands [Slot.cand x] = [x] := rfl
  rw [hT] at hnd hcount hsubA
  have hxA : x ∈ allRankedCandidates cur := hsubA x (by simp)
  by_contra hnot
  obtain ⟨s, hs, hsS⟩ := h.smith
  have hsx : s ≠ x := fun e => hnot (e ▸ hsS)
  have honly : ∀ o ∈ allRankedCandidates cur, o ≠ s → o ∉ smithSet (rankedToCondorcet votes) := by
    intro o ho hne
    have : o ∈ [x] := mem_of_almost_all (nodup_allRanked cur) hnd hsubA hcount hs ho hne (by simpa using hsx)
    simp only [List.mem_singleton] at this
    rw [this]; exact hnot
  have := benham_last_member_cw hp hall h hs hsS honly
  rw [hcw] at this
  exact absurd this (by simp)

theorem benhamLoop_in_smith (hp : ProfileOK votes)
    (hall : ∀ c ∈ allRankedCandidates votes, c ∈ candidates (rankedToCondorcet votes)) :
    ∀ (f : Nat) (cur : Profile), BenhamInv votes cur → ∀ c, benhamLoop votes f cur = .ok [Slot.cand c] →
      c ∈ smithSet (rankedToCondorcet votes) := by
  intro f
  induction f with
  | zero => intro cur _ c h; simp [benhamLoop] at h
  | succ f ih =>
    intro cur hinv c h
    unfold benhamLoop at h
    cases hcw : benhamCW cur with
    | some c' =>
      rw [hcw] at h
      simp only [Except.ok.injEq, List.cons.injEq, Slot.cand.injEq, and_true] at h
      subst h
      have hc : condorcetWinner (rankedToCondorcet cur) = [c'] := by
        unfold benhamCW at hcw
        rcases condorcetWinner_shape (rankedToCondorcet cur) with h0 | ⟨x, hx⟩
        · rw [h0] at hcw; simp at hcw
        · rw [hx] at hcw ⊢
          simp only [List.head?_cons, Option.some.injEq] at hcw
          rw [hcw]
      exact benham_round_cw hp hall hinv (cw_sound (wf_rtc hinv.ok) hc)
    | none =>
      rw [hcw] at h
      simp only at h
      cases hel : eliminateOne cur with
      | error e => rw [hel] at h; simp at h
      | ok rem =>
        rw [hel] at h
        simp only at h
        by_cases hlen : rem.length = 1
        · rw [if_pos hlen] at h
          simp only [Except.ok.injEq] at h
          rw [h] at hel
          exact benham_last hp hall hinv hcw hel
        · rw [if_neg hlen] at h
          exact ih _ (benham_step hp hall hinv hcw hel hlen) c h

end

/-- **Benham is Smith-efficient** (whenever it elects a candidate): for a well-formed profile in which every ranked
    candidate takes part in some pairwise contest, the elected candidate lies in the Smith set of the pairwise counts
    of the profile.  (True since elimination ties are refused instead of eliminating every tied candidate.) -/
theorem benham_elects_smith {p : Profile} (hp : ProfileOK p)
    (hall : ∀ c ∈ allRankedCandidates p, c ∈ candidates (rankedToCondorcet p)) {c : Cand}
    (h : benham p = .ok [Slot.cand c]) : c ∈ smithSet (rankedToCondorcet p) := by
  have hwf := wf_rtc hp
  unfold benham at h
  split at h
  · -- a lone candidate would have to take part in a pairwise contest with somebody else
    rename_i c' hc'
    exfalso
    have hc1 : c' ∈ candidates (rankedToCondorcet p) := hall c' (by rw [hc']; simp)
    obtain ⟨o, ho, hne⟩ := exists_other hwf hc1
    have := candidates_rankedToCondorcet_sub p ho
    rw [hc'] at this
    simp only [List.mem_singleton] at this
    exact hne this
  · rename_i hnl
    unfold benhamCore at h
    -- at least two candidates: otherwise the loop cannot answer
    cases hA : allRankedCandidates p with
    | nil =>
      exfalso
      rw [hA] at h
      have hcands : candidates (rankedToCondorcet p) = [] := by
        cases hc : candidates (rankedToCondorcet p) with
        | nil => rfl
        | cons x xs =>
          have := candidates_rankedToCondorcet_sub p (c := x) (by rw [hc]; simp)
          rw [hA] at this; simp at this
      have hempty : rankedToCondorcet p = [] := by
        cases hv : rankedToCondorcet p with
        | nil => rfl
        | cons e es =>
          have := fst_mem_candidates (v := rankedToCondorcet p) (e := e) (by rw [hv]; simp)
          rw [hcands] at this; simp at this
      have hcw : benhamCW p = none := by unfold benhamCW; rw [hempty]; rfl
      have hel : eliminateOne p = .error (.other "IndexError") := by
        unfold eliminateOne eliminateOneRaw firstPrefTotals
        rw [hA]; rfl
      simp only [List.length_nil, Nat.zero_add] at h
      unfold benhamLoop at h
      rw [hcw, hel] at h
      simp at h
    | cons a rest =>
      have htwo : 2 ≤ (allRankedCandidates p).length := by
        rw [hA]
        cases rest with
        | nil => exact absurd hA (hnl a)
        | cons _ _ => simp
      have hs : ∃ s ∈ allRankedCandidates p, s ∈ smithSet (rankedToCondorcet p) := by
        have ha : a ∈ candidates (rankedToCondorcet p) := hall a (by rw [hA]; simp)
        obtain ⟨s, hs⟩ := Graph.smithReach_nonempty (cands := candidates (rankedToCondorcet p))
          (B := Beats (rankedToCondorcet p)) (fun _ _ h => Beats.asymm h) (List.ne_nil_of_mem ha)
        exact ⟨s, candidates_rankedToCondorcet_sub p hs.1, (mem_smithSet hwf s).2 hs⟩
      exact benhamLoop_in_smith hp hall _ p ⟨fun _ _ _ _ => rfl, hp, hs, fun _ h => h, htwo⟩ c h

end VL.Condorcet
