/-
  C13 helper lemmas: util.all_ranked_candidates, rank scorers, RankedToPositionalVotes.
-/
import VotelibProofs.Lemmas.ConvertImages
import VotelibProofs.Lemmas.Sort
namespace VL.Convert
open VL

/-! ### all_rankings / all_ranked_candidates membership -/

theorem mem_allRankings (p : RProfile) (c : Cand) (i : Nat) (w : Rat) :
    (c, i, w) ∈ allRankings p ↔ ∃ bw ∈ p, bw.2 = w ∧ ∃ it, bw.1[i]? = some it ∧ c ∈ it.cands := by
  unfold allRankings
  simp only [List.mem_flatMap, List.mem_range]
  constructor
  · rintro ⟨i', _, bw, hbw, hm⟩
    unfold rankingsAt at hm
    cases hi : bw.1[i']? with
    | none => simp [hi] at hm
    | some it =>
      simp only [hi, List.mem_map, Prod.mk.injEq] at hm
      obtain ⟨c', hc', rfl, rfl, rfl⟩ := hm
      exact ⟨bw, hbw, rfl, it, hi, hc'⟩
  · rintro ⟨bw, hbw, rfl, it, hi, hc⟩
    have hlt : i < bw.1.length := by
      by_contra hh
      rw [List.getElem?_eq_none (by omega)] at hi
      cases hi
    refine ⟨i, lt_of_lt_of_le hlt (length_le_maxLen hbw), bw, hbw, ?_⟩
    unfold rankingsAt
    simp only [hi, List.mem_map]
    exact ⟨c, hc, rfl⟩

theorem mem_ballotCands (b : Ballot) (c : Cand) : c ∈ ballotCands b ↔ ∃ it ∈ b, c ∈ it.cands := by
  simp [ballotCands, List.mem_flatMap]

theorem dedupFold_spec (l : List Cand) (out : List Cand) (hout : out.Nodup) :
    (l.foldl (fun out c => if c ∈ out then out else out ++ [c]) out).Nodup ∧
    ∀ c, c ∈ l.foldl (fun out c => if c ∈ out then out else out ++ [c]) out ↔ c ∈ out ∨ c ∈ l := by
  induction l generalizing out with
  | nil => simp [hout]
  | cons a t ih =>
    rw [List.foldl_cons]
    by_cases ha : a ∈ out
    · rw [if_pos ha]
      obtain ⟨h1, h2⟩ := ih out hout
      refine ⟨h1, fun c => ?_⟩
      rw [h2]; simp only [List.mem_cons]
      constructor
      · rintro (h | h); exact Or.inl h; exact Or.inr (Or.inr h)
      · rintro (h | rfl | h); exact Or.inl h; exact Or.inl ha; exact Or.inr h
    · rw [if_neg ha]
      have hn : (out ++ [a]).Nodup := by
        rw [List.nodup_append]
        exact ⟨hout, by simp, by intro x hx y hy; simp at hy; subst hy; intro e; subst e; exact ha hx⟩
      obtain ⟨h1, h2⟩ := ih (out ++ [a]) hn
      refine ⟨h1, fun c => ?_⟩
      rw [h2]; simp only [List.mem_append, List.mem_cons, List.not_mem_nil, or_false]
      tauto

theorem allRankedCandidates_eq (p : RProfile) :
    allRankedCandidates p = ((allRankings p).map (·.1)).foldl (fun out c => if c ∈ out then out else out ++ [c]) [] := by
  unfold allRankedCandidates
  rw [List.foldl_map]

/-- `all_ranked_candidates` lists every candidate named on some ballot, exactly once -/
theorem nodup_allRankedCandidates (p : RProfile) : (allRankedCandidates p).Nodup := by
  rw [allRankedCandidates_eq]; exact (dedupFold_spec _ [] (by simp)).1

theorem mem_allRankedCandidates (p : RProfile) (c : Cand) :
    c ∈ allRankedCandidates p ↔ ∃ bw ∈ p, c ∈ ballotCands bw.1 := by
  rw [allRankedCandidates_eq, (dedupFold_spec _ [] (by simp)).2]
  simp only [List.not_mem_nil, false_or, List.mem_map]
  constructor
  · rintro ⟨⟨c', i, w⟩, ht, rfl⟩
    obtain ⟨bw, hbw, _, it, hi, hc⟩ := (mem_allRankings p c' i w).1 ht
    exact ⟨bw, hbw, (mem_ballotCands _ _).2 ⟨it, List.mem_of_getElem? hi, hc⟩⟩
  · rintro ⟨bw, hbw, hc⟩
    obtain ⟨it, hit, hc⟩ := (mem_ballotCands _ _).1 hc
    obtain ⟨i, hi⟩ := List.getElem?_of_mem hit
    exact ⟨(c, i, bw.2), (mem_allRankings p c i bw.2).2 ⟨bw, hbw, rfl, it, hi, hc⟩, rfl⟩

/-! ### addExisting -/

section
variable {κ : Type} [DecidableEq κ]

theorem addExisting_ok {d : Dict κ} {k : κ} (h : k ∈ dkeys d) (v : Rat) : addExisting d k v = .ok (addTo d k v) := by
  induction d with
  | nil => simp [dkeys] at h
  | cons e t ih =>
    obtain ⟨k', v'⟩ := e
    unfold addExisting addTo
    by_cases hk : k' = k
    · simp [hk]
    · have : k ∈ dkeys t := by
        simp only [dkeys, List.map_cons, List.mem_cons] at h
        rcases h with h | h
        · exact absurd h.symm hk
        · exact h
      simp [hk, ih this]

theorem addExisting_error {d : Dict κ} {k : κ} (h : k ∉ dkeys d) (v : Rat) :
    addExisting d k v = .error (.other "KeyError") := by
  induction d with
  | nil => rfl
  | cons e t ih =>
    obtain ⟨k', v'⟩ := e
    simp only [dkeys, List.map_cons, List.mem_cons, not_or] at h
    unfold addExisting
    have hk : ¬ k' = k := fun e => h.1 e.symm
    simp [hk, ih h.2]

theorem dkeys_addTo_of_mem {d : Dict κ} {k : κ} (h : k ∈ dkeys d) (v : Rat) : dkeys (addTo d k v) = dkeys d := by
  rw [dkeys_addTo, if_pos h]

theorem foldlM_addExisting {d : Dict κ} (l : List κ) (v : Rat) (h : ∀ c ∈ l, c ∈ dkeys d) :
    l.foldlM (fun agg c => addExisting agg c v) d = .ok (l.foldl (fun agg c => addTo agg c v) d) ∧
    dkeys (l.foldl (fun agg c => addTo agg c v) d) = dkeys d := by
  induction l generalizing d with
  | nil => exact ⟨rfl, rfl⟩
  | cons a t ih =>
    have ha : a ∈ dkeys d := h a (by simp)
    have hk := dkeys_addTo_of_mem ha v
    obtain ⟨h1, h2⟩ := ih (d := addTo d a v) (fun c hc => by rw [hk]; exact h c (by simp [hc]))
    constructor
    · rw [List.foldlM_cons, addExisting_ok ha]; exact h1
    · rw [List.foldl_cons, h2, hk]
end

/-! ### the positional image -/

/-- score collected by candidate `k` on ballot `b` when the places from `r` on carry `scores[r], scores[r+1], …` -/
def posFrom (scores : List Rat) : Nat → Ballot → Cand → Rat
  | _, [], _ => 0
  | r, it :: rest, k => scores.getD r 0 * cnt it.cands k + posFrom scores (r + 1) rest k

theorem positionalBallot_ok (scores : List Rat) (w : Rat) (r : Nat) (b : Ballot) (agg : Dict Cand)
    (hlen : r + b.length ≤ scores.length) (hcov : ∀ c ∈ ballotCands b, c ∈ dkeys agg) :
    ∃ agg', positionalBallot scores w r b agg = .ok agg' ∧ dkeys agg' = dkeys agg ∧
      ∀ k, toFun agg' k = toFun agg k + w * posFrom scores r b k := by
  induction b generalizing r agg with
  | nil => exact ⟨agg, rfl, rfl, fun k => by simp [posFrom]⟩
  | cons it rest ih =>
    have hr : r < scores.length := by simp at hlen; omega
    have hget : scores[r]? = some scores[r] := List.getElem?_eq_getElem hr
    have hc1 : ∀ c ∈ it.cands, c ∈ dkeys agg := fun c hc => hcov c (by simp [ballotCands, hc])
    obtain ⟨h1, h2⟩ := foldlM_addExisting (d := agg) it.cands (scores[r] * w) hc1
    obtain ⟨agg', h3, h4, h5⟩ := ih (r + 1) (it.cands.foldl (fun agg c => addTo agg c (scores[r] * w)) agg)
      (by simp at hlen ⊢; omega)
      (fun c hc => by rw [h2]; exact hcov c (by simp only [ballotCands, List.flatMap_cons, List.mem_append]; exact Or.inr hc))
    refine ⟨agg', ?_, by rw [h4, h2], fun k => ?_⟩
    · unfold positionalBallot
      simp only [hget, h1]
      exact h3
    · rw [h5, toFun_foldl_addTo_const]
      simp only [posFrom, List.getD_eq_getElem?_getD, hget, Option.getD_some]
      ring

theorem positionalBallot_indexError (scores : List Rat) (w : Rat) (r : Nat) (it : RankItem) (rest : Ballot)
    (agg : Dict Cand) (h : scores.length ≤ r) :
    positionalBallot scores w r (it :: rest) agg = .error (.other "IndexError") := by
  unfold positionalBallot
  rw [List.getElem?_eq_none h]

/-- the list a scorer hands out (empty where it refuses) -/
def scorerList (sc : Scorer) (nCand n : Nat) : List Rat :=
  match sc.scores nCand n with
  | .ok l => l
  | .error _ => []

/-- the documented image of one ballot under a rank scorer: every candidate collects the score of each
    place that names it -/
def posImage (sc : Scorer) (nCand : Nat) (b : Ballot) (k : Cand) : Rat :=
  posFrom (scorerList sc nCand b.length) 0 b k

theorem toFun_zeros (U : List Cand) (k : Cand) : toFun (U.map (fun c => (c, (0 : Rat)))) k = 0 := by
  unfold toFun
  apply List.sum_eq_zero
  intro x hx
  simp only [List.map_map, List.mem_map, Function.comp] at hx
  obtain ⟨c, _, rfl⟩ := hx
  split <;> rfl

/-- the profile-level step of `positionalU` -/
def positionalStep (sc : Scorer) (nCand : Nat) (agg : Dict Cand) (bw : Ballot × Rat) : Except Err (Dict Cand) :=
  match sc.scores nCand bw.1.length with
  | .ok scores => positionalBallot scores bw.2 0 bw.1 agg
  | .error e => .error e

theorem positionalU_def (sc : Scorer) (U : List Cand) (p : RProfile) :
    positionalU sc U p = (match p.foldlM (positionalStep sc U.length) (U.map (fun c => (c, (0 : Rat)))) with
      | .ok agg => .ok (sortDesc agg)
      | .error e => .error e) := rfl

theorem dkeys_zeros (U : List Cand) : dkeys (U.map (fun c => (c, (0 : Rat)))) = U := by
  induction U with
  | nil => rfl
  | cons a t ih => simp only [dkeys, List.map_cons] at ih ⊢; rw [ih]

theorem positionalU_ok (sc : Scorer) (U : List Cand) (p : RProfile)
    (hcov : ∀ bw ∈ p, ∀ c ∈ ballotCands bw.1, c ∈ U)
    (hsc : ∀ bw ∈ p, ∃ l, sc.scores U.length bw.1.length = .ok l ∧ bw.1.length ≤ l.length) :
    ∃ d, positionalU sc U p = .ok d ∧ d.Perm (sortDesc d) ∧
      (∀ k, k ∈ dkeys d ↔ k ∈ U) ∧ (U.Nodup → (dkeys d).Nodup) ∧
      ∀ k, toFun d k = wsum p (fun b => posImage sc U.length b k) := by
  have key : ∀ (q : RProfile) (agg : Dict Cand), (∀ bw ∈ q, bw ∈ p) → dkeys agg = U →
      ∃ agg', q.foldlM (positionalStep sc U.length) agg = .ok agg' ∧ dkeys agg' = U ∧
        ∀ k, toFun agg' k = toFun agg k + wsum q (fun b => posImage sc U.length b k) := by
    intro q
    induction q with
    | nil => intro agg _ hk; exact ⟨agg, rfl, hk, fun k => by simp⟩
    | cons bw t ih =>
      intro agg hq hk
      have hbw : bw ∈ p := hq bw (by simp)
      obtain ⟨l, hl, hlen⟩ := hsc bw hbw
      obtain ⟨agg1, h1, h2, h3⟩ := positionalBallot_ok l bw.2 0 bw.1 agg (by omega)
        (fun c hc => by rw [hk]; exact hcov bw hbw c hc)
      obtain ⟨agg', h4, h5, h6⟩ := ih agg1 (fun x hx => hq x (by simp [hx])) (by rw [h2, hk])
      refine ⟨agg', ?_, h5, fun k => ?_⟩
      · rw [List.foldlM_cons]
        have : positionalStep sc U.length agg bw = .ok agg1 := by
          unfold positionalStep; rw [hl]; exact h1
        rw [this]; exact h4
      · rw [h6, h3, wsum_cons]
        have : posImage sc U.length bw.1 k = posFrom l 0 bw.1 k := by
          unfold posImage scorerList; rw [hl]
        rw [this]; ring
  obtain ⟨agg, h1, h2, h3⟩ := key p (U.map (fun c => (c, (0 : Rat)))) (fun _ h => h)
    (dkeys_zeros U)
  refine ⟨sortDesc agg, ?_, ?_, ?_, ?_, ?_⟩
  · rw [positionalU_def, h1]
  · exact (sortDesc_perm _).symm
  · intro k
    have : dkeys (sortDesc agg) = (sortDesc agg).map (·.1) := rfl
    rw [this, ((sortDesc_perm agg).map _).mem_iff]
    show k ∈ dkeys agg ↔ _
    rw [h2]
  · intro hU
    have : dkeys (sortDesc agg) = (sortDesc agg).map (·.1) := rfl
    rw [this, ((sortDesc_perm agg).map _).nodup_iff]
    show (dkeys agg).Nodup
    rw [h2]; exact hU
  · intro k
    rw [toFun_perm (sortDesc_perm agg), h3, toFun_zeros]; ring

/-! ### rank scorers: what the generated score lists contain -/

theorem selectPadded_length (seq : List Rat) (n : Nat) : (selectPadded seq n).length = n := by
  unfold selectPadded
  simp only [List.length_take]
  split
  · simp only [List.length_append, List.length_take, List.length_replicate]; omega
  · simp only [List.length_take]; omega

theorem selectPadded_getD (seq : List Rat) (n r : Nat) (h : r < n) : (selectPadded seq n).getD r 0 = seq.getD r 0 := by
  unfold selectPadded
  simp only [List.length_take]
  by_cases hr : r < seq.length
  · have h1 : r < (seq.take n).length := by simp; omega
    split
    · rw [List.getD_eq_getElem?_getD, List.getElem?_append_left h1, List.getElem?_take_of_lt h,
        List.getD_eq_getElem?_getD]
    · rw [List.getD_eq_getElem?_getD, List.getElem?_take_of_lt h, List.getD_eq_getElem?_getD]
  · have h2 : seq.length ≤ r := by omega
    rw [List.getD_eq_getElem?_getD (l := seq), List.getElem?_eq_none h2]
    split
    · rw [List.getD_eq_getElem?_getD, List.getElem?_append_right (by simp; omega)]
      simp only [List.length_take, Option.getD_none]
      rw [List.getElem?_replicate]
      split <;> rfl
    · rw [List.getD_eq_getElem?_getD, List.getElem?_take_of_lt h, List.getElem?_eq_none h2]

/-- whatever a scorer hands out for `n` ranks has exactly `n` entries (so no IndexError) -/
theorem Scorer.scores_length {sc : Scorer} {nCand n : Nat} {l : List Rat} (h : sc.scores nCand n = .ok l) :
    l.length = n := by
  cases sc with
  | borda base =>
    simp only [Scorer.scores] at h
    split at h
    · cases h
    · cases h; exact selectPadded_length _ _
  | dowdall => simp only [Scorer.scores] at h; cases h; simp [Gen.RankScore.dowdall_scores]
  | geometric base =>
    simp only [Scorer.scores] at h
    split at h
    · cases h
    · cases h; simp [Gen.RankScore.geometric_scores]
  | modifiedBorda => simp only [Scorer.scores] at h; cases h; simp [Gen.RankScore.modified_borda_scores]
  | fixedTop top => simp only [Scorer.scores] at h; cases h; simp [Gen.RankScore.fixed_top_scores]
  | sequence seq => simp only [Scorer.scores] at h; cases h; exact selectPadded_length _ _

/-- a scorer refuses only in the two documented situations -/
theorem Scorer.scores_ok (sc : Scorer) (nCand n : Nat)
    (hb : ∀ base, sc = .borda base → n ≤ nCand) (hg : sc = .geometric 0 → n < 2) :
    ∃ l, sc.scores nCand n = .ok l := by
  cases sc with
  | borda base =>
    have := hb base rfl
    exact ⟨_, by simp only [Scorer.scores]; rw [if_neg (by omega)]⟩
  | dowdall => exact ⟨_, rfl⟩
  | geometric base =>
    by_cases h0 : base = 0
    · subst h0
      have := hg rfl
      exact ⟨_, by simp only [Scorer.scores]; rw [if_neg (by omega)]⟩
    · exact ⟨_, by simp only [Scorer.scores]; rw [if_neg (by simp [h0])]⟩
  | modifiedBorda => exact ⟨_, rfl⟩
  | fixedTop top => exact ⟨_, rfl⟩
  | sequence seq => exact ⟨_, rfl⟩

theorem getD_map_range (f : Nat → Rat) (n r : Nat) (h : r < n) : ((List.range n).map f).getD r 0 = f r := by
  rw [List.getD_eq_getElem?_getD, List.getElem?_map, List.getElem?_range h]; rfl

/-- decidable form of "the scorer accepts `n` ranks" -/
def scorerAccepts (sc : Scorer) (nCand n : Nat) : Bool :=
  match sc with
  | .borda _ => decide (n ≤ nCand)
  | .geometric 0 => decide (n < 2)
  | _ => true

theorem scorerAccepts_iff (sc : Scorer) (nCand n : Nat) :
    scorerAccepts sc nCand n = true ↔ ∃ l, sc.scores nCand n = .ok l := by
  constructor
  · intro h
    apply Scorer.scores_ok
    · rintro base rfl; simpa [scorerAccepts] using h
    · rintro rfl; simpa [scorerAccepts] using h
  · rintro ⟨l, hl⟩
    cases sc with
    | borda base =>
      simp only [Scorer.scores] at hl
      split at hl
      · cases hl
      · simp only [scorerAccepts, decide_eq_true_eq]; omega
    | geometric base =>
      cases base with
      | zero =>
        simp only [Scorer.scores] at hl
        split at hl
        · cases hl
        · rename_i h; simp only [scorerAccepts, decide_eq_true_eq]; simp at h; omega
      | succ b => rfl
    | dowdall => rfl
    | modifiedBorda => rfl
    | fixedTop top => rfl
    | sequence seq => rfl

/-- the rank-indexed form of the image: `Σ_j scores[r + j] · [k stands at place j]` -/
theorem posFrom_eq_sum (scores : List Rat) (r : Nat) (b : Ballot) (k : Cand) :
    posFrom scores r b k
      = ((List.range b.length).map (fun j => scores.getD (r + j) 0 * cnt (b.getD j (.shared [])).cands k)).sum := by
  induction b generalizing r with
  | nil => simp [posFrom]
  | cons it rest ih =>
    rw [posFrom, ih, List.length_cons, List.range_succ_eq_map]
    simp only [List.map_cons, List.sum_cons, List.map_map, Nat.add_zero, List.getD_cons_zero]
    congr 2
    apply List.map_congr_left
    intro j _
    simp only [Function.comp, Nat.succ_eq_add_one, List.getD_cons_succ]
    congr 2
    omega

end VL.Convert
