/-
  C10 — ballot-order independence of the transferable vote (Gregory engine), part 1:
  insertion-ordered dictionaries as maps.

  A Python `dict` is modelled as an association list in insertion order.  Two such lists describe the same
  dictionary up to insertion order when both have distinct keys and every key looks up related values
  (`DRel R`).  The update-or-insert operation `upd` (the shape shared by `pileAdd`, `allocAdd`, `seatsAdd1`)
  respects `DRel`, and two updates commute up to `DRel`; hence a fold of updates over a permuted list of
  requests yields a related dictionary (`foldl_perm_rel`).
-/
import VotelibProofs.Lemmas.PermBase
import VotelibProofs.Lemmas.PermQuota
import VotelibProofs.Lemmas.STVTotal
namespace VL.Perm.Stv
open VL VL.STV VL.C10

/-! ### generic dictionaries -/

section Dict
variable {κ α : Type} [DecidableEq κ]

/-- `d.get(k)` as an option (first match) -/
def getO (l : List (κ × α)) (k : κ) : Option α := (l.find? (fun p => p.1 = k)).map (·.2)

/-- update-or-insert: `d[k] = f(d.get(k, dflt))`, a new key goes to the end -/
def upd : List (κ × α) → κ → (α → α) → α → List (κ × α)
  | [], k, f, d => [(k, f d)]
  | (k', v) :: rest, k, f, d => if k' = k then (k', f v) :: rest else (k', v) :: upd rest k f d

/-- update only if present: `if k in d: d[k] = f(d[k])` -/
def modIf : List (κ × α) → κ → (α → α) → List (κ × α)
  | [], _, _ => []
  | (k', v) :: rest, k, f => if k' = k then (k', f v) :: rest else (k', v) :: modIf rest k f

inductive ORel (R : α → α → Prop) : Option α → Option α → Prop
  | none : ORel R none none
  | some {a b : α} : R a b → ORel R (some a) (some b)

/-- the same dictionary up to insertion order, values related by `R` -/
structure DRel (R : α → α → Prop) (l₁ l₂ : List (κ × α)) : Prop where
  nd₁ : (l₁.map (·.1)).Nodup
  nd₂ : (l₂.map (·.1)).Nodup
  rel : ∀ k, ORel R (getO l₁ k) (getO l₂ k)

theorem getO_nil (k : κ) : getO ([] : List (κ × α)) k = none := rfl

theorem getO_cons (p : κ × α) (l : List (κ × α)) (k : κ) :
    getO (p :: l) k = if p.1 = k then some p.2 else getO l k := by
  unfold getO
  rw [List.find?_cons]
  by_cases h : p.1 = k <;> simp [h]

theorem getO_eq_none {l : List (κ × α)} {k : κ} : getO l k = none ↔ k ∉ l.map (·.1) := by
  induction l with
  | nil => simp [getO_nil]
  | cons p ps ih =>
    rw [getO_cons]
    by_cases h : p.1 = k
    · simp [h]
    · rw [if_neg h, ih]
      simp only [List.map_cons, List.mem_cons, not_or]
      exact ⟨fun hh => ⟨fun e => h e.symm, hh⟩, fun hh => hh.2⟩

theorem getO_isSome {l : List (κ × α)} {k : κ} : (getO l k).isSome ↔ k ∈ l.map (·.1) := by
  rw [← not_iff_not, ← getO_eq_none]
  cases getO l k <;> simp

theorem getO_mem {l : List (κ × α)} {k : κ} {v : α} (h : getO l k = some v) : (k, v) ∈ l := by
  induction l with
  | nil => simp [getO_nil] at h
  | cons p ps ih =>
    rw [getO_cons] at h
    by_cases hp : p.1 = k
    · rw [if_pos hp] at h
      injection h with h
      have : p = (k, v) := by rw [← hp, ← h]
      rw [this]; exact List.mem_cons_self
    · rw [if_neg hp] at h
      exact List.mem_cons_of_mem _ (ih h)

theorem getO_of_mem {l : List (κ × α)} (hn : (l.map (·.1)).Nodup) {k : κ} {v : α} (h : (k, v) ∈ l) :
    getO l k = some v := by
  induction l with
  | nil => simp at h
  | cons p ps ih =>
    rw [getO_cons]
    simp only [List.map_cons, List.nodup_cons] at hn
    rcases List.mem_cons.mp h with h1 | h1
    · rw [← h1]; simp
    · have : p.1 ≠ k := by
        intro e
        exact hn.1 (List.mem_map.mpr ⟨(k, v), h1, e.symm⟩)
      rw [if_neg this]; exact ih hn.2 h1

theorem getO_upd (l : List (κ × α)) (k : κ) (f : α → α) (d : α) (k' : κ) :
    getO (upd l k f d) k' = if k' = k then some (f ((getO l k).getD d)) else getO l k' := by
  induction l with
  | nil =>
    simp only [upd, getO_cons, getO_nil]
    by_cases h : k' = k
    · rw [if_pos h.symm, if_pos h]; rfl
    · rw [if_neg (fun e => h e.symm), if_neg h]
  | cons p ps ih =>
    obtain ⟨k₀, v⟩ := p
    simp only [upd]
    by_cases hp : k₀ = k
    · rw [if_pos hp]
      simp only [getO_cons]
      by_cases h : k' = k
      · simp [h, hp]
      · have : ¬ k₀ = k' := fun e => h (e.symm.trans hp)
        simp [h, this]
    · rw [if_neg hp]
      simp only [getO_cons, ih]
      by_cases h : k' = k
      · simp [h, hp]
      · simp [h]

theorem keys_upd (l : List (κ × α)) (k : κ) (f : α → α) (d : α) :
    (upd l k f d).map (·.1) = if k ∈ l.map (·.1) then l.map (·.1) else l.map (·.1) ++ [k] := by
  induction l with
  | nil => simp [upd]
  | cons p ps ih =>
    obtain ⟨k₀, v⟩ := p
    simp only [upd]
    by_cases hp : k₀ = k
    · rw [if_pos hp]; simp [hp]
    · rw [if_neg hp]
      simp only [List.map_cons, ih, List.mem_cons]
      by_cases hm : k ∈ ps.map (·.1)
      · simp [hm]
      · have : ¬ (k = k₀ ∨ k ∈ ps.map (·.1)) := by
          rintro (e | e)
          · exact hp e.symm
          · exact hm e
        rw [if_neg hm, if_neg this]; rfl

theorem nodup_upd {l : List (κ × α)} (hn : (l.map (·.1)).Nodup) (k : κ) (f : α → α) (d : α) :
    ((upd l k f d).map (·.1)).Nodup := by
  rw [keys_upd]
  split
  · exact hn
  · rename_i hm
    exact List.nodup_append.mpr ⟨hn, List.nodup_singleton _, by
      intro x hx y hy; simp at hy; subst hy; intro he; subst he; exact hm hx⟩

theorem getO_modIf (l : List (κ × α)) (k : κ) (f : α → α) (k' : κ) :
    getO (modIf l k f) k' = if k' = k then (getO l k).map f else getO l k' := by
  induction l with
  | nil => simp [modIf, getO_nil]
  | cons p ps ih =>
    obtain ⟨k₀, v⟩ := p
    simp only [modIf]
    by_cases hp : k₀ = k
    · rw [if_pos hp]
      simp only [getO_cons]
      by_cases h : k' = k
      · simp [h, hp]
      · have : ¬ k₀ = k' := fun e => h (e.symm.trans hp)
        simp [h, this]
    · rw [if_neg hp]
      simp only [getO_cons, ih]
      by_cases h : k' = k
      · simp [h, hp]
      · simp [h]

theorem keys_modIf (l : List (κ × α)) (k : κ) (f : α → α) : (modIf l k f).map (·.1) = l.map (·.1) := by
  induction l with
  | nil => rfl
  | cons p ps ih =>
    obtain ⟨k₀, v⟩ := p
    simp only [modIf]
    split
    · simp
    · simp only [List.map_cons, ih]

theorem getO_filter (l : List (κ × α)) (q : κ → Bool) (k : κ) :
    getO (l.filter (fun p => q p.1)) k = if q k then getO l k else none := by
  induction l with
  | nil => simp [getO_nil]
  | cons p ps ih =>
    rw [List.filter_cons]
    by_cases hq : q p.1 = true
    · rw [if_pos hq, getO_cons, getO_cons, ih]
      by_cases h : p.1 = k
      · rw [if_pos h, if_pos h, ← h, if_pos hq]
      · rw [if_neg h, if_neg h]
    · rw [if_neg hq, ih, getO_cons]
      by_cases h : p.1 = k
      · rw [if_pos h, ← h, if_neg hq]; simp [hq]
      · rw [if_neg h]

omit [DecidableEq κ] in
theorem nodup_filter_keys {l : List (κ × α)} (hn : (l.map (·.1)).Nodup) (q : κ × α → Bool) :
    ((l.filter q).map (·.1)).Nodup :=
  List.Nodup.sublist (List.Sublist.map _ List.filter_sublist) hn

/-! #### the relation -/

theorem ORel.symm {R : α → α → Prop} (hs : ∀ a b, R a b → R b a) {x y : Option α} (h : ORel R x y) : ORel R y x := by
  cases h with
  | none => exact .none
  | some h => exact .some (hs _ _ h)

theorem ORel.trans {R : α → α → Prop} (ht : ∀ a b c, R a b → R b c → R a c) {x y z : Option α}
    (h₁ : ORel R x y) (h₂ : ORel R y z) : ORel R x z := by
  cases h₁ with
  | none => cases h₂; exact .none
  | some h => cases h₂ with
    | some h' => exact .some (ht _ _ _ h h')

theorem ORel.isSome_eq {R : α → α → Prop} {x y : Option α} (h : ORel R x y) : x.isSome = y.isSome := by
  cases h <;> rfl

theorem ORel.elim {R : α → α → Prop} {x y : Option α} (h : ORel R x y) :
    (x = Option.none ∧ y = Option.none) ∨ ∃ a b, x = Option.some a ∧ y = Option.some b ∧ R a b := by
  cases h with
  | none => exact Or.inl ⟨rfl, rfl⟩
  | some h => exact Or.inr ⟨_, _, rfl, rfl, h⟩

theorem ORel.left_refl {R : α → α → Prop} (hs : ∀ a b, R a b → R b a) (ht : ∀ a b c, R a b → R b c → R a c)
    {x y : Option α} (h : ORel R x y) : ORel R x x := ORel.trans ht h (ORel.symm hs h)

theorem DRel.symm {R : α → α → Prop} (hs : ∀ a b, R a b → R b a) {l₁ l₂ : List (κ × α)} (h : DRel R l₁ l₂) :
    DRel R l₂ l₁ := ⟨h.nd₂, h.nd₁, fun k => (h.rel k).symm hs⟩

theorem DRel.trans {R : α → α → Prop} (ht : ∀ a b c, R a b → R b c → R a c) {l₁ l₂ l₃ : List (κ × α)}
    (h₁ : DRel R l₁ l₂) (h₂ : DRel R l₂ l₃) : DRel R l₁ l₃ :=
  ⟨h₁.nd₁, h₂.nd₂, fun k => (h₁.rel k).trans ht (h₂.rel k)⟩

theorem DRel.mem_keys {R : α → α → Prop} {l₁ l₂ : List (κ × α)} (h : DRel R l₁ l₂) (k : κ) :
    k ∈ l₁.map (·.1) ↔ k ∈ l₂.map (·.1) := by
  rw [← getO_isSome, ← getO_isSome, (h.rel k).isSome_eq]

theorem DRel.keys_perm {R : α → α → Prop} {l₁ l₂ : List (κ × α)} (h : DRel R l₁ l₂) :
    (l₁.map (·.1)).Perm (l₂.map (·.1)) :=
  (List.perm_ext_iff_of_nodup h.nd₁ h.nd₂).mpr (fun k => h.mem_keys k)

theorem DRel.left {R : α → α → Prop} (hs : ∀ a b, R a b → R b a) (ht : ∀ a b c, R a b → R b c → R a c)
    {l₁ l₂ : List (κ × α)} (h : DRel R l₁ l₂) : DRel R l₁ l₁ := h.trans ht (h.symm hs)

theorem DRel.right {R : α → α → Prop} (hs : ∀ a b, R a b → R b a) (ht : ∀ a b c, R a b → R b c → R a c)
    {l₁ l₂ : List (κ × α)} (h : DRel R l₁ l₂) : DRel R l₂ l₂ := (h.symm hs).trans ht h

/-- values under a key, with a default, are related -/
theorem DRel.getD {R : α → α → Prop} {l₁ l₂ : List (κ × α)} (h : DRel R l₁ l₂) (k : κ) {d : α} (hd : R d d) :
    R ((getO l₁ k).getD d) ((getO l₂ k).getD d) := by
  rcases (h.rel k).elim with ⟨e₁, e₂⟩ | ⟨a, b, e₁, e₂, hab⟩
  · rw [e₁, e₂]; exact hd
  · rw [e₁, e₂]; exact hab

theorem DRel.upd {R : α → α → Prop} {l₁ l₂ : List (κ × α)} (h : DRel R l₁ l₂) (k : κ) {f : α → α} {d : α}
    (hf : ∀ v v', R v v' → R (f v) (f v')) (hd : R d d) : DRel R (upd l₁ k f d) (upd l₂ k f d) := by
  refine ⟨nodup_upd h.nd₁ _ _ _, nodup_upd h.nd₂ _ _ _, fun k' => ?_⟩
  rw [getO_upd, getO_upd]
  by_cases hk : k' = k
  · rw [if_pos hk, if_pos hk]; exact .some (hf _ _ (h.getD k hd))
  · rw [if_neg hk, if_neg hk]; exact h.rel k'

/-- two updates commute up to the relation -/
theorem upd_comm {R : α → α → Prop} {l : List (κ × α)} (h : DRel R l l) (k k' : κ) {f g : α → α} {d : α}
    (hf : ∀ v v', R v v' → R (f v) (f v')) (hg : ∀ v v', R v v' → R (g v) (g v')) (hd : R d d)
    (hc : ∀ v, R v v → R (g (f v)) (f (g v))) :
    DRel R (upd (upd l k f d) k' g d) (upd (upd l k' g d) k f d) := by
  refine ⟨nodup_upd (nodup_upd h.nd₁ _ _ _) _ _ _, nodup_upd (nodup_upd h.nd₁ _ _ _) _ _ _, fun x => ?_⟩
  simp only [getO_upd]
  by_cases hkk : k = k'
  · subst hkk
    by_cases hx : x = k
    · simp only [hx, if_true, Option.getD_some]
      exact .some (hc _ (h.getD k hd))
    · simp only [hx, if_false]; exact h.rel x
  · have hkk' : ¬ k' = k := fun e => hkk e.symm
    by_cases hx : x = k
    · subst hx
      simp only [hkk, hkk', if_true, if_false]
      exact .some (hf _ _ (h.getD x hd))
    · by_cases hx' : x = k'
      · subst hx'
        simp only [hkk', if_true, if_false]
        exact .some (hg _ _ (h.getD x hd))
      · simp only [hx, hx', if_false]; exact h.rel x

theorem DRel.modIf {R : α → α → Prop} {l₁ l₂ : List (κ × α)} (h : DRel R l₁ l₂) (k : κ) {f g : α → α}
    (hf : ∀ v v', R v v' → R (f v) (g v')) : DRel R (modIf l₁ k f) (modIf l₂ k g) := by
  refine ⟨by rw [keys_modIf]; exact h.nd₁, by rw [keys_modIf]; exact h.nd₂, fun k' => ?_⟩
  rw [getO_modIf, getO_modIf]
  by_cases hk : k' = k
  · rw [if_pos hk, if_pos hk]
    rcases (h.rel k).elim with ⟨e₁, e₂⟩ | ⟨a, b, e₁, e₂, hab⟩
    · rw [e₁, e₂]; exact .none
    · rw [e₁, e₂]; exact .some (hf _ _ hab)
  · rw [if_neg hk, if_neg hk]; exact h.rel k'

theorem modIf_comm {R : α → α → Prop} {l : List (κ × α)} (h : DRel R l l) {k k' : κ} (hne : k ≠ k') {f g : α → α}
    (hf : ∀ v v', R v v' → R (f v) (f v')) (hg : ∀ v v', R v v' → R (g v) (g v')) :
    DRel R (modIf (modIf l k f) k' g) (modIf (modIf l k' g) k f) := by
  refine ⟨by rw [keys_modIf, keys_modIf]; exact h.nd₁, by rw [keys_modIf, keys_modIf]; exact h.nd₁, fun x => ?_⟩
  simp only [getO_modIf]
  have hne' : ¬ k' = k := fun e => hne e.symm
  by_cases hx : x = k
  · subst hx
    simp only [hne, hne', if_true, if_false]
    rcases (h.rel x).elim with ⟨e₁, _⟩ | ⟨a, b, e₁, e₂, hab⟩
    · rw [e₁]; exact .none
    · rw [e₁] at e₂; injection e₂ with e₂; subst e₂; rw [e₁]; exact .some (hf _ _ hab)
  · by_cases hx' : x = k'
    · subst hx'
      simp only [hne', if_true, if_false]
      rcases (h.rel x).elim with ⟨e₁, _⟩ | ⟨a, b, e₁, e₂, hab⟩
      · rw [e₁]; exact .none
      · rw [e₁] at e₂; injection e₂ with e₂; subst e₂; rw [e₁]; exact .some (hg _ _ hab)
    · simp only [hx, hx', if_false]; exact h.rel x

theorem DRel.filter {R : α → α → Prop} {l₁ l₂ : List (κ × α)} (h : DRel R l₁ l₂) (q : κ → Bool) :
    DRel R (l₁.filter (fun p => q p.1)) (l₂.filter (fun p => q p.1)) := by
  refine ⟨nodup_filter_keys h.nd₁ _, nodup_filter_keys h.nd₂ _, fun k => ?_⟩
  rw [getO_filter, getO_filter]
  split
  · exact h.rel k
  · exact .none

/-- with equality on the values: a permutation -/
theorem DRel.perm {l₁ l₂ : List (κ × α)} (h : DRel Eq l₁ l₂) : l₁.Perm l₂ := by
  have n₁ : l₁.Nodup := List.Nodup.of_map _ h.nd₁
  have n₂ : l₂.Nodup := List.Nodup.of_map _ h.nd₂
  refine (List.perm_ext_iff_of_nodup n₁ n₂).mpr (fun p => ?_)
  obtain ⟨k, v⟩ := p
  constructor
  · intro hm
    have h1 := getO_of_mem h.nd₁ hm
    have := h.rel k
    rw [h1] at this
    cases hh : getO l₂ k with
    | none => rw [hh] at this; cases this
    | some v' =>
      rw [hh] at this
      cases this with
      | some e => subst e; exact getO_mem hh
  · intro hm
    have h1 := getO_of_mem h.nd₂ hm
    have := h.rel k
    rw [h1] at this
    cases hh : getO l₁ k with
    | none => rw [hh] at this; cases this
    | some v' =>
      rw [hh] at this
      cases this with
      | some e => subst e; exact getO_mem hh

theorem getO_perm {l₁ l₂ : List (κ × α)} (h : l₁.Perm l₂) (hn : (l₁.map (·.1)).Nodup) (k : κ) :
    getO l₁ k = getO l₂ k := by
  unfold getO
  rw [find?_perm_of_nodup_keys (fun p : κ × α => p.1) h hn k]

theorem DRel.of_perm {l₁ l₂ : List (κ × α)} (h : l₁.Perm l₂) (hn : (l₁.map (·.1)).Nodup) : DRel Eq l₁ l₂ := by
  refine ⟨hn, (h.map _).nodup_iff.mp hn, fun k => ?_⟩
  rw [← getO_perm h hn k]
  cases getO l₁ k with
  | none => exact .none
  | some v => exact .some rfl

theorem DRel.refl_of_nodup {l : List (κ × α)} (hn : (l.map (·.1)).Nodup) : DRel Eq l l :=
  DRel.of_perm (List.Perm.refl _) hn

end Dict

/-! ### folds of commuting operations over permuted request lists -/

theorem foldl_perm_rel {S X : Type} (E : S → S → Prop) (hsymm : ∀ s t, E s t → E t s)
    (htrans : ∀ s t u, E s t → E t u → E s u) (f : S → X → S) (P : X → X → Prop) (hP : ∀ x y, P x y → P y x)
    (cong : ∀ x s s', E s s' → E (f s x) (f s' x))
    (comm : ∀ x y s, P x y → E s s → E (f (f s x) y) (f (f s y) x))
    {l₁ l₂ : List X} (h : l₁.Perm l₂) (hp : l₁.Pairwise P) :
    ∀ s s', E s s' → E (l₁.foldl f s) (l₂.foldl f s') := by
  have congL : ∀ (l : List X) s s', E s s' → E (l.foldl f s) (l.foldl f s') := by
    intro l
    induction l with
    | nil => intro s s' h; exact h
    | cons x xs ih => intro s s' h; exact ih _ _ (cong x _ _ h)
  induction h with
  | nil => intro s s' h; exact h
  | cons x _ ih =>
    intro s s' hs
    exact ih (List.pairwise_cons.mp hp).2 _ _ (cong x _ _ hs)
  | swap x y l =>
    intro s s' hs
    simp only [List.foldl_cons]
    have hyx : P y x := (List.pairwise_cons.mp hp).1 x List.mem_cons_self
    have hss : E s s := htrans _ _ _ hs (hsymm _ _ hs)
    have h1 : E (f (f s y) x) (f (f s x) y) := comm y x s hyx hss
    have h2 : E (f (f s x) y) (f (f s' x) y) := cong y _ _ (cong x _ _ hs)
    exact congL l _ _ (htrans _ _ _ h1 h2)
  | trans h₁ _ ih₁ ih₂ =>
    intro s s' hs
    have hss : E s' s' := htrans _ _ _ (hsymm _ _ hs) hs
    have hp2 := (h₁.pairwise_iff (fun {a b} => hP a b)).mp hp
    exact htrans _ _ _ (ih₁ hp s s' hs) (ih₂ hp2 s' s' hss)

end VL.Perm.Stv
