/-
  C08 helper lemmas for the Condorcet evaluators that end in `get_n_best` over a score table seeded with the
  candidates of the pairwise dictionary (Copeland, Schulze, minimax; models of C05), incl. Copeland's second-order
  tie breaking (`untied ++ get_n_best(second order scores of the tied)`).
-/
import VotelibProofs.Lemmas.ShapeDefs
import VotelibProofs.Lemmas.Schulze
namespace VL.C08
open VL VL.Condorcet

/-- **structure of `get_n_best`**: a duplicate-free list `A` of elected candidates followed by `k` copies of one tie
    object `L`, where either `k = 0` or `0 < k < |L|`; nobody is in both -/
theorem getNBest_struct (votes : Votes) (hwf : C09.WF votes) (n : Nat) (h1 : 1 ≤ n) (hlen : n ≤ votes.length) :
    ∃ (A L : List Cand) (k : Nat), getNBest votes n = A.map Slot.cand ++ List.replicate k (Slot.tie L) ∧
      (A ++ L).Nodup ∧ (∀ c ∈ A ++ L, c ∈ keys votes) ∧ (k = 0 ∨ k < L.length) ∧ A.length + k = n := by
  rcases Nat.lt_or_ge n votes.length with hlt | hge
  · obtain ⟨t, ht⟩ := nth_exists votes n h1 hlen
    have hnd := ge_keys_nodup votes hwf t
    have habove_key : ∀ p ∈ aboveSorted votes t, p.1 ∈ keys votes := fun p hp =>
      List.mem_map.mpr ⟨p, (C09.mem_aboveSorted.mp hp).1, rfl⟩
    have hlevel_key : ∀ c ∈ level votes t, c ∈ keys votes := by
      intro c hc
      simp only [level, List.mem_map, List.mem_filter] at hc
      obtain ⟨p, ⟨hp, _⟩, rfl⟩ := hc
      exact List.mem_map.mpr ⟨p, hp, rfl⟩
    have hkeys : ∀ c ∈ (aboveSorted votes t).map (·.1) ++ level votes t, c ∈ keys votes := by
      intro c hc
      rcases List.mem_append.mp hc with h | h
      · obtain ⟨p, hp, rfl⟩ := List.mem_map.mp h; exact habove_key p hp
      · exact hlevel_key c h
    have habove : (aboveSorted votes t).length = cntGt votes t := by
      unfold aboveSorted; exact sortDesc_filter_length votes _
    have hcount : cntGe votes t = cntGt votes t + (level votes t).length := by
      have hsplit := congrArg List.length (desc_filter_ge_split (sortDesc_desc votes) t)
      rw [List.length_append] at hsplit
      have e1 : (List.filter (fun p => decide (t ≤ p.2)) (sortDesc votes)).length = cntGe votes t :=
        sortDesc_filter_length votes _
      have e2 : (List.filter (fun p => decide (t < p.2)) (sortDesc votes)).length = cntGt votes t :=
        sortDesc_filter_length votes _
      have e3 : (List.filter (fun p => decide (p.2 = t)) (sortDesc votes)).length = (level votes t).length := by
        rw [sortDesc_filter_eq]; simp [level]
      omega
    rcases Nat.lt_or_ge n (cntGe votes t) with hno | hfit
    · refine ⟨(aboveSorted votes t).map (·.1), level votes t, n - cntGt votes t, ?_, hnd, hkeys, Or.inr ?_, ?_⟩
      · rw [C09.getNBest_tie votes n h1 hlt t ht hno, List.map_map]; rfl
      · have := ht.2.1; omega
      · rw [List.length_map, habove]; have := ht.2.1; omega
    · refine ⟨(aboveSorted votes t).map (·.1) ++ level votes t, [], 0, ?_, by simpa using hnd, by simpa using hkeys,
        Or.inl rfl, ?_⟩
      · rw [C09.getNBest_fits votes n h1 hlt t ht hfit, List.map_append, List.map_map]; simp
      · have hl := C09.getNBest_length votes n h1 hlen
        rw [C09.getNBest_fits votes n h1 hlt t ht hfit] at hl
        simp only [List.length_append, List.length_map] at hl ⊢
        omega
  · have hs : ((sortDesc votes).map (·.1)).Nodup := ((sortDesc_perm votes).map _).nodup_iff.mpr hwf
    refine ⟨(sortDesc votes).map (·.1), [], 0, ?_, by simpa using hs, ?_, Or.inl rfl, ?_⟩
    · rw [getNBest_all votes n hge, List.map_map]; simp
    · intro c hc
      simp only [List.append_nil] at hc
      obtain ⟨p, hp, rfl⟩ := List.mem_map.mp hc
      exact List.mem_map.mpr ⟨p, mem_sortDesc.mp hp, rfl⟩
    · simp only [List.length_map, sortDesc_length]; omega

/-- a duplicate-free block of elected candidates in front of a selection over other candidates -/
theorem SelShape.prepend {cands : List Cand} {A C : List Cand} {k : Nat} {r : List Slot} (h : SelShape C k r)
    (hA : A.Nodup) (hdisj : ∀ c ∈ A, c ∉ C) (hAc : ∀ c ∈ A, c ∈ cands) (hCc : ∀ c ∈ C, c ∈ cands) :
    SelShape cands (A.length + k) (A.map Slot.cand ++ r) := by
  have hnotie : ∀ T, Slot.tie T ∉ A.map Slot.cand := by
    intro T hT; obtain ⟨_, _, he⟩ := List.mem_map.mp hT; cases he
  refine ⟨by simp [h.length], ?_, ?_, ?_, ?_, ?_⟩
  · intro c hc
    rcases List.mem_append.mp hc with hc | hc
    · obtain ⟨d, hd, he⟩ := List.mem_map.mp hc; injection he with he; subst he; exact hAc _ hd
    · exact hCc c (h.cand_ok c hc)
  · intro T hT c hc
    rcases List.mem_append.mp hT with hT | hT
    · exact absurd hT (hnotie T)
    · exact hCc c (h.tie_ok T hT c hc)
  · rw [electedOf_append, electedOf_map_cand]
    refine List.nodup_append.mpr ⟨hA, h.nodup, ?_⟩
    intro a ha b hb hab
    subst hab
    have : Slot.cand a ∈ r := by
      clear hnotie
      have hgen : ∀ (l : List Slot), a ∈ electedOf l → Slot.cand a ∈ l := by
        intro l
        induction l with
        | nil => intro hm; simp [electedOf] at hm
        | cons x xs ih =>
          intro hm
          cases x with
          | cand c =>
            simp only [electedOf, List.mem_cons] at hm
            rcases hm with rfl | hm
            · exact List.mem_cons_self
            · exact List.mem_cons_of_mem _ (ih hm)
          | tie T => simp only [electedOf] at hm; exact List.mem_cons_of_mem _ (ih hm)
      exact hgen r hb
    exact hdisj a ha (h.cand_ok a this)
  · intro T hT
    rcases List.mem_append.mp hT with hT | hT
    · exact absurd hT (hnotie T)
    · rw [List.count_append, List.count_eq_zero.mpr (hnotie T), Nat.zero_add]; exact h.tie_big T hT
  · intro T hT c hc hcand
    rcases List.mem_append.mp hT with hT | hT
    · exact absurd hT (hnotie T)
    · rcases List.mem_append.mp hcand with hcand | hcand
      · obtain ⟨d, hd, he⟩ := List.mem_map.mp hcand; injection he with he; subst he
        exact hdisj _ hd (h.tie_ok T hT _ hc)
      · exact h.disjoint T hT c hc hcand

/-! ### Copeland's second-order tie breaking -/

theorem mem_insertSorted {c x : Cand} {l : List Cand} : x ∈ insertSorted c l ↔ x = c ∨ x ∈ l := by
  induction l with
  | nil => simp [insertSorted]
  | cons y ys ih =>
    unfold insertSorted
    split
    · simp
    · split
      · rename_i h; subst h; simp
      · simp only [List.mem_cons, ih]; tauto

theorem sorted_insertSorted {c : Cand} {l : List Cand} (h : l.Pairwise (· < ·)) :
    (insertSorted c l).Pairwise (· < ·) := by
  induction l with
  | nil => simp [insertSorted]
  | cons y ys ih =>
    unfold insertSorted
    have hy := List.pairwise_cons.mp h
    split
    · rename_i hlt
      refine List.pairwise_cons.mpr ⟨?_, h⟩
      intro z hz
      rcases List.mem_cons.mp hz with rfl | hz
      · exact hlt
      · exact Nat.lt_trans hlt (hy.1 z hz)
    · split
      · exact h
      · rename_i h1 h2
        refine List.pairwise_cons.mpr ⟨?_, ih hy.2⟩
        intro z hz
        rcases mem_insertSorted.mp hz with rfl | hz
        · exact Nat.lt_of_le_of_ne (Nat.le_of_not_lt h1) (fun e => h2 e.symm)
        · exact hy.1 z hz

/-- the Python `set` of all members of the tie objects of `best`, as the model builds it -/
def tiedOf (best : List Slot) : List Cand :=
  best.foldl (fun acc s => match s with
    | .tie cs => cs.foldl (fun a c => insertSorted c a) acc
    | .cand _ => acc) []

theorem foldl_insertSorted_spec (cs : List Cand) : ∀ acc : List Cand, acc.Pairwise (· < ·) →
    (cs.foldl (fun a c => insertSorted c a) acc).Pairwise (· < ·) ∧
      ∀ x, x ∈ cs.foldl (fun a c => insertSorted c a) acc ↔ x ∈ cs ∨ x ∈ acc := by
  induction cs with
  | nil => intro acc h; exact ⟨h, by simp⟩
  | cons c cs ih =>
    intro acc h
    simp only [List.foldl_cons]
    obtain ⟨h1, h2⟩ := ih (insertSorted c acc) (sorted_insertSorted h)
    refine ⟨h1, fun x => ?_⟩
    rw [h2, mem_insertSorted, List.mem_cons]; tauto

theorem tiedOf_spec (A L : List Cand) (k : Nat) (hk : 0 < k) :
    (tiedOf (A.map Slot.cand ++ List.replicate k (Slot.tie L))).Pairwise (· < ·) ∧
      ∀ x, x ∈ tiedOf (A.map Slot.cand ++ List.replicate k (Slot.tie L)) ↔ x ∈ L := by
  unfold tiedOf
  rw [List.foldl_append]
  have hA : ∀ acc : List Cand, (A.map Slot.cand).foldl (fun acc s => match s with
      | .tie cs => cs.foldl (fun a c => insertSorted c a) acc
      | .cand _ => acc) acc = acc := by
    induction A with
    | nil => intro acc; rfl
    | cons a as ih => intro acc; simp only [List.map_cons, List.foldl_cons]; exact ih acc
  rw [hA]
  have hrep : ∀ (k : Nat) (acc : List Cand), acc.Pairwise (· < ·) →
      ((List.replicate k (Slot.tie L)).foldl (fun acc s => match s with
        | .tie cs => cs.foldl (fun a c => insertSorted c a) acc
        | .cand _ => acc) acc).Pairwise (· < ·) ∧
      ∀ x, x ∈ (List.replicate k (Slot.tie L)).foldl (fun acc s => match s with
        | .tie cs => cs.foldl (fun a c => insertSorted c a) acc
        | .cand _ => acc) acc ↔ (0 < k ∧ x ∈ L) ∨ x ∈ acc := by
    intro k
    induction k with
    | zero => intro acc h; exact ⟨h, by simp⟩
    | succ j ih =>
      intro acc h
      simp only [List.replicate_succ, List.foldl_cons]
      obtain ⟨s1, s2⟩ := foldl_insertSorted_spec L acc h
      obtain ⟨h1, h2⟩ := ih _ s1
      refine ⟨h1, fun x => ?_⟩
      rw [h2, s2]
      constructor
      · rintro (⟨_, hx⟩ | hx | hx)
        · exact Or.inl ⟨Nat.succ_pos _, hx⟩
        · exact Or.inl ⟨Nat.succ_pos _, hx⟩
        · exact Or.inr hx
      · rintro (⟨_, hx⟩ | hx)
        · exact Or.inr (Or.inl hx)
        · exact Or.inr (Or.inr hx)
  obtain ⟨h1, h2⟩ := hrep k [] List.Pairwise.nil
  refine ⟨h1, fun x => ?_⟩
  rw [h2]; simp [hk]

theorem nodup_of_sorted {l : List Cand} (h : l.Pairwise (· < ·)) : l.Nodup :=
  h.imp (fun hab => Nat.ne_of_lt hab)

theorem filter_not_isTie (A L : List Cand) (k : Nat) :
    (A.map Slot.cand ++ List.replicate k (Slot.tie L)).filter (fun s => !isTie s) = A.map Slot.cand := by
  rw [List.filter_append]
  have h1 : (A.map Slot.cand).filter (fun s => !isTie s) = A.map Slot.cand := by
    apply List.filter_eq_self.mpr
    intro s hs; obtain ⟨_, _, rfl⟩ := List.mem_map.mp hs; rfl
  have h2 : (List.replicate k (Slot.tie L)).filter (fun s => !isTie s) = [] := by
    apply List.filter_eq_nil_iff.mpr
    intro s hs; rw [(List.mem_replicate.mp hs).2]; simp [isTie]
  rw [h1, h2, List.append_nil]

theorem any_isTie (A L : List Cand) (k : Nat) :
    (A.map Slot.cand ++ List.replicate k (Slot.tie L)).any isTie = decide (0 < k) := by
  rw [List.any_append]
  have h1 : (A.map Slot.cand).any isTie = false := by
    rw [List.any_eq_false]; intro s hs; obtain ⟨_, _, rfl⟩ := List.mem_map.mp hs; simp [isTie]
  rw [h1, Bool.false_or]
  cases k with
  | zero => simp
  | succ j => simp [List.replicate_succ, isTie]

/-- keys of the second-order score table are the tied candidates -/
theorem keys_sos (tied : List Cand) (scores : Votes) (wins : List Pair) :
    keys (wins.foldl (fun d w => if tied.contains w.1 then incr d w.1 (getD scores w.2 0) else d)
      (tied.map (fun c => (c, (0 : Rat))))) = tied := by
  apply foldl_preserves (fun d => keys d = tied)
  · simp [keys, List.map_map, Function.comp_def]
  · intro d w _ hd
    split
    · rename_i hc
      rw [keys_incr_of_mem (by rw [hd]; simpa using hc), hd]
    · exact hd

/-- **shape of Copeland's tie breaking**: when `best` is a `get_n_best` result over candidates `cands` -/
theorem breakSecondOrder_shape (cands : List Cand) (A L : List Cand) (k : Nat) (scores : Votes) (wins : List Pair)
    (hnd : (A ++ L).Nodup) (hc : ∀ c ∈ A ++ L, c ∈ cands) (hk0 : 0 < k) (hk : k < L.length) :
    SelShape cands (A.length + k)
      (breakSecondOrder (A.map Slot.cand ++ List.replicate k (Slot.tie L)) scores wins) := by
  unfold breakSecondOrder
  simp only
  rw [filter_not_isTie]
  change SelShape cands (A.length + k) (A.map Slot.cand ++ getNBest
    (wins.foldl (fun d w => if (tiedOf (A.map Slot.cand ++ List.replicate k (Slot.tie L))).contains w.1
      then incr d w.1 (getD scores w.2 0) else d)
      ((tiedOf (A.map Slot.cand ++ List.replicate k (Slot.tie L))).map (fun c => (c, (0 : Rat)))))
    ((A.map Slot.cand ++ List.replicate k (Slot.tie L)).length - (A.map Slot.cand).length))
  obtain ⟨hsorted, hmem⟩ := tiedOf_spec A L k hk0
  generalize tiedOf (A.map Slot.cand ++ List.replicate k (Slot.tie L)) = tied at hsorted hmem
  have hlen : (A.map Slot.cand ++ List.replicate k (Slot.tie L)).length - (A.map Slot.cand).length = k := by
    simp
  rw [hlen]
  have htnd : tied.Nodup := nodup_of_sorted hsorted
  have hLnd : L.Nodup := (List.nodup_append.mp hnd).2.1
  have hperm : tied.Perm L := (List.perm_ext_iff_of_nodup htnd hLnd).mpr hmem
  have hsel : SelShape tied k (getNBest _ k) :=
    getNBest_shape_of_keys _ tied (keys_sos tied scores wins) htnd k hk0 (by rw [hperm.length_eq]; omega)
  refine SelShape.prepend hsel (List.nodup_append.mp hnd).1 ?_ (fun c hc' => hc c (List.mem_append_left _ hc'))
    (fun c hc' => hc c (List.mem_append_right _ ((hmem c).mp hc')))
  intro c hcA hct
  exact (List.nodup_append.mp hnd).2.2 c hcA c ((hmem c).mp hct) rfl

end VL.C08
