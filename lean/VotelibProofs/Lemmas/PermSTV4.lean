/-
  C10 — ballot-order independence of the transferable vote (Gregory engine), part 4:
  one count (`next_count`), the loop of `nth_count` / `evaluate`, and the end theorems.

  Simulation relation between the two runs (`StRel`): the allocations are the same dict of dicts up to insertion
  order (`AllocRel`), the seats are the same dict up to insertion order (`SeatsRel`); every count preserves it.
-/
import VotelibProofs.Lemmas.PermSTV3
namespace VL.Perm.Stv
open VL VL.STV VL.C10

theorem exceptEquiv_elim {α : Type} {R : α → α → Prop} {x y : Except Err α} (h : ExceptEquiv R x y) :
    (∃ e, x = .error e ∧ y = .error e) ∨ ∃ a b, x = .ok a ∧ y = .ok b ∧ R a b := by
  cases x with
  | error e =>
    cases y with
    | error f => exact Or.inl ⟨e, rfl, by rw [show e = f from h]⟩
    | ok b => exact absurd h id
  | ok a =>
    cases y with
    | error f => exact absurd h id
    | ok b => exact Or.inr ⟨a, b, rfl, rfl, h⟩

theorem allocRel_nil : AllocRel [] [] := ⟨by simp, by simp, fun _ => .none⟩

theorem seatsRel_nil : SeatsRel [] [] := DRel.refl_of_nodup (by simp)

/-- outputs of one count that agree up to insertion order -/
structure OutRel (o₁ o₂ : CountOut) : Prop where
  alloc : AllocRel o₁.alloc o₂.alloc
  elected : SeatsRel o₁.elected o₂.elected
  eliminated : o₁.eliminated.Perm o₂.eliminated
  shortcut : o₁.shortcut = o₂.shortcut

/-- results of `next_count` in the two runs: the same exception, or related outputs -/
abbrev NextRel (x y : Except Err (CountOut × List Draw)) : Prop :=
  ExceptEquiv (fun r₁ r₂ => OutRel r₁.1 r₂.1 ∧ r₁.2 = r₂.2) x y

theorem perm_eq_nil_iff {α : Type} {l₁ l₂ : List α} (h : l₁.Perm l₂) : l₁ = [] ↔ l₂ = [] :=
  ⟨fun e => (e ▸ h).symm.eq_nil, fun e => (e ▸ h).eq_nil⟩

theorem transferIf_gregory_perm {a₁ a₂ : Alloc} (h : AllocRel a₁ a₂) {e₁ e₂ : List Cand} (he : e₁.Perm e₂)
    (ds : List Draw) :
    ∃ b₁ b₂, transferIf gregory a₁ e₁ ds = .ok (b₁, ds) ∧ transferIf gregory a₂ e₂ ds = .ok (b₂, ds) ∧
      AllocRel b₁ b₂ := by
  unfold transferIf
  by_cases h0 : e₁ = []
  · rw [if_pos h0, if_pos ((perm_eq_nil_iff he).mp h0)]
    exact ⟨_, _, rfl, rfl, h⟩
  · rw [if_neg h0, if_neg (fun e => h0 ((perm_eq_nil_iff he).mpr e))]
    exact transfer_gregory_perm h (fun c => he.mem_iff) ds

theorem filter_perm_congr {α : Type} {l₁ l₂ : List α} (h : l₁.Perm l₂) {p q : α → Bool} (hpq : ∀ x, p x = q x) :
    (l₁.filter p).Perm (l₂.filter q) := by
  have : p = q := funext hpq
  subst this
  exact h.filter _

theorem fullyElected_perm {el₁ el₂ p₁ p₂ m₁ m₂ : Seats} (hel : SeatsRel el₁ el₂) (hp : SeatsRel p₁ p₂)
    (hm : SeatsRel m₁ m₂) : (fullyElected el₁ p₁ m₁).Perm (fullyElected el₂ p₂ m₂) := by
  unfold fullyElected
  have hadd : SeatsRel (seatsAdd el₁ p₁) (seatsAdd el₂ p₂) := seatsAdd_rel hel (DRel.perm hp)
  refine (filter_perm_congr (DRel.perm hel) (fun ck => ?_)).map _
  simp only [hm.maxGet, hadd.seatsGet]

theorem afterElection_perm {a₁ a₂ : Alloc} (h : AllocRel a₁ a₂) {el₁ el₂ p₁ p₂ m₁ m₂ : Seats}
    (hel : SeatsRel el₁ el₂) (hp : SeatsRel p₁ p₂) (hm : SeatsRel m₁ m₂) (qv : Rat) (ds : List Draw) :
    NextRel (afterElection gregory a₁ el₁ qv p₁ m₁ ds) (afterElection gregory a₂ el₂ qv p₂ m₂ ds) := by
  unfold afterElection
  have hnd : ((el₁.map (fun ck => (ck.1, (ck.2 : Rat) * qv))).map (·.1)).Nodup := by
    rw [List.map_map]; exact hel.nd₁
  rcases subtract_gregory_perm h ((DRel.perm hel).map (fun ck => (ck.1, (ck.2 : Rat) * qv))) hnd ds with
    ⟨e, h1, h2⟩ | ⟨b₁, b₂, h1, h2, hb⟩
  · rw [h1, h2]; exact rfl
  · rw [h1, h2]
    simp only
    have hfe := fullyElected_perm hel hp hm
    obtain ⟨c₁, c₂, g1, g2, hc⟩ := transferIf_gregory_perm hb hfe ds
    rw [g1, g2]
    exact ⟨⟨hc, hel, hfe, rfl⟩, rfl⟩

theorem tp_nodup {a₁ a₂ : Alloc} (h : AllocRel a₁ a₂) : ((totalsInPlay a₁).map (·.1)).Nodup := by
  rw [keys_totalsInPlay]; exact continuing_nodup h.nd₁

theorem afterElimination_perm {a₁ a₂ : Alloc} (h : AllocRel a₁ a₂) (step : Option Int) (ds : List Draw) :
    NextRel (afterElimination gregory a₁ step ds) (afterElimination gregory a₂ step ds) := by
  unfold afterElimination
  simp only
  have ht := h.totalsInPlay
  rcases exceptEquiv_elim (selectRetained_perm step ht) with ⟨e, h1, h2⟩ | ⟨r₁, r₂, h1, h2, hr⟩
  · rw [h1, h2]; exact rfl
  · rw [h1, h2]
    simp only
    have hel : (((totalsInPlay a₁).map (·.1)).filter (fun c => decide (c ∉ r₁))).Perm
        (((totalsInPlay a₂).map (·.1)).filter (fun c => decide (c ∉ r₂))) := by
      have e : (fun c => decide (c ∉ r₁)) = (fun c => decide (c ∉ r₂)) := by
        funext c; exact decide_eq_decide.mpr (not_congr hr.mem_iff)
      rw [e]; exact (ht.map _).filter _
    obtain ⟨c₁, c₂, g1, g2, hc⟩ := transferIf_gregory_perm h hel ds
    rw [g1, g2]
    exact ⟨⟨hc, seatsRel_nil, hel, rfl⟩, rfl⟩

theorem countProper_perm (cfg : Cfg) {a₁ a₂ : Alloc} (h : AllocRel a₁ a₂) (n : Nat) (total : Rat)
    {p₁ p₂ m₁ m₂ : Seats} (hp : SeatsRel p₁ p₂) (hm : SeatsRel m₁ m₂) (ds : List Draw) :
    NextRel (countProper gregory cfg a₁ n total p₁ m₁ ds) (countProper gregory cfg a₂ n total p₂ m₂ ds) := by
  unfold countProper
  cases computeQuota cfg total n with
  | none => exact afterElimination_perm h cfg.step ds
  | some qv =>
    simp only
    by_cases hq : qv ≤ 0
    · rw [if_pos hq, if_pos hq]; exact rfl
    · rw [if_neg hq, if_neg hq, ← hp.sum]
      rcases exceptEquiv_elim (electByQuota_perm cfg.acceptEqual qv (n - sumSeats p₁) hp hm h.totalsInPlay) with
        ⟨e, h1, h2⟩ | ⟨el₁, el₂, h1, h2, hel⟩
      · rw [h1, h2]; exact rfl
      · rw [h1, h2]
        simp only
        by_cases h0 : el₁ = []
        · rw [if_pos h0, if_pos ((perm_eq_nil_iff hel).mp h0)]
          exact afterElimination_perm h cfg.step ds
        · rw [if_neg h0, if_neg (fun e => h0 ((perm_eq_nil_iff hel).mpr e))]
          exact afterElection_perm h (DRel.of_perm hel (electByQuota_keys_nodup (tp_nodup h) h1)) hp hm qv ds

/-! ### the elect-all-remaining shortcut -/

theorem availSeats_perm {a₁ a₂ : Alloc} (h : AllocRel a₁ a₂) {p₁ p₂ m₁ m₂ : Seats} (hp : SeatsRel p₁ p₂)
    (hm : SeatsRel m₁ m₂) : (availSeats a₁ p₁ m₁).Perm (availSeats a₂ p₂ m₂) := by
  unfold availSeats
  have hf : (fun c => (c, (maxGet m₁ c).map (fun k => (k : Int) - (seatsGet p₁ c : Int)))) =
      (fun c => (c, (maxGet m₂ c).map (fun k => (k : Int) - (seatsGet p₂ c : Int)))) := by
    funext c; rw [hm.maxGet, hp.seatsGet]
  rw [hf]
  exact ((sortDesc_perm_of_perm h.totalsInPlay).map _).map _

theorem availAdd_comm (z : Option Int) (x y : Cand × Option Int) :
    availAdd (availAdd z x) y = availAdd (availAdd z y) x := by
  obtain ⟨_, x⟩ := x
  obtain ⟨_, y⟩ := y
  cases z <;> cases x <;> cases y <;> simp only [availAdd]
  rw [Int.add_right_comm]

theorem totAvail_perm {l₁ l₂ : List (Cand × Option Int)} (h : l₁.Perm l₂) : totAvail l₁ = totAvail l₂ := by
  unfold totAvail
  exact h.foldl_eq' (fun x _ y _ z => availAdd_comm z x y) _

theorem shortcutCond_perm (cfg : Cfg) {a₁ a₂ : Alloc} (h : AllocRel a₁ a₂) (n : Nat) {p₁ p₂ m₁ m₂ : Seats}
    (hp : SeatsRel p₁ p₂) (hm : SeatsRel m₁ m₂) : shortcutCond cfg a₁ n p₁ m₁ = shortcutCond cfg a₂ n p₂ m₂ := by
  unfold shortcutCond
  rw [totAvail_perm (availSeats_perm h hp hm), hp.sum]

theorem availSeats_keys (a : Alloc) (prev maxS : Seats) :
    (availSeats a prev maxS).map (·.1) = (sortDesc (totalsInPlay a)).map (·.1) := by
  unfold availSeats
  rw [List.map_map]
  simp [Function.comp_def]

theorem electAll_perm {a₁ a₂ : Alloc} (h : AllocRel a₁ a₂) {p₁ p₂ m₁ m₂ : Seats} (hp : SeatsRel p₁ p₂)
    (hm : SeatsRel m₁ m₂) (ds : List Draw) : NextRel (electAll a₁ p₁ m₁ ds) (electAll a₂ p₂ m₂ ds) := by
  unfold electAll
  have hav := availSeats_perm h hp hm
  simp only
  rw [hav.any_eq]
  split
  · exact rfl
  · refine ⟨⟨allocRel_nil, ?_, List.Perm.refl _, rfl⟩, rfl⟩
    refine DRel.of_perm (hav.map _) ?_
    rw [List.map_map]
    have : ((fun p : Cand × Nat => p.1) ∘ fun p : Cand × Option Int => (p.1, (p.2.getD 0).toNat)) = (·.1) := rfl
    rw [this, availSeats_keys]
    exact keys_nodup_of_sortDesc (tp_nodup h)

theorem nextCount_perm (cfg : Cfg) {a₁ a₂ : Alloc} (h : AllocRel a₁ a₂) (n : Nat) (total : Rat)
    {p₁ p₂ m₁ m₂ : Seats} (hp : SeatsRel p₁ p₂) (hm : SeatsRel m₁ m₂) (ds : List Draw) :
    NextRel (nextCount gregory cfg a₁ n total p₁ m₁ ds) (nextCount gregory cfg a₂ n total p₂ m₂ ds) := by
  unfold nextCount
  rw [← hp.sum, ← shortcutCond_perm cfg h n hp hm]
  split
  · exact rfl
  · split
    · exact electAll_perm h hp hm ds
    · exact countProper_perm cfg h n total hp hm ds

/-! ### the loop -/

/-- the simulation relation between the loop states of the two runs -/
structure StRel (s₁ s₂ : St) : Prop where
  alloc : AllocRel s₁.alloc s₂.alloc
  shown : AllocRel s₁.shown s₂.shown
  seats : SeatsRel s₁.seats s₂.seats
  byQuota : s₁.byQuota = s₂.byQuota
  final : s₁.final = s₂.final
  draws : s₁.draws = s₂.draws

/-- the two inputs: the same ballots in another order, the same number of seats, the same `prev_gains` and
    `max_seats` dicts up to insertion order -/
structure InpRel (i₁ i₂ : Input) : Prop where
  votes : i₁.votes.Perm i₂.votes
  nodup : (i₁.votes.map (·.1)).Nodup
  nSeats : i₁.nSeats = i₂.nSeats
  prev : SeatsRel i₁.prev i₂.prev
  maxS : SeatsRel i₁.maxS i₂.maxS

theorem totalVotes_perm {v₁ v₂ : Profile} (h : v₁.Perm v₂) : totalVotes v₁ = totalVotes v₂ := by
  unfold totalVotes
  exact (h.map _).sum_eq

theorem noProgress_rel {s₁ s₂ : St} (hs : StRel s₁ s₂) {o₁ o₂ : CountOut} (ho : OutRel o₁ o₂) :
    noProgress s₁ o₁ = noProgress s₂ o₂ := by
  unfold noProgress
  rw [ho.shortcut]
  have e1 : decide (o₁.elected = []) = decide (o₂.elected = []) :=
    decide_eq_decide.mpr (perm_eq_nil_iff (DRel.perm ho.elected))
  have e2 : decide (s₁.alloc = []) = decide (s₂.alloc = []) := decide_eq_decide.mpr hs.alloc.eq_nil_iff
  have e3 : decide (o₁.eliminated = []) = decide (o₂.eliminated = []) :=
    decide_eq_decide.mpr (perm_eq_nil_iff ho.eliminated)
  rw [e1, e2, e3]

theorem advance_rel {s₁ s₂ : St} (hs : StRel s₁ s₂) {o₁ o₂ : CountOut} (ho : OutRel o₁ o₂) (ds : List Draw) :
    StRel (advance s₁ o₁ ds) (advance s₂ o₂ ds) := by
  unfold advance
  refine ⟨ho.alloc, hs.alloc, seatsAdd_rel hs.seats (DRel.perm ho.elected), ?_, ho.shortcut, rfl⟩
  simp only
  rw [hs.byQuota, ho.shortcut, ho.elected.sum]

/-- one iteration of the loop: both runs break, both refuse with the same exception, or both go on in related states -/
theorem countStep_perm (cfg : Cfg) {i₁ i₂ : Input} (hi : InpRel i₁ i₂) {s₁ s₂ : St} (hs : StRel s₁ s₂) :
    ExceptEquiv (ORel StRel) (countStep gregory cfg i₁ s₁) (countStep gregory cfg i₂ s₂) := by
  unfold countStep
  rw [← hs.seats.sum, ← hi.nSeats, ← totalVotes_perm hi.votes, ← hs.draws]
  split
  · exact ORel.none
  · rcases exceptEquiv_elim (nextCount_perm cfg hs.alloc i₁.nSeats (totalVotes i₁.votes) hs.seats hi.maxS s₁.draws) with
      ⟨e, h1, h2⟩ | ⟨r₁, r₂, h1, h2, ho, hd⟩
    · rw [h1, h2]; exact rfl
    · rw [h1, h2]
      obtain ⟨o₁, d₁⟩ := r₁
      obtain ⟨o₂, d₂⟩ := r₂
      simp only at ho hd ⊢
      subst hd
      rw [← noProgress_rel hs ho]
      split
      · exact rfl
      · exact ORel.some (advance_rel hs ho d₁)

theorem runCounts_perm (cfg : Cfg) {i₁ i₂ : Input} (hi : InpRel i₁ i₂) (k : Nat) {s₁ s₂ : St} (hs : StRel s₁ s₂) :
    ExceptEquiv StRel (runCounts gregory cfg i₁ k s₁) (runCounts gregory cfg i₂ k s₂) := by
  induction k generalizing s₁ s₂ with
  | zero => exact hs
  | succ k ih =>
    unfold runCounts
    rcases exceptEquiv_elim (countStep_perm cfg hi hs) with ⟨e, h1, h2⟩ | ⟨r₁, r₂, h1, h2, hr⟩
    · rw [h1, h2]; exact rfl
    · rw [h1, h2]
      rcases hr.elim with ⟨e₁, e₂⟩ | ⟨t₁, t₂, e₁, e₂, ht⟩
      · rw [e₁, e₂]; exact hs
      · rw [e₁, e₂]; exact ih ht

theorem initState_perm {i₁ i₂ : Input} (hi : InpRel i₁ i₂) (ds : List Draw) :
    ∃ s₁ s₂, initState gregory i₁ ds = .ok s₁ ∧ initState gregory i₂ ds = .ok s₂ ∧ StRel s₁ s₂ := by
  unfold initState
  obtain ⟨b₁, b₂, h1, h2, hb⟩ := initialAllocation_gregory_perm hi.votes hi.nodup ds
  rw [h1, h2]
  exact ⟨_, _, rfl, rfl, ⟨hb, hb, hi.prev, rfl, rfl, rfl⟩⟩

theorem evalFuel_perm {i₁ i₂ : Input} (hi : InpRel i₁ i₂) : evalFuel i₁ = evalFuel i₂ := by
  unfold evalFuel
  rw [hi.nSeats, (allRanked_perm hi.votes).length_eq]

theorem allocTotals_perm {a₁ a₂ : Alloc} (h : AllocRel a₁ a₂) : (allocTotals a₁).Perm (allocTotals a₂) := by
  apply DRel.perm
  have hk : ∀ a : Alloc, (allocTotals a).map (·.1) = a.map (·.1) := by
    intro a; unfold allocTotals; rw [List.map_map]; rfl
  have hg : ∀ (a : Alloc) (k : Option Cand), getO (allocTotals a) k = (getO a k).map pileTotal := by
    intro a k
    induction a with
    | nil => rfl
    | cons x xs ih =>
      have : allocTotals (x :: xs) = (x.1, pileTotal x.2) :: allocTotals xs := rfl
      rw [this, getO_cons, getO_cons, ih]
      by_cases hx : x.1 = k <;> simp [hx]
  refine ⟨by rw [hk]; exact h.nd₁, by rw [hk]; exact h.nd₂, fun k => ?_⟩
  rw [hg, hg]
  rcases (h.rel k).elim with ⟨e₁, e₂⟩ | ⟨p, q, e₁, e₂, hpq⟩
  · rw [e₁, e₂]; exact .none
  · rw [e₁, e₂]; exact .some hpq.total

end VL.Perm.Stv
