/-
  C10 — ballot-order independence of the transferable vote (Gregory engine), part 2:
  piles and allocations as dictionaries; the Gregory transfer, subtraction and the initial allocation map
  related allocations (same holders, same papers with the same weights, any insertion order) to related
  allocations.
-/
import VotelibProofs.Lemmas.PermSTV
import VotelibProofs.Lemmas.STVSplit
namespace VL.Perm.Stv
open VL VL.STV VL.C10

/-! ### the relations -/

/-- the same pile (dict ballot -> weight) up to insertion order -/
abbrev PileRel (p₁ p₂ : Pile) : Prop := DRel (κ := Ballot) (α := Rat) Eq p₁ p₂

/-- the same allocation (dict holder -> pile) up to the insertion order of the holders and of the papers -/
abbrev AllocRel (a₁ a₂ : Alloc) : Prop := DRel (κ := Option Cand) (α := Pile) PileRel a₁ a₂

/-- the same seats dict up to insertion order -/
abbrev SeatsRel (s₁ s₂ : Seats) : Prop := DRel (κ := Cand) (α := Nat) Eq s₁ s₂

theorem eq_symm' {α : Type} : ∀ a b : α, a = b → b = a := fun _ _ h => h.symm
theorem eq_trans' {α : Type} : ∀ a b c : α, a = b → b = c → a = c := fun _ _ _ h h' => h.trans h'

theorem PileRel.symm {p₁ p₂ : Pile} (h : PileRel p₁ p₂) : PileRel p₂ p₁ := DRel.symm eq_symm' h
theorem PileRel.trans {p₁ p₂ p₃ : Pile} (h : PileRel p₁ p₂) (h' : PileRel p₂ p₃) : PileRel p₁ p₃ :=
  DRel.trans eq_trans' h h'

theorem pileRel_symm : ∀ p q : Pile, PileRel p q → PileRel q p := fun _ _ h => h.symm
theorem pileRel_trans : ∀ p q r : Pile, PileRel p q → PileRel q r → PileRel p r := fun _ _ _ h h' => h.trans h'

theorem AllocRel.symm {a₁ a₂ : Alloc} (h : AllocRel a₁ a₂) : AllocRel a₂ a₁ := DRel.symm pileRel_symm h
theorem AllocRel.trans {a₁ a₂ a₃ : Alloc} (h : AllocRel a₁ a₂) (h' : AllocRel a₂ a₃) : AllocRel a₁ a₃ :=
  DRel.trans pileRel_trans h h'
theorem AllocRel.left {a₁ a₂ : Alloc} (h : AllocRel a₁ a₂) : AllocRel a₁ a₁ := h.trans h.symm
theorem AllocRel.right {a₁ a₂ : Alloc} (h : AllocRel a₁ a₂) : AllocRel a₂ a₂ := h.symm.trans h

theorem allocRel_symm : ∀ a b : Alloc, AllocRel a b → AllocRel b a := fun _ _ h => h.symm
theorem allocRel_trans : ∀ a b c : Alloc, AllocRel a b → AllocRel b c → AllocRel a c := fun _ _ _ h h' => h.trans h'

theorem pileRel_nil : PileRel [] [] := DRel.refl_of_nodup (by simp)

/-! ### the model's dict operations are `upd` / `modIf` / `filter` -/

theorem pileAdd_eq_upd (p : Pile) (b : Ballot) (w : Rat) : pileAdd p b w = upd p b (fun v => v + w) 0 := by
  induction p with
  | nil => rfl
  | cons x xs ih =>
    obtain ⟨b', w'⟩ := x
    simp only [pileAdd, upd, ih]

theorem allocAdd_eq_upd (a : Alloc) (h : Option Cand) (b : Ballot) (w : Rat) :
    allocAdd a h b w = upd a h (fun p => pileAdd p b w) [] := by
  induction a with
  | nil => rfl
  | cons x xs ih =>
    obtain ⟨h', p⟩ := x
    simp only [allocAdd, upd, ih]

theorem seatsAdd1_eq_upd (s : Seats) (c : Cand) (k : Nat) : seatsAdd1 s c k = upd s c (fun v => v + k) 0 := by
  induction s with
  | nil => rfl
  | cons x xs ih =>
    obtain ⟨c', k'⟩ := x
    simp only [seatsAdd1, upd, ih]

theorem allocPile_eq (a : Alloc) (h : Option Cand) : allocPile a h = (getO a h).getD [] := by
  unfold allocPile getO
  cases a.find? (fun hp => hp.1 = h) <;> rfl

theorem allocErase_eq (a : Alloc) (h : Option Cand) :
    allocErase a h = a.filter (fun p => (fun k => decide (k ≠ h)) p.1) := rfl

theorem allocSetPile_eq_modIf (a : Alloc) (h : Option Cand) (F : Pile → Pile) :
    allocSetPile a h (F (allocPile a h)) = modIf a h F := by
  induction a with
  | nil => rfl
  | cons x xs ih =>
    obtain ⟨h', p⟩ := x
    simp only [allocSetPile, modIf, allocPile_cons]
    by_cases hh : h' = h
    · simp [hh]
    · simp only [hh, if_false]; rw [ih]

theorem allocKeys_eq (a : Alloc) : allocKeys a = a.map (·.1) := rfl

/-! ### what related allocations share -/

theorem PileRel.perm {p₁ p₂ : Pile} (h : PileRel p₁ p₂) : p₁.Perm p₂ := DRel.perm h

theorem PileRel.total {p₁ p₂ : Pile} (h : PileRel p₁ p₂) : pileTotal p₁ = pileTotal p₂ := by
  unfold pileTotal
  exact (h.perm.map _).sum_eq

theorem AllocRel.pile {a₁ a₂ : Alloc} (h : AllocRel a₁ a₂) (k : Option Cand) :
    PileRel (allocPile a₁ k) (allocPile a₂ k) := by
  rw [allocPile_eq, allocPile_eq]
  exact DRel.getD h k pileRel_nil

theorem AllocRel.keys {a₁ a₂ : Alloc} (h : AllocRel a₁ a₂) : (allocKeys a₁).Perm (allocKeys a₂) := DRel.keys_perm h

theorem AllocRel.keysNodup {a₁ a₂ : Alloc} (h : AllocRel a₁ a₂) : KeysNodup a₁ := h.nd₁

theorem AllocRel.continuing {a₁ a₂ : Alloc} (h : AllocRel a₁ a₂) : (continuing a₁).Perm (continuing a₂) := by
  rw [continuing_eq, continuing_eq]
  exact h.keys.filterMap _

theorem AllocRel.mem_continuing {a₁ a₂ : Alloc} (h : AllocRel a₁ a₂) (c : Cand) :
    c ∈ STV.continuing a₁ ↔ c ∈ STV.continuing a₂ := h.continuing.mem_iff

theorem AllocRel.total {a₁ a₂ : Alloc} (h : AllocRel a₁ a₂) (k : Option Cand) :
    pileTotal (allocPile a₁ k) = pileTotal (allocPile a₂ k) := (h.pile k).total

theorem getO_totalsInPlay (a : Alloc) (c : Cand) :
    getO (totalsInPlay a) c = (getO a (some c)).map pileTotal := by
  induction a with
  | nil => rfl
  | cons x xs ih =>
    obtain ⟨h, p⟩ := x
    cases h with
    | none =>
      have : totalsInPlay ((none, p) :: xs) = totalsInPlay xs := by simp [totalsInPlay]
      rw [this, ih, getO_cons]; simp
    | some d =>
      have : totalsInPlay ((some d, p) :: xs) = (d, pileTotal p) :: totalsInPlay xs := by simp [totalsInPlay]
      rw [this, getO_cons, getO_cons, ih]
      by_cases hd : d = c
      · simp [hd]
      · simp [hd]

theorem AllocRel.totalsInPlay {a₁ a₂ : Alloc} (h : AllocRel a₁ a₂) :
    (totalsInPlay a₁).Perm (totalsInPlay a₂) := by
  apply DRel.perm
  refine ⟨?_, ?_, fun c => ?_⟩
  · rw [keys_totalsInPlay]; exact continuing_nodup h.nd₁
  · rw [keys_totalsInPlay]; exact continuing_nodup h.nd₂
  · rw [getO_totalsInPlay, getO_totalsInPlay]
    rcases (h.rel (some c)).elim with ⟨e₁, e₂⟩ | ⟨p, q, e₁, e₂, hpq⟩
    · rw [e₁, e₂]; exact .none
    · rw [e₁, e₂]; exact .some hpq.total

theorem AllocRel.erase {a₁ a₂ : Alloc} (h : AllocRel a₁ a₂) (k : Option Cand) :
    AllocRel (allocErase a₁ k) (allocErase a₂ k) := by
  rw [allocErase_eq, allocErase_eq]
  exact DRel.filter h (fun k' => decide (k' ≠ k))

theorem AllocRel.eq_nil_iff {a₁ a₂ : Alloc} (h : AllocRel a₁ a₂) : a₁ = [] ↔ a₂ = [] := by
  have := h.keys
  constructor
  · intro e; subst e
    have := this.symm.eq_nil
    simpa [allocKeys] using this
  · intro e; subst e
    have := this.eq_nil
    simpa [allocKeys] using this

/-! ### atomic additions -/

/-- one atomic request: add weight `w` for ballot `b` to the pile of `h` -/
def add1 (a : Alloc) (x : Option Cand × Ballot × Rat) : Alloc := allocAdd a x.1 x.2.1 x.2.2

def addAll (a : Alloc) (l : List (Option Cand × Ballot × Rat)) : Alloc := l.foldl add1 a

theorem pileAdd_rel {p p' : Pile} (h : PileRel p p') (b : Ballot) (w : Rat) :
    PileRel (pileAdd p b w) (pileAdd p' b w) := by
  rw [pileAdd_eq_upd, pileAdd_eq_upd]
  exact DRel.upd h b (fun v v' e => by rw [e]) rfl

theorem pileAdd_comm {p : Pile} (h : PileRel p p) (b b' : Ballot) (w w' : Rat) :
    PileRel (pileAdd (pileAdd p b w) b' w') (pileAdd (pileAdd p b' w') b w) := by
  simp only [pileAdd_eq_upd]
  exact upd_comm h b b' (fun v v' e => by rw [e]) (fun v v' e => by rw [e]) rfl (fun v _ => add_right_comm v w w')

theorem add1_rel (x : Option Cand × Ballot × Rat) (a a' : Alloc) (h : AllocRel a a') :
    AllocRel (add1 a x) (add1 a' x) := by
  unfold add1
  rw [allocAdd_eq_upd, allocAdd_eq_upd]
  exact DRel.upd h _ (fun v v' e => pileAdd_rel e _ _) pileRel_nil

theorem add1_comm (x y : Option Cand × Ballot × Rat) (a : Alloc) (h : AllocRel a a) :
    AllocRel (add1 (add1 a x) y) (add1 (add1 a y) x) := by
  unfold add1
  simp only [allocAdd_eq_upd]
  exact upd_comm h _ _ (fun v v' e => pileAdd_rel e _ _) (fun v v' e => pileAdd_rel e _ _) pileRel_nil
    (fun v hv => pileAdd_comm hv _ _ _ _)

/-- a fold of atomic additions does not depend on the order of the requests -/
theorem addAll_perm {l₁ l₂ : List (Option Cand × Ballot × Rat)} (hl : l₁.Perm l₂) {a₁ a₂ : Alloc}
    (h : AllocRel a₁ a₂) : AllocRel (addAll a₁ l₁) (addAll a₂ l₂) := by
  unfold addAll
  exact foldl_perm_rel AllocRel allocRel_symm allocRel_trans add1 (fun _ _ => True) (fun _ _ _ => trivial)
    add1_rel (fun x y s _ hs => add1_comm x y s hs) hl (List.pairwise_of_forall (fun _ _ => trivial)) _ _ h

theorem addAll_append (a : Alloc) (l l' : List (Option Cand × Ballot × Rat)) :
    addAll a (l ++ l') = addAll (addAll a l) l' := by
  unfold addAll; rw [List.foldl_append]

theorem allocPile_addAll_of_not_mem {l : List (Option Cand × Ballot × Rat)} {k : Option Cand}
    (hk : k ∉ l.map (·.1)) (a : Alloc) : allocPile (addAll a l) k = allocPile a k := by
  induction l generalizing a with
  | nil => rfl
  | cons x xs ih =>
    simp only [List.map_cons, List.mem_cons, not_or] at hk
    have : addAll a (x :: xs) = addAll (add1 a x) xs := rfl
    rw [this, ih hk.2]
    unfold add1
    rw [allocPile_allocAdd, if_neg (fun e => hk.1 e.symm)]

theorem allocErase_allocAdd (a : Alloc) {h k : Option Cand} (hne : h ≠ k) (b : Ballot) (w : Rat) :
    allocErase (allocAdd a h b w) k = allocAdd (allocErase a k) h b w := by
  induction a with
  | nil =>
    simp only [allocAdd, allocErase, List.filter_cons, List.filter_nil]
    simp [hne]
  | cons x xs ih =>
    obtain ⟨h', p⟩ := x
    simp only [allocAdd]
    by_cases hh : h' = h
    · rw [if_pos hh]
      have hk' : h' ≠ k := hh ▸ hne
      simp only [allocErase, List.filter_cons] at ih ⊢
      simp only [hk', ne_eq, not_false_eq_true, decide_true, if_true, allocAdd, if_pos hh]
    · rw [if_neg hh]
      simp only [allocErase, List.filter_cons] at ih ⊢
      by_cases hk' : h' = k
      · simp only [hk', ne_eq, not_true_eq_false, decide_false]
        simpa [hk'] using ih
      · simp only [hk', ne_eq, not_false_eq_true, decide_true, if_true, allocAdd, if_neg hh]
        rw [ih]

theorem allocErase_addAll {l : List (Option Cand × Ballot × Rat)} {k : Option Cand}
    (hk : k ∉ l.map (·.1)) (a : Alloc) : allocErase (addAll a l) k = addAll (allocErase a k) l := by
  induction l generalizing a with
  | nil => rfl
  | cons x xs ih =>
    simp only [List.map_cons, List.mem_cons, not_or] at hk
    have e1 : addAll a (x :: xs) = addAll (add1 a x) xs := rfl
    have e2 : addAll (allocErase a k) (x :: xs) = addAll (add1 (allocErase a k) x) xs := rfl
    rw [e1, e2, ih hk.2]
    unfold add1
    rw [allocErase_allocAdd a (fun e => hk.1 e.symm)]

theorem allocErase_comm (a : Alloc) (k k' : Option Cand) :
    allocErase (allocErase a k) k' = allocErase (allocErase a k') k := by
  unfold allocErase
  rw [List.filter_filter, List.filter_filter]
  congr 1
  funext x
  exact Bool.and_comm _ _

/-! ### `ranked_next` reads `allowed` only through membership -/

theorem rankedNextGo_congr (frm : Option Cand) {al₁ al₂ : List Cand} (h : ∀ c, c ∈ al₁ ↔ c ∈ al₂)
    (take : Bool) (b : Ballot) : rankedNextGo frm al₁ take b = rankedNextGo frm al₂ take b := by
  induction b generalizing take with
  | nil => rfl
  | cons it rest ih =>
    have hf : (fun c => decide (c ∈ al₁)) = (fun c => decide (c ∈ al₂)) := by
      funext c; exact decide_eq_decide.mpr (h c)
    cases it with
    | one c => simp only [rankedNextGo, ih, h c]
    | shared cs => simp only [rankedNextGo, ih, hf]

theorem rankedNext_congr (b : Ballot) (frm : Option Cand) {al₁ al₂ : List Cand} (h : ∀ c, c ∈ al₁ ↔ c ∈ al₂) :
    rankedNext b frm al₁ = rankedNext b frm al₂ := rankedNextGo_congr frm h _ b

/-! ### the Gregory transfer as a fold of atomic additions -/

/-- the atomic additions caused by one paper `(b, w)` leaving `frm` (transfer.py L182-203 with Gregory's equal split) -/
def dlv (cont : List Cand) (frm : Option Cand) (bw : Ballot × Rat) : List (Option Cand × Ballot × Rat) :=
  match rankedNext bw.1 frm cont with
  | [] => [(none, bw.1, bw.2)]
  | [t] => [(some t, bw.1, bw.2)]
  | ts => (gregorySplit ts bw.2).map (fun tn => (some tn.1, bw.1, tn.2))

theorem dlv_congr {cont₁ cont₂ : List Cand} (h : ∀ c, c ∈ cont₁ ↔ c ∈ cont₂) (frm : Option Cand) :
    dlv cont₁ frm = dlv cont₂ frm := by
  funext bw
  unfold dlv
  rw [rankedNext_congr bw.1 frm h]

theorem dlv_holder {cont : List Cand} {frm : Option Cand} {bw : Ballot × Rat} {x : Option Cand × Ballot × Rat}
    (hx : x ∈ dlv cont frm bw) : x.1 = none ∨ ∃ t ∈ cont, x.1 = some t := by
  unfold dlv at hx
  have hsub := rankedNext_subset bw.1 frm cont
  split at hx
  · simp at hx; left; rw [hx]
  · rename_i t ht
    simp at hx
    right
    exact ⟨t, hsub t (by rw [ht]; exact List.mem_cons_self), by rw [hx]⟩
  · rename_i ts _ _
    simp only [gregorySplit, List.map_map, List.mem_map, Function.comp] at hx
    obtain ⟨t, ht, e⟩ := hx
    right
    exact ⟨t, hsub t ht, by rw [← e]⟩

theorem moveBallot_gregory (cont : List Cand) (frm : Option Cand) (a : Alloc) (b : Ballot) (w : Rat) (ds : List Draw) :
    moveBallot gregory cont frm a b w ds = .ok (addAll a (dlv cont frm (b, w)), ds) := by
  unfold moveBallot dlv
  simp only
  rcases rankedNext b frm cont with _ | ⟨t, _ | ⟨t', ts⟩⟩
  · rfl
  · rfl
  · simp only [gregory, bind, Except.bind, pure, Except.pure, addAll, List.foldl_map]
    rfl

theorem movePile_gregory (cont : List Cand) (frm : Option Cand) (pile : Pile) (a : Alloc) (ds : List Draw) :
    movePile gregory cont frm pile a ds = .ok (addAll a (pile.flatMap (dlv cont frm)), ds) := by
  induction pile generalizing a with
  | nil => rfl
  | cons bw rest ih =>
    obtain ⟨b, w⟩ := bw
    simp only [movePile, moveBallot_gregory, bind, Except.bind, ih, List.flatMap_cons, addAll_append]

/-- removal of one candidate: its pile is taken out and its papers are re-allocated -/
def rm (cont : List Cand) (a : Alloc) (c : Cand) : Alloc :=
  addAll (allocErase a (some c)) ((allocPile a (some c)).flatMap (dlv cont (some c)))

theorem transferGo_gregory (cont rs : List Cand) (a : Alloc) (ds : List Draw) :
    transferGo gregory cont rs a ds = .ok (rs.foldl (rm cont) a, ds) := by
  induction rs generalizing a with
  | nil => rfl
  | cons c rest ih =>
    simp only [transferGo, movePile_gregory, bind, Except.bind, ih, List.foldl_cons, rm]

theorem flatMap_dlv_holder {cont : List Cand} {frm : Option Cand} {pile : Pile} {k : Option Cand}
    (hk : k ≠ none) (hc : ∀ t ∈ cont, k ≠ some t) : k ∉ (pile.flatMap (dlv cont frm)).map (·.1) := by
  intro hm
  obtain ⟨x, hx, e⟩ := List.mem_map.mp hm
  obtain ⟨bw, _, hx'⟩ := List.mem_flatMap.mp hx
  rcases dlv_holder hx' with h0 | ⟨t, ht, h1⟩
  · exact hk (e ▸ h0)
  · exact hc t ht (e ▸ h1)

theorem rm_rel (cont : List Cand) (c : Cand) (a a' : Alloc) (h : AllocRel a a') :
    AllocRel (rm cont a c) (rm cont a' c) := by
  unfold rm
  exact addAll_perm ((h.pile (some c)).perm.flatMap_right _) (h.erase _)

theorem rm_comm (cont : List Cand) {c c' : Cand} (hne : c ≠ c') (hc : c ∉ cont) (hc' : c' ∉ cont) (a : Alloc)
    (h : AllocRel a a) : AllocRel (rm cont (rm cont a c) c') (rm cont (rm cont a c') c) := by
  have key : ∀ {x y : Cand}, x ≠ y → y ∉ cont →
      rm cont (rm cont a x) y = addAll (allocErase (allocErase a (some x)) (some y))
        ((allocPile a (some x)).flatMap (dlv cont (some x)) ++ (allocPile a (some y)).flatMap (dlv cont (some y))) := by
    intro x y hxy hy
    have hnot : ∀ pile : Pile, (some y : Option Cand) ∉ (pile.flatMap (dlv cont (some x))).map (·.1) := fun pile =>
      flatMap_dlv_holder (by simp) (fun t ht e => hy (by injection e with e; rw [e]; exact ht))
    unfold rm
    rw [allocPile_addAll_of_not_mem (hnot _), allocErase_addAll (hnot _), addAll_append,
      allocPile_erase_ne a (by intro e; injection e with e; exact hxy e.symm)]
  rw [key hne hc', key (fun e => hne e.symm) hc, allocErase_comm a (some c) (some c')]
  exact addAll_perm List.perm_append_comm ((h.erase _).erase _)

/-- the transfer loop on related allocations with the removed candidates listed in any order -/
theorem transferG_perm (cont : List Cand) {rs₁ rs₂ : List Cand} (hrs : rs₁.Perm rs₂) (hnd : rs₁.Nodup)
    (hc : ∀ c ∈ rs₁, c ∉ cont) {a₁ a₂ : Alloc} (h : AllocRel a₁ a₂) :
    AllocRel (rs₁.foldl (rm cont) a₁) (rs₂.foldl (rm cont) a₂) := by
  refine foldl_perm_rel AllocRel allocRel_symm allocRel_trans (rm cont)
    (fun x y => x ≠ y ∧ x ∉ cont ∧ y ∉ cont) (fun x y hxy => ⟨fun e => hxy.1 e.symm, hxy.2.2, hxy.2.1⟩)
    (fun x s s' hs => rm_rel cont x s s' hs) (fun x y s hxy hs => rm_comm cont hxy.1 hxy.2.1 hxy.2.2 s hs)
    hrs ?_ _ _ h
  exact List.Pairwise.imp_of_mem (fun {x y} hx hy hxy => ⟨hxy, hc x hx, hc y hy⟩) hnd

theorem rm_congr {cont₁ cont₂ : List Cand} (h : ∀ c, c ∈ cont₁ ↔ c ∈ cont₂) : rm cont₁ = rm cont₂ := by
  funext a c
  unfold rm
  rw [dlv_congr h]

/-- `SimpleVoteTransferer.transfer` with Gregory: never fails, and related inputs give related allocations;
    the list of candidates to remove is read through membership only -/
theorem transfer_gregory_perm {a₁ a₂ : Alloc} (h : AllocRel a₁ a₂) {cs₁ cs₂ : List Cand}
    (hcs : ∀ c, c ∈ cs₁ ↔ c ∈ cs₂) (ds : List Draw) :
    ∃ b₁ b₂, transfer gregory a₁ cs₁ ds = .ok (b₁, ds) ∧ transfer gregory a₂ cs₂ ds = .ok (b₂, ds) ∧
      AllocRel b₁ b₂ := by
  unfold transfer
  simp only [transferGo_gregory]
  refine ⟨_, _, rfl, rfl, ?_⟩
  have hcont : ∀ c, c ∈ (continuing a₁).filter (fun c => decide (c ∉ cs₁)) ↔
      c ∈ (continuing a₂).filter (fun c => decide (c ∉ cs₂)) := by
    intro c
    simp only [List.mem_filter, decide_eq_true_eq, h.mem_continuing c, hcs c]
  rw [rm_congr hcont]
  have hrs : ((continuing a₁).filter (fun c => decide (c ∈ cs₁))).Perm
      ((continuing a₂).filter (fun c => decide (c ∈ cs₂))) := by
    have e : (fun c => decide (c ∈ cs₁)) = (fun c => decide (c ∈ cs₂)) := by
      funext c; exact decide_eq_decide.mpr (hcs c)
    rw [e]; exact h.continuing.filter _
  refine transferG_perm _ hrs ((continuing_nodup h.nd₁).filter _) ?_ h
  intro c hc hc'
  simp only [List.mem_filter, decide_eq_true_eq] at hc hc'
  exact hc'.2 ((hcs c).mp hc.2)

/-! ### Gregory subtraction -/

/-- `Gregory._subtract` on a pile with a non-zero total -/
def gsub (p : Pile) (n : Rat) : Pile :=
  if n ≥ pileTotal p then [] else p.map (fun bw => (bw.1, bw.2 * ((pileTotal p - n) / pileTotal p)))

theorem gregorySubtract_eq (p : Pile) (n : Rat) :
    gregorySubtract p n = if pileTotal p = 0 then .error (.other "RuntimeError") else .ok (gsub p n) := by
  unfold gregorySubtract gsub
  simp only
  split
  · rfl
  · split <;> rfl

theorem gsub_rel {p p' : Pile} (h : PileRel p p') (n : Rat) : PileRel (gsub p n) (gsub p' n) := by
  unfold gsub
  rw [h.total]
  split
  · exact pileRel_nil
  · refine DRel.of_perm (h.perm.map _) ?_
    rw [List.map_map]
    exact h.nd₁

/-- subtraction from one elected candidate -/
def sb (a : Alloc) (x : Cand × Rat) : Alloc := modIf a (some x.1) (fun p => gsub p x.2)

theorem sb_rel (x : Cand × Rat) (a a' : Alloc) (h : AllocRel a a') : AllocRel (sb a x) (sb a' x) :=
  DRel.modIf h _ (fun _ _ e => gsub_rel e _)

theorem sb_comm (x y : Cand × Rat) (a : Alloc) (hxy : x.1 ≠ y.1) (h : AllocRel a a) :
    AllocRel (sb (sb a x) y) (sb (sb a y) x) :=
  modIf_comm h (fun e => hxy (by injection e)) (fun _ _ e => gsub_rel e _) (fun _ _ e => gsub_rel e _)

theorem allocPile_sb_ne (a : Alloc) (x : Cand × Rat) {c : Cand} (hne : c ≠ x.1) :
    allocPile (sb a x) (some c) = allocPile a (some c) := by
  rw [allocPile_eq, allocPile_eq]
  unfold sb
  rw [getO_modIf, if_neg (fun e => hne (by injection e))]

theorem any_congr_mem {α : Type} {l : List α} {f g : α → Bool} (h : ∀ x ∈ l, f x = g x) : l.any f = l.any g := by
  induction l with
  | nil => rfl
  | cons x xs ih =>
    simp only [List.any_cons]
    rw [h x List.mem_cons_self, ih (fun y hy => h y (List.mem_cons_of_mem _ hy))]

theorem subtract_gregory (el : List (Cand × Rat)) (hnd : (el.map (·.1)).Nodup) (a : Alloc) (ds : List Draw) :
    subtract gregory el a ds =
      if el.any (fun x => decide (pileTotal (allocPile a (some x.1)) = 0)) then .error (.other "RuntimeError")
      else .ok (el.foldl sb a, ds) := by
  induction el generalizing a with
  | nil => rfl
  | cons x rest ih =>
    obtain ⟨c, n⟩ := x
    simp only [List.map_cons, List.nodup_cons] at hnd
    have hs : gregory.subtract (allocPile a (some c)) n ds =
        if pileTotal (allocPile a (some c)) = 0 then .error (.other "RuntimeError")
        else .ok (gsub (allocPile a (some c)) n, ds) := by
      show Except.map _ (gregorySubtract _ _) = _
      rw [gregorySubtract_eq]
      split <;> rfl
    simp only [subtract, List.any_cons, List.foldl_cons]
    rw [hs]
    by_cases h0 : pileTotal (allocPile a (some c)) = 0
    · simp [h0, bind, Except.bind]
    · have e1 : allocSetPile a (some c) (gsub (allocPile a (some c)) n) = sb a (c, n) :=
        allocSetPile_eq_modIf a (some c) (fun p => gsub p n)
      have e2 : rest.any (fun x => decide (pileTotal (allocPile (sb a (c, n)) (some x.1)) = 0)) =
          rest.any (fun x => decide (pileTotal (allocPile a (some x.1)) = 0)) := by
        apply any_congr_mem
        intro x hx
        rw [allocPile_sb_ne]
        intro e
        exact hnd.1 (List.mem_map.mpr ⟨x, hx, e⟩)
      simp only [h0, if_false, bind, Except.bind, e1, ih hnd.2 (sb a (c, n)), e2, decide_false, Bool.false_or]

/-- `SimpleVoteTransferer.subtract` with Gregory on related allocations and the elected listed in any order:
    the same refusal, or related allocations -/
theorem subtract_gregory_perm {a₁ a₂ : Alloc} (h : AllocRel a₁ a₂) {el₁ el₂ : List (Cand × Rat)}
    (hel : el₁.Perm el₂) (hnd : (el₁.map (·.1)).Nodup) (ds : List Draw) :
    (∃ e, subtract gregory el₁ a₁ ds = .error e ∧ subtract gregory el₂ a₂ ds = .error e) ∨
    ∃ b₁ b₂, subtract gregory el₁ a₁ ds = .ok (b₁, ds) ∧ subtract gregory el₂ a₂ ds = .ok (b₂, ds) ∧
      AllocRel b₁ b₂ := by
  have hnd₂ : (el₂.map (·.1)).Nodup := (hel.map _).nodup_iff.mp hnd
  rw [subtract_gregory el₁ hnd, subtract_gregory el₂ hnd₂]
  have hany : el₁.any (fun x => decide (pileTotal (allocPile a₁ (some x.1)) = 0)) =
      el₂.any (fun x => decide (pileTotal (allocPile a₂ (some x.1)) = 0)) := by
    have : (fun x : Cand × Rat => decide (pileTotal (allocPile a₁ (some x.1)) = 0)) =
        (fun x => decide (pileTotal (allocPile a₂ (some x.1)) = 0)) := by
      funext x; rw [h.total]
    rw [this]
    exact hel.any_eq
  rw [hany]
  split
  · exact Or.inl ⟨_, rfl, rfl⟩
  · refine Or.inr ⟨_, _, rfl, rfl, ?_⟩
    refine foldl_perm_rel AllocRel allocRel_symm allocRel_trans sb (fun x y => x.1 ≠ y.1)
      (fun x y hxy e => hxy e.symm) sb_rel (fun x y s hxy hs => sb_comm x y s hxy hs) hel ?_ _ _ h
    exact (List.pairwise_map).mp hnd

/-! ### the initial allocation -/

theorem getO_map_some (l : List Cand) (F : Cand → Pile) (c : Cand) :
    getO (l.map (fun c => ((some c : Option Cand), F c))) (some c) = if c ∈ l then some (F c) else none := by
  induction l with
  | nil => rfl
  | cons x xs ih =>
    rw [List.map_cons, getO_cons, ih]
    by_cases hx : x = c
    · simp [hx]
    · have : ¬ c = x := fun e => hx e.symm
      simp [hx, this]

theorem getO_map_some_none (l : List Cand) (F : Cand → Pile) :
    getO (l.map (fun c => ((some c : Option Cand), F c))) none = none := by
  induction l with
  | nil => rfl
  | cons x xs ih => rw [List.map_cons, getO_cons, ih]; simp

theorem allRanked_mem_perm {v₁ v₂ : Profile} (h : v₁.Perm v₂) (c : Cand) : c ∈ allRanked v₁ ↔ c ∈ allRanked v₂ := by
  rw [mem_allRanked, mem_allRanked]
  constructor
  · rintro ⟨p, hp, hc⟩; exact ⟨p, h.mem_iff.mp hp, hc⟩
  · rintro ⟨p, hp, hc⟩; exact ⟨p, h.mem_iff.mpr hp, hc⟩

theorem allRanked_perm {v₁ v₂ : Profile} (h : v₁.Perm v₂) : (allRanked v₁).Perm (allRanked v₂) :=
  (List.perm_ext_iff_of_nodup (allRanked_nodup _) (allRanked_nodup _)).mpr (allRanked_mem_perm h)

theorem firstPrefs_rel {v₁ v₂ : Profile} (h : v₁.Perm v₂) (hn : (v₁.map (·.1)).Nodup) :
    AllocRel (firstPrefs v₁) (firstPrefs v₂) := by
  have hn₂ : (v₂.map (·.1)).Nodup := (h.map _).nodup_iff.mp hn
  have hk : ∀ v : Profile, ((firstPrefs v).map (·.1)).Nodup := by
    intro v
    have := allocKeys_firstPrefs v
    unfold allocKeys at this
    rw [this]
    exact (allRanked_nodup v).map (fun _ _ e => by injection e)
  refine ⟨hk v₁, hk v₂, fun k => ?_⟩
  unfold firstPrefs
  cases k with
  | none => rw [getO_map_some_none, getO_map_some_none]; exact .none
  | some c =>
    rw [getO_map_some, getO_map_some]
    by_cases hc : c ∈ allRanked v₁
    · rw [if_pos hc, if_pos ((allRanked_mem_perm h c).mp hc)]
      exact .some (DRel.of_perm (h.filter _) (List.Nodup.sublist (List.Sublist.map _ List.filter_sublist) hn))
    · rw [if_neg hc, if_neg (fun e => hc ((allRanked_mem_perm h c).mpr e))]
      exact .none

/-- `initial_allocation` with Gregory: never fails; the same ballots in another order give related allocations -/
theorem initialAllocation_gregory_perm {v₁ v₂ : Profile} (h : v₁.Perm v₂) (hn : (v₁.map (·.1)).Nodup) (ds : List Draw) :
    ∃ b₁ b₂, initialAllocation gregory v₁ ds = .ok (b₁, ds) ∧ initialAllocation gregory v₂ ds = .ok (b₂, ds) ∧
      AllocRel b₁ b₂ := by
  unfold initialAllocation
  simp only [movePile_gregory]
  refine ⟨_, _, rfl, rfl, ?_⟩
  rw [dlv_congr (allRanked_mem_perm h) none]
  unfold fictionalPile
  exact addAll_perm ((h.filter _).flatMap_right _) (firstPrefs_rel h hn)

end VL.Perm.Stv
