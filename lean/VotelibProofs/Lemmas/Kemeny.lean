/-
  Kemeny-Young: `perms` enumerates the permutations, the scan keeps exactly the maximisers, and moving
  the Condorcet winner to the front of an order strictly raises its score.
-/
import VotelibProofs.Lemmas.Ranked
import Mathlib.Data.List.Perm.Basic
namespace VL.Condorcet
open VL

/-! ### `perms` -/

theorem mem_insertEverywhere {x : Cand} {ys l : List Cand} :
    l ∈ insertEverywhere x ys ↔ ∃ a b, ys = a ++ b ∧ l = a ++ x :: b := by
  induction ys generalizing l with
  | nil =>
    simp only [insertEverywhere, List.mem_singleton]
    constructor
    · rintro rfl; exact ⟨[], [], rfl, rfl⟩
    · rintro ⟨a, b, h, rfl⟩
      have := List.append_eq_nil_iff.1 h.symm
      rw [this.1, this.2]; rfl
  | cons y ys ih =>
    simp only [insertEverywhere, List.mem_cons, List.mem_map]
    constructor
    · rintro (rfl | ⟨l', hl', rfl⟩)
      · exact ⟨[], y :: ys, rfl, rfl⟩
      · obtain ⟨a, b, rfl, rfl⟩ := ih.1 hl'
        exact ⟨y :: a, b, rfl, rfl⟩
    · rintro ⟨a, b, h, rfl⟩
      cases a with
      | nil =>
        simp only [List.nil_append] at h
        left; rw [← h]; rfl
      | cons a0 a' =>
        simp only [List.cons_append, List.cons.injEq] at h
        obtain ⟨rfl, rfl⟩ := h
        right
        exact ⟨a' ++ x :: b, ih.2 ⟨a', b, rfl, rfl⟩, rfl⟩

theorem mem_perms {l q : List Cand} : q ∈ perms l ↔ q.Perm l := by
  induction l generalizing q with
  | nil =>
    simp only [perms, List.mem_singleton]
    constructor
    · rintro rfl; exact List.Perm.refl _
    · intro h; exact List.Perm.eq_nil h
  | cons x xs ih =>
    simp only [perms, List.mem_flatMap]
    constructor
    · rintro ⟨p, hp, hq⟩
      obtain ⟨a, b, rfl, rfl⟩ := mem_insertEverywhere.1 hq
      have := ih.1 hp
      exact List.perm_middle.trans (List.Perm.cons x this)
    · intro h
      have hx : x ∈ q := h.symm.subset (by simp)
      obtain ⟨a, b, rfl⟩ := List.append_of_mem hx
      have h2 : (a ++ b).Perm xs := (List.perm_middle.symm.trans h).cons_inv
      exact ⟨a ++ b, ih.2 h2, mem_insertEverywhere.2 ⟨a, b, rfl, rfl⟩⟩

/-! ### the score of an order -/

def rowSum (v : Pairwise) (x : Cand) (ys : List Cand) : Rat := ys.foldl (fun acc y => acc + pget v (x, y)) 0

theorem foldl_add_acc (f : Cand → Rat) (l : List Cand) (a : Rat) :
    l.foldl (fun acc y => acc + f y) a = a + l.foldl (fun acc y => acc + f y) 0 := by
  induction l generalizing a with
  | nil => simp
  | cons y ys ih =>
    rw [List.foldl_cons, List.foldl_cons, ih (a + f y), ih (0 + f y)]
    ring

theorem rowSum_nil (v : Pairwise) (x : Cand) : rowSum v x [] = 0 := rfl

theorem rowSum_cons (v : Pairwise) (x y : Cand) (ys : List Cand) :
    rowSum v x (y :: ys) = pget v (x, y) + rowSum v x ys := by
  unfold rowSum
  rw [List.foldl_cons, foldl_add_acc]
  ring

theorem rowSum_append (v : Pairwise) (x : Cand) (a b : List Cand) :
    rowSum v x (a ++ b) = rowSum v x a + rowSum v x b := by
  induction a with
  | nil => simp [rowSum_nil]
  | cons y ys ih => rw [List.cons_append, rowSum_cons, rowSum_cons, ih]; ring

theorem kyScore_cons (v : Pairwise) (x : Cand) (xs : List Cand) :
    kyScore v (x :: xs) = rowSum v x xs + kyScore v xs := rfl

/-- votes for "somebody of `A` over somebody of `B`" -/
def cross (v : Pairwise) : List Cand → List Cand → Rat
  | [], _ => 0
  | a :: A, B => rowSum v a B + cross v A B

/-- votes for "somebody of `A` over `w`" -/
def colSum (v : Pairwise) : List Cand → Cand → Rat
  | [], _ => 0
  | a :: A, w => pget v (a, w) + colSum v A w

theorem kyScore_append (v : Pairwise) (A B : List Cand) :
    kyScore v (A ++ B) = kyScore v A + kyScore v B + cross v A B := by
  induction A with
  | nil => simp [kyScore, cross]
  | cons a A ih =>
    rw [List.cons_append, kyScore_cons, kyScore_cons, rowSum_append, ih, cross]
    ring

theorem cross_cons_right (v : Pairwise) (A : List Cand) (w : Cand) (B : List Cand) :
    cross v A (w :: B) = colSum v A w + cross v A B := by
  induction A with
  | nil => simp [cross, colSum]
  | cons a A ih => rw [cross, cross, colSum, rowSum_cons, ih]; ring

theorem colSum_le_rowSum (v : Pairwise) (w : Cand) (A : List Cand) (h : ∀ a ∈ A, pget v (a, w) < pget v (w, a)) :
    colSum v A w ≤ rowSum v w A := by
  induction A with
  | nil => simp [colSum, rowSum_nil]
  | cons a A ih =>
    rw [colSum, rowSum_cons]
    have h1 := h a (by simp)
    have h2 := ih (fun x hx => h x (List.mem_cons_of_mem _ hx))
    linarith

theorem colSum_lt_rowSum (v : Pairwise) (w : Cand) {A : List Cand} (hne : A ≠ [])
    (h : ∀ a ∈ A, pget v (a, w) < pget v (w, a)) : colSum v A w < rowSum v w A := by
  cases A with
  | nil => exact absurd rfl hne
  | cons a A =>
    rw [colSum, rowSum_cons]
    have h1 := h a (by simp)
    have h2 := colSum_le_rowSum v w A (fun x hx => h x (List.mem_cons_of_mem _ hx))
    linarith

/-- **moving `w` to the front raises the score** when `w` beats everybody standing before it -/
theorem kyScore_move_front (v : Pairwise) (w : Cand) {A : List Cand} (B : List Cand) (hne : A ≠ [])
    (h : ∀ a ∈ A, pget v (a, w) < pget v (w, a)) :
    kyScore v (A ++ w :: B) < kyScore v (w :: (A ++ B)) := by
  rw [kyScore_append, kyScore_cons, kyScore_cons, kyScore_append, rowSum_append, cross_cons_right]
  have := colSum_lt_rowSum v w hne h
  linarith

/-! ### the scan -/

def kyStep (v : Pairwise) (st : List (List Cand) × Rat) (variant : List Cand) : List (List Cand) × Rat :=
  let score := kyScore v variant
  if st.2 ≤ score then
    if st.2 < score then ([variant], score) else (st.1 ++ [variant], st.2)
  else st

theorem kemenyYoung_eq (v : Pairwise) (n : Nat) :
    kemenyYoung v n = match ((perms (candidates v)).foldl (kyStep v) ([], 0)).1 with
      | [best] => .ok ((best.take n).map Slot.cand)
      | _ => .error .notImplemented := rfl

/-- after scanning `L`: the state holds the maximisers found so far and their score -/
theorem kyScan_inv (v : Pairwise) (rest L : List (List Cand)) (st : List (List Cand) × Rat)
    (h1 : st.1 = L.filter (fun q => decide (kyScore v q = st.2))) (h2 : ∀ q ∈ L, kyScore v q ≤ st.2) :
    let st' := rest.foldl (kyStep v) st
    st'.1 = (L ++ rest).filter (fun q => decide (kyScore v q = st'.2)) ∧ ∀ q ∈ L ++ rest, kyScore v q ≤ st'.2 := by
  induction rest generalizing L st with
  | nil => simpa using ⟨h1, h2⟩
  | cons x xs ih =>
    simp only [List.foldl_cons]
    have hassoc : L ++ x :: xs = (L ++ [x]) ++ xs := by simp
    rw [hassoc]
    apply ih
    · unfold kyStep
      simp only
      by_cases hle : st.2 ≤ kyScore v x
      · rw [if_pos hle]
        by_cases hlt : st.2 < kyScore v x
        · rw [if_pos hlt]
          simp only [List.filter_append, List.filter_cons, List.filter_nil, decide_true, if_true]
          have : L.filter (fun q => decide (kyScore v q = kyScore v x)) = [] := by
            rw [List.filter_eq_nil_iff]
            intro q hq
            simp only [decide_eq_true_eq]
            exact ne_of_lt (lt_of_le_of_lt (h2 q hq) hlt)
          rw [this]; rfl
        · rw [if_neg hlt]
          have heq : kyScore v x = st.2 := le_antisymm (not_lt.1 hlt) hle
          simp only [List.filter_append, List.filter_cons, List.filter_nil, heq, decide_true, if_true]
          rw [← h1]
      · rw [if_neg hle]
        have hne : ¬ kyScore v x = st.2 := fun h => hle (le_of_eq h.symm)
        simp only [List.filter_append, List.filter_cons, List.filter_nil, hne, decide_false, Bool.false_eq_true,
          if_false, List.append_nil]
        exact h1
    · intro q hq
      unfold kyStep
      simp only
      rcases List.mem_append.1 hq with hq | hq
      · have := h2 q hq
        by_cases hle : st.2 ≤ kyScore v x
        · rw [if_pos hle]
          by_cases hlt : st.2 < kyScore v x
          · rw [if_pos hlt]; exact le_trans this hle
          · rw [if_neg hlt]; exact this
        · rw [if_neg hle]; exact this
      · simp only [List.mem_singleton] at hq
        subst hq
        by_cases hle : st.2 ≤ kyScore v q
        · rw [if_pos hle]
          by_cases hlt : st.2 < kyScore v q
          · rw [if_pos hlt]
          · rw [if_neg hlt]; exact not_lt.1 hlt
        · rw [if_neg hle]; exact le_of_lt (not_le.1 hle)

/-- **Kemeny-Young answers only with the unique best order**: whenever it returns, the places are the head
    of an order of all candidates whose score strictly exceeds that of every other order. -/
theorem kemenyYoung_ok {v : Pairwise} {n : Nat} {r : List Slot} (h : kemenyYoung v n = .ok r) :
    ∃ best, best.Perm (candidates v) ∧ r = (best.take n).map Slot.cand ∧
      ∀ q, q.Perm (candidates v) → q ≠ best → kyScore v q < kyScore v best := by
  rw [kemenyYoung_eq] at h
  obtain ⟨h1, h2⟩ := kyScan_inv v (perms (candidates v)) [] ([], 0) (by simp) (by simp)
  simp only [List.nil_append] at h1 h2
  generalize hst : (perms (candidates v)).foldl (kyStep v) ([], 0) = st at h h1 h2
  match hs : st.1, h with
  | [best], h =>
    rw [hs] at h1
    simp only [Except.ok.injEq] at h
    have hbmem : best ∈ (perms (candidates v)).filter (fun q => decide (kyScore v q = st.2)) := by
      rw [← h1]; simp
    obtain ⟨hb1, hb2⟩ := List.mem_filter.1 hbmem
    simp only [decide_eq_true_eq] at hb2
    refine ⟨best, mem_perms.1 hb1, h.symm, ?_⟩
    intro q hq hne
    have hqm := mem_perms.2 hq
    have hle := h2 q hqm
    rw [hb2]
    refine lt_of_le_of_ne hle ?_
    intro heq
    have : q ∈ (perms (candidates v)).filter (fun q => decide (kyScore v q = st.2)) :=
      List.mem_filter.2 ⟨hqm, by simpa using heq⟩
    rw [← h1] at this
    exact hne (by simpa using this)

/-- the unique best order starts with the Condorcet winner -/
theorem kemeny_best_head {v : Pairwise} (hwf : WF v) {w : Cand} (hw : IsCW v w) {best : List Cand}
    (hp : best.Perm (candidates v))
    (hbest : ∀ q, q.Perm (candidates v) → q ≠ best → kyScore v q < kyScore v best) :
    best.head? = some w := by
  have hwb : w ∈ best := hp.symm.subset hw.1
  cases hb : best with
  | nil => rw [hb] at hwb; simp at hwb
  | cons a rest =>
    by_cases haw : a = w
    · subst haw; rfl
    · exfalso
      rw [hb] at hwb
      have hwr : w ∈ rest := by
        rcases List.mem_cons.1 hwb with h | h
        · exact absurd h.symm haw
        · exact h
      obtain ⟨A', B, hrest⟩ := List.append_of_mem hwr
      have hdecomp : best = (a :: A') ++ w :: B := by rw [hb, hrest]; rfl
      have hnd : best.Nodup := hp.nodup_iff.2 (nodup_candidates v)
      have hbeat : ∀ x ∈ a :: A', pget v (x, w) < pget v (w, x) := by
        intro x hx
        have hxb : x ∈ best := by rw [hdecomp]; exact List.mem_append_left _ hx
        have hxc : x ∈ candidates v := hp.subset hxb
        have hxw : x ≠ w := by
          rintro rfl
          rw [hdecomp] at hnd
          have := (List.nodup_append.1 hnd).2.2 x hx x (by simp)
          exact this rfl
        exact hw.2 x hxc hxw
      have hlt := kyScore_move_front v w B (List.cons_ne_nil a A') hbeat
      have hq : (w :: ((a :: A') ++ B)).Perm (candidates v) := by
        refine List.Perm.trans ?_ hp
        rw [hdecomp]
        exact List.perm_middle.symm
      have hne : w :: ((a :: A') ++ B) ≠ best := by
        rw [hb]
        intro h
        simp only [List.cons_append, List.cons.injEq] at h
        exact haw h.1.symm
      have := hbest _ hq hne
      rw [hdecomp] at this
      exact lt_asymm hlt this

/-! ### Smith efficiency: a best order lists a dominating set first -/

theorem cross_swap_right (v : Pairwise) (A : List Cand) (o s : Cand) (B : List Cand) :
    cross v A (o :: s :: B) = cross v A (s :: o :: B) := by
  rw [cross_cons_right, cross_cons_right, cross_cons_right, cross_cons_right]; ring

/-- swapping two neighbours changes the score by the difference of their two pairwise counts -/
theorem kyScore_swap (v : Pairwise) (A : List Cand) (o s : Cand) (B : List Cand) :
    kyScore v (A ++ s :: o :: B) = kyScore v (A ++ o :: s :: B) + (pget v (s, o) - pget v (o, s)) := by
  rw [kyScore_append, kyScore_append, cross_swap_right, kyScore_cons, kyScore_cons, kyScore_cons, kyScore_cons,
    rowSum_cons, rowSum_cons]
  ring

/-- a list whose head is outside `S` but which contains a member of `S` has an outsider standing
    immediately before a member -/
theorem exists_adjacent {S : Cand → Prop} [DecidablePred S] :
    ∀ (l : List Cand) (a : Cand), ¬ S a → (∃ x ∈ l, S x) →
      ∃ A o s B, a :: l = A ++ o :: s :: B ∧ ¬ S o ∧ S s := by
  intro l
  induction l with
  | nil => intro a _ h; obtain ⟨x, hx, _⟩ := h; simp at hx
  | cons b rest ih =>
    intro a ha hex
    by_cases hb : S b
    · exact ⟨[], a, b, rest, rfl, ha, hb⟩
    · have hex' : ∃ x ∈ rest, S x := by
        obtain ⟨x, hx, hSx⟩ := hex
        rcases List.mem_cons.1 hx with rfl | hx'
        · exact absurd hSx hb
        · exact ⟨x, hx', hSx⟩
      obtain ⟨A, o, s, B, heq, ho, hs⟩ := ih b hb hex'
      exact ⟨a :: A, o, s, B, by rw [heq]; rfl, ho, hs⟩

/-- the unique best order starts with a member of every non-empty dominating set -/
theorem kemeny_best_head_dominating {v : Pairwise} {S : Cand → Prop} [DecidablePred S]
    (hS : Graph.Dominating (candidates v) (Beats v) S) (hne : ∃ s, S s) {best : List Cand}
    (hp : best.Perm (candidates v))
    (hbest : ∀ q, q.Perm (candidates v) → q ≠ best → kyScore v q < kyScore v best) :
    ∃ a, best.head? = some a ∧ S a := by
  obtain ⟨s0, hs0⟩ := hne
  have hs0b : s0 ∈ best := hp.symm.subset (hS.1 s0 hs0)
  cases hb : best with
  | nil => rw [hb] at hs0b; simp at hs0b
  | cons a rest =>
    refine ⟨a, rfl, ?_⟩
    by_contra ha
    rw [hb] at hs0b
    have hex : ∃ x ∈ rest, S x := by
      rcases List.mem_cons.1 hs0b with h | h
      · exact absurd (h ▸ hs0) ha
      · exact ⟨s0, h, hs0⟩
    obtain ⟨A, o, s, B, heq, ho, hs⟩ := exists_adjacent rest a ha hex
    have hdecomp : best = A ++ o :: s :: B := by rw [hb, heq]
    have hoc : o ∈ candidates v := hp.subset (by rw [hdecomp]; simp)
    have hbeat := hS.2 s o hs hoc ho
    have hq : (A ++ s :: o :: B).Perm (candidates v) := by
      refine List.Perm.trans ?_ hp
      rw [hdecomp]
      exact List.Perm.append_left A (List.Perm.swap o s B)
    have hneq : A ++ s :: o :: B ≠ best := by
      rw [hdecomp]
      intro h
      have := List.append_cancel_left h
      simp only [List.cons.injEq] at this
      exact ho (this.1 ▸ hs)
    have hlt := hbest _ hq hneq
    rw [kyScore_swap, ← hdecomp] at hlt
    unfold Beats at hbeat
    linarith

end VL.Condorcet
