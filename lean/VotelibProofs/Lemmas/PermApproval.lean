/-
  C10, approval family: `ProportionalApproval` and `SequentialProportionalApproval` (model VotelibModel/Approval.lean,
  owned by C12) do not depend on the insertion order of the profile dict.  Both are proved EQUAL on permuted profiles:
  C12 shows that the models equal their defining computations (`pavSpec`/`pavOrder`, `spavSpec`), which see the profile
  only through sums over it (`satH`, `reweighted`) and through the candidate SET (`allCands`, a canonical sorted list).
-/
import VotelibProofs.Lemmas.PermBase
import VotelibProofs.Lemmas.C12Approval
import VotelibProofs.Lemmas.C12Spav
namespace VL.Perm
open VL VL.Appr VL.C10

/-! ### the two ways a profile is looked at -/

/-- two strictly ascending lists with the same members are equal (a set has one iteration order) -/
theorem appr_sorted_ext {l₁ l₂ : List Nat} (h₁ : l₁.Pairwise (· < ·)) (h₂ : l₂.Pairwise (· < ·))
    (h : ∀ x, x ∈ l₁ ↔ x ∈ l₂) : l₁ = l₂ := by
  have hn₁ : l₁.Nodup := h₁.imp (fun h => Nat.ne_of_lt h)
  have hn₂ : l₂.Nodup := h₂.imp (fun h => Nat.ne_of_lt h)
  have hp : l₁.Perm l₂ := (List.perm_ext_iff_of_nodup hn₁ hn₂).mpr h
  exact List.Perm.eq_of_pairwise' (r := (· < ·)) h₁ h₂ hp

theorem sortDedup_congr {l₁ l₂ : List Nat} (h : ∀ x, x ∈ l₁ ↔ x ∈ l₂) : sortDedup l₁ = sortDedup l₂ :=
  appr_sorted_ext (sortDedup_sorted l₁) (sortDedup_sorted l₂) (fun x => by rw [mem_sortDedup, mem_sortDedup, h])

/-- the candidate set of a profile does not depend on the ballot order -/
theorem allCands_perm {p₁ p₂ : Profile} (h : p₁.Perm p₂) : allCands p₁ = allCands p₂ := by
  unfold allCands
  exact sortDedup_congr (fun x => (h.flatMap_right _).mem_iff)

theorem satH_perm {p₁ p₂ : Profile} (h : p₁.Perm p₂) (alt : List Cand) : satH p₁ alt = satH p₂ alt := by
  unfold satH; exact (h.map _).sum_eq

theorem reweighted_perm {p₁ p₂ : Profile} (h : p₁.Perm p₂) (elected : List Cand) (c : Cand) :
    reweighted p₁ elected c = reweighted p₂ elected c := by
  unfold reweighted; exact (h.map _).sum_eq

theorem appr_wf_perm {p₁ p₂ : Profile} (h : p₁.Perm p₂) (hwf : WF p₁) : WF p₂ :=
  fun bw hbw => hwf bw (h.mem_iff.mpr hbw)

/-! ### SPAV -/

theorem spavSpecGo_perm {p₁ p₂ : Profile} (h : p₁.Perm p₂) :
    ∀ (k : Nat) (elected : List Cand), spavSpecGo p₁ k elected = spavSpecGo p₂ k elected := by
  have hrw : reweighted p₁ = reweighted p₂ := by
    funext e c; exact reweighted_perm h e c
  intro k
  induction k with
  | zero => intro elected; rfl
  | succ k ih =>
    intro elected
    unfold spavSpecGo
    simp only [allCands_perm h, hrw, ih]

/-- **SPAV: ballot-order independence.**  On a profile of duplicate-free ballots the outcome (the elected list, in
    election order, or the refusal) is the SAME for every order of the ballots. -/
theorem spav_perm {p₁ p₂ : Profile} (h : p₁.Perm p₂) (hwf : WF p₁) (n : Nat) : spav p₁ n = spav p₂ n := by
  have e₁ : spav p₁ n = spavSpecGo p₁ n [] := spavGo_eq_spec hwf n []
  have e₂ : spav p₂ n = spavSpecGo p₂ n [] := spavGo_eq_spec (appr_wf_perm h hwf) n []
  rw [e₁, e₂]
  exact spavSpecGo_perm h n []

theorem appr_exceptEquiv_of_eq {α : Type} {R : α → α → Prop} (hR : ∀ a, R a a) {x y : Except Err α} (h : x = y) :
    ExceptEquiv R x y := by
  subst h
  cases x with
  | ok a => exact hR a
  | error e => exact rfl

/-- the same in the shared vocabulary of C10 -/
theorem spav_perm_equiv {p₁ p₂ : Profile} (h : p₁.Perm p₂) (hwf : WF p₁) (n : Nat) :
    ExceptEquiv (· = ·) (spav p₁ n) (spav p₂ n) :=
  appr_exceptEquiv_of_eq (fun _ => rfl) (spav_perm h hwf n)

example : WF [([0, 1], 5), ([0, 2], 4), ([3], 3)] ∧
    [([0, 1], (5 : Rat)), ([0, 2], 4), ([3], 3)].Perm [([3], 3), ([0, 1], 5), ([0, 2], 4)] := by decide +kernel
example : spav [([3], 3), ([0, 1], 5), ([0, 2], 4)] 3 = .ok [0, 3, 1] := by decide +kernel

/-! ### PAV -/

theorem maximisers_perm {p₁ p₂ : Profile} (h : p₁.Perm p₂) (cands : List Cand) (n : Nat) :
    maximisers p₁ cands n = maximisers p₂ cands n := by
  have hs : satH p₁ = satH p₂ := by funext a; exact satH_perm h a
  unfold maximisers
  rw [hs]

theorem pavSpec_perm {p₁ p₂ : Profile} (h : p₁.Perm p₂) (n : Nat) : pavSpec p₁ n = pavSpec p₂ n := by
  unfold pavSpec
  rw [allCands_perm h, maximisers_perm h]

theorem pavOrder_perm {p₁ p₂ : Profile} (h : p₁.Perm p₂) (a : List Cand) : pavOrder p₁ a = pavOrder p₂ a := by
  have hs : satH p₁ = satH p₂ := by funext a; exact satH_perm h a
  unfold pavOrder
  rw [hs]

/-- (the content of `VL.C12.pav_eq_spec`, restated here so that this file only depends on lemma files) -/
theorem pavStep_eq_spec (coefs : List Rat) (hc : CoefsOK coefs) (votes : Profile) (hwf : WF votes) (n : Nat) :
    (pavStep coefs votes n).1 =
      match pavSpec votes n with
      | some a => .ok (pavOrder votes a)
      | none => .error .notImplemented := by
  obtain ⟨hok, hlen⟩ := extendCoefs_ok hc n
  unfold pavStep pavSpec
  simp only
  rw [bestAlts_eq hok hwf _ (by omega)]
  show (match maximisers votes (allCands votes) n with
        | [a] => orderByScore (extendCoefs coefs n) votes a
        | _ => Except.error Err.notImplemented) = _
  have hmem : ∀ a ∈ maximisers votes (allCands votes) n, a.length = n :=
    fun a ha => (mem_combos.mp (maximisers_sub ha)).2
  rcases hm : maximisers votes (allCands votes) n with _ | ⟨a, _ | ⟨b, t⟩⟩
  · rfl
  · have : a.length = n := hmem a (by rw [hm]; simp)
    simp only
    rw [orderByScore_eq hok hwf (by omega)]
  · rfl

/-- **PAV: ballot-order independence**, any valid cache state (any history of calls on the instance): the outcome —
    the committee in its reported order, or the refusal — is the SAME for every order of the ballots. -/
theorem pavStep_perm {p₁ p₂ : Profile} (h : p₁.Perm p₂) (hwf : WF p₁) (coefs : List Rat) (hc : CoefsOK coefs) (n : Nat) :
    (pavStep coefs p₁ n).1 = (pavStep coefs p₂ n).1 := by
  rw [pavStep_eq_spec coefs hc p₁ hwf n, pavStep_eq_spec coefs hc p₂ (appr_wf_perm h hwf) n, pavSpec_perm h n]
  cases pavSpec p₂ n with
  | none => rfl
  | some a => simp only [pavOrder_perm h a]

/-- **PAV (fresh instance): ballot-order independence** — equal outcomes -/
theorem pav_perm {p₁ p₂ : Profile} (h : p₁.Perm p₂) (hwf : WF p₁) (n : Nat) : pav p₁ n = pav p₂ n :=
  pavStep_perm h hwf freshCoefs freshCoefs_ok n

/-- what a successful PAV call returns: individually elected candidates only -/
theorem pav_ok_shape {p : Profile} (hwf : WF p) {n : Nat} {r : List Slot} (hr : pav p n = .ok r) :
    ∃ e : List Cand, r = e.map Slot.cand := by
  unfold pav at hr
  rw [pavStep_eq_spec freshCoefs freshCoefs_ok p hwf n] at hr
  cases hs : pavSpec p n with
  | none => rw [hs] at hr; cases hr
  | some a =>
    rw [hs] at hr
    injection hr with hr
    refine ⟨(sortDesc (dropsOf p a)).map (·.1), ?_⟩
    rw [← hr, pavOrder_eq, List.map_map]; rfl

/-- the same in the shared vocabulary of C10: the same exception, or `SlotsEquiv` (here even equal) results -/
theorem pav_perm_equiv {p₁ p₂ : Profile} (h : p₁.Perm p₂) (hwf : WF p₁) (n : Nat) :
    ExceptEquiv SlotsEquiv (pav p₁ n) (pav p₂ n) := by
  have he := pav_perm h hwf n
  cases hr : pav p₁ n with
  | error e => rw [← he, hr]; exact rfl
  | ok r =>
    rw [← he, hr]
    obtain ⟨e, rfl⟩ := pav_ok_shape hwf hr
    exact slotsEquiv_refl _ ⟨e, [], 0, by simp⟩

example : WF [([0, 1], 3), ([2], 2), ([0], 1)] ∧
    [([0, 1], (3 : Rat)), ([2], 2), ([0], 1)].Perm [([0], 1), ([2], 2), ([0, 1], 3)] := by decide +kernel
example : pav [([0], 1), ([2], 2), ([0, 1], 3)] 2 = .ok [Slot.cand 0, Slot.cand 2] := by decide +kernel

/-! ### ballots as SETS: the order in which a ballot lists its candidates does not matter either -/

/-- the profile with every ballot in canonical (ascending) order -/
def apprCanon (p : Profile) : Profile := p.map (fun bw => (sortDedup bw.1, bw.2))

/-- the same ballots (as sets) with the same weights, in any order, each listing its candidates in any order -/
def ApprSame (p₁ p₂ : Profile) : Prop := (apprCanon p₁).Perm (apprCanon p₂)

instance (p₁ p₂ : Profile) : Decidable (ApprSame p₁ p₂) := by unfold ApprSame; infer_instance

theorem apprSame_of_perm {p₁ p₂ : Profile} (h : p₁.Perm p₂) : ApprSame p₁ p₂ := h.map _

theorem sortDedup_perm_of_nodup {b : List Cand} (hb : b.Nodup) : (sortDedup b).Perm b :=
  (List.perm_ext_iff_of_nodup (sortDedup_nodup b) hb).mpr (fun _ => mem_sortDedup)

theorem interLen_perm_left {b b' : List Cand} (h : b.Perm b') (e : List Cand) : interLen b e = interLen b' e := by
  unfold interLen; exact (h.filter _).length_eq

theorem apprCanon_wf (p : Profile) : WF (apprCanon p) := by
  intro bw hbw
  obtain ⟨x, _, rfl⟩ := List.mem_map.mp hbw
  exact sortDedup_nodup _

theorem reweighted_canon {p : Profile} (hwf : WF p) : reweighted (apprCanon p) = reweighted p := by
  funext e c
  unfold reweighted apprCanon
  rw [List.map_map]
  congr 1
  apply List.map_congr_left
  intro bw hbw
  have hperm := sortDedup_perm_of_nodup (hwf bw hbw)
  simp only [Function.comp_def, interLen_perm_left hperm, List.contains_eq_mem, mem_sortDedup]

theorem satH_canon {p : Profile} (hwf : WF p) : satH (apprCanon p) = satH p := by
  funext a
  unfold satH apprCanon
  rw [List.map_map]
  congr 1
  apply List.map_congr_left
  intro bw hbw
  simp only [Function.comp_def, interLen_perm_left (sortDedup_perm_of_nodup (hwf bw hbw))]

theorem allCands_canon (p : Profile) : allCands (apprCanon p) = allCands p := by
  apply appr_sorted_ext (sortDedup_sorted _) (sortDedup_sorted _)
  intro x
  show x ∈ allCands (apprCanon p) ↔ x ∈ allCands p
  rw [mem_allCands, mem_allCands]
  unfold apprCanon
  constructor
  · rintro ⟨bw, hbw, hx⟩
    obtain ⟨y, hy, rfl⟩ := List.mem_map.mp hbw
    exact ⟨y, hy, mem_sortDedup.mp hx⟩
  · rintro ⟨bw, hbw, hx⟩
    exact ⟨_, List.mem_map.mpr ⟨bw, hbw, rfl⟩, mem_sortDedup.mpr hx⟩

theorem spavSpecGo_congr {p q : Profile} (hall : allCands p = allCands q) (hrw : reweighted p = reweighted q) :
    ∀ (k : Nat) (elected : List Cand), spavSpecGo p k elected = spavSpecGo q k elected := by
  intro k
  induction k with
  | zero => intro elected; rfl
  | succ k ih =>
    intro elected
    unfold spavSpecGo
    simp only [hall, hrw, ih]

/-- **SPAV: independence of the ballot order and of the listing order inside a ballot** (ballots are sets): equal
    outcomes -/
theorem spav_same {p₁ p₂ : Profile} (h : ApprSame p₁ p₂) (hwf₁ : WF p₁) (hwf₂ : WF p₂) (n : Nat) :
    spav p₁ n = spav p₂ n := by
  have e₁ : spav p₁ n = spavSpecGo p₁ n [] := spavGo_eq_spec hwf₁ n []
  have e₂ : spav p₂ n = spavSpecGo p₂ n [] := spavGo_eq_spec hwf₂ n []
  rw [e₁, e₂, ← spavSpecGo_congr (allCands_canon p₁) (reweighted_canon hwf₁),
    ← spavSpecGo_congr (allCands_canon p₂) (reweighted_canon hwf₂)]
  exact spavSpecGo_perm h n []

/-- **PAV: independence of the ballot order and of the listing order inside a ballot**: equal outcomes -/
theorem pav_same {p₁ p₂ : Profile} (h : ApprSame p₁ p₂) (hwf₁ : WF p₁) (hwf₂ : WF p₂) (n : Nat) :
    pav p₁ n = pav p₂ n := by
  have canon : ∀ p, WF p → pav p n = pav (apprCanon p) n := by
    intro p hwf
    unfold pav
    rw [pavStep_eq_spec freshCoefs freshCoefs_ok p hwf n,
      pavStep_eq_spec freshCoefs freshCoefs_ok _ (apprCanon_wf p) n]
    unfold pavSpec maximisers pavOrder
    rw [allCands_canon, satH_canon hwf]
  rw [canon p₁ hwf₁, canon p₂ hwf₂]
  exact pav_perm h (apprCanon_wf p₁) n

example : ApprSame [([0, 1], 5), ([0, 2], 4), ([3], 3)] [([3], 3), ([1, 0], 5), ([2, 0], 4)] ∧
    WF [([3], 3), ([1, 0], 5), ([2, 0], 4)] := by decide +kernel
example : spav [([3], 3), ([1, 0], 5), ([2, 0], 4)] 3 = .ok [0, 3, 1] := by decide +kernel

end VL.Perm
