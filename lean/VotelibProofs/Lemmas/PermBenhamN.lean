/-
  C10: `Benham().evaluate(votes, n_seats)` for any number of seats (`PreConv.benhamN`): the evaluator asserts
  `n_seats == 1`, so with more (or no) seats it raises AssertionError whatever the profile; with one seat it is `benham`.
-/
import VotelibProofs.Lemmas.RenameBenham
import VotelibModel.PreConverted
namespace VL.Perm
open VL VL.Condorcet VL.C10 VL.PreConv

/-- **Benham, any number of seats: ballot-order independence** -/
theorem benhamN_perm {p₁ p₂ : Profile} (h : p₁.Perm p₂) (n : Nat) : ExceptEquiv SlotsEquiv (benhamN p₁ n) (benhamN p₂ n) := by
  unfold benhamN
  split
  · exact benham_perm h
  · exact rfl

/-- **Benham, any number of seats: renaming equivariance** -/
theorem benhamN_ren (σ : Cand → Cand) (hσ : Function.Injective σ) {p : Profile} (hp : Hyb.CanonP p) (n : Nat) :
    ExceptEquiv SlotsEquiv (benhamN (Hyb.renProfileH σ p) n) ((benhamN p n).map (List.map (renSlot σ))) := by
  unfold benhamN
  split
  · exact benham_ren σ hσ hp
  · exact rfl

end VL.Perm
