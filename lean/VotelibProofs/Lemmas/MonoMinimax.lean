/-
  C17 helper lemmas: the minimax worst-defeat table (`MinimaxCondorcet.evaluate`) and its behaviour under `Raised`.
-/
import VotelibProofs.Lemmas.MonoCopeland
namespace VL.Mono
open VL VL.Condorcet VL.Convert

/-! ### the `max_counterscore` dictionary -/

/-- one update `max(max_counterscore.get(c, -inf), score)` -/
def omax (o : Option Rat) (x : Rat) : Option Rat :=
  match o with
  | none => some x
  | some a => some (rmax a x)

theorem oget_cons (d : Cand) (y : Option Rat) (rest : List (Cand × Option Rat)) (c : Cand) :
    oget ((d, y) :: rest) c = if d = c then y else oget rest c := by
  unfold oget
  by_cases h : d = c <;> simp [List.find?, h]

theorem oget_oset (m : List (Cand × Option Rat)) (c : Cand) (x : Option Rat) (c' : Cand) :
    oget (oset m c x) c' = if c' = c then x else oget m c' := by
  induction m with
  | nil =>
    simp only [oset, oget_cons]
    by_cases h : c' = c
    · rw [if_pos h.symm, if_pos h]
    · rw [if_neg (fun h' => h h'.symm), if_neg h]
  | cons e rest ih =>
    obtain ⟨d, y⟩ := e
    simp only [oset]
    by_cases hd : d = c
    · subst hd
      rw [if_pos rfl, oget_cons, oget_cons]
      by_cases h : c' = d
      · rw [if_pos h.symm, if_pos h]
      · rw [if_neg (fun h' => h h'.symm), if_neg h, if_neg (fun h' => h h'.symm)]
    · rw [if_neg hd, oget_cons, oget_cons, ih]
      by_cases h : d = c'
      · rw [if_pos h, if_pos h, if_neg (by rw [← h]; exact hd)]
      · rw [if_neg h, if_neg h]

theorem keys_oset (m : List (Cand × Option Rat)) (c : Cand) (x : Option Rat) (hc : c ∈ m.map (·.1)) :
    (oset m c x).map (·.1) = m.map (·.1) := by
  induction m with
  | nil => simp at hc
  | cons e rest ih =>
    obtain ⟨d, y⟩ := e
    simp only [oset]
    by_cases hd : d = c
    · rw [if_pos hd]; rfl
    · rw [if_neg hd]
      simp only [List.map_cons, List.mem_cons] at hc ⊢
      rcases hc with h | h
      · exact absurd h.symm hd
      · rw [ih h]

def mstep (m : List (Cand × Option Rat)) (e : Pair × Rat) : List (Cand × Option Rat) :=
  oset m e.1.2 (match oget m e.1.2 with
    | none => some e.2
    | some a => some (rmax a e.2))

theorem maxCounterscore_eq (sc : Condorcet.Scorer) (v : Pairwise) :
    maxCounterscore sc v = (scorePairs sc v).foldl mstep ((candidates v).map (fun c => (c, none))) := rfl

theorem oget_mstep (m : List (Cand × Option Rat)) (e : Pair × Rat) (c : Cand) :
    oget (mstep m e) c = if e.1.2 = c then omax (oget m c) e.2 else oget m c := by
  unfold mstep
  rw [oget_oset]
  by_cases h : c = e.1.2
  · subst h
    simp only [↓reduceIte, omax]
  · rw [if_neg h, if_neg (fun h' => h h'.symm)]

theorem oget_fold (L : List (Pair × Rat)) (m : List (Cand × Option Rat)) (c : Cand) :
    oget (L.foldl mstep m) c = ((L.filter (fun e => e.1.2 = c)).map (·.2)).foldl omax (oget m c) := by
  induction L generalizing m with
  | nil => rfl
  | cons e rest ih =>
    rw [List.foldl_cons, ih, oget_mstep]
    by_cases h : e.1.2 = c
    · simp [h]
    · simp [h]

theorem keys_fold (L : List (Pair × Rat)) (m : List (Cand × Option Rat))
    (h : ∀ e ∈ L, e.1.2 ∈ m.map (·.1)) : (L.foldl mstep m).map (·.1) = m.map (·.1) := by
  induction L generalizing m with
  | nil => rfl
  | cons e rest ih =>
    rw [List.foldl_cons]
    have hk : (mstep m e).map (·.1) = m.map (·.1) := keys_oset m _ _ (h e (by simp))
    rw [ih (mstep m e) (fun e' he' => by rw [hk]; exact h e' (by simp [he'])), hk]

/-- what a fold of `omax` returns: the maximum of the start value and the list -/
theorem fold_omax_spec (l : List Rat) (o : Option Rat) :
    (l.foldl omax o = none ↔ o = none ∧ l = []) ∧
    ∀ s, l.foldl omax o = some s → (o = some s ∨ s ∈ l) ∧ (∀ a, o = some a → a ≤ s) ∧ ∀ x ∈ l, x ≤ s := by
  induction l generalizing o with
  | nil =>
    simp only [List.foldl_nil, and_true, List.not_mem_nil, or_false, false_imp_iff, implies_true, true_and]
    intro s hs
    refine ⟨hs, fun a ha => ?_⟩
    rw [hs] at ha; cases ha; exact le_refl _
  | cons x rest ih =>
    rw [List.foldl_cons]
    obtain ⟨h1, h2⟩ := ih (omax o x)
    constructor
    · rw [h1]
      cases o <;> simp [omax]
    · intro s hs
      obtain ⟨h3, h4, h5⟩ := h2 s hs
      cases o with
      | none =>
        simp only [omax] at h3 h4
        refine ⟨?_, by simp, ?_⟩
        · rcases h3 with h | h
          · right; simp only [Option.some.injEq] at h; simp [h]
          · right; simp [h]
        · intro y hy
          rcases List.mem_cons.mp hy with rfl | hy
          · exact h4 y rfl
          · exact h5 y hy
      | some a =>
        simp only [omax] at h3 h4
        have hr := h4 (rmax a x) rfl
        have ha : a ≤ rmax a x := by unfold rmax; split <;> [exact le_of_lt ‹_›; exact le_refl _]
        have hx : x ≤ rmax a x := by unfold rmax; split <;> [exact le_refl _; exact not_lt.mp ‹_›]
        refine ⟨?_, ?_, ?_⟩
        · rcases h3 with h | h
          · simp only [Option.some.injEq] at h
            unfold rmax at h
            split at h
            · right; simp [← h]
            · left; simp [← h]
          · right; simp [h]
        · intro a' ha'
          simp only [Option.some.injEq] at ha'
          subst ha'; exact le_trans ha hr
        · intro y hy
          rcases List.mem_cons.mp hy with rfl | hy
          · exact le_trans hx hr
          · exact h5 y hy

/-! ### scores of the pairs -/

/-- the score the configured pairwise win scorer gives to the pair `(x, c)` -/
def sfn (sc : Condorcet.Scorer) (v : Pairwise) (p : Pair) : Rat :=
  match sc with
  | .winningVotes => if pget v (p.2, p.1) < pget v p then pget v p else 0
  | .margins => pget v p - pget v (p.2, p.1)
  | .pairwiseOpposition => pget v p

theorem scorePairs_eq (sc : Condorcet.Scorer) (v : Pairwise) (hk : (v.map (·.1)).Nodup) :
    scorePairs sc v = v.map (fun e => (e.1, sfn sc v e.1)) := by
  unfold scorePairs
  cases sc <;> simp only [sfn]
  · apply List.map_congr_left
    intro e he
    rw [pget_of_mem hk (show (e.1, e.2) ∈ v from he)]
  · apply List.map_congr_left
    intro e he
    rw [pget_of_mem hk (show (e.1, e.2) ∈ v from he)]
  · conv_lhs => rw [← List.map_id v]
    apply List.map_congr_left
    intro e he
    rw [pget_of_mem hk (show (e.1, e.2) ∈ v from he)]; rfl

/-- worst defeat of `c` (`none` = nobody is ranked above `c` on any ballot) -/
def worst (sc : Condorcet.Scorer) (v : Pairwise) (c : Cand) : Option Rat := oget (maxCounterscore sc v) c

theorem worst_spec (sc : Condorcet.Scorer) (v : Pairwise) (hk : (v.map (·.1)).Nodup) (c : Cand) :
    (worst sc v c = none ↔ ∀ x, (x, c) ∉ v.map (·.1)) ∧
    ∀ s, worst sc v c = some s →
      (∃ x, (x, c) ∈ v.map (·.1) ∧ sfn sc v (x, c) = s) ∧ ∀ x, (x, c) ∈ v.map (·.1) → sfn sc v (x, c) ≤ s := by
  unfold worst
  rw [maxCounterscore_eq, oget_fold]
  have h0 : oget ((candidates v).map (fun c => (c, (none : Option Rat)))) c = none := by
    induction candidates v with
    | nil => rfl
    | cons a t ih => rw [List.map_cons, oget_cons]; split <;> [rfl; exact ih]
  rw [h0, scorePairs_eq sc v hk]
  have hmem : ∀ s, s ∈ ((v.map (fun e => (e.1, sfn sc v e.1))).filter (fun e => e.1.2 = c)).map (·.2)
      ↔ ∃ x, (x, c) ∈ v.map (·.1) ∧ sfn sc v (x, c) = s := by
    intro s
    simp only [List.mem_map, List.mem_filter, decide_eq_true_eq]
    constructor
    · rintro ⟨e', ⟨⟨e, he, rfl⟩, hc⟩, hs⟩
      simp only at hc hs
      refine ⟨e.1.1, ⟨e, he, ?_⟩, ?_⟩
      · rw [← hc]
      · rw [← hs, ← hc]
    · rintro ⟨x, ⟨e, he, hx⟩, hs⟩
      exact ⟨(e.1, sfn sc v e.1), ⟨⟨e, he, rfl⟩, by simp [hx]⟩, by simp [hx, hs]⟩
  obtain ⟨h1, h2⟩ := fold_omax_spec
    (((v.map (fun e => (e.1, sfn sc v e.1))).filter (fun e => e.1.2 = c)).map (·.2)) none
  constructor
  · rw [h1]
    simp only [true_and]
    constructor
    · intro hnil x hx
      obtain ⟨e, he, hxe⟩ := List.mem_map.mp hx
      have : sfn sc v (x, c) ∈ ([] : List Rat) := by rw [← hnil, hmem]; exact ⟨x, hx, rfl⟩
      simp at this
    · intro hno
      rw [List.eq_nil_iff_forall_not_mem]
      intro s hs
      obtain ⟨x, hx, _⟩ := (hmem s).mp hs
      exact hno x hx
  · intro s hs
    obtain ⟨h3, _, h5⟩ := h2 s hs
    refine ⟨?_, fun x hx => h5 _ ((hmem _).mpr ⟨x, hx, rfl⟩)⟩
    rcases h3 with h | h
    · cases h
    · exact (hmem s).mp h

theorem keys_maxCounterscore (sc : Condorcet.Scorer) (v : Pairwise) (hk : (v.map (·.1)).Nodup) :
    (maxCounterscore sc v).map (·.1) = candidates v := by
  rw [maxCounterscore_eq, keys_fold]
  · simp [List.map_map, Function.comp_def]
  · intro e he
    rw [scorePairs_eq sc v hk] at he
    obtain ⟨e0, he0, rfl⟩ := List.mem_map.mp he
    simp only [List.map_map, Function.comp_def, List.map_id']
    exact snd_mem_candidates he0

/-! ### the result -/

/-- `a` is a strictly smaller worst defeat than `b` -/
def wlt : Option Rat → Option Rat → Prop
  | none, some _ => True
  | some a, some b => a < b
  | _, none => False

/-- `a` is at most as bad as `b` -/
def wle : Option Rat → Option Rat → Prop
  | none, _ => True
  | some a, some b => a ≤ b
  | some _, none => False

theorem wlt_of_wle_of_wlt_of_wle {a' a b b' : Option Rat} (h1 : wle a' a) (h2 : wlt a b) (h3 : wle b b') : wlt a' b' := by
  cases a' <;> cases a <;> cases b <;> cases b' <;> simp_all [wle, wlt] <;> linarith

/-- the negated table handed to `get_n_best` -/
def encode (big : Rat) : Option Rat → Rat
  | some s => -s
  | none => big

theorem minimax_eq (sc : Condorcet.Scorer) (v : Pairwise) :
    minimax sc v 1 = getNBest ((maxCounterscore sc v).map
      (fun e => (e.1, encode (minimaxBig (maxCounterscore sc v)) e.2))) 1 := by
  unfold minimax
  simp only
  congr 1

theorem lt_minimaxBig (m : List (Cand × Option Rat)) (e : Cand × Option Rat) (he : e ∈ m) (s : Rat) (hs : e.2 = some s) :
    -s < minimaxBig m := by
  unfold minimaxBig
  have : ∀ (acc : Rat), acc ≤ m.foldl (fun acc e => match e.2 with | some s => rmax acc (-s) | none => acc) acc ∧
      -s ≤ m.foldl (fun acc e => match e.2 with | some s => rmax acc (-s) | none => acc) acc := by
    induction m with
    | nil => simp at he
    | cons a t ih =>
      intro acc
      rw [List.foldl_cons]
      have hmono : ∀ (l : List (Cand × Option Rat)) (acc : Rat),
          acc ≤ l.foldl (fun acc e => match e.2 with | some s => rmax acc (-s) | none => acc) acc := by
        intro l
        induction l with
        | nil => intro acc; exact le_refl _
        | cons b u ihu =>
          intro acc
          rw [List.foldl_cons]
          refine le_trans ?_ (ihu _)
          cases b.2 with
          | none => exact le_refl _
          | some x => simp only; unfold rmax; split <;> [exact le_of_lt ‹_›; exact le_refl _]
      have hacc : acc ≤ (match a.2 with | some s => rmax acc (-s) | none => acc) := by
        cases a.2 with
        | none => exact le_refl _
        | some x => simp only; unfold rmax; split <;> [exact le_of_lt ‹_›; exact le_refl _]
      rcases List.mem_cons.mp he with rfl | he'
      · refine ⟨le_trans hacc (hmono t _), ?_⟩
        rw [hs]
        simp only
        refine le_trans ?_ (hmono t _)
        unfold rmax; split <;> [exact le_refl _; exact not_lt.mp ‹_›]
      · obtain ⟨h1, h2⟩ := ih he' (match a.2 with | some s => rmax acc (-s) | none => acc)
        exact ⟨le_trans hacc h1, h2⟩
  exact lt_of_le_of_lt (this 0).2 (lt_one_add _)

theorem oget_eq_of_mem {m : List (Cand × Option Rat)} (hn : (m.map (·.1)).Nodup) {e : Cand × Option Rat} (he : e ∈ m) :
    oget m e.1 = e.2 := by
  induction m with
  | nil => simp at he
  | cons a t ih =>
    obtain ⟨d, y⟩ := a
    rw [oget_cons]
    simp only [List.map_cons, List.nodup_cons] at hn
    rcases List.mem_cons.mp he with rfl | he'
    · simp
    · rw [if_neg (by rintro rfl; exact hn.1 (List.mem_map.mpr ⟨e, he', rfl⟩))]
      exact ih hn.2 he'

/-- **Minimax sole winner**: the one-seat result is `[w]` exactly when `w`'s worst defeat is strictly smaller than
    everybody else's -/
theorem minimax_sole (sc : Condorcet.Scorer) (v : Pairwise) (hk : (v.map (·.1)).Nodup) (w : Cand) :
    minimax sc v 1 = [Slot.cand w] ↔
      w ∈ candidates v ∧ ∀ c ∈ candidates v, c ≠ w → wlt (worst sc v w) (worst sc v c) := by
  rw [minimax_eq]
  set m := maxCounterscore sc v with hm
  have hkm : m.map (·.1) = candidates v := keys_maxCounterscore sc v hk
  have hnm : (m.map (·.1)).Nodup := by rw [hkm]; exact nodup_candidates v
  have hkeys : keys (m.map (fun e => (e.1, encode (minimaxBig m) e.2))) = candidates v := by
    simp only [keys, List.map_map, Function.comp_def]; exact hkm
  rw [sole_iff _ (by rw [hkeys]; exact nodup_candidates v)]
  -- entries of the encoded table
  have hentry : ∀ c x, (c, x) ∈ m.map (fun e => (e.1, encode (minimaxBig m) e.2)) ↔
      c ∈ candidates v ∧ x = encode (minimaxBig m) (worst sc v c) := by
    intro c x
    simp only [List.mem_map, Prod.mk.injEq]
    constructor
    · rintro ⟨e, he, rfl, rfl⟩
      refine ⟨by rw [← hkm]; exact List.mem_map.mpr ⟨e, he, rfl⟩, ?_⟩
      unfold worst; rw [← hm, oget_eq_of_mem hnm he]
    · rintro ⟨hc, rfl⟩
      rw [← hkm] at hc
      obtain ⟨e, he, rfl⟩ := List.mem_map.mp hc
      exact ⟨e, he, rfl, by unfold worst; rw [← hm, oget_eq_of_mem hnm he]⟩
  -- comparison of encoded values
  have hcmp : ∀ a b, a ∈ candidates v → b ∈ candidates v →
      (encode (minimaxBig m) (worst sc v b) < encode (minimaxBig m) (worst sc v a) ↔ wlt (worst sc v a) (worst sc v b)) := by
    intro a b ha hb
    rw [← hkm] at ha hb
    obtain ⟨ea, hea, rfl⟩ := List.mem_map.mp ha
    obtain ⟨eb, heb, rfl⟩ := List.mem_map.mp hb
    have e1 : worst sc v ea.1 = ea.2 := by unfold worst; rw [← hm, oget_eq_of_mem hnm hea]
    have e2 : worst sc v eb.1 = eb.2 := by unfold worst; rw [← hm, oget_eq_of_mem hnm heb]
    rw [e1, e2]
    cases h1 : ea.2 with
    | none =>
      cases h2 : eb.2 with
      | none => simp [encode, wlt]
      | some t => simp only [encode, wlt, iff_true]; exact lt_minimaxBig m eb heb t h2
    | some s =>
      cases h2 : eb.2 with
      | none =>
        simp only [encode, wlt, iff_false, not_lt]
        exact le_of_lt (lt_minimaxBig m ea hea s h1)
      | some t => simp only [encode, wlt]; constructor <;> intro h <;> linarith
  constructor
  · rintro ⟨x, hwx, hlt⟩
    obtain ⟨hw, rfl⟩ := (hentry w x).mp hwx
    refine ⟨hw, fun c hc hcw => ?_⟩
    rw [← hcmp w c hw hc]
    exact hlt (c, _) ((hentry c _).mpr ⟨hc, rfl⟩) hcw
  · rintro ⟨hw, hlt⟩
    refine ⟨_, (hentry w _).mpr ⟨hw, rfl⟩, fun e he hew => ?_⟩
    obtain ⟨hc, hx⟩ := (hentry e.1 e.2).mp he
    rw [hx, hcmp w e.1 hw hc]
    exact hlt e.1 hc hew

/-! ### behaviour under `Raised` -/

/-- every stored count is positive (pairwise dictionaries built from ballots of positive weight) -/
def Positive (v : Pairwise) : Prop := ∀ e ∈ v, 0 < e.2

instance (v : Pairwise) : Decidable (Positive v) := by unfold Positive; infer_instance

theorem mem_keys_iff_pos {v : Pairwise} (hwf : WF v) (hp : Positive v) (p : Pair) :
    p ∈ v.map (·.1) ↔ 0 < pget v p := by
  constructor
  · intro h
    obtain ⟨e, he, rfl⟩ := List.mem_map.mp h
    rw [pget_of_mem hwf.1 (show (e.1, e.2) ∈ v from he)]
    exact hp e he
  · intro h
    exact List.mem_map.mpr ⟨_, pget_pos_mem h, rfl⟩

theorem sfn_to_w (sc : Condorcet.Scorer) {v v' : Pairwise} (hwf : WF v) {w : Cand} (h : Raised v v' w) (x : Cand) :
    sfn sc v' (x, w) ≤ sfn sc v (x, w) := by
  have h1 := h.up x
  have h2 := h.down x
  have h3 := pget_nonneg hwf (x, w)
  cases sc <;> simp only [sfn]
  · split <;> split <;> linarith
  · linarith
  · exact h2

theorem sfn_from_w (sc : Condorcet.Scorer) {v v' : Pairwise} (hwf' : WF v') {w : Cand} (h : Raised v v' w) (y : Cand) :
    sfn sc v (w, y) ≤ sfn sc v' (w, y) := by
  have h1 := h.up y
  have h2 := h.down y
  have h3 := pget_nonneg hwf' (w, y)
  cases sc <;> simp only [sfn]
  · split <;> split <;> linarith
  · linarith
  · exact h1

theorem sfn_same (sc : Condorcet.Scorer) {v v' : Pairwise} {w : Cand} (h : Raised v v' w) {x y : Cand} (hx : x ≠ w) (hy : y ≠ w) :
    sfn sc v' (x, y) = sfn sc v (x, y) := by
  cases sc <;> simp only [sfn, h.same x y hx hy, h.same y x hy hx]

theorem worst_w_le (sc : Condorcet.Scorer) {v v' : Pairwise} (hwf : WF v) (hwf' : WF v') (hp : Positive v) (hp' : Positive v')
    {w : Cand} (h : Raised v v' w) : wle (worst sc v' w) (worst sc v w) := by
  cases hw' : worst sc v' w with
  | none => trivial
  | some s' =>
    obtain ⟨⟨x, hx, hs'⟩, _⟩ := (worst_spec sc v' hwf'.1 w).2 s' hw'
    have hpos' := (mem_keys_iff_pos hwf' hp' _).mp hx
    have hx0 : (x, w) ∈ v.map (·.1) := (mem_keys_iff_pos hwf hp _).mpr (lt_of_lt_of_le hpos' (h.down x))
    cases hw : worst sc v w with
    | none => exact absurd hx0 (((worst_spec sc v hwf.1 w).1.mp hw) x)
    | some s =>
      have := ((worst_spec sc v hwf.1 w).2 s hw).2 x hx0
      have h1 := sfn_to_w sc hwf h x
      show s' ≤ s
      linarith

theorem worst_y_ge (sc : Condorcet.Scorer) {v v' : Pairwise} (hwf : WF v) (hwf' : WF v') (hp : Positive v) (hp' : Positive v')
    {w : Cand} (h : Raised v v' w) {y : Cand} (hy : y ≠ w) : wle (worst sc v y) (worst sc v' y) := by
  cases hw : worst sc v y with
  | none => trivial
  | some s =>
    obtain ⟨⟨x, hx, hs⟩, _⟩ := (worst_spec sc v hwf.1 y).2 s hw
    have hpos := (mem_keys_iff_pos hwf hp _).mp hx
    have hkey : (x, y) ∈ v'.map (·.1) ∧ s ≤ sfn sc v' (x, y) := by
      by_cases hxw : x = w
      · subst hxw
        exact ⟨(mem_keys_iff_pos hwf' hp' _).mpr (lt_of_lt_of_le hpos (h.up y)), by
          rw [← hs]; exact sfn_from_w sc hwf' h y⟩
      · exact ⟨(mem_keys_iff_pos hwf' hp' _).mpr (by rw [h.same x y hxw hy]; exact hpos), by
          rw [← hs, sfn_same sc h hxw hy]⟩
    cases hw' : worst sc v' y with
    | none => exact absurd hkey.1 (((worst_spec sc v' hwf'.1 y).1.mp hw') x)
    | some s' =>
      have := ((worst_spec sc v' hwf'.1 y).2 s' hw').2 x hkey.1
      show s ≤ s'
      linarith [hkey.2]

end VL.Mono
