/-
  C17 helper lemmas: minimax worst defeats under `Raised`.
  `MinimaxCondorcet.evaluate` (after fix 39ed002) scores every ordered pair of candidates, an unranked pair counting
  zero against zero; `VotelibProofs/Lemmas/Minimax.lean` (C05) characterises the result through
  `worstDefeat sc v c` = the maximum over all opponents `o` of `pairScore sc v o c`.
-/
import VotelibProofs.Lemmas.Minimax
import VotelibProofs.Lemmas.MonoCopeland
namespace VL.Mono
open VL VL.Condorcet VL.Convert

theorem pairScore_to_w (sc : Condorcet.Scorer) {v v' : Pairwise} (hwf : WF v) {w : Cand} (h : Raised v v' w) (o : Cand) :
    pairScore sc v' o w ≤ pairScore sc v o w := by
  have h1 := h.up o
  have h2 := h.down o
  have h3 := pget_nonneg hwf (o, w)
  cases sc <;> simp only [pairScore]
  · split <;> split <;> linarith
  · linarith
  · exact h2

theorem pairScore_from_w (sc : Condorcet.Scorer) {v v' : Pairwise} (hwf' : WF v') {w : Cand} (h : Raised v v' w) (y : Cand) :
    pairScore sc v w y ≤ pairScore sc v' w y := by
  have h1 := h.up y
  have h2 := h.down y
  have h3 := pget_nonneg hwf' (w, y)
  cases sc <;> simp only [pairScore]
  · split <;> split <;> linarith
  · linarith
  · exact h1

theorem pairScore_same (sc : Condorcet.Scorer) {v v' : Pairwise} {w : Cand} (h : Raised v v' w) {o y : Cand}
    (ho : o ≠ w) (hy : y ≠ w) : pairScore sc v' o y = pairScore sc v o y := by
  cases sc <;> simp only [pairScore, h.same o y ho hy, h.same y o hy ho]

/-- the worst defeat of `w` does not grow -/
theorem worstDefeat_w_le (sc : Condorcet.Scorer) {v v' : Pairwise} (hwf : WF v) (hwf' : WF v') {w : Cand}
    (h : Raised v v' w) (hc : ∀ c, c ∈ candidates v' ↔ c ∈ candidates v) (hw : w ∈ candidates v) :
    worstDefeat sc v' w ≤ worstDefeat sc v w := by
  obtain ⟨⟨o, ho, hne, hs⟩, _⟩ := worstDefeat_spec (sc := sc) (exists_other hwf' ((hc w).mpr hw))
  obtain ⟨_, hmax⟩ := worstDefeat_spec (sc := sc) (exists_other hwf hw)
  rw [hs]
  exact le_trans (pairScore_to_w sc hwf h o) (hmax o ((hc o).mp ho) hne)

/-- the worst defeat of anybody else does not shrink -/
theorem worstDefeat_y_ge (sc : Condorcet.Scorer) {v v' : Pairwise} (hwf : WF v) (hwf' : WF v') {w : Cand}
    (h : Raised v v' w) (hc : ∀ c, c ∈ candidates v' ↔ c ∈ candidates v) {y : Cand} (hy : y ∈ candidates v) (hyw : y ≠ w) :
    worstDefeat sc v y ≤ worstDefeat sc v' y := by
  obtain ⟨⟨o, ho, hne, hs⟩, _⟩ := worstDefeat_spec (sc := sc) (exists_other hwf hy)
  obtain ⟨_, hmax⟩ := worstDefeat_spec (sc := sc) (exists_other hwf' ((hc y).mpr hy))
  rw [hs]
  refine le_trans ?_ (hmax o ((hc o).mpr ho) hne)
  by_cases how : o = w
  · subst how; exact pairScore_from_w sc hwf' h y
  · rw [pairScore_same sc h how hyw]

/-- minimax through the worst defeats, for a well-formed matrix -/
theorem minimax_eq_worst (sc : Condorcet.Scorer) (v : Pairwise) (hwf : WF v) :
    minimax sc v 1 = getNBest ((candidates v).map (fun c => (c, -(worstDefeat sc v c)))) 1 :=
  minimax_by_worstDefeat sc v 1 (fun _ hc => exists_other hwf hc)

theorem keys_worstTable (sc : Condorcet.Scorer) (v : Pairwise) :
    keys ((candidates v).map (fun c => (c, -(worstDefeat sc v c)))) = candidates v := by
  simp [keys, List.map_map, Function.comp_def]

/-- every stored count is positive (pairwise dictionaries built from ballots of positive weight) -/
def Positive (v : Pairwise) : Prop := ∀ e ∈ v, 0 < e.2

instance (v : Pairwise) : Decidable (Positive v) := by unfold Positive; infer_instance

end VL.Mono
