/-
  Lemmas about the transferable-vote model (VotelibModel/STV.lean): piles, allocations, transfer,
  subtraction; used by Props/C03.lean and Props/C04.lean.
-/
import VotelibModel.STV
import VotelibProofs.Lemmas.NBest
import Mathlib.Algebra.Order.Field.Basic
import Mathlib.Algebra.Order.Ring.Rat
import Mathlib.Algebra.BigOperators.Group.List.Basic
import Mathlib.Tactic.Linarith
import Mathlib.Tactic.Ring
import Mathlib.Tactic.FieldSimp
namespace VL.STV
open VL

/-! ### piles -/

@[simp] theorem pileTotal_nil : pileTotal [] = 0 := rfl

@[simp] theorem pileTotal_cons (bw : Ballot × Rat) (p : Pile) : pileTotal (bw :: p) = bw.2 + pileTotal p := by
  simp [pileTotal]

theorem pileTotal_pileAdd (p : Pile) (b : Ballot) (w : Rat) : pileTotal (pileAdd p b w) = pileTotal p + w := by
  induction p with
  | nil => simp [pileAdd]
  | cons x xs ih =>
    obtain ⟨b', w'⟩ := x
    simp only [pileAdd]
    split
    · simp only [pileTotal_cons]; ring
    · simp only [pileTotal_cons, ih]; ring

/-- the papers of a pile after adding weight for `b`: the old papers (same ballots) and possibly `b` -/
theorem mem_pileAdd {p : Pile} {b : Ballot} {w : Rat} {x : Ballot × Rat} (hx : x ∈ pileAdd p b w) :
    x.1 = b ∨ x ∈ p := by
  induction p with
  | nil => simp [pileAdd] at hx; left; rw [hx]
  | cons y ys ih =>
    obtain ⟨b', w'⟩ := y
    simp only [pileAdd] at hx
    split at hx
    · rename_i hb
      rcases List.mem_cons.mp hx with h | h
      · left; rw [h]; exact hb
      · right; exact List.mem_cons_of_mem _ h
    · rcases List.mem_cons.mp hx with h | h
      · right; rw [h]; exact List.mem_cons_self
      · rcases ih h with h' | h'
        · left; exact h'
        · right; exact List.mem_cons_of_mem _ h'

theorem pileAdd_nonneg {p : Pile} {b : Ballot} {w : Rat} (hp : ∀ x ∈ p, 0 ≤ x.2) (hw : 0 ≤ w) :
    ∀ x ∈ pileAdd p b w, 0 ≤ x.2 := by
  induction p with
  | nil => intro x hx; simp [pileAdd] at hx; rw [hx]; simpa using hw
  | cons y ys ih =>
    obtain ⟨b', w'⟩ := y
    intro x hx
    simp only [pileAdd] at hx
    have hy : 0 ≤ w' := hp (b', w') List.mem_cons_self
    have hys : ∀ x ∈ ys, 0 ≤ x.2 := fun x hx => hp x (List.mem_cons_of_mem _ hx)
    split at hx
    · rcases List.mem_cons.mp hx with h | h
      · rw [h]; exact add_nonneg hy hw
      · exact hys x h
    · rcases List.mem_cons.mp hx with h | h
      · rw [h]; exact hy
      · exact ih hys x h

/-! ### allocations -/

@[simp] theorem held_nil : held [] = 0 := rfl

@[simp] theorem held_cons (hp : Option Cand × Pile) (a : Alloc) : held (hp :: a) = pileTotal hp.2 + held a := by
  simp [held]

theorem held_allocAdd (a : Alloc) (h : Option Cand) (b : Ballot) (w : Rat) :
    held (allocAdd a h b w) = held a + w := by
  induction a with
  | nil => simp [allocAdd, pileTotal_pileAdd]
  | cons x xs ih =>
    obtain ⟨h', p⟩ := x
    simp only [allocAdd]
    split
    · simp only [held_cons, pileTotal_pileAdd]; ring
    · simp only [held_cons, ih]; ring


/-- every paper of `allocAdd a h b w` is an old paper of the same holder, or a paper for `b` with `h` -/
theorem allocAdd_entry {a : Alloc} {h : Option Cand} {b : Ballot} {w : Rat} {hp : Option Cand × Pile}
    {x : Ballot × Rat} (hhp : hp ∈ allocAdd a h b w) (hx : x ∈ hp.2) :
    (hp.1 = h ∧ x.1 = b) ∨ ∃ hp' ∈ a, hp'.1 = hp.1 ∧ x ∈ hp'.2 := by
  induction a with
  | nil =>
    simp only [allocAdd, List.mem_singleton] at hhp
    subst hhp
    rcases mem_pileAdd hx with h1 | h1
    · left; exact ⟨rfl, h1⟩
    · cases h1
  | cons y ys ih =>
    obtain ⟨h', p⟩ := y
    simp only [allocAdd] at hhp
    split at hhp
    · rename_i heq
      rcases List.mem_cons.mp hhp with h1 | h1
      · subst h1
        rcases mem_pileAdd hx with h2 | h2
        · left; exact ⟨heq, h2⟩
        · right; exact ⟨(h', p), List.mem_cons_self, rfl, h2⟩
      · right; exact ⟨hp, List.mem_cons_of_mem _ h1, rfl, hx⟩
    · rcases List.mem_cons.mp hhp with h1 | h1
      · subst h1; right; exact ⟨(h', p), List.mem_cons_self, rfl, hx⟩
      · rcases ih h1 with h2 | ⟨hp', hm, hk, hxx⟩
        · left; exact h2
        · right; exact ⟨hp', List.mem_cons_of_mem _ hm, hk, hxx⟩

theorem allocKeys_allocAdd_of_mem {a : Alloc} {h : Option Cand} (b : Ballot) (w : Rat) (hm : h ∈ allocKeys a) :
    allocKeys (allocAdd a h b w) = allocKeys a := by
  induction a with
  | nil => simp [allocKeys] at hm
  | cons y ys ih =>
    obtain ⟨h', p⟩ := y
    simp only [allocAdd]
    split
    · simp [allocKeys]
    · rename_i hne
      simp only [allocKeys, List.map_cons, List.mem_cons] at hm ⊢
      rcases hm with h1 | h1
      · exact absurd h1.symm hne
      · congr 1; exact ih h1

theorem allocKeys_allocAdd_of_not_mem {a : Alloc} {h : Option Cand} (b : Ballot) (w : Rat) (hm : h ∉ allocKeys a) :
    allocKeys (allocAdd a h b w) = allocKeys a ++ [h] := by
  induction a with
  | nil => simp [allocKeys, allocAdd]
  | cons y ys ih =>
    obtain ⟨h', p⟩ := y
    simp only [allocKeys, List.map_cons, List.mem_cons, not_or] at hm
    simp only [allocAdd]
    split
    · rename_i heq; exact absurd heq.symm hm.1
    · simp only [allocKeys, List.map_cons, List.cons_append]; congr 1; exact ih hm.2

theorem mem_allocKeys_allocAdd {a : Alloc} {h' : Option Cand} (h : Option Cand) (b : Ballot) (w : Rat)
    (hm : h' ∈ allocKeys a) : h' ∈ allocKeys (allocAdd a h b w) := by
  by_cases hh : h ∈ allocKeys a
  · rw [allocKeys_allocAdd_of_mem b w hh]; exact hm
  · rw [allocKeys_allocAdd_of_not_mem b w hh]; exact List.mem_append_left _ hm

theorem continuing_eq (a : Alloc) : continuing a = (allocKeys a).filterMap id := by
  simp [continuing, allocKeys, List.filterMap_map]

theorem mem_continuing {a : Alloc} {c : Cand} : c ∈ continuing a ↔ some c ∈ allocKeys a := by
  simp [continuing, allocKeys]

theorem continuing_allocAdd_none (a : Alloc) (b : Ballot) (w : Rat) :
    continuing (allocAdd a none b w) = continuing a := by
  by_cases hm : none ∈ allocKeys a
  · rw [continuing_eq, allocKeys_allocAdd_of_mem b w hm, ← continuing_eq]
  · rw [continuing_eq, allocKeys_allocAdd_of_not_mem b w hm, List.filterMap_append, ← continuing_eq]; simp

theorem continuing_allocAdd_some {a : Alloc} {t : Cand} (b : Ballot) (w : Rat) (ht : t ∈ continuing a) :
    continuing (allocAdd a (some t) b w) = continuing a := by
  rw [continuing_eq, allocKeys_allocAdd_of_mem b w (mem_continuing.mp ht), ← continuing_eq]

theorem allocPile_cons (h' : Option Cand) (p : Pile) (ys : Alloc) (h : Option Cand) :
    allocPile ((h', p) :: ys) h = if h' = h then p else allocPile ys h := by
  by_cases he : h' = h <;> simp [allocPile, he]

/-- adding non-negative weight never lowers a pile -/
theorem pileTotal_allocAdd_ge (a : Alloc) (h : Option Cand) (b : Ballot) {w : Rat} (hw : 0 ≤ w) (h' : Option Cand) :
    pileTotal (allocPile a h') ≤ pileTotal (allocPile (allocAdd a h b w) h') := by
  induction a with
  | nil =>
    simp only [allocAdd, allocPile_cons]
    split
    · rw [pileTotal_pileAdd]; simp [allocPile, hw]
    · exact le_refl _
  | cons y ys ih =>
    obtain ⟨k, p⟩ := y
    simp only [allocAdd]
    split
    · rename_i hk
      simp only [allocPile_cons]
      split
      · rw [pileTotal_pileAdd]; linarith
      · exact le_refl _
    · simp only [allocPile_cons]
      split
      · exact le_refl _
      · exact ih

/-- holder keys are distinct -/
def KeysNodup (a : Alloc) : Prop := (allocKeys a).Nodup

theorem KeysNodup.allocAdd {a : Alloc} (hk : KeysNodup a) (h : Option Cand) (b : Ballot) (w : Rat) :
    KeysNodup (allocAdd a h b w) := by
  unfold KeysNodup at *
  by_cases hm : h ∈ allocKeys a
  · rw [allocKeys_allocAdd_of_mem b w hm]; exact hk
  · rw [allocKeys_allocAdd_of_not_mem b w hm]
    exact List.nodup_append.mpr ⟨hk, List.nodup_singleton _, by
      intro x hx y hy; simp at hy; subst hy; intro he; subst he; exact hm hx⟩

/-- all weights non-negative -/
def NonNeg (a : Alloc) : Prop := ∀ hp ∈ a, ∀ bw ∈ hp.2, 0 ≤ bw.2

theorem NonNeg.allocAdd {a : Alloc} (hn : NonNeg a) (h : Option Cand) (b : Ballot) {w : Rat} (hw : 0 ≤ w) :
    NonNeg (allocAdd a h b w) := by
  induction a with
  | nil =>
    intro hp hhp x hx
    simp only [STV.allocAdd, List.mem_singleton] at hhp
    subst hhp
    exact pileAdd_nonneg (by simp) hw x hx
  | cons y ys ih =>
    obtain ⟨h', p⟩ := y
    have hy : ∀ x ∈ p, 0 ≤ x.2 := hn (h', p) List.mem_cons_self
    have hys : NonNeg ys := fun hp hhp => hn hp (List.mem_cons_of_mem _ hhp)
    intro hp hhp x hx
    simp only [STV.allocAdd] at hhp
    split at hhp
    · rcases List.mem_cons.mp hhp with h1 | h1
      · subst h1; exact pileAdd_nonneg hy hw x hx
      · exact hys hp h1 x hx
    · rcases List.mem_cons.mp hhp with h1 | h1
      · subst h1; exact hy x hx
      · exact ih hys hp h1 x hx


/-! ### ranked_next -/

/-- the ballot has no shared rank -/
def noShared (b : Ballot) : Bool := b.all (fun it => match it with
  | .one _ => true
  | .shared _ => false)

/-- the highest-ranked candidate on the ballot that belongs to `cont` -/
def topCont (b : Ballot) (cont : List Cand) : Option Cand := (ballotCands b).find? (fun c => decide (c ∈ cont))

theorem rankedNextGo_subset (frm : Option Cand) (allowed : List Cand) (take : Bool) (b : Ballot) :
    ∀ x ∈ rankedNextGo frm allowed take b, x ∈ allowed := by
  induction b generalizing take with
  | nil => intro x hx; simp [rankedNextGo] at hx
  | cons it rest ih =>
    intro x hx
    cases it with
    | one c =>
      simp only [rankedNextGo] at hx
      split at hx
      · split at hx
        · simp at hx; subst hx; assumption
        · exact ih _ x hx
      · split at hx <;> exact ih _ x hx
    | shared cs =>
      simp only [rankedNextGo] at hx
      have key : ∀ (cond : Bool), x ∈ (if cond = true then
            (if cs.filter (fun c => decide (c ∈ allowed)) ≠ [] then cs.filter (fun c => decide (c ∈ allowed))
              else rankedNextGo frm allowed true rest)
          else rankedNextGo frm allowed false rest) → x ∈ allowed := by
        intro cond hc
        split at hc
        · split at hc
          · have := (List.mem_filter.mp hc).2; simpa using this
          · exact ih _ x hc
        · exact ih _ x hc
      exact key _ hx

theorem rankedNext_subset (b : Ballot) (frm : Option Cand) (allowed : List Cand) :
    ∀ x ∈ rankedNext b frm allowed, x ∈ allowed := rankedNextGo_subset _ _ _ _

theorem topCont_mem {b : Ballot} {cont : List Cand} {c : Cand} (h : topCont b cont = some c) : c ∈ cont := by
  have := List.find?_some h
  simpa using this

theorem topCont_cons_one (c : Cand) (rest : Ballot) (cont : List Cand) :
    topCont (.one c :: rest) cont = if c ∈ cont then some c else topCont rest cont := by
  simp only [topCont, ballotCands, List.flatMap_cons, itemCands, List.singleton_append, List.find?_cons]
  by_cases h : c ∈ cont <;> simp [h]

theorem noShared_cons_one (c : Cand) (rest : Ballot) : noShared (.one c :: rest) = noShared rest := by
  simp [noShared]

theorem noShared_cons_shared (cs : List Cand) (rest : Ballot) : noShared (.shared cs :: rest) = false := by
  simp [noShared]

/-- scanning with `take_next` set finds the top candidate of the allowed set -/
theorem rankedNextGo_true_noShared (frm : Option Cand) (allowed : List Cand) (b : Ballot) (hb : noShared b = true) :
    rankedNextGo frm allowed true b = (topCont b allowed).toList := by
  induction b with
  | nil => simp [rankedNextGo, topCont, ballotCands]
  | cons it rest ih =>
    cases it with
    | shared cs => rw [noShared_cons_shared] at hb; cases hb
    | one c =>
      rw [noShared_cons_one] at hb
      simp only [rankedNextGo, if_true, topCont_cons_one]
      by_cases h : c ∈ allowed
      · simp [h]
      · simp [h, ih hb]

/-- a paper resting with the top candidate `c` of the old continuing set goes, when `c` is removed, to the
    top candidate of the new continuing set (or to nobody) -/
theorem rankedNextGo_false_noShared {c : Cand} {c0 cont : List Cand} (b : Ballot) (hb : noShared b = true)
    (htop : topCont b c0 = some c) (hsub : ∀ x ∈ cont, x ∈ c0) (hc : c ∉ cont) :
    rankedNextGo (some c) cont false b = (topCont b cont).toList := by
  induction b with
  | nil => simp [topCont, ballotCands] at htop
  | cons it rest ih =>
    cases it with
    | shared cs => rw [noShared_cons_shared] at hb; cases hb
    | one x =>
      rw [noShared_cons_one] at hb
      rw [topCont_cons_one] at htop ⊢
      by_cases hx : x ∈ c0
      · rw [if_pos hx] at htop
        have hxc : x = c := by injection htop
        subst hxc
        simp only [rankedNextGo, Bool.false_eq_true, if_false, if_true, if_neg hc]
        exact rankedNextGo_true_noShared _ _ _ hb
      · rw [if_neg hx] at htop
        have hne : c ≠ x := fun he => hx (he ▸ topCont_mem htop)
        have hxn : x ∉ cont := fun h => hx (hsub x h)
        simp only [rankedNextGo, Bool.false_eq_true, if_false, if_neg hxn]
        rw [if_neg (by intro he; injection he with he; exact hne he)]
        exact ih hb htop

theorem rankedNext_some_noShared {c : Cand} {c0 cont : List Cand} (b : Ballot) (hb : noShared b = true)
    (htop : topCont b c0 = some c) (hsub : ∀ x ∈ cont, x ∈ c0) (hc : c ∉ cont) :
    rankedNext b (some c) cont = (topCont b cont).toList := by
  simp only [rankedNext, Option.isNone_some]
  exact rankedNextGo_false_noShared b hb htop hsub hc

theorem rankedNext_none_noShared (b : Ballot) (cont : List Cand) (hb : noShared b = true) :
    rankedNext b none cont = (topCont b cont).toList := by
  simp only [rankedNext, Option.isNone_none]
  exact rankedNextGo_true_noShared _ _ _ hb

/-- shrinking the continuing set does not move a paper whose holder stays -/
theorem topCont_mono {b : Ballot} {c0 cont : List Cand} (hsub : ∀ x ∈ cont, x ∈ c0) :
    (∀ t, topCont b c0 = some t → t ∈ cont → topCont b cont = some t) ∧
    (topCont b c0 = none → topCont b cont = none) := by
  unfold topCont
  induction ballotCands b with
  | nil => simp
  | cons x xs ih =>
    simp only [List.find?_cons]
    by_cases hx : x ∈ c0
    · simp only [hx, decide_true]
      constructor
      · intro t ht htc
        injection ht with ht
        subst ht
        simp [htc]
      · intro h; cases h
    · have hxn : x ∉ cont := fun h => hx (hsub x h)
      simp only [hx, hxn, decide_false]
      exact ih


/-! ### what the proofs need from a transferer -/

structure EngineOK (E : Engine) : Prop where
  sub_total : ∀ {p n ds p' ds'}, E.subtract p n ds = .ok (p', ds') → n ≤ pileTotal p →
    pileTotal p' = pileTotal p - n
  sub_nonneg : ∀ {p n ds p' ds'}, E.subtract p n ds = .ok (p', ds') → (∀ x ∈ p, 0 ≤ x.2) → ∀ x ∈ p', 0 ≤ x.2
  sub_keys : ∀ {p n ds p' ds'}, E.subtract p n ds = .ok (p', ds') → ∀ x ∈ p', ∃ w, (x.1, w) ∈ p
  split_sum : ∀ {ts w ds r ds'}, E.split ts w ds = .ok (r, ds') → ts ≠ [] → (r.map (·.2)).sum = w
  split_keys : ∀ {ts w ds r ds'}, E.split ts w ds = .ok (r, ds') → ∀ x ∈ r, x.1 ∈ ts
  split_nonneg : ∀ {ts w ds r ds'}, E.split ts w ds = .ok (r, ds') → 0 ≤ w → ∀ x ∈ r, 0 ≤ x.2

/-- `for target, n in realloc.items(): target_alloc[vote] += n` -/
def foldAdd (a : Alloc) (b : Ballot) (r : List (Cand × Rat)) : Alloc :=
  r.foldl (fun a' tn => allocAdd a' (some tn.1) b tn.2) a

theorem foldAdd_nil (a : Alloc) (b : Ballot) : foldAdd a b [] = a := rfl
theorem foldAdd_cons (a : Alloc) (b : Ballot) (x : Cand × Rat) (r : List (Cand × Rat)) :
    foldAdd a b (x :: r) = foldAdd (allocAdd a (some x.1) b x.2) b r := rfl

theorem held_foldAdd (a : Alloc) (b : Ballot) (r : List (Cand × Rat)) :
    held (foldAdd a b r) = held a + (r.map (·.2)).sum := by
  induction r generalizing a with
  | nil => simp [foldAdd_nil]
  | cons x xs ih => rw [foldAdd_cons, ih, held_allocAdd]; simp; ring

theorem continuing_foldAdd {a : Alloc} (b : Ballot) {r : List (Cand × Rat)} (hr : ∀ x ∈ r, x.1 ∈ continuing a) :
    continuing (foldAdd a b r) = continuing a := by
  induction r generalizing a with
  | nil => rfl
  | cons x xs ih =>
    rw [foldAdd_cons]
    have h1 := continuing_allocAdd_some b x.2 (hr x List.mem_cons_self)
    rw [ih (by intro y hy; rw [h1]; exact hr y (List.mem_cons_of_mem _ hy)), h1]

theorem mem_allocKeys_foldAdd {a : Alloc} {h' : Option Cand} (b : Ballot) (r : List (Cand × Rat))
    (hm : h' ∈ allocKeys a) : h' ∈ allocKeys (foldAdd a b r) := by
  induction r generalizing a with
  | nil => exact hm
  | cons x xs ih => rw [foldAdd_cons]; exact ih (mem_allocKeys_allocAdd _ _ _ hm)

theorem pileTotal_foldAdd_ge (a : Alloc) (b : Ballot) {r : List (Cand × Rat)} (hr : ∀ x ∈ r, 0 ≤ x.2)
    (h' : Option Cand) : pileTotal (allocPile a h') ≤ pileTotal (allocPile (foldAdd a b r) h') := by
  induction r generalizing a with
  | nil => exact le_refl _
  | cons x xs ih =>
    rw [foldAdd_cons]
    exact le_trans (pileTotal_allocAdd_ge a _ b (hr x List.mem_cons_self) h')
      (ih _ (fun y hy => hr y (List.mem_cons_of_mem _ hy)))

theorem KeysNodup.foldAdd {a : Alloc} (hk : KeysNodup a) (b : Ballot) (r : List (Cand × Rat)) :
    KeysNodup (foldAdd a b r) := by
  induction r generalizing a with
  | nil => exact hk
  | cons x xs ih => rw [foldAdd_cons]; exact ih (hk.allocAdd _ _ _)

theorem NonNeg.foldAdd {a : Alloc} (hn : NonNeg a) (b : Ballot) {r : List (Cand × Rat)} (hr : ∀ x ∈ r, 0 ≤ x.2) :
    NonNeg (foldAdd a b r) := by
  induction r generalizing a with
  | nil => exact hn
  | cons x xs ih =>
    rw [foldAdd_cons]
    exact ih (hn.allocAdd _ _ (hr x List.mem_cons_self)) (fun y hy => hr y (List.mem_cons_of_mem _ hy))

theorem foldAdd_entry {a : Alloc} {b : Ballot} {r : List (Cand × Rat)} {hp : Option Cand × Pile}
    {x : Ballot × Rat} (hhp : hp ∈ foldAdd a b r) (hx : x ∈ hp.2) :
    (x.1 = b ∧ ∃ t ∈ r, hp.1 = some t.1) ∨ ∃ hp' ∈ a, hp'.1 = hp.1 ∧ x ∈ hp'.2 := by
  induction r generalizing a with
  | nil => right; exact ⟨hp, hhp, rfl, hx⟩
  | cons y ys ih =>
    rw [foldAdd_cons] at hhp
    rcases ih hhp with ⟨h1, t, ht, h2⟩ | ⟨hp', hm, hk, hxx⟩
    · left; exact ⟨h1, t, List.mem_cons_of_mem _ ht, h2⟩
    · rcases allocAdd_entry hm hxx with ⟨h3, h4⟩ | ⟨hp'', hm', hk', hxx'⟩
      · left; exact ⟨h4, y, List.mem_cons_self, by rw [← hk, h3]⟩
      · right; exact ⟨hp'', hm', by rw [hk', hk], hxx'⟩

/-! ### one paper -/

/-- where the paper `b` coming from `frm` may end up -/
def Lands (cont : List Cand) (frm : Option Cand) (b : Ballot) (h : Option Cand) : Prop :=
  (h = none ∧ rankedNext b frm cont = []) ∨ ∃ t, h = some t ∧ t ∈ rankedNext b frm cont

structure MoveSpec (cont : List Cand) (frm : Option Cand) (pile : Pile) (a a' : Alloc) : Prop where
  held_eq : held a' = held a + pileTotal pile
  cont_eq : continuing a' = continuing a
  keys : KeysNodup a → KeysNodup a'
  nonneg : NonNeg a → (∀ x ∈ pile, 0 ≤ x.2) → NonNeg a'
  keep : ∀ h', h' ∈ allocKeys a → h' ∈ allocKeys a'
  grow : (∀ x ∈ pile, 0 ≤ x.2) → ∀ h', pileTotal (allocPile a h') ≤ pileTotal (allocPile a' h')
  entry : ∀ hp ∈ a', ∀ x ∈ hp.2, (∃ hp' ∈ a, hp'.1 = hp.1 ∧ x ∈ hp'.2) ∨
    ∃ bw ∈ pile, x.1 = bw.1 ∧ Lands cont frm bw.1 hp.1

theorem moveBallot_spec {E : Engine} (hE : EngineOK E) {cont : List Cand} {frm : Option Cand} {a a' : Alloc}
    {b : Ballot} {w : Rat} {ds ds' : List Draw} (hc : ∀ t ∈ cont, t ∈ continuing a)
    (h : moveBallot E cont frm a b w ds = .ok (a', ds')) : MoveSpec cont frm [(b, w)] a a' := by
  unfold moveBallot at h
  have hsub := rankedNext_subset b frm cont
  split at h
  · rename_i hnil
    injection h with h; injection h with h1 h2; subst h1
    refine ⟨by simp [held_allocAdd], continuing_allocAdd_none _ _ _, fun hk => hk.allocAdd _ _ _,
      fun hn hw => hn.allocAdd _ _ (hw (b, w) (by simp)), fun _ hm => mem_allocKeys_allocAdd _ _ _ hm,
      fun hw h' => pileTotal_allocAdd_ge a _ b (hw (b, w) (by simp)) h', ?_⟩
    intro hp hhp x hx
    rcases allocAdd_entry hhp hx with ⟨h3, h4⟩ | h5
    · right; exact ⟨(b, w), by simp, h4, Or.inl ⟨h3, hnil⟩⟩
    · left; exact h5
  · rename_i t hone
    injection h with h; injection h with h1 h2; subst h1
    have ht : t ∈ continuing a := hc t (hsub t (by rw [hone]; simp))
    refine ⟨by simp [held_allocAdd], continuing_allocAdd_some _ _ ht, fun hk => hk.allocAdd _ _ _,
      fun hn hw => hn.allocAdd _ _ (hw (b, w) (by simp)), fun _ hm => mem_allocKeys_allocAdd _ _ _ hm,
      fun hw h' => pileTotal_allocAdd_ge a _ b (hw (b, w) (by simp)) h', ?_⟩
    intro hp hhp x hx
    rcases allocAdd_entry hhp hx with ⟨h3, h4⟩ | h5
    · right; exact ⟨(b, w), by simp, h4, Or.inr ⟨t, h3, by rw [hone]; simp⟩⟩
    · left; exact h5
  · rename_i hn1 hn2
    cases hs : E.split (rankedNext b frm cont) w ds with
    | error e => rw [hs] at h; simp [bind, Except.bind] at h
    | ok v =>
      obtain ⟨r, ds1⟩ := v
      rw [hs] at h
      simp only [bind, Except.bind, pure, Except.pure] at h
      injection h with h; injection h with h1 h2
      have hfold : a' = foldAdd a b r := h1.symm
      subst hfold
      have hkeys := hE.split_keys hs
      have hrc : ∀ x ∈ r, x.1 ∈ continuing a := fun x hx => hc _ (hsub _ (hkeys x hx))
      refine ⟨?_, continuing_foldAdd b hrc, fun hk => hk.foldAdd _ _,
        fun hn hw => hn.foldAdd _ (hE.split_nonneg hs (hw (b, w) (by simp))),
        fun _ hm => mem_allocKeys_foldAdd _ _ hm,
        fun hw h' => pileTotal_foldAdd_ge a b (hE.split_nonneg hs (hw (b, w) (by simp))) h', ?_⟩
      · rw [held_foldAdd, hE.split_sum hs (by intro he; exact hn1 he)]; simp
      · intro hp hhp x hx
        rcases foldAdd_entry hhp hx with ⟨h3, t, ht, h4⟩ | h5
        · right; exact ⟨(b, w), by simp, h3, Or.inr ⟨t.1, h4, hkeys t ht⟩⟩
        · left; exact h5

theorem movePile_spec {E : Engine} (hE : EngineOK E) {cont : List Cand} {frm : Option Cand} {pile : Pile}
    {a a' : Alloc} {ds ds' : List Draw} (hc : ∀ t ∈ cont, t ∈ continuing a)
    (h : movePile E cont frm pile a ds = .ok (a', ds')) : MoveSpec cont frm pile a a' := by
  induction pile generalizing a ds with
  | nil =>
    simp only [movePile] at h
    injection h with h; injection h with h1 h2; subst h1
    exact ⟨by simp, rfl, id, fun hn _ => hn, fun _ hm => hm, fun _ _ => le_refl _,
      fun hp hhp x hx => Or.inl ⟨hp, hhp, rfl, hx⟩⟩
  | cons bw rest ih =>
    obtain ⟨b, w⟩ := bw
    simp only [movePile] at h
    cases hm : moveBallot E cont frm a b w ds with
    | error e => rw [hm] at h; simp [bind, Except.bind] at h
    | ok v =>
      obtain ⟨a1, ds1⟩ := v
      rw [hm] at h
      simp only [bind, Except.bind] at h
      have s1 := moveBallot_spec hE hc hm
      have s2 := ih (a := a1) (by rw [s1.cont_eq]; exact hc) h
      refine ⟨?_, by rw [s2.cont_eq, s1.cont_eq], fun hk => s2.keys (s1.keys hk), ?_,
        fun h' hm => s2.keep h' (s1.keep h' hm),
        fun hw h' => le_trans (s1.grow (by intro x hx; simp at hx; subst hx; exact hw (b, w) List.mem_cons_self) h')
          (s2.grow (fun x hx => hw x (List.mem_cons_of_mem _ hx)) h'), ?_⟩
      · rw [s2.held_eq, s1.held_eq]; simp; ring
      · intro hn hw
        exact s2.nonneg (s1.nonneg hn (by intro x hx; simp at hx; subst hx; exact hw (b, w) List.mem_cons_self))
          (fun x hx => hw x (List.mem_cons_of_mem _ hx))
      · intro hp hhp x hx
        rcases s2.entry hp hhp x hx with ⟨hp', hm', hk', hxx'⟩ | ⟨bw, hbw, h3, h4⟩
        · rcases s1.entry hp' hm' x hxx' with ⟨hp'', hm'', hk'', hxx''⟩ | ⟨bw, hbw, h3, h4⟩
          · left; exact ⟨hp'', hm'', by rw [hk'', hk'], hxx''⟩
          · right
            simp only [List.mem_singleton] at hbw
            subst hbw
            exact ⟨(b, w), List.mem_cons_self, h3, by rw [← hk']; exact h4⟩
        · right; exact ⟨bw, List.mem_cons_of_mem _ hbw, h3, h4⟩


/-! ### removing a holder -/

theorem allocPile_mem {a : Alloc} {h : Option Cand} {x : Ballot × Rat} (hx : x ∈ allocPile a h) :
    ∃ hp ∈ a, hp.1 = h ∧ x ∈ hp.2 := by
  unfold allocPile at hx
  split at hx
  · rename_i hp hf
    have := List.find?_some hf
    exact ⟨hp, List.mem_of_find?_eq_some hf, by simpa using this, hx⟩
  · cases hx

theorem held_erase {a : Alloc} (hk : KeysNodup a) (h : Option Cand) :
    held (allocErase a h) + pileTotal (allocPile a h) = held a := by
  induction a with
  | nil => simp [allocErase, allocPile]
  | cons y ys ih =>
    obtain ⟨h', p⟩ := y
    have hk' : KeysNodup ys := (List.nodup_cons.mp hk).2
    have hnot : h' ∉ allocKeys ys := (List.nodup_cons.mp hk).1
    by_cases he : h' = h
    · subst he
      have hfil : allocErase ys h' = ys := by
        unfold allocErase
        rw [List.filter_eq_self]
        intro hp hhp
        simp only [ne_eq, decide_not, Bool.not_eq_eq_eq_not, Bool.not_true, decide_eq_false_iff_not]
        intro hc
        exact hnot (by rw [← hc]; exact List.mem_map_of_mem hhp)
      have e1 : allocErase ((h', p) :: ys) h' = ys := by
        unfold allocErase at hfil ⊢
        rw [List.filter_cons, hfil]; simp
      have e2 : allocPile ((h', p) :: ys) h' = p := by simp [allocPile]
      rw [e1, e2, held_cons]; ring
    · have e1 : allocErase ((h', p) :: ys) h = (h', p) :: allocErase ys h := by
        unfold allocErase; rw [List.filter_cons]; simp [he]
      have e2 : allocPile ((h', p) :: ys) h = allocPile ys h := by
        simp [allocPile, he]
      rw [e1, e2, held_cons, held_cons, ← ih hk']; ring

theorem continuing_erase (a : Alloc) (c : Cand) :
    continuing (allocErase a (some c)) = (continuing a).filter (fun x => decide (x ≠ c)) := by
  induction a with
  | nil => rfl
  | cons y ys ih =>
    obtain ⟨h', p⟩ := y
    cases h' with
    | none =>
      have : allocErase ((none, p) :: ys) (some c) = (none, p) :: allocErase ys (some c) := by
        unfold allocErase; rw [List.filter_cons]; simp
      rw [this]
      simpa [continuing] using ih
    | some d =>
      by_cases hd : d = c
      · subst hd
        have : allocErase ((some d, p) :: ys) (some d) = allocErase ys (some d) := by
          unfold allocErase; rw [List.filter_cons]; simp
        rw [this, ih]
        simp [continuing]
      · have : allocErase ((some d, p) :: ys) (some c) = (some d, p) :: allocErase ys (some c) := by
          unfold allocErase; rw [List.filter_cons]; simp [hd]
        rw [this]
        simp only [continuing, List.filterMap_cons] at ih ⊢
        rw [ih]
        simp [hd]

theorem mem_allocKeys_erase_none {a : Alloc} (hm : none ∈ allocKeys a) (c : Cand) :
    none ∈ allocKeys (allocErase a (some c)) := by
  unfold allocKeys allocErase at *
  obtain ⟨hp, hhp, he⟩ := List.mem_map.mp hm
  exact List.mem_map.mpr ⟨hp, List.mem_filter.mpr ⟨hhp, by simp [he]⟩, he⟩

theorem allocPile_erase_ne (a : Alloc) {h h' : Option Cand} (hne : h' ≠ h) :
    allocPile (allocErase a h) h' = allocPile a h' := by
  induction a with
  | nil => rfl
  | cons y ys ih =>
    obtain ⟨k, p⟩ := y
    by_cases hk : k = h
    · have : allocErase ((k, p) :: ys) h = allocErase ys h := by
        unfold allocErase; rw [List.filter_cons]; simp [hk]
      rw [this, ih, allocPile_cons, if_neg (by rw [hk]; exact fun e => hne e.symm)]
    · have : allocErase ((k, p) :: ys) h = (k, p) :: allocErase ys h := by
        unfold allocErase; rw [List.filter_cons]; simp [hk]
      rw [this, allocPile_cons, allocPile_cons, ih]

theorem KeysNodup.erase {a : Alloc} (hk : KeysNodup a) (h : Option Cand) : KeysNodup (allocErase a h) := by
  unfold KeysNodup allocKeys allocErase at *
  exact List.Nodup.sublist (List.Sublist.map _ List.filter_sublist) hk

theorem NonNeg.erase {a : Alloc} (hn : NonNeg a) (h : Option Cand) : NonNeg (allocErase a h) :=
  fun hp hhp => hn hp (List.mem_filter.mp hhp).1

theorem NonNeg.pile {a : Alloc} (hn : NonNeg a) (h : Option Cand) : ∀ x ∈ allocPile a h, 0 ≤ x.2 := by
  intro x hx
  obtain ⟨hp, hhp, _, hxx⟩ := allocPile_mem hx
  exact hn hp hhp x hxx

/-! ### transfer -/

/-- a paper of the new allocation descends from a paper for the same ballot in the old one: with the same
    holder, or with a removed holder from whom it was re-allocated -/
def Descends (cont : List Cand) (rs : List Cand) (a : Alloc) (h : Option Cand) (b : Ballot) : Prop :=
  ∃ hp0 ∈ a, (∃ w, (b, w) ∈ hp0.2) ∧
    ((hp0.1 = h ∧ ∀ c ∈ rs, h ≠ some c) ∨ ∃ c ∈ rs, hp0.1 = some c ∧ Lands cont (some c) b h)

structure TransferSpec (cont rs : List Cand) (a a' : Alloc) : Prop where
  held_eq : KeysNodup a → held a' = held a
  cont_eq : continuing a' = (continuing a).filter (fun x => decide (x ∉ rs))
  keys : KeysNodup a → KeysNodup a'
  nonneg : NonNeg a → NonNeg a'
  keep_none : none ∈ allocKeys a → none ∈ allocKeys a'
  grow : NonNeg a → ∀ h', (∀ c ∈ rs, h' ≠ some c) → pileTotal (allocPile a h') ≤ pileTotal (allocPile a' h')
  entry : ∀ hp ∈ a', ∀ x ∈ hp.2, Descends cont rs a hp.1 x.1

theorem lands_target {cont : List Cand} {frm : Option Cand} {b : Ballot} {h : Option Cand}
    (hl : Lands cont frm b h) : ∀ c, h = some c → c ∈ cont := by
  intro c hc
  rcases hl with ⟨h1, _⟩ | ⟨t, h1, h2⟩
  · rw [h1] at hc; cases hc
  · rw [h1] at hc; injection hc with hc; subst hc; exact rankedNext_subset _ _ _ _ h2

theorem transferGo_spec {E : Engine} (hE : EngineOK E) {cont : List Cand} {rs : List Cand} {a a' : Alloc}
    {ds ds' : List Draw} (hc : ∀ t ∈ cont, t ∈ continuing a) (hr : ∀ c ∈ rs, c ∉ cont)
    (h : transferGo E cont rs a ds = .ok (a', ds')) : TransferSpec cont rs a a' := by
  induction rs generalizing a ds with
  | nil =>
    simp only [transferGo] at h
    injection h with h; injection h with h1 h2; subst h1
    refine ⟨fun _ => rfl, by simp, id, id, id, fun _ _ _ => le_refl _, ?_⟩
    intro hp hhp x hx
    exact ⟨hp, hhp, ⟨x.2, hx⟩, Or.inl ⟨rfl, by simp⟩⟩
  | cons c rest ih =>
    simp only [transferGo] at h
    cases hm : movePile E cont (some c) (allocPile a (some c)) (allocErase a (some c)) ds with
    | error e => rw [hm] at h; simp [bind, Except.bind] at h
    | ok v =>
      obtain ⟨a1, ds1⟩ := v
      rw [hm] at h
      simp only [bind, Except.bind] at h
      have hcc : c ∉ cont := hr c List.mem_cons_self
      have hc0 : ∀ t ∈ cont, t ∈ continuing (allocErase a (some c)) := by
        intro t ht
        rw [continuing_erase]
        refine List.mem_filter.mpr ⟨hc t ht, ?_⟩
        have : t ≠ c := fun he => hcc (he ▸ ht)
        simpa using this
      have s1 := movePile_spec hE hc0 hm
      have s2 := ih (a := a1) (by rw [s1.cont_eq]; exact hc0) (fun d hd => hr d (List.mem_cons_of_mem _ hd)) h
      refine ⟨?_, ?_, fun hk => s2.keys (s1.keys (hk.erase _)), fun hn => s2.nonneg (s1.nonneg (hn.erase _) (hn.pile _)),
        fun hm => s2.keep_none (s1.keep none (mem_allocKeys_erase_none hm c)), ?_, ?_⟩
      · intro hk
        rw [s2.held_eq (s1.keys (hk.erase _)), s1.held_eq, held_erase hk]
      · rw [s2.cont_eq, s1.cont_eq, continuing_erase, List.filter_filter]
        congr 1
        funext x
        simp only [List.mem_cons, not_or, ne_eq, decide_not, Bool.decide_and]
        by_cases h1 : x = c <;> by_cases h2 : x ∈ rest <;> simp [h1, h2]
      · intro hn h' hh'
        have h1 : allocPile (allocErase a (some c)) h' = allocPile a h' :=
          allocPile_erase_ne a (hh' c List.mem_cons_self)
        rw [← h1]
        exact le_trans (s1.grow (hn.pile _) h')
          (s2.grow (s1.nonneg (hn.erase _) (hn.pile _)) h' (fun d hd => hh' d (List.mem_cons_of_mem _ hd)))
      · intro hp hhp x hx
        obtain ⟨hp1, hm1, ⟨w1, hw1⟩, hrel⟩ := s2.entry hp hhp x hx
        -- the paper of `a1` it descends from
        rcases s1.entry hp1 hm1 (x.1, w1) hw1 with ⟨hp0, hm0, hk0, hx0⟩ | ⟨bw, hbw, h3, h4⟩
        · -- it was already in the allocation without `c`
          have hm0' : hp0 ∈ a := (List.mem_filter.mp hm0).1
          have hne : hp0.1 ≠ some c := by simpa using (List.mem_filter.mp hm0).2
          rcases hrel with ⟨h5, h6⟩ | ⟨d, hd, h5, h6⟩
          · refine ⟨hp0, hm0', ⟨w1, hx0⟩, Or.inl ⟨by rw [hk0, h5], ?_⟩⟩
            intro d hd
            rcases List.mem_cons.mp hd with h7 | h7
            · rw [h7, ← h5, ← hk0]; exact hne
            · exact h6 d h7
          · exact ⟨hp0, hm0', ⟨w1, hx0⟩, Or.inr ⟨d, List.mem_cons_of_mem _ hd, by rw [hk0, h5], h6⟩⟩
        · -- it came from the pile of `c`
          obtain ⟨hp0, hm0, hk0, hx0⟩ := allocPile_mem hbw
          have hbe : bw.1 = x.1 := h3.symm
          rcases hrel with ⟨h5, h6⟩ | ⟨d, hd, h5, h6⟩
          · refine ⟨hp0, hm0, ⟨bw.2, by rw [← hbe]; exact hx0⟩, Or.inr ⟨c, List.mem_cons_self, hk0, ?_⟩⟩
            rw [← h5, ← hbe]; exact h4
          · -- landed with `d`, which is removed later: impossible, targets continue
            exfalso
            have : d ∈ cont := lands_target h4 d h5
            exact hr d (List.mem_cons_of_mem _ hd) this

theorem transfer_spec {E : Engine} (hE : EngineOK E) {a a' : Alloc} {cands : List Cand} {ds ds' : List Draw}
    (h : transfer E a cands ds = .ok (a', ds')) :
    TransferSpec ((continuing a).filter (fun c => decide (c ∉ cands)))
      ((continuing a).filter (fun c => decide (c ∈ cands))) a a' := by
  unfold transfer at h
  exact transferGo_spec hE (fun t ht => (List.mem_filter.mp ht).1)
    (fun c hc hcc => by
      have h1 := (List.mem_filter.mp hc).2
      have h2 := (List.mem_filter.mp hcc).2
      simp at h1 h2
      exact h2 h1) h

theorem transfer_continuing {E : Engine} (hE : EngineOK E) {a a' : Alloc} {cands : List Cand} {ds ds' : List Draw}
    (h : transfer E a cands ds = .ok (a', ds')) :
    continuing a' = (continuing a).filter (fun c => decide (c ∉ cands)) := by
  rw [(transfer_spec hE h).cont_eq]
  apply List.filter_congr
  intro x hx
  simp [List.mem_filter, hx]


/-! ### subtraction of quotas -/

theorem allocKeys_setPile (a : Alloc) (h : Option Cand) (p' : Pile) :
    allocKeys (allocSetPile a h p') = allocKeys a := by
  induction a with
  | nil => rfl
  | cons y ys ih =>
    obtain ⟨h', p⟩ := y
    simp only [allocSetPile]
    split
    · simp [allocKeys]
    · simp only [allocKeys, List.map_cons] at ih ⊢; rw [ih]

theorem mem_setPile {a : Alloc} {h : Option Cand} {p' : Pile} {hp : Option Cand × Pile}
    (hhp : hp ∈ allocSetPile a h p') : hp ∈ a ∨ hp = (h, p') := by
  induction a with
  | nil => simp [allocSetPile] at hhp
  | cons y ys ih =>
    obtain ⟨h', p⟩ := y
    simp only [allocSetPile] at hhp
    split at hhp
    · rename_i heq
      rcases List.mem_cons.mp hhp with h1 | h1
      · right; rw [h1, heq]
      · left; exact List.mem_cons_of_mem _ h1
    · rcases List.mem_cons.mp hhp with h1 | h1
      · left; rw [h1]; exact List.mem_cons_self
      · rcases ih h1 with h2 | h2
        · left; exact List.mem_cons_of_mem _ h2
        · right; exact h2

theorem allocPile_setPile_ne (a : Alloc) {h h' : Option Cand} (p' : Pile) (hne : h' ≠ h) :
    allocPile (allocSetPile a h p') h' = allocPile a h' := by
  induction a with
  | nil => rfl
  | cons y ys ih =>
    obtain ⟨k, p⟩ := y
    simp only [allocSetPile]
    split
    · rename_i heq
      have : k ≠ h' := fun e => hne (e ▸ heq ▸ rfl)
      simp [allocPile, this]
    · by_cases hk : k = h'
      · simp [allocPile, hk]
      · simp only [allocPile, List.find?_cons, hk, decide_false] at ih ⊢
        exact ih

theorem held_setPile {a : Alloc} (hk : KeysNodup a) {h : Option Cand} (p' : Pile) (hm : h ∈ allocKeys a) :
    held (allocSetPile a h p') = held a - pileTotal (allocPile a h) + pileTotal p' := by
  induction a with
  | nil => simp [allocKeys] at hm
  | cons y ys ih =>
    obtain ⟨h', p⟩ := y
    have hk' : KeysNodup ys := (List.nodup_cons.mp hk).2
    have hnot : h' ∉ allocKeys ys := (List.nodup_cons.mp hk).1
    simp only [allocSetPile]
    split
    · rename_i heq
      subst heq
      simp [allocPile]; ring
    · rename_i hne
      have hm' : h ∈ allocKeys ys := by
        simp only [allocKeys, List.map_cons, List.mem_cons] at hm
        rcases hm with h1 | h1
        · exact absurd h1.symm hne
        · exact h1
      have e2 : allocPile ((h', p) :: ys) h = allocPile ys h := by simp [allocPile, hne]
      rw [held_cons, ih hk' hm', e2, held_cons]; ring

structure SubSpec (el : List (Cand × Rat)) (a a' : Alloc) : Prop where
  keys_eq : allocKeys a' = allocKeys a
  held_eq : KeysNodup a → (el.map (·.1)).Nodup → (∀ x ∈ el, some x.1 ∈ allocKeys a) →
    (∀ x ∈ el, x.2 ≤ pileTotal (allocPile a (some x.1))) → held a' = held a - (el.map (·.2)).sum
  nonneg : NonNeg a → NonNeg a'
  entry : ∀ hp ∈ a', ∀ x ∈ hp.2, ∃ hp0 ∈ a, hp0.1 = hp.1 ∧ ∃ w, (x.1, w) ∈ hp0.2
  other : ∀ h, (∀ x ∈ el, h ≠ some x.1) → allocPile a' h = allocPile a h

theorem subtract_spec {E : Engine} (hE : EngineOK E) {el : List (Cand × Rat)} {a a' : Alloc} {ds ds' : List Draw}
    (h : subtract E el a ds = .ok (a', ds')) : SubSpec el a a' := by
  induction el generalizing a ds with
  | nil =>
    simp only [subtract] at h
    injection h with h; injection h with h1 h2; subst h1
    exact ⟨rfl, fun _ _ _ _ => by simp, id, fun hp hhp x hx => ⟨hp, hhp, rfl, x.2, hx⟩, fun _ _ => rfl⟩
  | cons cn rest ih =>
    obtain ⟨c, n⟩ := cn
    simp only [subtract] at h
    cases hs : E.subtract (allocPile a (some c)) n ds with
    | error e => rw [hs] at h; simp [bind, Except.bind] at h
    | ok v =>
      obtain ⟨p', ds1⟩ := v
      rw [hs] at h
      simp only [bind, Except.bind] at h
      have s2 := ih h
      refine ⟨by rw [s2.keys_eq, allocKeys_setPile], ?_, ?_, ?_, ?_⟩
      · intro hk hnd hmem hle
        have hnd' := List.nodup_cons.mp hnd
        have hk1 : KeysNodup (allocSetPile a (some c) p') := by unfold KeysNodup; rw [allocKeys_setPile]; exact hk
        have hoth : ∀ x ∈ rest, allocPile (allocSetPile a (some c) p') (some x.1) = allocPile a (some x.1) := by
          intro x hx
          apply allocPile_setPile_ne
          intro he; injection he with he
          exact hnd'.1 (List.mem_map.mpr ⟨x, hx, he⟩)
        rw [s2.held_eq hk1 hnd'.2 (by intro x hx; rw [allocKeys_setPile]; exact hmem x (List.mem_cons_of_mem _ hx))
          (by intro x hx; rw [hoth x hx]; exact hle x (List.mem_cons_of_mem _ hx)),
          held_setPile hk p' (hmem (c, n) List.mem_cons_self),
          hE.sub_total hs (hle (c, n) List.mem_cons_self)]
        simp; ring
      · intro hn
        apply s2.nonneg
        intro hp hhp x hx
        rcases mem_setPile hhp with h1 | h1
        · exact hn hp h1 x hx
        · subst h1; exact hE.sub_nonneg hs (hn.pile _) x hx
      · intro hp hhp x hx
        obtain ⟨hp1, hm1, hk1, w1, hw1⟩ := s2.entry hp hhp x hx
        rcases mem_setPile hm1 with h1 | h1
        · exact ⟨hp1, h1, hk1, w1, hw1⟩
        · subst h1
          obtain ⟨w0, hw0⟩ := hE.sub_keys hs _ hw1
          obtain ⟨hp0, hm0, hk0, hx0⟩ := allocPile_mem hw0
          exact ⟨hp0, hm0, by rw [hk0, ← hk1], w0, hx0⟩
      · intro k hkne
        rw [s2.other k (fun x hx => hkne x (List.mem_cons_of_mem _ hx))]
        exact allocPile_setPile_ne a p' (hkne (c, n) List.mem_cons_self)


/-! ### the two transferers meet the specification -/

theorem pileTotal_scale (p : Pile) (k : Rat) :
    pileTotal (p.map (fun bw => (bw.1, bw.2 * k))) = pileTotal p * k := by
  induction p with
  | nil => simp
  | cons x xs ih => simp only [List.map_cons, pileTotal_cons, ih]; ring

theorem sum_map_const (ts : List Cand) (k : Rat) :
    ((ts.map (fun c => (c, k))).map (·.2)).sum = (ts.length : Rat) * k := by
  induction ts with
  | nil => simp
  | cons x xs ih => simp only [List.map_cons, List.sum_cons, ih, List.length_cons]; push_cast; ring

theorem pileTotal_nonneg {p : Pile} (hp : ∀ x ∈ p, 0 ≤ x.2) : 0 ≤ pileTotal p := by
  induction p with
  | nil => simp
  | cons x xs ih =>
    rw [pileTotal_cons]
    exact add_nonneg (hp x List.mem_cons_self) (ih (fun y hy => hp y (List.mem_cons_of_mem _ hy)))

/-- **`subtractGregory` scales a pile exactly**: the pile keeps `total − n` -/
theorem gregorySubtract_total {p p' : Pile} {n : Rat} (h : gregorySubtract p n = .ok p') (hn : n ≤ pileTotal p) :
    pileTotal p' = pileTotal p - n := by
  unfold gregorySubtract at h
  simp only at h
  split at h
  · cases h
  · rename_i hne
    split at h
    · rename_i hge
      injection h with h; subst h
      have : n = pileTotal p := le_antisymm hn hge
      simp [this]
    · injection h with h; subst h
      rw [pileTotal_scale]
      field_simp

theorem gregory_ok : EngineOK gregory where
  sub_total := by
    intro p n ds p' ds' h hn
    simp only [gregory] at h
    cases hg : gregorySubtract p n with
    | error e => rw [hg] at h; cases h
    | ok q =>
      rw [hg] at h
      simp only [Except.map] at h
      injection h with h; injection h with h1 h2; subst h1
      exact gregorySubtract_total hg hn
  sub_nonneg := by
    intro p n ds p' ds' h hp
    simp only [gregory] at h
    cases hg : gregorySubtract p n with
    | error e => rw [hg] at h; cases h
    | ok q =>
      rw [hg] at h
      simp only [Except.map] at h
      injection h with h; injection h with h1 h2; subst h1
      unfold gregorySubtract at hg
      simp only at hg
      split at hg
      · cases hg
      · rename_i hne
        split at hg
        · injection hg with hg; subst hg; intro x hx; cases hx
        · rename_i hlt
          injection hg with hg; subst hg
          intro x hx
          obtain ⟨y, hy, rfl⟩ := List.mem_map.mp hx
          have hpos : 0 < pileTotal p := lt_of_le_of_ne (pileTotal_nonneg hp) (Ne.symm hne)
          have : 0 ≤ (pileTotal p - n) / pileTotal p :=
            div_nonneg (by linarith [not_le.mp hlt]) (le_of_lt hpos)
          exact mul_nonneg (hp y hy) this
  sub_keys := by
    intro p n ds p' ds' h
    simp only [gregory] at h
    cases hg : gregorySubtract p n with
    | error e => rw [hg] at h; cases h
    | ok q =>
      rw [hg] at h
      simp only [Except.map] at h
      injection h with h; injection h with h1 h2; subst h1
      unfold gregorySubtract at hg
      simp only at hg
      split at hg
      · cases hg
      · split at hg
        · injection hg with hg; subst hg; intro x hx; cases hx
        · injection hg with hg; subst hg
          intro x hx
          obtain ⟨y, hy, rfl⟩ := List.mem_map.mp hx
          exact ⟨y.2, hy⟩
  split_sum := by
    intro ts w ds r ds' h hne
    simp only [gregory] at h
    injection h with h; injection h with h1 h2; subst h1
    have hlen : (ts.length : Rat) ≠ 0 := by
      have : ts.length ≠ 0 := fun h0 => hne (List.length_eq_zero_iff.mp h0)
      exact_mod_cast this
    rw [gregorySplit, sum_map_const]
    field_simp
  split_keys := by
    intro ts w ds r ds' h x hx
    simp only [gregory] at h
    injection h with h; injection h with h1 h2; subst h1
    obtain ⟨c, hc, rfl⟩ := List.mem_map.mp hx
    exact hc
  split_nonneg := by
    intro ts w ds r ds' h hw x hx
    simp only [gregory] at h
    injection h with h; injection h with h1 h2; subst h1
    obtain ⟨c, hc, rfl⟩ := List.mem_map.mp hx
    exact div_nonneg hw (Nat.cast_nonneg _)

/-- the equal-rank split of Gregory is exactly equal -/
theorem gregorySplit_equal (ts : List Cand) (w : Rat) :
    ∀ x ∈ gregorySplit ts w, x.2 = w / (ts.length : Rat) := by
  intro x hx
  obtain ⟨c, _, rfl⟩ := List.mem_map.mp hx
  rfl

theorem hareApply_total {ans : List (Ballot × Rat)} {p : Pile}
    (hle : ∀ bw ∈ p, (lookupB ans bw.1).getD 0 ≤ bw.2) :
    pileTotal (hareApply ans p) = pileTotal p - (takenFrom ans p).sum := by
  induction p with
  | nil => simp [hareApply, takenFrom]
  | cons x xs ih =>
    have ih' := ih (fun bw hbw => hle bw (List.mem_cons_of_mem _ hbw))
    have hx := hle x List.mem_cons_self
    simp only [hareApply, takenFrom, List.filterMap_cons, List.map_cons, List.sum_cons] at ih' ⊢
    cases hl : lookupB ans x.1 with
    | none => simp only [Option.getD_none, pileTotal_cons]; rw [ih']; ring
    | some s =>
      simp only [hl, Option.getD_some] at hx ⊢
      by_cases hge : s ≥ x.2
      · rw [if_pos hge, ih']
        have : s = x.2 := le_antisymm hx hge
        rw [pileTotal_cons, this]; ring
      · rw [if_neg hge, pileTotal_cons, pileTotal_cons, ih']; ring

theorem sum_ratAdd1 (r : List (Cand × Rat)) (c : Cand) (k : Rat) :
    ((ratAdd1 r c k).map (·.2)).sum = (r.map (·.2)).sum + k := by
  induction r with
  | nil => simp [ratAdd1]
  | cons x xs ih =>
    obtain ⟨c', k'⟩ := x
    simp only [ratAdd1]
    split
    · simp; ring
    · simp only [List.map_cons, List.sum_cons, ih]; ring

theorem mem_ratAdd1 {r : List (Cand × Rat)} {c : Cand} {k : Rat} {x : Cand × Rat} (hx : x ∈ ratAdd1 r c k) :
    (x.1 = c ∧ ((∃ k', (c, k') ∈ r ∧ x.2 = k' + k) ∨ x.2 = 0 + k)) ∨ x ∈ r := by
  induction r with
  | nil => simp [ratAdd1] at hx; left; rw [hx]; exact ⟨rfl, Or.inr (by simp)⟩
  | cons y ys ih =>
    obtain ⟨c', k'⟩ := y
    simp only [ratAdd1] at hx
    split at hx
    · rename_i heq
      rcases List.mem_cons.mp hx with h | h
      · left; rw [h]; exact ⟨heq, Or.inl ⟨k', by rw [heq]; exact List.mem_cons_self, rfl⟩⟩
      · right; exact List.mem_cons_of_mem _ h
    · rcases List.mem_cons.mp hx with h | h
      · right; rw [h]; exact List.mem_cons_self
      · rcases ih h with ⟨h1, h2⟩ | h2
        · left
          refine ⟨h1, ?_⟩
          rcases h2 with ⟨k'', hk, he⟩ | he
          · exact Or.inl ⟨k'', List.mem_cons_of_mem _ hk, he⟩
          · exact Or.inr he
        · right; exact List.mem_cons_of_mem _ h2

theorem foldl_ratAdd1 (ans r : List (Cand × Rat)) :
    (((ans.foldl (fun r cs => ratAdd1 r cs.1 cs.2) r).map (·.2)).sum = (r.map (·.2)).sum + (ans.map (·.2)).sum) ∧
    (∀ x ∈ ans.foldl (fun r cs => ratAdd1 r cs.1 cs.2) r, (∃ y ∈ r, y.1 = x.1) ∨ ∃ y ∈ ans, y.1 = x.1) ∧
    ((∀ y ∈ r, 0 ≤ y.2) → (∀ y ∈ ans, 0 ≤ y.2) → ∀ x ∈ ans.foldl (fun r cs => ratAdd1 r cs.1 cs.2) r, 0 ≤ x.2) := by
  induction ans generalizing r with
  | nil => exact ⟨by simp, fun x hx => Or.inl ⟨x, hx, rfl⟩, fun hr _ => hr⟩
  | cons a as ih =>
    simp only [List.foldl_cons]
    obtain ⟨i1, i2, i3⟩ := ih (ratAdd1 r a.1 a.2)
    refine ⟨?_, ?_, ?_⟩
    · rw [i1, sum_ratAdd1]; simp; ring
    · intro x hx
      rcases i2 x hx with ⟨y, hy, he⟩ | ⟨y, hy, he⟩
      · rcases mem_ratAdd1 hy with ⟨h1, _⟩ | h1
        · right; exact ⟨a, List.mem_cons_self, by rw [← he, h1]⟩
        · left; exact ⟨y, h1, he⟩
      · right; exact ⟨y, List.mem_cons_of_mem _ hy, he⟩
    · intro hr ha
      apply i3
      · intro y hy
        have ha0 := ha a List.mem_cons_self
        rcases mem_ratAdd1 hy with ⟨_, ⟨k', hk, he⟩ | he⟩ | h1
        · rw [he]; exact add_nonneg (hr _ hk) ha0
        · rw [he]; simpa using ha0
        · exact hr y h1
      · exact fun y hy => ha y (List.mem_cons_of_mem _ hy)

theorem hareSplit_ok {ts : List Cand} {w : Rat} {ds ds' : List Draw} {r : List (Cand × Rat)}
    (h : hareSplit ts w ds = .ok (r, ds')) :
    ∃ first : List (Cand × Rat), ∃ rem : Rat,
      ((((w / (ts.length : Rat)).floor : Rat) ≠ 0 ∧ first = ts.map (fun c => (c, ((w / (ts.length : Rat)).floor : Rat))) ∧
          rem = w - (ts.length : Rat) * ((w / (ts.length : Rat)).floor : Rat)) ∨
        (((w / (ts.length : Rat)).floor : Rat) = 0 ∧ first = [] ∧ rem = w)) ∧
      ((((w / (ts.length : Rat)).floor : Rat) ≠ 0 ∧ rem = 0 ∧ r = first) ∨
        ∃ ans, candsOK ans ts rem = true ∧ r = ans.foldl (fun r cs => ratAdd1 r cs.1 cs.2) first) := by
  unfold hareSplit at h
  simp only at h
  by_cases hw : ((w / (ts.length : Rat)).floor : Rat) ≠ 0
  · simp only [if_pos hw] at h
    refine ⟨_, _, Or.inl ⟨hw, rfl, rfl⟩, ?_⟩
    by_cases hr : w - (ts.length : Rat) * ((w / (ts.length : Rat)).floor : Rat) = 0
    · rw [if_pos ⟨hw, hr⟩] at h
      injection h with h; injection h with h1 h2
      exact Or.inl ⟨hw, hr, h1.symm⟩
    · rw [if_neg (fun hc => hr hc.2)] at h
      split at h
      · rename_i ans ds1
        split at h
        · rename_i hok
          injection h with h; injection h with h1 h2
          exact Or.inr ⟨ans, hok, h1.symm⟩
        · cases h
      · cases h
  · simp only [if_neg hw] at h
    refine ⟨_, _, Or.inr ⟨not_not.mp hw, rfl, rfl⟩, ?_⟩
    rw [if_neg (fun hc => hw hc.1)] at h
    split at h
    · rename_i ans ds1
      split at h
      · rename_i hok
        injection h with h; injection h with h1 h2
        exact Or.inr ⟨ans, hok, h1.symm⟩
      · cases h
    · cases h

theorem hare_ok : EngineOK hare where
  sub_total := by
    intro p n ds p' ds' h _
    simp only [hare] at h
    unfold hareSubtract at h
    split at h
    · rename_i ans ds1
      split at h
      · rename_i hok
        injection h with h; injection h with h1 h2; subst h1
        simp only [papersOK, Bool.and_eq_true, List.all_eq_true, decide_eq_true_eq] at hok
        rw [hareApply_total hok.1.2, hok.2]
      · cases h
    · cases h
  sub_nonneg := by
    intro p n ds p' ds' h hp
    simp only [hare] at h
    unfold hareSubtract at h
    split at h
    · split at h
      · injection h with h; injection h with h1 h2; subst h1
        intro x hx
        simp only [hareApply, List.mem_filterMap] at hx
        obtain ⟨bw, hbw, he⟩ := hx
        split at he
        · injection he with he; subst he; exact hp bw hbw
        · split at he
          · cases he
          · rename_i hlt
            injection he with he; subst he
            simp only; linarith [not_le.mp hlt]
      · cases h
    · cases h
  sub_keys := by
    intro p n ds p' ds' h
    simp only [hare] at h
    unfold hareSubtract at h
    split at h
    · split at h
      · injection h with h; injection h with h1 h2; subst h1
        intro x hx
        simp only [hareApply, List.mem_filterMap] at hx
        obtain ⟨bw, hbw, he⟩ := hx
        split at he
        · injection he with he; subst he; exact ⟨bw.2, hbw⟩
        · split at he
          · cases he
          · injection he with he; subst he; exact ⟨bw.2, hbw⟩
      · cases h
    · cases h
  split_sum := by
    intro ts w ds r ds' h hne
    obtain ⟨first, rem, hfr, hr⟩ := hareSplit_ok h
    have hsum : (first.map (·.2)).sum + rem = w := by
      rcases hfr with ⟨_, h1, h2⟩ | ⟨_, h1, h2⟩
      · rw [h1, h2, sum_map_const]; ring
      · rw [h1, h2]; simp
    rcases hr with ⟨_, h1, h2⟩ | ⟨ans, hok, h2⟩
    · rw [h2]; rw [h1] at hsum; linarith
    · simp only [candsOK, Bool.and_eq_true, List.all_eq_true, decide_eq_true_eq] at hok
      rw [h2, (foldl_ratAdd1 ans _).1, hok.2]; exact hsum
  split_keys := by
    intro ts w ds r ds' h x hx
    obtain ⟨first, rem, hfr, hr⟩ := hareSplit_ok h
    have hfirst : ∀ y ∈ first, y.1 ∈ ts := by
      intro y hy
      rcases hfr with ⟨_, h1, _⟩ | ⟨_, h1, _⟩
      · rw [h1] at hy; obtain ⟨c, hc, rfl⟩ := List.mem_map.mp hy; exact hc
      · rw [h1] at hy; cases hy
    rcases hr with ⟨_, _, h2⟩ | ⟨ans, hok, h2⟩
    · rw [h2] at hx; exact hfirst x hx
    · simp only [candsOK, Bool.and_eq_true, List.all_eq_true, decide_eq_true_eq] at hok
      rw [h2] at hx
      rcases (foldl_ratAdd1 ans _).2.1 x hx with ⟨y, hy, he⟩ | ⟨y, hy, he⟩
      · rw [← he]; exact hfirst y hy
      · rw [← he]; exact (hok.1 y hy).2
  split_nonneg := by
    intro ts w ds r ds' h hw x hx
    obtain ⟨first, rem, hfr, hr⟩ := hareSplit_ok h
    have hwhole : (0 : Rat) ≤ ((w / (ts.length : Rat)).floor : Rat) := by
      have : (0 : Int) ≤ (w / (ts.length : Rat)).floor :=
        Rat.le_floor_iff.mpr (by simpa using div_nonneg hw (Nat.cast_nonneg _))
      exact_mod_cast this
    have hfirst : ∀ y ∈ first, 0 ≤ y.2 := by
      intro y hy
      rcases hfr with ⟨_, h1, _⟩ | ⟨_, h1, _⟩
      · rw [h1] at hy; obtain ⟨c, _, rfl⟩ := List.mem_map.mp hy; exact hwhole
      · rw [h1] at hy; cases hy
    rcases hr with ⟨_, _, h2⟩ | ⟨ans, hok, h2⟩
    · rw [h2] at hx; exact hfirst x hx
    · simp only [candsOK, Bool.and_eq_true, List.all_eq_true, decide_eq_true_eq] at hok
      rw [h2] at hx
      exact (foldl_ratAdd1 ans _).2.2 hfirst (fun y hy => (hok.1 y hy).1) x hx

end VL.STV
