/-
  Total correctness of the selector form under Gregory transfer: with `eliminate_step = -1`, no
  `mandatory_quota` and at least as many candidates as seats, the count never stalls ("infinite loop in STV")
  and never leaves the modelled domain: it returns a full list or refuses on a tie.
-/
import VotelibProofs.Lemmas.STVShape
namespace VL.STV
open VL

/-! ### Gregory never fails in a transfer -/

theorem gregory_movePile_ok (cont : List Cand) (frm : Option Cand) (pile : Pile) (a : Alloc) (ds : List Draw) :
    ∃ a', movePile gregory cont frm pile a ds = .ok (a', ds) := by
  induction pile generalizing a with
  | nil => exact ⟨a, rfl⟩
  | cons bw rest ih =>
    obtain ⟨b, w⟩ := bw
    have h1 : ∃ a1, moveBallot gregory cont frm a b w ds = .ok (a1, ds) := by
      unfold moveBallot
      split
      · exact ⟨_, rfl⟩
      · exact ⟨_, rfl⟩
      · exact ⟨_, rfl⟩
    obtain ⟨a1, h1⟩ := h1
    obtain ⟨a2, h2⟩ := ih a1
    exact ⟨a2, by simp only [movePile, h1, bind, Except.bind, h2]⟩

theorem gregory_transferGo_ok (cont rs : List Cand) (a : Alloc) (ds : List Draw) :
    ∃ a', transferGo gregory cont rs a ds = .ok (a', ds) := by
  induction rs generalizing a with
  | nil => exact ⟨a, rfl⟩
  | cons c rest ih =>
    obtain ⟨a1, h1⟩ := gregory_movePile_ok cont (some c) (allocPile a (some c)) (allocErase a (some c)) ds
    obtain ⟨a2, h2⟩ := ih a1
    exact ⟨a2, by simp only [transferGo, h1, bind, Except.bind, h2]⟩

theorem gregory_transferIf_ok (a : Alloc) (elim : List Cand) (ds : List Draw) :
    ∃ a', transferIf gregory a elim ds = .ok (a', ds) := by
  rw [transferIf_eq]
  exact gregory_transferGo_ok _ _ a ds

theorem gregory_subtract_ok {els : List (Cand × Rat)} {a : Alloc} (ds : List Draw)
    (hnd : (els.map (·.1)).Nodup) (hpos : ∀ x ∈ els, pileTotal (allocPile a (some x.1)) ≠ 0) :
    ∃ a', subtract gregory els a ds = .ok (a', ds) := by
  induction els generalizing a with
  | nil => exact ⟨a, rfl⟩
  | cons x rest ih =>
    obtain ⟨c, n⟩ := x
    have hx := List.nodup_cons.mp hnd
    have h1 : ∃ p', gregory.subtract (allocPile a (some c)) n ds = .ok (p', ds) := by
      simp only [gregory, gregorySubtract]
      rw [if_neg (hpos (c, n) List.mem_cons_self)]
      split
      · exact ⟨_, rfl⟩
      · exact ⟨_, rfl⟩
    obtain ⟨p', h1⟩ := h1
    have h2 := ih (a := allocSetPile a (some c) p') hx.2 (by
      intro y hy
      rw [allocPile_setPile_ne]
      · exact hpos y (List.mem_cons_of_mem _ hy)
      · intro e; injection e with e
        exact hx.1 (List.mem_map.mpr ⟨y, hy, e⟩))
    obtain ⟨a2, h2⟩ := h2
    exact ⟨a2, by simp only [subtract, h1, bind, Except.bind, h2]⟩

/-! ### the only declared refusal is `NotImplementedError` -/

theorem correctOvercount_err {aw : List (Cand × Nat × Rat)} {n : Nat} {e : Err}
    (h : correctOvercount aw n = .error e) : e = .notImplemented := by
  unfold correctOvercount at h
  simp only at h
  split at h
  · injection h with h; exact h.symm
  · cases h

theorem electByQuota_err {eq : Bool} {q : Rat} {n : Nat} {prev maxS : Seats} {tp : Votes} {e : Err}
    (h : electByQuota eq q n prev maxS tp = .error e) : e = .notImplemented := by
  unfold electByQuota at h
  simp only at h
  split at h
  · exact correctOvercount_err h
  · cases h

theorem selectRetained_err {s : Int} {tp : Votes} {e : Err} (h : selectRetained (some s) tp = .error e) :
    e = .notImplemented := by
  unfold selectRetained at h
  simp only at h
  split at h
  · injection h with h; exact h.symm
  · cases h

/-! ### counting -/

theorem totAvail_ones (l : List Cand) (acc : Int) :
    (l.map (fun c => (c, some (1 : Int)))).foldl availAdd (some acc) = some (acc + l.length) := by
  induction l generalizing acc with
  | nil => simp
  | cons x xs ih =>
    simp only [List.map_cons, List.foldl_cons, List.length_cons, availAdd]
    rw [ih]
    congr 1
    push_cast
    ring

theorem length_filter_not_mem {l e : List Cand} (hl : l.Nodup) (he : e.Nodup) (hsub : ∀ x ∈ e, x ∈ l) :
    (l.filter (fun c => decide (c ∉ e))).length = l.length - e.length := by
  have h1 : (l.filter (fun c => decide (c ∈ e))).Perm e := by
    apply (List.perm_ext_iff_of_nodup (hl.filter _) he).mpr
    intro x
    simp only [List.mem_filter, decide_eq_true_eq]
    exact ⟨fun h => h.2, fun h => ⟨hsub x h, h⟩⟩
  have h2 := List.length_eq_length_filter_add (l := l) (fun c => decide (c ∈ e))
  have h3 : (l.filter (fun c => !decide (c ∈ e))) = l.filter (fun c => decide (c ∉ e)) := by
    apply List.filter_congr; intro x _; simp
  rw [h3, h1.length_eq] at h2
  omega

theorem length_le_of_nodup_subset {l k : List Cand} (hl : l.Nodup) (hsub : ∀ x ∈ l, x ∈ k) : l.length ≤ k.length :=
  (List.subperm_of_subset hl hsub).length_le

theorem getNBest_length_le (votes : Votes) {n : Nat} (h1 : 1 ≤ n) : (getNBest votes n).length ≤ n := by
  rcases Nat.lt_or_ge n votes.length with hlt | hge
  · obtain ⟨hn1, hn, hex⟩ := getNBest_explicit votes n h1 hlt
    rw [hex]
    split
    · have hcnt := desc_cntGt_le (sortDesc_desc votes) hn1
      simp only [List.length_append, List.length_map, List.length_replicate]
      have : (List.filter (fun p => decide (((sortDesc votes)[n - 1]).2 < p.2)) (sortDesc votes)).length
          = cntGt (sortDesc votes) ((sortDesc votes)[n - 1]).2 := rfl
      rw [this]; omega
    · simp [List.length_take]
  · rw [getNBest_all votes n hge, List.length_map, sortDesc_length]; exact hge

theorem slotCands_length_le (l : List Slot) : (slotCands l).length ≤ l.length := by
  unfold slotCands
  exact List.length_filterMap_le _ _


/-! ### forward evaluation of `next_count` / the loop body -/

theorem countStep_of_next_ok {E : Engine} {cfg : Cfg} {inp : Input} {st : St} {out : CountOut} {ds' : List Draw}
    (hne : sumSeats st.seats ≠ inp.nSeats)
    (h : nextCount E cfg st.alloc inp.nSeats (totalVotes inp.votes) st.seats inp.maxS st.draws = .ok (out, ds'))
    (hp : noProgress st out = false) : countStep E cfg inp st = .ok (some (advance st out ds')) := by
  unfold countStep
  rw [if_neg hne, h]
  simp only [hp, Bool.false_eq_true, if_false]

theorem countStep_of_next_err {E : Engine} {cfg : Cfg} {inp : Input} {st : St} {e : Err}
    (hne : sumSeats st.seats ≠ inp.nSeats)
    (h : nextCount E cfg st.alloc inp.nSeats (totalVotes inp.votes) st.seats inp.maxS st.draws = .error e) :
    countStep E cfg inp st = .error e := by
  unfold countStep
  rw [if_neg hne, h]

theorem nextCount_of_shortcut {E : Engine} {cfg : Cfg} {a : Alloc} {n : Nat} {total : Rat} {prev maxS : Seats}
    {ds : List Draw} (hle : sumSeats prev ≤ n) (hs : shortcutCond cfg a n prev maxS = true) :
    nextCount E cfg a n total prev maxS ds = electAll a prev maxS ds := by
  unfold nextCount
  rw [if_neg (by omega), if_pos hs]

theorem nextCount_of_proper {E : Engine} {cfg : Cfg} {a : Alloc} {n : Nat} {total : Rat} {prev maxS : Seats}
    {ds : List Draw} (hle : sumSeats prev ≤ n) (hs : shortcutCond cfg a n prev maxS = false) :
    nextCount E cfg a n total prev maxS ds = countProper E cfg a n total prev maxS ds := by
  unfold nextCount
  rw [if_neg (by omega), hs]
  simp

/-- hypotheses of the total-correctness theorem -/
structure TotalHyp (cfg : Cfg) (votes : Profile) (n : Nat) : Prop where
  step : cfg.step = some (-1)
  mand : cfg.mandatory = false
  qpos : ∀ q, computeQuota cfg (totalVotes votes) n = some q → 0 < q

/-- in the selector form every continuing candidate has exactly one seat available -/
theorem availSeats_selector {votes : Profile} {a : Alloc} {seats : Seats}
    (hsub : ∀ c ∈ continuing a, c ∈ allRanked votes) (hdisj : ∀ c ∈ continuing a, c ∉ seats.map (·.1)) :
    availSeats a seats ((allRanked votes).map (fun c => (c, 1))) =
      ((sortDesc (totalsInPlay a)).map (·.1)).map (fun c => (c, some (1 : Int))) := by
  unfold availSeats
  apply List.map_congr_left
  intro c hc
  have hcc : c ∈ continuing a := by
    rw [← keys_totalsInPlay]
    exact ((sortDesc_perm _).map (·.1)).mem_iff.mp hc
  simp [maxGet_selector (hsub c hcc), seatsGet_of_not_mem (hdisj c hcc)]

theorem sortedKeys_length (a : Alloc) : ((sortDesc (totalsInPlay a)).map (·.1)).length = (continuing a).length := by
  rw [List.length_map, sortDesc_length, ← keys_totalsInPlay, List.length_map]

theorem shortcutCond_selector {cfg : Cfg} (hm : cfg.mandatory = false) {votes : Profile} {a : Alloc} {seats : Seats}
    {n : Nat} (hsub : ∀ c ∈ continuing a, c ∈ allRanked votes) (hdisj : ∀ c ∈ continuing a, c ∉ seats.map (·.1)) :
    shortcutCond cfg a n seats ((allRanked votes).map (fun c => (c, 1))) =
      decide ((continuing a).length = n - sumSeats seats) := by
  unfold shortcutCond totAvail
  rw [availSeats_selector hsub hdisj, totAvail_ones, sortedKeys_length, hm]
  simp only [zero_add, Bool.not_false, Bool.and_true, Option.some.injEq]
  by_cases h : (continuing a).length = n - sumSeats seats
  · simp [h]
  · have : ¬ ((continuing a).length : Int) = ((n - sumSeats seats : Nat) : Int) := by exact_mod_cast h
    simp [h, this]


/-! ### every count makes progress -/

/-- what one more count does to a state that has not filled all seats -/
inductive Progress (n : Nat) (st : St) : Except Err (Option St) → Prop
  | refuse : Progress n st (.error .notImplemented)
  | done (st' : St) : st'.final = true → Progress n st (.ok (some st'))
  | on (st' : St) : st'.final = false → (continuing st'.alloc).length < (continuing st.alloc).length →
      sumSeats st'.seats ≤ n → n - sumSeats st'.seats ≤ (continuing st'.alloc).length →
      Progress n st (.ok (some st'))

theorem elim_progress {votes : Profile} {cfg : Cfg} {n : Nat} (hh : TotalHyp cfg votes n) {st : St}
    (hk : KeysNodup st.alloc) (hne : sumSeats st.seats ≠ n) (hle : sumSeats st.seats ≤ n)
    (hm : n - sumSeats st.seats < (continuing st.alloc).length)
    (hnext : nextCount gregory cfg st.alloc n (totalVotes votes) st.seats
      ((allRanked votes).map (fun c => (c, 1))) st.draws = afterElimination gregory st.alloc cfg.step st.draws) :
    Progress n st (countStep gregory cfg (selectorInput votes n) st) := by
  have hcnd : (continuing st.alloc).Nodup := continuing_nodup hk
  have hnd : ((totalsInPlay st.alloc).map (·.1)).Nodup := by rw [keys_totalsInPlay]; exact hcnd
  cases hsel : selectRetained (some (-1)) (totalsInPlay st.alloc) with
  | error e =>
    have he := selectRetained_err hsel
    subst he
    have : afterElimination gregory st.alloc cfg.step st.draws = .error .notImplemented := by
      unfold afterElimination; simp only [hh.step, hsel]
    rw [this] at hnext
    rw [countStep_of_next_err (inp := selectorInput votes n) hne hnext]
    exact .refuse
  | ok retained =>
    obtain ⟨a2, htr⟩ := gregory_transferIf_ok st.alloc
      (((totalsInPlay st.alloc).map (·.1)).filter (fun c => decide (c ∉ retained))) st.draws
    have hout : afterElimination gregory st.alloc cfg.step st.draws =
        .ok ({ alloc := a2, elected := [],
               eliminated := ((totalsInPlay st.alloc).map (·.1)).filter (fun c => decide (c ∉ retained)),
               shortcut := false }, st.draws) := by
      unfold afterElimination; simp only [hh.step, hsel, htr]
    rw [hout] at hnext
    have hes := elim_spec (by norm_num : (-1 : Int) < 0) hsel
    have hmv := transferIf_moved gregory_ok htr
    have hlen2 : 2 ≤ (continuing st.alloc).length := by omega
    have hcount := hes.count hnd
    have hrc : retainedCount (-1) (totalsInPlay st.alloc).length = (continuing st.alloc).length - 1 := by
      have := retainedCount_neg (by norm_num : (-1 : Int) < 0) (totalsInPlay st.alloc).length
      have hl : (totalsInPlay st.alloc).length = (continuing st.alloc).length := by
        rw [← keys_totalsInPlay, List.length_map]
      rw [hl] at this ⊢
      omega
    have hel1 : (((totalsInPlay st.alloc).map (·.1)).filter (fun c => decide (c ∉ retained))).length = 1 := by
      rw [hcount, hrc, ← keys_totalsInPlay, List.length_map]
      have hl : (totalsInPlay st.alloc).length = (continuing st.alloc).length := by
        rw [← keys_totalsInPlay, List.length_map]
      omega
    have hnp : noProgress st
        { alloc := a2, elected := [],
          eliminated := ((totalsInPlay st.alloc).map (·.1)).filter (fun c => decide (c ∉ retained)),
          shortcut := false } = false := by
      simp only [noProgress, decide_true, Bool.true_and, Bool.false_eq_true, if_false, decide_eq_false_iff_not]
      intro h0; rw [h0] at hel1; simp at hel1
    rw [countStep_of_next_ok (inp := selectorInput votes n) hne hnext hnp]
    have hcl : (continuing a2).length = (continuing st.alloc).length - 1 := by
      rw [hmv.cont_eq, length_filter_not_mem hcnd (hnd.filter _)
        (by intro x hx; rw [← keys_totalsInPlay]; exact (List.mem_filter.mp hx).1), hel1]
    refine .on _ rfl ?_ ?_ ?_
    · simp only [advance]; omega
    · simp only [advance, seatsAdd, List.foldl_nil]; exact hle
    · simp only [advance, seatsAdd, List.foldl_nil]; omega


/-- with one seat per candidate at most, an election by quota never awards more than the open seats -/
theorem electByQuota_sum_le {eq : Bool} {q : Rat} {nRem : Nat} {prev maxS : Seats} {tp : Votes} {el : Seats}
    (h : electByQuota eq q nRem prev maxS tp = .ok el)
    (hone : ∀ x ∈ quotaMultiples eq q prev maxS tp, x.2.1 = 1)
    (hnd : ((quotaMultiples eq q prev maxS tp).map (·.1)).Nodup) (hr : 1 ≤ nRem) : sumSeats el ≤ nRem := by
  unfold electByQuota at h
  simp only at h
  split at h
  · -- over-award: keep the `nRem` best overcounts
    obtain ⟨h1, h2⟩ := correctOvercount_spec h
    have hones : ∀ p ∈ el, p.2 = 1 := by
      intro p hp
      obtain ⟨x, hx, _, hpos, hle⟩ := h1 p hp
      have := hone x hx
      omega
    rw [sumSeats_of_ones hones]
    unfold correctOvercount at h
    simp only at h
    split at h
    · cases h
    · injection h with h
      have hkeys : ∀ c ∈ el.map (·.1), c ∈ slotCands (getNBest
          ((quotaMultiples eq q prev maxS tp).map (fun x => (x.1, x.2.2))) nRem) := by
        intro c hc
        obtain ⟨p, hp, rfl⟩ := List.mem_map.mp hc
        rw [← h] at hp
        obtain ⟨x, hx, hf⟩ := List.mem_filterMap.mp hp
        split at hf
        · rename_i hin
          injection hf with hf; rw [← hf]; exact hin
        · split at hf
          · rename_i hgt
            have := hone x hx
            omega
          · cases hf
      have hlen := length_le_of_nodup_subset (List.Nodup.sublist h2 hnd) hkeys
      rw [List.length_map] at hlen
      exact le_trans hlen (le_trans (slotCands_length_le _) (getNBest_length_le _ hr))
  · rename_i hle
    injection h with h
    subst h
    have : sumSeats ((quotaMultiples eq q prev maxS tp).map (fun x => (x.1, x.2.1))) =
        ((quotaMultiples eq q prev maxS tp).map (·.2.1)).sum := by
      simp [sumSeats, List.map_map, Function.comp_def]
    rw [this]; omega

theorem step_progress {votes : Profile} {cfg : Cfg} {n : Nat} (hh : TotalHyp cfg votes n) {st : St}
    (hi : StInv cfg (selectorInput votes n) st) (hj : ShapeInv votes st) (hfin : st.final = false)
    (hlt : sumSeats st.seats < n) (hm : n - sumSeats st.seats ≤ (continuing st.alloc).length) :
    Progress n st (countStep gregory cfg (selectorInput votes n) st) := by
  have hk := hi.keys hfin
  have hsub : ∀ c ∈ continuing st.alloc, c ∈ allRanked votes := hi.cont_sub
  have hcnd : (continuing st.alloc).Nodup := continuing_nodup hk
  have hdisj : ∀ c ∈ continuing st.alloc, c ∉ st.seats.map (·.1) := by
    intro c hc hmm
    obtain ⟨p, hp, rfl⟩ := List.mem_map.mp hmm
    exact hj.disj p hp hc
  have hne : sumSeats st.seats ≠ n := by omega
  have hle : sumSeats st.seats ≤ n := by omega
  have hsc := shortcutCond_selector (n := n) hh.mand hsub hdisj
  by_cases hmr : (continuing st.alloc).length = n - sumSeats st.seats
  · -- as many candidates as seats: all remaining are elected
    have hs : shortcutCond cfg st.alloc n st.seats ((allRanked votes).map (fun c => (c, 1))) = true := by
      rw [hsc]; simp [hmr]
    have hnext := nextCount_of_shortcut (E := gregory) (total := totalVotes votes) (ds := st.draws) hle hs
    have hall : electAll st.alloc st.seats ((allRanked votes).map (fun c => (c, 1))) st.draws =
        .ok ({ alloc := [], elected := ((sortDesc (totalsInPlay st.alloc)).map (·.1)).map (fun c => (c, 1)),
               eliminated := [], shortcut := true }, st.draws) := by
      unfold electAll
      rw [availSeats_selector hsub hdisj]
      simp [List.map_map, Function.comp_def]
    rw [hall] at hnext
    have hnp : noProgress st
        { alloc := [], elected := ((sortDesc (totalsInPlay st.alloc)).map (·.1)).map (fun c => (c, 1)),
          eliminated := [], shortcut := true } = false := by
      simp only [noProgress, Bool.and_eq_false_imp, decide_eq_true_eq]
      intro h0
      have := congrArg List.length h0
      rw [List.length_map, sortedKeys_length, List.length_nil] at this
      omega
    rw [countStep_of_next_ok (inp := selectorInput votes n) hne hnext hnp]
    exact .done _ rfl
  · have hs : shortcutCond cfg st.alloc n st.seats ((allRanked votes).map (fun c => (c, 1))) = false := by
      rw [hsc]; simp [hmr]
    have hmgt : n - sumSeats st.seats < (continuing st.alloc).length := by omega
    have hnext := nextCount_of_proper (E := gregory) (total := totalVotes votes) (ds := st.draws) hle hs
    cases hq : computeQuota cfg (totalVotes votes) n with
    | none =>
      have : countProper gregory cfg st.alloc n (totalVotes votes) st.seats
          ((allRanked votes).map (fun c => (c, 1))) st.draws = afterElimination gregory st.alloc cfg.step st.draws := by
        unfold countProper; rw [hq]
      rw [this] at hnext
      exact elim_progress hh hk hne hle hmgt hnext
    | some qv =>
      have hpos := hh.qpos qv hq
      cases hel : electByQuota cfg.acceptEqual qv (n - sumSeats st.seats) st.seats
          ((allRanked votes).map (fun c => (c, 1))) (totalsInPlay st.alloc) with
      | error e =>
        have he := electByQuota_err hel
        subst he
        have : countProper gregory cfg st.alloc n (totalVotes votes) st.seats
            ((allRanked votes).map (fun c => (c, 1))) st.draws = .error .notImplemented := by
          unfold countProper; rw [hq]; simp only [if_neg (not_le.mpr hpos), hel]
        rw [this] at hnext
        rw [countStep_of_next_err (inp := selectorInput votes n) hne hnext]
        exact .refuse
      | ok el =>
        by_cases hel0 : el = []
        · have : countProper gregory cfg st.alloc n (totalVotes votes) st.seats
              ((allRanked votes).map (fun c => (c, 1))) st.draws =
              afterElimination gregory st.alloc cfg.step st.draws := by
            unfold countProper; rw [hq]; simp only [if_neg (not_le.mpr hpos), hel, hel0, if_true]
          rw [this] at hnext
          exact elim_progress hh hk hne hle hmgt hnext
        · -- somebody holds the quota
          obtain ⟨hnd, hfacts⟩ := election_facts hk hpos hel
          have hone : ∀ ck ∈ el, ck.2 = 1 := by
            intro ck hck
            obtain ⟨hcont, h1, _, hmax⟩ := hfacts ck hck
            have := hmax 1 (maxGet_selector (hsub _ hcont))
            omega
          -- the subtraction goes through: every elected pile holds a positive quota
          have hsubok := gregory_subtract_ok (a := st.alloc) st.draws
            (els := el.map (fun ck => (ck.1, (ck.2 : Rat) * qv)))
            (by simpa [List.map_map, Function.comp_def] using hnd)
            (by
              intro x hx
              obtain ⟨ck, hck, rfl⟩ := List.mem_map.mp hx
              obtain ⟨_, h1, h2, _⟩ := hfacts ck hck
              have : (0 : Rat) < (ck.2 : Rat) * qv := mul_pos (by exact_mod_cast h1) hpos
              unfold totalOf at h2
              simp only
              linarith)
          obtain ⟨a1, hsub1⟩ := hsubok
          obtain ⟨a2, htr⟩ := gregory_transferIf_ok a1
            (fullyElected el st.seats ((allRanked votes).map (fun c => (c, 1)))) st.draws
          have hout : afterElection gregory st.alloc el qv st.seats ((allRanked votes).map (fun c => (c, 1))) st.draws =
              .ok ({ alloc := a2, elected := el,
                     eliminated := fullyElected el st.seats ((allRanked votes).map (fun c => (c, 1))),
                     shortcut := false }, st.draws) := by
            unfold afterElection; simp only [hsub1, htr]
          have : countProper gregory cfg st.alloc n (totalVotes votes) st.seats
              ((allRanked votes).map (fun c => (c, 1))) st.draws =
              afterElection gregory st.alloc el qv st.seats ((allRanked votes).map (fun c => (c, 1))) st.draws := by
            unfold countProper; rw [hq]; simp only [if_neg (not_le.mpr hpos), hel, hel0, if_false]
          rw [this, hout] at hnext
          have hnp : noProgress st
              { alloc := a2, elected := el,
                eliminated := fullyElected el st.seats ((allRanked votes).map (fun c => (c, 1))),
                shortcut := false } = false := by
            simp [noProgress, hel0]
          have hstep := countStep_of_next_ok (inp := selectorInput votes n) hne hnext hnp
          rw [hstep]
          -- bookkeeping
          have hs := subtract_spec gregory_ok hsub1
          have hmv := transferIf_moved gregory_ok htr
          have hc1 : continuing a1 = continuing st.alloc := by rw [continuing_eq, continuing_eq, hs.keys_eq]
          have hadd : seatsAdd st.seats el = st.seats ++ el :=
            seatsAdd_of_disjoint hnd (fun p hp => hdisj _ (hfacts p hp).1)
          have hsum : sumSeats (seatsAdd st.seats el) = sumSeats st.seats + el.length := by
            rw [sumSeats_seatsAdd, sumSeats_of_ones hone]
          -- exactly the elected leave
          have hfe : ∀ c, c ∈ fullyElected el st.seats ((allRanked votes).map (fun c => (c, 1))) ↔ c ∈ el.map (·.1) := by
            intro c
            constructor
            · intro hc
              unfold fullyElected at hc
              obtain ⟨ck, hck, rfl⟩ := List.mem_map.mp hc
              exact List.mem_map.mpr ⟨ck, (List.mem_filter.mp hck).1, rfl⟩
            · intro hc
              obtain ⟨ck, hck, rfl⟩ := List.mem_map.mp hc
              unfold fullyElected
              refine List.mem_map.mpr ⟨ck, List.mem_filter.mpr ⟨hck, ?_⟩, rfl⟩
              rw [maxGet_selector (hsub _ (hfacts ck hck).1)]
              have hadd2 : seatsAdd el st.seats = el ++ st.seats := by
                apply seatsAdd_of_disjoint hj.nd
                intro p hp hmm
                obtain ⟨ck', hck', he⟩ := List.mem_map.mp hmm
                exact hj.disj p hp (he ▸ (hfacts ck' hck').1)
              have hck1 : (ck.1, 1) ∈ el := by
                have : ck = (ck.1, 1) := Prod.ext rfl (hone ck hck)
                rw [← this]; exact hck
              rw [hadd2, seatsGet_append_of_mem hnd hck1]
              simp
          have hcl : (continuing a2).length = (continuing st.alloc).length - el.length := by
            rw [hmv.cont_eq, hc1]
            have hcongr : (continuing st.alloc).filter
                (fun c => decide (c ∉ fullyElected el st.seats ((allRanked votes).map (fun c => (c, 1))))) =
                (continuing st.alloc).filter (fun c => decide (c ∉ el.map (·.1))) := by
              apply List.filter_congr; intro x _; simp only [hfe x]
            rw [hcongr, length_filter_not_mem hcnd hnd
              (by intro x hx; obtain ⟨ck, hck, rfl⟩ := List.mem_map.mp hx; exact (hfacts ck hck).1), List.length_map]
          have hell : el.length ≤ n - sumSeats st.seats := by
            have hqm1 : ∀ x ∈ quotaMultiples cfg.acceptEqual qv st.seats ((allRanked votes).map (fun c => (c, 1)))
                (totalsInPlay st.alloc), x.2.1 = 1 := by
              intro x hx
              obtain ⟨t, ht, h1, _, hmax⟩ := mem_quotaMultiples hpos hx
              have hxc : x.1 ∈ continuing st.alloc := by
                rw [← keys_totalsInPlay]; exact List.mem_map.mpr ⟨(x.1, t), ht, rfl⟩
              have := hmax 1 (maxGet_selector (hsub _ hxc))
              omega
            have hqmnd : ((quotaMultiples cfg.acceptEqual qv st.seats ((allRanked votes).map (fun c => (c, 1)))
                (totalsInPlay st.alloc)).map (·.1)).Nodup :=
              List.Nodup.sublist (quotaMultiples_keys_sublist _ _ _ _ _)
                (keys_nodup_of_sortDesc (by rw [keys_totalsInPlay]; exact hcnd))
            have := electByQuota_sum_le hel hqm1 hqmnd (by omega)
            rw [sumSeats_of_ones hone] at this
            exact this
          have hel1 : 1 ≤ el.length := by
            cases el with
            | nil => exact absurd rfl hel0
            | cons _ _ => simp
          refine .on _ rfl ?_ ?_ ?_
          · simp only [advance]; omega
          · simp only [advance, hsum]; omega
          · simp only [advance, hsum]; omega


/-! ### the run terminates with all seats filled, or refuses -/

theorem run_total {votes : Profile} {cfg : Cfg} {n : Nat} (hh : TotalHyp cfg votes n) {ds : List Draw} :
    ∀ (fuel : Nat) (st : St), Reach gregory cfg (selectorInput votes n) ds st →
      (st.final = true ∨ (sumSeats st.seats ≤ n ∧ n - sumSeats st.seats ≤ (continuing st.alloc).length)) →
      (if st.final then 1 else (continuing st.alloc).length + 2) ≤ fuel →
      runCounts gregory cfg (selectorInput votes n) fuel st = .error .notImplemented ∨
      ∃ st', runCounts gregory cfg (selectorInput votes n) fuel st = .ok st' ∧ sumSeats st'.seats = n := by
  intro fuel
  induction fuel with
  | zero => intro st _ _ hf; split at hf <;> omega
  | succ k ih =>
    intro st hr hc hf
    have hi := reach_inv gregory_ok hr
    have hj := shape_reach gregory_ok hr
    by_cases hsum : sumSeats st.seats = n
    · right
      refine ⟨st, ?_, hsum⟩
      simp only [runCounts, countStep, selectorInput, hsum, if_true]
    · have hfin : st.final = false := by
        cases hf' : st.final with
        | false => rfl
        | true => exact absurd (hi.fin hf') hsum
      rcases hc with hc | ⟨hle, hm⟩
      · rw [hfin] at hc; cases hc
      have hp := step_progress hh hi hj hfin (by omega) hm
      rw [hfin] at hf
      simp only [Bool.false_eq_true, if_false] at hf
      generalize hcs : countStep gregory cfg (selectorInput votes n) st = r at hp
      cases hp with
      | refuse => left; simp only [runCounts, hcs]
      | done st' hf' =>
        have := ih st' (.step hr hcs) (Or.inl hf') (by rw [hf']; simp; omega)
        simpa only [runCounts, hcs] using this
      | on st' hf' hlt hle' hm' =>
        have := ih st' (.step hr hcs) (Or.inr ⟨hle', hm'⟩) (by rw [hf']; simp; omega)
        simpa only [runCounts, hcs] using this

theorem gregory_initState_ok (inp : Input) (ds : List Draw) : ∃ st, initState gregory inp ds = .ok st := by
  obtain ⟨a, ha⟩ := gregory_movePile_ok (allRanked inp.votes) none (fictionalPile inp.votes) (firstPrefs inp.votes) ds
  exact ⟨_, by unfold initState initialAllocation; rw [ha]⟩

/-- **No stall.**  Selector form, Gregory transfer, `eliminate_step = -1`, no `mandatory_quota`, a positive
    quota (or none) and between one and #candidates seats: the evaluation returns a list or refuses with
    `NotImplementedError` — never `VotingSystemError('infinite loop in STV')`, never anything else. -/
theorem selector_total {votes : Profile} {cfg : Cfg} {n : Nat} (hh : TotalHyp cfg votes n)
    (hn : n ≤ (allRanked votes).length) (ds : List Draw) :
    selectorEvaluate gregory cfg votes n ds = .error .notImplemented ∨
    ∃ l, selectorEvaluate gregory cfg votes n ds = .ok l := by
  obtain ⟨st0, h0⟩ := gregory_initState_ok (selectorInput votes n) ds
  obtain ⟨hi0, hf0, hs0, _⟩ := initState_inv (cfg := cfg) gregory_ok h0
  have hc0 : continuing st0.alloc = allRanked votes := by
    unfold initState at h0
    split at h0
    · cases h0
    · rename_i a ds' hinit
      injection h0 with h0; subst h0
      exact (init_inv gregory_ok hinit).cont_eq
  simp only [selectorInput] at hs0
  have hrun := run_total hh (evalFuel (selectorInput votes n)) st0 (.init h0)
    (Or.inr ⟨by rw [hs0]; simp [sumSeats], by rw [hs0, hc0]; simp [sumSeats]; exact hn⟩)
    (by rw [hf0, hc0]; simp [evalFuel, selectorInput])
  unfold selectorEvaluate distributorEvaluate
  rw [h0]
  simp only [bind, Except.bind]
  rcases hrun with he | ⟨st', hok, hsum⟩
  · left; rw [he]
  · right
    rw [hok]
    have : finished (selectorInput votes n) st' = true := by simp [finished, selectorInput, hsum]
    simp only [this, if_true, pure, Except.pure]
    exact ⟨_, rfl⟩

end VL.STV
