/-
  Total correctness of the selector form under Gregory transfer: with `eliminate_step = -1`, no
  `mandatory_quota` and at least as many candidates as seats, the count never stalls ("infinite loop in STV")
  and never leaves the modelled domain: it returns a full list or refuses on a tie.
-/
import VotelibProofs.Lemmas.STVShape
namespace VL.STV
open VL

/-! ### Gregory never fails in a transfer -/

theorem gregory_movePile_ok (cont : List Cand) (frm : Option Cand) (pile : Pile) (a : Alloc) (ds : List Draw) :
    ∃ a', movePile gregory cont frm pile a ds = .ok (a', ds) := by
  induction pile generalizing a with
  | nil => exact ⟨a, rfl⟩
  | cons bw rest ih =>
    obtain ⟨b, w⟩ := bw
    have h1 : ∃ a1, moveBallot gregory cont frm a b w ds = .ok (a1, ds) := by
      unfold moveBallot
      split
      · exact ⟨_, rfl⟩
      · exact ⟨_, rfl⟩
      · exact ⟨_, rfl⟩
    obtain ⟨a1, h1⟩ := h1
    obtain ⟨a2, h2⟩ := ih a1
    exact ⟨a2, by simp only [movePile, h1, bind, Except.bind, h2]⟩

theorem gregory_transferGo_ok (cont rs : List Cand) (a : Alloc) (ds : List Draw) :
    ∃ a', transferGo gregory cont rs a ds = .ok (a', ds) := by
  induction rs generalizing a with
  | nil => exact ⟨a, rfl⟩
  | cons c rest ih =>
    obtain ⟨a1, h1⟩ := gregory_movePile_ok cont (some c) (allocPile a (some c)) (allocErase a (some c)) ds
    obtain ⟨a2, h2⟩ := ih a1
    exact ⟨a2, by simp only [transferGo, h1, bind, Except.bind, h2]⟩

theorem gregory_transferIf_ok (a : Alloc) (elim : List Cand) (ds : List Draw) :
    ∃ a', transferIf gregory a elim ds = .ok (a', ds) := by
  rw [transferIf_eq]
  exact gregory_transferGo_ok _ _ a ds

theorem gregory_subtract_ok {els : List (Cand × Rat)} {a : Alloc} (ds : List Draw)
    (hnd : (els.map (·.1)).Nodup) (hpos : ∀ x ∈ els, pileTotal (allocPile a (some x.1)) ≠ 0) :
    ∃ a', subtract gregory els a ds = .ok (a', ds) := by
  induction els generalizing a with
  | nil => exact ⟨a, rfl⟩
  | cons x rest ih =>
    obtain ⟨c, n⟩ := x
    have hx := List.nodup_cons.mp hnd
    have h1 : ∃ p', gregory.subtract (allocPile a (some c)) n ds = .ok (p', ds) := by
      simp only [gregory, gregorySubtract]
      rw [if_neg (hpos (c, n) List.mem_cons_self)]
      split
      · exact ⟨_, rfl⟩
      · exact ⟨_, rfl⟩
    obtain ⟨p', h1⟩ := h1
    have h2 := ih (a := allocSetPile a (some c) p') hx.2 (by
      intro y hy
      rw [allocPile_setPile_ne]
      · exact hpos y (List.mem_cons_of_mem _ hy)
      · intro e; injection e with e
        exact hx.1 (List.mem_map.mpr ⟨y, hy, e⟩))
    obtain ⟨a2, h2⟩ := h2
    exact ⟨a2, by simp only [subtract, h1, bind, Except.bind, h2]⟩

/-! ### the only declared refusal is `NotImplementedError` -/

theorem correctOvercount_err {aw : List (Cand × Nat × Rat)} {n : Nat} {e : Err}
    (h : correctOvercount aw n = .error e) : e = .notImplemented := by
  unfold correctOvercount at h
  simp only at h
  split at h
  · injection h with h; exact h.symm
  · cases h

theorem electByQuota_err {eq : Bool} {q : Rat} {n : Nat} {prev maxS : Seats} {tp : Votes} {e : Err}
    (h : electByQuota eq q n prev maxS tp = .error e) : e = .notImplemented := by
  unfold electByQuota at h
  simp only at h
  split at h
  · exact correctOvercount_err h
  · cases h

theorem selectRetained_err {s : Int} {tp : Votes} {e : Err} (h : selectRetained (some s) tp = .error e) :
    e = .notImplemented := by
  unfold selectRetained at h
  simp only at h
  split at h
  · injection h with h; exact h.symm
  · cases h

/-! ### counting -/

theorem totAvail_ones (l : List Cand) (acc : Int) :
    (l.map (fun c => (c, some (1 : Int)))).foldl availAdd (some acc) = some (acc + l.length) := by
  induction l generalizing acc with
  | nil => simp
  | cons x xs ih =>
    simp only [List.map_cons, List.foldl_cons, List.length_cons, availAdd]
    rw [ih]
    congr 1
    push_cast
    ring

theorem length_filter_not_mem {l e : List Cand} (hl : l.Nodup) (he : e.Nodup) (hsub : ∀ x ∈ e, x ∈ l) :
    (l.filter (fun c => decide (c ∉ e))).length = l.length - e.length := by
  have h1 : (l.filter (fun c => decide (c ∈ e))).Perm e := by
    apply (List.perm_ext_iff_of_nodup (hl.filter _) he).mpr
    intro x
    simp only [List.mem_filter, decide_eq_true_eq]
    exact ⟨fun h => h.2, fun h => ⟨hsub x h, h⟩⟩
  have h2 := List.length_eq_length_filter_add (l := l) (fun c => decide (c ∈ e))
  have h3 : (l.filter (fun c => !decide (c ∈ e))) = l.filter (fun c => decide (c ∉ e)) := by
    apply List.filter_congr; intro x _; simp
  rw [h3, h1.length_eq] at h2
  omega

theorem length_le_of_nodup_subset {l k : List Cand} (hl : l.Nodup) (hsub : ∀ x ∈ l, x ∈ k) : l.length ≤ k.length :=
  (List.subperm_of_subset hl hsub).length_le

theorem getNBest_length_le (votes : Votes) {n : Nat} (h1 : 1 ≤ n) : (getNBest votes n).length ≤ n := by
  rcases Nat.lt_or_ge n votes.length with hlt | hge
  · obtain ⟨hn1, hn, hex⟩ := getNBest_explicit votes n h1 hlt
    rw [hex]
    split
    · have hcnt := desc_cntGt_le (sortDesc_desc votes) hn1
      simp only [List.length_append, List.length_map, List.length_replicate]
      have : (List.filter (fun p => decide (((sortDesc votes)[n - 1]).2 < p.2)) (sortDesc votes)).length
          = cntGt (sortDesc votes) ((sortDesc votes)[n - 1]).2 := rfl
      rw [this]; omega
    · simp [List.length_take]
  · rw [getNBest_all votes n hge, List.length_map, sortDesc_length]; exact hge

theorem slotCands_length_le (l : List Slot) : (slotCands l).length ≤ l.length := by
  unfold slotCands
  exact List.length_filterMap_le _ _


/-! ### forward evaluation of `next_count` / the loop body -/

theorem countStep_of_next_ok {E : Engine} {cfg : Cfg} {inp : Input} {st : St} {out : CountOut} {ds' : List Draw}
    (hne : sumSeats st.seats ≠ inp.nSeats)
    (h : nextCount E cfg st.alloc inp.nSeats (totalVotes inp.votes) st.seats inp.maxS st.draws = .ok (out, ds'))
    (hp : noProgress st out = false) : countStep E cfg inp st = .ok (some (advance st out ds')) := by
  unfold countStep
  rw [if_neg hne, h]
  simp only [hp, Bool.false_eq_true, if_false]

theorem countStep_of_next_err {E : Engine} {cfg : Cfg} {inp : Input} {st : St} {e : Err}
    (hne : sumSeats st.seats ≠ inp.nSeats)
    (h : nextCount E cfg st.alloc inp.nSeats (totalVotes inp.votes) st.seats inp.maxS st.draws = .error e) :
    countStep E cfg inp st = .error e := by
  unfold countStep
  rw [if_neg hne, h]

theorem nextCount_of_shortcut {E : Engine} {cfg : Cfg} {a : Alloc} {n : Nat} {total : Rat} {prev maxS : Seats}
    {ds : List Draw} (hle : sumSeats prev ≤ n) (hs : shortcutCond cfg a n prev maxS = true) :
    nextCount E cfg a n total prev maxS ds = electAll a prev maxS ds := by
  unfold nextCount
  rw [if_neg (by omega), if_pos hs]

theorem nextCount_of_proper {E : Engine} {cfg : Cfg} {a : Alloc} {n : Nat} {total : Rat} {prev maxS : Seats}
    {ds : List Draw} (hle : sumSeats prev ≤ n) (hs : shortcutCond cfg a n prev maxS = false) :
    nextCount E cfg a n total prev maxS ds = countProper E cfg a n total prev maxS ds := by
  unfold nextCount
  rw [if_neg (by omega), hs]
  simp

/-- hypotheses of the total-correctness theorem -/
structure TotalHyp (cfg : Cfg) (votes : Profile) (n : Nat) : Prop where
  step : cfg.step = some (-1)
  mand : cfg.mandatory = false
  qpos : ∀ q, computeQuota cfg (totalVotes votes) n = some q → 0 < q

/-- in the selector form every continuing candidate has exactly one seat available -/
theorem availSeats_selector {votes : Profile} {a : Alloc} {seats : Seats}
    (hsub : ∀ c ∈ continuing a, c ∈ allRanked votes) (hdisj : ∀ c ∈ continuing a, c ∉ seats.map (·.1)) :
    availSeats a seats ((allRanked votes).map (fun c => (c, 1))) =
      ((sortDesc (totalsInPlay a)).map (·.1)).map (fun c => (c, some (1 : Int))) := by
  unfold availSeats
  apply List.map_congr_left
  intro c hc
  have hcc : c ∈ continuing a := by
    rw [← keys_totalsInPlay]
    exact ((sortDesc_perm _).map (·.1)).mem_iff.mp hc
  simp [maxGet_selector (hsub c hcc), seatsGet_of_not_mem (hdisj c hcc)]

theorem sortedKeys_length (a : Alloc) : ((sortDesc (totalsInPlay a)).map (·.1)).length = (continuing a).length := by
  rw [List.length_map, sortDesc_length, ← keys_totalsInPlay, List.length_map]

theorem shortcutCond_selector {cfg : Cfg} (hm : cfg.mandatory = false) {votes : Profile} {a : Alloc} {seats : Seats}
    {n : Nat} (hsub : ∀ c ∈ continuing a, c ∈ allRanked votes) (hdisj : ∀ c ∈ continuing a, c ∉ seats.map (·.1)) :
    shortcutCond cfg a n seats ((allRanked votes).map (fun c => (c, 1))) =
      decide ((continuing a).length = n - sumSeats seats) := by
  unfold shortcutCond totAvail
  rw [availSeats_selector hsub hdisj, totAvail_ones, sortedKeys_length, hm]
  simp only [zero_add, Bool.not_false, Bool.and_true, Option.some.injEq]
  by_cases h : (continuing a).length = n - sumSeats seats
  · simp [h]
  · have : ¬ ((continuing a).length : Int) = ((n - sumSeats seats : Nat) : Int) := by exact_mod_cast h
    simp [h, this]


/-! ### every count makes progress -/

/-- what one more count does to a state that has not filled all seats -/
inductive Progress (n : Nat) (st : St) : Except Err (Option St) → Prop
  | refuse : Progress n st (.error .notImplemented)
  | done (st' : St) : st'.final = true → Progress n st (.ok (some st'))
  | on (st' : St) : st'.final = false → (continuing st'.alloc).length < (continuing st.alloc).length →
      sumSeats st'.seats ≤ n → n - sumSeats st'.seats ≤ (continuing st'.alloc).length →
      Progress n st (.ok (some st'))

theorem elim_progress {votes : Profile} {cfg : Cfg} {n : Nat} (hh : TotalHyp cfg votes n) {st : St}
    (hk : KeysNodup st.alloc) (hne : sumSeats st.seats ≠ n) (hle : sumSeats st.seats ≤ n)
    (hm : n - sumSeats st.seats < (continuing st.alloc).length)
    (hnext : nextCount gregory cfg st.alloc n (totalVotes votes) st.seats
      ((allRanked votes).map (fun c => (c, 1))) st.draws = afterElimination gregory st.alloc cfg.step st.draws) :
    Progress n st (countStep gregory cfg (selectorInput votes n) st) := by
  have hcnd : (continuing st.alloc).Nodup := continuing_nodup hk
  have hnd : ((totalsInPlay st.alloc).map (·.1)).Nodup := by rw [keys_totalsInPlay]; exact hcnd
  cases hsel : selectRetained (some (-1)) (totalsInPlay st.alloc) with
  | error e =>
    have he := selectRetained_err hsel
    subst he
    have : afterElimination gregory st.alloc cfg.step st.draws = .error .notImplemented := by
      unfold afterElimination; simp only [hh.step, hsel]
    rw [this] at hnext
    rw [countStep_of_next_err (inp := selectorInput votes n) hne hnext]
    exact .refuse
  | ok retained =>
    obtain ⟨a2, htr⟩ := gregory_transferIf_ok st.alloc
      (((totalsInPlay st.alloc).map (·.1)).filter (fun c => decide (c ∉ retained))) st.draws
    have hout : afterElimination gregory st.alloc cfg.step st.draws =
        .ok ({ alloc := a2, elected := [],
               eliminated := ((totalsInPlay st.alloc).map (·.1)).filter (fun c => decide (c ∉ retained)),
               shortcut := false }, st.draws) := by
      unfold afterElimination; simp only [hh.step, hsel, htr]
    rw [hout] at hnext
    have hes := elim_spec (by norm_num : (-1 : Int) < 0) hsel
    have hmv := transferIf_moved gregory_ok htr
    have hlen2 : 2 ≤ (continuing st.alloc).length := by omega
    have hcount := hes.count hnd
    have hrc : retainedCount (-1) (totalsInPlay st.alloc).length = (continuing st.alloc).length - 1 := by
      have := retainedCount_neg (by norm_num : (-1 : Int) < 0) (totalsInPlay st.alloc).length
      have hl : (totalsInPlay st.alloc).length = (continuing st.alloc).length := by
        rw [← keys_totalsInPlay, List.length_map]
      rw [hl] at this ⊢
      omega
    have hel1 : (((totalsInPlay st.alloc).map (·.1)).filter (fun c => decide (c ∉ retained))).length = 1 := by
      rw [hcount, hrc, ← keys_totalsInPlay, List.length_map]
      have hl : (totalsInPlay st.alloc).length = (continuing st.alloc).length := by
        rw [← keys_totalsInPlay, List.length_map]
      omega
    have hnp : noProgress st { alloc := a2, elected := [],
        eliminated := ((totalsInPlay st.alloc).map (·.1)).filter (fun c => decide (c ∉ retained)),
        shortcut := false } = false := by
      simp only [noProgress, decide_true, Bool.true_and, Bool.false_eq_true, if_false, decide_eq_false_iff_not]
      intro h0; rw [h0] at hel1; simp at hel1
    rw [countStep_of_next_ok (inp := selectorInput votes n) hne hnext hnp]
    have hcl : (continuing a2).length = (continuing st.alloc).length - 1 := by
      rw [hmv.cont_eq, length_filter_not_mem hcnd (hnd.filter _)
        (by intro x hx; rw [← keys_totalsInPlay]; exact (List.mem_filter.mp hx).1), hel1]
    refine .on _ rfl ?_ ?_ ?_
    · simp only [advance]; omega
    · simp only [advance, seatsAdd, List.foldl_nil]; exact hle
    · simp only [advance, seatsAdd, List.foldl_nil]; omega

end VL.STV
