/-
  Helper lemmas about the validator model (VotelibModel/Validate.lean): sequencing in `Except`,
  `forEach`, `dedup`, the ranked loop, the score-item loop, `sumScores`, `eliminate`.
-/
import VotelibModel.Validate
import Mathlib.Algebra.Order.Ring.Rat
import Mathlib.Tactic.Linarith
namespace VL.Validate

/-! ### sequencing -/

theorem bind_ok_iff {a : Res} {k : Unit → Res} :
    (a >>= k) = .ok () ↔ a = .ok () ∧ k () = .ok () := by
  cases a with
  | ok u => cases u; simp [bind, Except.bind]
  | error e => simp [bind, Except.bind]

theorem bind_err_iff {a : Res} {k : Unit → Res} {e : Rej} :
    (a >>= k) = .error e ↔ a = .error e ∨ (a = .ok () ∧ k () = .error e) := by
  cases a with
  | ok u => cases u; simp [bind, Except.bind]
  | error e' => simp [bind, Except.bind]

theorem res_cases (a : Res) : a = .ok () ∨ ∃ e, a = .error e := by
  cases a with
  | ok u => cases u; exact Or.inl rfl
  | error e => exact Or.inr ⟨e, rfl⟩

/-! ### nominators -/

theorem nominate_err {n : Nominator} {c : Obj} {e : Rej} (h : nominate n c = .error e) :
    e = .candidateError := by
  cases n <;> simp only [nominate] at h <;> (repeat' split at h) <;> simp_all

theorem nominate_ok_isCand {n : Nominator} {c : Obj} (h : nominate n c = .ok ()) :
    c.isStr = true ∨ c.isCandObj = true := by
  cases n with
  | basic ab =>
    simp only [nominate] at h
    split at h
    · cases h
    · rename_i h1
      cases hs : c.isStr <;> simp_all
  | person ai ab =>
    simp only [nominate] at h
    split at h
    · cases h
    · rename_i h1
      right
      cases c <;> simp_all [Obj.isIndividual, Obj.isCandObj]
  | party ac ab =>
    simp only [nominate] at h
    cases c <;> simp_all [Obj.isBlank, Obj.isElectionParty, Obj.isCandObj]

theorem nominate_ok_hashable {n : Nominator} {c : Obj} (h : nominate n c = .ok ()) :
    c.hashable = true := by
  rcases nominate_ok_isCand h with h | h <;> cases c <;> simp_all [Obj.isStr, Obj.isCandObj, Obj.hashable]

theorem hashableL_iff {xs : List Obj} : hashableL xs = true ↔ ∀ x ∈ xs, x.hashable = true := by
  induction xs with
  | nil => simp [hashableL, Obj.hashable.hashableL]
  | cons x xs ih =>
    simp only [hashableL] at ih
    simp [hashableL, Obj.hashable.hashableL, ih]

theorem wfL_iff {xs : List Obj} : Obj.wf.wfL xs = true ↔ ∀ x ∈ xs, x.wf = true := by
  induction xs with
  | nil => simp [Obj.wf.wfL]
  | cons x xs ih => simp [Obj.wf.wfL, ih]

/-! ### bounds -/

theorem check_ok_iff {b : Bounds} {x : Rat} :
    b.check x = .ok () ↔ (∀ l ∈ b.lo, l ≤ x) ∧ (∀ h ∈ b.hi, x ≤ h) := by
  obtain ⟨lo, hi⟩ := b
  cases lo <;> cases hi <;> simp [Bounds.check, Bounds.isValid]

theorem check_err {b : Bounds} {x : Rat} {e : Rej} (h : b.check x = .error e) : e = .voteError := by
  simp only [Bounds.check] at h
  split at h
  · cases h
  · cases h; rfl

/-! ### forEach -/

theorem forEach_ok_iff {f : Obj → Res} {xs : List Obj} :
    forEach f xs = .ok () ↔ ∀ x ∈ xs, f x = .ok () := by
  induction xs with
  | nil => simp [forEach]
  | cons x xs ih =>
    simp only [forEach, List.mem_cons, forall_eq_or_imp]
    rcases res_cases (f x) with h | ⟨e, h⟩
    · rw [h]; simp [ih]
    · rw [h]; simp

theorem forEach_err {f : Obj → Res} {xs : List Obj} {e : Rej} (h : forEach f xs = .error e) :
    ∃ x ∈ xs, f x = .error e := by
  induction xs with
  | nil => simp [forEach] at h
  | cons x xs ih =>
    simp only [forEach] at h
    rcases res_cases (f x) with h1 | ⟨e', h1⟩
    · rw [h1] at h
      obtain ⟨y, hy, hf⟩ := ih h
      exact ⟨y, List.mem_cons_of_mem _ hy, hf⟩
    · rw [h1] at h
      cases h
      exact ⟨x, List.mem_cons_self, h1⟩

/-- a loop raises `e` iff some element raises it and everything before it passed -/
theorem forEach_err_iff {f : Obj → Res} {xs : List Obj} {e : Rej} :
    forEach f xs = .error e ↔
      ∃ pre x post, xs = pre ++ x :: post ∧ (∀ y ∈ pre, f y = .ok ()) ∧ f x = .error e := by
  induction xs with
  | nil => simp [forEach]
  | cons a as ih =>
    simp only [forEach]
    rcases res_cases (f a) with h | ⟨e', h⟩
    · rw [h]
      simp only
      rw [ih]
      constructor
      · rintro ⟨pre, x, post, rfl, h1, h2⟩
        refine ⟨a :: pre, x, post, rfl, ?_, h2⟩
        intro y hy
        rcases List.mem_cons.1 hy with rfl | hy
        · exact h
        · exact h1 y hy
      · rintro ⟨pre, x, post, he, h1, h2⟩
        cases pre with
        | nil =>
          simp only [List.nil_append, List.cons.injEq] at he
          obtain ⟨rfl, rfl⟩ := he
          rw [h] at h2; cases h2
        | cons b pre =>
          simp only [List.cons_append, List.cons.injEq] at he
          obtain ⟨rfl, rfl⟩ := he
          exact ⟨pre, x, post, rfl, fun y hy => h1 y (List.mem_cons_of_mem _ hy), h2⟩
    · rw [h]
      simp only [Except.error.injEq]
      constructor
      · rintro rfl
        exact ⟨[], a, as, rfl, by simp, h⟩
      · rintro ⟨pre, x, post, he, h1, h2⟩
        cases pre with
        | nil =>
          simp only [List.nil_append, List.cons.injEq] at he
          obtain ⟨rfl, rfl⟩ := he
          rw [h] at h2
          simpa using h2
        | cons b pre =>
          simp only [List.cons_append, List.cons.injEq] at he
          obtain ⟨rfl, rfl⟩ := he
          have := h1 _ List.mem_cons_self
          rw [h] at this; cases this

/-! ### dedup -/

theorem mem_dedup {x : Obj} {l : List Obj} : x ∈ dedup l ↔ x ∈ l := by
  induction l with
  | nil => simp [dedup]
  | cons y ys ih =>
    simp only [dedup]
    split
    · rename_i hy
      rw [ih, List.mem_cons]
      constructor
      · exact Or.inr
      · rintro (rfl | h)
        · exact hy
        · exact h
    · simp [ih]

theorem dedup_length_le (l : List Obj) : (dedup l).length ≤ l.length := by
  induction l with
  | nil => simp [dedup]
  | cons y ys ih =>
    simp only [dedup]
    split
    · simp; omega
    · simp; omega

theorem dedup_nodup (l : List Obj) : (dedup l).Nodup := by
  induction l with
  | nil => simp [dedup]
  | cons y ys ih =>
    simp only [dedup]
    split
    · exact ih
    · rename_i hy
      exact List.nodup_cons.2 ⟨fun h => hy (mem_dedup.1 h), ih⟩

/-- the duplicate test of the validators: `len(set(l)) < len(l)` iff some member is repeated -/
theorem dedup_length_lt_iff (l : List Obj) : (dedup l).length < l.length ↔ ¬ l.Nodup := by
  induction l with
  | nil => simp [dedup]
  | cons y ys ih =>
    simp only [dedup, List.nodup_cons, not_and_or, not_not]
    split
    · rename_i hy
      have := dedup_length_le ys
      simp only [List.length_cons]
      constructor
      · intro _; exact Or.inl hy
      · intro _; omega
    · rename_i hy
      simp only [List.length_cons, Nat.add_lt_add_iff_right, ih]
      constructor
      · exact Or.inr
      · rintro (h | h)
        · exact absurd h hy
        · exact h

theorem dedup_length_not_lt_iff (l : List Obj) : ¬ (dedup l).length < l.length ↔ l.Nodup := by
  rw [dedup_length_lt_iff, not_not]

theorem nodupB_iff {l : List Obj} : nodupB l = true ↔ l.Nodup := by
  induction l with
  | nil => simp [nodupB]
  | cons y ys ih => simp [nodupB, ih]

/-! ### the ranked loop -/

/-- candidates named at one rank, as the code sees it: the members of any set, else the item itself -/
def rankMembers (item : Obj) : List Obj :=
  match item.asSet with
  | some xs => xs
  | none => [item]

/-- what the loop demands of one rank (besides the bound): a non-set item passes the nominator,
    a set's members are hashable -/
def rankItemOk (nom : Nominator) (item : Obj) : Prop :=
  match item.asSet with
  | some xs => hashableL xs = true
  | none => nominate nom item = .ok ()

theorem rankedLoop_ok_iff (cfg : RankedCfg) (items : List Obj) :
    ∀ (i total : Nat) (all : List Obj) (t : Nat) (a : List Obj),
    rankedLoop cfg i items total all = .ok (t, a) ↔
      ((∀ p ∈ items.zipIdx i, (cfg.rank.get (p.2 + 1)).check ((rankMembers p.1).length : Nat) = .ok ()) ∧
       (∀ r ∈ items, rankItemOk cfg.nom r) ∧
       t = total + (items.flatMap rankMembers).length ∧
       a = all ++ items.flatMap rankMembers) := by
  induction items with
  | nil =>
    intro i total all t a
    simp only [rankedLoop, List.zipIdx_nil, List.not_mem_nil, false_imp_iff, implies_true, true_and,
      List.flatMap_nil, List.length_nil, Nat.add_zero, List.append_nil, Except.ok.injEq, Prod.mk.injEq]
    constructor
    · rintro ⟨rfl, rfl⟩; exact ⟨rfl, rfl⟩
    · rintro ⟨rfl, rfl⟩; exact ⟨rfl, rfl⟩
  | cons item rest ih =>
    intro i total all t a
    simp only [List.zipIdx_cons, List.mem_cons, forall_eq_or_imp, List.flatMap_cons, List.length_append]
    cases hs : item.asSet with
    | some xs =>
      have hm : rankMembers item = xs := by simp [rankMembers, hs]
      have hok : rankItemOk cfg.nom item ↔ hashableL xs = true := by simp [rankItemOk, hs]
      rw [rankedLoop, hs]
      simp only [hm, hok]
      rcases res_cases ((cfg.rank.get (i+1)).check (xs.length : Nat)) with hc | ⟨e, hc⟩
      · rw [hc]
        by_cases hh : hashableL xs = true
        · simp only [hh, Bool.not_true, Bool.false_eq_true, if_false, true_and]
          rw [ih]
          simp only [Nat.add_assoc, List.append_assoc]
        · simp [hh]
      · rw [hc]; simp
    | none =>
      have hm : rankMembers item = [item] := by simp [rankMembers, hs]
      have hok : rankItemOk cfg.nom item ↔ nominate cfg.nom item = .ok () := by simp [rankItemOk, hs]
      rw [rankedLoop, hs]
      simp only [hm, hok, List.length_singleton, Nat.cast_one]
      rcases res_cases (nominate cfg.nom item) with hn | ⟨e, hn⟩
      · rw [hn]
        have hh := nominate_ok_hashable hn
        rcases res_cases ((cfg.rank.get (i+1)).check 1) with hc | ⟨e, hc⟩
        · rw [hc]
          simp only [hh, Bool.not_true, Bool.false_eq_true, if_false, true_and]
          rw [ih]
          constructor
          · rintro ⟨h1, h2, h3, h4⟩
            exact ⟨h1, h2, by rw [h3]; omega,
              by rw [h4]; simp only [List.append_assoc]⟩
          · rintro ⟨h1, h2, h3, h4⟩
            exact ⟨h1, h2, by rw [h3]; omega,
              by rw [h4]; simp only [List.append_assoc]⟩
        · rw [hc]
          constructor
          · intro h; cases h
          · rintro ⟨⟨h1, _⟩, _⟩; cases h1
      · rw [hn]
        constructor
        · intro h; cases h
        · rintro ⟨_, ⟨h1, _⟩, _⟩; cases h1

/-- which error classes the loop can produce: TypeError only from an unhashable member of a set item -/
theorem rankedLoop_err (cfg : RankedCfg) (items : List Obj) :
    ∀ (i total : Nat) (all : List Obj) (e : Rej),
    rankedLoop cfg i items total all = .error e →
      e = .voteError ∨ e = .candidateError ∨
      (e = .typeError ∧ ∃ r ∈ items, ∃ xs, r.asSet = some xs ∧ hashableL xs = false) := by
  induction items with
  | nil => intro i total all e h; simp [rankedLoop] at h
  | cons item rest ih =>
    intro i total all e h
    rw [rankedLoop] at h
    cases hs : item.asSet with
    | some xs =>
      rw [hs] at h
      simp only at h
      rcases res_cases ((cfg.rank.get (i+1)).check (xs.length : Nat)) with hc | ⟨e', hc⟩
      · rw [hc] at h
        simp only at h
        by_cases hh : hashableL xs = true
        · simp only [hh, Bool.not_true, Bool.false_eq_true, if_false] at h
          rcases ih _ _ _ _ h with h1 | h1 | ⟨h1, r, hr, ys, hy⟩
          · exact Or.inl h1
          · exact Or.inr (Or.inl h1)
          · exact Or.inr (Or.inr ⟨h1, r, List.mem_cons_of_mem _ hr, ys, hy⟩)
        · simp only [hh, Bool.not_false, if_true] at h
          cases h
          exact Or.inr (Or.inr ⟨rfl, item, List.mem_cons_self, xs, hs, by simpa using hh⟩)
      · rw [hc] at h
        simp only at h
        cases h
        exact Or.inl (check_err hc)
    | none =>
      rw [hs] at h
      simp only at h
      rcases res_cases (nominate cfg.nom item) with hn | ⟨e', hn⟩
      · rw [hn] at h
        simp only at h
        rcases res_cases ((cfg.rank.get (i+1)).check 1) with hc | ⟨e', hc⟩
        · rw [hc] at h
          simp only [nominate_ok_hashable hn, Bool.not_true, Bool.false_eq_true, if_false] at h
          rcases ih _ _ _ _ h with h1 | h1 | ⟨h1, r, hr, ys, hy⟩
          · exact Or.inl h1
          · exact Or.inr (Or.inl h1)
          · exact Or.inr (Or.inr ⟨h1, r, List.mem_cons_of_mem _ hr, ys, hy⟩)
        · rw [hc] at h
          simp only at h
          cases h
          exact Or.inl (check_err hc)
      · rw [hn] at h
        simp only at h
        cases h
        exact Or.inr (Or.inl (nominate_err hn))

/-! ### the score-item loop -/

theorem scoreItems_ok_iff {nom : Nominator} {items : List Obj} :
    scoreItems nom items = .ok () ↔
      ∀ it ∈ items, ∃ c s, it = .tuple [c, s] ∧ nominate nom c = .ok () := by
  induction items with
  | nil => simp [scoreItems]
  | cons it rest ih =>
    simp only [List.mem_cons, forall_eq_or_imp]
    cases it with
    | tuple ys =>
      rcases ys with _ | ⟨c, _ | ⟨s, _ | ⟨z, zs⟩⟩⟩
      · simp [scoreItems]
      · simp [scoreItems]
      · rcases res_cases (nominate nom c) with hn | ⟨e, hn⟩
        · simp [scoreItems, hn, ih]
        · simp [scoreItems, hn]
      · simp [scoreItems]
    | _ => simp [scoreItems]

theorem scoreItems_err {nom : Nominator} {items : List Obj} {e : Rej}
    (h : scoreItems nom items = .error e) : e = .voteError ∨ e = .candidateError := by
  induction items with
  | nil => simp [scoreItems] at h
  | cons it rest ih =>
    cases it with
    | tuple ys =>
      rcases ys with _ | ⟨c, _ | ⟨s, _ | ⟨z, zs⟩⟩⟩
      · simp [scoreItems] at h; exact Or.inl h.symm
      · simp [scoreItems] at h; exact Or.inl h.symm
      · rcases res_cases (nominate nom c) with hn | ⟨e', hn⟩
        · simp only [scoreItems, hn] at h; exact ih h
        · simp only [scoreItems, hn, Except.error.injEq] at h
          subst h
          exact Or.inr (nominate_err hn)
      · simp [scoreItems] at h; exact Or.inl h.symm
    | _ => simp [scoreItems] at h; exact Or.inl h.symm

theorem asPair_eq_some {it c s : Obj} : it.asPair = some (c, s) ↔ it = .tuple [c, s] := by
  constructor
  · intro h
    unfold Obj.asPair at h
    split at h
    · cases h; rfl
    · cases h
  · rintro rfl; rfl

/-! ### sums of scores -/

def Obj.isNum : Obj → Bool | .num _ => true | _ => false
def Obj.numVal : Obj → Rat | .num x => x | _ => 0

theorem sumScores_eq_some {l : List Obj} {s : Rat} :
    sumScores l = some s ↔ (∀ x ∈ l, x.isNum = true) ∧ s = (l.map Obj.numVal).sum := by
  induction l generalizing s with
  | nil =>
    simp only [sumScores, Option.some.injEq, List.not_mem_nil, false_imp_iff, implies_true, true_and,
      List.map_nil, List.sum_nil]
    exact eq_comm
  | cons x xs ih =>
    cases x with
    | num q =>
      simp only [sumScores, Option.map_eq_some_iff, List.mem_cons, forall_eq_or_imp, Obj.isNum, true_and,
        List.map_cons, List.sum_cons, Obj.numVal]
      constructor
      · rintro ⟨a, ha, rfl⟩
        obtain ⟨h1, rfl⟩ := ih.1 ha
        exact ⟨h1, rfl⟩
      · rintro ⟨h1, rfl⟩
        exact ⟨_, ih.2 ⟨h1, rfl⟩, rfl⟩
    | _ => simp [sumScores, Obj.isNum]

theorem sumScores_eq_none {l : List Obj} : sumScores l = none ↔ ∃ x ∈ l, x.isNum = false := by
  induction l with
  | nil => simp [sumScores]
  | cons x xs ih =>
    cases x with
    | num q => simp only [sumScores, Option.map_eq_none_iff, ih, List.mem_cons, exists_eq_or_imp, Obj.isNum,
        Bool.true_eq_false, false_or]
    | _ => simp [sumScores, Obj.isNum]

/-! ### the eliminator -/

theorem eliminate_ok {v : Obj → Res} {votes out : List (Obj × Rat)}
    (h : eliminate v votes = .ok out) :
    out = votes.filter (fun p => decide (v p.1 = .ok ())) ∧
    ∀ p ∈ votes, v p.1 ≠ .error .typeError := by
  induction votes generalizing out with
  | nil => simp [eliminate] at h; simp [h]
  | cons p rest ih =>
    obtain ⟨k, n⟩ := p
    rw [eliminate] at h
    rcases res_cases (v k) with hk | ⟨e, hk⟩
    · rw [hk] at h
      simp only at h
      cases hr : eliminate v rest with
      | ok out' =>
        rw [hr] at h
        simp only [Except.ok.injEq] at h
        obtain ⟨h1, h2⟩ := ih hr
        subst h
        refine ⟨by simp [hk, h1], ?_⟩
        intro p hp
        rcases List.mem_cons.1 hp with rfl | hp
        · simp [hk]
        · exact h2 p hp
      | error e => rw [hr] at h; cases h
    · rw [hk] at h
      cases e with
      | voteError =>
        simp only at h
        obtain ⟨h1, h2⟩ := ih h
        refine ⟨by simp [hk, h1], ?_⟩
        intro p hp
        rcases List.mem_cons.1 hp with rfl | hp
        · simp [hk]
        · exact h2 p hp
      | candidateError =>
        simp only at h
        obtain ⟨h1, h2⟩ := ih h
        refine ⟨by simp [hk, h1], ?_⟩
        intro p hp
        rcases List.mem_cons.1 hp with rfl | hp
        · simp [hk]
        · exact h2 p hp
      | typeError => simp at h

theorem eliminate_of_library_errors {v : Obj → Res} {votes : List (Obj × Rat)}
    (h : ∀ p ∈ votes, v p.1 ≠ .error .typeError) :
    eliminate v votes = .ok (votes.filter (fun p => decide (v p.1 = .ok ()))) := by
  induction votes with
  | nil => simp [eliminate]
  | cons p rest ih =>
    obtain ⟨k, n⟩ := p
    have hrest := ih (fun p hp => h p (List.mem_cons_of_mem _ hp))
    have hk0 := h (k, n) List.mem_cons_self
    rw [eliminate]
    rcases res_cases (v k) with hk | ⟨e, hk⟩
    · rw [hk]; simp [hrest, hk]
    · rw [hk]
      cases e with
      | voteError => simp [hrest, hk]
      | candidateError => simp [hrest, hk]
      | typeError => exact absurd hk hk0

end VL.Validate
