/-
  Copeland is Smith-efficient: every member of a dominating set has a strictly higher Copeland score
  (wins − losses) than every outsider, so a candidate with maximal score lies in the Smith set.
-/
import VotelibProofs.Lemmas.Schulze
import VotelibProofs.Lemmas.SmithModel
namespace VL.Condorcet
open VL

theorem lossesOf_eq_filter {v : Pairwise} (hwf : WF v) (c : Cand) :
    lossesOf (pairwiseWins v false) c = ((candidates v).filter (fun o => decide (Beats v o c))).length := by
  have h1 : lossesOf (pairwiseWins v false) c =
      (((pairwiseWins v false).filter (fun w => w.2 = c)).map (·.1)).length := by simp [lossesOf]
  rw [h1]
  apply List.Perm.length_eq
  rw [List.perm_ext_iff_of_nodup]
  · intro o
    simp only [List.mem_map, List.mem_filter, decide_eq_true_eq]
    constructor
    · rintro ⟨⟨a, b⟩, ⟨hw, hb⟩, ha⟩
      simp only at ha hb
      subst ha; subst hb
      have := (mem_pairwiseWins hwf).1 hw
      exact ⟨(this.mem hwf).1, this⟩
    · rintro ⟨_, hb⟩
      exact ⟨(o, c), ⟨(mem_pairwiseWins hwf).2 hb, rfl⟩, rfl⟩
  · apply List.Nodup.map_on
    · rintro ⟨a, b⟩ ha ⟨a', b'⟩ ha' haa
      simp only [List.mem_filter, decide_eq_true_eq] at ha ha'
      simp only at haa
      rw [Prod.mk.injEq]
      exact ⟨haa, ha.2.trans ha'.2.symm⟩
    · exact (nodup_pairwiseWins hwf false).filter _
  · exact (nodup_candidates v).filter _

theorem filter_length_mono {l : List Cand} {P Q : Cand → Bool} (h : ∀ x ∈ l, P x = true → Q x = true) :
    (l.filter P).length ≤ (l.filter Q).length := by
  induction l with
  | nil => simp
  | cons x xs ih =>
    have ih' := ih (fun y hy => h y (List.mem_cons_of_mem _ hy))
    have hx := h x (by simp)
    simp only [List.filter_cons]
    cases hP : P x <;> cases hQ : Q x <;> simp_all <;> omega

theorem filter_length_add_not (l : List Cand) (P : Cand → Bool) :
    (l.filter P).length + (l.filter (fun x => !P x)).length = l.length := by
  have := List.length_eq_length_filter_add (l := l) P
  simpa using this.symm

/-- strict version: some member satisfies `Q` but not `P` -/
theorem filter_length_lt {l : List Cand} (hl : l.Nodup) {P Q : Cand → Bool} (h : ∀ x ∈ l, P x = true → Q x = true)
    {a : Cand} (ha : a ∈ l) (hQa : Q a = true) (hPa : P a = false) :
    (l.filter P).length + 1 ≤ (l.filter Q).length := by
  have h1 : (l.filter P).length ≤ ((l.filter Q).filter (fun x => decide (x ≠ a))).length := by
    rw [List.filter_filter]
    apply filter_length_mono
    intro x hx hPx
    simp only [Bool.and_eq_true, decide_eq_true_eq]
    refine ⟨?_, h x hx hPx⟩
    rintro rfl
    rw [hPa] at hPx
    exact Bool.false_ne_true hPx
  have h2 := (filter_length_eq_pred (hl.filter Q) (List.mem_filter.2 ⟨ha, hQa⟩) (fun x => decide (x ≠ a))
    (by simp)).2 (fun o _ hne => by simpa using hne)
  omega

/-- **members of a dominating set outscore outsiders** -/
theorem copeland_dominating_gt {v : Pairwise} (hwf : WF v) {S : Cand → Prop} [DecidablePred S]
    (hS : Graph.Dominating (candidates v) (Beats v) S) {s o : Cand} (hs : S s) (ho : o ∈ candidates v) (hno : ¬ S o) :
    getD (copelandScoresRaw (pairwiseWins v false)) o 0 < getD (copelandScoresRaw (pairwiseWins v false)) s 0 := by
  rw [getD_copelandScoresRaw, getD_copelandScoresRaw, winsBy_eq_filter hwf, winsBy_eq_filter hwf,
    lossesOf_eq_filter hwf, lossesOf_eq_filter hwf]
  set cands := candidates v with hc
  have hnd := nodup_candidates v
  have hsc : s ∈ cands := hS.1 s hs
  -- the four counts against the size of S
  have hin_out := filter_length_add_not cands (fun x => decide (S x))
  -- s beats every outsider
  have hWs : (cands.filter (fun x => !decide (S x))).length ≤ (cands.filter (fun x => decide (Beats v s x))).length := by
    apply filter_length_mono
    intro x hx hnx
    simp only [Bool.not_eq_true', decide_eq_false_iff_not] at hnx
    simpa using hS.2 s x hs hx hnx
  -- whoever beats s is a member other than s
  have hLs : (cands.filter (fun x => decide (Beats v x s))).length + 1 ≤ (cands.filter (fun x => decide (S x))).length := by
    apply filter_length_lt hnd _ hsc (by simpa using hs) (by simp [Beats])
    intro x hx hb
    simp only [decide_eq_true_eq] at hb ⊢
    by_contra hnx
    exact (hS.2 s x hs hx hnx).asymm hb
  -- every member beats o
  have hLo : (cands.filter (fun x => decide (S x))).length ≤ (cands.filter (fun x => decide (Beats v x o))).length := by
    apply filter_length_mono
    intro x hx hSx
    simp only [decide_eq_true_eq] at hSx
    simpa using hS.2 x o hSx ho hno
  -- o beats outsiders other than itself only
  have hWo : (cands.filter (fun x => decide (Beats v o x))).length + 1 ≤ (cands.filter (fun x => !decide (S x))).length := by
    apply filter_length_lt hnd _ ho (by simpa using hno) (by simp [Beats])
    intro x hx hb
    simp only [decide_eq_true_eq, Bool.not_eq_true', decide_eq_false_iff_not] at hb ⊢
    intro hSx
    exact (hS.2 x o hSx ho hno).asymm hb
  have e1 : (((cands.filter (fun x => decide (Beats v o x))).length : Nat) : Rat) + 1 ≤
      ((cands.filter (fun x => !decide (S x))).length : Rat) := by exact_mod_cast hWo
  have e2 : (((cands.filter (fun x => !decide (S x))).length : Nat) : Rat) ≤
      ((cands.filter (fun x => decide (Beats v s x))).length : Rat) := by exact_mod_cast hWs
  have e3 : (((cands.filter (fun x => decide (Beats v x s))).length : Nat) : Rat) + 1 ≤
      ((cands.filter (fun x => decide (S x))).length : Rat) := by exact_mod_cast hLs
  have e4 : (((cands.filter (fun x => decide (S x))).length : Nat) : Rat) ≤
      ((cands.filter (fun x => decide (Beats v x o))).length : Rat) := by exact_mod_cast hLo
  linarith

/-- a candidate whose Copeland score nobody exceeds lies in the Smith set -/
theorem copeland_max_in_smith {v : Pairwise} (hwf : WF v) {c : Cand} (hc : c ∈ candidates v)
    (hmax : ∀ o ∈ candidates v, getD (copelandScoresRaw (pairwiseWins v false)) o 0 ≤
      getD (copelandScoresRaw (pairwiseWins v false)) c 0) : c ∈ smithSet v := by
  by_contra hnot
  have hdom : Graph.Dominating (candidates v) (Beats v) (fun x => x ∈ smithSet v) := by
    have : (fun x => x ∈ smithSet v) = Graph.SmithReach (candidates v) (Beats v) :=
      funext fun x => propext (mem_smithSet hwf x)
    rw [this]; exact Graph.smithReach_dominating
  obtain ⟨s, hs⟩ := Graph.smithReach_nonempty (cands := candidates v) (B := Beats v)
    (fun _ _ h => Beats.asymm h) (List.ne_nil_of_mem hc)
  have hs' : s ∈ smithSet v := (mem_smithSet hwf s).2 hs
  have hlt := copeland_dominating_gt hwf hdom hs' hc hnot
  have hle := hmax s hs.1
  linarith

/-! ### Schulze is Smith-efficient -/

theorem rmin_le_left (a b : Rat) : rmin a b ≤ a := by
  unfold rmin; split
  · exact le_of_lt ‹_›
  · exact le_refl _

/-- invariants of the path dictionary for a dominating set `S`: no path from an outsider into `S` has
    positive strength, every direct win of a member over an outsider keeps a positive strength -/
theorem widestPaths_dominating_inv {v : Pairwise} (hwf : WF v) {S : Cand → Prop} [DecidablePred S]
    (hS : Graph.Dominating (candidates v) (Beats v) S) :
    (pkeys (widestPaths v)).Nodup ∧ (∀ o s, ¬ S o → S s → pget (widestPaths v) (o, s) ≤ 0) ∧
      (∀ s o, S s → o ∈ candidates v → ¬ S o → 0 < pget (widestPaths v) (s, o)) := by
  apply widestPaths_preserves v (fun p => (pkeys p).Nodup ∧ (∀ o s, ¬ S o → S s → pget p (o, s) ≤ 0) ∧
      (∀ s o, S s → o ∈ candidates v → ¬ S o → 0 < pget p (s, o)))
  · have hnd : (pkeys (v.filter (fun e => decide (pget v (e.1.2, e.1.1) < e.2)))).Nodup :=
      hwf.1.sublist (List.Sublist.map _ List.filter_sublist)
    refine ⟨hnd, ?_, ?_⟩
    · intro o s hno hs
      rcases pget_mem_or_zero (v.filter (fun e => decide (pget v (e.1.2, e.1.1) < e.2))) (o, s) with h | ⟨_, h⟩
      · exfalso
        obtain ⟨hv, hlt⟩ := List.mem_filter.1 h
        simp only [decide_eq_true_eq] at hlt
        have ho : o ∈ candidates v := fst_mem_candidates hv
        have hb := hS.2 s o hs ho hno
        have hval := pget_of_mem hwf.1 hv
        rw [← hval] at hlt
        exact lt_asymm hb hlt
      · rw [h]
    · intro s o hs ho hno
      have hb := hS.2 s o hs ho hno
      have hpos : 0 < pget v (s, o) := lt_of_le_of_lt (pget_nonneg hwf _) hb
      have hmem : ((s, o), pget v (s, o)) ∈ v.filter (fun e => decide (pget v (e.1.2, e.1.1) < e.2)) :=
        List.mem_filter.2 ⟨pget_pos_mem hpos, by simpa [Beats] using hb⟩
      rw [pget_of_mem hnd hmem]
      exact hpos
  · rintro p c1 c2 ca _ _ _ _ _ ⟨hnd, hin, hout⟩
    refine ⟨nodup_pkeys_pset hnd _ _, ?_, ?_⟩
    · intro o s hno hs
      rw [pget_pset]
      split
      · rename_i heq
        simp only [Prod.mk.injEq] at heq
        obtain ⟨rfl, rfl⟩ := heq
        refine rmax_le (hin _ _ hno hs) ?_
        by_cases hc1 : S c1
        · exact le_trans (rmin_le_left _ _) (hin _ _ hno hc1)
        · exact le_trans (rmin_le_right _ _) (hin _ _ hc1 hs)
      · exact hin o s hno hs
    · intro s o hs ho hno
      rw [pget_pset]
      split
      · rename_i heq
        simp only [Prod.mk.injEq] at heq
        obtain ⟨rfl, rfl⟩ := heq
        exact lt_of_lt_of_le (hout _ _ hs ho hno) (rmax_ge_left _ _)
      · exact hout s o hs ho hno

/-- members of a dominating set win strictly more strongest-path comparisons than outsiders -/
theorem schulze_dominating_gt {v : Pairwise} (hwf : WF v) {S : Cand → Prop} [DecidablePred S]
    (hS : Graph.Dominating (candidates v) (Beats v) S) {s o : Cand} (hs : S s) (ho : o ∈ candidates v) (hno : ¬ S o) :
    winsBy (pairwiseWins (widestPaths v) false) o < winsBy (pairwiseWins (widestPaths v) false) s := by
  obtain ⟨hnd, hin, hout⟩ := widestPaths_dominating_inv hwf hS
  have hkin := widestPaths_keys_in v
  have hwnd := nodup_pairwiseWins_of_nodup hnd false
  have hge := winsBy_ge_filter (wins := pairwiseWins (widestPaths v) false) (nodup_candidates v) s
    (fun x => !decide (S x)) (by
      intro x hx hq
      simp only [Bool.not_eq_true', decide_eq_false_iff_not] at hq
      rw [mem_pairwiseWins_of_nodup hnd]
      have hpos := hout s x hs hx hq
      exact ⟨List.mem_map.2 ⟨_, pget_pos_mem hpos, rfl⟩, lt_of_le_of_lt (hin x s hq hs) hpos⟩)
  have hle := winsBy_le_filter (wins := pairwiseWins (widestPaths v) false) hwnd (cands := candidates v) o
    (fun x => !decide (S x) && decide (x ≠ o)) (by
      intro x hx
      have hxc := (hkin _ (mem_pairwiseWins_key hx)).2
      refine ⟨hxc, ?_⟩
      rw [mem_pairwiseWins_of_nodup hnd] at hx
      simp only [Bool.and_eq_true, Bool.not_eq_true', decide_eq_false_iff_not, decide_eq_true_eq]
      constructor
      · intro hSx
        have h1 := hin o x hno hSx
        have h2 := hout x o hSx ho hno
        linarith [hx.2]
      · rintro rfl; exact lt_irrefl _ hx.2)
  have hlt := filter_length_lt (nodup_candidates v) (P := fun x => !decide (S x) && decide (x ≠ o))
    (Q := fun x => !decide (S x)) (fun x _ h => by
      simp only [Bool.and_eq_true] at h; exact h.1) ho (by simpa using hno) (by simp)
  omega

/-- every candidate Schulze names for a single seat lies in the Smith set -/
theorem schulze_first_in_smith {v : Pairwise} (hwf : WF v) :
    ∀ s ∈ schulze v 1, ∀ c ∈ slotMembers s, c ∈ smithSet v := by
  intro sl hsl c hc
  unfold schulze at hsl
  simp only at hsl
  set scores := (pairwiseWins (widestPaths v) false).foldl (fun d w => incr (incr d w.1 1) w.2 0)
    ((candidates v).map (fun c => (c, (0 : Rat)))) with hscores
  have hkeys : keys scores = candidates v := keys_schulzeScores v
  have hknd : (keys scores).Nodup := by rw [hkeys]; exact nodup_candidates v
  have hval : ∀ c, getD scores c 0 = (winsBy (pairwiseWins (widestPaths v) false) c : Rat) := by
    intro c
    rw [hscores, getD_schulzeFold, getD_zeroDict]; ring
  obtain ⟨x, hcx, hmax⟩ := getNBest_one_max scores sl hsl c hc
  have hcc : c ∈ candidates v := by rw [← hkeys]; exact List.mem_map.2 ⟨(c, x), hcx, rfl⟩
  by_contra hnot
  have hdom : Graph.Dominating (candidates v) (Beats v) (fun x => x ∈ smithSet v) := by
    have : (fun x => x ∈ smithSet v) = Graph.SmithReach (candidates v) (Beats v) :=
      funext fun x => propext (mem_smithSet hwf x)
    rw [this]; exact Graph.smithReach_dominating
  obtain ⟨s, hs⟩ := Graph.smithReach_nonempty (cands := candidates v) (B := Beats v)
    (fun _ _ h => Beats.asymm h) (List.ne_nil_of_mem hcc)
  have hs' : s ∈ smithSet v := (mem_smithSet hwf s).2 hs
  have hlt := schulze_dominating_gt hwf hdom hs' hcc hnot
  obtain ⟨es, hes, hes1⟩ : ∃ e ∈ scores, e.1 = s := by
    have : s ∈ keys scores := by rw [hkeys]; exact hs.1
    obtain ⟨e, he, h⟩ := List.mem_map.1 this
    exact ⟨e, he, h⟩
  have h1 := hmax es hes
  rw [mem_getD_of_key hknd hes, hes1, hval] at h1
  have h2 := mem_getD_of_key hknd hcx
  simp only at h2
  rw [hval] at h2
  rw [h2] at h1
  have : winsBy (pairwiseWins (widestPaths v) false) s ≤ winsBy (pairwiseWins (widestPaths v) false) c := by
    exact_mod_cast h1
  omega

/-! ### members of the places of `copeland … 1` -/

theorem getNBest_members_keys (d : Votes) (n : Nat) :
    ∀ s ∈ getNBest d n, ∀ c ∈ slotMembers s, c ∈ keys d := by
  have hk : ∀ p ∈ sortDesc d, p.1 ∈ keys d := fun p hp => List.mem_map.2 ⟨p, mem_sortDesc.1 hp, rfl⟩
  intro s hs c hc
  unfold getNBest at hs
  simp only at hs
  split at hs
  · split at hs
    · split at hs
      · rcases List.mem_append.1 hs with h | h
        · obtain ⟨p, hp, rfl⟩ := List.mem_map.1 h
          simp only [slotMembers, List.mem_singleton] at hc
          subst hc
          exact hk p (List.mem_of_mem_take hp)
        · have := List.eq_of_mem_replicate h
          subst this
          simp only [slotMembers, List.mem_map, List.mem_filter] at hc
          obtain ⟨p, ⟨hp, _⟩, rfl⟩ := hc
          exact hk p hp
      · obtain ⟨p, hp, rfl⟩ := List.mem_map.1 hs
        simp only [slotMembers, List.mem_singleton] at hc
        subst hc
        exact hk p (List.mem_of_mem_take hp)
    · simp at hs
  · obtain ⟨p, hp, rfl⟩ := List.mem_map.1 hs
    simp only [slotMembers, List.mem_singleton] at hc
    subst hc
    exact hk p hp

theorem mem_insertSorted {c x : Cand} {l : List Cand} : x ∈ insertSorted c l ↔ x = c ∨ x ∈ l := by
  induction l with
  | nil => simp [insertSorted]
  | cons y ys ih =>
    unfold insertSorted
    split
    · simp
    · split
      · rename_i h; subst h; simp
      · simp only [List.mem_cons, ih]
        constructor
        · rintro (h | h | h)
          · exact Or.inr (Or.inl h)
          · exact Or.inl h
          · exact Or.inr (Or.inr h)
        · rintro (h | h | h)
          · exact Or.inr (Or.inl h)
          · exact Or.inl h
          · exact Or.inr (Or.inr h)

/-- the `tied` set of `break_second_order`: members of the tie places of `best` -/
def tiedOf (best : List Slot) : List Cand :=
  best.foldl (fun acc s => match s with
    | .tie cs => cs.foldl (fun a c => insertSorted c a) acc
    | .cand _ => acc) []

theorem mem_tiedFold (best : List Slot) (acc : List Cand) (x : Cand) :
    x ∈ best.foldl (fun acc s => match s with
      | .tie cs => cs.foldl (fun a c => insertSorted c a) acc
      | .cand _ => acc) acc → x ∈ acc ∨ ∃ s ∈ best, x ∈ slotMembers s := by
  induction best generalizing acc with
  | nil => intro h; exact Or.inl h
  | cons s ss ih =>
    intro h
    rw [List.foldl_cons] at h
    rcases ih _ h with h1 | ⟨s', hs', hx⟩
    · cases s with
      | cand c => exact Or.inl h1
      | tie cs =>
        simp only at h1
        have : ∀ (cs : List Cand) (a : List Cand), x ∈ cs.foldl (fun a c => insertSorted c a) a → x ∈ a ∨ x ∈ cs := by
          intro cs
          induction cs with
          | nil => intro a h; exact Or.inl h
          | cons y ys ih2 =>
            intro a h
            rw [List.foldl_cons] at h
            rcases ih2 _ h with h2 | h2
            · rcases mem_insertSorted.1 h2 with rfl | h3
              · exact Or.inr (by simp)
              · exact Or.inl h3
            · exact Or.inr (List.mem_cons_of_mem _ h2)
        rcases this cs acc h1 with h2 | h2
        · exact Or.inl h2
        · exact Or.inr ⟨Slot.tie cs, by simp, h2⟩
    · exact Or.inr ⟨s', List.mem_cons_of_mem _ hs', hx⟩

theorem keys_sosFold (tied : List Cand) (scores : Votes) (wins : List Pair) (d : Votes) (hd : keys d = tied) :
    keys (wins.foldl (fun d w => if tied.contains w.1 then incr d w.1 (getD scores w.2 0) else d) d) = tied := by
  apply foldl_preserves (fun d => keys d = tied) _ _ _ hd
  intro d w _ hd
  split
  · rename_i hc
    rw [keys_incr_of_mem (by rw [hd]; exact List.contains_iff_mem.1 hc), hd]
  · exact hd

/-- every candidate named by `break_second_order(best, …)` is named by `best` -/
theorem breakSecondOrder_members (best : List Slot) (scores : Votes) (wins : List Pair) :
    ∀ s ∈ breakSecondOrder best scores wins, ∀ c ∈ slotMembers s, ∃ s' ∈ best, c ∈ slotMembers s' := by
  intro s hs c hc
  unfold breakSecondOrder at hs
  simp only at hs
  rcases List.mem_append.1 hs with h | h
  · exact ⟨s, (List.mem_filter.1 h).1, hc⟩
  · have hk := getNBest_members_keys _ _ s h c hc
    rw [keys_sosFold _ _ _ _ (by simp [keys, List.map_map, Function.comp_def])] at hk
    rcases mem_tiedFold best [] c hk with h0 | h0
    · simp at h0
    · exact h0

end VL.Condorcet
