/-
  Helper lemmas for C12 (STAR): the Schulze run-off between two finalists is the pairwise majority comparison.
-/
import VotelibProofs.Lemmas.C12Spav
import VotelibModel.Score
namespace VL.Score
open VL VL.Appr

set_option linter.unusedSimpArgs false

theorem getNBest_pair (a b : Cand) (p q : Rat) :
    getNBest [(a, p), (b, q)] 1 =
      if q < p then [Slot.cand a] else if p < q then [Slot.cand b] else [Slot.tie [a, b]] := by
  rcases lt_trichotomy p q with h | h | h
  · have h' : ¬ q < p := not_lt.mpr (le_of_lt h)
    have hne : ¬ p = q := ne_of_lt h
    simp [getNBest, sortDesc, insertDesc, h, h', hne]
  · subst h
    simp [getNBest, sortDesc, insertDesc]
  · have h' : ¬ p < q := not_lt.mpr (le_of_lt h)
    have hne : ¬ q = p := ne_of_lt h
    simp [getNBest, sortDesc, insertDesc, h, h', hne]

/-- run-off of two finalists `a`, `b`, both pairwise entries present -/
theorem schulze_two_both (a b : Cand) (hab : a ≠ b) (x y : Int) (hx : 0 ≤ x) (hy : 0 ≤ y) :
    schulze [((a, b), x), ((b, a), y)] 1 =
      if y < x then [Slot.cand a] else if x < y then [Slot.cand b] else [Slot.tie [a, b]] := by
  have hne' : b ≠ a := fun h => hab h.symm
  rcases Nat.lt_or_gt_of_ne hab with hlt | hgt
  · have hba : ¬ b < a := Nat.not_lt.mpr (Nat.le_of_lt hlt)
    rcases lt_trichotomy x y with h | h | h
    · have h' : ¬ y < x := Int.not_lt.mpr (Int.le_of_lt h)
      have hy0 : 0 < y := by omega
      simp [schulze, schulzeScores, widestPaths, sortDedup, insertNat, hlt, hab, hne', hba, getPair, setPair, addVote, h, h', hy0, getNBest_pair]
    · subst h
      simp [schulze, schulzeScores, widestPaths, sortDedup, insertNat, hlt, hab, hne', hba, getPair, setPair, addVote, getNBest_pair]
    · have h' : ¬ x < y := Int.not_lt.mpr (Int.le_of_lt h)
      have hx0 : 0 < x := by omega
      simp [schulze, schulzeScores, widestPaths, sortDedup, insertNat, hlt, hab, hne', hba, getPair, setPair, addVote, h, h', hx0, getNBest_pair]
  · have hba : ¬ a < b := Nat.not_lt.mpr (Nat.le_of_lt hgt)
    rcases lt_trichotomy x y with h | h | h
    · have h' : ¬ y < x := Int.not_lt.mpr (Int.le_of_lt h)
      have hy0 : 0 < y := by omega
      simp [schulze, schulzeScores, widestPaths, sortDedup, insertNat, hgt, hab, hne', hba, getPair, setPair, addVote, h, h', hy0, getNBest_pair]
    · subst h
      simp [schulze, schulzeScores, widestPaths, sortDedup, insertNat, hgt, hab, hne', hba, getPair, setPair, addVote, getNBest_pair]
    · have h' : ¬ x < y := Int.not_lt.mpr (Int.le_of_lt h)
      have hx0 : 0 < x := by omega
      simp [schulze, schulzeScores, widestPaths, sortDedup, insertNat, hgt, hab, hne', hba, getPair, setPair, addVote, h, h', hx0, getNBest_pair]

/-- run-off of two finalists, only one pairwise entry present (nobody prefers `b` to `a`) -/
theorem schulze_two_single (a b : Cand) (hab : a ≠ b) (x : Int) (hx : 0 ≤ x) :
    schulze [((a, b), x)] 1 = if 0 < x then [Slot.cand a] else [Slot.tie [a, b]] := by
  have hne' : b ≠ a := fun h => hab h.symm
  rcases Nat.lt_or_gt_of_ne hab with hlt | hgt
  · have hba : ¬ b < a := Nat.not_lt.mpr (Nat.le_of_lt hlt)
    by_cases h : 0 < x
    · simp [schulze, schulzeScores, widestPaths, sortDedup, insertNat, hlt, hab, hne', hba, getPair, setPair, addVote, h, getNBest_pair]
    · have : x = 0 := by omega
      subst this
      simp [schulze, schulzeScores, widestPaths, sortDedup, insertNat, hlt, hab, hne', hba, getPair, setPair, addVote, getNBest_pair]
  · have hba : ¬ a < b := Nat.not_lt.mpr (Nat.le_of_lt hgt)
    by_cases h : 0 < x
    · simp [schulze, schulzeScores, widestPaths, sortDedup, insertNat, hgt, hab, hne', hba, getPair, setPair, addVote, h, getNBest_pair]
    · have : x = 0 := by omega
      subst this
      simp [schulze, schulzeScores, widestPaths, sortDedup, insertNat, hgt, hab, hne', hba, getPair, setPair, addVote, getNBest_pair]

/-- a non-empty pairwise table over two candidates has one of four shapes -/
theorem pair_shapes {pw : PairCounts} {a b : Cand} (hab : a ≠ b) (hne : pw ≠ [])
    (hnd : (pw.map (·.1)).Nodup) (hk : ∀ p ∈ pw, p.1 = (a, b) ∨ p.1 = (b, a)) :
    (∃ x, pw = [((a, b), x)]) ∨ (∃ y, pw = [((b, a), y)]) ∨
    (∃ x y, pw = [((a, b), x), ((b, a), y)]) ∨ (∃ x y, pw = [((b, a), y), ((a, b), x)]) := by
  have hne' : (a, b) ≠ (b, a) := by
    intro h; injection h with h1 _; exact hab h1
  rcases pw with _ | ⟨⟨k1, v1⟩, _ | ⟨⟨k2, v2⟩, _ | ⟨⟨k3, v3⟩, rest⟩⟩⟩
  · exact absurd rfl hne
  · rcases hk (k1, v1) (by simp) with h | h
    · left; exact ⟨v1, by simp only at h; rw [h]⟩
    · right; left; exact ⟨v1, by simp only at h; rw [h]⟩
  · have h1 := hk (k1, v1) (by simp)
    have h2 := hk (k2, v2) (by simp)
    simp only at h1 h2
    have hd : k1 ≠ k2 := by
      simp only [List.map_cons, List.map_nil, List.nodup_cons, List.mem_singleton] at hnd
      exact hnd.1
    rcases h1 with h1 | h1 <;> rcases h2 with h2 | h2
    · exact absurd (h1.trans h2.symm) hd
    · right; right; left; exact ⟨v1, v2, by rw [h1, h2]⟩
    · right; right; right; exact ⟨v2, v1, by rw [h1, h2]⟩
    · exact absurd (h1.trans h2.symm) hd
  · exfalso
    have h1 := hk (k1, v1) (by simp)
    have h2 := hk (k2, v2) (by simp)
    have h3 := hk (k3, v3) (by simp)
    simp only at h1 h2 h3
    simp only [List.map_cons, List.nodup_cons, List.mem_cons, not_or] at hnd
    obtain ⟨⟨h12, h13, _⟩, ⟨h23, _⟩, _⟩ := hnd
    rcases h1 with h1 | h1 <;> rcases h2 with h2 | h2 <;> rcases h3 with h3 | h3 <;>
      first
      | exact h12 (h1.trans h2.symm)
      | exact h13 (h1.trans h3.symm)
      | exact h23 (h2.trans h3.symm)

end VL.Score

namespace VL.Score
open VL VL.Appr

/-! ### run-off members and the member matrix (fix 03ef346) -/

theorem extend_one_mem (ms : List Cand) (c x : Cand) :
    x ∈ (if ms.contains c then ms else ms ++ [c]) ↔ x ∈ ms ∨ x = c := by
  split
  · rename_i h
    have hc : c ∈ ms := by simpa using h
    constructor
    · exact Or.inl
    · rintro (h' | rfl)
      · exact h'
      · exact hc
  · simp

theorem extend_one_nodup {ms : List Cand} (h : ms.Nodup) (c : Cand) :
    (if ms.contains c then ms else ms ++ [c]).Nodup := by
  split
  · exact h
  · rename_i hc
    have hc' : c ∉ ms := by simpa using hc
    rw [List.nodup_append]
    refine ⟨h, by simp, ?_⟩
    intro a ha b hb
    simp at hb; subst hb
    intro hab; subst hab; exact hc' ha

theorem extend_list (l : List Cand) : ∀ (ms : List Cand),
    (∀ x, x ∈ l.foldl (fun ms c => if ms.contains c then ms else ms ++ [c]) ms ↔ x ∈ ms ∨ x ∈ l) ∧
    (ms.Nodup → (l.foldl (fun ms c => if ms.contains c then ms else ms ++ [c]) ms).Nodup) := by
  induction l with
  | nil => intro ms; simp
  | cons c cs ih =>
    intro ms
    obtain ⟨i1, i2⟩ := ih (if ms.contains c then ms else ms ++ [c])
    refine ⟨?_, fun h => i2 (extend_one_nodup h c)⟩
    intro x
    simp only [List.foldl_cons]
    rw [i1 x, extend_one_mem]
    simp only [List.mem_cons]
    tauto

/-- candidates a slot names -/
def slotNames : Slot → List Cand
  | Slot.cand c => [c]
  | Slot.tie T => T

theorem extendMembers_spec (ms : List Cand) (s : Slot) :
    (∀ x, x ∈ extendMembers ms s ↔ x ∈ ms ∨ x ∈ slotNames s) ∧ (ms.Nodup → (extendMembers ms s).Nodup) := by
  cases s with
  | cand c =>
    refine ⟨fun x => ?_, fun h => extend_one_nodup h c⟩
    simp only [extendMembers, slotNames, List.mem_singleton]
    exact extend_one_mem ms c x
  | tie T =>
    obtain ⟨i1, i2⟩ := extend_list (sortDedup T) ms
    refine ⟨fun x => ?_, i2⟩
    simp only [extendMembers, slotNames]
    rw [i1 x, mem_sortDedup]

/-- **the run-off members** are exactly the candidates named by the run-off selection — individually or inside a tie
    object (all candidates tied at the boundary enter) — each once -/
theorem starMembers_spec (slots : List Slot) :
    (∀ x, x ∈ starMembers slots ↔ ∃ s ∈ slots, x ∈ slotNames s) ∧ (starMembers slots).Nodup := by
  unfold starMembers
  have key : ∀ (l : List Slot) (ms : List Cand),
      (∀ x, x ∈ l.foldl extendMembers ms ↔ x ∈ ms ∨ ∃ s ∈ l, x ∈ slotNames s) ∧
      (ms.Nodup → (l.foldl extendMembers ms).Nodup) := by
    intro l
    induction l with
    | nil => intro ms; simp
    | cons s rest ih =>
      intro ms
      obtain ⟨e1, e2⟩ := extendMembers_spec ms s
      obtain ⟨i1, i2⟩ := ih (extendMembers ms s)
      refine ⟨?_, fun h => i2 (e2 h)⟩
      intro x
      simp only [List.foldl_cons]
      rw [i1 x, e1 x]
      simp only [List.mem_cons, exists_eq_or_imp]
      tauto
  obtain ⟨k1, k2⟩ := key slots []
  exact ⟨fun x => by rw [k1 x]; simp, k2 (by simp)⟩

theorem mem_memberPairs {all : PairCounts} {ms : List Cand} {p : (Cand × Cand) × Int} :
    p ∈ memberPairs all ms ↔ p.1.1 ∈ ms ∧ p.1.2 ∈ ms ∧ p.1.1 ≠ p.1.2 ∧ p.2 = getPair all p.1.1 p.1.2 := by
  unfold memberPairs
  simp only [List.mem_flatMap, List.mem_map, List.mem_filter, bne_iff_ne, ne_eq]
  constructor
  · rintro ⟨c1, h1, c2, ⟨h2, hne⟩, rfl⟩
    exact ⟨h1, h2, hne, rfl⟩
  · rintro ⟨h1, h2, hne, hv⟩
    refine ⟨p.1.1, h1, p.1.2, ⟨h2, hne⟩, ?_⟩
    rw [← hv]

theorem memberPairs_keys_nodup (all : PairCounts) {ms : List Cand} (h : ms.Nodup) :
    ((memberPairs all ms).map (·.1)).Nodup := by
  unfold memberPairs
  rw [List.map_flatMap, List.nodup_flatMap]
  refine ⟨?_, ?_⟩
  · intro c1 _
    rw [List.map_map]
    have : ((fun (x : (Cand × Cand) × Int) => x.1) ∘ fun c2 => ((c1, c2), getPair all c1 c2)) = fun c2 => (c1, c2) := rfl
    rw [this]
    exact (h.filter _).map (fun a b hab => by injection hab)
  · apply h.imp
    intro a b hab
    intro x hx1 hx2
    simp only [List.map_map, List.mem_map, Function.comp] at hx1 hx2
    obtain ⟨_, _, rfl⟩ := hx1
    obtain ⟨_, _, he⟩ := hx2
    injection he with he1 _
    exact hab he1.symm

theorem getPair_of_mem {d : PairCounts} (hnd : (d.map (·.1)).Nodup) {a b : Cand} {v : Int} (h : ((a, b), v) ∈ d) :
    getPair d a b = v := by
  induction d with
  | nil => cases h
  | cons q rest ih =>
    have hq := List.nodup_cons.mp hnd
    unfold getPair
    rcases List.mem_cons.mp h with rfl | h'
    · simp [List.find?_cons]
    · have hne : ¬ q.1 = (a, b) := by
        intro he
        apply hq.1
        exact List.mem_map.mpr ⟨((a, b), v), h', he.symm⟩
      simp only [List.find?_cons, hne, decide_false]
      exact ih hq.2 h'

/-- **the member matrix**: the run-off evaluator sees, for every ordered pair of distinct run-off members, exactly the
    number of voters preferring the first to the second (0 if nobody does) -/
theorem memberPairs_getPair (all : PairCounts) {ms : List Cand} (h : ms.Nodup) {a b : Cand}
    (ha : a ∈ ms) (hb : b ∈ ms) (hab : a ≠ b) : getPair (memberPairs all ms) a b = getPair all a b :=
  getPair_of_mem (memberPairs_keys_nodup all h) (mem_memberPairs.mpr ⟨ha, hb, hab, rfl⟩)

theorem memberPairs_two (all : PairCounts) {a b : Cand} (hab : a ≠ b) :
    memberPairs all [a, b] = [((a, b), getPair all a b), ((b, a), getPair all b a)] := by
  have hba : b ≠ a := fun h => hab h.symm
  simp [memberPairs, List.filter_cons, hab, hba]

theorem getPair_nonneg {d : PairCounts} (h : ∀ p ∈ d, 0 ≤ p.2) (a b : Cand) : 0 ≤ getPair d a b := by
  unfold getPair
  cases hf : d.find? (fun p => decide (p.1 = (a, b))) with
  | none => exact le_refl _
  | some p => exact h p (List.mem_of_find?_eq_some hf)

end VL.Score
