/-
  Helper lemmas for C12 (STAR): the Schulze run-off between two finalists is the pairwise majority comparison.
-/
import VotelibProofs.Lemmas.C12Spav
import VotelibModel.Score
namespace VL.Score
open VL VL.Appr

set_option linter.unusedSimpArgs false

theorem getNBest_pair (a b : Cand) (p q : Rat) :
    getNBest [(a, p), (b, q)] 1 =
      if q < p then [Slot.cand a] else if p < q then [Slot.cand b] else [Slot.tie [a, b]] := by
  rcases lt_trichotomy p q with h | h | h
  · have h' : ¬ q < p := not_lt.mpr (le_of_lt h)
    have hne : ¬ p = q := ne_of_lt h
    simp [getNBest, sortDesc, insertDesc, h, h', hne]
  · subst h
    simp [getNBest, sortDesc, insertDesc]
  · have h' : ¬ p < q := not_lt.mpr (le_of_lt h)
    have hne : ¬ q = p := ne_of_lt h
    simp [getNBest, sortDesc, insertDesc, h, h', hne]

/-- run-off of two finalists `a`, `b`, both pairwise entries present -/
theorem schulze_two_both (a b : Cand) (hab : a ≠ b) (x y : Int) (hx : 0 ≤ x) (hy : 0 ≤ y) :
    schulze [((a, b), x), ((b, a), y)] 1 =
      if y < x then [Slot.cand a] else if x < y then [Slot.cand b] else [Slot.tie [a, b]] := by
  have hne' : b ≠ a := fun h => hab h.symm
  rcases Nat.lt_or_gt_of_ne hab with hlt | hgt
  · have hba : ¬ b < a := Nat.not_lt.mpr (Nat.le_of_lt hlt)
    rcases lt_trichotomy x y with h | h | h
    · have h' : ¬ y < x := Int.not_lt.mpr (Int.le_of_lt h)
      have hy0 : 0 < y := by omega
      simp [schulze, schulzeScores, widestPaths, sortDedup, insertNat, hlt, hab, hne', hba, getPair, setPair, addVote, h, h', hy0, getNBest_pair]
    · subst h
      simp [schulze, schulzeScores, widestPaths, sortDedup, insertNat, hlt, hab, hne', hba, getPair, setPair, addVote, getNBest_pair]
    · have h' : ¬ x < y := Int.not_lt.mpr (Int.le_of_lt h)
      have hx0 : 0 < x := by omega
      simp [schulze, schulzeScores, widestPaths, sortDedup, insertNat, hlt, hab, hne', hba, getPair, setPair, addVote, h, h', hx0, getNBest_pair]
  · have hba : ¬ a < b := Nat.not_lt.mpr (Nat.le_of_lt hgt)
    rcases lt_trichotomy x y with h | h | h
    · have h' : ¬ y < x := Int.not_lt.mpr (Int.le_of_lt h)
      have hy0 : 0 < y := by omega
      simp [schulze, schulzeScores, widestPaths, sortDedup, insertNat, hgt, hab, hne', hba, getPair, setPair, addVote, h, h', hy0, getNBest_pair]
    · subst h
      simp [schulze, schulzeScores, widestPaths, sortDedup, insertNat, hgt, hab, hne', hba, getPair, setPair, addVote, getNBest_pair]
    · have h' : ¬ x < y := Int.not_lt.mpr (Int.le_of_lt h)
      have hx0 : 0 < x := by omega
      simp [schulze, schulzeScores, widestPaths, sortDedup, insertNat, hgt, hab, hne', hba, getPair, setPair, addVote, h, h', hx0, getNBest_pair]

/-- run-off of two finalists, only one pairwise entry present (nobody prefers `b` to `a`) -/
theorem schulze_two_single (a b : Cand) (hab : a ≠ b) (x : Int) (hx : 0 ≤ x) :
    schulze [((a, b), x)] 1 = if 0 < x then [Slot.cand a] else [Slot.tie [a, b]] := by
  have hne' : b ≠ a := fun h => hab h.symm
  rcases Nat.lt_or_gt_of_ne hab with hlt | hgt
  · have hba : ¬ b < a := Nat.not_lt.mpr (Nat.le_of_lt hlt)
    by_cases h : 0 < x
    · simp [schulze, schulzeScores, widestPaths, sortDedup, insertNat, hlt, hab, hne', hba, getPair, setPair, addVote, h, getNBest_pair]
    · have : x = 0 := by omega
      subst this
      simp [schulze, schulzeScores, widestPaths, sortDedup, insertNat, hlt, hab, hne', hba, getPair, setPair, addVote, getNBest_pair]
  · have hba : ¬ a < b := Nat.not_lt.mpr (Nat.le_of_lt hgt)
    by_cases h : 0 < x
    · simp [schulze, schulzeScores, widestPaths, sortDedup, insertNat, hgt, hab, hne', hba, getPair, setPair, addVote, h, getNBest_pair]
    · have : x = 0 := by omega
      subst this
      simp [schulze, schulzeScores, widestPaths, sortDedup, insertNat, hgt, hab, hne', hba, getPair, setPair, addVote, getNBest_pair]

/-- a non-empty pairwise table over two candidates has one of four shapes -/
theorem pair_shapes {pw : PairCounts} {a b : Cand} (hab : a ≠ b) (hne : pw ≠ [])
    (hnd : (pw.map (·.1)).Nodup) (hk : ∀ p ∈ pw, p.1 = (a, b) ∨ p.1 = (b, a)) :
    (∃ x, pw = [((a, b), x)]) ∨ (∃ y, pw = [((b, a), y)]) ∨
    (∃ x y, pw = [((a, b), x), ((b, a), y)]) ∨ (∃ x y, pw = [((b, a), y), ((a, b), x)]) := by
  have hne' : (a, b) ≠ (b, a) := by
    intro h; injection h with h1 _; exact hab h1
  rcases pw with _ | ⟨⟨k1, v1⟩, _ | ⟨⟨k2, v2⟩, _ | ⟨⟨k3, v3⟩, rest⟩⟩⟩
  · exact absurd rfl hne
  · rcases hk (k1, v1) (by simp) with h | h
    · left; exact ⟨v1, by simp only at h; rw [h]⟩
    · right; left; exact ⟨v1, by simp only at h; rw [h]⟩
  · have h1 := hk (k1, v1) (by simp)
    have h2 := hk (k2, v2) (by simp)
    simp only at h1 h2
    have hd : k1 ≠ k2 := by
      simp only [List.map_cons, List.map_nil, List.nodup_cons, List.mem_singleton] at hnd
      exact hnd.1
    rcases h1 with h1 | h1 <;> rcases h2 with h2 | h2
    · exact absurd (h1.trans h2.symm) hd
    · right; right; left; exact ⟨v1, v2, by rw [h1, h2]⟩
    · right; right; right; exact ⟨v2, v1, by rw [h1, h2]⟩
    · exact absurd (h1.trans h2.symm) hd
  · exfalso
    have h1 := hk (k1, v1) (by simp)
    have h2 := hk (k2, v2) (by simp)
    have h3 := hk (k3, v3) (by simp)
    simp only at h1 h2 h3
    simp only [List.map_cons, List.nodup_cons, List.mem_cons, not_or] at hnd
    obtain ⟨⟨h12, h13, _⟩, ⟨h23, _⟩, _⟩ := hnd
    rcases h1 with h1 | h1 <;> rcases h2 with h2 | h2 <;> rcases h3 with h3 | h3 <;>
      first
      | exact h12 (h1.trans h2.symm)
      | exact h13 (h1.trans h3.symm)
      | exact h23 (h2.trans h3.symm)

end VL.Score
