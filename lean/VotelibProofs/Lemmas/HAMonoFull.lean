/-
  Vote monotonicity of highest averages at full strength (no premise on ties): a counting argument.
  If party `c` held fewer individually awarded seats with more votes, every other party `e` would hold at least as
  many seats with the original votes as with the new ones — and one more if it sits in the new run's tie — so the
  original run would have awarded more seats than are open.
-/
import VotelibProofs.Lemmas.HAMono
namespace VL
open HACfg

theorem sum_indicator (L : List Cand) (P : Cand → Bool) :
    (L.map (fun e => if P e then 1 else 0)).sum = (L.filter P).length := by
  induction L with
  | nil => rfl
  | cons a t ih =>
    simp only [List.map_cons, List.sum_cons, ih, List.filter_cons]
    cases P a <;> simp; omega

theorem length_filter_ge_of_subset {T L : List Cand} (hT : T.Nodup) (P : Cand → Bool)
    (h : ∀ e ∈ T, e ∈ L ∧ P e = true) : T.length ≤ (L.filter P).length :=
  (List.subperm_of_subset hT (fun e he => List.mem_filter.mpr (h e he))).length_le

/-- **Vote monotonicity (full).**  Giving one party more votes while the others keep theirs never lowers its
    individually awarded seats — whether or not either election ends in a tie (seats inside a `Tie` are counted for
    nobody).  Caps are at least the previous gains. -/
theorem haSeats_more_votes_full (cfg cfg' : HACfg) (c : Cand) (h : CfgOK cfg) (h' : CfgOK cfg') (hm : MoreVotes cfg cfg' c)
    (hcaps : ∀ e, cfg.prevOf e ≤ cfg.capOf e) : haSeats cfg c ≤ haSeats cfg' c := by
  by_contra hlt
  have hlt : haSeats cfg' c < haSeats cfg c := Nat.lt_of_not_ge hlt
  have hi := haRun_inv cfg h
  have hi' := haRun_inv cfg' h'
  have hprev : ∀ e, cfg'.prevOf e = cfg.prevOf e := fun e => by unfold HACfg.prevOf; rw [hm.prev]
  have hcap : ∀ e, cfg'.capOf e = cfg.capOf e := fun e => by unfold HACfg.capOf; rw [hm.caps, hm.n]
  have hcands : haCands cfg' = haCands cfg := by
    have hk := hm.keys
    unfold VL.keys at hk
    unfold haCands; rw [hm.prev, hk]
  have hopen : openSeats cfg' = openSeats cfg := by unfold openSeats HACfg.sumPrev; rw [hm.n, hm.prev]
  have hquot_e : ∀ e, e ≠ c → ∀ j, cfg'.quot e j = cfg.quot e j := by
    intro e he j; unfold HACfg.quot; rw [hm.same e he, hm.div]
  have hckey : c ∈ keys cfg.votes := hi.only_keys c (by unfold haSeats at hlt; omega)
  have hcC : c ∈ haCands cfg := mem_haCands_of_key hckey
  have hge' := hi'.ge_prev c
  have hge := hi.ge_prev c
  have htc : (haRun cfg).tot c ≤ cfg.capOf c := hi.le_cap c (hcaps c)
  have ht'lt : (haRun cfg').tot c < (haRun cfg).tot c := by
    unfold haSeats at hlt; rw [hprev] at hlt; rw [hprev] at hge'; omega
  have hElig' : Elig0 cfg' c := by
    refine ⟨by rw [hm.keys]; exact hckey, ?_⟩
    rw [hprev, hcap]; rw [hprev] at hge'; omega
  have hroom' : (haRun cfg').tot c < cfg'.capOf c := by rw [hcap]; omega
  -- c waits in the pool of run cfg' with quotient λ
  obtain ⟨pc, hpc, hpck⟩ := List.mem_map.mp (hi'.pool_all c hElig' hroom')
  have hrem' : (haRun cfg').rem = 0 := by
    rcases haRun_done cfg' with h0 | h0
    · exact h0
    · rw [h0] at hpc; simp at hpc
  -- c's own quotients: more votes, earlier seat
  have ho3 : cfg'.quot c ((haRun cfg).tot c - 1) ≤ cfg'.quot c ((haRun cfg').tot c) :=
    quot_anti_le h' c (by omega)
  have ho4 : cfg.quot c ((haRun cfg).tot c - 1) < cfg'.quot c ((haRun cfg).tot c - 1) := by
    unfold HACfg.quot
    rw [hm.div]
    exact div_lt_div_of_pos_right hm.more (h.div_pos _)
  have hlam : pc.2 = cfg'.quot c ((haRun cfg').tot c) := by rw [hi'.pool_q pc hpc, hpck]
  -- whoever waits in run cfg (other than c) waits below λ
  have hwait : ∀ e, e ∈ keys cfg.votes → (haRun cfg).tot e < cfg.capOf e → cfg.quot e ((haRun cfg).tot e) < pc.2 := by
    intro e hek hroom
    have hElig_e : Elig0 cfg e := ⟨hek, lt_of_le_of_lt (hi.ge_prev e) hroom⟩
    obtain ⟨p, hp, hpk⟩ := List.mem_map.mp (hi.pool_all e hElig_e hroom)
    have ho1 := hi.seated c ((haRun cfg).tot c - 1) (by rw [hprev] at hge'; omega) (by omega) p hp
    rw [hi.pool_q p hp, hpk] at ho1
    rw [hlam]; linarith
  -- the tie of run cfg' (empty when there is none)
  obtain ⟨T, m, hTm, hTnd, hTlen, hTmem⟩ : ∃ (T : List Cand) (m : Nat), tieSeats (haRun cfg') = m ∧ T.Nodup ∧
      (m = 0 ∨ m < T.length) ∧ ∀ e ∈ T, ∃ p ∈ (haRun cfg').pool, p.1 = e ∧ pc.2 ≤ p.2 := by
    cases htie : (haRun cfg').tie with
    | none => exact ⟨[], 0, by unfold tieSeats; rw [htie], List.nodup_nil, Or.inl rfl, by simp⟩
    | some Tm =>
      obtain ⟨T, m⟩ := Tm
      obtain ⟨_, _, hlen, q, hq1, hq2⟩ := hi'.tie_ok T m htie
      refine ⟨T, m, by unfold tieSeats; rw [htie], ?_, Or.inr hlen, ?_⟩
      · rw [hq2]; exact batch_nodup hi'.pool_nd q
      · intro e he
        rw [hq2] at he
        obtain ⟨p, hp, rfl⟩ := List.mem_map.mp he
        obtain ⟨hp1, hp2⟩ := List.mem_filter.mp hp
        simp only [decide_eq_true_eq] at hp2
        exact ⟨p, hp1, rfl, by rw [hp2]; exact hq1 pc hpc⟩
  -- the counting claim
  have hclaim : ∀ e ∈ haCands cfg,
      haSeats cfg' e + (if decide (e ∈ T ∧ e ≠ c) then 1 else 0) + (if decide (e = c) then 1 else 0) ≤ haSeats cfg e := by
    intro e _
    by_cases hec : e = c
    · subst hec
      simp only [ne_eq, not_true_eq_false, and_false, decide_false, Bool.false_eq_true, ↓reduceIte, add_zero,
        decide_true]
      omega
    · simp only [hec, decide_false, Bool.false_eq_true, ↓reduceIte, add_zero, ne_eq, not_false_eq_true, and_true]
      have hge_e := hi.ge_prev e
      have hge_e' := hi'.ge_prev e
      rw [hprev] at hge_e'
      by_contra hcon
      have hcon : haSeats cfg e < haSeats cfg' e + (if decide (e ∈ T) then 1 else 0) := Nat.lt_of_not_ge hcon
      unfold haSeats at hcon
      rw [hprev] at hcon
      by_cases hgain : (haRun cfg).tot e < (haRun cfg').tot e
      · -- e holds a seat in run cfg' that it does not hold in run cfg
        have hekey : e ∈ keys cfg.votes := by
          rw [← hm.keys]; exact hi'.only_keys e (by rw [hprev]; omega)
        have hte'cap : (haRun cfg').tot e ≤ cfg.capOf e := by
          rw [← hcap]; exact hi'.le_cap e (by rw [hprev, hcap]; exact hcaps e)
        have h1 := hwait e hekey (by omega)
        have h2 := hi'.seated e ((haRun cfg).tot e) (by rw [hprev]; exact hge_e) hgain pc hpc
        rw [hquot_e e hec] at h2
        linarith
      · -- e holds the same number of seats and sits in the tie of run cfg'
        have heT : e ∈ T := by
          by_contra hne
          simp only [hne, decide_false, Bool.false_eq_true, ↓reduceIte, add_zero] at hcon
          omega
        have heq : (haRun cfg').tot e = (haRun cfg).tot e := by
          simp only [heT, decide_true, ↓reduceIte] at hcon
          omega
        obtain ⟨p, hp, hpe, hple⟩ := hTmem e heT
        have hekey : e ∈ keys cfg.votes := by rw [← hm.keys, ← hpe]; exact hi'.pool_key p hp
        have hroom_e : (haRun cfg).tot e < cfg.capOf e := by
          have := hi'.pool_cap p hp
          rw [hpe, hcap, heq] at this; exact this
        have h1 := hwait e hekey hroom_e
        have h2 := hi'.pool_q p hp
        rw [hpe, heq, hquot_e e hec] at h2
        linarith
  -- summing up
  have hsum := List.sum_le_sum (l := haCands cfg)
    (f := fun e => haSeats cfg' e + (if decide (e ∈ T ∧ e ≠ c) then 1 else 0) + (if decide (e = c) then 1 else 0))
    (g := fun e => haSeats cfg e) hclaim
  have hsplit : ((haCands cfg).map (fun e => haSeats cfg' e + (if decide (e ∈ T ∧ e ≠ c) then 1 else 0)
      + (if decide (e = c) then 1 else 0))).sum
      = ((haCands cfg).map (haSeats cfg')).sum + ((haCands cfg).filter (fun e => decide (e ∈ T ∧ e ≠ c))).length
        + ((haCands cfg).filter (fun e => decide (e = c))).length := by
    rw [← sum_indicator, ← sum_indicator, ← List.sum_map_add, ← List.sum_map_add]
  rw [hsplit] at hsum
  have hcount1 : 1 ≤ ((haCands cfg).filter (fun e => decide (e = c))).length := by
    have := length_filter_ge_of_subset (T := [c]) (L := haCands cfg) (List.nodup_singleton c) (fun e => decide (e = c))
      (fun e he => by simp only [List.mem_singleton] at he; subst he; exact ⟨hcC, by simp⟩)
    simpa using this
  have hcountT : T.length - 1 ≤ ((haCands cfg).filter (fun e => decide (e ∈ T ∧ e ≠ c))).length := by
    have h1 := length_filter_ge_of_subset (T := T.erase c) (L := haCands cfg) (hTnd.erase c)
      (fun e => decide (e ∈ T ∧ e ≠ c)) (fun e he => by
        have heT : e ∈ T := List.mem_of_mem_erase he
        have hec : e ≠ c := by
          rintro rfl; exact (List.Nodup.not_mem_erase hTnd) he
        obtain ⟨p, hp, hpe, _⟩ := hTmem e heT
        refine ⟨?_, by simp [heT, hec]⟩
        apply mem_haCands_of_key
        rw [← hm.keys, ← hpe]; exact hi'.pool_key p hp)
    have h2 : T.length - 1 ≤ (T.erase c).length := by
      rw [List.length_erase]; split <;> omega
    omega
  have hk : ((haCands cfg).map (fun e => haSeats cfg e)).sum = awarded cfg (haRun cfg) := rfl
  have hk' : ((haCands cfg).map (haSeats cfg')).sum = awarded cfg' (haRun cfg') := by
    unfold awarded; rw [hcands]; rfl
  rw [hk, hk'] at hsum
  have hc1 := hi.count
  have hc2 := hi'.count
  rw [hrem', hTm, hopen] at hc2
  rcases hTlen with h0 | h0 <;> omega

end VL
