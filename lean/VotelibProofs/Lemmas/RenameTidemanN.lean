/-
  C10: the multi-seat Tideman alternative (`tidemanN`, sequential.py after fix 33df8fe) commutes with every injective renaming
  (shared ranks in canonical ascending form): literally the renamed list of winners, or the same exception.
-/
import VotelibProofs.Lemmas.RenameBenham
namespace VL.Perm.Hyb
open VL VL.Condorcet VL.C10

section
variable (σ : Cand → Cand) (hσ : Function.Injective σ)
include hσ

theorem tidemanLoop_sim (smith : Bool) (tf : Nat) : ∀ (f : Nat) (t t' : Profile), CanonP t → t'.Perm (renProfileH σ t) →
    ∀ (el el' : List Cand), el'.Perm (el.map σ) → ∀ (acc : List Slot) (n : Nat),
      tidemanLoop smith tf f t' el' (acc.map (renSlot σ)) n =
        (tidemanLoop smith tf f t el acc n).map (List.map (renSlot σ)) := by
  intro f
  induction f with
  | zero => intro _ _ _ _ _ _ _ _ _; rfl
  | succ f ih =>
    intro t t' hc ht el el' hel acc n
    unfold tidemanLoop
    have hr := tidemanRunTier_sim σ hσ smith tf t t' hc ht
    cases h1 : tidemanRunTier smith tf t' with
    | error e₁ =>
      cases h2 : tidemanRunTier smith tf t with
      | error e₂ => rw [h1, h2] at hr; have : e₁ = e₂ := hr; rw [this]; rfl
      | ok s₂ => rw [h1, h2] at hr; exact hr.elim
    | ok s₁ =>
      cases h2 : tidemanRunTier smith tf t with
      | error e₂ => rw [h1, h2] at hr; exact hr.elim
      | ok s₂ =>
        rw [h1, h2] at hr
        have hr' : SlotsEquiv [s₁] [renSlot σ s₂] := hr
        cases s₂ with
        | tie T =>
          rcases slotsEquiv_singleton hr' with ⟨c', _, hc'⟩ | ⟨T₁, T₂, rfl, _, _⟩
          · simp [renSlot] at hc'
          · rfl
        | cand c =>
          rcases slotsEquiv_singleton hr' with ⟨c', rfl, hc'⟩ | ⟨T₁, T₂, _, hT, _⟩
          · simp only [renSlot, Slot.cand.injEq] at hc'
            subst hc'
            simp only
            have hcont : el'.contains (σ c) = el.contains c := by
              rw [Bool.eq_iff_iff, List.contains_iff_mem, List.contains_iff_mem, hel.mem_iff, List.mem_map_of_injective hσ]
            have her : (eraseCand el' (σ c)).Perm ((eraseCand el c).map σ) := by
              rw [eraseCand_eq_erase, eraseCand_eq_erase]
              have : ((el.erase c).map σ) = (el.map σ).erase (σ c) := (List.map_erase hσ el)
              rw [this]
              exact hel.erase (σ c)
            have hemp : (eraseCand el' (σ c)).isEmpty = (eraseCand el c).isEmpty := by
              cases h3 : eraseCand el c with
              | nil => rw [h3] at her; rw [her.eq_nil]
              | cons a l =>
                cases h4 : eraseCand el' (σ c) with
                | nil => rw [h3, h4] at her; exact absurd her.nil_eq.symm (by simp)
                | cons b l' => rfl
            have hlen : (acc.map (renSlot σ) ++ [Slot.cand (σ c)]).length = (acc ++ [Slot.cand c]).length := by simp
            have hacc : acc.map (renSlot σ) ++ [Slot.cand (σ c)] = (acc ++ [Slot.cand c]).map (renSlot σ) := by
              simp [renSlot]
            rw [hcont, hemp, hlen]
            split
            · rfl
            · split
              · rw [hacc]; rfl
              · obtain ⟨hsub, hcan⟩ := subsetProfile_sim σ hσ hc ht her
                rw [hacc]
                exact ih _ _ hcan hsub _ _ her _ _
          · simp [renSlot] at hT

end

end VL.Perm.Hyb

namespace VL.Perm
open VL VL.Condorcet VL.C10

/-- **Tideman alternative, any number of seats: renaming equivariance** -/
theorem tidemanN_ren (σ : Cand → Cand) (hσ : Function.Injective σ) (smith : Bool) {p : Profile} (hp : Hyb.CanonP p) (n : Nat) :
    tidemanN smith (Hyb.renProfileH σ p) n = (tidemanN smith p n).map (List.map (renSlot σ)) := by
  unfold tidemanN
  simp only
  rw [(Hyb.allRanked_ren_perm σ hσ hp).length_eq, List.length_map]
  exact Hyb.tidemanLoop_sim σ hσ smith _ _ p _ hp (List.Perm.refl _) _ _ (Hyb.allRanked_ren_perm σ hσ hp) [] n

end VL.Perm
