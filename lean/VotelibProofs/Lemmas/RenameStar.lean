/-
  C10, score family, STAR: candidate names do not matter.  For every injective renaming `σ` (monotone or not) and a
  profile with non-negative ballot counts, `STAR.evaluate` on the renamed profile returns the renamed selection up to
  `SlotsEquiv` (or raises the same exception).

  * the score stage commutes with the renaming exactly (`convert_rename`, `getNBest_rename`);
  * a non-monotone renaming changes the iteration order of candidate sets: the run-off members, the completion of a
    ballot with the unscored candidates and the unranked candidates come out as permutations of the renamed lists; the
    pairwise count of a pair is a sum over the ballots (`getPair_pairCounts`), which does not see these orders;
  * the run-off evaluator iterates the candidate set in ascending id order too, so Floyd-Warshall runs in another
    order on the renamed table: here the max-min characterisation is needed, through the bridge to the Condorcet-side
    model (`star_schulze_bridge`, PermStar3) whose renaming theorem (`schulze_ren`, RenameCondorcet) is exact.  This is
    where non-negative counts are needed.
-/
import VotelibProofs.Lemmas.PermStar3
import VotelibProofs.Lemmas.RenameScore
import VotelibProofs.Lemmas.RenameCondorcet
import VotelibProofs.Lemmas.PermTrans
namespace VL.Perm.Star
open VL VL.Score VL.C10 VL.Appr

/-- the pairwise table with every candidate renamed -/
def renPC (σ : Cand → Cand) (d : PairCounts) : PairCounts := d.map (fun t => ((σ t.1.1, σ t.1.2), t.2))

theorem toPW_renPC (σ : Cand → Cand) (d : PairCounts) : toPW (renPC σ d) = renPairwise σ (toPW d) := by
  unfold toPW renPC renPairwise
  rw [List.map_map, List.map_map]; rfl

theorem pair_inj {σ : Cand → Cand} (hσ : Function.Injective σ) :
    Function.Injective (fun q : Cand × Cand => (σ q.1, σ q.2)) := by
  rintro ⟨a, b⟩ ⟨c, d⟩ h
  simp only [Prod.mk.injEq] at h
  rw [hσ h.1, hσ h.2]

theorem pcwf_renPC {σ : Cand → Cand} (hσ : Function.Injective σ) {d : PairCounts} (h : PCWF d) : PCWF (renPC σ d) := by
  refine ⟨?_, ?_, ?_⟩
  · have : (renPC σ d).map (·.1) = (d.map (·.1)).map (fun q : Cand × Cand => (σ q.1, σ q.2)) := by
      unfold renPC; rw [List.map_map, List.map_map]; rfl
    rw [this]
    exact h.1.map (pair_inj hσ)
  · intro t ht
    obtain ⟨t0, h0, rfl⟩ := List.mem_map.mp ht
    exact fun e => h.2.1 t0 h0 (hσ e)
  · intro t ht
    obtain ⟨t0, h0, rfl⟩ := List.mem_map.mp ht
    exact h.2.2 t0 h0

theorem slotsEquiv_map_ren (σ : Cand → Cand) {r₁ r₂ : List Slot} (h : SlotsEquiv r₁ r₂) :
    SlotsEquiv (r₁.map (renSlot σ)) (r₂.map (renSlot σ)) := by
  obtain ⟨e₁, e₂, T₁, T₂, m, rfl, rfl, he, hT⟩ := h
  refine ⟨e₁.map σ, e₂.map σ, T₁.map σ, T₂.map σ, m, ?_, ?_, he.map σ, hT.map σ⟩
  · simp only [List.map_append, List.map_map, List.map_replicate, renSlot, Function.comp_def]
  · simp only [List.map_append, List.map_map, List.map_replicate, renSlot, Function.comp_def]

/-- the score-side Schulze evaluator and an injective renaming of a well-formed table -/
theorem schulze_renPC {σ : Cand → Cand} (hσ : Function.Injective σ) {d : PairCounts} (h : PCWF d) (n : Nat) :
    SlotsEquiv (Score.schulze (renPC σ d) n) ((Score.schulze d n).map (renSlot σ)) := by
  have h1 := star_schulze_bridge (pcwf_renPC hσ h) n
  rw [toPW_renPC, schulze_ren σ hσ] at h1
  exact slotsEquiv_trans h1 (slotsEquiv_map_ren σ (slotsEquiv_symm (star_schulze_bridge h n)))

/-! ### the pairwise counts of the renamed profile -/

def renPair (σ : Cand → Cand) (q : Cand × Cand) : Cand × Cand := (σ q.1, σ q.2)

theorem rankPairs_map (σ : Cand → Cand) (U : List Cand) : ∀ R : List (List Cand),
    (rankPairs U R).map (renPair σ) = rankPairs (U.map σ) (R.map (List.map σ)) := by
  intro R
  induction R with
  | nil => rfl
  | cons upper lower ih =>
    simp only [rankPairs, List.map_cons, List.map_append, ih, List.map_flatMap, List.flatMap_map]
    congr 1
    congr 1
    funext u
    simp only [List.map_map, Function.comp_def, renPair, ← List.map_flatten]

theorem flatten_perm_of_forall₂ {R R' : List (List Cand)} (h : List.Forall₂ List.Perm R R') : R.flatten.Perm R'.flatten := by
  induction h with
  | nil => exact List.Perm.refl _
  | cons hab _ ih => simp only [List.flatten_cons]; exact hab.append ih

theorem rankPairs_perm {U U' : List Cand} (hU : U.Perm U') {R R' : List (List Cand)} (h : List.Forall₂ List.Perm R R') :
    (rankPairs U R).Perm (rankPairs U' R') := by
  induction h with
  | nil => exact List.Perm.refl _
  | cons hab htl ih =>
    unfold rankPairs
    refine List.Perm.append ?_ ih
    refine List.Perm.flatMap hab ?_
    intro u _
    exact ((flatten_perm_of_forall₂ htl).map _).append (hU.map _)

theorem contains_map_inj {σ : Cand → Cand} (hσ : Function.Injective σ) (l : List Cand) (c : Cand) :
    (l.map σ).contains (σ c) = l.contains c := by
  rw [List.contains_eq_mem, List.contains_eq_mem, decide_eq_decide]
  exact List.mem_map_of_injective hσ

/-- the ballot completed with the unscored candidates (convert.py L473-478) -/
def filled (unscored : Option Rat) (allC : List Cand) (b : SBallot) : SBallot :=
  match unscored with
  | none => b
  | some u => b ++ ((allC.filter (fun c => !((b.map (·.1)).contains c))).map (fun c => (c, u)))

theorem convertOne_eq (unscored : Option Rat) (allC : List Cand) (b : SBallot) :
    convertOne unscored allC b =
      (gradesDesc (filled unscored allC b)).map (fun g => ((filled unscored allC b).filter (fun p => p.2 = g)).map (·.1)) := by
  unfold convertOne filled
  cases unscored <;> rfl

theorem filled_ren {σ : Cand → Cand} (hσ : Function.Injective σ) (unscored : Option Rat) {allC allC' : List Cand}
    (hC : allC'.Perm (allC.map σ)) (b : SBallot) :
    (filled unscored allC' (renSBallot σ b)).Perm (renSBallot σ (filled unscored allC b)) := by
  unfold filled
  cases unscored with
  | none => exact List.Perm.refl _
  | some u =>
    simp only
    have hk : (renSBallot σ b).map (·.1) = (b.map (·.1)).map σ := by
      unfold renSBallot; rw [List.map_map, List.map_map]; rfl
    have hsplit : ∀ X : SBallot, renSBallot σ (b ++ X) = renSBallot σ b ++ renSBallot σ X :=
      fun X => List.map_append
    rw [hsplit, hk]
    refine List.Perm.append_left _ ?_
    have e : renSBallot σ ((allC.filter (fun c => !((b.map (·.1)).contains c))).map (fun c => (c, u))) =
        (((allC.map σ).filter (fun c => !(((b.map (·.1)).map σ).contains c)))).map (fun c => (c, u)) := by
      unfold renSBallot
      rw [List.filter_map, List.map_map, List.map_map]
      have : allC.filter ((fun c => !(((b.map (·.1)).map σ).contains c)) ∘ σ) =
          allC.filter (fun c => !((b.map (·.1)).contains c)) := by
        apply List.filter_congr
        intro c _
        simp only [Function.comp_def, contains_map_inj hσ]
      rw [this]
      rfl
    rw [e]
    exact (hC.filter _).map _

theorem gradesDesc_perm {b b' : SBallot} (h : b.Perm b') : gradesDesc b = gradesDesc b' := by
  unfold gradesDesc
  rw [sortR_eq_of_perm (h.map _)]

theorem gradesDesc_ren (σ : Cand → Cand) (b : SBallot) : gradesDesc (renSBallot σ b) = gradesDesc b := by
  unfold gradesDesc renSBallot
  rw [List.map_map]; rfl

/-- the ranking of the renamed ballot: group by group the renamed group, up to the order inside a group -/
theorem convertOne_ren {σ : Cand → Cand} (hσ : Function.Injective σ) (unscored : Option Rat) {allC allC' : List Cand}
    (hC : allC'.Perm (allC.map σ)) (b : SBallot) :
    List.Forall₂ List.Perm (convertOne unscored allC' (renSBallot σ b)) ((convertOne unscored allC b).map (List.map σ)) := by
  have hf := filled_ren hσ unscored hC b
  rw [convertOne_eq, convertOne_eq, gradesDesc_perm hf, gradesDesc_ren, List.map_map,
    List.forall₂_map_left_iff, List.forall₂_map_right_iff, List.forall₂_same]
  intro g _
  have := ((hf.filter (fun p => decide (p.2 = g))).map (·.1))
  refine this.trans ?_
  unfold renSBallot
  rw [List.filter_map, List.map_map]
  simp only [Function.comp_def, List.map_map]
  exact List.Perm.refl _

theorem unranked_ren {σ : Cand → Cand} (hσ : Function.Injective σ) {allC allC' : List Cand}
    (hC : allC'.Perm (allC.map σ)) {R R' : List (List Cand)} (hR : List.Forall₂ List.Perm R' (R.map (List.map σ))) :
    (allC'.filter (fun c => !(R'.flatten.contains c))).Perm ((allC.filter (fun c => !(R.flatten.contains c))).map σ) := by
  have hfl : R'.flatten.Perm (R.flatten.map σ) := by
    rw [List.map_flatten]; exact flatten_perm_of_forall₂ hR
  refine (hC.filter _).trans ?_
  rw [List.filter_map]
  have : (allC.filter ((fun c => !(R'.flatten.contains c)) ∘ σ)) = allC.filter (fun c => !(R.flatten.contains c)) := by
    apply List.filter_congr
    intro c _
    simp only [Function.comp_def]
    congr 1
    rw [List.contains_eq_mem, List.contains_eq_mem, decide_eq_decide, hfl.mem_iff]
    exact List.mem_map_of_injective hσ
  rw [this]

def renInc (σ : Cand → Cand) (t : (Cand × Cand) × Int) : (Cand × Cand) × Int := (renPair σ t.1, t.2)

theorem ballotIncs_ren {σ : Cand → Cand} (hσ : Function.Injective σ) (unscored : Option Rat) {allC allC' : List Cand}
    (hC : allC'.Perm (allC.map σ)) (bn : SBallot × Int) :
    (ballotIncs unscored allC' (renSBallot σ bn.1, bn.2)).Perm ((ballotIncs unscored allC bn).map (renInc σ)) := by
  unfold ballotIncs
  simp only
  have hR := convertOne_ren hσ unscored hC bn.1
  have hU := unranked_ren hσ hC hR
  have hp := rankPairs_perm hU hR
  rw [← rankPairs_map] at hp
  rw [List.map_map]
  have : ((rankPairs (allC.filter (fun c => !((convertOne unscored allC bn.1).flatten.contains c)))
        (convertOne unscored allC bn.1)).map (renInc σ ∘ fun q => (q, bn.2))) =
      ((rankPairs (allC.filter (fun c => !((convertOne unscored allC bn.1).flatten.contains c)))
        (convertOne unscored allC bn.1)).map (renPair σ)).map (fun q => (q, bn.2)) := by
    rw [List.map_map]; rfl
  rw [this]
  exact hp.map _

theorem mem_allCp {q : SProfile} {x : Cand} : x ∈ allCp q ↔ ∃ bn ∈ q, ∃ cs ∈ bn.1, cs.1 = x := by
  unfold allCp
  rw [mem_sortDedup, List.mem_flatMap]
  constructor
  · rintro ⟨bn, hbn, hx⟩
    obtain ⟨cs, hcs, rfl⟩ := List.mem_map.mp hx
    exact ⟨bn, hbn, cs, hcs, rfl⟩
  · rintro ⟨bn, hbn, cs, hcs, rfl⟩
    exact ⟨bn, hbn, List.mem_map.mpr ⟨cs, hcs, rfl⟩⟩

theorem allCp_ren {σ : Cand → Cand} (hσ : Function.Injective σ) (p : SProfile) :
    (allCp (renScore σ p)).Perm ((allCp p).map σ) := by
  have h1 : (allCp (renScore σ p)).Nodup := sortDedup_nodup _
  have h2 : ((allCp p).map σ).Nodup := (sortDedup_nodup _).map hσ
  apply (List.perm_ext_iff_of_nodup h1 h2).mpr
  intro x
  rw [mem_allCp, List.mem_map]
  constructor
  · rintro ⟨bn', hbn', cs', hcs', rfl⟩
    obtain ⟨bn, hbn, rfl⟩ := List.mem_map.mp hbn'
    obtain ⟨cs, hcs, rfl⟩ := List.mem_map.mp hcs'
    exact ⟨cs.1, mem_allCp.mpr ⟨bn, hbn, cs, hcs, rfl⟩, rfl⟩
  · rintro ⟨c, hc, rfl⟩
    obtain ⟨bn, hbn, cs, hcs, rfl⟩ := mem_allCp.mp hc
    exact ⟨_, List.mem_map.mpr ⟨bn, hbn, rfl⟩, _, List.mem_map.mpr ⟨cs, hcs, rfl⟩, rfl⟩

theorem pcIncs_ren {σ : Cand → Cand} (hσ : Function.Injective σ) (unscored : Option Rat) (p : SProfile) :
    (pcIncs unscored (renScore σ p)).Perm ((pcIncs unscored p).map (renInc σ)) := by
  unfold pcIncs
  rw [List.map_flatMap]
  have : (renScore σ p).flatMap (ballotIncs unscored (allCp (renScore σ p))) =
      p.flatMap (fun bn => ballotIncs unscored (allCp (renScore σ p)) (renSBallot σ bn.1, bn.2)) := by
    unfold renScore; rw [List.flatMap_map]
  rw [this]
  exact List.Perm.flatMap_left _ (fun bn _ => ballotIncs_ren hσ unscored (allCp_ren hσ p) bn)

/-- **the pairwise counts commute with the renaming** (as a map) -/
theorem getPair_pairCounts_ren {σ : Cand → Cand} (hσ : Function.Injective σ) (unscored : Option Rat) (p : SProfile)
    (a b : Cand) : getPair (pairCounts unscored (renScore σ p)) (σ a) (σ b) = getPair (pairCounts unscored p) a b := by
  rw [getPair_pairCounts, getPair_pairCounts, (((pcIncs_ren hσ unscored p).filter _).map _).sum_eq,
    List.filter_map, List.map_map]
  congr 1
  have : (pcIncs unscored p).filter ((fun t : (Cand × Cand) × Int => decide (t.1 = (σ a, σ b))) ∘ renInc σ) =
      (pcIncs unscored p).filter (fun t => decide (t.1 = (a, b))) := by
    apply List.filter_congr
    intro t _
    show decide ((renInc σ t).1 = (σ a, σ b)) = decide (t.1 = (a, b))
    rw [decide_eq_decide]
    constructor
    · intro e; exact pair_inj hσ e
    · intro e; show renPair σ t.1 = _; rw [e]; rfl
  rw [this]
  rfl

theorem getPair_pairCounts_nonneg (unscored : Option Rat) {p : SProfile} (hnn : ∀ bn ∈ p, 0 ≤ bn.2) (a b : Cand) :
    0 ≤ getPair (pairCounts unscored p) a b := by
  rw [getPair_pairCounts]
  apply List.sum_nonneg
  intro x hx
  obtain ⟨t, ht, rfl⟩ := List.mem_map.mp hx
  have ht' := (List.mem_filter.mp ht).1
  unfold pcIncs at ht'
  obtain ⟨bn, hbn, htb⟩ := List.mem_flatMap.mp ht'
  unfold ballotIncs at htb
  obtain ⟨q, _, rfl⟩ := List.mem_map.mp htb
  exact hnn bn hbn

/-! ### run-off members and the member matrix -/

theorem slotNames_ren (σ : Cand → Cand) (s : Slot) : slotNames (renSlot σ s) = (slotNames s).map σ := by
  cases s <;> rfl

theorem starMembers_ren {σ : Cand → Cand} (hσ : Function.Injective σ) (sel : List Slot) :
    (starMembers (sel.map (renSlot σ))).Perm ((starMembers sel).map σ) := by
  apply (List.perm_ext_iff_of_nodup (starMembers_spec _).2 ((starMembers_spec sel).2.map hσ)).mpr
  intro x
  rw [(starMembers_spec _).1, List.mem_map]
  constructor
  · rintro ⟨s', hs', hx⟩
    obtain ⟨s, hs, rfl⟩ := List.mem_map.mp hs'
    rw [slotNames_ren] at hx
    obtain ⟨c, hc, rfl⟩ := List.mem_map.mp hx
    exact ⟨c, ((starMembers_spec sel).1 c).mpr ⟨s, hs, hc⟩, rfl⟩
  · rintro ⟨c, hc, rfl⟩
    obtain ⟨s, hs, hcs⟩ := ((starMembers_spec sel).1 c).mp hc
    exact ⟨renSlot σ s, List.mem_map.mpr ⟨s, hs, rfl⟩, by rw [slotNames_ren]; exact List.mem_map.mpr ⟨c, hcs, rfl⟩⟩

theorem memberPairs_ren {σ : Cand → Cand} (hσ : Function.Injective σ) {all all' : PairCounts}
    (hall : ∀ a b, getPair all' (σ a) (σ b) = getPair all a b) {ms ms' : List Cand} (hnd : ms.Nodup)
    (hms : ms'.Perm (ms.map σ)) : (memberPairs all' ms').Perm (renPC σ (memberPairs all ms)) := by
  have hnd' : ms'.Nodup := hms.nodup_iff.mpr (hnd.map hσ)
  have hk : (renPC σ (memberPairs all ms)).map (·.1) = ((memberPairs all ms).map (·.1)).map (renPair σ) := by
    unfold renPC; rw [List.map_map, List.map_map]; rfl
  apply (List.perm_ext_iff_of_nodup (List.Nodup.of_map _ (memberPairs_keys_nodup all' hnd'))
    (List.Nodup.of_map (·.1) (by rw [hk]; exact (memberPairs_keys_nodup all hnd).map (pair_inj hσ)))).mpr
  rintro ⟨⟨x, y⟩, v⟩
  rw [mem_memberPairs]
  unfold renPC
  simp only [List.mem_map, hms.mem_iff]
  constructor
  · rintro ⟨⟨a, ha, rfl⟩, ⟨b, hb, rfl⟩, hne, hv⟩
    refine ⟨((a, b), getPair all a b), mem_memberPairs.mpr ⟨ha, hb, fun e => hne (congrArg σ e), rfl⟩, ?_⟩
    simp only [hv, hall]
  · rintro ⟨t, ht, he⟩
    obtain ⟨h1, h2, h3, h4⟩ := mem_memberPairs.mp ht
    simp only [Prod.mk.injEq] at he
    obtain ⟨⟨rfl, rfl⟩, rfl⟩ := he
    exact ⟨⟨_, h1, rfl⟩, ⟨_, h2, rfl⟩, fun e => h3 (hσ e), by rw [hall, h4]⟩

theorem pcwf_memberPairs {all : PairCounts} (hnn : ∀ a b, 0 ≤ getPair all a b) {ms : List Cand} (hnd : ms.Nodup) :
    PCWF (memberPairs all ms) := by
  refine ⟨memberPairs_keys_nodup all hnd, ?_, ?_⟩
  · intro t ht; exact (mem_memberPairs.mp ht).2.2.1
  · intro t ht; rw [(mem_memberPairs.mp ht).2.2.2]; exact hnn _ _

end VL.Perm.Star

namespace VL.Perm
open VL VL.Score VL.C10

/-- **`STAR.evaluate`: candidate names do not matter.**  For every injective renaming `σ` (monotone or not) of a profile
    with non-negative ballot counts, every setting and number of seats: the same exception, or the renamed selection up
    to `SlotsEquiv`.  (`renScore σ p` lists the renamed candidates of each ballot in the old order; combine with
    `star_perm` for another order of the ballots.) -/
theorem star_rename {σ : Cand → Cand} (hσ : Function.Injective σ) (ac : Nat) (af : Rat) (cfg : Cfg) (p : SProfile)
    (hnn : ∀ bn ∈ p, 0 ≤ bn.2) (n : Nat) :
    ExceptEquiv (fun r' r => SlotsEquiv r' (r.map (renSlot σ)))
      (Score.star ac af cfg (renScore σ p) n) (Score.star ac af cfg p n) := by
  unfold Score.star starRunoff
  rw [convert_rename hσ]
  cases convert { cfg with fn := .sum } p with
  | error e => exact rfl
  | ok agg =>
    simp only [Except.map, bind, Except.bind, pure, Except.pure]
    rw [getNBest_rename]
    have hms := Star.starMembers_ren hσ (getNBest agg (starSize ac af n))
    have hnd := (starMembers_spec (getNBest agg (starSize ac af n))).2
    have hlen : (starMembers ((getNBest agg (starSize ac af n)).map (renSlot σ))).length =
        (starMembers (getNBest agg (starSize ac af n))).length := by rw [hms.length_eq, List.length_map]
    rw [hlen]
    split
    · rename_i hle
      have heq : starMembers ((getNBest agg (starSize ac af n)).map (renSlot σ)) =
          (starMembers (getNBest agg (starSize ac af n))).map σ :=
        Star.perm_short_eq hms (by rw [hlen]; exact hle)
      rw [heq]
      have e : (((starMembers (getNBest agg (starSize ac af n))).take n).map Slot.cand).map (renSlot σ) =
          (((starMembers (getNBest agg (starSize ac af n))).map σ).take n).map Slot.cand := by
        simp only [List.map_take, List.map_map, renSlot, Function.comp_def]
      show SlotsEquiv _ ((((starMembers (getNBest agg (starSize ac af n))).take n).map Slot.cand).map (renSlot σ))
      rw [e]
      exact slotsEquiv_refl _ ⟨((starMembers (getNBest agg (starSize ac af n))).map σ).take n, [], 0, by simp⟩
    · have hpairs := Star.memberPairs_ren hσ (Star.getPair_pairCounts_ren hσ (starUnscored cfg) p) hnd hms
      have hwf := Star.pcwf_memberPairs (Star.getPair_pairCounts_nonneg (starUnscored cfg) hnn) hnd
      exact slotsEquiv_trans
        (star_schulze_perm hpairs (memberPairs_keys_nodup _ (hms.nodup_iff.mpr (hnd.map hσ))) n)
        (Star.schulze_renPC hσ hwf n)

/-- the same with the renamed ballots presented in any order -/
theorem star_rename_perm {σ : Cand → Cand} (hσ : Function.Injective σ) (ac : Nat) (af : Rat) (cfg : Cfg) (p p' : SProfile)
    (hnn : ∀ bn ∈ p, 0 ≤ bn.2) (h : p'.Perm (renScore σ p)) (n : Nat) :
    ExceptEquiv (fun r' r => SlotsEquiv r' (r.map (renSlot σ)))
      (Score.star ac af cfg p' n) (Score.star ac af cfg p n) := by
  have h1 := star_perm ac af cfg h n
  have h2 := star_rename hσ ac af cfg p hnn n
  cases hx : Score.star ac af cfg p' n with
  | error e1 =>
    cases hy : Score.star ac af cfg (renScore σ p) n with
    | error e2 =>
      cases hz : Score.star ac af cfg p n with
      | error e3 => rw [hx, hy] at h1; rw [hy, hz] at h2; exact Eq.trans h1 h2
      | ok c => rw [hy, hz] at h2; exact h2.elim
    | ok b => rw [hx, hy] at h1; exact h1.elim
  | ok a =>
    cases hy : Score.star ac af cfg (renScore σ p) n with
    | error e2 => rw [hx, hy] at h1; exact h1.elim
    | ok b =>
      cases hz : Score.star ac af cfg p n with
      | error e3 => rw [hy, hz] at h2; exact h2.elim
      | ok c => rw [hx, hy] at h1; rw [hy, hz] at h2; exact slotsEquiv_trans h1 h2

example : Function.Injective (fun c : Nat => if c = 0 then 7 else if c = 1 then 3 else if c = 2 then 5 else c + 10) := by
  intro a b h
  simp only at h
  split_ifs at h <;> omega

/-- non-vacuity: the renaming 0 ↦ 7, 1 ↦ 3, 2 ↦ 5 (not monotone) of the C12 run-off example -/
example : Score.star 1 0 { fn := .sum, unscored := .none, minCount := 0, trunc := .off, bottom := 0 }
    (renScore (fun c => if c = 0 then 7 else if c = 1 then 3 else if c = 2 then 5 else c + 10)
      [([(0, 5), (1, 0), (2, 0)], 2), ([(0, 1), (1, 2), (2, 0)], 3)]) 1 = .ok [Slot.cand 3] := by decide +kernel

end VL.Perm
