/-
  Weight of a class of ballots (`P : Ballot → Bool`) held in an allocation: conserved by transfers.
  Used for the mutual-majority theorem (P = "solid for S") in Props/C04.lean.
-/
import VotelibProofs.Lemmas.STVTotal
namespace VL.STV
open VL

/-- weight of the papers of a pile whose ballot satisfies `P` -/
def pileTotalP (P : Ballot → Bool) (p : Pile) : Rat := pileTotal (p.filter (fun bw => P bw.1))

/-- weight of the papers satisfying `P` in the whole allocation -/
def heldP (P : Ballot → Bool) (a : Alloc) : Rat := (a.map (fun hp => pileTotalP P hp.2)).sum

@[simp] theorem pileTotalP_nil (P : Ballot → Bool) : pileTotalP P [] = 0 := rfl

theorem pileTotalP_cons (P : Ballot → Bool) (bw : Ballot × Rat) (p : Pile) :
    pileTotalP P (bw :: p) = (if P bw.1 then bw.2 else 0) + pileTotalP P p := by
  unfold pileTotalP
  rw [List.filter_cons]
  split <;> simp

theorem pileTotalP_append (P : Ballot → Bool) (p q : Pile) :
    pileTotalP P (p ++ q) = pileTotalP P p + pileTotalP P q := by
  induction p with
  | nil => simp
  | cons x xs ih => rw [List.cons_append, pileTotalP_cons, pileTotalP_cons, ih]; ring

theorem pileTotalP_pileAdd (P : Ballot → Bool) (p : Pile) (b : Ballot) (w : Rat) :
    pileTotalP P (pileAdd p b w) = pileTotalP P p + (if P b then w else 0) := by
  induction p with
  | nil => simp only [pileAdd, pileTotalP_cons, pileTotalP_nil]; split <;> simp
  | cons x xs ih =>
    obtain ⟨b', w'⟩ := x
    simp only [pileAdd]
    split
    · rename_i hb
      subst hb
      simp only [pileTotalP_cons]
      split <;> ring
    · simp only [pileTotalP_cons, ih]; ring

@[simp] theorem heldP_nil (P : Ballot → Bool) : heldP P [] = 0 := rfl

theorem heldP_cons (P : Ballot → Bool) (hp : Option Cand × Pile) (a : Alloc) :
    heldP P (hp :: a) = pileTotalP P hp.2 + heldP P a := by simp [heldP]

theorem heldP_allocAdd (P : Ballot → Bool) (a : Alloc) (h : Option Cand) (b : Ballot) (w : Rat) :
    heldP P (allocAdd a h b w) = heldP P a + (if P b then w else 0) := by
  induction a with
  | nil => simp only [allocAdd, heldP_cons, heldP_nil, pileTotalP_pileAdd, pileTotalP_nil]; ring
  | cons x xs ih =>
    obtain ⟨h', p⟩ := x
    simp only [allocAdd]
    split
    · simp only [heldP_cons, pileTotalP_pileAdd]; ring
    · simp only [heldP_cons, ih]; ring

theorem heldP_foldAdd (P : Ballot → Bool) (a : Alloc) (b : Ballot) (r : List (Cand × Rat)) :
    heldP P (foldAdd a b r) = heldP P a + (if P b then (r.map (·.2)).sum else 0) := by
  induction r generalizing a with
  | nil => simp [foldAdd_nil]
  | cons x xs ih =>
    rw [foldAdd_cons, ih, heldP_allocAdd]
    split <;> simp <;> ring

theorem heldP_moveBallot {E : Engine} (hE : EngineOK E) (P : Ballot → Bool) {cont : List Cand} {frm : Option Cand}
    {a a' : Alloc} {b : Ballot} {w : Rat} {ds ds' : List Draw}
    (h : moveBallot E cont frm a b w ds = .ok (a', ds')) :
    heldP P a' = heldP P a + (if P b then w else 0) := by
  unfold moveBallot at h
  split at h
  · injection h with h; injection h with h1 h2; subst h1; exact heldP_allocAdd P a none b w
  · injection h with h; injection h with h1 h2; subst h1; exact heldP_allocAdd P a _ b w
  · rename_i hn1 hn2
    cases hs : E.split (rankedNext b frm cont) w ds with
    | error e => rw [hs] at h; simp [bind, Except.bind] at h
    | ok v =>
      obtain ⟨r, ds1⟩ := v
      rw [hs] at h
      simp only [bind, Except.bind, pure, Except.pure] at h
      injection h with h; injection h with h1 h2
      have hfold : a' = foldAdd a b r := h1.symm
      subst hfold
      rw [heldP_foldAdd, hE.split_sum hs (by intro he; exact hn1 he)]

theorem heldP_movePile {E : Engine} (hE : EngineOK E) (P : Ballot → Bool) {cont : List Cand} {frm : Option Cand}
    {pile : Pile} {a a' : Alloc} {ds ds' : List Draw}
    (h : movePile E cont frm pile a ds = .ok (a', ds')) :
    heldP P a' = heldP P a + pileTotalP P pile := by
  induction pile generalizing a ds with
  | nil =>
    simp only [movePile] at h
    injection h with h; injection h with h1 h2; subst h1; simp
  | cons bw rest ih =>
    obtain ⟨b, w⟩ := bw
    simp only [movePile] at h
    cases hm : moveBallot E cont frm a b w ds with
    | error e => rw [hm] at h; simp [bind, Except.bind] at h
    | ok v =>
      obtain ⟨a1, ds1⟩ := v
      rw [hm] at h
      simp only [bind, Except.bind] at h
      rw [ih h, heldP_moveBallot hE P hm, pileTotalP_cons]; ring

theorem heldP_erase (P : Ballot → Bool) {a : Alloc} (hk : KeysNodup a) (h : Option Cand) :
    heldP P (allocErase a h) + pileTotalP P (allocPile a h) = heldP P a := by
  induction a with
  | nil => simp [allocErase, allocPile]
  | cons y ys ih =>
    obtain ⟨h', p⟩ := y
    have hk' : KeysNodup ys := (List.nodup_cons.mp hk).2
    have hnot : h' ∉ allocKeys ys := (List.nodup_cons.mp hk).1
    by_cases he : h' = h
    · subst he
      have hfil : allocErase ys h' = ys := by
        unfold allocErase
        rw [List.filter_eq_self]
        intro hp hhp
        simp only [ne_eq, decide_not, Bool.not_eq_eq_eq_not, Bool.not_true, decide_eq_false_iff_not]
        intro hc
        exact hnot (by rw [← hc]; exact List.mem_map_of_mem hhp)
      have e1 : allocErase ((h', p) :: ys) h' = ys := by
        unfold allocErase at hfil ⊢
        rw [List.filter_cons, hfil]; simp
      rw [e1, allocPile_cons, if_pos rfl, heldP_cons]; ring
    · have e1 : allocErase ((h', p) :: ys) h = (h', p) :: allocErase ys h := by
        unfold allocErase; rw [List.filter_cons]; simp [he]
      rw [e1, allocPile_cons, if_neg he, heldP_cons, heldP_cons, ← ih hk']; ring

theorem heldP_transferGo {E : Engine} (hE : EngineOK E) (P : Ballot → Bool) {cont : List Cand} {rs : List Cand}
    {a a' : Alloc} {ds ds' : List Draw} (hk : KeysNodup a) (hc : ∀ t ∈ cont, t ∈ continuing a)
    (hr : ∀ c ∈ rs, c ∉ cont) (h : transferGo E cont rs a ds = .ok (a', ds')) : heldP P a' = heldP P a := by
  induction rs generalizing a ds with
  | nil =>
    simp only [transferGo] at h
    injection h with h; injection h with h1 h2; subst h1; rfl
  | cons c rest ih =>
    simp only [transferGo] at h
    cases hm : movePile E cont (some c) (allocPile a (some c)) (allocErase a (some c)) ds with
    | error e => rw [hm] at h; simp [bind, Except.bind] at h
    | ok v =>
      obtain ⟨a1, ds1⟩ := v
      rw [hm] at h
      simp only [bind, Except.bind] at h
      have hcc : c ∉ cont := hr c List.mem_cons_self
      have hc0 : ∀ t ∈ cont, t ∈ continuing (allocErase a (some c)) := by
        intro t ht
        rw [continuing_erase]
        refine List.mem_filter.mpr ⟨hc t ht, ?_⟩
        have : t ≠ c := fun he => hcc (he ▸ ht)
        simpa using this
      have s1 := movePile_spec hE hc0 hm
      rw [ih (s1.keys (hk.erase _)) (by rw [s1.cont_eq]; exact hc0) (fun d hd => hr d (List.mem_cons_of_mem _ hd)) h,
        heldP_movePile hE P hm, heldP_erase P hk]

theorem heldP_transferIf {E : Engine} (hE : EngineOK E) (P : Ballot → Bool) {a a' : Alloc} {elim : List Cand}
    {ds ds' : List Draw} (hk : KeysNodup a) (h : transferIf E a elim ds = .ok (a', ds')) :
    heldP P a' = heldP P a := by
  rw [transferIf_eq] at h
  unfold transfer at h
  exact heldP_transferGo hE P hk (fun t ht => (List.mem_filter.mp ht).1)
    (fun c hc hcc => by
      have h1 := (List.mem_filter.mp hc).2
      have h2 := (List.mem_filter.mp hcc).2
      simp at h1 h2
      exact h2 h1) h


/-! ### where the weight of a class of ballots lies -/

theorem pileTotalP_le {P : Ballot → Bool} {p : Pile} (hp : ∀ x ∈ p, 0 ≤ x.2) : pileTotalP P p ≤ pileTotal p := by
  induction p with
  | nil => simp
  | cons x xs ih =>
    have h0 := hp x List.mem_cons_self
    have := ih (fun y hy => hp y (List.mem_cons_of_mem _ hy))
    rw [pileTotalP_cons, pileTotal_cons]
    split <;> linarith

theorem pileTotalP_nonneg {P : Ballot → Bool} {p : Pile} (hp : ∀ x ∈ p, 0 ≤ x.2) : 0 ≤ pileTotalP P p :=
  pileTotal_nonneg (fun x hx => hp x (List.mem_filter.mp hx).1)

theorem pileTotalP_zero {P : Ballot → Bool} {p : Pile} (h : ∀ x ∈ p, P x.1 = false) : pileTotalP P p = 0 := by
  unfold pileTotalP
  have : p.filter (fun bw => P bw.1) = [] := by
    rw [List.filter_eq_nil_iff]; intro x hx; simp [h x hx]
  rw [this]; simp

theorem pileTotal_split (P : Ballot → Bool) (p : Pile) :
    pileTotal p = pileTotalP P p + pileTotalP (fun b => !P b) p := by
  induction p with
  | nil => simp
  | cons x xs ih =>
    rw [pileTotal_cons, pileTotalP_cons, pileTotalP_cons, ih]
    cases P x.1 <;> simp <;> ring

theorem held_split (P : Ballot → Bool) (a : Alloc) : held a = heldP P a + heldP (fun b => !P b) a := by
  induction a with
  | nil => simp
  | cons y ys ih => rw [held_cons, heldP_cons, heldP_cons, ih, pileTotal_split P y.2]; ring

theorem heldP_nonneg {P : Ballot → Bool} {a : Alloc} (hn : NonNeg a) : 0 ≤ heldP P a := by
  induction a with
  | nil => simp
  | cons y ys ih =>
    rw [heldP_cons]
    exact add_nonneg (pileTotalP_nonneg (hn y List.mem_cons_self))
      (ih (fun hp hhp => hn hp (List.mem_cons_of_mem _ hhp)))

theorem pileTotalP_le_heldP {P : Ballot → Bool} {a : Alloc} (hn : NonNeg a) (h : Option Cand) :
    pileTotalP P (allocPile a h) ≤ heldP P a := by
  induction a with
  | nil => simp [allocPile]
  | cons y ys ih =>
    obtain ⟨k, p⟩ := y
    have hys : NonNeg ys := fun hp hhp => hn hp (List.mem_cons_of_mem _ hhp)
    have h1 : 0 ≤ pileTotalP P p := pileTotalP_nonneg (hn (k, p) List.mem_cons_self)
    have h2 := heldP_nonneg (P := P) hys
    rw [allocPile_cons, heldP_cons]
    split
    · simp only; linarith
    · have := ih hys; simp only; linarith

/-- a holder without any `P`-paper holds at most what is not `P`-weight -/
theorem total_add_heldP_le {P : Ballot → Bool} {a : Alloc} (hn : NonNeg a) {h : Option Cand}
    (hno : ∀ x ∈ allocPile a h, P x.1 = false) : pileTotal (allocPile a h) + heldP P a ≤ held a := by
  rw [held_split P a, pileTotal_split P (allocPile a h), pileTotalP_zero hno]
  have := pileTotalP_le_heldP (P := fun b => !P b) hn h
  linarith

/-- if every `P`-paper lies with `x`, then `x` holds all the `P`-weight -/
theorem heldP_le_total {P : Ballot → Bool} {a : Alloc} (hk : KeysNodup a) (hn : NonNeg a) {x : Cand}
    (hall : ∀ hp ∈ a, hp.1 ≠ some x → ∀ y ∈ hp.2, P y.1 = false) : heldP P a ≤ pileTotal (allocPile a (some x)) := by
  have key : heldP P a = pileTotalP P (allocPile a (some x)) := by
    induction a with
    | nil => simp [allocPile]
    | cons y ys ih =>
      obtain ⟨k, p⟩ := y
      have hk' : KeysNodup ys := (List.nodup_cons.mp hk).2
      have hnot : k ∉ allocKeys ys := (List.nodup_cons.mp hk).1
      have hys : NonNeg ys := fun hp hhp => hn hp (List.mem_cons_of_mem _ hhp)
      have hall' : ∀ hp ∈ ys, hp.1 ≠ some x → ∀ y ∈ hp.2, P y.1 = false :=
        fun hp hhp => hall hp (List.mem_cons_of_mem _ hhp)
      rw [heldP_cons, allocPile_cons]
      by_cases hkx : k = some x
      · rw [if_pos hkx]
        have hzero : heldP P ys = 0 := by
          have : ∀ hp ∈ ys, pileTotalP P hp.2 = 0 := by
            intro hp hhp
            apply pileTotalP_zero
            apply hall' hp hhp
            intro e
            exact hnot (by rw [hkx, ← e]; exact List.mem_map_of_mem hhp)
          unfold heldP
          rw [List.map_congr_left (g := fun _ => (0 : Rat)) this]
          simp
        simp only [hzero, add_zero]
      · rw [if_neg hkx, ih hk' hys hall']
        have : pileTotalP P p = 0 := pileTotalP_zero (hall (k, p) List.mem_cons_self hkx)
        simp only [this, zero_add]
  rw [key]
  exact pileTotalP_le (hn.pile _)

/-! ### the initial allocation holds all non-empty `P`-ballots -/

theorem heldP_firstPrefs (P : Ballot → Bool) (votes : Profile) :
    heldP P (firstPrefs votes) = ((allRanked votes).map (fun c => pileTotalP P (votes.filter (firstIs c)))).sum := by
  unfold firstPrefs heldP
  rw [List.map_map]
  rfl

theorem heldP_init {E : Engine} (hE : EngineOK E) (P : Ballot → Bool) {votes : Profile} {ds ds' : List Draw} {a0 : Alloc}
    (h : initialAllocation E votes ds = .ok (a0, ds')) :
    heldP P a0 + emptyWeight (votes.filter (fun bw => P bw.1)) = totalVotes (votes.filter (fun bw => P bw.1)) := by
  unfold initialAllocation at h
  rw [heldP_movePile hE P h, heldP_firstPrefs]
  have hsf := split_first (votes.filter (fun bw => P bw.1)) (allRanked_nodup votes)
    (fun bw hbw c rest he => first_mem_allRanked (List.mem_filter.mp hbw).1 he)
  have e1 : ∀ c, pileTotalP P (votes.filter (firstIs c)) = pileTotal ((votes.filter (fun bw => P bw.1)).filter (firstIs c)) := by
    intro c
    unfold pileTotalP
    rw [List.filter_filter, List.filter_filter]
    congr 1
    apply List.filter_congr
    intro x _
    exact Bool.and_comm _ _
  have e2 : pileTotalP P (fictionalPile votes) = pileTotal (fictionalPile (votes.filter (fun bw => P bw.1))) := by
    unfold pileTotalP fictionalPile
    rw [List.filter_filter, List.filter_filter]
    congr 1
    apply List.filter_congr
    intro x _
    exact Bool.and_comm _ _
  rw [List.map_congr_left (fun c _ => e1 c), e2]
  exact hsf

end VL.STV
