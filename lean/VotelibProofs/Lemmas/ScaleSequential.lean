/-
  C11: the multi-seat sequential evaluators of the C08 extension (VotelibModel/ShapeSequential.lean) are scale invariant:
  Baldwin (Borda scores are linear in the ballot weights, subsetting is linear, every elimination reads the scores through
  `get_n_best` only) and PreferenceAddition — Bucklin, Oklahoma, any coefficient function, any number of seats, with or
  without the decoupling of shared ranks (round totals and the majority quota scale by `k`).
-/
import VotelibProofs.Lemmas.ScaleBucklin
import VotelibModel.ShapeSequential
namespace VL.Scale
open VL VL.Convert VL.ShapeSeq

/-! ### Baldwin -/

theorem negScores_scale (k : Rat) (hk : 0 < k) (p : RProfile) :
    negScores (scaleD k p) = (negScores p).map (scaleVotes k) := by
  unfold negScores
  rw [rankedToPositional_scale (.borda 0) k hk]
  cases rankedToPositional (.borda 0) p with
  | error e => rfl
  | ok d =>
    show Except.ok ((scaleD k d).map (fun e => (e.1, -e.2))) = Except.ok (scaleVotes k (d.map (fun e => (e.1, -e.2))))
    congr 1
    unfold scaleD scaleVotes
    rw [List.map_map, List.map_map]
    apply List.map_congr_left
    intro e _
    simp only [Function.comp, mul_neg]

theorem subsetted_scale {κ : Type} [DecidableEq κ] (k : Rat) (sub : κ → Option κ) (p : Dict κ) :
    subsetted sub (scaleD k p) = scaleD k (subsetted sub p) := by
  unfold subsetted
  exact foldl_sim (scaleD (κ := κ) k)
    (fun acc (bw : κ × Rat) => match sub bw.1 with
      | none => acc
      | some key => addTo acc key bw.2)
    (fun acc (bw : κ × Rat) => match sub bw.1 with
      | none => acc
      | some key => addTo acc key bw.2)
    (fun bw => (bw.1, k * bw.2))
    (by
      intro s bw
      simp only
      cases sub bw.1 with
      | none => rfl
      | some key => exact addTo_scale k s key bw.2)
    p []

theorem rankedSubset_scale (k : Rat) (p : RProfile) (subset : List Cand) :
    rankedSubset (scaleD k p) subset = scaleD k (rankedSubset p subset) := subsetted_scale k _ p

theorem baldwinLoop_scale (k : Rat) (hk : 0 < k) (n : Nat) : ∀ (f : Nat) (cur : RProfile) (neg : Votes),
    baldwinLoop n f (scaleD k cur) (scaleVotes k neg) = baldwinLoop n f cur neg := by
  intro f
  induction f with
  | zero => intro cur neg; rfl
  | succ f ih =>
    intro cur neg
    simp only [baldwinLoop, scaleVotes_length, getNBest_scaleC k hk, keys_scale, rankedSubset_scale, negScores_scale k hk]
    split
    · cases getNBest neg 1 with
      | nil => rfl
      | cons s rest =>
        cases s with
        | cand c =>
          simp only
          cases negScores (rankedSubset cur ((keys neg).filter (fun x => x ≠ c))) with
          | error e => rfl
          | ok neg' => exact ih _ neg'
        | tie T =>
          simp only
          split
          · cases negScores (rankedSubset cur ((keys neg).filter (fun c => c ∉ T))) with
            | error e => rfl
            | ok rs =>
              show Except.ok (getNBest (scaleVotes k rs) _ ++ _) = Except.ok (getNBest rs _ ++ _)
              rw [getNBest_scaleC k hk]
          · cases negScores (rankedSubset cur ((keys neg).filter (fun c => c ∉ T))) with
            | error e => rfl
            | ok neg' => exact ih _ neg'
    · rfl

/-- **Baldwin** (any number of seats) -/
theorem baldwin_scale (k : Rat) (hk : 0 < k) (p : RProfile) (n : Nat) : baldwin (scaleD k p) n = baldwin p n := by
  unfold baldwin
  rw [negScores_scale k hk]
  cases negScores p with
  | error e => rfl
  | ok neg =>
    show baldwinLoop n ((scaleVotes k neg).length + 1) (scaleD k p) (scaleVotes k neg) = _
    rw [scaleVotes_length, baldwinLoop_scale k hk]

/-! ### PreferenceAddition -/

theorem decoupleSeq_scale (k : Rat) (p : RProfile) : ShapeSeq.decouple (scaleD k p) = scaleD k (ShapeSeq.decouple p) := by
  unfold ShapeSeq.decouple
  exact foldl_sim (scaleD (κ := Ballot) k)
    (fun nv (bw : Ballot × Rat) =>
      if bw.1.any ShapeSeq.isShared then
        (variants bw.1).foldl (fun nv v => addTo nv v (bw.2 / ((variants bw.1).length : Rat))) (nv.filter (fun e => e.1 ≠ bw.1))
      else nv)
    (fun nv (bw : Ballot × Rat) =>
      if bw.1.any ShapeSeq.isShared then
        (variants bw.1).foldl (fun nv v => addTo nv v (bw.2 / ((variants bw.1).length : Rat))) (nv.filter (fun e => e.1 ≠ bw.1))
      else nv)
    (fun bw => (bw.1, k * bw.2))
    (by
      intro nv bw
      by_cases hs : bw.1.any ShapeSeq.isShared = true
      · simp only [hs, if_true, mul_div_assoc]
        have hf : (scaleD k nv).filter (fun e => decide (e.1 ≠ bw.1)) = scaleD k (nv.filter (fun e => decide (e.1 ≠ bw.1))) :=
          scaleD_filter_key k (fun b => decide (b ≠ bw.1)) nv
        rw [hf]
        exact foldl_addTo_scale k _ _ _
      · simp only [hs]; rfl)
    p p

theorem addRound_scale (k : Rat) (coef : Rat) (p : RProfile) (i : Nat) (elected : List Slot) (tot : Votes) :
    addRound coef (scaleD k p) i elected (scaleVotes k tot) = scaleVotes k (addRound coef p i elected tot) := by
  unfold addRound
  exact foldl_sim (scaleD (κ := Cand) k)
    (fun t (bw : Ballot × Rat) => match bw.1[i]? with
      | some it => it.cands.foldl (fun t c => if Slot.cand c ∈ elected then t else addTo t c (bw.2 * coef)) t
      | none => t)
    (fun t (bw : Ballot × Rat) => match bw.1[i]? with
      | some it => it.cands.foldl (fun t c => if Slot.cand c ∈ elected then t else addTo t c (bw.2 * coef)) t
      | none => t)
    (fun bw => (bw.1, k * bw.2))
    (by
      intro t bw
      simp only
      cases bw.1[i]? with
      | none => rfl
      | some it =>
        simp only
        apply foldl_sim' (scaleD (κ := Cand) k)
        intro s c
        split
        · rfl
        · rw [mul_assoc]; exact addTo_scale k s c (bw.2 * coef))
    p tot

theorem paLoop_scale (k : Rat) (hk : 0 < k) (coef : Nat → Rat) (p : RProfile) (q : Rat) (n : Nat) :
    ∀ (f i : Nat) (tot : Votes) (elected : List Slot),
      paLoop coef (scaleD k p) (k * q) n f i (scaleVotes k tot) elected = paLoop coef p q n f i tot elected := by
  intro f
  induction f with
  | zero => intro i tot elected; rfl
  | succ f ih =>
    intro i tot elected
    simp only [paLoop, addRound_scale, sortDesc_scale k hk]
    have hf : (scaleVotes k (sortDesc (addRound (coef i) p i elected tot))).filter (fun e => decide (k * q < e.2))
        = scaleVotes k ((sortDesc (addRound (coef i) p i elected tot)).filter (fun e => decide (q < e.2))) :=
      filter_scale k _ _ _ (fun e _ => by simp only [mul_lt_mul_iff_right₀ hk])
    rw [hf, getNBest_scaleC k hk]
    split
    · rfl
    · have hf2 : ∀ best : List Slot, (scaleVotes k (addRound (coef i) p i elected tot)).filter (fun e => decide (Slot.cand e.1 ∉ best))
          = scaleVotes k ((addRound (coef i) p i elected tot).filter (fun e => decide (Slot.cand e.1 ∉ best))) :=
        fun best => filter_scale k _ _ _ (fun _ _ => rfl)
      rw [hf2, ih]

/-- **PreferenceAddition** — Bucklin, Oklahoma, any coefficient function, any number of seats, split or not -/
theorem preferenceAddition_scale (k : Rat) (hk : 0 < k) (coef : Nat → Rat) (split : Bool) (p : RProfile) (n : Nat) :
    preferenceAddition coef split (scaleD k p) n = preferenceAddition coef split p n := by
  unfold preferenceAddition
  have hv : (if split then ShapeSeq.decouple (scaleD k p) else scaleD k p)
      = scaleD k (if split then ShapeSeq.decouple p else p) := by
    cases split
    · rfl
    · simp only [if_true, decoupleSeq_scale]
  simp only [hv, scaleD_isEmpty, sumValues_scale, maxLen_scale, mul_div_assoc]
  have := paLoop_scale k hk coef (if split then ShapeSeq.decouple p else p)
    (sumValues (if split then ShapeSeq.decouple p else p) / 2) n (maxLen (if split then ShapeSeq.decouple p else p)) 0 [] []
  rw [show scaleVotes k [] = [] from rfl] at this
  rw [this]

end VL.Scale
