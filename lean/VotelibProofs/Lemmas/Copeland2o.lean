/-
  Second-order Copeland: the candidates of a boundary tie are ordered by the sum of the Copeland scores of the
  candidates they beat.
-/
import VotelibProofs.Lemmas.BenhamSmith
import Mathlib.Algebra.BigOperators.Group.List.Basic
namespace VL.Condorcet
open VL

/-- first-order Copeland score: candidates beaten minus candidates that beat -/
def copelandScore (v : Pairwise) (c : Cand) : Rat :=
  (((candidates v).filter (fun o => decide (Beats v c o))).length : Rat)
    - (((candidates v).filter (fun o => decide (Beats v o c))).length : Rat)

/-- second-order score: the sum of the first-order scores of the candidates beaten -/
def secondOrderScore (v : Pairwise) (c : Cand) : Rat :=
  (((candidates v).filter (fun o => decide (Beats v c o))).map (copelandScore v)).sum

/-! ### the `tied` set is strictly ascending -/

theorem sorted_insertSorted (c : Cand) (l : List Cand) (h : l.Pairwise (· < ·)) : (insertSorted c l).Pairwise (· < ·) := by
  induction l with
  | nil => simp [insertSorted]
  | cons x xs ih =>
    rw [List.pairwise_cons] at h
    unfold insertSorted
    split
    · rename_i hlt
      rw [List.pairwise_cons]
      refine ⟨?_, List.pairwise_cons.2 h⟩
      intro a ha
      rcases List.mem_cons.1 ha with rfl | ha'
      · exact hlt
      · exact Nat.lt_trans hlt (h.1 a ha')
    · split
      · exact List.pairwise_cons.2 h
      · rename_i hnlt hne
        rw [List.pairwise_cons]
        refine ⟨?_, ih h.2⟩
        intro a ha
        rcases mem_insertSorted.1 ha with hac | ha'
        · rw [hac]; exact Nat.lt_of_le_of_ne (Nat.le_of_not_lt hnlt) (fun h => hne h.symm)
        · exact h.1 a ha'

theorem sorted_tiedOf (best : List Slot) : (tiedOf best).Pairwise (· < ·) := by
  unfold tiedOf
  apply foldl_preserves (fun acc : List Cand => acc.Pairwise (· < ·))
  · simp
  · intro acc s _ hacc
    cases s with
    | cand _ => exact hacc
    | tie cs =>
      simp only
      apply foldl_preserves (fun acc : List Cand => acc.Pairwise (· < ·)) _ _ _ hacc
      intro a c _ ha
      exact sorted_insertSorted c a ha

theorem nodup_tiedOf (best : List Slot) : (tiedOf best).Nodup :=
  (sorted_tiedOf best).imp (fun h => Nat.ne_of_lt h)

/-! ### the second-order dictionary -/

/-- adding to the entry of a key of a dictionary written as a map over its distinct keys -/
theorem incr_map (l : List Cand) (hl : l.Nodup) (f : Cand → Rat) (a : Cand) (k : Rat) (ha : a ∈ l) :
    incr (l.map (fun c => (c, f c))) a k = l.map (fun c => (c, if c = a then f c + k else f c)) := by
  induction l with
  | nil => simp at ha
  | cons x xs ih =>
    rw [List.nodup_cons] at hl
    simp only [List.map_cons, incr]
    by_cases hx : x = a
    · subst hx
      simp only [if_true, List.cons.injEq, true_and]
      apply List.map_congr_left
      intro c hc
      have : c ≠ x := fun h => hl.1 (h ▸ hc)
      simp [this]
    · simp only [hx, if_false, List.cons.injEq, true_and]
      rcases List.mem_cons.1 ha with h | h
      · exact absurd h.symm hx
      · exact ih hl.2 h

/-- the loop L253-255 of `break_second_order` -/
theorem sosFold_eq (tied : List Cand) (ht : tied.Nodup) (scores : Votes) (wins : List Pair) (f : Cand → Rat) :
    wins.foldl (fun d w => if tied.contains w.1 then incr d w.1 (getD scores w.2 0) else d)
        (tied.map (fun c => (c, f c))) =
      tied.map (fun c => (c, f c + ((wins.filter (fun w => w.1 = c)).map (fun w => getD scores w.2 0)).sum)) := by
  induction wins generalizing f with
  | nil => simp
  | cons w ws ih =>
    rw [List.foldl_cons]
    by_cases hc : tied.contains w.1 = true
    · rw [if_pos hc, incr_map tied ht f w.1 _ (List.contains_iff_mem.1 hc), ih]
      apply List.map_congr_left
      intro c _
      by_cases hcw : c = w.1
      · subst hcw
        simp [List.filter_cons]; ring
      · have : ¬ w.1 = c := fun h => hcw h.symm
        simp [List.filter_cons, hcw, this]
    · rw [if_neg hc, ih]
      apply List.map_congr_left
      intro c hcm
      have : ¬ w.1 = c := by
        rintro rfl
        exact hc (List.contains_iff_mem.2 hcm)
      simp [List.filter_cons, this]

/-- the losers of the wins of `c`, as a list, are a permutation of the candidates `c` beats -/
theorem losers_perm {v : Pairwise} (hwf : WF v) (c : Cand) :
    (((pairwiseWins v false).filter (fun w => w.1 = c)).map (·.2)).Perm
      ((candidates v).filter (fun o => decide (Beats v c o))) := by
  rw [List.perm_ext_iff_of_nodup]
  · intro o
    simp only [List.mem_map, List.mem_filter, decide_eq_true_eq]
    constructor
    · rintro ⟨⟨a, b⟩, ⟨hw, ha⟩, hb⟩
      simp only at ha hb
      subst ha; subst hb
      have := (mem_pairwiseWins hwf).1 hw
      exact ⟨(this.mem hwf).2, this⟩
    · rintro ⟨_, hb⟩
      exact ⟨(c, o), ⟨(mem_pairwiseWins hwf).2 hb, rfl⟩, rfl⟩
  · apply List.Nodup.map_on
    · rintro ⟨a, b⟩ ha ⟨a', b'⟩ ha' hbb
      simp only [List.mem_filter, decide_eq_true_eq] at ha ha'
      simp only at hbb
      rw [Prod.mk.injEq]
      exact ⟨ha.2.trans ha'.2.symm, hbb⟩
    · exact (nodup_pairwiseWins hwf false).filter _
  · exact (nodup_candidates v).filter _

theorem getD_seeded {v : Pairwise} (raw : Votes) {c : Cand} (hc : c ∈ candidates v) :
    getD (seededScores v raw) c 0 = getD raw c 0 := by
  have hmem : (c, getD raw c 0) ∈ seededScores v raw := mem_seededScores hc
  have hk : (keys (seededScores v raw)).Nodup := by rw [keys_seededScores]; exact nodup_candidates v
  have := (mem_iff_lookup hk).1 hmem
  simp [getD, this]

theorem copelandScore_eq {v : Pairwise} (hwf : WF v) (c : Cand) :
    getD (copelandScoresRaw (pairwiseWins v false)) c 0 = copelandScore v c := by
  rw [getD_copelandScoresRaw, winsBy_eq_filter hwf, lossesOf_eq_filter hwf]
  rfl

/-- the value `second_order_scores[c]` after the loop: the sum of the Copeland scores of the candidates `c` beats -/
theorem secondOrder_sum {v : Pairwise} (hwf : WF v) (c : Cand) :
    (((pairwiseWins v false).filter (fun w => w.1 = c)).map
      (fun w => getD (seededScores v (copelandScoresRaw (pairwiseWins v false))) w.2 0)).sum = secondOrderScore v c := by
  unfold secondOrderScore
  have h1 : ((pairwiseWins v false).filter (fun w => w.1 = c)).map
      (fun w => getD (seededScores v (copelandScoresRaw (pairwiseWins v false))) w.2 0) =
      (((pairwiseWins v false).filter (fun w => w.1 = c)).map (·.2)).map (copelandScore v) := by
    rw [List.map_map]
    apply List.map_congr_left
    rintro ⟨a, b⟩ hw
    have hwin := (List.mem_filter.1 hw).1
    have hb := (mem_pairwiseWins hwf).1 hwin
    simp only [Function.comp]
    rw [getD_seeded _ (hb.mem hwf).2, copelandScore_eq hwf]
  rw [h1]
  exact ((losers_perm hwf c).map (copelandScore v)).sum_eq

theorem mem_tiedOf {best : List Slot} {x : Cand} : x ∈ tiedOf best ↔ ∃ cs, Slot.tie cs ∈ best ∧ x ∈ cs := by
  unfold tiedOf
  have key : ∀ (l : List Slot) (acc : List Cand),
      x ∈ l.foldl (fun acc s => match s with
        | .tie cs => cs.foldl (fun a c => insertSorted c a) acc
        | .cand _ => acc) acc ↔ x ∈ acc ∨ ∃ cs, Slot.tie cs ∈ l ∧ x ∈ cs := by
    intro l
    induction l with
    | nil => intro acc; simp
    | cons s ss ih =>
      intro acc
      rw [List.foldl_cons, ih]
      cases s with
      | cand c =>
        simp only [List.mem_cons, reduceCtorEq, false_or]
      | tie cs =>
        have inner : ∀ (cs : List Cand) (a : List Cand), x ∈ cs.foldl (fun a c => insertSorted c a) a ↔ x ∈ a ∨ x ∈ cs := by
          intro cs
          induction cs with
          | nil => intro a; simp
          | cons y ys ih2 =>
            intro a
            rw [List.foldl_cons, ih2, mem_insertSorted, List.mem_cons]
            constructor
            · rintro ((h | h) | h)
              · exact Or.inr (Or.inl h)
              · exact Or.inl h
              · exact Or.inr (Or.inr h)
            · rintro (h | h | h)
              · exact Or.inl (Or.inr h)
              · exact Or.inl (Or.inl h)
              · exact Or.inr h
        simp only [inner, List.mem_cons, Slot.tie.injEq]
        constructor
        · rintro ((h | h) | ⟨cs', h1, h2⟩)
          · exact Or.inl h
          · exact Or.inr ⟨cs, Or.inl rfl, h⟩
          · exact Or.inr ⟨cs', Or.inr h1, h2⟩
        · rintro (h | ⟨cs', (rfl | h1), h2⟩)
          · exact Or.inl (Or.inl h)
          · exact Or.inl (Or.inr h2)
          · exact Or.inr ⟨cs', h1, h2⟩
  exact (key best []).trans (by simp)

/-- **the defining computation of second-order Copeland**, on the model, for every well-formed dictionary and every
    number of seats -/
theorem copeland2o_eq {v : Pairwise} (hwf : WF v) (n : Nat) :
    copeland true v n =
      (let best := getNBest ((candidates v).map (fun c => (c, copelandScore v c))) n
       if best.any isTie then
         best.filter (fun s => !isTie s) ++
           getNBest ((tiedOf best).map (fun c => (c, secondOrderScore v c)))
             (best.length - (best.filter (fun s => !isTie s)).length)
       else best) := by
  have hscores : seededScores v (copelandScoresRaw (pairwiseWins v false)) =
      (candidates v).map (fun c => (c, copelandScore v c)) := by
    unfold seededScores
    apply List.map_congr_left
    intro c _
    rw [copelandScore_eq hwf]
  unfold copeland
  simp only [Bool.true_and]
  rw [← hscores]
  split
  · unfold breakSecondOrder
    simp only
    congr 1
    congr 1
    have hfold : ∀ best : List Slot,
        (pairwiseWins v false).foldl (fun d w => if (tiedOf best).contains w.1 then
            incr d w.1 (getD (seededScores v (copelandScoresRaw (pairwiseWins v false))) w.2 0) else d)
          ((tiedOf best).map (fun c => (c, (0 : Rat)))) =
        (tiedOf best).map (fun c => (c, secondOrderScore v c)) := by
      intro best
      have := sosFold_eq (tiedOf best) (nodup_tiedOf best)
        (seededScores v (copelandScoresRaw (pairwiseWins v false))) (pairwiseWins v false) (fun _ => (0 : Rat))
      rw [this]
      apply List.map_congr_left
      intro c _
      rw [secondOrder_sum hwf, zero_add]
    exact hfold _
  · rfl

end VL.Condorcet
