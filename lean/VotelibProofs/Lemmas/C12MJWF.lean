/-
  C12, majority judgment: everything `corrected_scores` builds is a well-formed table (distinct candidates, distinct grades,
  non-negative counts), so the fuel adequacy and the equivalence with the one-by-one rule apply to the evaluator itself.
-/
import VotelibProofs.Lemmas.C12MJSpec
namespace VL.Score
open VL VL.Appr

set_option linter.unusedSimpArgs false

/-- a grade dict: distinct grades, non-negative counts -/
def DictWF (cs : CScores) : Prop := (ckeys cs).Nodup ∧ ∀ q ∈ cs, 0 ≤ q.2

theorem getCount_nonneg {cs : CScores} (h : ∀ q ∈ cs, 0 ≤ q.2) (s : Rat) : 0 ≤ getCount cs s := by
  unfold getCount
  cases hf : cs.find? (fun p => decide (p.1 = s)) with
  | none => exact le_refl _
  | some p => exact h p (List.mem_of_find?_eq_some hf)

theorem setCount_wf {cs : CScores} (h : DictWF cs) (s : Rat) {n : Int} (hn : 0 ≤ n) : DictWF (setCount cs s n) := by
  refine ⟨ckeys_setCount_nodup h.1 s n, ?_⟩
  intro q hq
  rcases setCount_entries cs s n q hq with h1 | h1
  · exact h.2 q h1
  · rw [h1]; exact hn

theorem addCount_wf {cs : CScores} (h : DictWF cs) (s : Rat) {n : Int} (hn : 0 ≤ n) : DictWF (addCount cs s n) := by
  unfold addCount
  exact setCount_wf h s (by have := getCount_nonneg h.2 s; omega)

theorem totalCount_setCount (cs : CScores) (s : Rat) (v : Int) :
    totalCount (setCount cs s v) = totalCount cs - getCount cs s + v := by
  induction cs with
  | nil => simp [setCount, totalCount, getCount]
  | cons p rest ih =>
    obtain ⟨k, v0⟩ := p
    by_cases hk : k = s
    · subst hk
      simp [setCount, totalCount, getCount_cons]; ring
    · have : totalCount ((k, v0) :: setCount rest s v) = v0 + totalCount (setCount rest s v) := by simp [totalCount]
      simp only [setCount, hk, if_false, this, ih, getCount_cons]
      simp [totalCount]; ring

theorem totalCount_addCount (cs : CScores) (s : Rat) (n : Int) : totalCount (addCount cs s n) = totalCount cs + n := by
  unfold addCount
  rw [totalCount_setCount]; ring

/-! ### `scores[cand][score] += n` -/

theorem addScore_keys (t : ScoreTable) (c : Cand) (s : Rat) (n : Int) :
    (addScore t c s n).map (·.1) = if c ∈ t.map (·.1) then t.map (·.1) else t.map (·.1) ++ [c] := by
  induction t with
  | nil => simp [addScore]
  | cons p rest ih =>
    obtain ⟨k, cs⟩ := p
    unfold addScore
    by_cases hk : k = c
    · subst hk; simp
    · rw [if_neg hk]
      have hck : ¬ c = k := fun h => hk h.symm
      simp only [List.map_cons, List.mem_cons, hck, false_or] at ih ⊢
      rw [ih]
      split <;> rename_i h <;> simp [h]

theorem addScore_entries (t : ScoreTable) (c : Cand) (s : Rat) (n : Int) :
    ∀ p ∈ addScore t c s n, p ∈ t ∨ (p.1 = c ∧ ((∃ cs, (c, cs) ∈ t ∧ p.2 = addCount cs s n) ∨ p.2 = addCount [] s n)) := by
  induction t with
  | nil => intro p hp; simp [addScore] at hp; subst hp; exact Or.inr ⟨rfl, Or.inr rfl⟩
  | cons q rest ih =>
    obtain ⟨k, cs⟩ := q
    intro p hp
    unfold addScore at hp
    by_cases hk : k = c
    · rw [if_pos hk] at hp
      rcases List.mem_cons.mp hp with rfl | hp
      · exact Or.inr ⟨hk, Or.inl ⟨cs, by rw [← hk]; exact List.mem_cons_self, rfl⟩⟩
      · exact Or.inl (List.mem_cons_of_mem _ hp)
    · rw [if_neg hk] at hp
      rcases List.mem_cons.mp hp with rfl | hp
      · exact Or.inl List.mem_cons_self
      · rcases ih p hp with h | ⟨h1, h2⟩
        · exact Or.inl (List.mem_cons_of_mem _ h)
        · refine Or.inr ⟨h1, ?_⟩
          rcases h2 with ⟨cs', hcs', he⟩ | h2
          · exact Or.inl ⟨cs', List.mem_cons_of_mem _ hcs', he⟩
          · exact Or.inr h2

/-- a table of raw grade dicts -/
def RawWF (t : ScoreTable) : Prop := (t.map (·.1)).Nodup ∧ ∀ p ∈ t, DictWF p.2

theorem addScore_wf {t : ScoreTable} (h : RawWF t) (c : Cand) (s : Rat) {n : Int} (hn : 0 ≤ n) : RawWF (addScore t c s n) := by
  refine ⟨?_, ?_⟩
  · rw [addScore_keys]
    split
    · exact h.1
    · rename_i hc
      rw [List.nodup_append]
      refine ⟨h.1, by simp, ?_⟩
      intro a ha b hb
      simp at hb; subst hb
      intro hab; subst hab; exact hc ha
  · intro p hp
    rcases addScore_entries t c s n p hp with h1 | ⟨_, ⟨cs, hcs, he⟩ | he⟩
    · exact h.2 p h1
    · rw [he]; exact addCount_wf (h.2 _ hcs) s hn
    · rw [he]; exact addCount_wf ⟨by simp [ckeys], by simp⟩ s hn

/-- total number of grades a table holds for a candidate -/
def tot (t : ScoreTable) (c : Cand) : Int :=
  match tableGet t c with
  | some cs => totalCount cs
  | none => 0

theorem tableGet_cons (p : Cand × CScores) (t : ScoreTable) (c : Cand) :
    tableGet (p :: t) c = if p.1 = c then some p.2 else tableGet t c := by
  unfold tableGet
  by_cases h : p.1 = c <;> simp [List.find?_cons, h]

theorem tot_addScore (t : ScoreTable) (c' : Cand) (s : Rat) (n : Int) (c : Cand) :
    tot (addScore t c' s n) c = tot t c + (if c = c' then n else 0) := by
  induction t with
  | nil =>
    unfold tot
    simp only [addScore, tableGet_cons]
    by_cases h : c' = c
    · subst h
      have := totalCount_addCount [] s n
      simp [tableGet, totalCount] at this ⊢
      exact this
    · have : ¬ c = c' := fun h' => h h'.symm
      simp [h, this, tableGet]
  | cons p rest ih =>
    obtain ⟨k, cs⟩ := p
    unfold addScore
    by_cases hk : k = c'
    · subst hk
      rw [if_pos rfl]
      unfold tot
      simp only [tableGet_cons]
      by_cases h : k = c
      · subst h; simp [totalCount_addCount]
      · have : ¬ c = k := fun h' => h h'.symm
        simp [h, this]
    · rw [if_neg hk]
      unfold tot at ih ⊢
      simp only [tableGet_cons]
      by_cases h : k = c
      · subst h
        have : ¬ k = c' := hk
        simp [this]
      · simp only [h, if_false]
        exact ih

theorem tot_of_mem {t : ScoreTable} (hnd : (t.map (·.1)).Nodup) {p : Cand × CScores} (hp : p ∈ t) : tot t p.1 = totalCount p.2 := by
  unfold tot
  induction t with
  | nil => cases hp
  | cons q rest ih =>
    have hq := List.nodup_cons.mp hnd
    rw [tableGet_cons]
    rcases List.mem_cons.mp hp with rfl | hp'
    · simp
    · have hne : ¬ q.1 = p.1 := fun he => hq.1 (List.mem_map.mpr ⟨p, hp', he.symm⟩)
      rw [if_neg hne]
      exact ih hq.2 hp'

/-- one ballot: the fold over its (candidate, grade) pairs -/
theorem ballot_fold (n : Int) (hn : 0 ≤ n) : ∀ (b : SBallot) (t : ScoreTable), RawWF t → (b.map (·.1)).Nodup →
    RawWF (b.foldl (fun t cs => addScore t cs.1 cs.2 n) t) ∧
    ∀ c, tot (b.foldl (fun t cs => addScore t cs.1 cs.2 n) t) c ≤ tot t c + (if c ∈ b.map (·.1) then n else 0) := by
  intro b
  induction b with
  | nil => intro t h _; exact ⟨h, fun c => by simp⟩
  | cons x xs ih =>
    intro t h hnd
    have hx := List.nodup_cons.mp hnd
    obtain ⟨i1, i2⟩ := ih (addScore t x.1 x.2 n) (addScore_wf h x.1 x.2 hn) hx.2
    refine ⟨i1, ?_⟩
    intro c
    have := i2 c
    rw [tot_addScore] at this
    simp only [List.foldl_cons, List.map_cons, List.mem_cons]
    by_cases hcx : c = x.1
    · have hnot : c ∉ xs.map (·.1) := by rw [hcx]; exact hx.1
      subst hcx
      simp only [if_true, true_or] at this ⊢
      rw [if_neg hnot] at this
      omega
    · simp only [hcx, if_false, false_or] at this ⊢
      simpa using this

/-- the votes as the evaluators receive them: non-negative counts, every ballot grades a candidate at most once -/
def VotesOK (votes : SProfile) : Prop := (∀ bn ∈ votes, 0 ≤ bn.2) ∧ ∀ bn ∈ votes, (bn.1.map (·.1)).Nodup

theorem rawScores_fold : ∀ (votes : SProfile) (t : ScoreTable), RawWF t → VotesOK votes →
    RawWF (votes.foldl (fun t bn => bn.1.foldl (fun t cs => addScore t cs.1 cs.2 bn.2) t) t) ∧
    ∀ c, tot (votes.foldl (fun t bn => bn.1.foldl (fun t cs => addScore t cs.1 cs.2 bn.2) t) t) c ≤ tot t c + totalVotes votes := by
  intro votes
  induction votes with
  | nil => intro t h _; exact ⟨h, fun c => by simp [totalVotes]⟩
  | cons bn rest ih =>
    intro t h hok
    have hn := hok.1 bn List.mem_cons_self
    obtain ⟨b1, b2⟩ := ballot_fold bn.2 hn bn.1 t h (hok.2 bn List.mem_cons_self)
    obtain ⟨i1, i2⟩ := ih _ b1 ⟨fun x hx => hok.1 x (List.mem_cons_of_mem _ hx), fun x hx => hok.2 x (List.mem_cons_of_mem _ hx)⟩
    refine ⟨i1, ?_⟩
    intro c
    have h1 := i2 c
    have h2 := b2 c
    simp only [List.foldl_cons]
    have : totalVotes (bn :: rest) = bn.2 + totalVotes rest := by simp [totalVotes]
    rw [this]
    split at h2 <;> omega

theorem rawScores_wf {votes : SProfile} (hok : VotesOK votes) :
    RawWF (rawScores votes) ∧ ∀ p ∈ rawScores votes, totalCount p.2 ≤ totalVotes votes := by
  obtain ⟨h1, h2⟩ := rawScores_fold votes [] ⟨by simp, by simp⟩ hok
  refine ⟨h1, ?_⟩
  intro p hp
  have := h2 p.1
  rw [tot_of_mem h1.1 hp] at this
  simpa [tot, tableGet] using this

end VL.Score

namespace VL.Score
open VL VL.Appr

set_option linter.unusedSimpArgs false

theorem subtractLowest_wf {cs : CScores} (h : DictWF cs) {ks : List Rat} (hks : ks.Nodup) {cutoff : Int} (hc : 0 ≤ cutoff) :
    DictWF (subtractLowest cs ks cutoff) := by
  unfold subtractLowest
  obtain ⟨_, _, h3, h4⟩ := subtractLowest_go cutoff ks cs 0 hks hc (getCount_nonneg h.2) h.1
  refine ⟨h4, ?_⟩
  intro q hq
  have := h3 q.1
  rwa [getCount_of_mem h4 (show (q.1, q.2) ∈ _ from hq)] at this

/-- the fraction of a `Trunc.frac` is not negative (the documented domain is (0, 1)) -/
def TruncOK : Trunc → Prop
  | .frac r => 0 ≤ r
  | _ => True

theorem pyInt_nonneg {x : Rat} (hx : 0 ≤ x) : 0 ≤ Py.pyInt x := by
  unfold Py.pyInt
  rw [if_pos hx]
  exact Rat.le_floor_iff.mpr (by simpa using hx)

theorem correctOne_wf {cfg : Cfg} (htr : TruncOK cfg.trunc) {scores : CScores} (h : DictWF scores) {nVotes : Int}
    (hle : totalCount scores ≤ nVotes) {cs' : CScores} (hok : correctOne cfg scores nVotes = .ok cs') : DictWF cs' := by
  have htot : 0 ≤ totalCount scores := by rw [totalCount_eq_wTotal h.2]; exact Int.natCast_nonneg _
  unfold correctOne at hok
  simp only at hok
  by_cases hmin : totalCount scores < cfg.minCount
  · rw [if_pos hmin] at hok
    injection hok with hok
    subst hok
    refine ⟨by simp [ckeys], ?_⟩
    intro q hq
    simp at hq; subst hq; simp only; omega
  · rw [if_neg hmin] at hok
    -- the dict after the unscored correction
    have key : ∀ scores1 : CScores, DictWF scores1 →
        (match cfg.trunc with
          | .off => (pure scores1 : Except Err CScores)
          | .frac r =>
            pure (subtractLowest (subtractLowest scores1 (sortR (scores1.map (fun (p : Rat × Int) => p.1)))
              (Py.pyInt ((((if nVotes ≠ 0 then nVotes else totalCount scores) : Int) : Rat) * r)))
              (sortR (scores1.map (fun (p : Rat × Int) => p.1))).reverse
              (Py.pyInt ((((if nVotes ≠ 0 then nVotes else totalCount scores) : Int) : Rat) * r)))
          | .count k =>
            pure (subtractLowest (subtractLowest scores1 (sortR (scores1.map (fun (p : Rat × Int) => p.1))) (k : Int))
              (sortR (scores1.map (fun (p : Rat × Int) => p.1))).reverse (k : Int))) = .ok cs' → DictWF cs' := by
      intro scores1 h1 hk
      have hknd : (sortR (scores1.map (fun (p : Rat × Int) => p.1))).Nodup := (sortR_perm _).nodup_iff.mpr h1.1
      cases htc : cfg.trunc with
      | off => rw [htc] at hk; injection hk with hk; subst hk; exact h1
      | frac r =>
        rw [htc] at hk htr
        injection hk with hk; subst hk
        have hr : 0 ≤ r := htr
        have hx : (0 : Rat) ≤ (((if nVotes ≠ 0 then nVotes else totalCount scores) : Int) : Rat) * r := by
          apply mul_nonneg _ hr
          have : (0 : Int) ≤ (if nVotes ≠ 0 then nVotes else totalCount scores) := by split <;> omega
          exact_mod_cast this
        have hc := pyInt_nonneg hx
        exact subtractLowest_wf (subtractLowest_wf h1 hknd hc) (List.nodup_reverse.mpr hknd) hc
      | count k =>
        rw [htc] at hk
        injection hk with hk; subst hk
        have hc : (0 : Int) ≤ (k : Int) := Int.natCast_nonneg k
        exact subtractLowest_wf (subtractLowest_wf h1 hknd hc) (List.nodup_reverse.mpr hknd) hc
    cases hu : cfg.unscored with
    | none =>
      rw [hu] at hok
      exact key scores h hok
    | value u =>
      rw [hu] at hok
      simp only [bind, Except.bind, pure, Except.pure] at hok
      exact key _ (setCount_wf h u (by have := getCount_nonneg h.2 u; omega)) hok
    | min =>
      rw [hu] at hok
      simp only [bind, Except.bind] at hok
      cases hl : listMin (expand scores) with
      | error e => rw [hl] at hok; cases hok
      | ok u =>
        rw [hl] at hok
        simp only [pure, Except.pure] at hok
        exact key _ (setCount_wf h u (by have := getCount_nonneg h.2 u; omega)) hok

theorem mapM_table {f : CScores → Except Err CScores} : ∀ {t r : ScoreTable},
    t.mapM (fun p => do let cs ← f p.2; pure (p.1, cs)) = .ok r →
    r.map (·.1) = t.map (·.1) ∧ ∀ q ∈ r, ∃ p ∈ t, q.1 = p.1 ∧ f p.2 = .ok q.2 := by
  intro t
  induction t with
  | nil => intro r h; simp only [List.mapM_nil] at h; injection h with h; subst h; simp
  | cons x xs ih =>
    intro r h
    rw [List.mapM_cons] at h
    cases hv : f x.2 with
    | error e => simp only [hv, bind, Except.bind] at h; cases h
    | ok v =>
      simp only [hv, bind, Except.bind] at h
      cases hr : xs.mapM (fun p => do let cs ← f p.2; pure (p.1, cs)) with
      | error e => simp only [bind, Except.bind] at hr; rw [hr] at h; cases h
      | ok r' =>
        simp only [bind, Except.bind] at hr
        rw [hr] at h
        simp only [pure, Except.pure] at h
        injection h with h
        subst h
        obtain ⟨i1, i2⟩ := ih hr
        refine ⟨by simp [i1], ?_⟩
        intro q hq
        rcases List.mem_cons.mp hq with rfl | hq
        · exact ⟨x, List.mem_cons_self, rfl, hv⟩
        · obtain ⟨p, hp, h1, h2⟩ := i2 q hq
          exact ⟨p, List.mem_cons_of_mem _ hp, h1, h2⟩

/-- **everything `corrected_scores` builds is a well-formed table** -/
theorem correctedScores_wf {cfg : Cfg} (htr : TruncOK cfg.trunc) {votes : SProfile} (hok : VotesOK votes)
    {t : ScoreTable} (h : correctedScores cfg votes = .ok t) : TableWF t := by
  obtain ⟨hraw, hle⟩ := rawScores_wf hok
  unfold correctedScores at h
  obtain ⟨h1, h2⟩ := mapM_table (f := fun cs => correctOne cfg cs (totalVotes votes)) h
  refine ⟨by rw [h1]; exact hraw.1, ?_⟩
  intro q hq
  obtain ⟨p, hp, _, hc⟩ := h2 q hq
  exact correctOne_wf htr (hraw.2 p hp) (hle p hp) hc

theorem tableGet_mem {t : ScoreTable} {c : Cand} {cs : CScores} (h : tableGet t c = some cs) : (c, cs) ∈ t := by
  unfold tableGet at h
  cases hf : t.find? (fun p => decide (p.1 = c)) with
  | none => rw [hf] at h; cases h
  | some p =>
    rw [hf] at h
    injection h with h
    have hm := List.mem_of_find?_eq_some hf
    have hp := List.find?_some hf
    simp only [decide_eq_true_eq] at hp
    have : p = (c, cs) := Prod.ext hp h
    rw [← this]; exact hm

/-- the table of tied candidates handed to the tie-breaker is well-formed -/
theorem tied_wf {t : ScoreTable} (hwf : TableWF t) (T : List Cand) :
    TableWF ((sortDedup T).filterMap (fun c => (tableGet t c).map (fun cs => (c, cs)))) := by
  refine ⟨?_, ?_⟩
  · have hsub : ((sortDedup T).filterMap (fun c => (tableGet t c).map (fun cs => (c, cs)))).map (·.1) =
        (sortDedup T).filter (fun c => (tableGet t c).isSome) := by
      induction sortDedup T with
      | nil => rfl
      | cons x xs ih =>
        cases hg : tableGet t x with
        | none => simp [List.filterMap_cons, hg, List.filter_cons, ih]
        | some cs => simp [List.filterMap_cons, hg, List.filter_cons, ih]
    rw [hsub]
    exact (sortDedup_nodup T).filter _
  · intro q hq
    obtain ⟨c, _, hc⟩ := List.mem_filterMap.mp hq
    cases hg : tableGet t c with
    | none => rw [hg] at hc; cases hc
    | some cs =>
      rw [hg] at hc
      simp at hc
      subst hc
      exact hwf.2 (c, cs) (tableGet_mem hg)

/-- **Majority judgment never runs out of fuel** (the evaluator-level fuel adequacy) -/
theorem majorityJudgment_fuel (tb : TieBreaking) (cfg : Cfg) (htr : TruncOK cfg.trunc) (votes : SProfile) (hok : VotesOK votes)
    (n : Nat) : majorityJudgment tb cfg votes n ≠ .error (.other "Fuel") := by
  unfold majorityJudgment
  cases ht : correctedScores { cfg with fn := .medianLow } votes with
  | error e =>
    simp only [bind, Except.bind]
    intro h; injection h with h
    -- the only error of the corrections is `min()` of nothing
    unfold correctedScores at ht
    have : e = .valueError := by
      have key : ∀ (l : ScoreTable), l.mapM (fun p => do
          let cs ← correctOne { cfg with fn := .medianLow } p.2 (totalVotes votes); pure (p.1, cs)) = .error e → e = .valueError := by
        intro l
        induction l with
        | nil => intro h; simp at h; cases h
        | cons x xs ih =>
          intro h'
          rw [List.mapM_cons] at h'
          cases hv : correctOne { cfg with fn := .medianLow } x.2 (totalVotes votes) with
          | error e' =>
            simp only [hv, bind, Except.bind] at h'
            injection h' with h'
            subst h'
            unfold correctOne at hv
            simp only at hv
            split at hv
            · cases hv
            · cases hu : cfg.unscored with
              | none => rw [hu] at hv; simp only [bind, Except.bind, pure, Except.pure] at hv; split at hv <;> cases hv
              | value u => rw [hu] at hv; simp only [bind, Except.bind, pure, Except.pure] at hv; split at hv <;> cases hv
              | min =>
                rw [hu] at hv
                simp only [bind, Except.bind] at hv
                cases hl : listMin (expand x.2) with
                | error e'' =>
                  rw [hl] at hv
                  injection hv with hv
                  subst hv
                  cases hx : expand x.2 with
                  | nil => rw [hx] at hl; simp [listMin] at hl; exact hl.symm
                  | cons _ _ => rw [hx] at hl; simp [listMin] at hl
                | ok u => rw [hl] at hv; simp only [pure, Except.pure] at hv; split at hv <;> cases hv
          | ok v =>
            simp only [hv, bind, Except.bind] at h'
            cases hr : xs.mapM (fun p => do
                let cs ← correctOne { cfg with fn := .medianLow } p.2 (totalVotes votes); pure (p.1, cs)) with
            | error e' =>
              simp only [bind, Except.bind] at hr
              rw [hr] at h'
              injection h' with h'
              subst h'
              exact ih hr
            | ok r => simp only [bind, Except.bind] at hr; rw [hr] at h'; cases h'
      exact key _ ht
    rw [this] at h; cases h
  | ok t =>
    have hwf : TableWF t := correctedScores_wf (cfg := { cfg with fn := .medianLow }) htr hok ht
    simp only [bind, Except.bind]
    cases ha : aggregate .medianLow t with
    | error e =>
      simp only
      intro h; injection h with h
      rcases aggregate_medianLow_error ha with h' | h' <;> rw [h'] at h <;> injection h with h <;> exact absurd h (by decide)
    | ok agg =>
      simp only
      split
      · intro h; injection h with h; injection h with h; exact absurd h (by decide)
      · intro h; cases h
      · rename_i T _
        have hf := tiebreakDefault_fuel (tableFuel ((sortDedup T).filterMap (fun c => (tableGet t c).map (fun cs => (c, cs)))))
          _ ((getNBest agg n).count (Slot.tie T)) (tied_wf hwf T) (le_refl _)
        cases tb with
        | default =>
          simp only
          cases hb : tiebreakDefault (tableFuel ((sortDedup T).filterMap (fun c => (tableGet t c).map (fun cs => (c, cs)))))
              ((sortDedup T).filterMap (fun c => (tableGet t c).map (fun cs => (c, cs)))) ((getNBest agg n).count (Slot.tie T)) with
          | error e => intro h; injection h with h; rw [hb, h] at hf; exact hf rfl
          | ok r => intro h; cases h
        | plus =>
          simp only
          cases hb : tiebreakPlus ((sortDedup T).filterMap (fun c => (tableGet t c).map (fun cs => (c, cs))))
              ((getNBest agg n).count (Slot.tie T)) with
          | error e =>
            intro h; injection h with h
            unfold tiebreakPlus at hb
            split at hb
            · injection hb with hb; rw [← hb] at h; injection h with h; exact absurd h (by decide)
            · simp only [bind, Except.bind] at hb
              split at hb
              · rename_i e' he
                injection hb with hb
                unfold aggregateOne at he
                rcases medianLow_error he with h' | h' <;> rw [← hb, h'] at h <;> injection h with h <;> exact absurd h (by decide)
              · cases hb
          | ok r => intro h; cases h

end VL.Score

namespace VL.Score
instance (votes : SProfile) : Decidable (VotesOK votes) := by unfold VotesOK; infer_instance
instance (t : Trunc) : Decidable (TruncOK t) := by cases t <;> unfold TruncOK <;> infer_instance
end VL.Score
