/-
  Termination of the levelling loop over highest averages: with an unbounded divisor sequence the seats of a
  party with positive votes grow without bound with the house size, so every floor is eventually met.
-/
import VotelibProofs.Lemmas.OverhangHA
import Mathlib.Data.List.Perm.Subperm
import Mathlib.Algebra.Order.BigOperators.Group.List
namespace VL.OH
open VL HACfg

/-- the evaluation `HighestAverages(div).evaluate(votes, h)` (no previous gains, no caps) -/
def cfgH (div : Nat → Rat) (votes : Votes) (h : Nat) : HACfg :=
  { div := div, votes := votes, n := h, prev := [], caps := [] }

theorem cfgH_prevOf (div : Nat → Rat) (votes : Votes) (h : Nat) (c : Cand) : (cfgH div votes h).prevOf c = 0 := rfl
theorem cfgH_capOf (div : Nat → Rat) (votes : Votes) (h : Nat) (c : Cand) : (cfgH div votes h).capOf c = h := rfl
theorem cfgH_haCands (div : Nat → Rat) (votes : Votes) (h : Nat) :
    haCands (cfgH div votes h) = dedupC (keys votes) := rfl

theorem cfgH_pool_ne (div : Nat → Rat) (hd : ∀ k, 0 < div k) (votes : Votes) (hne : votes ≠ []) (h : Nat) (hh : 0 < h) :
    (haInit (cfgH div votes h)).pool ≠ [] := by
  obtain ⟨q, hq⟩ := List.exists_mem_of_ne_nil _ hne
  intro hnil
  have : (q.1, q.2 / div 0) ∈ (haInit (cfgH div votes h)).pool :=
    (haInit_pool_mem _ _).mpr ⟨q, hq, hd 0, hh, rfl⟩
  rw [hnil] at this
  simp at this

/-- tie seats are fewer than the number of parties -/
theorem tieSeats_lt (cfg : HACfg) (h : CfgOK cfg) : tieSeats (haRun cfg) ≤ cfg.votes.length := by
  have hi := haRun_inv cfg h
  unfold tieSeats
  cases ht : (haRun cfg).tie with
  | none => simp
  | some Tm =>
    obtain ⟨T, m⟩ := Tm
    simp only
    obtain ⟨_, _, hlt, q, _, hT⟩ := hi.tie_ok T m ht
    have hnd : T.Nodup := by rw [hT]; exact batch_nodup hi.pool_nd q
    have hsub : T ⊆ keys cfg.votes := by
      intro c hc
      rw [hT] at hc
      obtain ⟨p, hp, rfl⟩ := List.mem_map.mp hc
      exact hi.pool_key p (List.mem_filter.mp hp).1
    have := hnd.length_le_of_subset hsub
    unfold keys at this
    rw [List.length_map] at this
    omega

/-- **Seats grow without bound.**  With positive, strictly increasing and unbounded divisors, a party with positive
    votes reaches any number `m` of seats once the house is large enough. -/
theorem ha_seats_unbounded (div : Nat → Rat) (hd : (∀ k, 0 < div k) ∧ StrictMono div)
    (hunb : ∀ B : Rat, ∃ k, B < div k) (votes : Votes) (hv : ∀ p ∈ votes, 0 ≤ p.2) (hn : (keys votes).Nodup)
    (c : Cand) (hc : 0 < getD votes c 0) (m : Nat) :
    ∃ H, ∀ h, H ≤ h → m ≤ haSeats (cfgH div votes h) c := by
  have hck : c ∈ keys votes := by
    unfold getD lookup at hc
    cases hf : votes.find? (fun p => p.1 = c) with
    | none => rw [hf] at hc; simp at hc
    | some p =>
      have hm := List.mem_of_find?_eq_some hf
      have hk := List.find?_some hf
      simp only [decide_eq_true_eq] at hk
      exact List.mem_map.mpr ⟨p, hm, hk⟩
  have hne : votes ≠ [] := by
    intro h0; rw [h0] at hck; simp [keys] at hck
  -- the quotient of the m-th seat of c
  set q : Rat := getD votes c 0 / div (m - 1) with hq
  have hqpos : 0 < q := div_pos hc (hd.1 _)
  -- for every party a seat index from which its quotients are below q
  have hK : ∀ c' : Cand, ∃ K, getD votes c' 0 / q < div K := fun c' => hunb _
  let K : Cand → Nat := fun c' => Classical.choose (hK c')
  have hKs : ∀ c', getD votes c' 0 / q < div (K c') := fun c' => Classical.choose_spec (hK c')
  refine ⟨((dedupC (keys votes)).map K).sum + votes.length + m + 1, fun h hh => ?_⟩
  by_contra hlt
  have hlt' : haSeats (cfgH div votes h) c < m := Nat.lt_of_not_ge hlt
  set cfg := cfgH div votes h with hcfg
  have hok : CfgOK cfg := C01.cfgOK_of_divisor cfg hd hv hn
  have hel : Elig0 cfg c := ⟨hck, by rw [cfgH_prevOf, cfgH_capOf]; omega⟩
  have hroom : cfg.prevOf c + haSeats cfg c < cfg.capOf c := by rw [cfgH_prevOf, cfgH_capOf]; omega
  -- c's next quotient is at least q
  have hcq : q ≤ cfg.quot c (cfg.prevOf c + haSeats cfg c) := by
    rw [cfgH_prevOf, Nat.zero_add]
    have : haSeats cfg c ≤ m - 1 := by omega
    exact quot_anti_le hok c this
  -- hence nobody holds a seat whose quotient is below q
  have hbound : ∀ c', haSeats cfg c' ≤ K c' := by
    intro c'
    by_contra hgt
    have hgt' : K c' < haSeats cfg c' := Nat.lt_of_not_ge hgt
    have hopt := C01.ha_optimal cfg hok c hel hroom c' (haSeats cfg c' - 1)
      (by rw [cfgH_prevOf]; omega) (by rw [cfgH_prevOf]; omega)
    have h1 : cfg.quot c' (haSeats cfg c' - 1) ≤ cfg.quot c' (K c') := quot_anti_le hok c' (by omega)
    have h2 : cfg.quot c' (K c') < q := by
      unfold HACfg.quot HACfg.vote
      have := hKs c'
      rw [div_lt_iff₀ hqpos] at this
      show getD votes c' 0 / div (K c') < q
      rw [div_lt_iff₀ (hd.1 _)]
      linarith [mul_comm q (div (K c'))]
    linarith
  -- but the house is filled
  have hfill := ha_fills cfg hok rfl (by simp [sumSeats, hcfg, cfgH]) (cfgH_pool_ne div hd.1 votes hne h (by omega))
  rw [sumDist_haResult] at hfill
  have hts := tieSeats_lt cfg hok
  have hsum : ((haCands cfg).map (haSeats cfg)).sum ≤ ((dedupC (keys votes)).map K).sum := by
    rw [hcfg, cfgH_haCands]
    exact List.sum_le_sum (fun c' _ => hbound c')
  have hn' : cfg.n = h := rfl
  have hv' : cfg.votes.length = votes.length := rfl
  have hsp : sumSeats cfg.prev = 0 := rfl
  omega

/-- `haEval` at house size `h ≥ 1` answers with the canonicalised result of the run -/
theorem haEval_cfgH (div : Nat → Rat) (hd : ∀ k, 0 < div k) (votes : Votes) (hne : votes ≠ []) (h : Nat) (hh : 0 < h) :
    haEval div votes h [] [] = .ok (normDist (haResult (cfgH div votes h))) := by
  unfold haEval highestAverages
  have := cfgH_pool_ne div hd votes hne h hh
  unfold cfgH at this
  rw [if_neg this]
  rfl

/-- every floor that belongs to a party with positive votes is eventually met, and stays met -/
theorem ha_adequate_eventually (div : Nat → Rat) (hd : (∀ k, 0 < div k) ∧ StrictMono div)
    (hunb : ∀ B : Rat, ∃ k, B < div k) (votes : Votes) (hv : ∀ p ∈ votes, 0 ≤ p.2) (hn : (keys votes).Nodup)
    (floors : Dist) (hfl : ∀ p ∈ floors, ∃ c, p.1 = .cand c ∧ 0 < getD votes c 0) :
    ∃ H, ∀ h, H ≤ h → MeetsFloors (normDist (haResult (cfgH div votes h))) floors := by
  induction floors with
  | nil => exact ⟨0, fun h _ p hp => by simp at hp⟩
  | cons x xs ih =>
    obtain ⟨H1, hH1⟩ := ih (fun p hp => hfl p (List.mem_cons_of_mem _ hp))
    obtain ⟨c, hxc, hcpos⟩ := hfl x List.mem_cons_self
    obtain ⟨H2, hH2⟩ := ha_seats_unbounded div hd hunb votes hv hn c hcpos x.2
    refine ⟨max H1 H2, fun h hh p hp => ?_⟩
    rcases List.mem_cons.mp hp with rfl | hp'
    · rw [hxc, distGet_haResult _ (C01.cfgOK_of_divisor _ hd hv hn)]
      exact hH2 h (le_trans (le_max_right _ _) hh)
    · exact hH1 h (le_trans (le_max_left _ _) hh) p hp'

end VL.OH
