/-
  C10: `QuotaDistributor` / `LargestRemainder` commute with every injective renaming of the parties under EVERY over-award
  policy, `subtract` included.  The subtract loop keys its remainders by the position of an entry of `selected`; renaming
  keeps the positions, so the loop makes literally the same choices.  A `Tie` key is a set: the model keeps its members
  sorted, the renamed key is re-sorted (`renKey`); the renaming of keys is injective on such canonical keys (`Sub.Canon`),
  which every key the evaluators produce is.
-/
import VotelibProofs.Lemmas.PermQuotaSubtract
import VotelibProofs.Lemmas.RenameQuota
import VotelibProofs.Lemmas.HARename
import Mathlib.Data.List.Perm.Basic
namespace VL.Perm.Sub
open VL VL.QD VL.C10 VL.Perm

/-- a key as the evaluators produce it: a candidate, or a Tie with its members in the model's canonical (sorted) order -/
def Canon : Key → Prop
  | .cand _ => True
  | .tie T => sortNat T = T

def CanonSel (s : Sel) : Prop := ∀ k ∈ s.map (·.1), Canon k

theorem sortNat_idem (l : List Nat) : sortNat (sortNat l) = sortNat l := sortNat_eq_of_perm (sortNat_perm_self l)

theorem canon_mkTie (cs : List Cand) : Canon (mkTie cs) := by
  unfold mkTie Canon; exact sortNat_idem cs

theorem canon_cand (c : Cand) : Canon (.cand c) := trivial

section
variable (σ : Cand → Cand) (hσ : Function.Injective σ)
include hσ

theorem renKey_inj_canon {a b : Key} (ha : Canon a) (hb : Canon b) (h : renKey σ a = renKey σ b) : a = b := by
  cases a with
  | cand x =>
    cases b with
    | cand y => rw [renKey_cand_inj σ hσ x y h]
    | tie T => simp [renKey, mkTie] at h
  | tie T =>
    cases b with
    | cand y => simp [renKey, mkTie] at h
    | tie T' =>
      simp only [renKey, mkTie, Key.tie.injEq] at h
      have hp : (T.map σ).Perm (T'.map σ) :=
        ((sortNat_perm_self _).symm.trans (h ▸ List.Perm.refl _)).trans (sortNat_perm_self _)
      have hp' : T.Perm T' := (List.map_perm_map_iff hσ).mp hp
      have := sortNat_eq_of_perm hp'
      unfold Canon at ha hb
      rw [ha, hb] at this
      rw [this]

theorem hinj_of_canon {s : Sel} (hs : CanonSel s) {k : Key} (hk : Canon k) :
    ∀ k' ∈ s.map (·.1), renKey σ k' = renKey σ k → k' = k :=
  fun k' hk' e => renKey_inj_canon σ hσ (hs k' hk') hk e

omit hσ in
theorem renKey_mkTie (cs : List Cand) : renKey σ (mkTie cs) = mkTie (cs.map σ) := by
  unfold mkTie renKey
  simp only
  unfold mkTie
  rw [sortNat_eq_of_perm ((sortNat_perm_self cs).map σ)]

/-! ### dict operations under the renaming -/

theorem delK_renSel {s : Sel} (hs : CanonSel s) {k : Key} (hk : Canon k) :
    delK (renSel σ s) (renKey σ k) = renSel σ (delK s k) := by
  induction s with
  | nil => rfl
  | cons p ps ih =>
    have hps : CanonSel ps := fun k' h' => hs k' (by simp only [List.map_cons, List.mem_cons]; exact Or.inr h')
    have hp : Canon p.1 := hs p.1 (by simp)
    have e1 : renSel σ (p :: ps) = (renKey σ p.1, p.2) :: renSel σ ps := rfl
    rw [e1]
    unfold delK at ih ⊢
    rw [List.filter_cons, List.filter_cons]
    by_cases h : p.1 = k
    · have h' : renKey σ p.1 = renKey σ k := by rw [h]
      simp only [h, h', ne_eq, not_true_eq_false, decide_false, Bool.false_eq_true, if_false]
      rw [← h] at ih ⊢
      exact ih hps
    · have h' : renKey σ p.1 ≠ renKey σ k := fun e => h (renKey_inj_canon σ hσ hp hk e)
      simp only [ne_eq, h, h', not_false_eq_true, decide_true, if_true]
      rw [ih hps]; rfl

theorem decK_renSel {s : Sel} (hs : CanonSel s) {k : Key} (hk : Canon k) :
    decK (renSel σ s) (renKey σ k) = renSel σ (decK s k) := by
  unfold decK
  have hg : getK (renSel σ s) (renKey σ k) 0 = getK s k 0 := by
    rw [getK_eq_look, getK_eq_look, look_renSel σ s k (hinj_of_canon σ hσ hs hk)]
  rw [hg]
  split
  · exact delK_renSel σ hσ hs hk
  · exact setK_renSel σ s k _ (hinj_of_canon σ hσ hs hk)

omit hσ in
theorem canonSel_setK {s : Sel} (hs : CanonSel s) {k : Key} (hk : Canon k) (v : Int) : CanonSel (setK s k v) := by
  intro k' hk'
  rw [keys_setK] at hk'
  split at hk'
  · exact hs k' hk'
  · rcases List.mem_append.mp hk' with h | h
    · exact hs k' h
    · have : k' = k := by simpa using h
      rw [this]; exact hk

omit hσ in
theorem canonSel_delK {s : Sel} (hs : CanonSel s) (k : Key) : CanonSel (delK s k) := by
  intro k' hk'
  rw [keys_delK] at hk'
  exact hs k' (List.mem_filter.mp hk').1

omit hσ in
theorem canonSel_decK {s : Sel} (hs : CanonSel s) {k : Key} (hk : Canon k) : CanonSel (decK s k) := by
  unfold decK
  split
  · exact canonSel_delK hs k
  · exact canonSel_setK hs hk _

omit hσ in
theorem canonSel_foldDec (cs : List Cand) : ∀ {s : Sel}, CanonSel s → CanonSel (cs.foldl (fun acc c => decK acc (.cand c)) s) := by
  induction cs with
  | nil => intro s h; exact h
  | cons c cs ih => intro s h; exact ih (canonSel_decK h (canon_cand c))

theorem foldDec_renSel (cs : List Cand) : ∀ {s : Sel}, CanonSel s →
    (cs.map σ).foldl (fun acc c => decK acc (.cand c)) (renSel σ s) = renSel σ (cs.foldl (fun acc c => decK acc (.cand c)) s) := by
  induction cs with
  | nil => intro s _; rfl
  | cons c cs ih =>
    intro s hs
    simp only [List.map_cons, List.foldl_cons]
    have : decK (renSel σ s) (Key.cand (σ c)) = renSel σ (decK s (.cand c)) := decK_renSel σ hσ hs (canon_cand c)
    rw [this]
    exact ih (canonSel_decK hs (canon_cand c))

/-! ### the position-keyed remainders and one pass of the loop -/

theorem votesOfKey_ren (v : Votes) (k : Key) : votesOfKey (renVotes σ v) (renKey σ k) = votesOfKey v k := by
  cases k with
  | cand c => simp only [renKey, votesOfKey]; unfold getD; rw [lookup_ren σ hσ]
  | tie T => simp [renKey, mkTie, votesOfKey]

theorem prevOfKey_ren (prev : IMap) (k : Key) : prevOfKey (renI σ prev) (renKey σ k) = prevOfKey prev k := by
  cases k with
  | cand c => simp only [renKey, prevOfKey]; exact getI_ren σ hσ prev c 0
  | tie T => simp [renKey, mkTie, prevOfKey]

theorem subRemainders_ren (v : Votes) (q : Rat) (prev : IMap) (s : Sel) :
    subRemainders (renVotes σ v) q (renI σ prev) (renSel σ s) = subRemainders v q prev s := by
  unfold subRemainders renSel
  rw [List.length_map, List.zip_map_right, List.map_map]
  apply List.map_congr_left
  intro ip _
  simp only [Function.comp, Prod.map, id]
  rw [votesOfKey_ren σ hσ, prevOfKey_ren σ hσ]

omit hσ in
theorem keyAt_renSel {s : Sel} {i : Nat} {e : Key × Int} (h : s[i]? = some e) : keyAt (renSel σ s) i = renKey σ (keyAt s i) := by
  unfold keyAt renSel
  rw [List.getElem?_map, h]
  rfl

omit hσ in
theorem mapM_candOfKey_ren (ks : List Key) :
    (ks.map (renKey σ)).mapM candOfKey = (ks.mapM candOfKey).map (List.map σ) := by
  rw [mapM_candOfKey_eq, mapM_candOfKey_eq]
  have hall : ((ks.map (renKey σ)).all fun k => (candOfKey k).isSome) = (ks.all fun k => (candOfKey k).isSome) := by
    rw [List.all_map]
    congr 1
    funext k
    cases k <;> simp [renKey, mkTie, candOfKey]
  have hfm : (ks.map (renKey σ)).filterMap candOfKey = (ks.filterMap candOfKey).map σ := by
    rw [List.filterMap_map, List.map_filterMap]
    apply List.filterMap_congr
    intro k _
    cases k <;> simp [renKey, mkTie, candOfKey]
  rw [hall, hfm]
  split <;> rfl

theorem subtractStep_ren (v : Votes) (q : Rat) (prev : IMap) {s : Sel} (hs : CanonSel s) :
    subtractStep (renVotes σ v) q (renI σ prev) (renSel σ s) = (subtractStep v q prev s).map (renSel σ) ∧
      ∀ r, subtractStep v q prev s = .ok r → CanonSel r := by
  unfold subtractStep
  rw [subRemainders_ren σ hσ]
  rcases getNBest_one_cases (subRemainders v q prev s) with h0 | ⟨i, h1, hmem⟩ | ⟨T, h1, hmem⟩
  · rw [h0]; exact ⟨rfl, fun r h => by cases h⟩
  · rw [h1]
    obtain ⟨e, he⟩ := mem_keys_subRemainders hmem
    have hk : Canon (keyAt s i) := by rw [keyAt_of_getElem? he]; exact hs e.1 (List.mem_map.2 ⟨e, List.mem_of_getElem? he, rfl⟩)
    simp only
    rw [keyAt_renSel σ he, decK_renSel σ hσ hs hk]
    exact ⟨rfl, fun r h => by injection h with h; rw [← h]; exact canonSel_decK hs hk⟩
  · rw [h1]
    simp only
    have hks : T.map (keyAt (renSel σ s)) = (T.map (keyAt s)).map (renKey σ) := by
      rw [List.map_map]
      apply List.map_congr_left
      intro i hi
      obtain ⟨e, he⟩ := mem_keys_subRemainders (hmem i hi)
      exact keyAt_renSel σ he
    rw [hks, mapM_candOfKey_ren]
    cases hm : (T.map (keyAt s)).mapM candOfKey with
    | none => exact ⟨rfl, fun r h => by cases h⟩
    | some cs =>
      simp only [Option.map]
      have htk : mkTie (cs.map σ) = renKey σ (mkTie cs) := (renKey_mkTie σ cs).symm
      have hck := canon_mkTie cs
      rw [htk]
      have hh : hasK (renSel σ s) (renKey σ (mkTie cs)) = hasK s (mkTie cs) := by
        rw [hasK_eq_look, hasK_eq_look, look_renSel σ s _ (hinj_of_canon σ hσ hs hck)]
      rw [hh]
      split
      · rw [decK_renSel σ hσ hs hck]
        exact ⟨rfl, fun r h => by injection h with h; rw [← h]; exact canonSel_decK hs hck⟩
      · have hfc := canonSel_foldDec cs hs
        rw [foldDec_renSel σ hσ cs hs]
        have hg : getK (renSel σ (cs.foldl (fun acc c => decK acc (.cand c)) s)) (renKey σ (mkTie cs)) 0 =
            getK (cs.foldl (fun acc c => decK acc (.cand c)) s) (mkTie cs) 0 := by
          rw [getK_eq_look, getK_eq_look, look_renSel σ _ _ (hinj_of_canon σ hσ hfc hck)]
        rw [hg, List.length_map, setK_renSel σ _ _ _ (hinj_of_canon σ hσ hfc hck)]
        exact ⟨rfl, fun r h => by injection h with h; rw [← h]; exact canonSel_setK hfc hck _⟩

theorem subtractLoop_ren (v : Votes) (q : Rat) (prev : IMap) (k : Nat) : ∀ {s : Sel}, CanonSel s →
    subtractLoop (renVotes σ v) q (renI σ prev) k (renSel σ s) = (subtractLoop v q prev k s).map (renSel σ) ∧
      ∀ r, subtractLoop v q prev k s = .ok r → CanonSel r := by
  induction k with
  | zero => intro s hs; exact ⟨rfl, fun r h => by injection h with h; rw [← h]; exact hs⟩
  | succ k ih =>
    intro s hs
    unfold subtractLoop
    obtain ⟨h1, h2⟩ := subtractStep_ren σ hσ v q prev hs
    rw [h1]
    cases hst : subtractStep v q prev s with
    | error e => exact ⟨rfl, fun r h => by cases h⟩
    | ok s' => exact ih (h2 s' hst)

end

end VL.Perm.Sub

namespace VL.Perm
open VL VL.QD VL.C10 VL.Perm.Sub

theorem canonSel_qdSel (cfg : Cfg) (v : Votes) (n : Nat) (prev maxS : IMap) : CanonSel (qdSel cfg v n prev maxS) := by
  intro k hk
  obtain ⟨c, rfl⟩ := keys_qdSel_cand cfg v n prev maxS k hk
  exact canon_cand c

/-- **QuotaDistributor: renaming equivariance for every over-award policy** (`subtract` included): the renamed dict, in the
    same insertion order; the keys of every result are candidates or canonical Tie keys -/
theorem quotaDistribute_ren_all (σ : Cand → Cand) (hσ : Function.Injective σ) (cfg : Cfg) (v : Votes)
    (hnd : (v.map (·.1)).Nodup) (n : Nat) (prev maxS : IMap) :
    quotaDistribute cfg (renVotes σ v) n (renI σ prev) (renI σ maxS) = (quotaDistribute cfg v n prev maxS).map (renSel σ) ∧
      ∀ r, quotaDistribute cfg v n prev maxS = .ok r → CanonSel r := by
  rw [quotaDistribute_form cfg _ n _ _ (keys_nodup_ren σ hσ v hnd), quotaDistribute_form cfg v n prev maxS hnd,
    qdRefused_ren, qdSel_ren σ hσ]
  have hc := canonSel_qdSel cfg v n prev maxS
  split
  · exact ⟨rfl, fun r h => by cases h⟩
  · unfold applyPolicy
    simp only [sumK_renSel, sumI_ren]
    split
    · cases hp : cfg.onOver with
      | ignore => exact ⟨rfl, fun r h => by injection h with h; rw [← h]; exact hc⟩
      | error => exact ⟨rfl, fun r h => by cases h⟩
      | subtract =>
        simp only
        unfold subtractOveraward
        simp only [sumK_renSel, sumI_ren, sumVals_ren]
        exact subtractLoop_ren σ hσ v _ prev _ hc
    · exact ⟨rfl, fun r h => by injection h with h; rw [← h]; exact hc⟩

/-- **LargestRemainder: renaming equivariance for every over-award policy** -/
theorem largestRemainder_ren_all (σ : Cand → Cand) (hσ : Function.Injective σ) (cfg : Cfg) (v : Votes) (hnd : (v.map (·.1)).Nodup)
    (n : Nat) (prev maxS : IMap) (hprev : (prev.map (·.1)).Nodup) :
    largestRemainder cfg (renVotes σ v) n (renI σ prev) (renI σ maxS) =
      (largestRemainder cfg v n prev maxS).map (renSel σ) := by
  unfold largestRemainder
  obtain ⟨hqr, hqc⟩ := quotaDistribute_ren_all σ hσ cfg v hnd n prev maxS
  rw [hqr]
  cases h1 : quotaDistribute cfg v n prev maxS with
  | error e => rfl
  | ok qe =>
    have hcq : CanonSel qe := hqc qe h1
    simp only [Except.map, sumVals_ren]
    have hprev' : ((renI σ prev).map (·.1)).Nodup := by
      unfold renI
      rw [List.map_map]
      have : ((fun p : Cand × Int => p.1) ∘ fun p : Cand × Int => (σ p.1, p.2)) = σ ∘ (·.1) := rfl
      rw [this, ← List.map_map]
      exact hprev.map hσ
    have hk : ∀ c, getK (addDict (renSel σ qe) (prevAsSel (renI σ prev))) (.cand (σ c)) 0 =
        getK (addDict qe (prevAsSel prev)) (.cand c) 0 := by
      intro c
      rw [getK_addDict_prev _ hprev', getK_addDict_prev _ hprev, getI_ren σ hσ, getK_eq_look, getK_eq_look]
      have := look_renSel σ qe (.cand c) (hinj_of_canon σ hσ hcq (canon_cand c))
      simp only [renKey] at this
      rw [this]
    rw [lrRemainders_ren σ hσ v _ _ _ maxS hk]
    have hsum : sumK (addDict (renSel σ qe) (prevAsSel (renI σ prev))) = sumK (addDict qe (prevAsSel prev)) := by
      rw [sumK_addDict, sumK_addDict, sumK_renSel, sumK_prevAsSel, sumK_prevAsSel, sumI_ren]
    rw [hsum]
    have hnil : ∀ l : Votes, (renVotes σ l ≠ []) ↔ (l ≠ []) := by
      intro l; unfold renVotes; simp
    by_cases hz : cfg.quota (sumVals v) n = 0 ∧ lrRemainders v (cfg.quota (sumVals v) n) (addDict qe (prevAsSel prev)) maxS ≠ []
    · rw [if_pos hz, if_pos ⟨hz.1, (hnil _).mpr hz.2⟩]
    · rw [if_neg hz, if_neg (fun hh => hz ⟨hh.1, (hnil _).mp hh.2⟩)]
      rw [getNBest_rename]
      have hfold : ∀ (l : List Slot) (s : Sel),
          l.foldl (fun acc x => incK acc (slotKey x)) s = (l.map slotKey).foldl incK s := by
        intro l s; rw [List.foldl_map]
      rw [hfold, hfold, List.map_map]
      have hkeys : (slotKey ∘ renSlot σ) = (renKey σ ∘ slotKey) := by
        funext s; exact slotKey_renSlot σ s
      rw [hkeys, ← List.map_map]
      congr 1
      obtain ⟨k, j, T, hshape⟩ := getNBest_shape (lrRemainders v (cfg.quota (sumVals v) n) (addDict qe (prevAsSel prev)) maxS)
        ((n : Int) - sumK (addDict qe (prevAsSel prev))).toNat
      apply foldl_incK_renSel σ
      have hall : ∀ key ∈ qe.map (·.1) ++ (getNBest (lrRemainders v (cfg.quota (sumVals v) n) (addDict qe (prevAsSel prev)) maxS)
          ((n : Int) - sumK (addDict qe (prevAsSel prev))).toNat).map slotKey, Canon key := by
        intro key hkey
        rcases List.mem_append.mp hkey with h | h
        · exact hcq key h
        · obtain ⟨s, _, rfl⟩ := List.mem_map.1 h
          cases s with
          | cand c => exact canon_cand c
          | tie T => exact canon_mkTie T
      intro a ha b hb e
      exact renKey_inj_canon σ hσ (hall a ha) (hall b hb) e

end VL.Perm
