/-
  C10, Condorcet family: ranked pairs.  The evaluator sorts the pairs by (score, count) with a STABLE sort, so pairs with
  equal keys keep their insertion order — which is why the property restricts ranked pairs to profiles whose majorities
  have pairwise distinct strengths.  Hypothesis used here (explicit, decidable): the sort key `(score, count)` is
  different for different pairs of the dictionary (`RPDistinct`).  Then the sorted pair list is the same for every
  insertion order, and so is everything computed from it.
-/
import VotelibProofs.Lemmas.RenameCondorcet
import VotelibProofs.Lemmas.RankedPairs
namespace VL.Perm
open VL VL.Condorcet VL.C10

/-- the sort key `(score under the scorer, count)` takes different values on different pairs of the dictionary
    (implies that the keys of the dictionary are distinct) -/
def RPDistinct (sc : Scorer) (v : Pairwise) : Prop :=
  ((v.map (·.1)).map (fun p => (pget (scorePairs sc v) p, pget v p))).Nodup

instance (sc : Scorer) (v : Pairwise) : Decidable (RPDistinct sc v) := by unfold RPDistinct; infer_instance

/-! ### the stable sort, exactly -/

/-- stability: inserting `x`, which stood before every member of `l` in an order `R`, keeps "larger key first, equal keys
    in the order `R`" -/
theorem insertDescBy_stable (key : Pair → Rat) (R : Pair → Pair → Prop) (x : Pair) (l : List Pair)
    (hl : l.Pairwise (fun a b => key b < key a ∨ (key a = key b ∧ R a b))) (hx : ∀ y ∈ l, R x y) :
    (insertDescBy key x l).Pairwise (fun a b => key b < key a ∨ (key a = key b ∧ R a b)) := by
  induction l with
  | nil => simp [insertDescBy]
  | cons y ys ih =>
    unfold insertDescBy
    rw [List.pairwise_cons] at hl
    split
    · rename_i hlt
      rw [List.pairwise_cons]
      refine ⟨?_, ih hl.2 (fun z hz => hx z (List.mem_cons_of_mem _ hz))⟩
      intro z hz
      rcases List.mem_cons.1 ((insertDescBy_perm key x ys).subset hz) with rfl | hz'
      · exact Or.inl hlt
      · exact hl.1 z hz'
    · rename_i hnlt
      have hyx : key y ≤ key x := not_lt.1 hnlt
      rw [List.pairwise_cons]
      refine ⟨?_, List.pairwise_cons.2 hl⟩
      intro z hz
      have hzx : key z ≤ key x := by
        rcases List.mem_cons.1 hz with rfl | hz'
        · exact hyx
        · rcases hl.1 z hz' with h1 | ⟨h1, _⟩
          · exact le_trans (le_of_lt h1) hyx
          · rw [← h1]; exact hyx
      rcases lt_or_eq_of_le hzx with h1 | h1
      · exact Or.inl h1
      · exact Or.inr ⟨h1.symm, hx z hz⟩

theorem sortDescBy_stable (key : Pair → Rat) (R : Pair → Pair → Prop) (l : List Pair) (hl : l.Pairwise R) :
    (sortDescBy key l).Pairwise (fun a b => key b < key a ∨ (key a = key b ∧ R a b)) := by
  induction l with
  | nil => simp [sortDescBy]
  | cons x xs ih =>
    rw [List.pairwise_cons] at hl
    exact insertDescBy_stable key R x _ (ih hl.2) (fun y hy => hl.1 y ((sortDescBy_perm key xs).subset hy))

/-- the two stable sorts of ranked pairs put the pairs in strictly descending lexicographic order of (score, count) when
    that key separates the pairs -/
theorem rpSort_sorted (s c : Pair → Rat) (keys : List Pair) (hk : keys.Nodup)
    (hinj : ∀ p ∈ keys, ∀ q ∈ keys, (s p, c p) = (s q, c q) → p = q) :
    (sortDescBy s (sortDescBy c keys)).Pairwise (fun a b => s b < s a ∨ (s a = s b ∧ c b < c a)) := by
  have h1 := sortDescBy_stable c (· ≠ ·) keys hk
  have h2 := sortDescBy_stable s _ _ h1
  have hmem : ∀ p, p ∈ sortDescBy s (sortDescBy c keys) → p ∈ keys :=
    fun p hp => (sortDescBy_perm c keys).subset ((sortDescBy_perm s _).subset hp)
  refine List.Pairwise.imp_of_mem ?_ h2
  intro a b ha hb hab
  rcases hab with h | ⟨h, h' | ⟨h', hne⟩⟩
  · exact Or.inl h
  · exact Or.inr ⟨h, h'⟩
  · exact absurd (hinj a (hmem a ha) b (hmem b hb) (by rw [h, h'])) hne

theorem rpSort_perm_eq (s c : Pair → Rat) {k₁ k₂ : List Pair} (h : k₁.Perm k₂) (hk : k₁.Nodup)
    (hinj : ∀ p ∈ k₁, ∀ q ∈ k₁, (s p, c p) = (s q, c q) → p = q) :
    sortDescBy s (sortDescBy c k₁) = sortDescBy s (sortDescBy c k₂) := by
  have hinj2 : ∀ p ∈ k₂, ∀ q ∈ k₂, (s p, c p) = (s q, c q) → p = q :=
    fun p hp q hq => hinj p (h.mem_iff.mpr hp) q (h.mem_iff.mpr hq)
  refine List.Perm.eq_of_pairwise ?_ (rpSort_sorted s c k₁ hk hinj) (rpSort_sorted s c k₂ (h.nodup_iff.mp hk) hinj2) ?_
  · intro a b _ _ hab hba
    exfalso
    rcases hab with h1 | ⟨h1, h1'⟩ <;> rcases hba with h2 | ⟨h2, h2'⟩
    · exact lt_asymm h1 h2
    · rw [h2] at h1; exact lt_irrefl _ h1
    · rw [h1] at h2; exact lt_irrefl _ h2
    · exact lt_asymm h1' h2'
  · exact ((sortDescBy_perm s _).trans (sortDescBy_perm c k₁)).trans
      (h.trans ((sortDescBy_perm s _).trans (sortDescBy_perm c k₂)).symm)

/-! ### ranked pairs -/

theorem scorePairs_perm {v₁ v₂ : Pairwise} (h : v₁.Perm v₂) (hn : (v₁.map (·.1)).Nodup) (sc : Scorer) :
    (scorePairs sc v₁).Perm (scorePairs sc v₂) := by
  rw [scorePairs_eq, scorePairs_eq, scoreOf_congr sc (pget_perm_fun h hn)]
  exact h.map _

theorem keys_scorePairs (sc : Scorer) (v : Pairwise) : (scorePairs sc v).map (·.1) = v.map (·.1) := by
  rw [scorePairs_eq, List.map_map]; rfl

/-- **ranked pairs: ballot-order independence** when the sort key (score, count) separates the pairs: the same result or
    the same exception -/
theorem rankedPairs_perm {v₁ v₂ : Pairwise} (h : v₁.Perm v₂) (sc : Scorer) (hd : RPDistinct sc v₁) (n : Nat) :
    rankedPairs sc v₁ n = rankedPairs sc v₂ n := by
  have hn : (v₁.map (·.1)).Nodup := List.Nodup.of_map _ hd
  have hs : pget (scorePairs sc v₁) = pget (scorePairs sc v₂) :=
    pget_perm_fun (scorePairs_perm h hn sc) (by rw [keys_scorePairs]; exact hn)
  have hsort : sortDescBy (pget (scorePairs sc v₁)) (sortDescBy (pget v₁) (v₁.map (·.1))) =
      sortDescBy (pget (scorePairs sc v₂)) (sortDescBy (pget v₂) (v₂.map (·.1))) := by
    rw [← hs, ← pget_perm_fun h hn]
    exact rpSort_perm_eq _ _ (h.map _) hn (List.inj_on_of_nodup_map hd)
  unfold rankedPairs
  simp only
  rw [hsort]

/-- the same statement in the shared vocabulary of C10 -/
theorem rankedPairs_perm_equiv {v₁ v₂ : Pairwise} (h : v₁.Perm v₂) (sc : Scorer) (hd : RPDistinct sc v₁) (n : Nat) :
    ExceptEquiv SlotsEquiv (rankedPairs sc v₁ n) (rankedPairs sc v₂ n) := by
  apply exceptEquiv_of_eq_cands (rankedPairs_perm h sc hd n)
  intro r hr
  unfold rankedPairs at hr
  simp only at hr
  cases hb : buildRanking (lockPairs (sortDescBy (pget (scorePairs sc v₁)) (sortDescBy (pget v₁) (v₁.map (·.1))))) with
  | error e => rw [hb] at hr; simp [bind, Except.bind] at hr
  | ok ranking =>
    rw [hb] at hr
    simp only [bind, Except.bind, Except.ok.injEq] at hr
    exact ⟨ranking.take n, hr.symm⟩

/-! ### renaming -/

section
variable (σ : Cand → Cand) (hσ : Function.Injective σ)
include hσ

omit hσ in
theorem insertDescBy_map (g : Pair → Pair) (key key' : Pair → Rat) (hk : ∀ p, key' (g p) = key p) (x : Pair)
    (l : List Pair) : insertDescBy key' (g x) (l.map g) = (insertDescBy key x l).map g := by
  induction l with
  | nil => rfl
  | cons y ys ih =>
    simp only [List.map_cons, insertDescBy, hk]
    split
    · rw [List.map_cons, ih]
    · rfl

omit hσ in
theorem sortDescBy_map (g : Pair → Pair) (key key' : Pair → Rat) (hk : ∀ p, key' (g p) = key p) (l : List Pair) :
    sortDescBy key' (l.map g) = (sortDescBy key l).map g := by
  induction l with
  | nil => rfl
  | cons x xs ih => simp only [List.map_cons, sortDescBy, ih, insertDescBy_map g key key' hk]

theorem beq_ren (a b : Cand) : (σ a == σ b) = (a == b) := by
  simp only [beq_eq_decide]
  by_cases h : a = b
  · simp [h]
  · have : σ a ≠ σ b := fun e' => h (hσ e')
    simp [h, this]

theorem pathSweep_ren (pairs : List Pair) (sink : Cand) (visited : List Cand) :
    pathSweep (pairs.map (renPair σ)) (σ sink) (visited.map σ) =
      ((pathSweep pairs sink visited).1.map σ, (pathSweep pairs sink visited).2) := by
  unfold pathSweep
  rw [List.foldl_map]
  refine List.foldl_hom (fun st : List Cand × Bool => (st.1.map σ, st.2)) (init := (visited, false)) (fun st e => ?_)
  simp only [renPair, contains_map_inj σ hσ, beq_ren σ hσ]
  split
  · rfl
  · split <;> rfl

theorem isPathFuel_ren (pairs : List Pair) (sink : Cand) (f : Nat) : ∀ visited : List Cand,
    isPathFuel (pairs.map (renPair σ)) (σ sink) f (visited.map σ) = isPathFuel pairs sink f visited := by
  induction f with
  | zero => intro visited; rfl
  | succ f ih =>
    intro visited
    unfold isPathFuel
    simp only [pathSweep_ren σ hσ, List.length_map, ih]

theorem isPath_ren (pairs : List Pair) (a b : Cand) :
    isPath (pairs.map (renPair σ)) (σ a) (σ b) = isPath pairs a b := by
  unfold isPath
  rw [List.length_map]
  exact isPathFuel_ren σ hσ pairs b _ [a]

theorem lockPairs_ren (l : List Pair) : lockPairs (l.map (renPair σ)) = (lockPairs l).map (renPair σ) := by
  unfold lockPairs
  rw [List.foldl_map]
  refine List.foldl_hom (List.map (renPair σ)) (init := []) (fun locked p => ?_)
  have : isPath (locked.map (renPair σ)) (renPair σ p).2 (renPair σ p).1 = isPath locked p.2 p.1 :=
    isPath_ren σ hσ locked p.2 p.1
  rw [this]
  split
  · rw [List.map_append]; rfl
  · rfl

theorem buildLoop_ren (f : Nat) : ∀ (edges : List Pair) (ranking : List Cand),
    buildLoop f (edges.map (renPair σ)) (ranking.map σ) = (buildLoop f edges ranking).map (List.map σ) := by
  induction f with
  | zero => intro edges ranking; rfl
  | succ f ih =>
    intro edges ranking
    unfold buildLoop
    have hemp : (edges.map (renPair σ)).isEmpty = edges.isEmpty := by cases edges <;> rfl
    rw [hemp]
    split
    · rfl
    · have hw : uniq ((((edges.map (renPair σ)).map (·.1)).filter
          (fun w => !((edges.map (renPair σ)).map (·.2)).contains w))) =
          (uniq ((edges.map (·.1)).filter (fun w => !(edges.map (·.2)).contains w))).map σ := by
        have e1 : (edges.map (renPair σ)).map (·.1) = (edges.map (·.1)).map σ := by
          rw [List.map_map, List.map_map]; rfl
        have e2 : (edges.map (renPair σ)).map (·.2) = (edges.map (·.2)).map σ := by
          rw [List.map_map, List.map_map]; rfl
        rw [e1, e2, List.filter_map, uniq_ren σ hσ]
        congr 2
        apply List.filter_congr
        intro w _
        simp only [Function.comp, contains_map_inj σ hσ]
      simp only
      rw [hw]
      generalize uniq ((edges.map (·.1)).filter (fun w => !(edges.map (·.2)).contains w)) = W
      match W with
      | [] => rfl
      | [w] =>
        simp only [List.map_cons, List.map_nil]
        have hf : (edges.map (renPair σ)).filter (fun e => e.1 != σ w) =
            (edges.filter (fun e => e.1 != w)).map (renPair σ) := by
          rw [List.filter_map]
          congr 1
          apply List.filter_congr
          intro e _
          simp only [Function.comp, renPair, bne_ren σ hσ]
        have hr : ranking.map σ ++ [σ w] = (ranking ++ [w]).map σ := by rw [List.map_append]; rfl
        rw [hf, hr, ih]
      | _ :: _ :: _ => rfl

theorem buildRanking_ren (locked : List Pair) :
    buildRanking (locked.map (renPair σ)) = (buildRanking locked).map (List.map σ) := by
  unfold buildRanking
  have h0 := buildLoop_ren σ hσ (locked.length + 1) locked []
  rw [List.length_map]
  rw [List.map_nil] at h0
  rw [h0]
  cases buildLoop (locked.length + 1) locked [] with
  | error e => rfl
  | ok r =>
    simp only [Except.map, bind, Except.bind]
    have hfl : (locked.map (renPair σ)).flatMap (fun e => [e.1, e.2]) = (locked.flatMap (fun e => [e.1, e.2])).map σ := by
      rw [List.flatMap_map, List.map_flatMap]; rfl
    rw [hfl, List.find?_map]
    have hp : ((fun c => !(r.map σ).contains c) ∘ σ) = (fun c => !r.contains c) := by
      funext c
      simp only [Function.comp, contains_map_inj σ hσ]
    rw [hp]
    cases (locked.flatMap (fun e => [e.1, e.2])).find? (fun c => !r.contains c) with
    | none => rfl
    | some c => simp only [Option.map, List.map_append]; rfl

/-- **ranked pairs: renaming** (every scorer, no restriction) -/
theorem rankedPairs_ren (sc : Scorer) (v : Pairwise) (n : Nat) :
    rankedPairs sc (renPairwise σ v) n = (rankedPairs sc v n).map (fun r => r.map (renSlot σ)) := by
  unfold rankedPairs
  simp only
  have hkeys : (renPairwise σ v).map (·.1) = (v.map (·.1)).map (renPair σ) := by
    unfold renPairwise; rw [List.map_map, List.map_map]; rfl
  rw [hkeys, scorePairs_ren σ hσ, sortDescBy_map (renPair σ) (pget v) (pget (renPairwise σ v)) (pget_ren σ hσ v),
    sortDescBy_map (renPair σ) (pget (scorePairs sc v)) (pget (renPairwise σ (scorePairs sc v)))
      (pget_ren σ hσ (scorePairs sc v)), lockPairs_ren σ hσ, buildRanking_ren σ hσ]
  cases buildRanking (lockPairs (sortDescBy (pget (scorePairs sc v)) (sortDescBy (pget v) (v.map (·.1))))) with
  | error e => rfl
  | ok r =>
    simp only [Except.map, bind, Except.bind, ← List.map_take, List.map_map]
    rfl

end

example : Function.Injective (fun c : Cand => c + 5) := fun _ _ h => Nat.add_right_cancel h

example : ([((0, 1), (3 : Rat)), ((1, 0), 2), ((1, 2), 4), ((2, 1), 1)] : Pairwise).Perm
      [((1, 2), (4 : Rat)), ((0, 1), 3), ((2, 1), 1), ((1, 0), 2)] ∧
    RPDistinct .winningVotes ([((0, 1), (3 : Rat)), ((1, 0), 2), ((1, 2), 4), ((2, 1), 1)] : Pairwise) ∧
    RPDistinct .margins ([((0, 1), (3 : Rat)), ((1, 0), 2), ((1, 2), 4), ((2, 1), 1)] : Pairwise) ∧
    RPDistinct .pairwiseOpposition ([((0, 1), (3 : Rat)), ((1, 0), 2), ((1, 2), 4), ((2, 1), 1)] : Pairwise) := by
  decide +kernel

end VL.Perm
