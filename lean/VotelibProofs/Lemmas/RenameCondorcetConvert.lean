/-
  C10: `RankedToCondorcetVotes` commutes with every injective renaming of the candidates (duplicate-free ballots):
  the pairwise dict of the renamed profile is the renamed pairwise dict, up to insertion order.
-/
import VotelibProofs.Lemmas.RenameConvert
import VotelibProofs.Lemmas.RenameCondorcet
namespace VL.Perm
open VL VL.Convert VL.C10

/-- a dict whose keys are the `f`-images of the keys of `d` and whose values agree is `d` with renamed keys, up to order -/
theorem dict_perm_renKeys {κ : Type} [DecidableEq κ] (f : κ → κ) (hf : Function.Injective f) {d' d : Dict κ}
    (h1 : (dkeys d').Nodup) (h2 : (dkeys d).Nodup)
    (hk : ∀ k', k' ∈ dkeys d' ↔ ∃ k ∈ dkeys d, f k = k') (hv : ∀ k, toFun d' (f k) = toFun d k) :
    d'.Perm (d.map (fun e => (f e.1, e.2))) := by
  have hkeys : dkeys (d.map (fun e => (f e.1, e.2))) = (dkeys d).map f := by unfold dkeys; rw [List.map_map, List.map_map]; rfl
  have hto : ∀ k, toFun (d.map (fun e => (f e.1, e.2))) (f k) = toFun d k := by
    intro k
    unfold toFun
    rw [List.map_map]
    congr 1
    apply List.map_congr_left
    intro e _
    simp only [Function.comp]
    by_cases h : e.1 = k
    · simp [h]
    · have : f e.1 ≠ f k := fun hh => h (hf hh)
      simp [h, this]
  refine dict_perm_of_toFun_eq h1 (by rw [hkeys]; exact h2.map hf) (fun k' => ?_) (fun k' => ?_)
  · rw [hk, hkeys, List.mem_map]
  · by_cases hin : k' ∈ dkeys d'
    · obtain ⟨k, _, rfl⟩ := (hk k').mp hin
      rw [hv, hto]
    · rw [toFun_eq_zero_of_not_mem hin, toFun_eq_zero_of_not_mem]
      rw [hkeys, List.mem_map]
      exact fun hh => hin ((hk k').mpr hh)

section
variable (σ : Cand → Cand) (hσ : Function.Injective σ)
include hσ

theorem mem_ballotCands_ren_iff (b : Ballot) (c : Cand) : σ c ∈ ballotCands (renBallot σ b) ↔ c ∈ ballotCands b := by
  rw [mem_ballotCands_ren]
  constructor
  · rintro ⟨c', hc', e⟩; rw [← hσ e]; exact hc'
  · intro h; exact ⟨c, h, rfl⟩

theorem mem_renItem_iff (it : RankItem) (c : Cand) : σ c ∈ (renItem σ it).cands ↔ c ∈ it.cands := by
  rw [mem_renItem]
  constructor
  · rintro ⟨c', hc', e⟩; rw [← hσ e]; exact hc'
  · intro h; exact ⟨c, h, rfl⟩

theorem above_ren (b : Ballot) (x y : Cand) : Above (renBallot σ b) (σ x) (σ y) ↔ Above b x y := by
  induction b with
  | nil => exact Iff.rfl
  | cons it rest ih =>
    have : renBallot σ (it :: rest) = renItem σ it :: renBallot σ rest := rfl
    rw [this]
    simp only [Above]
    rw [mem_renItem_iff σ hσ, mem_ballotCands_ren_iff σ hσ, ih]

omit hσ in
theorem above_ren_image (b : Ballot) (x' y' : Cand) (h : Above (renBallot σ b) x' y') : ∃ x y, σ x = x' ∧ σ y = y' := by
  obtain ⟨x, _, hx⟩ := (mem_ballotCands_ren σ b x').mp (above_fst h)
  obtain ⟨y, _, hy⟩ := (mem_ballotCands_ren σ b y').mp (above_snd h)
  exact ⟨x, y, hx, hy⟩

theorem nodup_ballotCands_ren {b : Ballot} (hb : (ballotCands b).Nodup) : (ballotCands (renBallot σ b)).Nodup := by
  induction b with
  | nil => exact List.nodup_nil
  | cons it rest ih =>
    have e : renBallot σ (it :: rest) = renItem σ it :: renBallot σ rest := rfl
    rw [e, ballotCands_cons]
    rw [ballotCands_cons] at hb
    have hb' := List.nodup_append.mp hb
    refine List.nodup_append.mpr ⟨?_, ih hb'.2.1, ?_⟩
    · cases it with
      | one c => simp [renItem, RankItem.cands]
      | shared cs => exact nodup_canonSet _
    · intro a ha b' hb2 hab
      subst hab
      obtain ⟨c, hc, rfl⟩ := (mem_renItem σ it a).mp ha
      have := (mem_ballotCands_ren_iff σ hσ rest c).mp hb2
      exact hb'.2.2 c hc c this rfl

theorem mem_universe_ren (p : RProfile) (c : Cand) :
    σ c ∈ canonSet (allRankedCandidates (renRProfile σ p)) ↔ c ∈ canonSet (allRankedCandidates p) := by
  rw [mem_canonSet, mem_canonSet, (allRankedCandidates_ren σ hσ p).mem_iff, List.mem_map]
  constructor
  · rintro ⟨c', hc', e⟩; rw [← hσ e]; exact hc'
  · intro h; exact ⟨c, h, rfl⟩

theorem mem_condPairs_ren (ab : Bool) (p : RProfile) (b : Ballot) (x y : Cand) :
    (σ x, σ y) ∈ condPairs ab (canonSet (allRankedCandidates (renRProfile σ p))) (renBallot σ b) ↔
      (x, y) ∈ condPairs ab (canonSet (allRankedCandidates p)) b := by
  rw [mem_condPairs, mem_condPairs, above_ren σ hσ, mem_ballotCands_ren_iff σ hσ, mem_ballotCands_ren_iff σ hσ,
    mem_universe_ren σ hσ]

omit hσ in
theorem condPairs_ren_image (ab : Bool) (p : RProfile) (b : Ballot) (k' : Cand × Cand)
    (h : k' ∈ condPairs ab (canonSet (allRankedCandidates (renRProfile σ p))) (renBallot σ b)) :
    ∃ x y, (σ x, σ y) = k' := by
  obtain ⟨x', y'⟩ := k'
  rw [mem_condPairs] at h
  rcases h with h | ⟨_, hx, hy, _⟩
  · obtain ⟨x, y, hx, hy⟩ := above_ren_image σ _ _ _ h
    exact ⟨x, y, by rw [hx, hy]⟩
  · obtain ⟨x, _, hx⟩ := (mem_ballotCands_ren σ b x').mp hx
    rw [mem_canonSet, mem_allRankedCandidates] at hy
    obtain ⟨bw', hbw', hc⟩ := hy
    obtain ⟨bw, _, rfl⟩ := List.mem_map.1 hbw'
    obtain ⟨y, _, hy⟩ := (mem_ballotCands_ren σ bw.1 y').mp hc
    exact ⟨x, y, by rw [hx, hy]⟩

/-- **RankedToCondorcetVotes: renaming equivariance** (duplicate-free ballots): the pairwise dict of the renamed profile is the
    renamed pairwise dict up to insertion order -/
theorem rankedToCondorcet_ren (ab : Bool) (p : RProfile) (hb : ∀ bw ∈ p, (ballotCands bw.1).Nodup) :
    (rankedToCondorcet ab (renRProfile σ p)).Perm (renPairwise σ (rankedToCondorcet ab p)) := by
  have hinj : Function.Injective (fun k : Cand × Cand => (σ k.1, σ k.2)) := by
    intro a b h
    simp only [Prod.mk.injEq] at h
    exact Prod.ext (hσ h.1) (hσ h.2)
  refine dict_perm_renKeys (fun k : Cand × Cand => (σ k.1, σ k.2)) hinj (C13.condorcet_is_dict ab _ _) (C13.condorcet_is_dict ab _ p)
    (fun k' => ?_) (fun k => ?_)
  · unfold rankedToCondorcet
    rw [mem_dkeys_condorcetU]
    constructor
    · rintro ⟨bw', hbw', hk⟩
      obtain ⟨bw, hbw, rfl⟩ := List.mem_map.1 hbw'
      obtain ⟨x, y, rfl⟩ := condPairs_ren_image σ ab p bw.1 k' hk
      refine ⟨(x, y), ?_, rfl⟩
      rw [mem_dkeys_condorcetU]
      exact ⟨bw, hbw, (mem_condPairs_ren σ hσ ab p bw.1 x y).mp hk⟩
    · rintro ⟨k, hk, rfl⟩
      rw [mem_dkeys_condorcetU] at hk
      obtain ⟨bw, hbw, hmem⟩ := hk
      exact ⟨(renBallot σ bw.1, bw.2), List.mem_map.2 ⟨bw, hbw, rfl⟩, (mem_condPairs_ren σ hσ ab p bw.1 k.1 k.2).mpr hmem⟩
  · unfold rankedToCondorcet
    rw [C13.condorcet_sum ab _ _ _, C13.condorcet_sum ab _ p k]
    unfold renRProfile
    rw [wsum_map]
    apply wsum_congr
    intro bw hbw
    show cnt (condPairs ab (canonSet (allRankedCandidates (renRProfile σ p))) (renBallot σ bw.1)) (σ k.1, σ k.2) =
      cnt (condPairs ab (canonSet (allRankedCandidates p)) bw.1) (k.1, k.2)
    rw [cnt_condPairs ab (nodup_canonSet _) (nodup_ballotCands_ren σ hσ (hb bw hbw)),
      cnt_condPairs ab (nodup_canonSet _) (hb bw hbw)]
    have := mem_condPairs_ren σ hσ ab p bw.1 k.1 k.2
    by_cases hm : (k.1, k.2) ∈ condPairs ab (canonSet (allRankedCandidates p)) bw.1
    · rw [if_pos (this.mpr hm), if_pos hm]
    · rw [if_neg (fun hh => hm (this.mp hh)), if_neg hm]

end

end VL.Perm
